(** C19 — proofs about the transcription of HaviestPath (Algo.v): invariants of the label-correcting loop,
    optimality of the reconstructed path on acyclic graphs. *)
From Coq Require Import NArith PArith Nnat Znat List Bool Lia.
From OBI.C19 Require Import Model Proofs Algo.
Import ListNotations.
Open Scope N_scope.

(** ---------------- generic facts: run / run_pos *)
Section RunFacts.
Context {A : Type} (step : A -> option A).

Lemma run_add : forall n m a,
  run step (n + m) a = match run step n a with inr r => inr r | inl a' => run step m a' end.
Proof.
  induction n as [|n IH]; intros m a; [reflexivity|].
  cbn [Nat.add run]. destruct (step a) as [a'|]; [apply IH|reflexivity].
Qed.

Lemma run_pos_spec : forall p a, run_pos step p a = run step (Pos.to_nat p) a.
Proof.
  induction p as [p IH|p IH|]; intro a.
  - rewrite Pos2Nat.inj_xI. cbn [run_pos run]. destruct (step a) as [a1|]; [|reflexivity].
    replace (2 * Pos.to_nat p)%nat with (Pos.to_nat p + Pos.to_nat p)%nat by lia.
    rewrite run_add, <- IH. destruct (run_pos step p a1); [apply IH|reflexivity].
  - rewrite Pos2Nat.inj_xO. replace (2 * Pos.to_nat p)%nat with (Pos.to_nat p + Pos.to_nat p)%nat by lia.
    cbn [run_pos]. rewrite run_add, <- IH. destruct (run_pos step p a); [apply IH|reflexivity].
  - reflexivity.
Qed.

Lemma run_inv : forall (P : A -> Prop), (forall a a', P a -> step a = Some a' -> P a') ->
  forall n a r, P a -> run step n a = inr r -> P r /\ step r = None.
Proof.
  intros P HP. induction n as [|n IH]; intros a r Pa H; [discriminate|].
  cbn [run] in H. destruct (step a) as [a'|] eqn:E.
  - apply (IH a' r); [apply (HP a a' Pa E)|exact H].
  - inversion H; subst. split; assumption.
Qed.

(* a strictly decreasing measure bounds the number of iterations *)
Lemma run_terminates : forall (P : A -> Prop) (mu : A -> nat),
  (forall a a', P a -> step a = Some a' -> P a' /\ (mu a' < mu a)%nat) ->
  forall n a, P a -> (mu a < n)%nat -> exists r, run step n a = inr r.
Proof.
  intros P mu HP. induction n as [|n IH]; intros a Pa L; [lia|].
  cbn [run]. destruct (step a) as [a'|] eqn:E; [|eexists; reflexivity].
  destruct (HP a a' Pa E) as [Pa' M]. apply IH; [exact Pa'|lia].
Qed.
End RunFacts.

(** ---------------- small list facts *)
Lemma memb_In : forall x l, memb x l = true <-> In x l.
Proof.
  intros x l. unfold memb. rewrite existsb_exists. split.
  - intros (y & Hy & E). apply N.eqb_eq in E. subst. exact Hy.
  - intro H. exists x. split; [exact H|apply N.eqb_refl].
Qed.
Lemma memb_false : forall x l, memb x l = false <-> ~ In x l.
Proof. intros x l. rewrite <- memb_In. destruct (memb x l); split; intro H; congruence. Qed.

Lemma minl_in : forall l x, minl x l = x \/ In (minl x l) l.
Proof.
  induction l as [|y l IH]; intro x; [left; reflexivity|].
  cbn [minl]. destruct (IH (N.min x y)) as [E|I].
  - rewrite E. destruct (N.min_spec x y) as [[_ M]|[_ M]]; rewrite M; [left; reflexivity|right; left; reflexivity].
  - right; right; exact I.
Qed.
Lemma del1_in : forall m l x, In x (del1 m l) -> In x l.
Proof.
  induction l as [|y l IH]; intros x H; [destruct H|].
  cbn [del1] in H. destruct (N.eqb_spec y m); [right; exact H|].
  destruct H as [->|H]; [left; reflexivity|right; apply IH; exact H].
Qed.
Lemma del1_keep : forall m l x, In x l -> x <> m -> In x (del1 m l).
Proof.
  induction l as [|y l IH]; intros x H Hne; [destruct H|].
  cbn [del1]. destruct (N.eqb_spec y m) as [->|Hy].
  - destruct H as [<-|H]; [congruence|exact H].
  - destruct H as [->|H]; [left; reflexivity|right; apply IH; assumption].
Qed.
Lemma del1_length : forall m l, In m l -> S (length (del1 m l)) = length l.
Proof.
  induction l as [|y l IH]; intro H; [destruct H|].
  cbn [del1]. destruct (N.eqb_spec y m) as [->|Hy]; [reflexivity|].
  destruct H as [->|H]; [congruence|]. cbn [length]. rewrite IH; [reflexivity|exact H].
Qed.
Lemma pop_min_spec : forall q cur q', pop_min q = Some (cur, q') ->
  In cur q /\ (forall x, In x q' -> In x q) /\ (forall x, In x q -> x <> cur -> In x q') /\ S (length q') = length q.
Proof.
  intros q cur q' H. destruct q as [|x t]; [discriminate|].
  assert (E : cur = minl x t /\ q' = del1 (minl x t) (x :: t)) by (unfold pop_min in H; inversion H; split; reflexivity).
  destruct E as [-> ->]. clear H.
  assert (I : In (minl x t) (x :: t)) by (destruct (minl_in t x) as [->|I]; [left; reflexivity|right; exact I]).
  split; [exact I|]. split; [intros y Hy; eapply del1_in; exact Hy|]. split; [intros y Hy Hne; apply del1_keep; assumption|].
  apply del1_length. exact I.
Qed.

Lemma wsum_app : forall g a b, wsum g (a ++ b) = wsum g a + wsum g b.
Proof. intros g. induction a as [|x a IH]; intro b; [reflexivity|]. cbn [app wsum fold_right] in *. fold (wsum g (a ++ b)). fold (wsum g a). rewrite IH. lia. Qed.

Lemma weight_init : forall (f : N -> N) hs x,
  weight (map (fun h => (h, f h)) hs) x = if memb x hs then f x else 0.
Proof.
  intros f. induction hs as [|h hs IH]; intro x; [reflexivity|].
  cbn [map weight memb existsb]. rewrite (N.eqb_sym x h). destruct (N.eqb_spec h x) as [->|Hne]; [reflexivity|].
  cbn [orb]. apply IH.
Qed.

Lemma weight_le_maxw : forall g x, weight g x <= maxw g.
Proof.
  unfold maxw. induction g as [|[y v] g' IH]; intro x; [cbn; lia|].
  cbn [weight map snd maxl fold_right]. fold (maxl (map snd g')). destruct (y =? x); [lia|]. specialize (IH x). lia.
Qed.

Lemma wsum_le : forall g p, wsum g p <= N.of_nat (length p) * maxw g.
Proof.
  intro g. induction p as [|x p IH]; [cbn; lia|].
  change (wsum g (x :: p)) with (weight g x + wsum g p). cbn [length]. pose proof (weight_le_maxw g x). lia.
Qed.

Lemma wsum_rev : forall g p, wsum g (rev p) = wsum g p.
Proof.
  intro g. induction p as [|x p IH]; [reflexivity|]. cbn [rev]. rewrite wsum_app, IH. cbn [wsum fold_right]. fold (wsum g p). lia.
Qed.

(** ================= HaviestPath ================= *)
Section Hav.
Variables (k : N) (g : graph) (hs : list N).
Hypothesis Hacyc : has_cycle k g = false.
Hypothesis Hpos : forall x, mem g x = true -> 0 < weight g x.
Hypothesis Hhs : forall h, In h hs -> mem g h = true.
Hypothesis Hsrc : forall h y, In h hs -> mem g y = true -> ~ In h (nexts k g y).

Local Notation D st x := (weight (h_dist st) x).
Local Notation P st x := (weight (h_prev st) x).
Local Notation V st x := (getb (h_vis st) x).

Lemma no_self : forall x, mem g x = true -> ~ In x (nexts k g x).
Proof.
  intros x Hm Hx. assert (C : has_cycle k g = true).
  { apply (cycle_detected k g x []). cbn [app is_walk]. repeat split; assumption. }
  congruence.
Qed.

(* invariant of the main loop; while the successors of [cur] are being relaxed, the edges cur -> v with v in
   [todo] are not yet required to be relaxed *)
Record InvG (st : hstate) (cur : N) (todo : list N) : Prop := {
  i1 : forall v, 0 < D st v -> mem g v = true;
  i2 : forall h, In h hs -> D st h = weight g h;
  i3 : forall v, 0 < D st v -> ~ In v hs ->
         In v (nexts k g (P st v)) /\ 0 < D st (P st v) /\ D st v <= weight g v + D st (P st v);
  i4 : forall u v, 0 < D st u -> V st u = true -> In v (nexts k g u) ->
         (u = cur /\ In v todo) \/ weight g v + D st u <= D st v;
  i5 : forall v, 0 < D st v -> V st v = false -> In v (h_q st);
  i6 : forall v, 0 < D st v -> D st v <= h_hw st \/ V st v = false;
  i7 : h_hw st = 0 \/ D st (h_hn st) = h_hw st;
  i8 : forall x, In x (h_q st) -> 0 < D st x }.

Definition Inv (st : hstate) : Prop := InvG st 0 [].

Lemma InvG_nil : forall st c1 c2, InvG st c1 [] -> InvG st c2 [].
Proof.
  intros st c1 c2 H. destruct H as [j1 j2 j3 j4 j5 j6 j7 j8]. constructor; try assumption.
  intros u v Hu Hv Hn. destruct (j4 u v Hu Hv Hn) as [[_ []]|L]. right; exact L.
Qed.

Lemma relax_inv : forall st cur nx todo,
  InvG st cur (nx :: todo) -> 0 < D st cur -> V st cur = true -> In nx (nexts k g cur) ->
  let st' := relax g cur st nx in
  InvG st' cur todo /\ D st' cur = D st cur /\ V st' cur = true.
Proof.
  intros st cur nx todo H Hc Hv Hn. destruct H as [j1 j2 j3 j4 j5 j6 j7 j8].
  assert (Mc : mem g cur = true) by (apply j1; exact Hc).
  assert (Mn : mem g nx = true) by (eapply nexts_mem; exact Hn).
  assert (Ne : nx <> cur) by (intro E; subst; eapply no_self; eassumption).
  cbv zeta. unfold relax.
  destruct (D st nx <? weight g nx + D st cur) eqn:T.
  - apply N.ltb_lt in T. remember (weight g nx + D st cur) as w eqn:Ew.
    cbn [h_dist h_prev h_vis h_q h_hw h_hn].
    assert (Dn : forall x, weight ((nx, w) :: h_dist st) x = if nx =? x then w else D st x) by (intro x; reflexivity).
    assert (Pn : forall x, weight ((nx, cur) :: h_prev st) x = if nx =? x then cur else P st x) by (intro x; reflexivity).
    assert (Vn : forall x, getb ((nx, false) :: h_vis st) x = if nx =? x then false else V st x) by (intro x; reflexivity).
    assert (Dge : forall x, D st x <= weight ((nx, w) :: h_dist st) x).
    { intro x. rewrite Dn. destruct (N.eqb_spec nx x) as [E|?]; [subst x|]; lia. }
    assert (Dc : weight ((nx, w) :: h_dist st) cur = D st cur).
    { rewrite Dn. destruct (N.eqb_spec nx cur); [congruence|reflexivity]. }
    assert (Wp : 0 < w) by lia.
    split; [|split].
    + constructor; cbn [h_dist h_prev h_vis h_q h_hw h_hn].
      * intros v Hv0. rewrite Dn in Hv0. destruct (N.eqb_spec nx v) as [E|?]; [subst v; exact Mn|apply j1; exact Hv0].
      * intros h Hh. rewrite Dn. destruct (N.eqb_spec nx h) as [E|?]; [subst h|apply j2; exact Hh].
        exfalso. exact (Hsrc nx cur Hh Mc Hn).
      * intros v Hv0 Hnh. rewrite Pn. rewrite (Dn v) in *. destruct (N.eqb_spec nx v) as [E|Hnv]; [subst v|].
        -- split; [exact Hn|]. rewrite Dc. split; [exact Hc|lia].
        -- destruct (j3 v Hv0 Hnh) as (A1 & A2 & A3). split; [exact A1|].
           pose proof (Dge (P st v)). split; lia.
      * intros u v Hu0 Hvu Hnu. rewrite Vn in Hvu. rewrite (Dn u) in *.
        destruct (N.eqb_spec nx u) as [E|Hnu']; [subst u; discriminate|].
        destruct (j4 u v Hu0 Hvu Hnu) as [[Eu [Ev|Iv]]|L].
        -- subst. right. rewrite Dn, N.eqb_refl. lia.
        -- left. split; assumption.
        -- right. pose proof (Dge v). lia.
      * intros v Hv0 Hvv. rewrite Vn in Hvv. rewrite Dn in Hv0.
        destruct (N.eqb_spec nx v) as [E|?]; [subst v; left; reflexivity|right; apply j5; assumption].
      * intros v Hv0. rewrite Vn. rewrite (Dn v) in *.
        destruct (N.eqb_spec nx v) as [E|?]; [subst v; right; reflexivity|].
        destruct (j6 v Hv0) as [L|R]; [left|right; exact R].
        destruct (h_hw st <? w) eqn:Th; [apply N.ltb_lt in Th; lia|exact L].
      * destruct (h_hw st <? w) eqn:Th.
        -- right. rewrite Dn, N.eqb_refl. reflexivity.
        -- apply N.ltb_ge in Th. destruct j7 as [Z|E]; [lia|]. right.
           rewrite Dn. destruct (N.eqb_spec nx (h_hn st)) as [E2|?]; [|exact E]. rewrite <- E2 in E. lia.
      * intros x [<-|Hx]; rewrite Dn; [rewrite N.eqb_refl; exact Wp|].
        destruct (N.eqb_spec nx x); [exact Wp|apply j8; exact Hx].
    + exact Dc.
    + rewrite Vn. destruct (N.eqb_spec nx cur); [congruence|exact Hv].
  - apply N.ltb_ge in T. split; [|split; [reflexivity|exact Hv]].
    constructor; try assumption.
    intros u v Hu0 Hvu Hnu. destruct (j4 u v Hu0 Hvu Hnu) as [[Eu [Ev|Iv]]|L].
    + subst. right. exact T.
    + left. split; assumption.
    + right. exact L.
Qed.

Lemma fold_relax_inv : forall todo st cur,
  InvG st cur todo -> 0 < D st cur -> V st cur = true -> incl todo (nexts k g cur) ->
  InvG (fold_left (relax g cur) todo st) cur [].
Proof.
  induction todo as [|nx todo IH]; intros st cur H Hc Hv Hi; [exact H|].
  cbn [fold_left].
  destruct (relax_inv st cur nx todo H Hc Hv (Hi nx (or_introl eq_refl))) as (H' & Dc & Vc).
  apply IH; [exact H'|rewrite Dc; exact Hc|exact Vc|]. intros y Hy. apply Hi. right. exact Hy.
Qed.

Lemma hstep_inv : forall st st', Inv st -> hstep k g st = Some st' -> Inv st'.
Proof.
  intros st st' H E. unfold hstep, hstep_with in E.
  destruct (pop_min (h_q st)) as [[cur q']|] eqn:Ep; [|discriminate].
  destruct (pop_min_spec _ _ _ Ep) as (Ic & Sub & Keep & _).
  destruct (getb (h_vis st) cur) eqn:Vc.
  - inversion E; subst; clear E. destruct H as [j1 j2 j3 j4 j5 j6 j7 j8]. constructor; cbn [h_dist h_prev h_vis h_q h_hw h_hn]; try assumption.
    + intros v Hv0 Hvv. apply Keep; [apply j5; assumption|]. intro; subst; congruence.
    + intros x Hx. apply j8. apply Sub. exact Hx.
  - inversion E; subst; clear E.
    assert (Hc : 0 < D st cur) by (destruct H as [j1 j2 j3 j4 j5 j6 j7 j8]; apply j8; exact Ic).
    apply (InvG_nil _ cur 0). apply fold_relax_inv.
    + destruct H as [j1 j2 j3 j4 j5 j6 j7 j8]. constructor; cbn [h_dist h_prev h_vis h_q h_hw h_hn]; try assumption.
      * intros u v Hu0 Hvu Hnu. cbn [getb] in Hvu. destruct (N.eqb_spec cur u) as [E|?]; [subst u|].
        -- left. split; [reflexivity|exact Hnu].
        -- destruct (j4 u v Hu0 Hvu Hnu) as [[_ []]|L]. right; exact L.
      * intros v Hv0 Hvv. cbn [getb] in Hvv. destruct (N.eqb_spec cur v) as [E|?]; [subst v; discriminate|].
        apply Keep; [apply j5; assumption|congruence].
      * intros v Hv0. cbn [getb]. destruct (N.eqb_spec cur v) as [E|?]; [subst v|].
        -- left. destruct (h_hw st <? D st cur) eqn:Th; [lia|apply N.ltb_ge in Th; exact Th].
        -- destruct (j6 v Hv0) as [L|R]; [left|right; exact R].
           destruct (h_hw st <? D st cur) eqn:Th; [apply N.ltb_lt in Th; lia|exact L].
      * destruct (h_hw st <? D st cur) eqn:Th; [right; reflexivity|exact j7].
      * intros x Hx. apply j8. apply Sub. exact Hx.
    + cbn [h_dist]. exact Hc.
    + cbn [h_vis getb]. rewrite N.eqb_refl. reflexivity.
    + intros y Hy. exact Hy.
Qed.

Lemma init_inv : Inv (hav_init g hs).
Proof.
  unfold Inv, hav_init. constructor; cbn [h_dist h_prev h_vis h_q h_hw h_hn].
  - intros v Hv. rewrite weight_init in Hv. destruct (memb v hs) eqn:M; [|lia]. apply Hhs. apply memb_In. exact M.
  - intros h Hh. rewrite weight_init. apply memb_In in Hh. rewrite Hh. reflexivity.
  - intros v Hv Hn. rewrite weight_init in Hv. apply memb_false in Hn. rewrite Hn in Hv. lia.
  - intros u v _ Hv. discriminate.
  - intros v Hv _. rewrite weight_init in Hv. destruct (memb v hs) eqn:M; [|lia]. apply memb_In. exact M.
  - intros v _. right. reflexivity.
  - left. reflexivity.
  - intros x Hx. rewrite weight_init. pose proof Hx as Hx'. apply memb_In in Hx. rewrite Hx. apply Hpos. apply Hhs. exact Hx'.
Qed.

(** ---------------- when the queue is empty *)
Section Final.
Variable st : hstate.
Hypothesis HI : Inv st.
Hypothesis Hq : h_q st = [].

Lemma final_closed : forall v, 0 < D st v -> V st v = true.
Proof.
  intros v Hv. destruct (getb (h_vis st) v) eqn:E; [reflexivity|].
  pose proof (i5 _ _ _ HI v Hv E) as I. rewrite Hq in I. destruct I.
Qed.

Lemma final_upper : forall p x, is_walk k g (x :: p) -> 0 < D st x -> D st x + wsum g p <= h_hw st.
Proof.
  induction p as [|y p IH]; intros x Hw Hx.
  - cbn [wsum fold_right]. destruct (i6 _ _ _ HI x Hx) as [L|R]; [lia|]. rewrite (final_closed x Hx) in R. discriminate.
  - destruct Hw as (Hm & Hy & Hw).
    destruct (i4 _ _ _ HI x y Hx (final_closed x Hx) Hy) as [[_ []]|L].
    assert (Hy0 : 0 < D st y) by (pose proof (Hpos y (nexts_mem _ _ _ _ Hy)); lia).
    specialize (IH y Hw Hy0). change (wsum g (y :: p)) with (weight g y + wsum g p). lia.
Qed.

Lemma final_optimal : forall h p, In h hs -> is_walk k g (h :: p) -> wsum g (h :: p) <= h_hw st.
Proof.
  intros h p Hh Hw. pose proof (i2 _ _ _ HI h Hh) as E.
  assert (H0 : 0 < D st h) by (rewrite E; apply Hpos; apply Hhs; exact Hh).
  pose proof (final_upper p h Hw H0). change (wsum g (h :: p)) with (weight g h + wsum g p). lia.
Qed.

Lemma final_prev : forall v, 0 < D st v -> ~ In v hs ->
  In v (nexts k g (P st v)) /\ 0 < D st (P st v) /\ D st v = weight g v + D st (P st v).
Proof.
  intros v Hv Hn. destruct (i3 _ _ _ HI v Hv Hn) as (A1 & A2 & A3). split; [exact A1|]. split; [exact A2|].
  destruct (i4 _ _ _ HI (P st v) v A2 (final_closed _ A2) A1) as [[_ []]|L]. lia.
Qed.

Lemma recon_spec : forall fuel cur acc, 0 < D st cur -> is_walk k g (cur :: acc) ->
  (length g <= fuel + length acc)%nat ->
  exists pre h rest, recon fuel hs (h_prev st) cur acc = Some (pre ++ cur :: acc) /\
    is_walk k g (pre ++ cur :: acc) /\ pre ++ [cur] = h :: rest /\ In h hs /\ wsum g (pre ++ [cur]) = D st cur.
Proof.
  induction fuel as [|f IH]; intros cur acc Hc Hw Hl.
  - exfalso. pose proof (acyclic_walk_short k g acc cur Hacyc Hw) as L. cbn [length] in L. lia.
  - cbn [recon]. destruct (memb cur hs) eqn:Mh.
    + apply memb_In in Mh. exists [], cur, []. cbn [app].
      split; [reflexivity|]. split; [exact Hw|]. split; [reflexivity|]. split; [exact Mh|].
      pose proof (i2 _ _ _ HI cur Mh) as E2. cbn [wsum fold_right]. lia.
    + apply memb_false in Mh. destruct (memb cur acc) eqn:Ma.
      * exfalso. apply memb_In in Ma. apply in_split in Ma. destruct Ma as (a & b & ->).
        assert (C : has_cycle k g = true).
        { apply (cycle_detected k g cur a). change (cur :: a ++ cur :: b) with ((cur :: a) ++ [cur] ++ b) in Hw.
          rewrite app_assoc in Hw. apply walk_prefix in Hw; [exact Hw|discriminate]. }
        congruence.
      * destruct (final_prev cur Hc Mh) as (A1 & A2 & A3).
        assert (Hw' : is_walk k g (P st cur :: cur :: acc)).
        { cbn [is_walk]. split; [apply (i1 _ _ _ HI); exact A2|]. split; [exact A1|exact Hw]. }
        destruct (IH (P st cur) (cur :: acc) A2 Hw') as (pre & h & rest & R1 & R2 & R3 & R4 & R5); [cbn [length]; lia|].
        exists (pre ++ [P st cur]), h, (rest ++ [cur]).
        split; [rewrite <- app_assoc; exact R1|]. split; [rewrite <- app_assoc; exact R2|].
        split; [rewrite R3; reflexivity|]. split; [exact R4|].
        rewrite wsum_app, R5. cbn [wsum fold_right]. lia.
Qed.

Lemma final_path : hs <> [] ->
  exists h rest, recon (S (S (length g))) hs (h_prev st) (h_hn st) [] = Some (h :: rest) /\
    In h hs /\ is_walk k g (h :: rest) /\ wsum g (h :: rest) = h_hw st /\
    (forall h' p', In h' hs -> is_walk k g (h' :: p') -> wsum g (h' :: p') <= wsum g (h :: rest)).
Proof.
  intro Hne. destruct hs as [|h0 hs'] eqn:Ehs; [congruence|]. rewrite <- Ehs in *.
  assert (Hh0 : In h0 hs) by (rewrite Ehs; left; reflexivity).
  assert (W0 : 0 < h_hw st).
  { pose proof (final_optimal h0 [] Hh0) as L. cbn [is_walk wsum fold_right] in L.
    pose proof (Hpos h0 (Hhs h0 Hh0)). specialize (L (conj (Hhs h0 Hh0) I)). lia. }
  destruct (i7 _ _ _ HI) as [Z|E]; [lia|].
  assert (Hn0 : 0 < D st (h_hn st)) by lia.
  destruct (recon_spec (S (S (length g))) (h_hn st) [] Hn0) as (pre & h & rest & R1 & R2 & R3 & R4 & R5).
  { cbn [is_walk]. split; [apply (i1 _ _ _ HI); exact Hn0|exact I]. }
  { lia. }
  rewrite R3 in *. exists h, rest. split; [exact R1|]. split; [exact R4|]. split; [exact R2|].
  split; [lia|]. intros h' p' Hh' Hw'. rewrite R5, E. apply final_optimal; assumption.
Qed.
End Final.

Lemma hstep_none : forall st, hstep k g st = None -> h_q st = [].
Proof.
  intros st H. unfold hstep, hstep_with in H. destruct (h_q st) as [|x t]; [reflexivity|].
  cbn [pop_min] in H. destruct (getb (h_vis st) (minl x t)); discriminate.
Qed.

(* partial correctness: whenever the loop finishes, the reconstructed path is a heaviest walk from a source *)
Theorem hav_partial : forall n st, hs <> [] -> run (hstep k g) n (hav_init g hs) = inr st ->
  exists h rest, recon (S (S (length g))) hs (h_prev st) (h_hn st) [] = Some (h :: rest) /\
    In h hs /\ is_walk k g (h :: rest) /\
    (forall h' p', In h' hs -> is_walk k g (h' :: p') -> wsum g (h' :: p') <= wsum g (h :: rest)).
Proof.
  intros n st Hne R.
  destruct (run_inv (hstep k g) Inv hstep_inv n _ _ init_inv R) as [HI Hn].
  destruct (final_path st HI (hstep_none st Hn) Hne) as (h & rest & A & B & C & _ & E).
  exists h, rest. split; [exact A|]. split; [exact B|]. split; [exact C|exact E].
Qed.

(** ---------------- termination of the main loop on acyclic graphs *)
Definition Bnd : N := N.of_nat (length g) * maxw g.

Lemma walk_bound : forall p, is_walk k g p -> wsum g p <= Bnd.
Proof.
  intros p Hw. destruct p as [|x q]; [destruct Hw|].
  pose proof (acyclic_walk_short k g q x Hacyc Hw) as L. pose proof (wsum_le g (x :: q)) as U.
  unfold Bnd. assert (N.of_nat (length (x :: q)) <= N.of_nat (length g)) by lia.
  pose proof (N.mul_le_mono_r _ _ (maxw g) H). lia.
Qed.

(* every distance is the total weight of a walk ending at the node *)
Definition T (st : hstate) : Prop :=
  forall v, 0 < D st v -> exists l, is_walk k g (rev (v :: l)) /\ wsum g (v :: l) = D st v.

Lemma T_bound : forall st v, T st -> D st v <= Bnd.
Proof.
  intros st v HT. destruct (N.eq_dec (D st v) 0) as [Z|NZ]; [lia|].
  destruct (HT v) as (l & Hw & E); [lia|]. rewrite <- E, <- wsum_rev. apply walk_bound. exact Hw.
Qed.

Lemma relax_T : forall st cur nx, T st -> 0 < D st cur -> mem g cur = true -> In nx (nexts k g cur) -> nx <> cur ->
  T (relax g cur st nx).
Proof.
  intros st cur nx HT Hc Mc Hn Ne. unfold relax.
  destruct (D st nx <? weight g nx + D st cur) eqn:Tst; [|exact HT].
  intros v Hv. cbn [h_dist] in *. cbn [weight] in Hv |- *.
  destruct (N.eqb_spec nx v) as [E|NE].
  - subst v. destruct (HT cur Hc) as (l & Hw & E). exists (cur :: l). split.
    + change (rev (nx :: cur :: l)) with (rev (cur :: l) ++ [nx]).
      cbn [rev] in Hw |- *. rewrite <- app_assoc. cbn [app].
      apply walk_app; [exact Hw|]. cbn [is_walk]. split; [exact Mc|]. split; [exact Hn|]. split; [eapply nexts_mem; exact Hn|exact I].
    + change (wsum g (nx :: cur :: l)) with (weight g nx + wsum g (cur :: l)). rewrite E. reflexivity.
  - apply HT. exact Hv.
Qed.

Fixpoint slack (Df : N -> N) (l : list N) : N := match l with [] => 0 | x :: t => (Bnd - Df x) + slack Df t end.
Definition muN (st : hstate) : N := N.of_nat (length (h_q st)) + 2 * slack (fun x => D st x) (nodes g).

Lemma slack_le : forall (D1 D2 : N -> N) l, (forall x, D1 x <= D2 x) -> slack D2 l <= slack D1 l.
Proof. intros D1 D2 l H. induction l as [|x t IH]; [cbn; lia|]. cbn [slack]. specialize (H x). lia. Qed.
Lemma slack_lt : forall (D1 D2 : N -> N) l y, (forall x, D1 x <= D2 x) -> D1 y < D2 y -> D2 y <= Bnd -> In y l ->
  slack D2 l + 1 <= slack D1 l.
Proof.
  intros D1 D2 l y H Hy Hb. induction l as [|x t IH]; intro Hi; [destruct Hi|].
  cbn [slack]. destruct Hi as [->|Hi].
  - pose proof (slack_le D1 D2 t H). lia.
  - specialize (IH Hi). specialize (H x). lia.
Qed.
Lemma slack_max : forall Df l, slack Df l <= N.of_nat (length l) * Bnd.
Proof. intros Df l. induction l as [|x t IH]; [cbn; lia|]. cbn [slack length]. lia. Qed.

Lemma relax_mu : forall st cur nx, T (relax g cur st nx) -> In nx (nexts k g cur) ->
  muN (relax g cur st nx) <= muN st.
Proof.
  intros st cur nx HT Hn. pose proof (T_bound _ nx HT) as Hb. unfold relax in *.
  destruct (D st nx <? weight g nx + D st cur) eqn:Tst; [|lia].
  apply N.ltb_lt in Tst. unfold muN. cbn [h_dist h_q length] in *.
  assert (S1 : slack (fun x => weight ((nx, weight g nx + D st cur) :: h_dist st) x) (nodes g) + 1
               <= slack (fun x => D st x) (nodes g)).
  { apply (slack_lt _ _ _ nx).
    - intro x. cbn [weight]. destruct (N.eqb_spec nx x) as [E|NE]; [subst x|]; lia.
    - cbn [weight]. rewrite N.eqb_refl. exact Tst.
    - exact Hb.
    - apply mem_nodes. eapply nexts_mem. exact Hn. }
  lia.
Qed.

Lemma fold_relax_all : forall todo st cur,
  InvG st cur todo -> T st -> 0 < D st cur -> V st cur = true -> incl todo (nexts k g cur) ->
  let st' := fold_left (relax g cur) todo st in InvG st' cur [] /\ T st' /\ muN st' <= muN st.
Proof.
  induction todo as [|nx todo IH]; intros st cur H HT Hc Hv Hi; [cbn [fold_left]; split; [exact H|split; [exact HT|lia]]|].
  cbn [fold_left].
  assert (Hn : In nx (nexts k g cur)) by (apply Hi; left; reflexivity).
  assert (Mc : mem g cur = true) by (apply (i1 _ _ _ H); exact Hc).
  assert (Ne : nx <> cur) by (intro E; subst; eapply no_self; eassumption).
  destruct (relax_inv st cur nx todo H Hc Hv Hn) as (H' & Dc & Vc).
  pose proof (relax_T st cur nx HT Hc Mc Hn Ne) as HT'.
  pose proof (relax_mu st cur nx HT' Hn) as Hm.
  destruct (IH (relax g cur st nx) cur H' HT') as (A & B & C).
  - rewrite Dc; exact Hc.
  - exact Vc.
  - intros y Hy. apply Hi. right. exact Hy.
  - cbv zeta in *. split; [exact A|]. split; [exact B|lia].
Qed.

Definition Inv2 (st : hstate) : Prop := Inv st /\ T st.

Lemma pop_inv : forall st cur q', Inv st -> pop_min (h_q st) = Some (cur, q') -> V st cur = false ->
  InvG (mkH (h_dist st) (h_prev st) ((cur, true) :: h_vis st) q'
            (if h_hw st <? D st cur then D st cur else h_hw st) (if h_hw st <? D st cur then cur else h_hn st))
       cur (nexts k g cur).
Proof.
  intros st cur q' H Ep Vc. destruct (pop_min_spec _ _ _ Ep) as (Ic & Sub & Keep & Len).
  destruct H as [j1 j2 j3 j4 j5 j6 j7 j8]. constructor; cbn [h_dist h_prev h_vis h_q h_hw h_hn]; try assumption.
  - intros u v Hu0 Hvu Hnu. cbn [getb] in Hvu. destruct (N.eqb_spec cur u) as [E|NE].
    + subst u. left. split; [reflexivity|exact Hnu].
    + destruct (j4 u v Hu0 Hvu Hnu) as [[_ []]|L]. right; exact L.
  - intros v Hv0 Hvv. cbn [getb] in Hvv. destruct (N.eqb_spec cur v) as [E|NE]; [discriminate|].
    apply Keep; [apply j5; assumption|congruence].
  - intros v Hv0. cbn [getb]. destruct (N.eqb_spec cur v) as [E|NE].
    + subst v. left. destruct (h_hw st <? D st cur) eqn:Th; [lia|apply N.ltb_ge in Th; exact Th].
    + destruct (j6 v Hv0) as [L|R]; [left|right; exact R].
      destruct (h_hw st <? D st cur) eqn:Th; [apply N.ltb_lt in Th; lia|exact L].
  - destruct (h_hw st <? D st cur) eqn:Th; [right; reflexivity|exact j7].
  - intros x Hx. apply j8. apply Sub. exact Hx.
Qed.

Lemma hstep_inv2 : forall st st', Inv2 st -> hstep k g st = Some st' -> Inv2 st' /\ (N.to_nat (muN st') < N.to_nat (muN st))%nat.
Proof.
  intros st st' [H HT] E. pose proof (hstep_inv st st' H E) as H'.
  unfold hstep, hstep_with in E.
  destruct (pop_min (h_q st)) as [[cur q']|] eqn:Ep; [|discriminate].
  destruct (pop_min_spec _ _ _ Ep) as (Ic & Sub & Keep & Len).
  destruct (getb (h_vis st) cur) eqn:Vc; inversion E; subst; clear E.
  - split; [split; [exact H'|exact HT]|]. unfold muN. cbn [h_dist h_q]. lia.
  - assert (Hc : 0 < D st cur) by (apply (i8 _ _ _ H); exact Ic).
    pose proof (pop_inv st cur q' H Ep Vc) as G1.
    match type of G1 with InvG ?s1 _ _ => set (st1 := s1) in * end.
    assert (M1 : muN st1 + 1 = muN st) by (unfold muN, st1; cbn [h_dist h_q]; lia).
    destruct (fold_relax_all (nexts k g cur) st1 cur G1) as (_ & B & C).
    + exact HT.
    + exact Hc.
    + unfold st1. cbn [h_vis getb]. rewrite N.eqb_refl. reflexivity.
    + intros y Hy. exact Hy.
    + cbv zeta in B, C. split; [split; [exact H'|exact B]|lia].
Qed.

Lemma init_T : T (hav_init g hs).
Proof.
  intros v Hv. unfold hav_init in *. cbn [h_dist] in *. rewrite weight_init in *.
  destruct (memb v hs) eqn:M; [|lia]. exists []. cbn [rev app is_walk wsum fold_right]. split; [|lia].
  split; [apply Hhs; apply memb_In; exact M|exact I].
Qed.

Lemma init_mu : (length hs <= length g)%nat ->
  muN (hav_init g hs) <= N.of_nat (length g) + 2 * (N.of_nat (length g) * Bnd).
Proof.
  intro L. unfold muN, hav_init. cbn [h_q h_dist].
  pose proof (slack_max (fun x => weight (map (fun h => (h, weight g h)) hs) x) (nodes g)) as S.
  unfold nodes in S at 2. rewrite map_length in S. lia.
Qed.

(* total correctness: with the fuel hav_fuel the loop finishes *)
Theorem hav_terminates : (length hs <= length g)%nat ->
  exists st, run_pos (hstep k g) (hav_fuel g) (hav_init g hs) = inr st.
Proof.
  intro L. rewrite run_pos_spec.
  apply (run_terminates (hstep k g) Inv2 (fun st => N.to_nat (muN st))).
  - intros a a' Pa E. apply hstep_inv2; assumption.
  - split; [apply init_inv|apply init_T].
  - pose proof (init_mu L) as M. unfold hav_fuel, Bnd in *. cbv zeta.
    rewrite <- positive_N_nat, N.succ_pos_spec. lia.
Qed.
End Hav.
