(** C19 — round 3: NewKmerMap with maxoccurs >= 0 (obikmersim --max-kmers): the keys kept are those occurring fewer than
    maxoccurs times over all references, each with its complete list of references. *)
From Coq Require Import Arith NArith PArith List Bool Lia.
From OBI.C19 Require Import Model Algo Model3 Proofs R3Query.
Import ListNotations.
Open Scope N_scope.

Definition same_cap (m : N) (ixs ixn : kindex) : Prop :=
  forall key, idx_get ixs key = firstn (S (N.to_nat m)) (idx_get ixn key).

Lemma firstn_snoc_cap : forall (c : nat) (l : list N) (r : N),
  firstn (S c) (l ++ [r]) = if (length (firstn (S c) l) <=? c)%nat then firstn (S c) l ++ [r] else firstn (S c) l.
Proof.
  intros c l r. destruct (Nat.leb_spec (length (firstn (S c) l)) c) as [H|H].
  - rewrite firstn_length in H. assert (L : (length l <= c)%nat) by lia.
    rewrite (firstn_all2 (n := S c) l) by lia. apply firstn_all2. rewrite app_length. cbn [length]. lia.
  - rewrite firstn_length in H. assert (L : (S c <= length l)%nat) by lia.
    rewrite firstn_app. replace (S c - length l)%nat with 0%nat by lia. cbn [firstn]. apply app_nil_r.
Qed.

Lemma push1_cap : forall m rid ixs ixn key, same_cap m ixs ixn ->
  same_cap m (idx_push1 (Some m) rid ixs key) (idx_push1 None rid ixn key).
Proof.
  intros m rid ixs ixn key H key'. unfold idx_push1. rewrite idx_get_set.
  destruct (key =? key') eqn:E.
  - apply N.eqb_eq in E. subst key'. rewrite firstn_snoc_cap, <- (H key).
    destruct (N.of_nat (length (idx_get ixs key)) <=? m) eqn:L.
    + apply N.leb_le in L. rewrite idx_get_set, N.eqb_refl.
      destruct (Nat.leb_spec (length (idx_get ixs key)) (N.to_nat m)); [reflexivity|lia].
    + apply N.leb_gt in L. destruct (Nat.leb_spec (length (idx_get ixs key)) (N.to_nat m)); [lia|reflexivity].
  - destruct (N.of_nat (length (idx_get ixs key)) <=? m); [rewrite idx_get_set, E|]; apply H.
Qed.

Lemma push_cap : forall m rid keys ixs ixn, same_cap m ixs ixn ->
  same_cap m (idx_push (Some m) ixs rid keys) (idx_push None ixn rid keys).
Proof.
  intros m rid keys. unfold idx_push. induction keys as [|k keys IH]; intros ixs ixn H; cbn [fold_left]; [exact H|].
  apply IH. apply push1_cap. exact H.
Qed.

Lemma push_all_cap : forall m refs rid ixs ixn, same_cap m ixs ixn ->
  same_cap m (idx_push_all (Some m) ixs rid refs) (idx_push_all None ixn rid refs).
Proof.
  intros m refs. induction refs as [|ks refs IH]; intros rid ixs ixn H; cbn [idx_push_all]; [exact H|].
  apply IH. apply push_cap. exact H.
Qed.

(** keys of the association list stay distinct *)
Definition ikeys (ix : kindex) : list N := map fst ix.

Lemma idx_set_keys : forall ix key l x, In x (ikeys (idx_set ix key l)) <-> x = key \/ In x (ikeys ix).
Proof.
  unfold ikeys. induction ix as [|[y v] ix IH]; intros key l x; cbn [idx_set map fst In].
  - intuition.
  - destruct (y =? key) eqn:E; cbn [map fst In].
    + apply N.eqb_eq in E. subst y. intuition.
    + rewrite IH. intuition.
Qed.

Lemma idx_set_nodup : forall ix key l, NoDup (ikeys ix) -> NoDup (ikeys (idx_set ix key l)).
Proof.
  unfold ikeys. induction ix as [|[y v] ix IH]; intros key l H; cbn [idx_set map fst].
  - constructor; [intros []|constructor].
  - inversion H as [|? ? NI ND]; subst. destruct (y =? key) eqn:E; cbn [map fst].
    + constructor; assumption.
    + constructor; [|apply IH; exact ND]. intro I. apply (idx_set_keys ix key l y) in I.
      destruct I as [->|I]; [rewrite N.eqb_refl in E; discriminate|contradiction].
Qed.

Lemma push_all_nodup : forall mo refs rid ix, NoDup (ikeys ix) -> NoDup (ikeys (idx_push_all mo ix rid refs)).
Proof.
  intros mo refs. induction refs as [|ks refs IH]; intros rid ix H; cbn [idx_push_all]; [exact H|].
  apply IH. unfold idx_push. revert ix H. induction ks as [|k ks IHk]; intros ix H; cbn [fold_left]; [exact H|].
  apply IHk. unfold idx_push1. destruct mo as [m|]; [destruct (N.of_nat (length (idx_get ix k)) <=? m)|]; try exact H; apply idx_set_nodup; exact H.
Qed.

Lemma idx_get_notin : forall ix key, ~ In key (ikeys ix) -> idx_get ix key = [].
Proof.
  unfold ikeys. induction ix as [|[y v] ix IH]; intros key H; cbn [idx_get map fst In] in *; [reflexivity|].
  destruct (y =? key) eqn:E; [apply N.eqb_eq in E; subst; tauto|apply IH; tauto].
Qed.

Lemma idx_get_filter : forall (P : N * list N -> bool) ix key, NoDup (ikeys ix) ->
  idx_get (filter P ix) key = if idx_has ix key && P (key, idx_get ix key) then idx_get ix key else [].
Proof.
  unfold ikeys. intros P. induction ix as [|[y v] ix IH]; intros key H; cbn [filter idx_get idx_has map fst] in *; [reflexivity|].
  inversion H as [|? ? NI ND]; subst. destruct (y =? key) eqn:E.
  - apply N.eqb_eq in E. subst y. cbn [orb andb]. destruct (P (key, v)) eqn:Pv; cbn [idx_get].
    + rewrite N.eqb_refl. reflexivity.
    + rewrite IH by exact ND. rewrite (idx_get_notin ix key NI). destruct (idx_has ix key && P (key, [])); reflexivity.
  - cbn [orb]. destruct (P (y, v)); cbn [idx_get]; [rewrite E|]; apply IH; exact ND.
Qed.

Lemma idx_has_get : forall ix key, idx_has ix key = false -> idx_get ix key = [].
Proof.
  induction ix as [|[y v] ix IH]; intros key H; cbn [idx_has idx_get] in *; [reflexivity|].
  destruct (y =? key); [discriminate|apply IH; exact H].
Qed.

(* NewKmerMap(refs, k, sparse, m) with m >= 0: under every key, the references of the index built without limit when the
   key occurs fewer than m times in total (counted with multiplicity over all references), nothing otherwise *)
Theorem maxoccurs_index : forall m refs key,
  idx_get (build_index (Some m) refs) key =
  let l := idx_get (build_index None refs) key in if N.of_nat (length l) <? m then l else [].
Proof.
  intros m refs key. cbn zeta. unfold build_index.
  assert (C : same_cap m (idx_push_all (Some m) [] 0 refs) (idx_push_all None [] 0 refs)).
  { apply push_all_cap. intro k. cbn [idx_get]. reflexivity. }
  assert (ND : NoDup (ikeys (idx_push_all (Some m) [] 0 refs))) by (apply push_all_nodup; constructor).
  set (ixs := idx_push_all (Some m) [] 0 refs) in *. set (ixn := idx_push_all None [] 0 refs) in *.
  rewrite (idx_get_filter _ ixs key ND). cbn [snd]. rewrite (C key).
  set (l := idx_get ixn key) in *.
  destruct (N.of_nat (length l) <? m) eqn:L.
  - apply N.ltb_lt in L. rewrite (firstn_all2 (n := S (N.to_nat m)) l) by lia.
    replace (m <=? N.of_nat (length l)) with false by (symmetry; apply N.leb_gt; lia). cbn [negb]. rewrite andb_true_r.
    destruct (idx_has ixs key) eqn:Hh; [reflexivity|].
    apply idx_has_get in Hh. rewrite (C key) in Hh. fold l in Hh. rewrite (firstn_all2 (n := S (N.to_nat m)) l) in Hh by lia. symmetry. exact Hh.
  - apply N.ltb_ge in L. replace (m <=? N.of_nat (length (firstn (S (N.to_nat m)) l))) with true; [rewrite andb_false_r; reflexivity|].
    symmetry. apply N.leb_le. rewrite firstn_length. lia.
Qed.

(* hence the counts Query reports under maxoccurs: shared pairs over the k-mers that occur fewer than m times *)
Corollary maxoccurs_query_hits : forall m refs keys r,
  count_n r (query_hits (build_index (Some m) refs) keys) =
  count_n r (query_hits (build_index None refs) (filter (fun key => N.of_nat (length (idx_get (build_index None refs) key)) <? m) keys)).
Proof.
  intros m refs keys r. unfold query_hits. induction keys as [|k keys IH]; cbn [flat_map filter]; [reflexivity|].
  rewrite count_n_app, IH, maxoccurs_index. cbn zeta.
  destruct (N.of_nat (length (idx_get (build_index None refs) k)) <? m); cbn [flat_map count_n]; [rewrite count_n_app|]; reflexivity.
Qed.
