(** C19 — round 3: executable model of the code of pkg/obikmer that the round-3 check newly exercises:
    DeBruijnGraph.FilterMinWeight / WeightSpectrum / HammingDistance / MaxNext / MaxHead / MaxPath (the greedy
    walk behind BestConsensus), the coverage trimming of LongestConsensus (min_cov > 0), KmerMap.Push /
    NewKmerMap (index, maxoccurs) / Query / FilterMinCount, Index4mer / Sum4Mer / Common4Mer.
    Executable definitions only; the theorems are in R3*.v. *)
From Coq Require Import NArith List Bool.
From OBI.C19 Require Import Model Algo.
Import ListNotations.
Open Scope N_scope.

(** ================= DeBruijnGraph.FilterMinWeight / WeightSpectrum ================= *)
(* delete(g.graph, idx) for every count < umin *)
Definition filter_min (m : N) (g : graph) : graph := filter (fun p => negb (snd p <? m)) g.
(* WeightSpectrum: a slice of MaxWeight()+1 cells, cell i = number of nodes of weight i *)
Definition spectrum_len (g : graph) : N := maxw g + 1.
Definition spectrum_at (g : graph) (i : N) : N := count_n i (map snd g).

(** ================= DeBruijnGraph.HammingDistance ================= *)
Fixpoint popcount_pos (p : positive) : N :=
  match p with xH => 1 | xO q => popcount_pos q | xI q => 1 + popcount_pos q end.
Definition popcount (x : N) : N := match x with N0 => 0 | Npos p => popcount_pos p end.
Definition M5555 : N := 0x5555555555555555.
(* ident = ^((a & b) | (^a & ^b)) is a xor b on 64-bit words; ident |= ident >> 1; ident &= 0x5555... & kmermask *)
Definition ham_go (k a b : N) : N :=
  let x := N.lxor a b in
  popcount (N.land (N.lor x (N.shiftr x 1)) (N.land M5555 (dbg_mask k))).
(* specification: number of positions among the k bases (2 bits each) where the two k-mers differ *)
Definition digit4 (i : nat) (x : N) : N := N.land (N.shiftr x (2 * N.of_nat i)) 3.
Definition ham_spec (k : nat) (a b : N) : N :=
  N.of_nat (length (filter (fun i => negb (digit4 i a =? digit4 i b)) (seq 0 k))).

(** ================= greedy walk: MaxNext / MaxHead / MaxPath (BestConsensus) ================= *)
(* for _, idx := range ns { w := graph[idx]; if w > max { rep = idx; max = w } } starting from (0, 0) *)
Definition max_pick (g : graph) (acc : N * N) (y : N) : N * N :=
  if snd acc <? weight g y then (y, weight g y) else acc.
Definition max_next (k : N) (g : graph) (x : N) : option (N * N) :=
  match nexts k g x with
  | [] => None
  | ns => Some (fold_left (max_pick g) ns (0, 0))
  end.
(* MaxHead: [order] = iteration order of the Go map; found = some source node has a weight > 0 *)
Definition max_head (k : N) (g : graph) (order : list N) : option (N * N) :=
  let r := fold_left (max_pick g) (filter (fun x => match prevs k g x with [] => true | _ => false end) order) (0, 0) in
  if 0 <? snd r then Some r else None.
(* MaxPath: follow MaxNext from MaxHead until a node without successor; None = fuel exhausted (cyclic graph: the Go loop does not terminate) *)
Fixpoint greedy_from (fuel : nat) (k : N) (g : graph) (x : N) : option (list N) :=
  match fuel with
  | O => None
  | S f => match max_next k g x with
           | None => Some [x]
           | Some (y, _) => match greedy_from f k g y with None => None | Some p => Some (x :: p) end
           end
  end.
Definition max_path (k : N) (g : graph) (order : list N) : option (list N) :=
  match max_head k g order with
  | None => Some []
  | Some (h, _) => greedy_from (S (length g)) k g h
  end.

(** ================= LongestConsensus(id, min_cov) with min_cov > 0 ================= *)
(* obistats.Mode: a value of maximal frequency; ties are broken by the iteration order of a Go map: every candidate *)
Definition occs (l : list N) (v : N) : N := count_n v l.
Fixpoint dedup (l : list N) : list N :=
  match l with [] => [] | x :: t => x :: filter (fun y => negb (y =? x)) (dedup t) end.
Definition modes (l : list N) : list N :=
  let m := maxl (map (occs l) l) in filter (fun v => occs l v =? m) (dedup l).
(* mp = uint(float64(mode) * min_cov + 0.5) for a dyadic min_cov = num / 2^e (the float computation is then exact
   as long as mode * num < 2^52): floor ((2 * mode * num + 2^e) / 2^(e+1)) *)
Definition cov_threshold (mode num e : N) : N := (2 * mode * num + 2 ^ e) / 2 ^ (e + 1).
Fixpoint drop_low (g : graph) (mp : N) (p : list N) : list N :=
  match p with [] => [] | x :: t => if weight g x <? mp then drop_low g mp t else p end.
(* spath = path[from:to]; None = slice bounds panic (from > to: every node of a non-empty path is below mp) *)
Definition trim_cov (g : graph) (mp : N) (p : list N) : option (list N) :=
  match p with
  | [] => Some []
  | _ => match drop_low g mp p with
         | [] => None
         | q => Some (rev (drop_low g mp (rev q)))
         end
  end.
Inductive cres := CErr | CPanic | CSeq (s : list N).
(* the end of LongestConsensus(id, num / 2^e) once HaviestPath has answered [r] and obistats.Mode has answered [mode] *)
Definition cov_of_res (k : N) (g : graph) (r : hres) (num e mode : N) : cres :=
  match r with
  | HPath p =>
    match trim_cov g (cov_threshold mode num e) p with
    | None => CPanic
    | Some sp => match decode_path k sp with [] => CErr | s => CSeq s end
    end
  | HNil => CErr            (* nil path: Mode of nothing is 0, nothing to trim, empty decoding *)
  | _ => CPanic
  end.
(* the answers LongestConsensus may give: one per candidate mode of the weights along the heaviest path *)
Definition cov_all_of_res (k : N) (g : graph) (r : hres) (num e : N) : list cres :=
  match g with
  | [] => [CErr]                                   (* "graph is empty" *)
  | _ => match r with
         | HPath p => map (cov_of_res k g r num e) (modes (map (weight g) p))
         | _ => [cov_of_res k g r num e 0]
         end
  end.
Definition consensus_cov_all (k : N) (g : graph) (num e : N) : list cres :=
  cov_all_of_res k g (go_heaviest_path k g) num e.

(** ================= KmerMap: Push / NewKmerMap (maxoccurs) / Query / FilterMinCount ================= *)
(* index map[T][]*BioSequence: key -> references (numbered) in insertion order *)
Definition kindex := list (N * list N).
Fixpoint idx_get (ix : kindex) (key : N) : list N :=
  match ix with [] => [] | (y, l) :: t => if y =? key then l else idx_get t key end.
Fixpoint idx_has (ix : kindex) (key : N) : bool :=
  match ix with [] => false | (y, _) :: t => (y =? key) || idx_has t key end.
Fixpoint idx_set (ix : kindex) (key : N) (l : list N) : kindex :=
  match ix with
  | [] => [(key, l)]
  | (y, v) :: t => if y =? key then (y, l) :: t else (y, v) :: idx_set t key l
  end.
(* Push(sequence, maxoccurs): maxocc = None is -1 *)
Definition idx_push1 (maxocc : option N) (rid : N) (ix : kindex) (key : N) : kindex :=
  let l := idx_get ix key in
  match maxocc with
  | None => idx_set ix key (l ++ [rid])
  | Some m => if N.of_nat (length l) <=? m then idx_set ix key (l ++ [rid]) else ix
  end.
Definition idx_push (maxocc : option N) (ix : kindex) (rid : N) (keys : list N) : kindex :=
  fold_left (idx_push1 maxocc rid) keys ix.
Fixpoint idx_push_all (maxocc : option N) (ix : kindex) (rid : N) (refs : list (list N)) : kindex :=
  match refs with [] => ix | ks :: t => idx_push_all maxocc (idx_push maxocc ix rid ks) (rid + 1) t end.
(* NewKmerMap: push every reference, then (maxoccurs >= 0) delete the keys with len(s) >= maxoccurs;
   [refs] = the canonical k-mers of each reference (NormalizedKmerSlice) *)
Definition build_index (maxocc : option N) (refs : list (list N)) : kindex :=
  let ix := idx_push_all maxocc [] 0 refs in
  match maxocc with
  | None => ix
  | Some m => filter (fun p => negb (m <=? N.of_nat (length (snd p)))) ix
  end.
(* Query: the references found under the query's canonical k-mers, grouped; the count reported is (pairs + 1) *)
Definition query_hits (ix : kindex) (keys : list N) : list N := flat_map (idx_get ix) keys.
Definition query_count (ix : kindex) (keys : list N) (rid : N) : option N :=
  let c := count_n rid (query_hits ix keys) in if c =? 0 then None else Some (c + 1).
(* FilterMinCount(mincount) then Len(): number of references whose reported count is >= mincount *)
Definition match_count (ix : kindex) (keys : list N) (nrefs : nat) (mincount : N) : N :=
  N.of_nat (length (filter (fun r => match query_count ix keys r with Some n => negb (n <? mincount) | None => false end)
                           (map N.of_nat (seq 0 nrefs)))).

(** ================= 4-mer tables: Index4mer / Sum4Mer / Common4Mer ================= *)
(* Index4mer: for every code the positions where it occurs, increasing *)
Fixpoint positions_of (c : N) (pos : N) (l : list N) : list N :=
  match l with [] => [] | x :: t => (if x =? c then [pos] else []) ++ positions_of c (pos + 1) t end.
Definition index4 (s : list N) : option (list (N * list N)) :=
  match encode4 true s with
  | Some l => Some (filter (fun p => match snd p with [] => false | _ => true end) (map (fun c => (c, positions_of c 0 l)) codes256))
  | None => None
  end.
(* Count4Mer as the full table of 256 cells (uint16 cells) *)
Definition counts4 (s : list N) : list N :=
  match encode4 true s with Some l => map (fun c => count_n c l mod 65536) codes256 | None => [] end.
Definition sum4 (t : list N) : N := fold_right N.add 0 t.
Definition common4 (t1 t2 : list N) : N := fold_right N.add 0 (map (fun p => N.min (fst p) (snd p)) (combine t1 t2)).
