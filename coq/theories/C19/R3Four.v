(** C19 — round 3: Sum4Mer of a Count4Mer table is the number of 4-mer windows; Index4mer lists, for every code, the
    positions where Encode4mer produced it. *)
From Coq Require Import Arith NArith PArith List Bool Lia.
From OBI.C19 Require Import Model Algo Model3 Proofs.
Import ListNotations.
Open Scope N_scope.

Lemma code4_lt : forall s w, In w (windows 4 s) -> code4 w < 256.
Proof.
  intros s w H. unfold code4. pose proof (kval_bound (map base4 w) (digits_base4 w)) as B.
  rewrite map_length, (windows_length 4 s w H) in B. exact B.
Qed.

Lemma in_codes256 : forall x, x < 256 -> In x codes256.
Proof.
  intros x H. unfold codes256. apply in_map_iff. exists (N.to_nat x). split; [apply N2Nat.id|]. apply in_seq. lia.
Qed.

Lemma codes256_nodup : NoDup codes256.
Proof.
  unfold codes256. apply FinFun.Injective_map_NoDup; [intros a b E; apply Nat2N.inj; exact E|apply seq_NoDup].
Qed.

(* over a duplicate-free list of codes that contains x, exactly one cell counts x *)
Lemma sum_indicator : forall (cs : list N) x, NoDup cs -> In x cs ->
  fold_right N.add 0 (map (fun c => if x =? c then 1 else 0) cs) = 1.
Proof.
  induction cs as [|c cs IH]; intros x ND I; [destruct I|]. cbn [map fold_right].
  inversion ND as [|? ? NI ND']; subst. destruct I as [->|I].
  - rewrite N.eqb_refl. assert (Z : fold_right N.add 0 (map (fun c => if x =? c then 1 else 0) cs) = 0).
    { clear IH ND ND'. induction cs as [|d cs IH]; [reflexivity|]. cbn [map fold_right].
      destruct (x =? d) eqn:E; [apply N.eqb_eq in E; subst; exfalso; apply NI; left; reflexivity|].
      rewrite IH; [reflexivity|intro H; apply NI; right; exact H]. }
    rewrite Z. reflexivity.
  - destruct (x =? c) eqn:E; [apply N.eqb_eq in E; subst; contradiction|]. rewrite (IH x ND' I). reflexivity.
Qed.

Lemma sum_counts : forall (cs l : list N), NoDup cs -> (forall x, In x l -> In x cs) ->
  fold_right N.add 0 (map (fun c => count_n c l) cs) = N.of_nat (length l).
Proof.
  intros cs l ND. induction l as [|x l IH]; intro H.
  - clear H. cbn [count_n length]. induction cs as [|c cs IHc]; [reflexivity|]. cbn [map fold_right].
    inversion ND; subst. rewrite IHc by assumption. reflexivity.
  - assert (E : fold_right N.add 0 (map (fun c => count_n c (x :: l)) cs) =
               fold_right N.add 0 (map (fun c => if x =? c then 1 else 0) cs) + fold_right N.add 0 (map (fun c => count_n c l) cs)).
    { clear. induction cs as [|c cs IHc]; [reflexivity|]. cbn [map fold_right]. rewrite IHc. cbn [count_n]. lia. }
    rewrite E, sum_indicator, IH; [cbn [length]; lia| |exact ND|apply H; left; reflexivity].
    intros y Hy. apply H. right. exact Hy.
Qed.

(* Sum4Mer(Count4Mer(s)) = number of 4-mer windows of s = len(s) - 3 (0 below 4), as long as no uint16 cell wraps *)
Theorem sum4_counts4 : forall s, N.of_nat (length s) < 65539 -> sum4 (counts4 s) = N.of_nat (length s - 3).
Proof.
  intros s H. unfold sum4, counts4. rewrite encode4_spec.
  set (l := map code4 (windows 4 s)).
  assert (Len : length l = (length s - 3)%nat) by (unfold l; rewrite map_length, windows_count by lia; lia).
  assert (E : map (fun c => count_n c l mod 65536) codes256 = map (fun c => count_n c l) codes256).
  { apply map_ext. intro c. apply N.mod_small. pose proof (count_n_le c l). lia. }
  rewrite E, sum_counts; [rewrite Len; reflexivity|exact codes256_nodup|].
  intros x Hx. apply in_codes256. unfold l in Hx. apply in_map_iff in Hx. destruct Hx as (w & <- & Hw). apply (code4_lt s w Hw).
Qed.

(** Index4mer *)
Lemma positions_of_spec : forall c l pos p, In p (positions_of c pos l) <-> exists i, (i < length l)%nat /\ p = pos + N.of_nat i /\ nth i l (c + 1) = c.
Proof.
  intros c. induction l as [|x l IH]; intros pos p; cbn [positions_of length].
  - split; [intros []|intros (i & H & _); inversion H].
  - split; intro H.
    + apply in_app_or in H. destruct H as [H|H].
      * destruct (x =? c) eqn:E; [|destruct H]. destruct H as [<-|[]]. apply N.eqb_eq in E. exists 0%nat. cbn [nth].
        split; [apply Nat.lt_0_succ|]. split; [rewrite N.add_0_r; reflexivity|exact E].
      * apply IH in H. destruct H as (i & Hi & -> & Hn). exists (S i). cbn [nth].
        split; [apply -> Nat.succ_lt_mono; exact Hi|]. split; [rewrite Nat2N.inj_succ; lia|exact Hn].
    + destruct H as (i & Hi & -> & Hn). apply in_or_app. destruct i as [|i]; cbn [nth] in Hn.
      * left. subst x. rewrite N.eqb_refl. left. rewrite N.add_0_r. reflexivity.
      * right. apply IH. exists i. split; [apply Nat.succ_lt_mono; exact Hi|]. split; [rewrite Nat2N.inj_succ; lia|exact Hn].
Qed.

Lemma positions_of_length : forall c l pos, N.of_nat (length (positions_of c pos l)) = count_n c l.
Proof.
  intros c. induction l as [|x l IH]; intro pos; cbn [positions_of count_n]; [reflexivity|].
  rewrite app_length, Nat2N.inj_add, IH. destruct (x =? c); reflexivity.
Qed.

Lemma codes256_lt : forall c, In c codes256 -> c < 256.
Proof. intros c I. unfold codes256 in I. apply in_map_iff in I. destruct I as (n & <- & I). apply in_seq in I. lia. Qed.

(* every cell of the index holds exactly the positions (0-based, in sequence order) of the windows with that code:
   as many as Count4Mer counts *)
Theorem index4_spec : forall s ix, index4 s = Some ix ->
  forall c ps, In (c, ps) ix <-> (c < 256 /\ ps <> [] /\ ps = positions_of c 0 (map code4 (windows 4 s))).
Proof.
  intros s ix H c ps. unfold index4 in H. rewrite encode4_spec in H.
  pose proof codes256_lt as Hlt. pose proof in_codes256 as Hin.
  generalize dependent codes256. intros cs H Hlt Hin. injection H as <-.
  rewrite filter_In, in_map_iff. split.
  - intros [(c' & E & I) F]. injection E as -> <-. split; [apply Hlt; exact I|].
    split; [|reflexivity]. cbn [snd] in F. intro Z. rewrite Z in F. discriminate.
  - intros (C & NE & ->). split; [exists c; split; [reflexivity|apply Hin; exact C]|].
    cbn [snd]. destruct (positions_of c 0 (map code4 (windows 4 s))); [congruence|reflexivity].
Qed.
