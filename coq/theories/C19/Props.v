(** C19 — property theorems (statements only; every proof is [exact] of a lemma of Proofs.v).
    Exact De Bruijn weights and heaviest path; strand-invariant canonical k-mers; exact 4-mer tables. *)
From Coq Require Import NArith List Bool Permutation.
From OBI.C19 Require Import Model Proofs Algo KmerString Corr HavProofs DfsProofs AlgoProofs BuiltProofs SingleProofs DecodeProofs ConsProofs TablesProofs IupacCount IupacWin IupacProofs IupacStrand.
From OBI.C19.Gen Require Import Tables.
Import ListNotations.
Open Scope N_scope.

(** ---------------- canonical k-mers of the k-mer index (NewKmerMap + NormalizedKmerSlice, as repaired)
    [canon_spec km K s] = for every window of K consecutive bases of s without ambiguity code, in
    sequence order, [canon_km km w] = the smaller (after make_sparse) of the k-mer value [kval w] and
    of the value of its reverse complement [kval (rcw w)]. *)
Theorem C19_canonical_each_min : forall wd k0 sparse km s,
  new_kmap wd k0 sparse = Some km -> 0 < km_k km ->
  normalized_slice true km s = canon_spec km (N.to_nat (km_k km)) s.
Proof. exact normalized_slice_spec. Qed.

(* dense mode: the key is literally min (k-mer, reverse-complement k-mer) *)
Theorem C19_canonical_dense_is_min : forall km w, km_sparse km = false ->
  canon_km km w = N.min (kval w) (kval (rcw w)).
Proof. exact canon_km_dense. Qed.

(* sparse mode (k odd): make_sparse removes exactly the centre base of the k-mer *)
Theorem C19_sparse_ignores_centre : forall wd k0 km w, new_kmap wd k0 true = Some km ->
  digits w -> N.of_nat (length w) = km_k km ->
  make_sparse km (kval w) = kval (drop_centre w).
Proof. exact make_sparse_drops_centre. Qed.

(* a sequence and its reverse complement yield the same multiset of canonical k-mers
   (every word width, every k that NewKmerMap accepts, dense and sparse) *)
Theorem C19_canonical_strand_invariant : forall wd k0 sparse s a b, 0 < eff_k k0 sparse ->
  canon wd k0 sparse s = Some a -> canon wd k0 sparse (rcseq s) = Some b -> Permutation b a.
Proof. exact canon_strand_invariant. Qed.

(* the repaired mask is 4^k - 1 whenever the k-mer fits the word, including 2k = width;
   the index is refused (panic) exactly when it does not fit *)
Theorem C19_mask_exact : forall wd k, 0 < k -> 2 * k <= wd -> kmask wd k = Some (4 ^ k - 1).
Proof. exact kmask_value. Qed.
Theorem C19_mask_refuses_oversize : forall wd k, wd < 2 * k -> kmask wd k = None.
Proof. exact kmask_fails. Qed.

(* NewKmerMap succeeds exactly when the (effective) k-mer fits the word: 2k <= width, dense and sparse *)
Theorem C19_index_built_iff_fits : forall wd k0 sparse, 0 < eff_k k0 sparse ->
  ((exists km, new_kmap wd k0 sparse = Some km) <-> 2 * eff_k k0 sparse <= wd).
Proof. exact new_kmap_built_iff_fits. Qed.

Example C19_canonical_nonvacuous :
  canon 64 4 false wit_seq = Some [27; 70; 145; 228; 57; 14; 60] /\
  canon 64 4 false (rcseq wit_seq) = Some [60; 14; 57; 228; 145; 70; 27] /\
  canon 128 64 false wit_seq = Some [].
Proof. vm_compute. auto. Qed.

(** ---------------- De Bruijn graph weights (MakeDeBruijnGraph + Push, as repaired: length >= k)
    after pushing the sequences, the weight of every k-mer x is the sum over the sequences of
    count x (number of windows of the sequence equal to x) — sequences shorter than, equal to and
    longer than k, every k = 1..31, sequences over a/c/g/t/u. *)
Theorem C19_weights : forall k seqs, 1 <= k -> k <= 31 ->
  Forall (fun sq => unambiguous (fst sq)) seqs ->
  exists g, dbg_build k seqs = Some g /\ forall x, weight g x = total_weight (N.to_nat k) seqs x.
Proof. exact weights_exact. Qed.

(* ANY IUPAC sequence, code BEFORE the repair of the finding iupac-prefix-multiplicity ([dbg_build_pre]) — this is
   what that code computed, not what a symmetric reading of the property demands: the weight of x is the sum over the sequences of count x the number
   of nodes of the expansion tree ([pexp [] s]: every IUPAC expansion of every prefix of s, of length >= k) whose
   last k bases spell x; i.e. a window is counted once per expansion of ALL the bases before its end. *)
Theorem C19_weights_iupac_characterised : forall k seqs, 1 <= k -> k <= 31 ->
  Forall (fun sq => nonempty_codes (fst sq)) seqs ->
  exists g, dbg_build_pre k seqs = Some g /\ forall x, weight g x = total_prefix_weight k seqs x.
Proof. exact weights_iupac_exact. Qed.
(* ANY IUPAC sequence, code as repaired (finding iupac-prefix-multiplicity): the weight of x is the sum over the
   sequences of count x the number of windows of the sequence compatible with x (x is the k-mer of one IUPAC
   expansion of the window) — the symmetric per-window reading; sequences shorter than k contribute 0. *)
Theorem C19_weights_iupac : forall k seqs, 1 <= k -> k <= 31 ->
  Forall (fun sq => nonempty_codes (fst sq)) seqs ->
  exists g, dbg_build k seqs = Some g /\ forall x, weight g x = total_compat_weight (N.to_nat k) seqs x.
Proof. exact weights_iupac_window. Qed.
(* that weight is strand-symmetric: the reverse-complemented sequences give the reverse-complemented k-mer the same weight *)
Theorem C19_weights_iupac_strand_symmetric : forall K seqs e, (1 <= K)%nat -> digits e -> length e = K ->
  total_compat_weight K (rcseqs seqs) (kval (rcw e)) = total_compat_weight K seqs (kval e).
Proof. exact total_compat_weight_strand. Qed.
Theorem C19_expansion_node_kmer : forall k q, digits q -> kmer_of k q = kval (rev (firstn (N.to_nat k) q)).
Proof. exact kmer_of_long. Qed.

Example C19_weights_nonvacuous :
  unambiguous [97;99;103;116] /\ dbg_build 4 [([97;99;103;116], 2); ([99;103;116;97], 3); ([97;99;103;116;97], 1)] = Some [(27, 3); (108, 4)]
  /\ total_weight 4 [([97;99;103;116], 2); ([99;103;116;97], 3); ([97;99;103;116;97], 1)] 27 = 3.
Proof. split; [exists [0;1;2;3]; reflexivity|vm_compute; auto]. Qed.

(** ---------------- heaviest walk and cycles — first the SPECIFICATION [best_walk_weight] / [has_cycle]
    (layered dynamic programme over walks of at most |nodes| nodes), then (round 2) the Go ALGORITHMS themselves:
    HasCycle (recursive DFS with its visited / stack maps) and HaviestPath (label-correcting search driven by a
    min-heap of node ids, re-opening a node whose distance improves, then reconstruction through prevNodes),
    transcribed in Algo.v, proved equal to the specification and compared with the Go code on every run on the
    verdict and on the ACTUAL path. *)
(* the value returned is the maximum total weight over ALL walks of the graph that start at a source node *)
Theorem C19_best_walk_optimal : forall k g bw, best_walk_weight k g = Some bw ->
  has_cycle k g = false /\
  (forall h p, In h (heads k g) -> is_walk k g (h :: p) -> wsum g (h :: p) <= bw) /\
  (heads k g <> [] -> exists h p, In h (heads k g) /\ is_walk k g (h :: p) /\ wsum g (h :: p) = bw).
Proof. exact best_walk_optimal. Qed.
(* the edges walked: y follows x iff y is a node and y = x shifted by one base (oldest base dropped) plus a new base *)
Theorem C19_edges_overlap : forall k g x y, 1 <= k -> 2 * k < 64 ->
  (In y (nexts k g x) <-> mem g y = true /\ exists b, b < 4 /\ y = (4 * x) mod 4 ^ k + b).
Proof. exact nexts_spec. Qed.
(* the source nodes (Heads, computed through Previouses) of a graph built by Push are exactly the nodes without incoming edge *)
Theorem C19_heads_are_sources : forall k seqs g h, 1 <= k -> k <= 31 -> dbg_build k seqs = Some g ->
  (In h (heads k g) <-> In h (nodes g) /\ forall y, mem g y = true -> ~ In h (nexts k g y)).
Proof. exact built_heads_are_sources. Qed.
(* no walk is returned exactly when has_cycle answers true *)
Theorem C19_no_walk_iff_cycle : forall k g, best_walk_weight k g = None <-> has_cycle k g = true.
Proof. exact no_walk_iff_cycle. Qed.
(* has_cycle answers true exactly when the graph has a closed walk (pigeonhole on a walk of |nodes|+1 nodes) *)
Theorem C19_acyclic_iff_path : forall k g,
  has_cycle k g = true <-> exists x p, is_walk k g (x :: p ++ [x]).
Proof. exact has_cycle_iff. Qed.
Theorem C19_acyclic_walks_bounded : forall k g p x, has_cycle k g = false -> is_walk k g (x :: p) ->
  (length (x :: p) <= length g)%nat.
Proof. exact acyclic_walk_short. Qed.

Example C19_best_walk_nonvacuous :
  exists g, dbg_build 3 [([97;97;99;103;116], 2); ([97;97;99;99;103;116], 3)] = Some g /\
            has_cycle 3 g = false /\ heads 3 g = [1] /\ best_walk_weight 3 g = Some 16 /\
            is_walk 3 g [1; 5; 22; 27].
Proof. eexists. split; [vm_compute; reflexivity|]. vm_compute. intuition. Qed.


(** ---------------- the Go algorithms (Algo.v) *)
(* HasCycle: the DFS decides exactly has_cycle (= existence of a closed walk, C19_acyclic_iff_path), whatever the
   iteration order of the Go map; recursion depth <= |nodes| (fuel proved sufficient: the result is never None) *)
Theorem C19_hascycle_correct : forall k g order, (forall x, In x order <-> In x (nodes g)) ->
  go_has_cycle k g order = Some (has_cycle k g).
Proof. exact go_has_cycle_correct. Qed.

(* HaviestPath on a cyclic graph returns nil *)
Theorem C19_heaviest_path_nil_on_cycle : forall fuel k g order hs, (forall x, In x order <-> In x (nodes g)) ->
  has_cycle k g = true -> heaviest_path fuel k g order hs = HNil.
Proof. exact heaviest_path_cyclic. Qed.

(* HaviestPath on an acyclic graph with positive weights, started from any non-empty set [hs] of nodes without
   incoming edge (any iteration orders of the maps): the main loop TERMINATES within hav_fuel iterations, the
   reconstruction does not panic, and the returned path is a valid walk from a node of hs whose total weight is
   maximal among ALL walks starting in hs. The re-opening [visited[next] = false] is what makes the invariant
   "every settled node has all its out-edges relaxed" hold (C19_heaviest_path_noreopen_refuted). *)
Theorem C19_heaviest_path_optimal : forall k g order hs,
  (forall x, In x order <-> In x (nodes g)) ->
  has_cycle k g = false ->
  (forall x, mem g x = true -> 0 < weight g x) ->
  (forall h, In h hs -> mem g h = true) ->
  (forall h y, In h hs -> mem g y = true -> ~ In h (nexts k g y)) ->
  hs <> [] -> (length hs <= length g)%nat ->
  exists h rest, heaviest_path (hav_fuel g) k g order hs = HPath (h :: rest) /\ In h hs /\ is_walk k g (h :: rest) /\
    forall h' p', In h' hs -> is_walk k g (h' :: p') -> wsum g (h' :: p') <= wsum g (h :: rest).
Proof. exact heaviest_path_acyclic. Qed.

(* the call g.HaviestPath() on ANY graph built by Push from sequences with counts >= 1 (k = 1..31, non-empty graph):
   nil exactly when the specification returns no walk (cycle); otherwise the path is a walk from a source (Heads)
   whose weight IS the specified optimum best_walk_weight *)
Theorem C19_heaviest_path_is_best_walk : forall k seqs g, 1 <= k -> k <= 31 -> dbg_build k seqs = Some g ->
  Forall (fun sq => 0 < snd sq) seqs -> g <> [] ->
  match best_walk_weight k g with
  | None => has_cycle k g = true /\ go_heaviest_path k g = HNil
  | Some bw => exists h rest, go_heaviest_path k g = HPath (h :: rest) /\ In h (heads k g) /\
                 is_walk k g (h :: rest) /\ wsum g (h :: rest) = bw /\
                 forall h' p', In h' (heads k g) -> is_walk k g (h' :: p') -> wsum g (h' :: p') <= wsum g (h :: rest)
  end.
Proof. exact built_heaviest_path_optimal. Qed.

(* facts about graphs built by Push used above *)
Theorem C19_built_weights_positive : forall k seqs g, dbg_build k seqs = Some g ->
  Forall (fun sq => 0 < snd sq) seqs -> forall x, mem g x = true -> 0 < weight g x.
Proof. exact built_weights_positive. Qed.
Theorem C19_acyclic_has_source : forall k seqs g, 1 <= k -> k <= 31 -> dbg_build k seqs = Some g ->
  g <> [] -> has_cycle k g = false -> heads k g <> [].
Proof. exact acyclic_has_head. Qed.

(* binary fuel = unary fuel *)
Theorem C19_run_pos_is_run : forall (A : Type) (step : A -> option A) p a, run_pos step p a = run step (Pos.to_nat p) a.
Proof. intros A step. exact (run_pos_spec step). Qed.

(* seeded change C19-A: without the re-opening the returned walk is valid but not maximal (k = 3, gtcaga x5 + ggcaga x1) *)
Theorem C19_heaviest_path_noreopen_refuted : exists g, dbg_build 3 wit_bubble = Some g /\ has_cycle 3 g = false /\
  heaviest_path_with relax_noreopen (hav_fuel g) 3 g (nodes g) (heads 3 g) = HPath [45; 52; 18] /\
  go_heaviest_path 3 g = HPath [45; 52; 18; 8] /\
  best_walk_weight 3 g = Some (wsum g [45; 52; 18; 8]) /\ wsum g [45; 52; 18] < wsum g [45; 52; 18; 8].
Proof. exact noreopen_suboptimal. Qed.

Example C19_heaviest_path_nonvacuous :
  exists g, dbg_build 3 [([97;97;99;103;116], 2); ([97;97;99;99;103;116], 3)] = Some g /\
            go_has_cycle 3 g (nodes g) = Some false /\ go_heaviest_path 3 g = HPath [1; 5; 22; 27] /\
            longest_consensus 3 g = Some [97;97;99;99;103;116].
Proof. eexists. split; [vm_compute; reflexivity|]. vm_compute. intuition. Qed.


(** ---------------- DecodePath, LongestConsensus, KmerAsString and the single-sequence clause *)
(* DecodePath inverts k-mer extraction on walks: the string returned for ANY walk of a built graph has length
   k + |walk| - 1 and its successive k-mers are exactly the nodes of the walk, in order; it is the only such string *)
Theorem C19_decode_path_spells_walk : forall k seqs g p, 1 <= k -> k <= 31 -> dbg_build k seqs = Some g -> is_walk k g p ->
  exists cs, digits cs /\ decode_path k p = map decode cs /\
             length cs = (N.to_nat k + length p - 1)%nat /\ kmers (N.to_nat k) cs = p.
Proof. exact decode_path_spells_walk_built. Qed.
Theorem C19_decode_path_unique : forall k p cs, 1 <= k -> p <> [] -> digits cs ->
  kmers (N.to_nat k) cs = p -> decode_path k p = map decode cs.
Proof. exact decode_path_spelling_unique. Qed.

(* LongestConsensus(id, 0) on a non-empty graph built by Push (counts >= 1): an error exactly when the graph has a cycle;
   otherwise the bases of a string whose k-mers are the path of HaviestPath, a walk from a source of maximal total weight *)
Theorem C19_longest_consensus : forall k seqs g, 1 <= k -> k <= 31 -> dbg_build k seqs = Some g ->
  Forall (fun sq => 0 < snd sq) seqs -> g <> [] ->
  match best_walk_weight k g with
  | None => has_cycle k g = true /\ longest_consensus k g = None
  | Some bw => exists cs p, longest_consensus k g = Some (map decode cs) /\ digits cs /\
                 length cs = (N.to_nat k + length p - 1)%nat /\ kmers (N.to_nat k) cs = p /\
                 go_heaviest_path k g = HPath p /\ is_walk k g p /\ wsum g p = bw /\
                 (exists h rest, p = h :: rest /\ In h (heads k g)) /\
                 forall h' p', In h' (heads k g) -> is_walk k g (h' :: p') -> wsum g (h' :: p') <= wsum g p
  end.
Proof. exact longest_consensus_spec. Qed.

(* "a single sequence without repeated k-mer is returned unchanged" — the EXACT condition is: no repeated (k-1)-mer.
   Under it (k = 2..31, sequence over a/c/g/t/u of length >= k, count >= 1) the graph is acyclic, HaviestPath returns the
   k-mers of the sequence in order, and DecodePath / LongestConsensus return the sequence itself (u read as t) *)
Theorem C19_single_sequence : forall k s c cs g, 2 <= k -> k <= 31 -> 0 < c ->
  all_some (map ocode s) = Some cs -> (N.to_nat k <= length cs)%nat ->
  NoDup (windows (N.to_nat k - 1) cs) ->
  dbg_build k [(s, c)] = Some g ->
  has_cycle k g = false /\
  go_heaviest_path k g = HPath (kmers (N.to_nat k) cs) /\
  decode_path k (kmers (N.to_nat k) cs) = map decode cs /\
  longest_consensus k g = Some (map decode cs).
Proof. exact single_sequence_unchanged. Qed.
(* the condition is exact: the graph of a single sequence is acyclic IFF no (k-1)-mer is repeated; with a repeat nothing is returned *)
Theorem C19_single_sequence_acyclic_iff : forall k s c cs g, 2 <= k -> k <= 31 -> 0 < c ->
  all_some (map ocode s) = Some cs -> (N.to_nat k <= length cs)%nat ->
  dbg_build k [(s, c)] = Some g ->
  (has_cycle k g = false <-> NoDup (windows (N.to_nat k - 1) cs)).
Proof. exact single_sequence_acyclic_iff. Qed.
(* the clause as worded in the property text ("without repeated k-mer") is false: acgac, k = 3 *)
Theorem C19_single_sequence_kmers_distinct_refuted : exists s cs g, all_some (map ocode s) = Some cs /\ NoDup (windows 3 cs) /\
  dbg_build 3 [(s, 1)] = Some g /\ has_cycle 3 g = true /\ go_heaviest_path 3 g = HNil.
Proof. exact single_sequence_kmers_distinct_not_enough. Qed.

(* KmerAsString: the string of a dense key is the k-mer itself; of a sparse key (k odd >= 3) the k-mer with its centre
   base replaced by '#'; the indexed writes never leave the buffer *)
Theorem C19_kmer_string_dense : forall km w, km_sparse km = false -> digits w -> N.of_nat (length w) = km_k km ->
  kmer_string km (kval w) = map decode w.
Proof. exact kmer_string_dense. Qed.
Theorem C19_kmer_string_sparse : forall wd k0 km w, new_kmap wd k0 true = Some km -> 3 <= km_k km ->
  digits w -> N.of_nat (length w) = km_k km ->
  kmer_string km (make_sparse km (kval w)) =
  map decode (firstn (Nat.div (length w) 2) w) ++ [35] ++ map decode (skipn (Nat.add (Nat.div (length w) 2) 1) w).
Proof. exact kmer_string_make_sparse. Qed.
Theorem C19_kmer_string_never_panics : forall km sat x, kmer_as_string_buf km sat x = Some (kmer_as_string km sat x).
Proof. exact kmer_as_string_buf_eq. Qed.

(** ---------------- regenerated tables (Gen/Tables.v is rewritten from the CURRENT build before every Coq build;
    these theorems are re-proved by the kernel over the regenerated lists on every run) *)
(* the hand-transcribed tables of Model.v / Algo.v ARE the tables of the code *)
Theorem C19_tables_model_agree : forall b, b < 256 ->
  Model.iupac b = tab_iupac b /\ Model.revcompnuc b = tab_revcomp b /\
  Model.base4 b = nth (N.to_nat (N.land b 31)) single_tab 0 /\ Algo.decode b = tab_decode b.
Proof. intros b Hb. repeat split; [apply tab_model_iupac|apply tab_model_revcompnuc|apply tab_model_base4|apply tab_model_decode]; exact Hb. Qed.
(* the expansion of each IUPAC letter is its standard base set (16 letters, codes strictly increasing, < 4) *)
Theorem C19_tables_iupac_standard : keys iupac_tab = letters /\ forall b, b < 256 -> tab_iupac b = iupac_set b.
Proof. split; [exact tab_iupac_keys|exact tab_iupac_is_standard]. Qed.
Theorem C19_tables_iupac_codes_sorted : forall b codes, In (b, codes) iupac_tab ->
  codes <> [] /\ incr codes = true /\ forall c, In c codes -> c < 4.
Proof. exact tab_iupac_codes_sorted_lt4. Qed.
(* complement consistency: the complement letter expands to the complemented base set; involution except u -> a -> t *)
Theorem C19_tables_complement_consistent : forall b, In b (keys iupac_tab) ->
  In b (keys revcomp_tab) /\ In (tab_revcomp b) (keys iupac_tab) /\ tab_iupac (tab_revcomp b) = comp_set (tab_iupac b).
Proof. exact tab_revcomp_consistent. Qed.
Theorem C19_tables_complement_involution : forall b, In b (keys iupac_tab) -> b <> 117 -> tab_revcomp (tab_revcomp b) = b.
Proof. exact tab_revcomp_involution. Qed.
(* decode inverts the unambiguous codes; the 4-mer base codes *)
Theorem C19_tables_decode_inverts : forall c, c < 4 -> tab_iupac (tab_decode c) = [c].
Proof. exact tab_decode_encodes. Qed.
Theorem C19_tables_single_base_code : single_tab = map single_spec idx32 /\
  tab_single 97 = 0 /\ tab_single 99 = 1 /\ tab_single 103 = 2 /\ tab_single 116 = 3 /\ tab_single 117 = 3.
Proof. split; [exact tab_single_table|exact tab_single_acgtu]. Qed.

(** ---------------- 4-mer tables (Encode4mer + Count4Mer, as repaired for length 3)
    code4 w = base-4 value of the window, every symbol other than a/c/g/t/u read as a (stated);
    the table cell is the number of windows with that code, modulo 2^16 (uint16 cells) *)
Theorem C19_count4_wraps_at_65536 : forall s c,
  count4 s c = Some (count_n c (map code4 (windows 4 s)) mod 65536).
Proof. exact count4_wrap. Qed.
Theorem C19_count4 : forall s c, N.of_nat (length s) < 65539 ->
  count4 s c = Some (count_n c (map code4 (windows 4 s))).
Proof. exact count4_exact. Qed.

(** the original code violates the property (witnesses replayed on the real code by check C19) *)
Theorem C19_canonical_refuted :
  exists wd k s a b, canon_orig wd k false s = Some a /\ canon_orig wd k false (rcseq s) = Some b /\
                     ~ Permutation a b.
Proof. exact canon_orig_strand_dependent. Qed.
Theorem C19_mask_full_word_refuted :
  canon_orig 128 64 false wit_seq = None /\ canon_orig 64 32 false wit_seq = None /\ canon_orig 256 128 false wit_seq = None.
Proof. exact kmask_orig_panics_full_word. Qed.
Theorem C19_weights_length_k_refuted :
  exists k s, N.of_nat (length s) = k /\ dbg_build_orig k [(s, 1)] = Some [] /\ dbg_build k [(s, 1)] = Some [(27, 1)].
Proof. exact push_orig_ignores_length_k. Qed.
(* finding iupac-prefix-multiplicity, now repaired: in the code before the repair ([dbg_build_pre]) with ambiguity codes the weight is neither
   count x occurrences in the full expansions nor count x compatible windows, and depends on the reading direction *)
Theorem C19_weights_iupac_refuted :
  exists k s x g, dbg_build_pre k [(s, 1)] = Some g /\
    weight g x <> full_occ (N.to_nat k) s x /\ weight g x <> compat_occ (N.to_nat k) s x /\
    weight g x = 4 /\ full_occ (N.to_nat k) s x = 16 /\ compat_occ (N.to_nat k) s x = 1.
Proof. exact weights_iupac_neither_reading. Qed.
Theorem C19_weights_iupac_direction_refuted :
  exists g1 g2, dbg_build_pre 2 [([110; 97; 99], 1)] = Some g1 /\ dbg_build_pre 2 [([97; 99; 110], 1)] = Some g2 /\
                weight g1 1 = 4 /\ weight g2 1 = 1.
Proof. exact weights_iupac_direction. Qed.
(* after the repair both reading directions give the window `ac` the weight 1 *)
Example C19_weights_iupac_nonvacuous :
  exists g1 g2, dbg_build 2 [([110; 97; 99], 1)] = Some g1 /\ dbg_build 2 [([97; 99; 110], 1)] = Some g2 /\
                weight g1 1 = 1 /\ weight g2 1 = 1 /\ compat_occ 2 [110; 97; 99] 1 = 1 /\ compat_occ 2 [97; 99; 110] 1 = 1.
Proof. eexists. eexists. split; [vm_compute; reflexivity|]. split; [vm_compute; reflexivity|]. vm_compute. auto. Qed.
Theorem C19_count4_length_3_refuted : count4_table false [97;99;103] = None /\ count4_table true [97;99;103] = Some [].
Proof. exact encode4_orig_panics_length_3. Qed.

Print Assumptions C19_canonical_each_min.
Print Assumptions C19_canonical_dense_is_min.
Print Assumptions C19_canonical_strand_invariant.
Print Assumptions C19_mask_exact.
Print Assumptions C19_mask_refuses_oversize.
Print Assumptions C19_weights.
Print Assumptions C19_count4_wraps_at_65536.
Print Assumptions C19_count4.
Print Assumptions C19_best_walk_optimal.
Print Assumptions C19_no_walk_iff_cycle.
Print Assumptions C19_acyclic_iff_path.
Print Assumptions C19_acyclic_walks_bounded.
Print Assumptions C19_sparse_ignores_centre.
Print Assumptions C19_weights_iupac_refuted.
Print Assumptions C19_weights_iupac_direction_refuted.
Print Assumptions C19_weights_iupac_characterised.
Print Assumptions C19_weights_iupac.
Print Assumptions C19_weights_iupac_strand_symmetric.
Print Assumptions C19_expansion_node_kmer.
Print Assumptions C19_edges_overlap.
Print Assumptions C19_index_built_iff_fits.
Print Assumptions C19_heads_are_sources.
Print Assumptions C19_canonical_refuted.
Print Assumptions C19_mask_full_word_refuted.
Print Assumptions C19_weights_length_k_refuted.
Print Assumptions C19_count4_length_3_refuted.
Print Assumptions C19_hascycle_correct.
Print Assumptions C19_heaviest_path_nil_on_cycle.
Print Assumptions C19_heaviest_path_optimal.
Print Assumptions C19_heaviest_path_is_best_walk.
Print Assumptions C19_built_weights_positive.
Print Assumptions C19_acyclic_has_source.
Print Assumptions C19_run_pos_is_run.
Print Assumptions C19_heaviest_path_noreopen_refuted.
Print Assumptions C19_tables_model_agree.
Print Assumptions C19_tables_iupac_standard.
Print Assumptions C19_tables_iupac_codes_sorted.
Print Assumptions C19_tables_complement_consistent.
Print Assumptions C19_tables_complement_involution.
Print Assumptions C19_tables_decode_inverts.
Print Assumptions C19_tables_single_base_code.
Print Assumptions C19_decode_path_spells_walk.
Print Assumptions C19_decode_path_unique.
Print Assumptions C19_longest_consensus.
Print Assumptions C19_single_sequence.
Print Assumptions C19_single_sequence_acyclic_iff.
Print Assumptions C19_single_sequence_kmers_distinct_refuted.
Print Assumptions C19_kmer_string_dense.
Print Assumptions C19_kmer_string_sparse.
Print Assumptions C19_kmer_string_never_panics.
