(** C19 — property theorems (statements only; every proof is [exact] of a lemma of Proofs.v).
    Exact De Bruijn weights and heaviest path; strand-invariant canonical k-mers; exact 4-mer tables. *)
From Coq Require Import NArith List Bool Permutation.
From OBI.C19 Require Import Model Proofs.
Import ListNotations.
Open Scope N_scope.

(** ---------------- canonical k-mers of the k-mer index (NewKmerMap + NormalizedKmerSlice, as repaired)
    [canon_spec km K s] = for every window of K consecutive bases of s without ambiguity code, in
    sequence order, [canon_km km w] = the smaller (after make_sparse) of the k-mer value [kval w] and
    of the value of its reverse complement [kval (rcw w)]. *)
Theorem C19_canonical_each_min : forall wd k0 sparse km s,
  new_kmap wd k0 sparse = Some km -> 0 < km_k km ->
  normalized_slice true km s = canon_spec km (N.to_nat (km_k km)) s.
Proof. exact normalized_slice_spec. Qed.

(* dense mode: the key is literally min (k-mer, reverse-complement k-mer) *)
Theorem C19_canonical_dense_is_min : forall km w, km_sparse km = false ->
  canon_km km w = N.min (kval w) (kval (rcw w)).
Proof. exact canon_km_dense. Qed.

(* sparse mode (k odd): make_sparse removes exactly the centre base of the k-mer *)
Theorem C19_sparse_ignores_centre : forall wd k0 km w, new_kmap wd k0 true = Some km ->
  digits w -> N.of_nat (length w) = km_k km ->
  make_sparse km (kval w) = kval (drop_centre w).
Proof. exact make_sparse_drops_centre. Qed.

(* a sequence and its reverse complement yield the same multiset of canonical k-mers
   (every word width, every k that NewKmerMap accepts, dense and sparse) *)
Theorem C19_canonical_strand_invariant : forall wd k0 sparse s a b, 0 < eff_k k0 sparse ->
  canon wd k0 sparse s = Some a -> canon wd k0 sparse (rcseq s) = Some b -> Permutation b a.
Proof. exact canon_strand_invariant. Qed.

(* the repaired mask is 4^k - 1 whenever the k-mer fits the word, including 2k = width;
   the index is refused (panic) exactly when it does not fit *)
Theorem C19_mask_exact : forall wd k, 0 < k -> 2 * k <= wd -> kmask wd k = Some (4 ^ k - 1).
Proof. exact kmask_value. Qed.
Theorem C19_mask_refuses_oversize : forall wd k, wd < 2 * k -> kmask wd k = None.
Proof. exact kmask_fails. Qed.

(* NewKmerMap succeeds exactly when the (effective) k-mer fits the word: 2k <= width, dense and sparse *)
Theorem C19_index_built_iff_fits : forall wd k0 sparse, 0 < eff_k k0 sparse ->
  ((exists km, new_kmap wd k0 sparse = Some km) <-> 2 * eff_k k0 sparse <= wd).
Proof. exact new_kmap_built_iff_fits. Qed.

Example C19_canonical_nonvacuous :
  canon 64 4 false wit_seq = Some [27; 70; 145; 228; 57; 14; 60] /\
  canon 64 4 false (rcseq wit_seq) = Some [60; 14; 57; 228; 145; 70; 27] /\
  canon 128 64 false wit_seq = Some [].
Proof. vm_compute. auto. Qed.

(** ---------------- De Bruijn graph weights (MakeDeBruijnGraph + Push, as repaired: length >= k)
    after pushing the sequences, the weight of every k-mer x is the sum over the sequences of
    count x (number of windows of the sequence equal to x) — sequences shorter than, equal to and
    longer than k, every k = 1..31, sequences over a/c/g/t/u. *)
Theorem C19_weights : forall k seqs, 1 <= k -> k <= 31 ->
  Forall (fun sq => unambiguous (fst sq)) seqs ->
  exists g, dbg_build k seqs = Some g /\ forall x, weight g x = total_weight (N.to_nat k) seqs x.
Proof. exact weights_exact. Qed.

(* ANY IUPAC sequence (known finding iupac-prefix-multiplicity — this is what the code computes, not what a
   symmetric reading of the property demands): the weight of x is the sum over the sequences of count x the number
   of nodes of the expansion tree ([pexp [] s]: every IUPAC expansion of every prefix of s, of length >= k) whose
   last k bases spell x; i.e. a window is counted once per expansion of ALL the bases before its end. *)
Theorem C19_weights_iupac_characterised : forall k seqs, 1 <= k -> k <= 31 ->
  Forall (fun sq => nonempty_codes (fst sq)) seqs ->
  exists g, dbg_build k seqs = Some g /\ forall x, weight g x = total_prefix_weight k seqs x.
Proof. exact weights_iupac_exact. Qed.
Theorem C19_expansion_node_kmer : forall k q, digits q -> kmer_of k q = kval (rev (firstn (N.to_nat k) q)).
Proof. exact kmer_of_long. Qed.

Example C19_weights_nonvacuous :
  unambiguous [97;99;103;116] /\ dbg_build 4 [([97;99;103;116], 2); ([99;103;116;97], 3); ([97;99;103;116;97], 1)] = Some [(27, 3); (108, 4)]
  /\ total_weight 4 [([97;99;103;116], 2); ([99;103;116;97], 3); ([97;99;103;116;97], 1)] 27 = 3.
Proof. split; [exists [0;1;2;3]; reflexivity|vm_compute; auto]. Qed.

(** ---------------- heaviest walk and cycles — theorems about the SPECIFICATION [best_walk_weight] /
    [has_cycle] (layered dynamic programme over walks of at most |nodes| nodes). The Go algorithms
    HasCycle (DFS) and HaviestPath (label-correcting search with a heap) are NOT modelled: check C19
    ties them to this specification on every run by comparing HasCycle with has_cycle, and the
    validity + total weight of the returned path with best_walk_weight (partial). *)
(* the value returned is the maximum total weight over ALL walks of the graph that start at a source node *)
Theorem C19_best_walk_optimal : forall k g bw, best_walk_weight k g = Some bw ->
  has_cycle k g = false /\
  (forall h p, In h (heads k g) -> is_walk k g (h :: p) -> wsum g (h :: p) <= bw) /\
  (heads k g <> [] -> exists h p, In h (heads k g) /\ is_walk k g (h :: p) /\ wsum g (h :: p) = bw).
Proof. exact best_walk_optimal. Qed.
(* the edges walked: y follows x iff y is a node and y = x shifted by one base (oldest base dropped) plus a new base *)
Theorem C19_edges_overlap : forall k g x y, 1 <= k -> 2 * k < 64 ->
  (In y (nexts k g x) <-> mem g y = true /\ exists b, b < 4 /\ y = (4 * x) mod 4 ^ k + b).
Proof. exact nexts_spec. Qed.
(* the source nodes (Heads, computed through Previouses) of a graph built by Push are exactly the nodes without incoming edge *)
Theorem C19_heads_are_sources : forall k seqs g h, 1 <= k -> k <= 31 -> dbg_build k seqs = Some g ->
  (In h (heads k g) <-> In h (nodes g) /\ forall y, mem g y = true -> ~ In h (nexts k g y)).
Proof. exact built_heads_are_sources. Qed.
(* no walk is returned exactly when has_cycle answers true *)
Theorem C19_no_walk_iff_cycle : forall k g, best_walk_weight k g = None <-> has_cycle k g = true.
Proof. exact no_walk_iff_cycle. Qed.
(* has_cycle answers true exactly when the graph has a closed walk (pigeonhole on a walk of |nodes|+1 nodes) *)
Theorem C19_acyclic_iff_path : forall k g,
  has_cycle k g = true <-> exists x p, is_walk k g (x :: p ++ [x]).
Proof. exact has_cycle_iff. Qed.
Theorem C19_acyclic_walks_bounded : forall k g p x, has_cycle k g = false -> is_walk k g (x :: p) ->
  (length (x :: p) <= length g)%nat.
Proof. exact acyclic_walk_short. Qed.

Example C19_best_walk_nonvacuous :
  exists g, dbg_build 3 [([97;97;99;103;116], 2); ([97;97;99;99;103;116], 3)] = Some g /\
            has_cycle 3 g = false /\ heads 3 g = [1] /\ best_walk_weight 3 g = Some 16 /\
            is_walk 3 g [1; 5; 22; 27].
Proof. eexists. split; [vm_compute; reflexivity|]. vm_compute. intuition. Qed.

(** ---------------- 4-mer tables (Encode4mer + Count4Mer, as repaired for length 3)
    code4 w = base-4 value of the window, every symbol other than a/c/g/t/u read as a (stated);
    the table cell is the number of windows with that code, modulo 2^16 (uint16 cells) *)
Theorem C19_count4_wraps_at_65536 : forall s c,
  count4 s c = Some (count_n c (map code4 (windows 4 s)) mod 65536).
Proof. exact count4_wrap. Qed.
Theorem C19_count4 : forall s c, N.of_nat (length s) < 65539 ->
  count4 s c = Some (count_n c (map code4 (windows 4 s))).
Proof. exact count4_exact. Qed.

(** the original code violates the property (witnesses replayed on the real code by check C19) *)
Theorem C19_canonical_refuted :
  exists wd k s a b, canon_orig wd k false s = Some a /\ canon_orig wd k false (rcseq s) = Some b /\
                     ~ Permutation a b.
Proof. exact canon_orig_strand_dependent. Qed.
Theorem C19_mask_full_word_refuted :
  canon_orig 128 64 false wit_seq = None /\ canon_orig 64 32 false wit_seq = None /\ canon_orig 256 128 false wit_seq = None.
Proof. exact kmask_orig_panics_full_word. Qed.
Theorem C19_weights_length_k_refuted :
  exists k s, N.of_nat (length s) = k /\ dbg_build_orig k [(s, 1)] = Some [] /\ dbg_build k [(s, 1)] = Some [(27, 1)].
Proof. exact push_orig_ignores_length_k. Qed.
(* known finding iupac-prefix-multiplicity (model faithful to the code): with ambiguity codes the weight is neither
   count x occurrences in the full expansions nor count x compatible windows, and depends on the reading direction *)
Theorem C19_weights_iupac_refuted :
  exists k s x g, dbg_build k [(s, 1)] = Some g /\
    weight g x <> full_occ (N.to_nat k) s x /\ weight g x <> compat_occ (N.to_nat k) s x /\
    weight g x = 4 /\ full_occ (N.to_nat k) s x = 16 /\ compat_occ (N.to_nat k) s x = 1.
Proof. exact weights_iupac_neither_reading. Qed.
Theorem C19_weights_iupac_direction_refuted :
  exists g1 g2, dbg_build 2 [([110; 97; 99], 1)] = Some g1 /\ dbg_build 2 [([97; 99; 110], 1)] = Some g2 /\
                weight g1 1 = 4 /\ weight g2 1 = 1.
Proof. exact weights_iupac_direction. Qed.
Theorem C19_count4_length_3_refuted : count4_table false [97;99;103] = None /\ count4_table true [97;99;103] = Some [].
Proof. exact encode4_orig_panics_length_3. Qed.

Print Assumptions C19_canonical_each_min.
Print Assumptions C19_canonical_dense_is_min.
Print Assumptions C19_canonical_strand_invariant.
Print Assumptions C19_mask_exact.
Print Assumptions C19_mask_refuses_oversize.
Print Assumptions C19_weights.
Print Assumptions C19_count4_wraps_at_65536.
Print Assumptions C19_count4.
Print Assumptions C19_best_walk_optimal.
Print Assumptions C19_no_walk_iff_cycle.
Print Assumptions C19_acyclic_iff_path.
Print Assumptions C19_acyclic_walks_bounded.
Print Assumptions C19_sparse_ignores_centre.
Print Assumptions C19_weights_iupac_refuted.
Print Assumptions C19_weights_iupac_direction_refuted.
Print Assumptions C19_weights_iupac_characterised.
Print Assumptions C19_expansion_node_kmer.
Print Assumptions C19_edges_overlap.
Print Assumptions C19_index_built_iff_fits.
Print Assumptions C19_heads_are_sources.
Print Assumptions C19_canonical_refuted.
Print Assumptions C19_mask_full_word_refuted.
Print Assumptions C19_weights_length_k_refuted.
Print Assumptions C19_count4_length_3_refuted.
