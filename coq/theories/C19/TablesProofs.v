(** C19 — theorems over the REGENERATED tables of pkg/obikmer (C19/Gen/Tables.v is rewritten from the current
    build before every Coq build, see tools/props/c19.py regen()). Every lemma below is a finite computation
    ([vm_compute]) over the generated lists, so it is re-proved by the kernel whenever a table changes:
      1. the hand-written model tables (Model.iupac, Model.revcompnuc, Model.base4, Algo.decode) ARE the tables of the code;
      2. every IUPAC letter expands to its standard base set ([iupac_set], written from the IUPAC standard);
      3. the complement table agrees with complementing the base set, and is an involution (u -> a -> t apart);
      4. decode inverts the four unambiguous codes;
      5. __single_base_code__ has 32 entries: a c g t u -> 0 1 2 3 3, every other entry 0. *)
From Coq Require Import NArith List Bool Lia.
From OBI.C19 Require Import Model Algo.
From OBI.C19.Gen Require Import Tables.
Import ListNotations.
Open Scope N_scope.

(** ---------------- reading a dumped Go map / slice *)
(* m[b] of a Go map dumped as an association list; [d] = the zero value returned for a missing key *)
Fixpoint lookup {A : Type} (d : A) (t : list (N * A)) (b : N) : A :=
  match t with [] => d | (k, v) :: r => if k =? b then v else lookup d r b end.
Definition keys {A : Type} (t : list (N * A)) : list N := map fst t.
Definition tab_iupac (b : N) : list N := lookup [] iupac_tab b.
Definition tab_revcomp (b : N) : N := lookup 0 revcomp_tab b.
Definition tab_decode (c : N) : N := lookup 0 decode_tab c.
Definition tab_single (b : N) : N := nth (N.to_nat (N.land b 31)) single_tab 0.

Fixpoint incr (l : list N) : bool :=            (* strictly increasing *)
  match l with
  | x :: ((y :: _) as t) => (x <? y) && incr t
  | _ => true
  end.

(** ---------------- the IUPAC standard (NC-IUB 1984), written independently of the Go table; a=0 c=1 g=2 t=3 *)
Definition cA : N := 0.  Definition cC : N := 1.  Definition cG : N := 2.  Definition cT : N := 3.
Definition iupac_set (b : N) : list N :=
  if b =? 97 then [cA]                          (* a  adenine *)
  else if b =? 99 then [cC]                     (* c  cytosine *)
  else if b =? 103 then [cG]                    (* g  guanine *)
  else if b =? 116 then [cT]                    (* t  thymine *)
  else if b =? 117 then [cT]                    (* u  uracil *)
  else if b =? 114 then [cA; cG]                (* r  purine *)
  else if b =? 121 then [cC; cT]                (* y  pyrimidine *)
  else if b =? 115 then [cC; cG]                (* s  strong *)
  else if b =? 119 then [cA; cT]                (* w  weak *)
  else if b =? 107 then [cG; cT]                (* k  keto *)
  else if b =? 109 then [cA; cC]                (* m  amino *)
  else if b =? 98 then [cC; cG; cT]             (* b  not a *)
  else if b =? 100 then [cA; cG; cT]            (* d  not c *)
  else if b =? 104 then [cA; cC; cT]            (* h  not g *)
  else if b =? 118 then [cA; cC; cG]            (* v  not t *)
  else if b =? 110 then [cA; cC; cG; cT]        (* n  any *)
  else [].
(* the 16 letters, in byte order: a b c d g h k m n r s t u v w y *)
Definition letters : list N := [97; 98; 99; 100; 103; 104; 107; 109; 110; 114; 115; 116; 117; 118; 119; 121].
(* complement of a base code: a<->t, c<->g *)
Definition comp_code (c : N) : N := 3 - c.
Definition comp_set (l : list N) : list N := sortN (map comp_code l).

(* what __single_base_code__[i] must be *)
Definition single_spec (i : N) : N :=
  if i =? N.land 97 31 then 0                                       (* a *)
  else if i =? N.land 99 31 then 1                                  (* c *)
  else if i =? N.land 103 31 then 2                                 (* g *)
  else if (i =? N.land 116 31) || (i =? N.land 117 31) then 3       (* t, u *)
  else 0.

(** ---------------- lifting finite checks *)
Definition bytes256 : list N := map N.of_nat (seq 0 256).
Definition idx32 : list N := map N.of_nat (seq 0 32).

Lemma in_upto (n : nat) (b : N) : b < N.of_nat n -> In b (map N.of_nat (seq 0 n)).
Proof.
  intros Hb. rewrite <- (N2Nat.id b). apply in_map. apply in_seq. lia.
Qed.

Lemma forall_lt256 (P : N -> bool) : forallb P bytes256 = true -> forall b, b < 256 -> P b = true.
Proof.
  intros HP b Hb. rewrite forallb_forall in HP. apply HP. apply (in_upto 256). exact Hb.
Qed.

Lemma forall_lt32 (P : N -> bool) : forallb P idx32 = true -> forall b, b < 32 -> P b = true.
Proof.
  intros HP b Hb. rewrite forallb_forall in HP. apply HP. apply (in_upto 32). exact Hb.
Qed.

Lemma list_eqb_N_eq (a b : list N) : list_eqb N.eqb a b = true -> a = b.
Proof.
  revert b. induction a as [|x a IH]; intros [|y b] H; try discriminate; [reflexivity|].
  cbn [list_eqb] in H. apply andb_true_iff in H. destruct H as [Hx Hr].
  apply N.eqb_eq in Hx. subst y. f_equal. apply IH. exact Hr.
Qed.

(* case analysis on membership in a concrete list *)
Ltac each_member H := vm_compute in H; repeat (destruct H as [H | H]; [subst | ]); try contradiction.
Ltac solve_in := vm_compute; solve [repeat (first [left; reflexivity | right])].

(** ================= 0. shape of the dumped maps: keys strictly increasing (so [lookup] reads THE binding) *)
Lemma tab_keys_increasing :
  incr (keys iupac_tab) = true /\ incr (keys revcomp_tab) = true /\ incr (keys decode_tab) = true.
Proof. vm_compute. auto. Qed.

(** ================= 1. the model tables are the tables of the code *)
Lemma tab_model_iupac : forall b, b < 256 -> Model.iupac b = tab_iupac b.
Proof.
  intros b Hb. apply list_eqb_N_eq.
  apply (forall_lt256 (fun b => list_eqb N.eqb (Model.iupac b) (tab_iupac b))); [vm_compute; reflexivity | exact Hb].
Qed.

Lemma tab_model_revcompnuc : forall b, b < 256 -> Model.revcompnuc b = tab_revcomp b.
Proof.
  intros b Hb. apply N.eqb_eq.
  apply (forall_lt256 (fun b => Model.revcompnuc b =? tab_revcomp b)); [vm_compute; reflexivity | exact Hb].
Qed.

Lemma tab_model_base4 : forall b, b < 256 -> Model.base4 b = nth (N.to_nat (N.land b 31)) single_tab 0.
Proof.
  intros b Hb. apply N.eqb_eq.
  apply (forall_lt256 (fun b => Model.base4 b =? nth (N.to_nat (N.land b 31)) single_tab 0)); [vm_compute; reflexivity | exact Hb].
Qed.

Lemma tab_model_decode : forall c, c < 256 -> Algo.decode c = tab_decode c.
Proof.
  intros c Hc. apply N.eqb_eq.
  apply (forall_lt256 (fun c => Algo.decode c =? tab_decode c)); [vm_compute; reflexivity | exact Hc].
Qed.

(** ================= 2. every IUPAC letter expands to its base set *)
Lemma tab_iupac_keys : keys iupac_tab = letters.
Proof. vm_compute. reflexivity. Qed.

Lemma tab_iupac_expansion : forall b codes, In (b, codes) iupac_tab -> codes = iupac_set b.
Proof.
  assert (H : forallb (fun p => list_eqb N.eqb (snd p) (iupac_set (fst p))) iupac_tab = true) by (vm_compute; reflexivity).
  intros b codes Hin. rewrite forallb_forall in H. apply list_eqb_N_eq. exact (H (b, codes) Hin).
Qed.

(* the same through the map read: every byte < 256 (a letter or not) reads its IUPAC base set, nil for a non-letter *)
Lemma tab_iupac_is_standard : forall b, b < 256 -> tab_iupac b = iupac_set b.
Proof.
  intros b Hb. apply list_eqb_N_eq.
  apply (forall_lt256 (fun b => list_eqb N.eqb (tab_iupac b) (iupac_set b))); [vm_compute; reflexivity | exact Hb].
Qed.

Lemma tab_iupac_codes_sorted_lt4 :
  forall b codes, In (b, codes) iupac_tab -> codes <> [] /\ incr codes = true /\ forall c, In c codes -> c < 4.
Proof.
  assert (H : forallb (fun p => negb (list_eqb N.eqb (snd p) []) && incr (snd p) && forallb (fun c => c <? 4) (snd p)) iupac_tab = true)
    by (vm_compute; reflexivity).
  intros b codes Hin. rewrite forallb_forall in H. specialize (H (b, codes) Hin). cbn [snd] in H.
  apply andb_true_iff in H. destruct H as [H H4]. apply andb_true_iff in H. destruct H as [Hne Hi].
  split; [|split].
  - intros ->. discriminate Hne.
  - exact Hi.
  - intros c Hc. rewrite forallb_forall in H4. apply N.ltb_lt. exact (H4 c Hc).
Qed.

(** ================= 3. the complement table complements the base set *)
Lemma tab_revcomp_keys : keys revcomp_tab = keys iupac_tab.
Proof. vm_compute. reflexivity. Qed.

Lemma tab_revcomp_consistent :
  forall b, In b (keys iupac_tab) ->
    In b (keys revcomp_tab) /\ In (tab_revcomp b) (keys iupac_tab) /\ tab_iupac (tab_revcomp b) = comp_set (tab_iupac b).
Proof.
  intros b Hb. each_member Hb; (split; [solve_in | split; [solve_in | vm_compute; reflexivity]]).
Qed.

(* independent of the code table: the complement letter of the standard is the letter of the complemented standard set *)
Lemma tab_revcomp_standard : forall b, In b letters -> iupac_set (tab_revcomp b) = comp_set (iupac_set b).
Proof.
  intros b Hb. each_member Hb; vm_compute; reflexivity.
Qed.

Lemma tab_revcomp_involution : forall b, In b (keys iupac_tab) -> b <> 117 -> tab_revcomp (tab_revcomp b) = b.
Proof.
  intros b Hb Hu. each_member Hb; try (vm_compute; reflexivity); exfalso; apply Hu; reflexivity.
Qed.

Lemma tab_revcomp_u : tab_revcomp 117 = 97 /\ tab_revcomp 97 = 116 /\ tab_revcomp 116 = 97.
Proof. vm_compute. auto. Qed.

(** ================= 4. decode inverts the unambiguous codes *)
Lemma tab_decode_table : decode_tab = [(0, 97); (1, 99); (2, 103); (3, 116)].
Proof. vm_compute. reflexivity. Qed.

Lemma tab_decode_inverts : forall b c, In b [97; 99; 103; 116] -> tab_iupac b = [c] -> tab_decode c = b.
Proof.
  intros b c Hb Hc. each_member Hb; vm_compute in Hc; injection Hc as <-; vm_compute; reflexivity.
Qed.

(* and conversely every code 0..3 decodes to the letter whose expansion is that single code *)
Lemma tab_decode_encodes : forall c, c < 4 -> tab_iupac (tab_decode c) = [c].
Proof.
  intros c Hc. apply list_eqb_N_eq.
  assert (H := forall_lt32 (fun c => (4 <=? c) || list_eqb N.eqb (tab_iupac (tab_decode c)) [c])).
  specialize (H ltac:(vm_compute; reflexivity) c ltac:(lia)).
  apply orb_true_iff in H. destruct H as [H | H]; [apply N.leb_le in H; lia | exact H].
Qed.

(** ================= 5. __single_base_code__ *)
Lemma tab_single_length : length single_tab = 32%nat.
Proof. vm_compute. reflexivity. Qed.

Lemma tab_single_table : single_tab = map single_spec idx32.
Proof. vm_compute. reflexivity. Qed.

Lemma tab_single_lt4 : forall c, In c single_tab -> c < 4.
Proof.
  assert (H : forallb (fun c => c <? 4) single_tab = true) by (vm_compute; reflexivity).
  intros c Hc. rewrite forallb_forall in H. apply N.ltb_lt. exact (H c Hc).
Qed.

Lemma tab_single_acgtu :
  tab_single 97 = 0 /\ tab_single 99 = 1 /\ tab_single 103 = 2 /\ tab_single 116 = 3 /\ tab_single 117 = 3.
Proof. vm_compute. auto 6. Qed.

Lemma tab_single_others :
  forall i, i < 32 -> i <> N.land 99 31 -> i <> N.land 103 31 -> i <> N.land 116 31 -> i <> N.land 117 31 ->
    nth (N.to_nat i) single_tab 0 = 0.
Proof.
  intros i Hi Hc Hg Ht Hu.
  assert (H := forall_lt32 (fun i => (nth (N.to_nat i) single_tab 0 =? 0)
                                      || (i =? N.land 99 31) || (i =? N.land 103 31) || (i =? N.land 116 31) || (i =? N.land 117 31))).
  specialize (H ltac:(vm_compute; reflexivity) i Hi).
  repeat (apply orb_true_iff in H; destruct H as [H | H]); apply N.eqb_eq in H; try contradiction. exact H.
Qed.

(* upper-case letters read the same entries: the index is b & 31 *)
Lemma tab_single_case_blind : forall b, 97 <= b -> b < 123 -> tab_single (b - 32) = tab_single b.
Proof.
  intros b Hlo Hhi. apply N.eqb_eq.
  assert (H := forall_lt256 (fun b => (b <? 97) || (123 <=? b) || (tab_single (b - 32) =? tab_single b))).
  specialize (H ltac:(vm_compute; reflexivity) b ltac:(lia)).
  repeat (apply orb_true_iff in H; destruct H as [H | H]); [apply N.ltb_lt in H; lia | apply N.leb_le in H; lia | exact H].
Qed.
