(** C19 — the k-mer masks of NewKmerMap[T obifp.FPUint[T]] (pkg/obikmer/kmermap.go) computed with
    the obifp operations as modelled (and proved exact) by property C20.

    Go source (worktree of C19, as repaired):

      kmermask := obifp.ZeroUint[T]()
      if kmersize > 0 {
        kmermask = obifp.OneUint[T]().LeftShift(kmersize*2 - 1).Sub(obifp.OneUint[T]()).LeftShift(1).Or(obifp.OneUint[T]())
      }
      ...
      leftMask  = obifp.OneUint[T]().LeftShift(left).Sub(obifp.OneUint[T]()).LeftShift(right + 2)
      rightMask = obifp.OneUint[T]().LeftShift(right).Sub(obifp.OneUint[T]())

    The Go function is generic in T; so is the transcription [fp_mask_gen] below, instantiated with
    the C20 model of Uint64 ([u64_shl], [u64_sub], [Z.lor]), Uint128 ([u128_shl], [u128_sub], limbwise
    [Z.lor] as in [run128 OOr]) and Uint256 ([u256_shl], [u256_sub], limbwise [Z.lor] as in
    [run256 OOr]).  Outcome convention = C20's [res]: [Ok v] or [Panic] (log.Panicf in Sub).

    What is NOT modelled: [kmersize*2 - 1], [right + 2] are Go [uint] (64-bit) expressions; here
    they are unbounded Z, i.e. the statements hold for kmersize < 2^62 (no wrap of the shift count).

    C20 files are imported read-only.  Every statement below is proved (closed under the global
    context). *)
From Coq Require Import ZArith NArith List Bool Lia.
From OBI.C20 Require Import Model Proofs.
From OBI.C19 Require Model Proofs.
Open Scope Z_scope.

Ltac Zify.zify_post_hook ::= Z.div_mod_to_equations.

Notation kmaskN := OBI.C19.Model.kmask.
Notation shlwN := OBI.C19.Model.shlw.
Notation subwN := OBI.C19.Model.subw.

(** ---------------------------------------------------------------- executable definitions *)

Definition rbind {A B : Type} (r : res A) (f : A -> res B) : res B :=
  match r with Ok a => f a | Panic => Panic | OutOfFuel => OutOfFuel end.
Definition res_opt {A : Type} (r : res A) : option A :=
  match r with Ok a => Some a | Panic => None | OutOfFuel => None end.

(* kmersize++ when sparse and even, kmersize-- when not sparse and odd *)
Definition eff_kZ (k0 : Z) (sparse : bool) : Z :=
  if sparse then (if Z.even k0 then k0 + 1 else k0) else (if Z.odd k0 then k0 - 1 else k0).

Section Generic.
Variable T : Type.
Variable shl : T -> Z -> T.          (* T.LeftShift *)
Variable sub : T -> T -> res T.      (* T.Sub (panics on underflow) *)
Variable lor : T -> T -> T.          (* T.Or *)
Variables one zero : T.              (* obifp.OneUint[T](), obifp.ZeroUint[T]() *)

(* kmermask of NewKmerMap *)
Definition fp_mask_gen (k : Z) : res T :=
  if 0 <? k then rbind (sub (shl one (2 * k - 1)) one) (fun t => Ok (lor (shl t 1) one))
  else Ok zero.
(* One.LeftShift(n).Sub(One) *)
Definition fp_pow2m1_gen (n : Z) : res T := sub (shl one n) one.
(* leftMask / rightMask of the sparse mode *)
Definition fp_left_gen (left right : Z) : res T :=
  rbind (fp_pow2m1_gen left) (fun l => Ok (shl l (right + 2))).
Definition fp_right_gen (right : Z) : res T := fp_pow2m1_gen right.

(* the mask part of NewKmerMap as a whole: kmersize adjustment, sparseAt, the three masks, in the
   evaluation order of the Go code (kmermask, then leftMask, then rightMask) *)
Record fp_kmap := mk_fp_kmap { fk_k : Z; fk_mask : T; fk_left : T; fk_right : T; fk_sparse_at : Z }.
Definition fp_new_kmap_gen (k0 : Z) (sparse : bool) : res fp_kmap :=
  let k := eff_kZ k0 sparse in
  let sat := if sparse then k / 2 else -1 in
  rbind (fp_mask_gen k) (fun m =>
    if 0 <=? sat then
      if k <=? sat then Ok (mk_fp_kmap k m zero zero (-1))
      else
        let pos := k - 1 - sat in
        let left := sat * 2 in
        let right := pos * 2 in
        rbind (fp_left_gen left right) (fun l =>
        rbind (fp_right_gen right) (fun r => Ok (mk_fp_kmap k m l r sat)))
    else Ok (mk_fp_kmap k m zero zero (-1))).
End Generic.
Arguments fk_k {T} _. Arguments fk_mask {T} _. Arguments fk_left {T} _. Arguments fk_right {T} _.
Arguments fk_sparse_at {T} _.

(* Uint128.Or / Uint256.Or: limbwise | (same expressions as run128 / run256 of C20 for OOr) *)
Definition u128_or (u v : u128) : u128 := mk128 (Z.lor (h1 u) (h1 v)) (Z.lor (h0 u) (h0 v)).
Definition u256_or (u v : u256) : u256 :=
  mk256 (Z.lor (q3 u) (q3 v)) (Z.lor (q2 u) (q2 v)) (Z.lor (q1 u) (q1 v)) (Z.lor (q0 u) (q0 v)).
(* Set64(1) / *new(T) *)
Definition one128 : u128 := mk128 0 1.
Definition zero128 : u128 := mk128 0 0.
Definition one256 : u256 := mk256 0 0 0 1.
Definition zero256 : u256 := mk256 0 0 0 0.

Definition fp_mask64 (k : Z) : res Z := fp_mask_gen Z u64_shl u64_sub Z.lor 1 0 k.
Definition fp_mask128 (k : Z) : res u128 := fp_mask_gen u128 u128_shl u128_sub u128_or one128 zero128 k.
Definition fp_mask256 (k : Z) : res u256 := fp_mask_gen u256 u256_shl u256_sub u256_or one256 zero256 k.

Definition fp_left64 (l r : Z) : res Z := fp_left_gen Z u64_shl u64_sub 1 l r.
Definition fp_left128 (l r : Z) : res u128 := fp_left_gen u128 u128_shl u128_sub one128 l r.
Definition fp_left256 (l r : Z) : res u256 := fp_left_gen u256 u256_shl u256_sub one256 l r.
Definition fp_right64 (r : Z) : res Z := fp_right_gen Z u64_shl u64_sub 1 r.
Definition fp_right128 (r : Z) : res u128 := fp_right_gen u128 u128_shl u128_sub one128 r.
Definition fp_right256 (r : Z) : res u256 := fp_right_gen u256 u256_shl u256_sub one256 r.

Definition fp_new_kmap64 := fp_new_kmap_gen Z u64_shl u64_sub Z.lor 1 0.
Definition fp_new_kmap128 := fp_new_kmap_gen u128 u128_shl u128_sub u128_or one128 zero128.
Definition fp_new_kmap256 := fp_new_kmap_gen u256 u256_shl u256_sub u256_or one256 zero256.

Definition val64 (x : Z) : Z := x.

(* reading an obifp k-mer map as the record of C19/Model.v *)
Definition to_kmapN {T : Type} (val : T -> Z) (wd : N) (f : fp_kmap T) : OBI.C19.Model.kmap :=
  OBI.C19.Model.mkKmap wd (Z.to_N (fk_k f)) (Z.to_N (val (fk_mask f))) (Z.to_N (val (fk_left f)))
    (Z.to_N (val (fk_right f))) (0 <=? fk_sparse_at f).

(* the seeded mutant: the mask is computed in a 64-bit word, ^(^0 << 2k) with Go's uint64 shift
   (count >= 64 gives 0), and only then widened with From64 *)
Definition fp_mask128_via64 (k : Z) : u128 := mk128 0 (not64 (shl64 (not64 0) (2 * k))).

(** sanity: the Or defined here is the one C20 runs for OOr *)
Lemma u128_or_is_run128 a b n : run128 OOr a b n = Limbs (l128 (u128_or (to128 a) (to128 b))).
Proof. reflexivity. Qed.
Lemma u256_or_is_run256 a b n : run256 OOr a b n = Limbs (l256 (u256_or (to256 a) (to256 b))).
Proof. reflexivity. Qed.

(** ---------------------------------------------------------------- arithmetic core *)

Lemma pow2_double n : 0 < n -> 2 ^ n = 2 * 2 ^ (n - 1).
Proof. intros H. replace n with (Z.succ (n - 1)) at 1 by lia. apply Z.pow_succ_r. lia. Qed.

Lemma pow4_pow2 k : 0 <= k -> 4 ^ k = 2 ^ (2 * k).
Proof. intros H. change 4 with (2 ^ 2). rewrite <- Z.pow_mul_r by lia. reflexivity. Qed.

Lemma pow2_mod_big n wd : 0 <= wd <= n -> 2 ^ n mod 2 ^ wd = 0.
Proof.
  intros H. replace n with ((n - wd) + wd) by lia. rewrite Z.pow_add_r by lia.
  apply Z.mod_mul. apply Z.pow_nonzero; lia.
Qed.

Lemma mask_arith wd k : 0 < k -> 2 * k <= wd ->
  (1 * 2 ^ (2 * k - 1)) mod 2 ^ wd = 2 ^ (2 * k - 1) /\
  1 <= 2 ^ (2 * k - 1) /\
  ((2 ^ (2 * k - 1) - 1) * 2 ^ 1) mod 2 ^ wd = (2 ^ (2 * k - 1) - 1) * 2 ^ 1 /\
  Z.lor ((2 ^ (2 * k - 1) - 1) * 2 ^ 1) 1 = 4 ^ k - 1.
Proof.
  intros Hk Hwd.
  assert (E : 2 ^ (2 * k) = 2 * 2 ^ (2 * k - 1)) by (apply pow2_double; lia).
  assert (P : 0 < 2 ^ (2 * k - 1)) by (apply Z.pow_pos_nonneg; lia).
  assert (L : 2 ^ (2 * k) <= 2 ^ wd) by (apply Z.pow_le_mono_r; lia).
  assert (E4 : 4 ^ k = 2 ^ (2 * k)) by (apply pow4_pow2; lia).
  split; [rewrite Z.mul_1_l; apply Z.mod_small; lia|]. split; [lia|].
  split; [change (2 ^ 1) with 2; apply Z.mod_small; lia|].
  rewrite lor_disjoint_add by (change (2 ^ 1) with 2; lia). change (2 ^ 1) with 2. lia.
Qed.

Lemma of_N_lor x y : Z.of_N (N.lor x y) = Z.lor (Z.of_N x) (Z.of_N y).
Proof. destruct x, y; reflexivity. Qed.

(** ---------------------------------------------------------------- what an obifp width provides *)

Record fp_ok {T : Type} (val : T -> Z) (wf : T -> Prop) (wd : N)
  (shl : T -> Z -> T) (sub : T -> T -> res T) (lor : T -> T -> T) (one zero : T) : Prop := {
  ok_range : forall u, wf u -> 0 <= val u < 2 ^ Z.of_N wd;
  ok_shl : forall u n, wf u -> 0 <= n ->
     wf (shl u n) /\ val (shl u n) = (val u * 2 ^ n) mod 2 ^ Z.of_N wd;
  ok_sub : forall u v, wf u -> wf v ->
     (val v <= val u -> exists r, sub u v = Ok r /\ wf r /\ val r = val u - val v) /\
     (val u < val v -> sub u v = Panic);
  ok_lor : forall u v, wf u -> wf v -> wf (lor u v) /\ val (lor u v) = Z.lor (val u) (val v);
  ok_one : wf one /\ val one = 1;
  ok_zero : wf zero /\ val zero = 0 }.

(* the three instances: every field is a C20 lemma *)
Lemma fp_ok64 : fp_ok val64 inW 64 u64_shl u64_sub Z.lor 1 0.
Proof.
  change (fp_ok (fun x : Z => x) inW 64 u64_shl u64_sub Z.lor 1 0).
  split; change (2 ^ Z.of_N 64) with W.
  - intros u Hu. exact Hu.
  - intros u n Hu Hn. rewrite (u64_shl_spec u n Hu Hn). split; [|reflexivity].
    unfold inW. apply Z.mod_pos_bound. apply W_pos.
  - intros u v Hu Hv. destruct (u64_sub_exact u v Hu Hv) as [A B]. split; [|exact B].
    intros H. exists (u - v). split; [apply A; assumption|]. split; [|reflexivity].
    unfold inW in *. lia.
  - intros u v Hu Hv. split; [|reflexivity]. apply (op_small Z.lor orb Z.lor_spec eq_refl); assumption.
  - split; [|reflexivity]. unfold inW. rewrite W_val. lia.
  - split; [|reflexivity]. unfold inW. rewrite W_val. lia.
Qed.

Lemma fp_ok128 : fp_ok val128 wf128 128 u128_shl u128_sub u128_or one128 zero128.
Proof.
  split; change (2 ^ Z.of_N 128) with (W * W).
  - apply val128_range.
  - apply u128_shl_spec.
  - apply u128_sub_exact.
  - intros u v Hu Hv. apply (op128 Z.lor orb Z.lor_spec eq_refl); assumption.
  - split; [|reflexivity]. unfold wf128, one128; cbn [h1 h0]. rewrite W_val. lia.
  - split; [|reflexivity]. unfold wf128, zero128; cbn [h1 h0]. rewrite W_val. lia.
Qed.

Lemma fp_ok256 : fp_ok val256 wf256 256 u256_shl u256_sub u256_or one256 zero256.
Proof.
  split; change (2 ^ Z.of_N 256) with W4.
  - apply val256_range.
  - apply u256_shl_spec.
  - apply u256_sub_exact.
  - intros u v Hu Hv. pose proof (op256 Z.lor orb Z.lor_spec eq_refl u v Hu Hv) as H.
    cbv zeta in H. exact H.
  - split; [|reflexivity]. unfold wf256, one256; cbn [q3 q2 q1 q0]. rewrite W_val. lia.
  - split; [|reflexivity]. unfold wf256, zero256; cbn [q3 q2 q1 q0]. rewrite W_val. lia.
Qed.

(** ---------------------------------------------------------------- generic theorems *)

Section GenericProofs.
Variable T : Type.
Variable val : T -> Z.
Variable wf : T -> Prop.
Variable wd : N.
Variable shl : T -> Z -> T.
Variable sub : T -> T -> res T.
Variable lor : T -> T -> T.
Variables one zero : T.
Hypothesis OK : fp_ok val wf wd shl sub lor one zero.

Let mask := fp_mask_gen T shl sub lor one zero.
Let pow2m1 := fp_pow2m1_gen T shl sub one.
Let leftm := fp_left_gen T shl sub one.
Let rightm := fp_right_gen T shl sub one.

Lemma gen_mask_exact k : 0 < k -> 2 * k <= Z.of_N wd ->
  exists u, mask k = Ok u /\ wf u /\ val u = 4 ^ k - 1.
Proof.
  intros Hk Hwd. destruct (mask_arith (Z.of_N wd) k Hk Hwd) as (A1 & A2 & A3 & A4).
  destruct (ok_one _ _ _ _ _ _ _ _ OK) as [W1 V1].
  destruct (ok_shl _ _ _ _ _ _ _ _ OK one (2 * k - 1) W1 ltac:(lia)) as [Wa Va].
  rewrite V1, A1 in Va.
  destruct (ok_sub _ _ _ _ _ _ _ _ OK _ _ Wa W1) as [S _].
  destruct (S ltac:(lia)) as (t & Et & Wt & Vt). rewrite Va, V1 in Vt.
  destruct (ok_shl _ _ _ _ _ _ _ _ OK t 1 Wt ltac:(lia)) as [Wc Vc].
  rewrite Vt, A3 in Vc.
  destruct (ok_lor _ _ _ _ _ _ _ _ OK _ _ Wc W1) as [Wd Vd].
  rewrite Vc, V1, A4 in Vd.
  exists (lor (shl t 1) one). split; [|split; assumption].
  unfold mask, fp_mask_gen. destruct (Z.ltb_spec 0 k) as [_|?]; [|lia].
  rewrite Et. reflexivity.
Qed.

(* 2k > width: One.LeftShift(2k-1) is 0 (everything is shifted out), then Sub(One) underflows *)
Lemma gen_mask_oversize k : Z.of_N wd < 2 * k ->
  val (shl one (2 * k - 1)) = 0 /\ mask k = Panic.
Proof.
  intros Hwd. pose proof (N2Z.is_nonneg wd) as Hn.
  destruct (ok_one _ _ _ _ _ _ _ _ OK) as [W1 V1].
  destruct (ok_shl _ _ _ _ _ _ _ _ OK one (2 * k - 1) W1 ltac:(lia)) as [Wa Va].
  rewrite V1, Z.mul_1_l, pow2_mod_big in Va by lia.
  split; [assumption|].
  destruct (ok_sub _ _ _ _ _ _ _ _ OK _ _ Wa W1) as [_ S].
  unfold mask, fp_mask_gen. destruct (Z.ltb_spec 0 k) as [_|?]; [|lia].
  rewrite S by lia. reflexivity.
Qed.

Lemma gen_mask_zero k : k <= 0 -> mask k = Ok zero /\ val zero = 0.
Proof.
  intros Hk. split; [|apply (ok_zero _ _ _ _ _ _ _ _ OK)].
  unfold mask, fp_mask_gen. destruct (Z.ltb_spec 0 k) as [?|_]; [lia|reflexivity].
Qed.

Lemma gen_pow2m1_exact n : 0 <= n < Z.of_N wd ->
  exists u, pow2m1 n = Ok u /\ wf u /\ val u = 2 ^ n - 1.
Proof.
  intros Hn.
  destruct (ok_one _ _ _ _ _ _ _ _ OK) as [W1 V1].
  destruct (ok_shl _ _ _ _ _ _ _ _ OK one n W1 ltac:(lia)) as [Wa Va].
  assert (P : 0 < 2 ^ n) by (apply Z.pow_pos_nonneg; lia).
  assert (L : 2 ^ n < 2 ^ Z.of_N wd) by (apply Z.pow_lt_mono_r; lia).
  rewrite V1, Z.mul_1_l, Z.mod_small in Va by lia.
  destruct (ok_sub _ _ _ _ _ _ _ _ OK _ _ Wa W1) as [S _].
  destruct (S ltac:(lia)) as (t & Et & Wt & Vt). rewrite Va, V1 in Vt.
  exists t. split; [exact Et|]. split; assumption.
Qed.

Lemma gen_pow2m1_oversize n : Z.of_N wd <= n -> pow2m1 n = Panic.
Proof.
  intros Hn. pose proof (N2Z.is_nonneg wd) as Hw.
  destruct (ok_one _ _ _ _ _ _ _ _ OK) as [W1 V1].
  destruct (ok_shl _ _ _ _ _ _ _ _ OK one n W1 ltac:(lia)) as [Wa Va].
  rewrite V1, Z.mul_1_l, pow2_mod_big in Va by lia.
  destruct (ok_sub _ _ _ _ _ _ _ _ OK _ _ Wa W1) as [_ S].
  unfold pow2m1, fp_pow2m1_gen. apply S. lia.
Qed.

Lemma gen_left_exact l r : 0 <= l -> 0 <= r -> l + r + 2 <= Z.of_N wd ->
  exists u, leftm l r = Ok u /\ wf u /\ val u = (2 ^ l - 1) * 2 ^ (r + 2).
Proof.
  intros Hl Hr Hwd.
  destruct (gen_pow2m1_exact l ltac:(lia)) as (t & Et & Wt & Vt).
  destruct (ok_shl _ _ _ _ _ _ _ _ OK t (r + 2) Wt ltac:(lia)) as [Wa Va].
  exists (shl t (r + 2)). split.
  - unfold leftm, fp_left_gen. unfold pow2m1 in Et. rewrite Et. reflexivity.
  - split; [assumption|]. rewrite Va, Vt. apply Z.mod_small.
    assert (Pl : 0 < 2 ^ l) by (apply Z.pow_pos_nonneg; lia).
    assert (Pr : 0 < 2 ^ (r + 2)) by (apply Z.pow_pos_nonneg; lia).
    assert (L : 2 ^ (l + (r + 2)) <= 2 ^ Z.of_N wd) by (apply Z.pow_le_mono_r; lia).
    rewrite Z.pow_add_r in L by lia.
    rewrite Z.mul_sub_distr_r.
    assert (Q : 0 < 2 ^ l * 2 ^ (r + 2)) by (apply Z.mul_pos_pos; assumption).
    assert (G : 1 * 2 ^ (r + 2) <= 2 ^ l * 2 ^ (r + 2)) by (apply Z.mul_le_mono_nonneg_r; lia).
    generalize dependent (2 ^ l * 2 ^ (r + 2)). intros X; intros. lia.
Qed.

(** refinement of the N words of C19/Model.v (value modulo 2^wd) *)
Definition R (u : T) (x : N) : Prop := wf u /\ val u = Z.of_N x.
Definition Rres (r : res T) (o : option N) : Prop :=
  match r, o with Ok u, Some x => R u x | Panic, None => True | _, _ => False end.

Lemma R_one : R one 1.
Proof. destruct (ok_one _ _ _ _ _ _ _ _ OK) as [W1 V1]. split; assumption. Qed.
Lemma R_zero : R zero 0.
Proof. destruct (ok_zero _ _ _ _ _ _ _ _ OK) as [W1 V1]. split; assumption. Qed.

Lemma R_shl u x n : R u x -> R (shl u (Z.of_N n)) (shlwN wd x n).
Proof.
  intros [Wu Vu].
  destruct (ok_shl _ _ _ _ _ _ _ _ OK u (Z.of_N n) Wu (N2Z.is_nonneg n)) as [Wa Va].
  split; [assumption|]. rewrite Va, Vu. unfold OBI.C19.Model.shlw.
  rewrite N2Z.inj_mod, N.shiftl_mul_pow2, N2Z.inj_mul, !N2Z.inj_pow. reflexivity.
Qed.

Lemma R_sub u x v y : R u x -> R v y -> Rres (sub u v) (subwN x y).
Proof.
  intros [Wu Vu] [Wv Vv]. destruct (ok_sub _ _ _ _ _ _ _ _ OK u v Wu Wv) as [A B].
  unfold OBI.C19.Model.subw. destruct (N.leb_spec y x) as [L|L].
  - destruct (A ltac:(lia)) as (t & Et & Wt & Vt). rewrite Et. cbn [Rres]. split; [assumption|].
    rewrite Vt, Vu, Vv. rewrite N2Z.inj_sub by assumption. reflexivity.
  - rewrite B by lia. exact I.
Qed.

Lemma R_lor u x v y : R u x -> R v y -> R (lor u v) (N.lor x y).
Proof.
  intros [Wu Vu] [Wv Vv]. destruct (ok_lor _ _ _ _ _ _ _ _ OK u v Wu Wv) as [Wa Va].
  split; [assumption|]. rewrite Va, Vu, Vv. symmetry. apply of_N_lor.
Qed.

Lemma Rres_bridge r o : Rres r o -> option_map (fun u => Z.to_N (val u)) (res_opt r) = o.
Proof.
  destruct r as [u| |], o as [x|]; cbn [Rres res_opt option_map]; try contradiction; try reflexivity.
  intros [_ V]. rewrite V, N2Z.id. reflexivity.
Qed.

Lemma gen_pow2m1_refines (n : N) : Rres (pow2m1 (Z.of_N n)) (subwN (shlwN wd 1 n) 1).
Proof. unfold pow2m1, fp_pow2m1_gen. apply R_sub; [apply R_shl, R_one|apply R_one]. Qed.

Lemma gen_mask_refines (k : N) : Rres (mask (Z.of_N k)) (kmaskN wd k).
Proof.
  unfold mask, fp_mask_gen, OBI.C19.Model.kmask. destruct k as [|p].
  - cbn [Z.of_N]. change (0 <? 0) with false. change (0 <? 0)%N with false. cbn [Rres]. apply R_zero.
  - change (0 <? N.pos p)%N with true. change (0 <? Z.of_N (N.pos p)) with true. cbv iota.
    replace (2 * Z.of_N (N.pos p) - 1) with (Z.of_N (2 * N.pos p - 1)) by lia.
    pose proof (gen_pow2m1_refines (2 * N.pos p - 1)) as HS.
    unfold pow2m1, fp_pow2m1_gen in HS.
    destruct (sub (shl one (Z.of_N (2 * N.pos p - 1))) one) as [t| |];
      destruct (subwN (shlwN wd 1 (2 * N.pos p - 1)) 1) as [x|];
      cbn [Rres rbind] in HS |- *; try contradiction; try exact I.
    apply R_lor; [|apply R_one]. apply (R_shl t x 1). assumption.
Qed.

Lemma gen_left_refines (l r : N) :
  Rres (leftm (Z.of_N l) (Z.of_N r))
       (option_map (fun x => shlwN wd x (r + 2)) (subwN (shlwN wd 1 l) 1)).
Proof.
  unfold leftm, fp_left_gen. pose proof (gen_pow2m1_refines l) as HS. unfold pow2m1 in HS.
  destruct (fp_pow2m1_gen T shl sub one (Z.of_N l)) as [t| |];
    destruct (subwN (shlwN wd 1 l) 1) as [x|];
    cbn [Rres rbind option_map] in HS |- *; try contradiction; try exact I.
  replace (Z.of_N r + 2) with (Z.of_N (r + 2)) by lia. apply R_shl. assumption.
Qed.

Lemma eff_kZ_of_N k0 sparse : eff_kZ (Z.of_N k0) sparse = Z.of_N (OBI.C19.Model.eff_k k0 sparse).
Proof.
  unfold eff_kZ, OBI.C19.Model.eff_k.
  assert (Ev : Z.even (Z.of_N k0) = N.even k0) by (destruct k0 as [|[p|p|]]; reflexivity).
  assert (Od : Z.odd (Z.of_N k0) = N.odd k0) by (destruct k0 as [|[p|p|]]; reflexivity).
  rewrite Ev, Od. destruct sparse.
  - destruct (N.even k0); lia.
  - destruct (N.odd k0) eqn:E; [|reflexivity].
    assert (k0 <> 0%N) by (intros ->; discriminate). lia.
Qed.

Lemma eff_k_sparse_pos k0 : (1 <= OBI.C19.Model.eff_k k0 true)%N.
Proof. unfold OBI.C19.Model.eff_k. destruct k0 as [|[p|p|]]; cbn [N.even]; lia. Qed.

Lemma gen_new_kmap_refines (k0 : N) (sparse : bool) :
  option_map (to_kmapN val wd) (res_opt (fp_new_kmap_gen T shl sub lor one zero (Z.of_N k0) sparse))
  = OBI.C19.Model.new_kmap wd k0 sparse.
Proof.
  unfold fp_new_kmap_gen, OBI.C19.Model.new_kmap, OBI.C19.Model.new_kmap_with. cbv zeta.
  rewrite eff_kZ_of_N. pose proof (eff_k_sparse_pos k0) as Hpos.
  set (k := OBI.C19.Model.eff_k k0 sparse) in *.
  pose proof (gen_mask_refines k) as HM. unfold mask in HM.
  destruct (fp_mask_gen T shl sub lor one zero (Z.of_N k)) as [m| |];
    destruct (kmaskN wd k) as [x|]; cbn [Rres rbind res_opt option_map] in HM |- *;
    try contradiction; try reflexivity.
  destruct HM as [_ Vm]. destruct R_zero as [_ Vz].
  destruct sparse.
  - assert (Hk : (1 <= k)%N) by exact Hpos. clear Hpos.
    destruct (Z.leb_spec 0 (Z.of_N k / 2)) as [_|?]; [|lia].
    destruct (Z.leb_spec (Z.of_N k) (Z.of_N k / 2)) as [?|_]; [lia|].
    replace (Z.of_N k / 2 * 2) with (Z.of_N (k / 2 * 2)) by (rewrite N2Z.inj_mul, N2Z.inj_div; reflexivity).
    replace ((Z.of_N k - 1 - Z.of_N k / 2) * 2) with (Z.of_N ((k - 1 - k / 2) * 2))
      by (rewrite N2Z.inj_mul, !N2Z.inj_sub, N2Z.inj_div by lia; reflexivity).
    pose proof (gen_left_refines (k / 2 * 2) ((k - 1 - k / 2) * 2)) as HL. unfold leftm in HL.
    pose proof (gen_pow2m1_refines ((k - 1 - k / 2) * 2)) as HR. unfold pow2m1 in HR.
    unfold fp_right_gen.
    destruct (fp_left_gen T shl sub one (Z.of_N (k / 2 * 2)) (Z.of_N ((k - 1 - k / 2) * 2))) as [l| |];
      destruct (subwN (shlwN wd 1 (k / 2 * 2)) 1) as [xl|];
      cbn [Rres rbind res_opt option_map] in HL |- *; try contradiction;
      destruct (fp_pow2m1_gen T shl sub one (Z.of_N ((k - 1 - k / 2) * 2))) as [r| |];
      destruct (subwN (shlwN wd 1 ((k - 1 - k / 2) * 2)) 1) as [xr|];
      cbn [Rres rbind res_opt option_map] in HR |- *; try contradiction; try reflexivity.
    destruct HL as [_ Vl]. destruct HR as [_ Vr].
    unfold to_kmapN. cbn [fk_k fk_mask fk_left fk_right fk_sparse_at].
    rewrite Vm, Vl, Vr, !N2Z.id.
    destruct (Z.leb_spec 0 (Z.of_N k / 2)) as [_|?]; [reflexivity|lia].
  - change (0 <=? -1) with false. cbv iota. cbn [res_opt option_map].
    unfold to_kmapN. cbn [fk_k fk_mask fk_left fk_right fk_sparse_at].
    rewrite Vm, Vz. change (Z.of_N 0) with 0 in *. rewrite !N2Z.id. reflexivity.
Qed.
End GenericProofs.

(** ================================================================ the delivered theorems *)

(** 1. exactness: 0 < k, 2k <= width: the mask is 4^k - 1 (no panic) *)
Theorem fp_mask64_exact : forall k, 0 < k -> 2 * k <= 64 ->
  exists u, fp_mask64 k = Ok u /\ inW u /\ val64 u = 4 ^ k - 1.
Proof. intros k Hk H. exact (gen_mask_exact _ _ _ _ _ _ _ _ _ fp_ok64 k Hk H). Qed.
Theorem fp_mask128_exact : forall k, 0 < k -> 2 * k <= 128 ->
  exists u, fp_mask128 k = Ok u /\ wf128 u /\ val128 u = 4 ^ k - 1.
Proof. intros k Hk H. exact (gen_mask_exact _ _ _ _ _ _ _ _ _ fp_ok128 k Hk H). Qed.
Theorem fp_mask256_exact : forall k, 0 < k -> 2 * k <= 256 ->
  exists u, fp_mask256 k = Ok u /\ wf256 u /\ val256 u = 4 ^ k - 1.
Proof. intros k Hk H. exact (gen_mask_exact _ _ _ _ _ _ _ _ _ fp_ok256 k Hk H). Qed.

(** 2. oversize: width < 2k: One.LeftShift(2k-1) = 0, then Sub(One) panics (log.Panicf) *)
Theorem fp_mask64_oversize : forall k, 64 < 2 * k ->
  u64_shl 1 (2 * k - 1) = 0 /\ fp_mask64 k = Panic.
Proof. intros k H. exact (gen_mask_oversize _ _ _ _ _ _ _ _ _ fp_ok64 k H). Qed.
Theorem fp_mask128_oversize : forall k, 128 < 2 * k ->
  val128 (u128_shl one128 (2 * k - 1)) = 0 /\ fp_mask128 k = Panic.
Proof. intros k H. exact (gen_mask_oversize _ _ _ _ _ _ _ _ _ fp_ok128 k H). Qed.
Theorem fp_mask256_oversize : forall k, 256 < 2 * k ->
  val256 (u256_shl one256 (2 * k - 1)) = 0 /\ fp_mask256 k = Panic.
Proof. intros k H. exact (gen_mask_oversize _ _ _ _ _ _ _ _ _ fp_ok256 k H). Qed.

(** k = 0 (the guard [kmersize > 0]): the zero word, no shift by 2k-1 = "-1" *)
Theorem fp_mask64_zero : fp_mask64 0 = Ok 0.
Proof. reflexivity. Qed.
Theorem fp_mask128_zero : fp_mask128 0 = Ok zero128 /\ val128 zero128 = 0.
Proof. split; reflexivity. Qed.
Theorem fp_mask256_zero : fp_mask256 0 = Ok zero256 /\ val256 zero256 = 0.
Proof. split; reflexivity. Qed.

(** 3. bridge to the N model of C19/Model.v: for EVERY k (zero, fitting, oversize) the value of the
    obifp computation is C19's [kmask]; a panic is [None] *)
Theorem fp_mask64_bridge : forall k : N,
  option_map (fun u => Z.to_N (val64 u)) (res_opt (fp_mask64 (Z.of_N k))) = kmaskN 64 k.
Proof. intros k. exact (Rres_bridge _ _ _ _ _ (gen_mask_refines _ _ _ _ _ _ _ _ _ fp_ok64 k)). Qed.
Theorem fp_mask128_bridge : forall k : N,
  option_map (fun u => Z.to_N (val128 u)) (res_opt (fp_mask128 (Z.of_N k))) = kmaskN 128 k.
Proof. intros k. exact (Rres_bridge _ _ _ _ _ (gen_mask_refines _ _ _ _ _ _ _ _ _ fp_ok128 k)). Qed.
Theorem fp_mask256_bridge : forall k : N,
  option_map (fun u => Z.to_N (val256 u)) (res_opt (fp_mask256 (Z.of_N k))) = kmaskN 256 k.
Proof. intros k. exact (Rres_bridge _ _ _ _ _ (gen_mask_refines _ _ _ _ _ _ _ _ _ fp_ok256 k)). Qed.

(** sparse mode: rightMask = 2^right - 1, leftMask = (2^left - 1) * 2^(right+2) when they fit *)
Theorem fp_right64_exact : forall r, 0 <= r < 64 ->
  exists u, fp_right64 r = Ok u /\ inW u /\ val64 u = 2 ^ r - 1.
Proof. intros r H. exact (gen_pow2m1_exact _ _ _ _ _ _ _ _ _ fp_ok64 r H). Qed.
Theorem fp_right128_exact : forall r, 0 <= r < 128 ->
  exists u, fp_right128 r = Ok u /\ wf128 u /\ val128 u = 2 ^ r - 1.
Proof. intros r H. exact (gen_pow2m1_exact _ _ _ _ _ _ _ _ _ fp_ok128 r H). Qed.
Theorem fp_right256_exact : forall r, 0 <= r < 256 ->
  exists u, fp_right256 r = Ok u /\ wf256 u /\ val256 u = 2 ^ r - 1.
Proof. intros r H. exact (gen_pow2m1_exact _ _ _ _ _ _ _ _ _ fp_ok256 r H). Qed.

Theorem fp_left64_exact : forall l r, 0 <= l -> 0 <= r -> l + r + 2 <= 64 ->
  exists u, fp_left64 l r = Ok u /\ inW u /\ val64 u = (2 ^ l - 1) * 2 ^ (r + 2).
Proof. intros l r Hl Hr H. exact (gen_left_exact _ _ _ _ _ _ _ _ _ fp_ok64 l r Hl Hr H). Qed.
Theorem fp_left128_exact : forall l r, 0 <= l -> 0 <= r -> l + r + 2 <= 128 ->
  exists u, fp_left128 l r = Ok u /\ wf128 u /\ val128 u = (2 ^ l - 1) * 2 ^ (r + 2).
Proof. intros l r Hl Hr H. exact (gen_left_exact _ _ _ _ _ _ _ _ _ fp_ok128 l r Hl Hr H). Qed.
Theorem fp_left256_exact : forall l r, 0 <= l -> 0 <= r -> l + r + 2 <= 256 ->
  exists u, fp_left256 l r = Ok u /\ wf256 u /\ val256 u = (2 ^ l - 1) * 2 ^ (r + 2).
Proof. intros l r Hl Hr H. exact (gen_left_exact _ _ _ _ _ _ _ _ _ fp_ok256 l r Hl Hr H). Qed.

(** ... and bridge to the expressions of [new_kmap_with] in C19/Model.v, for all left/right *)
Theorem fp_right64_bridge : forall r : N,
  option_map (fun u => Z.to_N (val64 u)) (res_opt (fp_right64 (Z.of_N r))) = subwN (shlwN 64 1 r) 1.
Proof. intros r. exact (Rres_bridge _ _ _ _ _ (gen_pow2m1_refines _ _ _ _ _ _ _ _ _ fp_ok64 r)). Qed.
Theorem fp_right128_bridge : forall r : N,
  option_map (fun u => Z.to_N (val128 u)) (res_opt (fp_right128 (Z.of_N r))) = subwN (shlwN 128 1 r) 1.
Proof. intros r. exact (Rres_bridge _ _ _ _ _ (gen_pow2m1_refines _ _ _ _ _ _ _ _ _ fp_ok128 r)). Qed.
Theorem fp_right256_bridge : forall r : N,
  option_map (fun u => Z.to_N (val256 u)) (res_opt (fp_right256 (Z.of_N r))) = subwN (shlwN 256 1 r) 1.
Proof. intros r. exact (Rres_bridge _ _ _ _ _ (gen_pow2m1_refines _ _ _ _ _ _ _ _ _ fp_ok256 r)). Qed.

Theorem fp_left64_bridge : forall l r : N,
  option_map (fun u => Z.to_N (val64 u)) (res_opt (fp_left64 (Z.of_N l) (Z.of_N r)))
  = option_map (fun x => shlwN 64 x (r + 2)) (subwN (shlwN 64 1 l) 1).
Proof. intros l r. exact (Rres_bridge _ _ _ _ _ (gen_left_refines _ _ _ _ _ _ _ _ _ fp_ok64 l r)). Qed.
Theorem fp_left128_bridge : forall l r : N,
  option_map (fun u => Z.to_N (val128 u)) (res_opt (fp_left128 (Z.of_N l) (Z.of_N r)))
  = option_map (fun x => shlwN 128 x (r + 2)) (subwN (shlwN 128 1 l) 1).
Proof. intros l r. exact (Rres_bridge _ _ _ _ _ (gen_left_refines _ _ _ _ _ _ _ _ _ fp_ok128 l r)). Qed.
Theorem fp_left256_bridge : forall l r : N,
  option_map (fun u => Z.to_N (val256 u)) (res_opt (fp_left256 (Z.of_N l) (Z.of_N r)))
  = option_map (fun x => shlwN 256 x (r + 2)) (subwN (shlwN 256 1 l) 1).
Proof. intros l r. exact (Rres_bridge _ _ _ _ _ (gen_left_refines _ _ _ _ _ _ _ _ _ fp_ok256 l r)). Qed.

(** the whole mask part of NewKmerMap, for every requested k-mer size and both modes: the record of
    C19/Model.v ([new_kmap], on which C19's canon theorems rest) is what the obifp computation
    yields, and [None] exactly when the obifp computation panics *)
Theorem fp_new_kmap64_bridge : forall (k0 : N) (sparse : bool),
  option_map (to_kmapN val64 64) (res_opt (fp_new_kmap64 (Z.of_N k0) sparse))
  = OBI.C19.Model.new_kmap 64 k0 sparse.
Proof. exact (gen_new_kmap_refines _ _ _ _ _ _ _ _ _ fp_ok64). Qed.
Theorem fp_new_kmap128_bridge : forall (k0 : N) (sparse : bool),
  option_map (to_kmapN val128 128) (res_opt (fp_new_kmap128 (Z.of_N k0) sparse))
  = OBI.C19.Model.new_kmap 128 k0 sparse.
Proof. exact (gen_new_kmap_refines _ _ _ _ _ _ _ _ _ fp_ok128). Qed.
Theorem fp_new_kmap256_bridge : forall (k0 : N) (sparse : bool),
  option_map (to_kmapN val256 256) (res_opt (fp_new_kmap256 (Z.of_N k0) sparse))
  = OBI.C19.Model.new_kmap 256 k0 sparse.
Proof. exact (gen_new_kmap_refines _ _ _ _ _ _ _ _ _ fp_ok256). Qed.

Corollary fp_new_kmap64_ok : forall (k0 : N) (sparse : bool) f,
  fp_new_kmap64 (Z.of_N k0) sparse = Ok f ->
  OBI.C19.Model.new_kmap 64 k0 sparse = Some (to_kmapN val64 64 f).
Proof. intros k0 sparse f H. rewrite <- fp_new_kmap64_bridge, H. reflexivity. Qed.
Corollary fp_new_kmap128_ok : forall (k0 : N) (sparse : bool) f,
  fp_new_kmap128 (Z.of_N k0) sparse = Ok f ->
  OBI.C19.Model.new_kmap 128 k0 sparse = Some (to_kmapN val128 128 f).
Proof. intros k0 sparse f H. rewrite <- fp_new_kmap128_bridge, H. reflexivity. Qed.
Corollary fp_new_kmap256_ok : forall (k0 : N) (sparse : bool) f,
  fp_new_kmap256 (Z.of_N k0) sparse = Ok f ->
  OBI.C19.Model.new_kmap 256 k0 sparse = Some (to_kmapN val256 256 f).
Proof. intros k0 sparse f H. rewrite <- fp_new_kmap256_bridge, H. reflexivity. Qed.

(** the definitions compute: full-word k-mers (2k = width, where the original (1 << 2k) - 1
    panicked) and the first oversize k *)
Example fp_mask64_full : fp_mask64 32 = Ok (2 ^ 64 - 1).
Proof. vm_compute. reflexivity. Qed.
Example fp_mask64_33 : fp_mask64 33 = Panic.
Proof. vm_compute. reflexivity. Qed.
Example fp_mask128_34 : fp_mask128 34 = Ok (mk128 15 (2 ^ 64 - 1)).
Proof. vm_compute. reflexivity. Qed.
Example fp_mask128_full : fp_mask128 64 = Ok (mk128 (2 ^ 64 - 1) (2 ^ 64 - 1)).
Proof. vm_compute. reflexivity. Qed.
Example fp_mask256_full : fp_mask256 128 = Ok (mk256 (2 ^ 64 - 1) (2 ^ 64 - 1) (2 ^ 64 - 1) (2 ^ 64 - 1)).
Proof. vm_compute. reflexivity. Qed.
Example fp_mask256_129 : fp_mask256 129 = Panic.
Proof. vm_compute. reflexivity. Qed.

(** 4. the seeded mutant "mask computed in a 64-bit word before widening" is wrong for 2k > 64:
    k = 34 fits a Uint128 (68 bits) but the 64-bit expression gives 2^64 - 1 *)
Theorem fp_mask128_via64_refuted :
  exists k, 0 < k /\ 2 * k <= 128 /\ val128 (fp_mask128_via64 k) <> 4 ^ k - 1.
Proof. exists 34. split; [lia|]. split; [lia|]. vm_compute. discriminate. Qed.
(* ... while it agrees with the obifp computation as long as the k-mer fits 64 bits... *)
Theorem fp_mask128_via64_small_upto_31 :
  forallb (fun k => match fp_mask128 k with
                    | Ok u => val128 u =? val128 (fp_mask128_via64 k) | _ => false end)
          (map Z.of_nat (seq 1 31)) = true.
Proof. vm_compute. reflexivity. Qed.
