(** C19 — round 3, proofs over Model3.v: the coverage trimming of LongestConsensus (min_cov > 0). *)
From Coq Require Import NArith PArith List Bool Lia.
From OBI.C19 Require Import Model Algo Model3 Proofs HavProofs DfsProofs AlgoProofs BuiltProofs SingleProofs KmerString DecodeProofs ConsProofs.
Import ListNotations.
Open Scope N_scope.

Definition low (g : graph) (mp : N) (x : N) : Prop := weight g x < mp.

Lemma drop_low_spec : forall g mp p, exists a, p = a ++ drop_low g mp p /\ Forall (low g mp) a /\
  match drop_low g mp p with [] => True | x :: _ => mp <= weight g x end.
Proof.
  intros g mp. induction p as [|x p IH]; cbn [drop_low].
  - exists []. repeat split; constructor.
  - destruct (weight g x <? mp) eqn:L.
    + destruct IH as (a & E & F & H). exists (x :: a). split; [cbn [app]; f_equal; exact E|].
      split; [constructor; [apply N.ltb_lt; exact L|exact F]|exact H].
    + exists []. split; [reflexivity|]. split; [constructor|apply N.ltb_ge; exact L].
Qed.

Lemma drop_low_all : forall g mp p, drop_low g mp p = [] -> Forall (low g mp) p.
Proof.
  intros g mp p H. destruct (drop_low_spec g mp p) as (a & E & F & _). rewrite H, app_nil_r in E. subst a. exact F.
Qed.

Lemma drop_low_keeps : forall g mp p x, In x p -> mp <= weight g x -> drop_low g mp p <> [].
Proof.
  intros g mp p x I W H. apply drop_low_all in H. rewrite Forall_forall in H. specialize (H x I). unfold low in H. lia.
Qed.

(* path[from:to]: the low-coverage nodes are removed from both ends, and only there *)
Lemma trim_cov_infix : forall g mp p sp, trim_cov g mp p = Some sp ->
  exists a b, p = a ++ sp ++ b /\ Forall (low g mp) a /\ Forall (low g mp) b /\
              (forall x q, sp = x :: q -> mp <= weight g x /\ mp <= weight g (last sp x)).
Proof.
  intros g mp p sp H. unfold trim_cov in H. destruct p as [|x0 p0]; [injection H as <-; exists [], []; repeat split; try constructor; discriminate|].
  destruct (drop_low_spec g mp (x0 :: p0)) as (a & E & Fa & Ha).
  destruct (drop_low g mp (x0 :: p0)) as [|y q] eqn:D; [discriminate|].
  remember (y :: q) as l eqn:El. injection H as <-.
  destruct (drop_low_spec g mp (rev l)) as (b' & E' & Fb & Hb).
  assert (El' : rev (drop_low g mp (rev l)) ++ rev b' = l).
  { rewrite <- rev_app_distr, <- E', rev_involutive. reflexivity. }
  exists a, (rev b'). split; [rewrite E, El'; reflexivity|].
  split; [exact Fa|]. split; [apply Forall_rev; exact Fb|].
  intros x q' Es.
  destruct (drop_low g mp (rev l)) as [|z t] eqn:D'; [cbn [rev] in Es; discriminate|].
  split.
  - rewrite Es, El in El'. cbn [app] in El'. injection El' as -> _. exact Ha.
  - cbn [rev]. rewrite last_last. exact Hb.
Qed.

Lemma trim_cov_panics_iff : forall g mp p, trim_cov g mp p = None <-> p <> [] /\ Forall (low g mp) p.
Proof.
  intros g mp p. unfold trim_cov. destruct p as [|x0 p0]; [split; [discriminate|intros [H _]; congruence]|].
  destruct (drop_low g mp (x0 :: p0)) as [|y q] eqn:D.
  - split; [intros _; split; [discriminate|apply drop_low_all; exact D]|reflexivity].
  - split; [discriminate|]. intros [_ F]. exfalso.
    destruct (drop_low_spec g mp (x0 :: p0)) as (a & E & _ & Hy). rewrite D in E, Hy.
    rewrite Forall_forall in F. assert (I : In y (x0 :: p0)) by (rewrite E; apply in_or_app; right; left; reflexivity).
    specialize (F y I). unfold low in F. lia.
Qed.

Lemma trim_cov_nonempty : forall g mp p x, In x p -> mp <= weight g x -> exists y q, trim_cov g mp p = Some (y :: q).
Proof.
  intros g mp p x I W. unfold trim_cov. destruct p as [|x0 p0]; [destruct I|].
  pose proof (drop_low_keeps g mp (x0 :: p0) x I W) as N1.
  destruct (drop_low_spec g mp (x0 :: p0)) as (a & E & _ & Hy).
  destruct (drop_low g mp (x0 :: p0)) as [|y q] eqn:D; [congruence|].
  assert (N2 : drop_low g mp (rev (y :: q)) <> []).
  { apply (drop_low_keeps g mp _ y); [apply in_rev; rewrite rev_involutive; left; reflexivity|exact Hy]. }
  destruct (drop_low g mp (rev (y :: q))) as [|z t] eqn:D'; [congruence|].
  destruct (rev (z :: t)) as [|y' q'] eqn:R.
  - apply (f_equal (@length N)) in R. rewrite rev_length in R. discriminate.
  - exists y', q'. reflexivity.
Qed.

(* the trimmed path is still a walk of the graph *)
Lemma trim_cov_walk : forall k g mp p y q, is_walk k g p -> trim_cov g mp p = Some (y :: q) -> is_walk k g (y :: q).
Proof.
  intros k g mp p y q W H. destruct (trim_cov_infix g mp p (y :: q) H) as (a & b & E & _).
  rewrite E in W. apply walk_suffix in W; [|discriminate]. apply walk_prefix in W; [exact W|discriminate].
Qed.

(** obistats.Mode answers an element of its argument; the threshold never exceeds it when min_cov <= 1 *)
Lemma dedup_incl : forall l x, In x (dedup l) -> In x l.
Proof.
  induction l as [|a l IH]; intros x H; [exact H|]. cbn [dedup] in H. destruct H as [->|H]; [left; reflexivity|].
  apply filter_In in H. right. apply IH. tauto.
Qed.

Lemma modes_in : forall l m, In m (modes l) -> In m l.
Proof. intros l m H. unfold modes in H. apply filter_In in H. apply dedup_incl. tauto. Qed.

Lemma cov_threshold_le_mode : forall mode num e, num <= 2 ^ e -> cov_threshold mode num e <= mode.
Proof.
  intros mode num e H. unfold cov_threshold.
  assert (P : 0 < 2 ^ (e + 1)) by (apply N.neq_0_lt_0; apply N.pow_nonzero; discriminate).
  apply N.lt_succ_r. apply N.div_lt_upper_bound; [lia|].
  rewrite N.pow_add_r. change (2 ^ 1) with 2.
  assert (Q : 0 < 2 ^ e) by (apply N.neq_0_lt_0; apply N.pow_nonzero; discriminate).
  assert (R : mode * num <= mode * 2 ^ e) by (apply N.mul_le_mono_l; exact H).
  set (A := mode * num) in *. set (B := mode * 2 ^ e) in *. set (C := 2 ^ e) in *.
  replace (2 * mode * num) with (2 * A) by (unfold A; lia).
  replace (C * 2 * N.succ mode) with (2 * B + 2 * C) by (unfold B; lia). lia.
Qed.

Lemma cov_threshold_zero : forall mode num e, 2 * mode * num < 2 ^ e -> cov_threshold mode num e = 0.
Proof.
  intros mode num e H. unfold cov_threshold. apply N.div_small. rewrite N.pow_add_r. change (2 ^ 1) with 2. lia.
Qed.

Lemma drop_low_zero : forall g p, drop_low g 0 p = p.
Proof. intros g p. destruct p as [|x p]; [reflexivity|]. cbn [drop_low]. destruct (weight g x <? 0) eqn:L; [apply N.ltb_lt in L; lia|reflexivity]. Qed.

Lemma trim_cov_zero : forall g p, trim_cov g 0 p = Some p.
Proof.
  intros g p. unfold trim_cov. destruct p as [|x p]; [reflexivity|]. rewrite drop_low_zero, drop_low_zero, rev_involutive. reflexivity.
Qed.

(* a min_cov so small that the threshold rounds to 0 trims nothing: the answer is the one of LongestConsensus(id, 0) *)
Lemma cov_small_is_plain : forall k g p num e mode, cov_threshold mode num e = 0 ->
  cov_of_res k g (HPath p) num e mode = match decode_path k p with [] => CErr | s => CSeq s end.
Proof. intros k g p num e mode H. unfold cov_of_res. rewrite H, trim_cov_zero. reflexivity. Qed.

(* min_cov <= 1 never panics and never empties the path; min_cov > 1 can *)
Lemma cov_le_one_no_panic : forall g p num e mode, p <> [] -> In mode (modes (map (weight g) p)) -> num <= 2 ^ e ->
  exists y q, trim_cov g (cov_threshold mode num e) p = Some (y :: q).
Proof.
  intros g p num e mode Hp Hm Hn. apply modes_in in Hm. apply in_map_iff in Hm. destruct Hm as (x & Ex & Ix).
  apply (trim_cov_nonempty g _ p x Ix). rewrite Ex. apply cov_threshold_le_mode. exact Hn.
Qed.

Lemma last_any : forall (l : list N) a b, l <> [] -> last l a = last l b.
Proof.
  induction l as [|x l IH]; intros a b H; [congruence|]. destruct l as [|y l']; [reflexivity|].
  change (last (y :: l') a = last (y :: l') b). apply IH. discriminate.
Qed.

(** LongestConsensus(id, num / 2^e), 0 < num / 2^e <= 1, on a non-empty acyclic graph built by Push: the string returned
    spells the walk obtained by removing, at both ends of the heaviest walk, the nodes whose weight is below the threshold *)
Theorem consensus_cov_spec : forall k seqs g bw num e, 1 <= k -> k <= 31 -> dbg_build k seqs = Some g ->
  Forall (fun sq => 0 < snd sq) seqs -> g <> [] -> best_walk_weight k g = Some bw -> num <= 2 ^ e ->
  exists p, go_heaviest_path k g = HPath p /\ is_walk k g p /\ wsum g p = bw /\
  forall mode, In mode (modes (map (weight g) p)) ->
    let mp := cov_threshold mode num e in
    exists a sp b cs, p = a ++ sp ++ b /\ sp <> [] /\ is_walk k g sp /\
      Forall (low g mp) a /\ Forall (low g mp) b /\
      mp <= weight g (hd 0 sp) /\ mp <= weight g (last sp 0) /\
      cov_of_res k g (HPath p) num e mode = CSeq (map decode cs) /\ digits cs /\ kmers (N.to_nat k) cs = sp.
Proof.
  intros k seqs g bw num e K1 K2 Hb Hpos Hne Hbw Hn.
  pose proof (longest_consensus_spec k seqs g K1 K2 Hb Hpos Hne) as L. rewrite Hbw in L.
  destruct L as (cs0 & p & _ & _ & _ & _ & Hp & Hw & Hs & (h & rest & Ep & _) & _).
  exists p. split; [exact Hp|]. split; [exact Hw|]. split; [exact Hs|]. intros mode Hm mp.
  assert (Pne : p <> []) by (rewrite Ep; discriminate).
  destruct (cov_le_one_no_panic g p num e mode Pne Hm Hn) as (y & q & Ht). fold mp in Ht.
  destruct (trim_cov_infix g mp p (y :: q) Ht) as (a & b & E & Fa & Fb & Hends).
  pose proof (trim_cov_walk k g mp p y q Hw Ht) as Wsp.
  destruct (decode_path_spells_walk_built k seqs g (y :: q) K1 K2 Hb Wsp) as (cs & Dc & Ed & Lc & Ek).
  exists a, (y :: q), b, cs. split; [exact E|]. split; [discriminate|]. split; [exact Wsp|]. split; [exact Fa|]. split; [exact Fb|].
  destruct (Hends y q eq_refl) as [H1 H2]. split; [exact H1|]. split; [rewrite (last_any (y :: q) 0 y) by discriminate; exact H2|].
  split; [|split; [exact Dc|exact Ek]].
  unfold cov_of_res. fold mp. rewrite Ht, Ed. destruct cs as [|c cs']; [cbn [length] in Lc; lia|]. reflexivity.
Qed.

(* min_cov > 1: the slice path[from:to] can have from > to *)
Lemma cov_above_one_panics : exists g p, trim_cov g (cov_threshold 1 3 1) p = None /\ modes (map (weight g) p) = [1].
Proof. exists [(6, 1)], [6]. vm_compute. split; reflexivity. Qed.
