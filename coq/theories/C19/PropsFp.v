(** C19 — the masks of NewKmerMap computed by the obifp operations the Go code actually uses
    (OneUint.LeftShift(2k-1).Sub(One).LeftShift(1).Or(One), generic in the word type), over the PROVED
    limb model of property C20 (imported read-only), for Uint64 / Uint128 / Uint256 and EVERY k:
    value 4^k - 1 when the k-mer fits the word (2k <= width), panic otherwise; and the bridge to the
    N-modulo-2^width model of C19/Model.v on which the canonical k-mer theorems rest.
    Statements only; every proof is [exact] of a lemma of MaskFp.v. *)
From Coq Require Import ZArith NArith List Bool.
From OBI.C20 Require Import Model Proofs.
From OBI.C19 Require Import MaskFp.
Import ListNotations.
Open Scope Z_scope.

Theorem C19_fp_mask64_exact : forall k, 0 < k -> 2 * k <= 64 ->
  exists u, fp_mask64 k = Ok u /\ inW u /\ val64 u = 4 ^ k - 1.
Proof. exact fp_mask64_exact. Qed.
Theorem C19_fp_mask128_exact : forall k, 0 < k -> 2 * k <= 128 ->
  exists u, fp_mask128 k = Ok u /\ wf128 u /\ val128 u = 4 ^ k - 1.
Proof. exact fp_mask128_exact. Qed.
Theorem C19_fp_mask256_exact : forall k, 0 < k -> 2 * k <= 256 ->
  exists u, fp_mask256 k = Ok u /\ wf256 u /\ val256 u = 4 ^ k - 1.
Proof. exact fp_mask256_exact. Qed.

(* the k-mer does not fit: One.LeftShift(2k-1) is 0 and Sub(One) panics *)
Theorem C19_fp_mask64_oversize : forall k, 64 < 2 * k -> u64_shl 1 (2 * k - 1) = 0 /\ fp_mask64 k = Panic.
Proof. exact fp_mask64_oversize. Qed.
Theorem C19_fp_mask128_oversize : forall k, 128 < 2 * k -> val128 (u128_shl one128 (2 * k - 1)) = 0 /\ fp_mask128 k = Panic.
Proof. exact fp_mask128_oversize. Qed.
Theorem C19_fp_mask256_oversize : forall k, 256 < 2 * k -> val256 (u256_shl one256 (2 * k - 1)) = 0 /\ fp_mask256 k = Panic.
Proof. exact fp_mask256_oversize. Qed.

(* every k (zero, fitting, oversize): the obifp computation IS C19.Model.kmask (a panic is None) *)
Theorem C19_fp_mask64_is_model : forall k : N,
  option_map (fun u => Z.to_N (val64 u)) (res_opt (fp_mask64 (Z.of_N k))) = OBI.C19.Model.kmask 64 k.
Proof. exact fp_mask64_bridge. Qed.
Theorem C19_fp_mask128_is_model : forall k : N,
  option_map (fun u => Z.to_N (val128 u)) (res_opt (fp_mask128 (Z.of_N k))) = OBI.C19.Model.kmask 128 k.
Proof. exact fp_mask128_bridge. Qed.
Theorem C19_fp_mask256_is_model : forall k : N,
  option_map (fun u => Z.to_N (val256 u)) (res_opt (fp_mask256 (Z.of_N k))) = OBI.C19.Model.kmask 256 k.
Proof. exact fp_mask256_bridge. Qed.

(* the whole mask part of NewKmerMap (effective k, kmermask, leftMask, rightMask, sparseAt), every requested
   k-mer size, dense and sparse: the record of C19/Model.v is what the obifp computation yields *)
Theorem C19_fp_new_kmap64_is_model : forall (k0 : N) (sparse : bool),
  option_map (to_kmapN val64 64) (res_opt (fp_new_kmap64 (Z.of_N k0) sparse)) = OBI.C19.Model.new_kmap 64 k0 sparse.
Proof. exact fp_new_kmap64_bridge. Qed.
Theorem C19_fp_new_kmap128_is_model : forall (k0 : N) (sparse : bool),
  option_map (to_kmapN val128 128) (res_opt (fp_new_kmap128 (Z.of_N k0) sparse)) = OBI.C19.Model.new_kmap 128 k0 sparse.
Proof. exact fp_new_kmap128_bridge. Qed.
Theorem C19_fp_new_kmap256_is_model : forall (k0 : N) (sparse : bool),
  option_map (to_kmapN val256 256) (res_opt (fp_new_kmap256 (Z.of_N k0) sparse)) = OBI.C19.Model.new_kmap 256 k0 sparse.
Proof. exact fp_new_kmap256_bridge. Qed.

(* seeded change C19-B (mask built in a 64-bit word, then widened): wrong as soon as 2k > 64 *)
Theorem C19_fp_mask_via64_refuted : exists k, 0 < k /\ 2 * k <= 128 /\ val128 (fp_mask128_via64 k) <> 4 ^ k - 1.
Proof. exact fp_mask128_via64_refuted. Qed.

Example C19_fp_mask_nonvacuous :
  fp_mask64 32 = Ok (2 ^ 64 - 1) /\ fp_mask128 34 = Ok (mk128 15 (2 ^ 64 - 1)) /\ fp_mask64 33 = Panic.
Proof. vm_compute. auto. Qed.

Print Assumptions C19_fp_mask64_exact.
Print Assumptions C19_fp_mask128_exact.
Print Assumptions C19_fp_mask256_exact.
Print Assumptions C19_fp_mask64_oversize.
Print Assumptions C19_fp_mask128_oversize.
Print Assumptions C19_fp_mask256_oversize.
Print Assumptions C19_fp_mask64_is_model.
Print Assumptions C19_fp_mask128_is_model.
Print Assumptions C19_fp_mask256_is_model.
Print Assumptions C19_fp_new_kmap64_is_model.
Print Assumptions C19_fp_new_kmap128_is_model.
Print Assumptions C19_fp_new_kmap256_is_model.
Print Assumptions C19_fp_mask_via64_refuted.
