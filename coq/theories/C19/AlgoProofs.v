(** C19 — top-level theorems about the transcribed algorithms HasCycle / HaviestPath (Algo.v). *)
From Coq Require Import NArith PArith List Bool Lia.
From OBI.C19 Require Import Model Proofs Algo HavProofs DfsProofs.
Import ListNotations.
Open Scope N_scope.

(* cyclic graph: nil, whatever the fuel *)
Lemma heaviest_path_cyclic : forall fuel k g order hs, (forall x, In x order <-> In x (nodes g)) ->
  has_cycle k g = true -> heaviest_path fuel k g order hs = HNil.
Proof.
  intros fuel k g order hs Ho Hc. unfold heaviest_path, heaviest_path_with.
  rewrite (go_has_cycle_correct k g order Ho), Hc. reflexivity.
Qed.

(* acyclic graph: the loop terminates within hav_fuel and the path returned is a heaviest walk from a source *)
Lemma heaviest_path_acyclic : forall k g order hs,
  (forall x, In x order <-> In x (nodes g)) ->
  has_cycle k g = false ->
  (forall x, mem g x = true -> 0 < weight g x) ->
  (forall h, In h hs -> mem g h = true) ->
  (forall h y, In h hs -> mem g y = true -> ~ In h (nexts k g y)) ->
  hs <> [] -> (length hs <= length g)%nat ->
  exists h rest, heaviest_path (hav_fuel g) k g order hs = HPath (h :: rest) /\ In h hs /\ is_walk k g (h :: rest) /\
    forall h' p', In h' hs -> is_walk k g (h' :: p') -> wsum g (h' :: p') <= wsum g (h :: rest).
Proof.
  intros k g order hs Ho Hc Hpos Hhs Hsrc Hne Hlen. unfold heaviest_path, heaviest_path_with.
  rewrite (go_has_cycle_correct k g order Ho), Hc.
  destruct (hav_terminates k g hs Hc Hpos Hhs Hsrc Hlen) as (st & Est).
  fold (hstep k g). rewrite Est.
  rewrite run_pos_spec in Est.
  destruct (hav_partial k g hs Hc Hpos Hhs Hsrc _ st Hne Est) as (h & rest & R & A & B & C).
  exists h, rest. rewrite R. split; [reflexivity|]. split; [exact A|]. split; [exact B|exact C].
Qed.

Lemma heads_length : forall k g, (length (heads k g) <= length g)%nat.
Proof.
  intros k g. unfold heads.
  assert (L : forall (f : N -> bool) l, (length (filter f l) <= length l)%nat).
  { intros f. induction l as [|x l IH]; [cbn; lia|]. cbn [filter]. destruct (f x); cbn [length]; lia. }
  specialize (L (fun x => match prevs k g x with [] => true | _ => false end) (nodes g)).
  unfold nodes in L at 2. rewrite map_length in L. exact L.
Qed.

(* the Go call HaviestPath() on a graph built by Push, against the specification best_walk_weight *)
Lemma go_heaviest_path_optimal : forall k seqs g, 1 <= k -> k <= 31 -> dbg_build k seqs = Some g ->
  (forall x, mem g x = true -> 0 < weight g x) -> heads k g <> [] ->
  match best_walk_weight k g with
  | None => has_cycle k g = true /\ go_heaviest_path k g = HNil
  | Some bw => exists h rest, go_heaviest_path k g = HPath (h :: rest) /\ In h (heads k g) /\
                 is_walk k g (h :: rest) /\ wsum g (h :: rest) = bw /\
                 forall h' p', In h' (heads k g) -> is_walk k g (h' :: p') -> wsum g (h' :: p') <= wsum g (h :: rest)
  end.
Proof.
  intros k seqs g K1 K2 Hb Hpos Hne. unfold go_heaviest_path.
  assert (Ho : forall x, In x (nodes g) <-> In x (nodes g)) by (intro; tauto).
  destruct (best_walk_weight k g) as [bw|] eqn:Ebw.
  - destruct (best_walk_optimal k g bw Ebw) as (Hc & Up & Ach).
    destruct (heaviest_path_acyclic k g (nodes g) (heads k g) Ho Hc Hpos) as (h & rest & R & A & B & C).
    + intros h Hh. apply (heads_mem k). exact Hh.
    + intros h y Hh My. apply (proj1 (built_heads_are_sources k seqs g h K1 K2 Hb) Hh). exact My.
    + exact Hne.
    + apply heads_length.
    + exists h, rest. split; [exact R|]. split; [exact A|]. split; [exact B|]. split; [|exact C].
      destruct (Ach Hne) as (h2 & p2 & A2 & B2 & C2). pose proof (Up h rest A B). pose proof (C h2 p2 A2 B2). lia.
  - apply no_walk_iff_cycle in Ebw. split; [exact Ebw|]. apply heaviest_path_cyclic; assumption.
Qed.

(** the re-opening [visited[nextNode] = false] is necessary: without it (seeded change C19-A) the search returns a
    valid but lighter walk on a bubble that closes just before the sink (k = 3, gtcaga x5 + ggcaga x1) *)
Definition wit_bubble : list (list N * N) := [([103;116;99;97;103;97], 5); ([103;103;99;97;103;97], 1)].
Lemma noreopen_suboptimal : exists g, dbg_build 3 wit_bubble = Some g /\ has_cycle 3 g = false /\
  heaviest_path_with relax_noreopen (hav_fuel g) 3 g (nodes g) (heads 3 g) = HPath [45; 52; 18] /\
  go_heaviest_path 3 g = HPath [45; 52; 18; 8] /\
  best_walk_weight 3 g = Some (wsum g [45; 52; 18; 8]) /\ wsum g [45; 52; 18] < wsum g [45; 52; 18; 8].
Proof. eexists. split; [vm_compute; reflexivity|]. vm_compute. repeat split; reflexivity. Qed.
