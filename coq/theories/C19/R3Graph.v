(** C19 — round 3, proofs over Model3.v: self loops, FilterMinWeight, the greedy walk (MaxPath / BestConsensus). *)
From Coq Require Import NArith PArith List Bool Lia.
From OBI.C19 Require Import Model Algo Model3 Proofs.
Import ListNotations.
Open Scope N_scope.

(** ---------------- a node that is its own successor closes a cycle; the poly-a k-mer (value 0) always is *)
Lemma self_loop_cyclic : forall k g x, In x (nexts k g x) -> has_cycle k g = true.
Proof.
  intros k g x H. apply (cycle_detected k g x []). cbn [app is_walk].
  pose proof (nexts_mem k g x x H) as M. repeat split; assumption.
Qed.

Lemma zero_next_zero : forall k g, mem g 0 = true -> In 0 (nexts k g 0).
Proof.
  intros k g M. unfold nexts. apply filter_In. split; [|exact M].
  assert (E : N.land (shl64 0 2) (dbg_mask k) = 0).
  { unfold shl64. cbn [N.ltb N.compare]. rewrite N.shiftl_0_l. reflexivity. }
  rewrite E. left. reflexivity.
Qed.

Lemma zero_node_cyclic : forall k g, mem g 0 = true -> has_cycle k g = true.
Proof. intros k g M. apply (self_loop_cyclic k g 0). apply zero_next_zero. exact M. Qed.

Lemma acyclic_no_zero_node : forall k g, has_cycle k g = false -> mem g 0 = false.
Proof.
  intros k g H. destruct (mem g 0) eqn:M; [|reflexivity].
  rewrite (zero_node_cyclic k g M) in H. discriminate.
Qed.

(** ---------------- sub-graphs: removing nodes never creates a cycle (FilterMinWeight) *)
Lemma nexts_sub : forall k g g' x y, (forall z, mem g' z = true -> mem g z = true) ->
  In y (nexts k g' x) -> In y (nexts k g x).
Proof.
  intros k g g' x y S H. unfold nexts in *. apply filter_In in H. destruct H as [H1 H2].
  apply filter_In. split; [exact H1|apply S; exact H2].
Qed.

Lemma walk_sub : forall k g g' p, (forall z, mem g' z = true -> mem g z = true) -> is_walk k g' p -> is_walk k g p.
Proof.
  intros k g g' p S. induction p as [|x q IH]; intro W; [exact W|].
  cbn [is_walk] in *. destruct W as [M R]. split; [apply S; exact M|].
  destruct q as [|y q']; [exact I|]. destruct R as [E W']. split; [eapply nexts_sub; eassumption|apply IH; exact W'].
Qed.

Lemma subgraph_cyclic : forall k g g', (forall z, mem g' z = true -> mem g z = true) ->
  has_cycle k g' = true -> has_cycle k g = true.
Proof.
  intros k g g' S H. apply has_cycle_iff in H. destruct H as (x & p & W).
  apply has_cycle_iff. exists x, p. eapply walk_sub; eassumption.
Qed.

Lemma filter_min_mem : forall m g x, mem (filter_min m g) x = true -> mem g x = true.
Proof.
  intros m g x. unfold filter_min. induction g as [|[y v] g IH]; cbn [filter mem snd]; [trivial|].
  destruct (negb (v <? m)); cbn [mem]; rewrite ?orb_true_iff; intuition.
Qed.

Lemma filter_min_acyclic : forall k m g, has_cycle k g = false -> has_cycle k (filter_min m g) = false.
Proof.
  intros k m g H. destruct (has_cycle k (filter_min m g)) eqn:E; [|reflexivity].
  rewrite (subgraph_cyclic k g (filter_min m g) (filter_min_mem m g) E) in H. discriminate.
Qed.

(* the nodes kept are exactly those of weight >= m, with their weight *)
Lemma filter_min_weight : forall m g x, NoDup (nodes g) ->
  weight (filter_min m g) x = if weight g x <? m then 0 else weight g x.
Proof.
  intros m g x. unfold filter_min, nodes. induction g as [|[y v] g IH]; intro ND; cbn [filter weight map fst snd] in *.
  - destruct (0 <? m); reflexivity.
  - inversion ND as [|? ? NI ND']; subst.
    destruct (y =? x) eqn:E.
    + apply N.eqb_eq in E. subst y. destruct (v <? m) eqn:L; cbn [negb weight].
      * rewrite IH by exact ND'. rewrite weight_notmem; [destruct (0 <? m); reflexivity|].
        destruct (mem g x) eqn:M; [|reflexivity]. apply mem_nodes in M. contradiction.
      * rewrite N.eqb_refl. reflexivity.
    + destruct (v <? m) eqn:L; cbn [negb weight]; [|rewrite E]; apply IH; exact ND'.
Qed.

Lemma filter_min_mem_iff : forall m g x, NoDup (nodes g) ->
  (mem (filter_min m g) x = true <-> mem g x = true /\ m <= weight g x).
Proof.
  intros m g x. unfold filter_min, nodes. induction g as [|[y v] g IH]; intro ND; cbn [filter mem weight map fst snd] in *.
  - split; [discriminate|intros [H _]; discriminate].
  - inversion ND as [|? ? NI ND']; subst. specialize (IH ND').
    destruct (y =? x) eqn:E.
    + apply N.eqb_eq in E. subst y. destruct (v <? m) eqn:L; cbn [negb mem orb].
      * apply N.ltb_lt in L. rewrite IH. split; [intros [M _]; apply mem_nodes in M; contradiction|intros [_ H]; lia].
      * apply N.ltb_ge in L. rewrite N.eqb_refl. cbn [orb]. split; auto.
    + destruct (v <? m) eqn:L; cbn [negb mem orb]; [|rewrite E; cbn [orb]]; exact IH.
Qed.

(** ---------------- the greedy walk (MaxNext / MaxHead / MaxPath behind BestConsensus) *)
Lemma max_pick_fold : forall g l acc,
  let r := fold_left (max_pick g) l acc in
  (r = acc \/ (In (fst r) l /\ snd r = weight g (fst r))) /\ snd acc <= snd r /\ forall z, In z l -> weight g z <= snd r.
Proof.
  intros g l. induction l as [|y l IH]; intro acc; cbn [fold_left].
  - split; [left; reflexivity|split; [lia|intros z []]].
  - specialize (IH (max_pick g acc y)). cbn zeta in *. destruct IH as (A & B & C).
    set (r := fold_left (max_pick g) l (max_pick g acc y)) in *.
    assert (P : (max_pick g acc y = acc /\ weight g y <= snd acc) \/ (max_pick g acc y = (y, weight g y) /\ snd acc < weight g y)).
    { unfold max_pick. destruct (snd acc <? weight g y) eqn:L; [right; split; [reflexivity|apply N.ltb_lt; exact L]|left; split; [reflexivity|apply N.ltb_ge; exact L]]. }
    destruct P as [[E L]|[E L]]; rewrite E in *; cbn [fst snd] in *.
    + split; [destruct A as [A|[A1 A2]]; [left; exact A|right; split; [right; exact A1|exact A2]]|].
      split; [exact B|]. intros z [->|Hz]; [lia|apply C; exact Hz].
    + split; [destruct A as [A|[A1 A2]]; [right; rewrite A; cbn [fst snd]; split; [left; reflexivity|reflexivity]|right; split; [right; exact A1|exact A2]]|].
      split; [lia|]. intros z [->|Hz]; [lia|apply C; exact Hz].
Qed.

(* MaxNext returns a successor of maximal weight (graphs built by Push have positive weights) *)
Lemma max_next_in : forall k g x y w, (forall z, mem g z = true -> 0 < weight g z) ->
  max_next k g x = Some (y, w) ->
  In y (nexts k g x) /\ w = weight g y /\ forall z, In z (nexts k g x) -> weight g z <= w.
Proof.
  intros k g x y w Pos H. unfold max_next in H. destruct (nexts k g x) as [|n ns] eqn:E; [discriminate|].
  injection H as H. pose proof (max_pick_fold g (n :: ns) (0, 0)) as F. cbn zeta in F. cbn [fold_left] in F, H. rewrite H in F. cbn [fst snd] in F.
  destruct F as (A & _ & C). destruct A as [A|[A1 A2]].
  - exfalso. injection A as -> ->. specialize (C n (or_introl eq_refl)).
    assert (M : mem g n = true) by (apply (nexts_mem k g x); rewrite E; left; reflexivity).
    specialize (Pos n M). lia.
  - repeat split; assumption.
Qed.

Lemma greedy_is_walk : forall fuel k g x p, (forall z, mem g z = true -> 0 < weight g z) -> mem g x = true ->
  greedy_from fuel k g x = Some p -> exists q, p = x :: q /\ is_walk k g p.
Proof.
  induction fuel as [|f IH]; intros k g x p Pos M H; cbn [greedy_from] in H; [discriminate|].
  destruct (max_next k g x) as [[y w]|] eqn:E.
  - destruct (greedy_from f k g y) as [p'|] eqn:G; [|discriminate]. injection H as <-.
    destruct (max_next_in k g x y w Pos E) as (I & _ & _).
    destruct (IH k g y p' Pos (nexts_mem k g x y I) G) as (q & -> & W).
    exists (y :: q). split; [reflexivity|]. cbn [is_walk]. split; [exact M|]. split; [exact I|exact W].
  - injection H as <-. exists []. split; [reflexivity|]. cbn [is_walk]. split; [exact M|exact I].
Qed.

Lemma max_head_is_head : forall k g order h w, (forall x, In x order -> In x (nodes g)) ->
  max_head k g order = Some (h, w) -> In h (heads k g).
Proof.
  intros k g order h w Sub H. unfold max_head in H.
  set (hs := filter (fun x => match prevs k g x with [] => true | _ => false end) order) in *.
  pose proof (max_pick_fold g hs (0, 0)) as F. cbn zeta in F.
  destruct (0 <? snd (fold_left (max_pick g) hs (0, 0))) eqn:L; [|discriminate]. injection H as H. rewrite H in F, L.
  cbn [fst snd] in *. destruct F as (A & _ & _). destruct A as [A|[A1 _]].
  - injection A as -> ->. discriminate.
  - unfold hs in A1. apply filter_In in A1. destruct A1 as [A1 A2].
    unfold heads. apply filter_In. split; [apply Sub; exact A1|exact A2].
Qed.

Lemma heads_in_nodes : forall k g h, In h (heads k g) -> mem g h = true.
Proof. intros k g h H. unfold heads in H. apply filter_In in H. apply mem_nodes. tauto. Qed.

(* MaxPath is a walk of the graph that starts at a source node ... *)
Lemma max_path_walk_from_source : forall k g order h p, (forall z, mem g z = true -> 0 < weight g z) ->
  (forall x, In x order -> In x (nodes g)) -> max_path k g order = Some (h :: p) ->
  In h (heads k g) /\ is_walk k g (h :: p).
Proof.
  intros k g order h p Pos Sub H. unfold max_path in H. destruct (max_head k g order) as [[h0 w0]|] eqn:E; [|discriminate].
  pose proof (max_head_is_head k g order h0 w0 Sub E) as Hh.
  destruct (greedy_is_walk _ k g h0 (h :: p) Pos (heads_in_nodes k g h0 Hh) H) as (q & Eq & W).
  injection Eq as -> ->. split; assumption.
Qed.

(* ... hence never heavier than the walk HaviestPath returns (= best_walk_weight: C19_heaviest_path_is_best_walk) *)
Lemma greedy_never_heavier : forall k g order h p bw, (forall z, mem g z = true -> 0 < weight g z) ->
  (forall x, In x order -> In x (nodes g)) -> max_path k g order = Some (h :: p) ->
  best_walk_weight k g = Some bw -> wsum g (h :: p) <= bw.
Proof.
  intros k g order h p bw Pos Sub H B. destruct (max_path_walk_from_source k g order h p Pos Sub H) as [Hh W].
  destruct (best_walk_optimal k g bw B) as (_ & U & _). apply U; assumption.
Qed.

(* the greedy loop terminates on acyclic graphs (fuel |g| + 1 suffices) *)
Lemma greedy_fuel : forall fuel k g x pre, (forall z, mem g z = true -> 0 < weight g z) ->
  has_cycle k g = false -> is_walk k g (pre ++ [x]) -> (length g < length pre + fuel)%nat ->
  greedy_from fuel k g x <> None.
Proof.
  induction fuel as [|f IH]; intros k g x pre Pos A W L.
  - exfalso. destruct pre as [|a pre'].
    + cbn [app] in W. pose proof (acyclic_walk_short k g [] x A W) as S. cbn [length] in *. lia.
    + cbn [app] in W. pose proof (acyclic_walk_short k g (pre' ++ [x]) a A W) as S. cbn [length] in *.
      rewrite app_length in S. cbn [length] in *. lia.
  - cbn [greedy_from]. destruct (max_next k g x) as [[y w]|] eqn:E; [|discriminate].
    destruct (max_next_in k g x y w Pos E) as (I & _ & _).
    assert (Mx : mem g x = true).
    { pose proof (walk_suffix k g pre [x] W ltac:(discriminate)) as Wx. cbn [is_walk] in Wx. tauto. }
    assert (W' : is_walk k g ((pre ++ [x]) ++ [y])).
    { rewrite <- app_assoc. cbn [app]. apply walk_app; [exact W|].
      cbn [is_walk]. split; [exact Mx|]. split; [exact I|]. split; [apply (nexts_mem k g x y I)|exact Logic.I]. }
    specialize (IH k g y (pre ++ [x]) Pos A W'). rewrite app_length in IH. cbn [length] in IH.
    destruct (greedy_from f k g y); [discriminate|]. exfalso. apply IH; [lia|reflexivity].
Qed.

Lemma greedy_terminates : forall k g order, (forall z, mem g z = true -> 0 < weight g z) ->
  (forall x, In x order -> In x (nodes g)) -> has_cycle k g = false -> max_path k g order <> None.
Proof.
  intros k g order Pos Sub A. unfold max_path. destruct (max_head k g order) as [[h w]|] eqn:E; [|discriminate].
  apply (greedy_fuel _ k g h [] Pos A).
  - cbn [app is_walk]. split; [|exact I]. apply (heads_in_nodes k g). eapply max_head_is_head; eassumption.
  - cbn [length]. lia.
Qed.

(* ... and it can be strictly lighter: MaxNext takes the first of two equally heavy successors, a dead end *)
Definition wit_greedy : list (list N * N) := [([99;97;116;99], 3); ([97;116;103;97], 3)].
Lemma greedy_refuted : exists g p bw, dbg_build 3 wit_greedy = Some g /\ has_cycle 3 g = false /\
  max_path 3 g (nodes g) = Some p /\ best_walk_weight 3 g = Some bw /\ wsum g p < bw.
Proof.
  eexists; eexists; eexists. split; [vm_compute; reflexivity|]. split; [vm_compute; reflexivity|].
  split; [vm_compute; reflexivity|]. split; [vm_compute; reflexivity|]. vm_compute. reflexivity.
Qed.
