(** C19 — executable transcription of the two graph ALGORITHMS of pkg/obikmer/debruijn.go:
    DeBruijnGraph.HasCycle (recursive DFS with the maps visited / stack) and DeBruijnGraph.HaviestPath
    (label-correcting search driven by a min-heap of node ids, with the re-opening
    [visited[next] = false] of a node whose distance improves, then path reconstruction through
    prevNodes). Go maps are association lists (lookup = first binding, default = zero value);
    container/heap with Less = (<) on node ids is a multiset whose Pop returns a minimum.
    Executable definitions only; the theorems are in AlgoProofs.v. *)
From Coq Require Import NArith PArith List Bool.
From OBI.C19 Require Import Model.
Import ListNotations.
Open Scope N_scope.

Definition memb (x : N) (l : list N) : bool := existsb (N.eqb x) l.
Definition del (x : N) (l : list N) : list N := filter (fun y => negb (y =? x)) l.

(** ================= HasCycle ================= *)
(* result of dfs: None = fuel exhausted; Some (found, visited, stack) *)
Definition dres : Type := option (bool * list N * list N).

Section Scan.
Variable rec : N -> list N -> list N -> dres.
(* the loop [for _, nextNode := range nextNodes] of dfs(node), then [stack[node] = false; return false] *)
Fixpoint scan (node : N) (ns vis stk : list N) : dres :=
  match ns with
  | [] => Some (false, vis, del node stk)
  | y :: ns' =>
    if negb (memb y vis) then
      match rec y vis stk with
      | Some (false, v, s) => scan node ns' v s
      | r => r
      end
    else if memb y stk then Some (true, vis, stk)
    else scan node ns' vis stk
  end.
End Scan.

Fixpoint dfs (fuel : nat) (k : N) (g : graph) (node : N) (vis stk : list N) : dres :=
  match fuel with
  | O => None
  | S f => scan (dfs f k g) node (nexts k g node) (node :: vis) (node :: stk)
  end.

(* [for node := range g.graph]: [order] is the (arbitrary) iteration order of the Go map *)
Fixpoint hc_outer (fuel : nat) (k : N) (g : graph) (order vis stk : list N) : option bool :=
  match order with
  | [] => Some false
  | x :: t =>
    if memb x vis then hc_outer fuel k g t vis stk
    else match dfs fuel k g x vis stk with
         | None => None
         | Some (true, _, _) => Some true
         | Some (false, v, s) => hc_outer fuel k g t v s
         end
  end.
(* recursion depth of dfs <= number of nodes: fuel |g| + 1 is proved sufficient *)
Definition go_has_cycle (k : N) (g : graph) (order : list N) : option bool :=
  hc_outer (S (length g)) k g order [] [].

(** ================= HaviestPath ================= *)
Record hstate := mkH { h_dist : graph;              (* distances  map[uint64]int    *)
                       h_prev : graph;              (* prevNodes  map[uint64]uint64 *)
                       h_vis : list (N * bool);     (* visited    map[uint64]bool   *)
                       h_q : list N;                (* queue      UInt64Heap (multiset) *)
                       h_hw : N; h_hn : N }.        (* heaviestWeight, heaviestNode *)

Fixpoint getb (m : list (N * bool)) (x : N) : bool :=
  match m with [] => false | (y, b) :: t => if y =? x then b else getb t x end.

Fixpoint minl (x : N) (l : list N) : N := match l with [] => x | y :: t => minl (N.min x y) t end.
Fixpoint del1 (x : N) (l : list N) : list N :=
  match l with [] => [] | y :: t => if y =? x then t else y :: del1 x t end.
Definition pop_min (q : list N) : option (N * list N) :=
  match q with [] => None | x :: t => let m := minl x t in Some (m, del1 m q) end.

(* body of [for _, nextNode := range nextNodes] *)
Definition relax (g : graph) (cur : N) (st : hstate) (nx : N) : hstate :=
  let w := weight g nx + weight (h_dist st) cur in
  if weight (h_dist st) nx <? w then
    mkH ((nx, w) :: h_dist st) ((nx, cur) :: h_prev st) ((nx, false) :: h_vis st) (nx :: h_q st)
        (if h_hw st <? w then w else h_hw st) (if h_hw st <? w then nx else h_hn st)
  else st.
(* the same WITHOUT [visited[nextNode] = false] (seeded change C19-A), for the refuted witness *)
Definition relax_noreopen (g : graph) (cur : N) (st : hstate) (nx : N) : hstate :=
  let w := weight g nx + weight (h_dist st) cur in
  if weight (h_dist st) nx <? w then
    mkH ((nx, w) :: h_dist st) ((nx, cur) :: h_prev st) (h_vis st) (nx :: h_q st)
        (if h_hw st <? w then w else h_hw st) (if h_hw st <? w then nx else h_hn st)
  else st.

(* one iteration of [for len(queue) > 0]; None = the queue is empty *)
Definition hstep_with (rl : graph -> N -> hstate -> N -> hstate) (k : N) (g : graph) (st : hstate) : option hstate :=
  match pop_min (h_q st) with
  | None => None
  | Some (cur, q') =>
    if getb (h_vis st) cur then Some (mkH (h_dist st) (h_prev st) (h_vis st) q' (h_hw st) (h_hn st))
    else
      let w := weight (h_dist st) cur in
      let st1 := mkH (h_dist st) (h_prev st) ((cur, true) :: h_vis st) q'
                     (if h_hw st <? w then w else h_hw st) (if h_hw st <? w then cur else h_hn st) in
      Some (fold_left (rl g cur) (nexts k g cur) st1)
  end.
Definition hstep := hstep_with relax.

(* at most n iterations: inr = loop finished in that state, inl = still running *)
Section Run.
Context {A : Type} (step : A -> option A).
Fixpoint run (n : nat) (a : A) : A + A :=
  match n with
  | O => inl a
  | S n' => match step a with None => inr a | Some a' => run n' a' end
  end.
(* the same with binary fuel (2^bits iterations without building a unary numeral); run_pos p = run (Pos.to_nat p) *)
Fixpoint run_pos (p : positive) (a : A) : A + A :=
  match p with
  | xH => match step a with None => inr a | Some a' => inl a' end
  | xO p' => match run_pos p' a with inr r => inr r | inl a' => run_pos p' a' end
  | xI p' => match step a with
             | None => inr a
             | Some a1 => match run_pos p' a1 with inr r => inr r | inl a2 => run_pos p' a2 end
             end
  end.
End Run.

Definition hav_init (g : graph) (hs : list N) : hstate :=
  mkH (map (fun h => (h, weight g h)) hs) [] [] hs 0 0.

(* reconstruction: [acc] = nodes already collected, in final (source -> sink) order; None = log.Panicf("Cycle detected") *)
Fixpoint recon (fuel : nat) (hs : list N) (prev : graph) (cur : N) (acc : list N) : option (list N) :=
  match fuel with
  | O => None
  | S f =>
    if memb cur hs then Some (cur :: acc)
    else if memb cur acc then None
    else recon f hs prev (weight prev cur) (cur :: acc)
  end.

Inductive hres := HFuel | HNil | HPanic | HPath (p : list N).

Definition maxw (g : graph) : N := maxl (map snd g).
(* iterations of the main loop on an acyclic graph <= |g| + 2 |g| (|g| maxw) (proved) *)
Definition hav_fuel (g : graph) : positive :=
  let n := N.of_nat (length g) in N.succ_pos (n + 2 * (n * (n * maxw g))).

(* HaviestPath; [order] / [hs] = iteration orders of the Go maps in HasCycle / Heads *)
Definition heaviest_path_with (rl : graph -> N -> hstate -> N -> hstate) (fuel : positive) (k : N) (g : graph) (order hs : list N) : hres :=
  match go_has_cycle k g order with
  | None => HFuel
  | Some true => HNil
  | Some false =>
    match run_pos (hstep_with rl k g) fuel (hav_init g hs) with
    | inl _ => HFuel
    | inr st =>
      match recon (S (S (length g))) hs (h_prev st) (h_hn st) [] with
      | None => HPanic
      | Some p => HPath p
      end
    end
  end.
Definition heaviest_path := heaviest_path_with relax.
Definition go_heaviest_path (k : N) (g : graph) : hres := heaviest_path (hav_fuel g) k g (nodes g) (heads k g).

(** DecodeNode / DecodePath / LongestConsensus (min_cov = 0) *)
Definition decode (c : N) : N := if c =? 0 then 97 else if c =? 1 then 99 else if c =? 2 then 103 else if c =? 3 then 116 else 0.
(* rep[i] = decode[index & 3]; index >>= 2, for i = k-1 .. 0 *)
Fixpoint decode_node (k : nat) (x : N) (acc : list N) : list N :=
  match k with O => acc | S k' => decode_node k' (N.shiftr x 2) (decode (N.land x 3) :: acc) end.
Definition decode_path (k : N) (p : list N) : list N :=
  match p with
  | [] => []
  | x :: t => decode_node (N.to_nat k) x [] ++ map (fun y => decode (N.land y 3)) t
  end.
(* LongestConsensus(id, 0): error on the empty graph, on a nil path (cycle) and on an empty decoding *)
Definition longest_consensus (k : N) (g : graph) : option (list N) :=
  match g with
  | [] => None
  | _ => match go_heaviest_path k g with
         | HPath p => match decode_path k p with [] => None | s => Some s end
         | _ => None
         end
  end.
