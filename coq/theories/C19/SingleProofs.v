(** C19 — "a single sequence without repeated k-mer is returned unchanged".
    The exact condition is "no repeated (k-1)-mer": a repeated (k-1)-mer closes a cycle even when all
    k-mers are distinct (k = 3, acgac: acg, cga, gac are distinct but gac -> acg is an edge).
    - [single_sequence_unchanged]: under that condition the graph of one unambiguous sequence is the
      simple path of its k-mers, HaviestPath returns exactly that path, DecodePath spells the
      sequence, LongestConsensus returns it;
    - [single_sequence_kmers_distinct_not_enough]: distinct k-mers are not enough (witness acgac);
    - [single_sequence_repeat_cycle]: the condition is exact: a repeated (k-1)-mer always gives a
      cycle (HaviestPath returns nil, LongestConsensus fails). *)
From Coq Require Import ZArith NArith PArith Arith List Bool Lia.
From OBI.C19 Require Import Model Proofs Algo HavProofs DfsProofs AlgoProofs BuiltProofs.
Import ListNotations.
Open Scope N_scope.

(** ---------------- lists *)
Lemma skipn_nth_cons : forall {A} (d : A) i l, (i < length l)%nat -> skipn i l = nth i l d :: skipn (S i) l.
Proof.
  intros A d. induction i as [|i IH]; intros [|a l] H; cbn [length] in H; try lia.
  - reflexivity.
  - cbn [skipn nth]. rewrite (IH l) by lia. reflexivity.
Qed.

Lemma firstn_snoc : forall {A} (d : A) n l, (n < length l)%nat -> firstn (S n) l = firstn n l ++ [nth n l d].
Proof.
  intros A d. induction n as [|n IH]; intros [|a l] H; cbn [length] in H; try lia.
  - reflexivity.
  - change (firstn (S (S n)) (a :: l)) with (a :: firstn (S n) l). rewrite (IH l) by lia. reflexivity.
Qed.

Lemma nth_skipn' : forall {A} (d : A) n l j, nth j (skipn n l) d = nth (n + j) l d.
Proof.
  intros A d. induction n as [|n IH]; intros l j; [reflexivity|].
  destruct l as [|a l]; [cbn [skipn plus]; destruct j; reflexivity|].
  cbn [skipn plus nth]. apply IH.
Qed.

Lemma windows_nth : forall {A} (d : list A) K l i, (1 <= K)%nat -> (i + K <= length l)%nat ->
  nth i (windows K l) d = firstn K (skipn i l).
Proof.
  intros A d K. induction l as [|a l IH]; intros i HK H; cbn [length] in H; [lia|].
  cbn [windows]. destruct (Nat.leb_spec K (length (a :: l))) as [L|L]; [|cbn [length] in L; lia].
  destruct i as [|i]; [reflexivity|].
  cbn [app nth skipn]. apply IH; [assumption|lia].
Qed.

Lemma digits_firstn : forall n l, digits l -> digits (firstn n l).
Proof.
  induction n as [|n IH]; intros [|a l] H; cbn [firstn]; try apply Forall_nil.
  inversion H; subst. constructor; [assumption|apply IH; assumption].
Qed.

Lemma digits_skipn : forall n l, digits l -> digits (skipn n l).
Proof.
  induction n as [|n IH]; intros [|a l] H; cbn [skipn]; try assumption.
  inversion H; subst. apply IH; assumption.
Qed.

Lemma digits_nth : forall l i, digits l -> nth i l 0 < 4.
Proof.
  induction l as [|a l IH]; intros i H; [destruct i; reflexivity|].
  inversion H; subst. destruct i; cbn [nth]; [assumption|apply IH; assumption].
Qed.

Lemma lval_inj : forall u v, digits u -> digits v -> length u = length v -> lval u = lval v -> u = v.
Proof.
  induction u as [|a u IH]; intros [|b v] Hu Hv HL HE; cbn [length] in HL; try discriminate; [reflexivity|].
  inversion Hu; subst. inversion Hv; subst. cbn [lval] in HE.
  assert (a = b) by lia. assert (lval u = lval v) by lia. f_equal; [assumption|].
  apply IH; try assumption. lia.
Qed.

Lemma kval_inj : forall u v, digits u -> digits v -> length u = length v -> kval u = kval v -> u = v.
Proof.
  intros u v Hu Hv HL HE. rewrite !kval_lval_rev in HE.
  apply lval_inj in HE.
  - rewrite <- (rev_involutive u), <- (rev_involutive v), HE. reflexivity.
  - apply Forall_rev; assumption.
  - apply Forall_rev; assumption.
  - rewrite !rev_length. assumption.
Qed.

Lemma count_n_pos : forall x l, 0 < count_n x l <-> In x l.
Proof.
  intros x. induction l as [|a l IH]; cbn [count_n In]; [split; [lia|tauto]|].
  destruct (N.eqb_spec a x) as [E|E]; split; intro H.
  - left; assumption.
  - lia.
  - right. apply IH. lia.
  - destruct H as [H|H]; [congruence|]. apply IH in H. lia.
Qed.

Lemma is_walk_cons2 : forall k g x y q,
  is_walk k g (x :: y :: q) <-> mem g x = true /\ In y (nexts k g x) /\ is_walk k g (y :: q).
Proof. intros. split; intro H; exact H. Qed.

(** ---------------- a graph which is a simple path: nodes = l (no repetition), edges = consecutive positions *)
Section PathGraph.
Variables (k : N) (g : graph) (l : list N).
Hypothesis Hnd : NoDup l.
Hypothesis Hne : (0 < length l)%nat.
Hypothesis Hnodes : forall x, mem g x = true <-> In x l.
Hypothesis Hedges : forall i j, (i < length l)%nat -> (j < length l)%nat ->
  (In (nth j l 0) (nexts k g (nth i l 0)) <-> j = S i).
Hypothesis Hheads : forall h, In h (heads k g) <->
  In h (nodes g) /\ (forall y, mem g y = true -> ~ In h (nexts k g y)).
Hypothesis Hpos : forall x, mem g x = true -> 0 < weight g x.

Lemma pg_walk_seg : forall n i, (i + S n <= length l)%nat -> is_walk k g (firstn (S n) (skipn i l)).
Proof.
  induction n as [|n IH]; intros i H.
  - rewrite (skipn_nth_cons 0 i) by lia. cbn [firstn is_walk]. split; [|exact I].
    apply Hnodes. apply nth_In. lia.
  - specialize (IH (S i) ltac:(lia)).
    rewrite (skipn_nth_cons 0 i) by lia.
    change (firstn (S (S n)) (nth i l 0 :: skipn (S i) l)) with (nth i l 0 :: firstn (S n) (skipn (S i) l)).
    rewrite (skipn_nth_cons 0 (S i)) in IH |- * by lia.
    change (firstn (S n) (nth (S i) l 0 :: skipn (S (S i)) l))
      with (nth (S i) l 0 :: firstn n (skipn (S (S i)) l)) in IH |- *.
    apply is_walk_cons2. split; [apply Hnodes; apply nth_In; lia|]. split; [|exact IH].
    apply Hedges; [lia|lia|reflexivity].
Qed.

Lemma pg_walk_all : is_walk k g l.
Proof.
  pose proof (pg_walk_seg (length l - 1) 0 ltac:(lia)) as H.
  replace (S (length l - 1)) with (length l) in H by lia.
  cbn [skipn] in H. rewrite firstn_all in H. exact H.
Qed.

Lemma pg_walk_from : forall p i, (i < length l)%nat -> is_walk k g (nth i l 0 :: p) ->
  p = firstn (length p) (skipn (S i) l) /\ (S i + length p <= length l)%nat.
Proof.
  induction p as [|y p IH]; intros i Hi Hw.
  - cbn [length firstn]. split; [reflexivity|lia].
  - apply is_walk_cons2 in Hw. destruct Hw as (_ & He & Hw).
    assert (Hy : In y l) by (apply Hnodes; eapply nexts_mem; exact He).
    destruct (In_nth _ _ 0 Hy) as (j & Hj & Ej). subst y.
    apply Hedges in He; [|assumption|assumption]. subst j.
    destruct (IH (S i) Hj Hw) as [E L].
    cbn [length]. split; [|lia].
    rewrite (skipn_nth_cons 0 (S i)) by lia.
    change (firstn (S (length p)) (nth (S i) l 0 :: skipn (S (S i)) l))
      with (nth (S i) l 0 :: firstn (length p) (skipn (S (S i)) l)).
    rewrite <- E. reflexivity.
Qed.

Lemma pg_acyclic : has_cycle k g = false.
Proof.
  destruct (has_cycle k g) eqn:E; [|reflexivity]. exfalso.
  apply has_cycle_iff in E. destruct E as (x & p & Hw).
  assert (Hx : In x l). { apply Hnodes. destruct Hw as [Hm _]. exact Hm. }
  destruct (In_nth _ _ 0 Hx) as (i & Hi & Ei). subst x.
  destruct (pg_walk_from _ _ Hi Hw) as [E L].
  assert (Hin : In (nth i l 0) (skipn (S i) l)).
  { assert (H : In (nth i l 0) (p ++ [nth i l 0])) by (apply in_or_app; right; left; reflexivity).
    rewrite E in H. revert H. generalize (length (p ++ [nth i l 0])). intros n H.
    rewrite <- (firstn_skipn n (skipn (S i) l)). apply in_or_app. left. exact H. }
  destruct (In_nth _ _ 0 Hin) as (j & Hj & Ej).
  rewrite skipn_length in Hj. rewrite nth_skipn' in Ej.
  pose proof (proj1 (NoDup_nth l 0) Hnd (S i + j)%nat i ltac:(lia) Hi Ej). lia.
Qed.

Lemma pg_heads : forall h, In h (heads k g) <-> h = nth 0 l 0.
Proof.
  intro h. rewrite Hheads. split.
  - intros [Hn Hno]. apply mem_nodes in Hn. pose proof Hn as Hm. apply Hnodes in Hn.
    destruct (In_nth _ _ 0 Hn) as (j & Hj & Ej). destruct j as [|j]; [congruence|]. exfalso.
    apply (Hno (nth j l 0)).
    + apply Hnodes. apply nth_In. lia.
    + rewrite <- Ej. apply Hedges; [lia|lia|reflexivity].
  - intros ->. split.
    + apply mem_nodes. apply Hnodes. apply nth_In. lia.
    + intros y Hy Hin. apply Hnodes in Hy. destruct (In_nth _ _ 0 Hy) as (i & Hi & Ei). subst y.
      apply Hedges in Hin; [discriminate|assumption|lia].
Qed.

Lemma pg_best_is_all : forall h rest, In h (heads k g) -> is_walk k g (h :: rest) ->
  (forall h' p', In h' (heads k g) -> is_walk k g (h' :: p') -> wsum g (h' :: p') <= wsum g (h :: rest)) ->
  h :: rest = l.
Proof.
  intros h rest Hh Hw Hopt. apply pg_heads in Hh. subst h.
  destruct (pg_walk_from _ _ Hne Hw) as [E L].
  assert (El : l = nth 0 l 0 :: skipn 1 l) by (rewrite <- (skipn_nth_cons 0 0 l Hne); reflexivity).
  set (t := skipn 1 l) in *. set (n := length rest) in *.
  pose proof pg_walk_all as Hall. rewrite El in Hall.
  pose proof (Hopt (nth 0 l 0) t (proj2 (pg_heads _) eq_refl) Hall) as Hle.
  rewrite <- (firstn_skipn n t) in Hle at 1.
  change (nth 0 l 0 :: firstn n t ++ skipn n t) with ((nth 0 l 0 :: firstn n t) ++ skipn n t) in Hle.
  rewrite wsum_app, <- E in Hle.
  destruct (skipn n t) as [|y r] eqn:Es.
  - rewrite El at 2. f_equal. rewrite E. rewrite <- (firstn_skipn n t) at 2. rewrite Es, app_nil_r. reflexivity.
  - exfalso. assert (Hy : In y l).
    { rewrite El. right. rewrite <- (firstn_skipn n t). apply in_or_app. right. rewrite Es. left. reflexivity. }
    apply Hnodes in Hy. apply Hpos in Hy. unfold wsum at 2 in Hle. cbn [fold_right] in Hle. lia.
Qed.
End PathGraph.

(** ---------------- DecodeNode / DecodePath on the k-mers of a sequence *)
Lemma land3 : forall x, N.land x 3 = x mod 4.
Proof. intro x. change 3 with (N.ones 2). rewrite N.land_ones. reflexivity. Qed.

Lemma shr2 : forall x, N.shiftr x 2 = x / 4.
Proof. intro x. rewrite N.shiftr_div_pow2. reflexivity. Qed.

Lemma mod4_snoc : forall a d, d < 4 -> (4 * a + d) mod 4 = d.
Proof. intros a d H. rewrite N.add_comm, N.mul_comm, N.mod_add by discriminate. apply N.mod_small. assumption. Qed.

Lemma div4_snoc : forall a d, d < 4 -> (4 * a + d) / 4 = a.
Proof. intros a d H. rewrite N.mul_comm, N.div_add_l by discriminate. rewrite N.div_small by assumption. lia. Qed.

Lemma kval_snoc : forall w d, kval (w ++ [d]) = 4 * kval w + d.
Proof.
  intros w d. rewrite kval_app. cbn [length kval].
  change (N.of_nat 1) with 1. change (N.of_nat 0) with 0. change (4 ^ 1) with 4. change (4 ^ 0) with 1. lia.
Qed.

Lemma decode_node_kval : forall n w acc, length w = n -> digits w ->
  decode_node n (kval w) acc = map decode w ++ acc.
Proof.
  induction n as [|n IH]; intros w acc HL Hd.
  - destruct w; [reflexivity|discriminate HL].
  - assert (Hne : w <> []) by (intro E; subst w; discriminate HL).
    destruct (exists_last Hne) as (w' & d & ->).
    rewrite app_length in HL. cbn [length] in HL.
    apply Forall_app in Hd. destruct Hd as [Hw' Hdd]. inversion Hdd as [|? ? Hd4 _]; subst.
    cbn [decode_node]. rewrite land3, shr2, kval_snoc.
    rewrite mod4_snoc, div4_snoc by assumption.
    rewrite IH by (try assumption; lia). rewrite map_app, <- app_assoc. reflexivity.
Qed.

Lemma lastdigits : forall K cs, (1 <= K)%nat -> digits cs ->
  map (fun y => decode (N.land y 3)) (kmers K cs) = map decode (skipn (K - 1) cs).
Proof.
  intros K cs HK. induction cs as [|a cs IH] using rev_ind; intro Hd.
  - destruct (K - 1)%nat; reflexivity.
  - apply Forall_app in Hd. destruct Hd as [Hd1 Hd2]. inversion Hd2 as [|? ? Ha _]; subst.
    unfold kmers in *. rewrite windows_snoc by assumption. rewrite !map_app, IH by assumption.
    rewrite (skipn_app (K - 1)), map_app. f_equal.
    destruct (Nat.leb_spec K (length cs + 1)) as [L|L].
    + replace (K - 1 - length cs)%nat with 0%nat by lia. cbn [skipn map]. f_equal. f_equal.
      rewrite skipn_app. replace (length cs + 1 - K - length cs)%nat with 0%nat by lia. cbn [skipn].
      rewrite kval_snoc, land3, mod4_snoc by assumption. reflexivity.
    + cbn [map]. replace (K - 1 - length cs)%nat with (S (K - 2 - length cs)) by lia. cbn [skipn].
      destruct (K - 2 - length cs)%nat; reflexivity.
Qed.

Lemma decode_path_kmers : forall k K' cs, N.to_nat k = S K' -> (S K' <= length cs)%nat -> digits cs ->
  decode_path k (kmers (S K') cs) = map decode cs.
Proof.
  intros k K' cs HK HL Hd. destruct cs as [|a t]; [cbn [length] in HL; lia|].
  unfold kmers. cbn [windows]. destruct (Nat.leb_spec (S K') (length (a :: t))) as [L|L]; [|lia].
  cbn [app map decode_path]. rewrite HK.
  rewrite decode_node_kval; [|apply firstn_length_le; assumption|apply digits_firstn; assumption].
  rewrite app_nil_r. fold (kmers (S K') t).
  rewrite lastdigits; [|lia|inversion Hd; assumption].
  replace (S K' - 1)%nat with K' by lia. rewrite <- map_app.
  change (skipn K' t) with (skipn (S K') (a :: t)). rewrite firstn_skipn. reflexivity.
Qed.

(** ---------------- the graph of one unambiguous sequence *)
Section Single.
Variables (k : N) (K' : nat) (s : list N) (c : N) (cs : list N) (g : graph).
Hypothesis HK : N.to_nat k = S K'.
Hypothesis HK1 : (1 <= K')%nat.
Hypothesis Hk31 : k <= 31.
Hypothesis Hc : 0 < c.
Hypothesis Hcs : all_some (map ocode s) = Some cs.
Hypothesis Hlen : (S K' <= length cs)%nat.
Hypothesis Hg : dbg_build k [(s, c)] = Some g.

Definition vw (i : nat) : list N := firstn K' (skipn i cs).          (* (k-1)-mer at position i *)
Definition ww (i : nat) : list N := firstn (S K') (skipn i cs).      (* k-mer at position i *)
Definition node (i : nat) : N := kval (ww i).
Definition nk : nat := (length cs - K')%nat.                         (* number of k-mers *)

Lemma s_k : k = N.of_nat (S K').
Proof. rewrite <- HK, N2Nat.id. reflexivity. Qed.
Lemma s_k1 : 1 <= k.
Proof. rewrite s_k. lia. Qed.
Lemma s_dig : digits cs.
Proof. eapply all_some_digits; exact Hcs. Qed.
Lemma s_pos : Forall (fun sq : list N * N => 0 < snd sq) [(s, c)].
Proof. constructor; [exact Hc|constructor]. Qed.

Lemma vw_len : forall i, (i + K' <= length cs)%nat -> length (vw i) = K'.
Proof. intros i H. unfold vw. apply firstn_length_le. rewrite skipn_length. lia. Qed.
Lemma vw_dig : forall i, digits (vw i).
Proof. intro i. unfold vw. apply digits_firstn, digits_skipn, s_dig. Qed.
Lemma ww_len : forall i, (i + S K' <= length cs)%nat -> length (ww i) = S K'.
Proof. intros i H. unfold ww. apply firstn_length_le. rewrite skipn_length. lia. Qed.
Lemma ww_dig : forall i, digits (ww i).
Proof. intro i. unfold ww. apply digits_firstn, digits_skipn, s_dig. Qed.
Lemma ww_cons : forall i, (i + S K' <= length cs)%nat -> ww i = nth i cs 0 :: vw (S i).
Proof. intros i H. unfold ww, vw. rewrite (skipn_nth_cons 0 i) by lia. reflexivity. Qed.
Lemma ww_snoc : forall i, (i + S K' <= length cs)%nat -> ww i = vw i ++ [nth K' (skipn i cs) 0].
Proof. intros i H. unfold ww, vw. apply firstn_snoc. rewrite skipn_length. lia. Qed.

Lemma pow_k : 4 ^ k = 4 * 4 ^ N.of_nat K'.
Proof. rewrite s_k. apply pow4_succ. Qed.

Lemma node_cons : forall i, (i + S K' <= length cs)%nat -> (4 * node i) mod 4 ^ k = 4 * kval (vw (S i)).
Proof.
  intros i H. unfold node. rewrite ww_cons by assumption. cbn [kval]. rewrite vw_len by lia. rewrite pow_k.
  pose proof (kval_bound (vw (S i)) (vw_dig _)) as B. rewrite vw_len in B by lia.
  pose proof (pow4_pos (N.of_nat K')) as PP.
  set (P := 4 ^ N.of_nat K') in *. set (U := kval (vw (S i))) in *. set (a := nth i cs 0).
  replace (4 * (a * P + U)) with (4 * U + a * (4 * P)) by lia.
  rewrite N.mod_add by lia. apply N.mod_small. lia.
Qed.

Lemma node_snoc : forall i, (i + S K' <= length cs)%nat -> exists d, d < 4 /\ node i = 4 * kval (vw i) + d.
Proof.
  intros i H. exists (nth K' (skipn i cs) 0). split; [apply digits_nth, digits_skipn, s_dig|].
  unfold node. rewrite ww_snoc by assumption. apply kval_snoc.
Qed.

Lemma nodes_iff : forall x, mem g x = true <-> In x (kmers (S K') cs).
Proof.
  intro x.
  destruct (weights_exact k [(s, c)] s_k1 Hk31) as (g' & Hg' & Hw).
  { constructor; [exists cs; exact Hcs|constructor]. }
  rewrite Hg in Hg'. inversion Hg'; subst g'.
  assert (Hwx : weight g x = c * count_n x (kmers (S K') cs)).
  { rewrite Hw. cbn [total_weight]. rewrite Hcs, HK. lia. }
  split.
  - intro Hm. apply count_n_pos.
    pose proof (built_weights_positive k _ g Hg s_pos x Hm) as Hp. rewrite Hwx in Hp.
    destruct (count_n x (kmers (S K') cs)); lia.
  - intro Hin. apply count_n_pos in Hin. destruct (mem g x) eqn:E; [reflexivity|].
    apply weight_notmem in E. rewrite Hwx in E. apply N.eq_mul_0 in E. destruct E; lia.
Qed.

Lemma nk_len : length (kmers (S K') cs) = nk.
Proof. unfold kmers. rewrite map_length, windows_count by lia. unfold nk. lia. Qed.

Lemma kmers_nth : forall i, (i < nk)%nat -> nth i (kmers (S K') cs) 0 = node i.
Proof.
  intros i H. unfold kmers. change 0 with (kval []). rewrite map_nth. unfold node, ww. f_equal.
  apply windows_nth; unfold nk in H; lia.
Qed.

Lemma node_mem : forall i, (i < nk)%nat -> mem g (node i) = true.
Proof. intros i H. apply nodes_iff. rewrite <- kmers_nth by assumption. apply nth_In. rewrite nk_len. assumption. Qed.

(* the edges, without any hypothesis on repetitions *)
Lemma edge_iff : forall a b, (a < nk)%nat -> (b < nk)%nat ->
  (In (node b) (nexts k g (node a)) <-> vw (S a) = vw b).
Proof.
  intros a b Ha Hb. pose proof s_k1 as Hk1. unfold nk in Ha, Hb.
  rewrite nexts_spec by lia. rewrite node_cons by lia.
  destruct (node_snoc b ltac:(lia)) as (d & Hd & Eb).
  split.
  - intros (_ & d' & Hd' & E). rewrite Eb in E.
    apply kval_inj; [apply vw_dig|apply vw_dig|rewrite !vw_len by lia; reflexivity|lia].
  - intro E. split; [apply node_mem; unfold nk; lia|]. exists d. split; [assumption|]. rewrite E, Eb. reflexivity.
Qed.

Lemma vlen : length (windows K' cs) = S nk.
Proof. rewrite windows_count by lia. unfold nk. lia. Qed.
Lemma vw_nth : forall i, (i <= nk)%nat -> nth i (windows K' cs) [] = vw i.
Proof. intros i H. apply windows_nth; unfold nk in H; lia. Qed.

Lemma g_nonempty : g <> [].
Proof.
  intro E. pose proof (node_mem 0 ltac:(unfold nk; lia)) as H. rewrite E in H. discriminate H.
Qed.

(* consecutive k-mers always form a walk *)
Lemma seg_walk : forall n a, (a + S n <= nk)%nat -> is_walk k g (map node (seq a (S n))).
Proof.
  induction n as [|n IH]; intros a H.
  - cbn [seq map is_walk]. split; [apply node_mem; lia|exact I].
  - specialize (IH (S a) ltac:(lia)).
    change (seq a (S (S n))) with (a :: S a :: seq (S (S a)) n).
    change (seq (S a) (S n)) with (S a :: seq (S (S a)) n) in IH. cbn [map] in IH |- *.
    apply is_walk_cons2. split; [apply node_mem; lia|]. split; [|exact IH].
    apply edge_iff; [lia|lia|reflexivity].
Qed.

(* a repeated (k-1)-mer closes a cycle *)
Lemma rep_cycle : forall i j, (i < j)%nat -> (j <= nk)%nat -> vw i = vw j -> has_cycle k g = true.
Proof.
  intros i j Hij Hj E. set (n := (j - i - 1)%nat).
  apply cycle_detected with (x := node i) (p := map node (seq (S i) n)).
  assert (Es : node i :: map node (seq (S i) n) ++ [node i] = map node (seq i n) ++ node (i + n) :: [node i]).
  { change (node i :: map node (seq (S i) n) ++ [node i]) with (map node (seq i (S n)) ++ [node i]).
    rewrite seq_S, map_app, <- app_assoc. reflexivity. }
  rewrite Es. apply walk_app.
  - pose proof (seg_walk n i ltac:(lia)) as H. rewrite seq_S, map_app in H. exact H.
  - apply is_walk_cons2. split; [apply node_mem; lia|]. split.
    + apply edge_iff; [lia|lia|]. replace (S (i + n)) with j by lia. symmetry; exact E.
    + cbn [is_walk]. split; [apply node_mem; lia|exact I].
Qed.

Lemma norepeat_if_acyclic : has_cycle k g = false -> NoDup (windows K' cs).
Proof.
  intro Hac. apply (NoDup_nth _ []). intros i j Hi Hj E. rewrite vlen in Hi, Hj.
  rewrite !vw_nth in E by lia.
  destruct (lt_eq_lt_dec i j) as [[L|Eq]|L]; [exfalso|exact Eq|exfalso].
  - rewrite (rep_cycle i j L ltac:(lia) E) in Hac. discriminate Hac.
  - rewrite (rep_cycle j i L ltac:(lia) (eq_sym E)) in Hac. discriminate Hac.
Qed.

Lemma cyclic_result : has_cycle k g = true -> go_heaviest_path k g = HNil /\ longest_consensus k g = None.
Proof.
  intro Hc'. pose proof (built_heaviest_path_optimal k _ g s_k1 Hk31 Hg s_pos g_nonempty) as H.
  unfold best_walk_weight in H. rewrite Hc' in H. destruct H as [_ H].
  split; [exact H|]. unfold longest_consensus. rewrite H. destruct g; reflexivity.
Qed.

Section NoRepeat.
Hypothesis Hnd : NoDup (windows K' cs).

Lemma vw_inj : forall i j, (i <= nk)%nat -> (j <= nk)%nat -> vw i = vw j -> i = j.
Proof.
  intros i j Hi Hj E. apply (proj1 (NoDup_nth (windows K' cs) []) Hnd); [rewrite vlen; lia|rewrite vlen; lia|].
  rewrite !vw_nth by assumption. exact E.
Qed.

Lemma node_inj : forall i j, (i < nk)%nat -> (j < nk)%nat -> node i = node j -> i = j.
Proof.
  intros i j Hi Hj E. unfold nk in Hi, Hj. unfold node in E.
  apply kval_inj in E; [|apply ww_dig|apply ww_dig|rewrite !ww_len by lia; reflexivity].
  rewrite !ww_snoc in E by lia. apply app_inj_tail in E. destruct E as [E _].
  apply vw_inj; [unfold nk; lia|unfold nk; lia|exact E].
Qed.

Lemma kmers_nodup : NoDup (kmers (S K') cs).
Proof.
  apply (NoDup_nth _ 0). intros i j Hi Hj E. rewrite nk_len in Hi, Hj.
  rewrite !kmers_nth in E by assumption. apply node_inj; assumption.
Qed.

Lemma kmers_edges : forall i j, (i < length (kmers (S K') cs))%nat -> (j < length (kmers (S K') cs))%nat ->
  (In (nth j (kmers (S K') cs) 0) (nexts k g (nth i (kmers (S K') cs) 0)) <-> j = S i).
Proof.
  intros i j Hi Hj. rewrite nk_len in Hi, Hj. rewrite !kmers_nth by assumption.
  rewrite edge_iff by assumption. split.
  - intro E. apply vw_inj in E; lia.
  - intros ->. reflexivity.
Qed.

Lemma single_core : has_cycle k g = false /\ go_heaviest_path k g = HPath (kmers (S K') cs).
Proof.
  assert (Hne : (0 < length (kmers (S K') cs))%nat) by (rewrite nk_len; unfold nk; lia).
  assert (Hheads : forall h, In h (heads k g) <->
            In h (nodes g) /\ (forall y, mem g y = true -> ~ In h (nexts k g y))).
  { intro h. apply (built_heads_are_sources k _ g h s_k1 Hk31 Hg). }
  pose proof (built_weights_positive k _ g Hg s_pos) as Hpos.
  assert (Hac : has_cycle k g = false).
  { apply pg_acyclic with (l := kmers (S K') cs); first [exact kmers_nodup|exact Hne|exact nodes_iff|exact kmers_edges]. }
  split; [exact Hac|].
  pose proof (built_heaviest_path_optimal k _ g s_k1 Hk31 Hg s_pos g_nonempty) as H.
  unfold best_walk_weight in H. rewrite Hac in H.
  destruct H as (h & rest & Hp & Hh & Hw & _ & Hopt). rewrite Hp. f_equal.
  apply pg_best_is_all with (k := k) (g := g);
    first [exact kmers_nodup|exact nodes_iff|exact kmers_edges|exact Hne|exact Hheads|exact Hpos|assumption].
Qed.
End NoRepeat.
End Single.

(** ================= the theorems ================= *)
Theorem single_sequence_unchanged : forall k s c cs g, 2 <= k -> k <= 31 -> 0 < c ->
  all_some (map ocode s) = Some cs -> (N.to_nat k <= length cs)%nat ->
  NoDup (windows (N.to_nat k - 1) cs) ->
  dbg_build k [(s, c)] = Some g ->
  has_cycle k g = false /\
  go_heaviest_path k g = HPath (kmers (N.to_nat k) cs) /\
  decode_path k (kmers (N.to_nat k) cs) = map decode cs /\
  longest_consensus k g = Some (map decode cs).
Proof.
  intros k s c cs g Hk2 Hk31 Hc Hcs Hlen Hnd Hg.
  destruct (N.to_nat k) as [|K'] eqn:HK; [lia|].
  replace (S K' - 1)%nat with K' in Hnd by lia.
  assert (HK1 : (1 <= K')%nat) by lia.
  destruct (single_core k K' s c cs g HK HK1 Hk31 Hc Hcs Hlen Hg Hnd) as [Hac Hp].
  pose proof (decode_path_kmers k K' cs HK Hlen (all_some_digits _ _ Hcs)) as Hd.
  pose proof (g_nonempty k K' s c cs g HK HK1 Hk31 Hc Hcs Hlen Hg) as Hgne.
  split; [exact Hac|]. split; [exact Hp|]. split; [exact Hd|].
  unfold longest_consensus. destruct g as [|p g']; [congruence|].
  rewrite Hp, Hd. destruct cs; [cbn [length] in Hlen; lia|]. reflexivity.
Qed.

(* distinct k-mers are NOT enough: acgac, k = 3 *)
Lemma single_sequence_kmers_distinct_not_enough :
  exists s cs g, all_some (map ocode s) = Some cs /\ NoDup (windows 3 cs) /\
    dbg_build 3 [(s, 1)] = Some g /\ has_cycle 3 g = true /\ go_heaviest_path 3 g = HNil.
Proof.
  exists [97;99;103;97;99], [0;1;2;0;1]. eexists.
  split; [vm_compute; reflexivity|]. split.
  - vm_compute. repeat constructor; cbn [In]; intro H;
      repeat (destruct H as [H|H]; [discriminate H|]); exact H.
  - split; [vm_compute; reflexivity|]. split; vm_compute; reflexivity.
Qed.

(* exactness of the condition: a repeated (k-1)-mer always closes a cycle: no path, no consensus *)
Theorem single_sequence_repeat_cycle : forall k s c cs g, 2 <= k -> k <= 31 -> 0 < c ->
  all_some (map ocode s) = Some cs -> (N.to_nat k <= length cs)%nat ->
  ~ NoDup (windows (N.to_nat k - 1) cs) ->
  dbg_build k [(s, c)] = Some g ->
  has_cycle k g = true /\ go_heaviest_path k g = HNil /\ longest_consensus k g = None.
Proof.
  intros k s c cs g Hk2 Hk31 Hc Hcs Hlen Hnd Hg.
  destruct (N.to_nat k) as [|K'] eqn:HK; [lia|].
  replace (S K' - 1)%nat with K' in Hnd by lia.
  assert (HK1 : (1 <= K')%nat) by lia.
  assert (Hcy : has_cycle k g = true).
  { destruct (has_cycle k g) eqn:E; [reflexivity|]. exfalso. apply Hnd.
    exact (norepeat_if_acyclic k K' s c cs g HK HK1 Hk31 Hc Hcs Hlen Hg E). }
  split; [exact Hcy|].
  exact (cyclic_result k K' s c cs g HK HK1 Hk31 Hc Hcs Hlen Hg Hcy).
Qed.

(* the condition is exactly "no repeated (k-1)-mer" *)
Corollary single_sequence_acyclic_iff : forall k s c cs g, 2 <= k -> k <= 31 -> 0 < c ->
  all_some (map ocode s) = Some cs -> (N.to_nat k <= length cs)%nat ->
  dbg_build k [(s, c)] = Some g ->
  (has_cycle k g = false <-> NoDup (windows (N.to_nat k - 1) cs)).
Proof.
  intros k s c cs g Hk2 Hk31 Hc Hcs Hlen Hg. split.
  - intro Hac. destruct (N.to_nat k) as [|K'] eqn:HK; [lia|].
    replace (S K' - 1)%nat with K' by lia.
    exact (norepeat_if_acyclic k K' s c cs g HK ltac:(lia) Hk31 Hc Hcs Hlen Hg Hac).
  - intro Hnd. exact (proj1 (single_sequence_unchanged k s c cs g Hk2 Hk31 Hc Hcs Hlen Hnd Hg)).
Qed.

