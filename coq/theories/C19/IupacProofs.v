(** C19 — the repaired Push/append on ANY IUPAC sequence: the model adds to the weight of x exactly
    count * push_count (the recursion counts of IupacCount.v), and push_count is the number of compatible
    windows (IupacWin.v): theorem weights_iupac_window. *)
From Coq Require Import NArith List Bool Lia Arith.
From OBI.C19 Require Import Model Proofs IupacCount IupacWin.
Import ListNotations.
Open Scope N_scope.

Section PushW.
Variables (k : N) (w : N) (K1 : nat) (x : N).
Hypothesis Hk1 : 1 <= k.
Hypothesis Hk2 : 2 * k < 64.

Lemma append_count : forall t lim rp cur g, nonempty_codes t -> digits rp -> cur = kmer_of k rp ->
  exists g', dbg_append K1 (dbg_mask k) w lim t cur g = Some g' /\
    weight g' x = weight g x + w * acount k K1 lim rp t x.
Proof.
  induction t as [|b t IH]; intros lim rp cur g Hne Hrp Hcur.
  - exists g. split; [reflexivity|]. cbn. lia.
  - destruct lim as [|l]; [exists g; split; [reflexivity|]; cbn [acount]; lia|].
    inversion Hne as [|? ? Hb Hne']; subst.
    cbn [dbg_append acount].
    pose proof (iupac_codes_lt b) as Hlt.
    destruct (iupac b) as [|c0 cs]; [congruence|].
    assert (Hc0 : c0 < 4) by (apply Hlt; left; reflexivity).
    rewrite (roll_value k Hk1 Hk2 _ c0 rp Hrp Hc0 eq_refl).
    destruct (IH l (c0 :: rp) (kmer_of k (c0 :: rp)) (add_w (kmer_of k (c0 :: rp)) w g) Hne'
                 ltac:(constructor; assumption) eq_refl) as (g0 & Hg0 & Hw0).
    rewrite Hg0.
    assert (Hcs : forall c, In c cs -> c < 4) by (intros c Hc; apply Hlt; right; exact Hc).
    assert (Base : weight g0 x = weight g x + w * (eqc (kmer_of k (c0 :: rp)) x + acount k K1 l (c0 :: rp) t x)).
    { rewrite Hw0, weight_add. unfold eqc. destruct (_ =? _); lia. }
    clear Hlt Hb Hg0 Hw0. revert Base.
    generalize (eqc (kmer_of k (c0 :: rp)) x + acount k K1 l (c0 :: rp) t x) as acc.
    revert g0. generalize c0 Hc0. clear c0 Hc0.
    induction cs as [|c cs IHcs]; intros cprev Hcprev g0 acc Base.
    + exists g0. split; [reflexivity|]. cbn [sumN]. rewrite Base. lia.
    + assert (Hc : c < 4) by (apply Hcs; left; reflexivity).
      rewrite (sibling_value k Hk1 Hk2 cprev c rp Hcprev Hc).
      destruct (IH (Nat.min l K1) (c :: rp) (kmer_of k (c :: rp)) (add_w (kmer_of k (c :: rp)) w g0) Hne'
                   ltac:(constructor; assumption) eq_refl) as (g1 & Hg1 & Hw1).
      rewrite Hg1.
      destruct (IHcs ltac:(intros c' Hc'; apply Hcs; right; exact Hc') c Hc g1
                     (acc + (eqc (kmer_of k (c :: rp)) x + acount k K1 (Nat.min l K1) (c :: rp) t x)))
        as (g' & Hg' & Hw').
      { rewrite Hw1, weight_add, Base. unfold eqc. destruct (_ =? _); lia. }
      exists g'. split; [exact Hg'|]. rewrite Hw'. cbn [sumN]. lia.
Qed.

(* the count accumulated by the loop over the codes of one base of the first k-mer *)
Fixpoint lsum (cnt : nat -> N -> N) (start : nat) (first : bool) (lim : nat) (cs : list N) : N :=
  match cs with
  | [] => 0
  | c :: cs' =>
    let lim' := if first then lim else if Nat.ltb start lim then start else lim in
    cnt lim' c + lsum cnt start false lim' cs'
  end.

Lemma sumN_ext : forall f g l, (forall c, f c = g c) -> sumN f l = sumN g l.
Proof. intros f g l H. induction l as [|c l IH]; [reflexivity|]. cbn [sumN]. rewrite H, IH. reflexivity. Qed.

Lemma lsum_false : forall cnt start cs lim, lsum cnt start false lim cs = sumN (fun c => cnt (Nat.min lim start) c) cs.
Proof.
  intros cnt start. induction cs as [|c cs IH]; intro lim; [reflexivity|].
  cbn [lsum sumN].
  assert (E : (if Nat.ltb start lim then start else lim) = Nat.min lim start).
  { destruct (Nat.ltb_spec start lim); lia. }
  rewrite E. rewrite IH. f_equal. apply sumN_ext. intro c'. f_equal. lia.
Qed.

Lemma each_lim_count : forall (f : nat -> N -> graph -> option graph) start (cnt : nat -> N -> N) base cs,
  base < 2 ^ 62 -> (forall c, In c cs -> c < 4) ->
  (forall lim c g0, In c cs -> exists g1, f lim (4 * base + c) g0 = Some g1 /\
                                      weight g1 x = weight g0 x + w * cnt lim c) ->
  forall first cprev lim g0, cprev < 4 ->
    exists g', each_lim f start first cs (4 * base + cprev) lim g0 = Some g' /\
      weight g' x = weight g0 x + w * lsum cnt start first lim cs.
Proof.
  intros f start cnt base cs Hbase. induction cs as [|c cs IH]; intros Hlt Hf first cprev lim g0 Hcprev.
  - exists g0. split; [reflexivity|]. cbn. lia.
  - cbn [each_lim lsum]. assert (Hc : c < 4) by (apply Hlt; left; reflexivity).
    rewrite (clear2_low base cprev Hbase Hcprev). rewrite lor_mul4 by assumption.
    set (lim' := if first then lim else if Nat.ltb start lim then start else lim).
    destruct (Hf lim' c g0 ltac:(left; reflexivity)) as (g1 & Hg1 & Hw1). rewrite Hg1.
    destruct (IH ltac:(intros; apply Hlt; right; assumption)
                 ltac:(intros; apply Hf; right; assumption) false c lim' g1 Hc) as (g' & Hg' & Hw').
    exists g'. split; [exact Hg'|]. rewrite Hw', Hw1. lia.
Qed.

Lemma first_count : forall K, K = N.to_nat k ->
  forall n start lim s rp key g, nonempty_codes s -> digits rp -> key = lval rp ->
    (length rp + n = K)%nat -> (n <= length s)%nat ->
    exists g', dbg_first n start K1 (dbg_mask k) w lim s key g = Some g' /\
      weight g' x = weight g x + w * fcount k K1 n start lim rp s x.
Proof.
  intros K HK. induction n as [|n IH]; intros start lim s rp key g Hne Hrp Hkey Hlen Hn.
  - cbn [dbg_first fcount].
    assert (HB : lval rp < 4 ^ k).
    { pose proof (lval_bound rp Hrp) as B. replace (N.of_nat (length rp)) with k in B by lia. exact B. }
    assert (Ek : kmer_of k rp = key) by (unfold kmer_of; rewrite N.mod_small by assumption; congruence).
    destruct (append_count s lim rp key (add_w key w g) Hne Hrp (eq_sym Ek)) as (g' & Hg' & Hw').
    exists g'. split; [exact Hg'|]. rewrite Hw', weight_add, Ek. unfold eqc. destruct (key =? x); lia.
  - destruct s as [|b t]; [cbn in Hn; lia|].
    pose proof (Forall_inv Hne) as Hb. pose proof (Forall_inv_tail Hne) as Hne'. cbv beta in Hb.
    subst key. rewrite dbg_first_S. cbn [fcount].
    assert (HB : lval rp < 2 ^ 60).
    { pose proof (lval_bound rp Hrp) as B. eapply N.lt_le_trans; [exact B|].
      rewrite pow4_2. apply N.pow_le_mono_r; lia. }
    assert (HB2 : lval rp < 2 ^ 62) by (eapply N.lt_le_trans; [exact HB|apply N.pow_le_mono_r; lia]).
    assert (E0 : shl64 (lval rp) 2 = 4 * lval rp + 0).
    { unfold shl64. cbn [N.ltb N.compare Pos.compare Pos.compare_cont].
      rewrite N.shiftl_mul_pow2. change (2 ^ 2) with 4.
      rewrite N.mod_small by (unfold W64; change (2 ^ 64) with 18446744073709551616; change (2 ^ 60) with 1152921504606846976 in HB; lia).
      lia. }
    rewrite E0.
    set (cnt := fun lim' c => fcount k K1 n (S start) lim' (c :: rp) t x).
    destruct (each_lim_count (fun lim' key' g' => dbg_first n (S start) K1 (dbg_mask k) w lim' t key' g') start cnt
                (lval rp) (iupac b) HB2 (iupac_codes_lt b)) with (first := true) (cprev := 0) (lim := lim) (g0 := g)
      as (g' & Hg' & Hw'); [|reflexivity|].
    { intros lim' c g0 Hc. assert (Hc4 : c < 4) by (apply (iupac_codes_lt b); exact Hc).
      replace (4 * lval rp + c) with (lval (c :: rp)) by (cbn [lval]; lia).
      destruct (IH (S start) lim' t (c :: rp) (lval (c :: rp)) g0 Hne' ltac:(constructor; assumption) eq_refl)
        as (g1 & Hg1 & Hw1); [cbn [length]; lia|cbn [length] in Hn; lia|].
      exists g1. split; [exact Hg1|]. rewrite Hw1. reflexivity. }
    exists g'. split; [exact Hg'|]. rewrite Hw'. f_equal. f_equal.
    destruct (iupac b) as [|c0 cs]; [congruence|].
    cbn [lsum]. rewrite lsum_false. reflexivity.
Qed.
End PushW.

Lemma push_count_spec : forall k w x g s, 1 <= k -> 2 * k < 64 -> nonempty_codes s ->
  exists g', dbg_push_with true k g (s, w) = Some g' /\
    weight g' x = weight g x + w * push_count k s x.
Proof.
  intros k w x g s Hk1 Hk2 Hne. unfold dbg_push_with, push_count. cbv zeta.
  destruct (N.leb_spec k (N.of_nat (length s))) as [L|L].
  - destruct (Nat.leb_spec (N.to_nat k) (length s)) as [_|?]; [|lia].
    destruct (first_count k w (N.to_nat k - 1)%nat x Hk1 Hk2 (N.to_nat k) eq_refl (N.to_nat k) 0%nat
                (length s - N.to_nat k)%nat s [] 0 g Hne) as (g' & Hg' & Hw');
      [apply Forall_nil|reflexivity|cbn [length]; lia|lia|].
    exists g'. split; [exact Hg'|exact Hw'].
  - destruct (Nat.leb_spec (N.to_nat k) (length s)) as [?|_]; [lia|].
    exists g. split; [reflexivity|]. lia.
Qed.

Fixpoint total_push_count (k : N) (seqs : list (list N * N)) (x : N) : N :=
  match seqs with
  | [] => 0
  | (s, w) :: t => w * push_count k s x + total_push_count k t x
  end.

Lemma build_count : forall k x seqs g, 1 <= k -> 2 * k < 64 -> Forall (fun sq => nonempty_codes (fst sq)) seqs ->
  exists g', dbg_build_with true k seqs g = Some g' /\
    weight g' x = weight g x + total_push_count k seqs x.
Proof.
  intros k x seqs. induction seqs as [|[s w] seqs IH]; intros g Hk1 Hk2 Hall.
  - exists g. split; [reflexivity|]. cbn. lia.
  - pose proof (Forall_inv Hall) as Hs. pose proof (Forall_inv_tail Hall) as Hall'. cbn [fst] in Hs.
    cbn [dbg_build_with].
    destruct (push_count_spec k w x g s Hk1 Hk2 Hs) as (g1 & Hg1 & Hw1). rewrite Hg1.
    destruct (IH g1 Hk1 Hk2 Hall') as (g' & Hg' & Hw'). exists g'. split; [exact Hg'|].
    rewrite Hw', Hw1. cbn [total_push_count]. lia.
Qed.

Theorem weights_iupac_counts : forall k seqs, 1 <= k -> k <= 31 -> Forall (fun sq => nonempty_codes (fst sq)) seqs ->
  exists g, dbg_build k seqs = Some g /\ forall x, weight g x = total_push_count k seqs x.
Proof.
  intros k seqs H1 H2 Hall. unfold dbg_build.
  destruct (build_count k 0 seqs [] H1 ltac:(lia) Hall) as (g & Hg & _).
  exists g. split; [exact Hg|]. intro x.
  destruct (build_count k x seqs [] H1 ltac:(lia) Hall) as (g2 & Hg2 & Hw2).
  rewrite Hg in Hg2. inversion Hg2; subst. rewrite Hw2. reflexivity.
Qed.

(** ---------------- the point of the repair: the symmetric per-window reading of the property *)
Fixpoint total_compat_weight (K : nat) (seqs : list (list N * N)) (x : N) : N :=
  match seqs with
  | [] => 0
  | (s, w) :: t => w * compat_occ K s x + total_compat_weight K t x
  end.

Lemma total_push_count_compat : forall k seqs x, 1 <= k -> Forall (fun sq => nonempty_codes (fst sq)) seqs ->
  total_push_count k seqs x = total_compat_weight (N.to_nat k) seqs x.
Proof.
  intros k seqs x Hk. induction seqs as [|[s w] seqs IH]; intro Hall; [reflexivity|].
  pose proof (Forall_inv Hall) as Hs. pose proof (Forall_inv_tail Hall) as Hall'. cbn [fst] in Hs.
  cbn [total_push_count total_compat_weight]. rewrite IH by assumption.
  rewrite push_count_compat by assumption. reflexivity.
Qed.

Theorem weights_iupac_window : forall k seqs, 1 <= k -> k <= 31 ->
  Forall (fun sq => nonempty_codes (fst sq)) seqs ->
  exists g, dbg_build k seqs = Some g /\ forall x, weight g x = total_compat_weight (N.to_nat k) seqs x.
Proof.
  intros k seqs H1 H2 Hall. destruct (weights_iupac_counts k seqs H1 H2 Hall) as (g & Hg & Hw).
  exists g. split; [exact Hg|]. intro x. rewrite Hw. apply total_push_count_compat; assumption.
Qed.

Print Assumptions weights_iupac_window.
