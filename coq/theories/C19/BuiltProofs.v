(** C19 — graphs built by Push: every node has a positive weight; an acyclic non-empty graph has a source.
    These discharge the two side hypotheses of AlgoProofs.go_heaviest_path_optimal. *)
From Coq Require Import NArith PArith List Bool Lia.
From OBI.C19 Require Import Model Proofs Algo HavProofs DfsProofs AlgoProofs.
Import ListNotations.
Open Scope N_scope.

(** ---------------- a generic invariant preserved by every graph[x] += w is preserved by Push *)
Section Inv.
Variable Q : graph -> Prop.
Variable w : N.
Hypothesis Hadd : forall x g, Q g -> Q (add_w x w g).

Lemma append_inv : forall K1 mask t lim cur g g', dbg_append K1 mask w lim t cur g = Some g' -> Q g -> Q g'.
Proof.
  intros K1 mask. induction t as [|b t IH]; intros lim cur g g' H Hg.
  - inversion H; subst. exact Hg.
  - destruct lim as [|l]; [inversion H; subst; exact Hg|].
    cbn [dbg_append] in H.
    destruct (iupac b) as [|c0 cs]; [discriminate|].
    set (cur0 := N.lor (N.land (shl64 cur 2) mask) c0) in H.
    destruct (dbg_append K1 mask w l t cur0 (add_w cur0 w g)) as [g0|] eqn:E0; [|discriminate].
    assert (Hg0 : Q g0) by (eapply IH; [exact E0|apply Hadd; exact Hg]).
    clear E0 Hg. revert H Hg0. generalize g0. generalize cur0. clear cur0 g0.
    induction cs as [|c cs IHcs]; intros cprev g0 H Hg0.
    + inversion H; subst. exact Hg0.
    + set (cur' := N.lor (clear2 cprev) c) in H.
      destruct (dbg_append K1 mask w (Nat.min l K1) t cur' (add_w cur' w g0)) as [g1|] eqn:E1; [|discriminate].
      apply (IHcs cur' g1 H). eapply IH; [exact E1|apply Hadd; exact Hg0].
Qed.

Lemma each_inv : forall (f : nat -> N -> graph -> option graph) start cs,
  (forall lim key g0 g1, f lim key g0 = Some g1 -> Q g0 -> Q g1) ->
  forall first key lim g g', each_lim f start first cs key lim g = Some g' -> Q g -> Q g'.
Proof.
  intros f start cs Hf. induction cs as [|c cs IH]; intros first key lim g g' H Hg.
  - inversion H; subst. exact Hg.
  - cbn [each_lim] in H.
    match type of H with match f ?L ?X _ with _ => _ end = _ => set (lim' := L) in *; set (key' := X) in * end.
    destruct (f lim' key' g) as [g1|] eqn:E1; [|discriminate].
    apply (IH _ _ _ g1 g' H). eapply Hf; [exact E1|exact Hg].
Qed.

Lemma first_inv : forall K1 n start mask lim s key g g', dbg_first n start K1 mask w lim s key g = Some g' -> Q g -> Q g'.
Proof.
  intro K1. induction n as [|n IH]; intros start mask lim s key g g' H Hg.
  - cbn [dbg_first] in H. eapply append_inv; [exact H|apply Hadd; exact Hg].
  - destruct s as [|b t]; [discriminate|]. rewrite dbg_first_S in H.
    eapply each_inv; [|exact H|exact Hg].
    intros lim0 key0 g0 g1 Hf Hg0. cbv beta in Hf. eapply IH; [exact Hf|exact Hg0].
Qed.
End Inv.

Lemma push_inv : forall (Q : graph -> Prop), (forall x w g, 0 < w -> Q g -> Q (add_w x w g)) ->
  forall ge k g sq g', 0 < snd sq -> dbg_push_with ge k g sq = Some g' -> Q g -> Q g'.
Proof.
  intros Q Hadd ge k g [s w] g' Hw H Hg. cbn [snd] in Hw. unfold dbg_push_with in H.
  destruct (if ge then k <=? N.of_nat (length s) else k <? N.of_nat (length s)).
  - eapply (first_inv Q w); [|exact H|exact Hg]. intros x g0 Hg0. apply Hadd; assumption.
  - inversion H; subst. exact Hg.
Qed.

Lemma build_inv : forall (Q : graph -> Prop), (forall x w g, 0 < w -> Q g -> Q (add_w x w g)) ->
  forall ge k seqs g g', Forall (fun sq => 0 < snd sq) seqs ->
    dbg_build_with ge k seqs g = Some g' -> Q g -> Q g'.
Proof.
  intros Q Hadd ge k seqs. induction seqs as [|sq seqs IH]; intros g g' Hpos H Hg.
  - inversion H; subst. exact Hg.
  - cbn [dbg_build_with] in H. destruct (dbg_push_with ge k g sq) as [g1|] eqn:E1; [|discriminate].
    inversion Hpos as [|? ? Hsq Hrest]; subst.
    apply (IH g1 g' Hrest H). eapply push_inv; [exact Hadd|exact Hsq|exact E1|exact Hg].
Qed.

(** ---------------- (H1) every node of a graph built from positive counts has a positive weight *)
Definition weights_pos (g : graph) : Prop := forall x, mem g x = true -> 0 < weight g x.

Lemma weights_pos_add : forall x w g, 0 < w -> weights_pos g -> weights_pos (add_w x w g).
Proof.
  intros x w g Hw Hg y Hy. rewrite weight_add. unfold add_w in Hy.
  destruct (mem g x) eqn:Mx.
  - rewrite mem_upd in Hy. specialize (Hg y Hy). destruct (x =? y); lia.
  - rewrite mem_ins in Hy. destruct (x =? y) eqn:E; [lia|].
    cbn [orb] in Hy. specialize (Hg y Hy). lia.
Qed.

Lemma built_weights_positive : forall k seqs g, dbg_build k seqs = Some g ->
  Forall (fun sq => 0 < snd sq) seqs -> forall x, mem g x = true -> 0 < weight g x.
Proof.
  intros k seqs g H Hpos. change (weights_pos g).
  eapply (build_inv weights_pos weights_pos_add true k seqs []); [exact Hpos|exact H|].
  intros x Hx. discriminate Hx.
Qed.

(** ---------------- (H2) a non-empty acyclic graph has a source node *)
(* a node that is not a head has a predecessor in the graph *)
Lemma nonhead_has_pred : forall k g x, 1 <= k -> 2 * k < 64 -> keys_lt k g ->
  mem g x = true -> ~ In x (heads k g) -> exists y, mem g y = true /\ In x (nexts k g y).
Proof.
  intros k g x Hk1 Hk2 Hwf Hx Hnh.
  assert (Hxl : x < 4 ^ k) by (apply Hwf; exact Hx).
  destruct (prevs k g x) as [|y l] eqn:E.
  - exfalso. apply Hnh. unfold heads. apply filter_In. split; [apply mem_nodes; exact Hx|].
    rewrite E. reflexivity.
  - assert (Hin : In y (prevs k g x)) by (rewrite E; left; reflexivity).
    apply (prevs_spec k g x y Hk1 Hk2 Hxl) in Hin. destruct Hin as [Hy Hb].
    apply (edge_duality k x y Hk1 Hxl (Hwf y Hy)) in Hb.
    exists y. split; [exact Hy|]. apply nexts_spec; try assumption. split; [exact Hx|exact Hb].
Qed.

(* without heads, walks can be extended backwards for ever *)
Lemma backward_walks : forall k g, 1 <= k -> 2 * k < 64 -> keys_lt k g -> heads k g = [] ->
  forall n x, mem g x = true -> exists p, is_walk k g (p ++ [x]) /\ length p = n.
Proof.
  intros k g Hk1 Hk2 Hwf Hh. induction n as [|n IH]; intros x Hx.
  - exists []. split; [|reflexivity]. cbn [app is_walk]. split; [exact Hx|exact I].
  - destruct (nonhead_has_pred k g x Hk1 Hk2 Hwf Hx) as (y & Hy & Hyx).
    { rewrite Hh. intros []. }
    destruct (IH y Hy) as (p & Hp & Hl).
    exists (p ++ [y]). split; [|rewrite app_length; cbn [length]; lia].
    rewrite <- app_assoc. cbn [app]. apply walk_app; [exact Hp|].
    cbn [is_walk]. split; [exact Hy|]. split; [exact Hyx|]. split; [exact Hx|exact I].
Qed.

Lemma acyclic_has_head_wf : forall k g, 1 <= k -> 2 * k < 64 -> keys_lt k g ->
  g <> [] -> has_cycle k g = false -> heads k g <> [].
Proof.
  intros k g Hk1 Hk2 Hwf Hne Hc Hh.
  destruct g as [|[x0 w0] g']; [apply Hne; reflexivity|].
  set (g := (x0, w0) :: g') in *.
  assert (Hx0 : mem g x0 = true) by (unfold g; cbn [mem]; rewrite N.eqb_refl; reflexivity).
  destruct (backward_walks k g Hk1 Hk2 Hwf Hh (length g) x0 Hx0) as (p & Hp & Hl).
  destruct (p ++ [x0]) as [|z q] eqn:E.
  - destruct p; discriminate E.
  - pose proof (acyclic_walk_short k g q z Hc Hp) as L.
    rewrite <- E in L. rewrite app_length in L. cbn [length] in L. lia.
Qed.

Lemma acyclic_has_head : forall k seqs g, 1 <= k -> k <= 31 -> dbg_build k seqs = Some g ->
  g <> [] -> has_cycle k g = false -> heads k g <> [].
Proof.
  intros k seqs g K1 K2 Hb Hne Hc.
  apply acyclic_has_head_wf; [exact K1|lia| |exact Hne|exact Hc].
  eapply built_keys_lt; eassumption.
Qed.

(** ---------------- HaviestPath on a graph built by Push from positive counts: no side hypothesis left *)
Lemma built_heaviest_path_optimal : forall k seqs g, 1 <= k -> k <= 31 -> dbg_build k seqs = Some g ->
  Forall (fun sq => 0 < snd sq) seqs -> g <> [] ->
  match best_walk_weight k g with
  | None => has_cycle k g = true /\ go_heaviest_path k g = HNil
  | Some bw => exists h rest, go_heaviest_path k g = HPath (h :: rest) /\ In h (heads k g) /\
                 is_walk k g (h :: rest) /\ wsum g (h :: rest) = bw /\
                 forall h' p', In h' (heads k g) -> is_walk k g (h' :: p') -> wsum g (h' :: p') <= wsum g (h :: rest)
  end.
Proof.
  intros k seqs g K1 K2 Hb Hpos Hne.
  assert (D : has_cycle k g = true \/ has_cycle k g = false) by (destruct (has_cycle k g); tauto).
  destruct D as [Hc|Hc].
  - assert (Ebw : best_walk_weight k g = None) by (apply no_walk_iff_cycle; exact Hc).
    rewrite Ebw. split; [exact Hc|]. unfold go_heaviest_path.
    apply heaviest_path_cyclic; [intro; tauto|exact Hc].
  - apply (go_heaviest_path_optimal k seqs g K1 K2 Hb).
    + eapply built_weights_positive; eassumption.
    + eapply acyclic_has_head; eassumption.
Qed.

