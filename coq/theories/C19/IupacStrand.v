(** C19 — the per-window weight of the repaired Push is strand-symmetric: the reverse complement of a
    sequence gives the reverse-complement k-mer the same number of compatible windows. *)
From Coq Require Import NArith List Bool Lia Arith.
From OBI.C19 Require Import Model Proofs IupacCount IupacWin IupacProofs.
Import ListNotations.
Open Scope N_scope.

Local Notation P := (fun c b => In c (iupac b)).

Lemma lval_inj : forall a b, digits a -> digits b -> length a = length b -> lval a = lval b -> a = b.
Proof.
  induction a as [|c a IH]; intros b Ha Hb Hl He; destruct b as [|d b]; try discriminate Hl; [reflexivity|].
  inversion Ha as [|? ? Hc Ha']; subst. inversion Hb as [|? ? Hd Hb']; subst.
  cbn [lval] in He. cbn [length] in Hl.
  assert (c = d /\ lval a = lval b) as [-> E] by lia.
  f_equal. apply IH; try assumption. lia.
Qed.

Lemma kval_inj : forall a b, digits a -> digits b -> length a = length b -> kval a = kval b -> a = b.
Proof.
  intros a b Ha Hb Hl He. rewrite !kval_lval_rev in He.
  apply lval_inj in He; [|apply Forall_rev; assumption|apply Forall_rev; assumption|rewrite !rev_length; assumption].
  rewrite <- (rev_involutive a), <- (rev_involutive b). f_equal. exact He.
Qed.

Lemma Forall2_len : forall {A B} (R : A -> B -> Prop) a b, Forall2 R a b -> length a = length b.
Proof. intros A B R a b H. induction H; [reflexivity|]. cbn [length]. f_equal. assumption. Qed.

Lemma Forall2_P_digits : forall e w, Forall2 P e w -> digits e.
Proof. induction 1 as [|c b e w Hc _ IH]; constructor; [eapply iupac_codes_lt; eassumption|assumption]. Qed.

Lemma mem_expand_digits : forall w e, digits e -> length e = length w ->
  (existsb (N.eqb (kval e)) (map kval (expand w)) = true <-> Forall2 P e w).
Proof.
  intros w e He Hl. rewrite existsb_exists. split.
  - intros (x & Hin & Ex). apply N.eqb_eq in Ex. apply in_map_iff in Hin. destruct Hin as (e' & Hx & He').
    apply in_expand in He'. assert (e' = e); [|subst; exact He'].
    apply kval_inj; [eapply Forall2_P_digits; eassumption|assumption| |congruence].
    apply Forall2_len in He'. congruence.
  - intro H. exists (kval e). split; [apply in_map, in_expand; exact H|apply N.eqb_refl].
Qed.

Lemma Forall2_rev' : forall {A B} (R : A -> B -> Prop) a b, Forall2 R a b -> Forall2 R (rev a) (rev b).
Proof.
  intros A B R a b H. induction H as [|x y a b Hxy _ IH]; [constructor|].
  cbn [rev]. apply Forall2_app; [exact IH|constructor; [exact Hxy|constructor]].
Qed.

Lemma Forall2_rev_iff : forall {A B} (R : A -> B -> Prop) a b, Forall2 R (rev a) (rev b) <-> Forall2 R a b.
Proof.
  intros A B R a b. split; [|apply Forall2_rev'].
  intro H. apply Forall2_rev' in H. rewrite !rev_involutive in H. exact H.
Qed.

Lemma Forall2_map_iff : forall {A B} (R : A -> B -> Prop) (Q : A -> Prop) (f : A -> A) (g : B -> B),
  (forall a b, Q a -> (R (f a) (g b) <-> R a b)) ->
  forall l l', Forall Q l -> (Forall2 R (map f l) (map g l') <-> Forall2 R l l').
Proof.
  intros A B R Q f g H. induction l as [|a l IH]; intros l' HQ; destruct l' as [|b l']; cbn [map].
  - split; constructor.
  - split; intro H0; inversion H0.
  - split; intro H0; inversion H0.
  - inversion HQ as [|? ? Ha HQ']; subst. split; intro H0; inversion H0; subst; constructor.
    + apply (H a b Ha). assumption.
    + apply (IH l' HQ'). assumption.
    + apply (H a b Ha). assumption.
    + apply (IH l' HQ'). assumption.
Qed.

(* the complement table and the IUPAC table agree: the codes of the complemented byte are the complemented codes *)
Lemma iupac_revcomp_codes : forall c b, c < 4 -> (In (comp3 c) (iupac (revcompnuc b)) <-> In c (iupac b)).
Proof.
  intros c b Hc. assert (C : c = 0 \/ c = 1 \/ c = 2 \/ c = 3) by lia.
  unfold revcompnuc at 1. unfold iupac at 2.
  repeat match goal with
  | |- context [N.eqb b ?v] => destruct (N.eqb b v)
  end;
  destruct C as [-> | [-> | [-> | ->]]]; vm_compute; intuition discriminate.
Qed.

Lemma window_strand : forall w e, digits e -> length e = length w ->
  existsb (N.eqb (kval (rcw e))) (map kval (expand (map revcompnuc (rev w)))) =
  existsb (N.eqb (kval e)) (map kval (expand w)).
Proof.
  intros w e He Hl. apply eq_true_iff_eq.
  rewrite (mem_expand_digits w e He Hl).
  rewrite (mem_expand_digits (map revcompnuc (rev w)) (rcw e)).
  - unfold rcw. rewrite (Forall2_map_iff P (fun c => c < 4) comp3 revcompnuc).
    + apply Forall2_rev_iff.
    + intros a b Ha. apply iupac_revcomp_codes. exact Ha.
    + apply Forall_rev. exact He.
  - unfold rcw. apply digits_comp3. apply Forall_rev. exact He.
  - unfold rcw. rewrite !map_length, !rev_length. exact Hl.
Qed.

Section Sum.
Context {A : Type}.
Definition sumL (f : A -> N) (l : list A) : N := fold_right (fun w a => f w + a) 0 l.
Lemma sumL_app : forall f a b, sumL f (a ++ b) = sumL f a + sumL f b.
Proof. intros f a b. induction a as [|x a IH]; [reflexivity|]. unfold sumL in *. cbn [app fold_right]. rewrite IH. lia. Qed.
Lemma sumL_rev : forall f l, sumL f (rev l) = sumL f l.
Proof.
  intros f l. induction l as [|x l IH]; [reflexivity|]. cbn [rev]. rewrite sumL_app, IH.
  unfold sumL. cbn [fold_right]. lia.
Qed.
Lemma sumL_ext_in : forall f g l, (forall x, In x l -> f x = g x) -> sumL f l = sumL g l.
Proof.
  intros f g l H. induction l as [|x l IH]; [reflexivity|]. unfold sumL in *. cbn [fold_right].
  rewrite (H x) by (left; reflexivity). rewrite IH; [reflexivity|]. intros; apply H; right; assumption.
Qed.
End Sum.
Lemma sumL_map : forall {A B} (f : B -> N) (h : A -> B) l, sumL f (map h l) = sumL (fun x => f (h x)) l.
Proof. intros A B f h l. induction l as [|x l IH]; [reflexivity|]. unfold sumL in *. cbn [map fold_right]. rewrite IH. reflexivity. Qed.

(** the number of windows of the reverse-complemented sequence compatible with the reverse-complemented k-mer
    is the number of windows of the sequence compatible with the k-mer *)
Theorem compat_occ_strand : forall K s e, (1 <= K)%nat -> digits e -> length e = K ->
  compat_occ K (rcseq s) (kval (rcw e)) = compat_occ K s (kval e).
Proof.
  intros K s e HK He Hl. unfold compat_occ.
  change (fold_right (fun w a => (if existsb (N.eqb (kval (rcw e))) (map kval (expand w)) then 1 else 0) + a) 0
            (windows K (rcseq s)))
    with (sumL (fun w => if existsb (N.eqb (kval (rcw e))) (map kval (expand w)) then 1 else 0) (windows K (rcseq s))).
  change (fold_right (fun w a => (if existsb (N.eqb (kval e)) (map kval (expand w)) then 1 else 0) + a) 0 (windows K s))
    with (sumL (fun w => if existsb (N.eqb (kval e)) (map kval (expand w)) then 1 else 0) (windows K s)).
  unfold rcseq. rewrite windows_map, windows_rev by assumption.
  rewrite sumL_map, sumL_rev, sumL_map.
  apply sumL_ext_in. intros w Hw. rewrite window_strand; [reflexivity|exact He|].
  apply windows_length in Hw. congruence.
Qed.

(* the weight demanded (and, by weights_iupac_window, computed) for the reverse-complemented sequences *)
Definition rcseqs (seqs : list (list N * N)) : list (list N * N) := map (fun sq => (rcseq (fst sq), snd sq)) seqs.

Theorem total_compat_weight_strand : forall K seqs e, (1 <= K)%nat -> digits e -> length e = K ->
  total_compat_weight K (rcseqs seqs) (kval (rcw e)) = total_compat_weight K seqs (kval e).
Proof.
  intros K seqs e HK He Hl. induction seqs as [|[s w] seqs IH]; [reflexivity|].
  cbn [rcseqs map fst snd total_compat_weight]. fold (rcseqs seqs). rewrite IH.
  rewrite compat_occ_strand by assumption. reflexivity.
Qed.

Print Assumptions total_compat_weight_strand.
