(** C19 — round 3, proofs over Model3.v: the k-mer index (KmerMap.Push / NewKmerMap) and KmerMap.Query; 4-mer tables. *)
From Coq Require Import NArith PArith List Bool Lia Permutation.
From OBI.C19 Require Import Model Algo Model3 Proofs.
Import ListNotations.
Open Scope N_scope.

Lemma count_n_perm : forall c l l', Permutation l l' -> count_n c l = count_n c l'.
Proof. intros c l l' P. induction P; cbn [count_n]; lia. Qed.

(** ---------------- Query depends on the MULTISET of the query's canonical k-mers only *)
Lemma query_hits_perm : forall ix k1 k2, Permutation k1 k2 -> Permutation (query_hits ix k1) (query_hits ix k2).
Proof. intros ix k1 k2 P. unfold query_hits. apply Permutation_flat_map. exact P. Qed.

Lemma query_count_perm : forall ix k1 k2 r, Permutation k1 k2 -> query_count ix k1 r = query_count ix k2 r.
Proof. intros ix k1 k2 r P. unfold query_count. rewrite (count_n_perm r _ _ (query_hits_perm ix k1 k2 P)). reflexivity. Qed.

Lemma match_count_perm : forall ix k1 k2 n m, Permutation k1 k2 -> match_count ix k1 n m = match_count ix k2 n m.
Proof.
  intros ix k1 k2 n m P. unfold match_count. f_equal. f_equal. apply filter_ext. intro r.
  rewrite (query_count_perm ix k1 k2 r P). reflexivity.
Qed.

(* a sequence and its reverse complement match the same references with the same counts, whatever the index
   (word width, k, dense / sparse, maxoccurs) *)
Theorem query_strand_invariant : forall wd k0 sparse s a b ix, 0 < eff_k k0 sparse ->
  canon wd k0 sparse s = Some a -> canon wd k0 sparse (rcseq s) = Some b ->
  (forall r, query_count ix b r = query_count ix a r) /\ (forall n m, match_count ix b n m = match_count ix a n m).
Proof.
  intros wd k0 sparse s a b ix K Ha Hb. pose proof (canon_strand_invariant wd k0 sparse s a b K Ha Hb) as P.
  split; [intro r; apply query_count_perm; exact P|intros n m; apply match_count_perm; exact P].
Qed.

(** ---------------- content of the index built without maxoccurs: every occurrence of a key in a reference is recorded *)
Lemma idx_get_set : forall ix key l key', idx_get (idx_set ix key l) key' = if key =? key' then l else idx_get ix key'.
Proof.
  induction ix as [|[y v] ix IH]; intros key l key'; cbn [idx_set idx_get].
  - destruct (key =? key'); reflexivity.
  - destruct (y =? key) eqn:E; cbn [idx_get].
    + apply N.eqb_eq in E. subst y. destruct (key =? key'); reflexivity.
    + rewrite IH. destruct (key =? key') eqn:E'; [|reflexivity].
      apply N.eqb_eq in E'. subst key'. rewrite E. reflexivity.
Qed.

Lemma idx_push_none : forall rid keys ix key r,
  count_n r (idx_get (idx_push None ix rid keys) key) =
  count_n r (idx_get ix key) + (if rid =? r then count_n key keys else 0).
Proof.
  intros rid keys. induction keys as [|k0 keys IH]; intros ix key r; unfold idx_push in *; cbn [fold_left count_n].
  - destruct (rid =? r); lia.
  - rewrite IH. unfold idx_push1. rewrite idx_get_set.
    destruct (k0 =? key) eqn:E.
    + apply N.eqb_eq in E. subst k0. rewrite count_n_app. cbn [count_n]. destruct (rid =? r); lia.
    + destruct (rid =? r); lia.
Qed.

Lemma idx_push_all_none : forall refs ix rid key r,
  count_n r (idx_get (idx_push_all None ix rid refs) key) =
  count_n r (idx_get ix key) + (if (rid <=? r) && (r <? rid + N.of_nat (length refs)) then count_n key (nth (N.to_nat (r - rid)) refs []) else 0).
Proof.
  induction refs as [|ks refs IH]; intros ix rid key r; cbn [idx_push_all length nth].
  - replace (r <? rid + N.of_nat 0) with (r <? rid) by (f_equal; lia).
    destruct (rid <=? r) eqn:A; destruct (r <? rid) eqn:B; cbn [andb]; try lia.
    apply N.leb_le in A. apply N.ltb_lt in B. lia.
  - rewrite IH, idx_push_none.
    destruct (rid =? r) eqn:E.
    + apply N.eqb_eq in E. subst r. replace (rid + 1 <=? rid) with false by (symmetry; apply N.leb_gt; lia). cbn [andb].
      rewrite N.leb_refl. replace (rid <? rid + N.of_nat (S (length refs))) with true by (symmetry; apply N.ltb_lt; lia). cbn [andb].
      rewrite N.sub_diag. cbn [N.to_nat nth]. lia.
    + apply N.eqb_neq in E.
      destruct (rid + 1 <=? r) eqn:A.
      * apply N.leb_le in A. replace (rid <=? r) with true by (symmetry; apply N.leb_le; lia).
        replace (r <? rid + N.of_nat (S (length refs))) with (r <? rid + 1 + N.of_nat (length refs)) by (f_equal; lia).
        cbn [andb]. destruct (r <? rid + 1 + N.of_nat (length refs)); [|lia].
        replace (N.to_nat (r - rid)) with (S (N.to_nat (r - (rid + 1)))) by lia. cbn [nth]. lia.
      * apply N.leb_gt in A. replace (rid <=? r) with false by (symmetry; apply N.leb_gt; lia). cbn [andb]. lia.
Qed.

(* number of (query k-mer, reference k-mer) pairs with the same key *)
Definition pairs (qk rk : list N) : N := fold_right N.add 0 (map (fun key => count_n key rk) qk).

Lemma count_flat_map : forall (f : N -> list N) r l,
  count_n r (flat_map f l) = fold_right N.add 0 (map (fun x => count_n r (f x)) l).
Proof. intros f r l. induction l as [|x l IH]; cbn [flat_map map fold_right count_n]; [reflexivity|]. rewrite count_n_app, IH. reflexivity. Qed.

(* Query on an index built without maxoccurs: a reference is reported iff it shares a canonical k-mer with the query, with
   the count (number of shared pairs) + 1 *)
Theorem query_counts_pairs : forall refs keys r, (r < length refs)%nat ->
  query_count (build_index None refs) keys (N.of_nat r) =
  let c := pairs keys (nth r refs []) in if c =? 0 then None else Some (c + 1).
Proof.
  intros refs keys r Hr. unfold query_count, query_hits, build_index. rewrite count_flat_map.
  assert (E : map (fun x => count_n (N.of_nat r) (idx_get (idx_push_all None [] 0 refs) x)) keys = map (fun key => count_n key (nth r refs [])) keys).
  { apply map_ext. intro key. rewrite idx_push_all_none. cbn [idx_get count_n].
    replace (0 <=? N.of_nat r) with true by (symmetry; apply N.leb_le; lia).
    replace (N.of_nat r <? 0 + N.of_nat (length refs)) with true by (symmetry; apply N.ltb_lt; lia). cbn [andb].
    rewrite N.sub_0_r, Nat2N.id. lia. }
  rewrite E. reflexivity.
Qed.

(** ---------------- 4-mer tables: Common4Mer is symmetric, bounded by both sums, and Common4Mer(t, t) = Sum4Mer(t) *)
Lemma common4_sym : forall t1 t2, common4 t1 t2 = common4 t2 t1.
Proof.
  unfold common4. induction t1 as [|a t1 IH]; intros [|b t2]; cbn [combine map fold_right fst snd]; try reflexivity.
  rewrite IH, N.min_comm. reflexivity.
Qed.

Lemma common4_le_l : forall t1 t2, common4 t1 t2 <= sum4 t1.
Proof.
  unfold common4, sum4. induction t1 as [|a t1 IH]; intros [|b t2]; cbn [combine map fold_right fst snd]; try lia.
  specialize (IH t2). lia.
Qed.

Lemma common4_le_r : forall t1 t2, common4 t1 t2 <= sum4 t2.
Proof. intros t1 t2. rewrite common4_sym. apply common4_le_l. Qed.

Lemma common4_self : forall t, common4 t t = sum4 t.
Proof.
  unfold common4, sum4. induction t as [|a t IH]; cbn [combine map fold_right fst snd]; [reflexivity|].
  rewrite IH, N.min_id. reflexivity.
Qed.
