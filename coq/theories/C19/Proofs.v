(** C19 — specification functions and lemmas about the model of pkg/obikmer (see Props.v for the
    property theorems). *)
From Coq Require Import NArith List Bool Lia Permutation Arith ZArith.
From OBI.C19 Require Import Model.
Import ListNotations.

(** ================= windows of a list ================= *)

Section Windows.
Context {A : Type}.
Fixpoint windows (k : nat) (l : list A) : list (list A) :=
  match l with
  | [] => []
  | a :: t => (if (k <=? length l)%nat then [firstn k l] else []) ++ windows k t
  end.

Lemma windows_short : forall k l, (length l < k)%nat -> windows k l = [].
Proof.
  induction l as [|a l IH]; intros H; [reflexivity|].
  cbn [windows]. destruct (Nat.leb_spec k (length (a :: l))) as [L|L]; [lia|].
  cbn [length] in H. rewrite IH by lia. reflexivity.
Qed.

Lemma windows_snoc : forall k l a, (1 <= k)%nat ->
  windows k (l ++ [a]) =
  windows k l ++ (if (k <=? length l + 1)%nat then [skipn (length l + 1 - k) (l ++ [a])] else []).
Proof.
  intros k l a Hk. induction l as [|b l IH].
  - cbn. destruct k as [|[|k]]; try lia; reflexivity.
  - change ((b :: l) ++ [a]) with (b :: (l ++ [a])).
    cbn [windows]. rewrite IH. cbn [length]. rewrite app_length. cbn [length].
    destruct (Nat.leb_spec k (length l + 1)) as [L1|L1].
    + destruct (Nat.leb_spec k (S (length l + 1))) as [L2|L2]; [|lia].
      destruct (Nat.leb_spec k (S (length l))) as [L3|L3]; [|lia].
      destruct (Nat.leb_spec k (S (length l) + 1)) as [L4|L4]; [|lia].
      rewrite <- app_assoc. f_equal.
      * f_equal. change (b :: l ++ [a]) with ((b :: l) ++ [a]). rewrite firstn_app.
        replace (k - length (b :: l))%nat with 0%nat by (cbn [length]; lia).
        cbn [firstn]. rewrite app_nil_r. reflexivity.
      * f_equal. f_equal. replace (S (length l) + 1 - k)%nat with (S (length l + 1 - k)) by lia. reflexivity.
    + destruct (Nat.leb_spec k (S (length l))) as [L3|L3]; [lia|].
      rewrite (windows_short k l) by lia. cbn [app].
      destruct (Nat.leb_spec k (S (length l + 1))) as [L2|L2].
      * destruct (Nat.leb_spec k (S (length l) + 1)) as [L4|L4]; [|lia].
        replace (S (length l) + 1 - k)%nat with 0%nat by lia. cbn [skipn].
        rewrite firstn_all2; [reflexivity|]. cbn [length]. rewrite app_length. cbn [length]. lia.
      * destruct (Nat.leb_spec k (S (length l) + 1)) as [L4|L4]; [lia|]. reflexivity.
Qed.

Lemma windows_rev : forall k l, (1 <= k)%nat -> windows k (rev l) = rev (map (@rev A) (windows k l)).
Proof.
  intros k l Hk. induction l as [|a l IH]; [reflexivity|].
  cbn [rev]. rewrite windows_snoc by assumption. rewrite IH. rewrite rev_length.
  cbn [windows]. rewrite map_app, rev_app_distr. f_equal. cbn [length].
  replace (length l + 1)%nat with (S (length l)) by lia.
  destruct (Nat.leb_spec k (S (length l))) as [L|L]; [|reflexivity].
  cbn [map rev app]. f_equal.
  change (rev l ++ [a]) with (rev (a :: l)).
  rewrite skipn_rev. cbn [length]. f_equal. f_equal. lia.
Qed.

Lemma windows_length : forall k l w, In w (windows k l) -> length w = k.
Proof.
  induction l as [|a l IH]; intros w H; [destruct H|].
  cbn [windows] in H. apply in_app_or in H. destruct H as [H|H]; [|auto].
  destruct (Nat.leb_spec k (length (a :: l))) as [L|L]; [|destruct H].
  destruct H as [H|[]]. subst w. apply firstn_length_le. exact L.
Qed.
End Windows.

Lemma windows_map : forall {A B} (f : A -> B) k l, windows k (map f l) = map (map f) (windows k l).
Proof.
  induction l as [|a l IH]; [reflexivity|].
  cbn [map windows]. rewrite map_app, IH. f_equal. cbn [length]. rewrite map_length.
  destruct (Nat.leb_spec k (S (length l))); [|reflexivity].
  cbn [map]. f_equal. change (f a :: map f l) with (map f (a :: l)). apply firstn_map.
Qed.


Open Scope N_scope.

(** ================= base-4 values of digit lists; bit operations as arithmetic ================= *)

Definition digits (l : list N) : Prop := Forall (fun c => c < 4) l.

Fixpoint lval (l : list N) : N := match l with [] => 0 | c :: t => c + 4 * lval t end.
Fixpoint kval (w : list N) : N := match w with [] => 0 | c :: t => c * 4 ^ N.of_nat (length t) + kval t end.
(* value of the first K digits (zero padded) of l, first digit most significant *)
Fixpoint bval (K : nat) (l : list N) : N :=
  match K with
  | O => 0
  | S K' => match l with [] => 0 | c :: t => c * 4 ^ N.of_nat K' + bval K' t end
  end.

Lemma pow4_pos : forall n, 0 < 4 ^ n.
Proof. intro n. apply N.neq_0_lt_0. apply N.pow_nonzero. discriminate. Qed.

Lemma pow4_succ : forall K, 4 ^ N.of_nat (S K) = 4 * 4 ^ N.of_nat K.
Proof. intro K. rewrite Nat2N.inj_succ, N.pow_succ_r'. reflexivity. Qed.

Lemma lval_app : forall a b, lval (a ++ b) = lval a + 4 ^ N.of_nat (length a) * lval b.
Proof.
  induction a as [|c a IH]; intro b.
  - cbn. destruct (lval b); reflexivity.
  - cbn [app lval length]. rewrite IH, pow4_succ. lia.
Qed.

Lemma kval_lval_rev : forall w, kval w = lval (rev w).
Proof.
  induction w as [|c w IH]; [reflexivity|].
  cbn [rev kval]. rewrite lval_app, rev_length, IH. cbn [lval]. lia.
Qed.

Lemma lval_bound : forall l, digits l -> lval l < 4 ^ N.of_nat (length l).
Proof.
  induction 1 as [|c l Hc Hl IH]; [cbn; lia|].
  cbn [lval length]. rewrite pow4_succ. lia.
Qed.

Lemma mod4_step : forall c X M, c < 4 -> 0 < M -> (c + 4 * X) mod (4 * M) = c + 4 * (X mod M).
Proof.
  intros c X M Hc HM.
  symmetry. apply N.mod_unique with (q := X / M).
  - assert (X mod M < M) by (apply N.mod_lt; lia). lia.
  - rewrite (N.div_mod X M) at 1 by lia. lia.
Qed.

Lemma lval_firstn : forall j l, digits l -> lval (firstn j l) = lval l mod 4 ^ N.of_nat j.
Proof.
  induction j as [|j IH]; intros l Hl.
  - cbn. rewrite N.mod_1_r. reflexivity.
  - destruct l as [|c l]; [cbn [firstn lval]; rewrite N.mod_0_l; [reflexivity|apply N.pow_nonzero; discriminate]|].
    inversion Hl as [|? ? Hc Hl']; subst.
    cbn [firstn lval]. rewrite IH by assumption. rewrite pow4_succ.
    symmetry. apply mod4_step; [assumption|apply pow4_pos].
Qed.

Lemma bval_bound : forall K l, digits l -> bval K l < 4 ^ N.of_nat K.
Proof.
  induction K as [|K IH]; intros l Hl; [cbn; lia|].
  destruct l as [|c l]; [cbn [bval]; apply pow4_pos|].
  inversion Hl as [|? ? Hc Hl']; subst. cbn [bval]. specialize (IH l Hl').
  rewrite pow4_succ. nia.
Qed.

Lemma bval_div4 : forall K l, digits l -> bval (S K) l / 4 = bval K l.
Proof.
  induction K as [|K IH]; intros l Hl.
  - destruct l as [|c l]; [reflexivity|]. inversion Hl as [|? ? Hc Hl']; subst.
    cbn [bval]. cbn. rewrite N.mul_1_r, N.add_0_r. apply N.div_small. assumption.
  - destruct l as [|c l]; [reflexivity|]. inversion Hl as [|? ? Hc Hl']; subst.
    change (bval (S (S K)) (c :: l)) with (c * 4 ^ N.of_nat (S K) + bval (S K) l).
    rewrite pow4_succ.
    replace (c * (4 * 4 ^ N.of_nat K) + bval (S K) l) with (bval (S K) l + (c * 4 ^ N.of_nat K) * 4) by lia.
    rewrite N.div_add by discriminate. rewrite IH by assumption. cbn [bval]. lia.
Qed.

Lemma bval_kval : forall K l, (K <= length l)%nat -> bval K l = kval (firstn K l).
Proof.
  induction K as [|K IH]; intros l H; [reflexivity|].
  destruct l as [|c l]; [cbn in H; lia|]. cbn [length] in H.
  cbn [bval firstn kval]. rewrite IH by lia. rewrite firstn_length_le by lia. reflexivity.
Qed.

(** bit operations as arithmetic *)
Lemma land_low_high : forall a b n, b < 2 ^ n -> N.land (a * 2 ^ n) b = 0.
Proof.
  intros a b n Hb. apply N.bits_inj. intro m. rewrite N.land_spec, N.bits_0.
  destruct (N.lt_ge_cases m n) as [L|L].
  - rewrite N.mul_pow2_bits_low by assumption. reflexivity.
  - destruct (N.eq_dec b 0) as [->|Hb0]; [rewrite N.bits_0; apply andb_false_r|].
    rewrite (N.bits_above_log2 b m); [apply andb_false_r|].
    apply N.lt_le_trans with n; [|assumption]. apply N.log2_lt_pow2; lia.
Qed.

Lemma lor_disjoint : forall a b n, b < 2 ^ n -> N.lor (a * 2 ^ n) b = a * 2 ^ n + b.
Proof.
  intros a b n Hb. rewrite <- N.lxor_lor by (apply land_low_high; assumption).
  symmetry. apply N.add_nocarry_lxor. apply land_low_high; assumption.
Qed.

Lemma lor_mul4 : forall a c, c < 4 -> N.lor (4 * a) c = 4 * a + c.
Proof. intros a c Hc. rewrite (N.mul_comm 4 a). apply (lor_disjoint a c 2). exact Hc. Qed.

Lemma land_mask : forall x n, N.land x (2 ^ n - 1) = x mod 2 ^ n.
Proof. intros x n. rewrite <- N.land_ones. rewrite N.ones_equiv, N.pred_sub. reflexivity. Qed.

Lemma pow4_2 : forall k, 4 ^ k = 2 ^ (2 * k).
Proof. intro k. rewrite N.pow_mul_r. reflexivity. Qed.

Lemma mod_mod_mul : forall x a b, a <> 0 -> b <> 0 -> (x mod (a * b)) mod a = x mod a.
Proof.
  intros x a b Ha Hb. rewrite N.mod_mul_r by assumption.
  rewrite (N.mul_comm a). rewrite N.mod_add by assumption. apply N.mod_mod. assumption.
Qed.


(** ================= NormalizedKmerSlice: the rolled words are the window's k-mer and its reverse complement ================= *)

Definition ocode (b : N) : option N := match iupac b with [c] => Some c | _ => None end.
Definition comp3 (c : N) : N := 3 - c.

Lemma iupac_single : forall b c, iupac b = [c] -> c < 4 /\ hd 0 (iupac (revcompnuc b)) = 3 - c.
Proof.
  intros b c. unfold iupac at 1.
  repeat match goal with
  | |- context [N.eqb b ?y] =>
    destruct (N.eqb_spec b y) as [->|?]; cbv iota;
    [intro H; first [discriminate H | (inversion H; subst; split; [reflexivity | vm_compute; reflexivity])]|]
  end.
  intro H; discriminate H.
Qed.

Lemma fwd_step : forall wd k cur c X, 1 <= k -> 2 * k <= wd -> c < 4 -> cur = X mod 4 ^ k ->
  N.lor (N.land (shlw wd cur 2) (4 ^ k - 1)) c = (c + 4 * X) mod 4 ^ k.
Proof.
  intros wd k cur c X Hk Hwd Hc Hcur.
  unfold shlw. rewrite N.shiftl_mul_pow2.
  rewrite (pow4_2 k) at 1. rewrite land_mask.
  replace wd with (2 * k + (wd - 2 * k)) at 1 by lia. rewrite N.pow_add_r.
  rewrite mod_mod_mul by (apply N.pow_nonzero; discriminate).
  rewrite <- pow4_2.
  replace k with (N.succ (k - 1)) by lia. rewrite N.pow_succ_r'.
  set (M := 4 ^ (k - 1)). assert (HM : 0 < M) by apply pow4_pos.
  change (2 ^ 2) with 4. rewrite (N.mul_comm cur 4).
  rewrite N.mul_mod_distr_l by lia.
  rewrite lor_mul4 by assumption. rewrite mod4_step by assumption.
  subst cur. replace (N.succ (k - 1)) with k by lia.
  replace (4 ^ k) with (M * 4).
  2:{ unfold M. replace k with (N.succ (k - 1)) at 2 by lia. rewrite N.pow_succ_r'. lia. }
  rewrite mod_mod_mul by lia. lia.
Qed.

Lemma rev_step : forall wd K' ccur c' l, digits l -> c' < 4 -> 2 * N.of_nat (S K') <= wd ->
  ccur = bval (S K') l ->
  N.lor (N.shiftr ccur 2) (shlw wd c' (2 * (N.of_nat (S K') - 1))) = bval (S K') (c' :: l).
Proof.
  intros wd K' ccur c' l Hl Hc Hwd ->.
  rewrite N.shiftr_div_pow2. change (2 ^ 2) with 4. rewrite bval_div4 by assumption.
  unfold shlw. rewrite N.shiftl_mul_pow2.
  replace (N.of_nat (S K') - 1) with (N.of_nat K') by lia.
  rewrite <- pow4_2.
  assert (HB : bval K' l < 4 ^ N.of_nat K') by (apply bval_bound; assumption).
  rewrite N.mod_small.
  2:{ apply N.lt_le_trans with (4 ^ N.of_nat (S K')).
      - rewrite pow4_succ. assert (0 < 4 ^ N.of_nat K') by apply pow4_pos. nia.
      - rewrite pow4_2. apply N.pow_le_mono_r; [discriminate|assumption]. }
  rewrite N.lor_comm. rewrite pow4_2. rewrite lor_disjoint by (rewrite <- pow4_2; assumption).
  cbn [bval]. rewrite <- pow4_2. reflexivity.
Qed.

Fixpoint spec_loop (km : kmap) (K : nat) (rp : list N) (t : list N) : list N :=
  match t with
  | [] => []
  | b :: t' =>
    match ocode b with
    | Some c =>
      let rp' := c :: rp in
      (if (K <=? length rp')%nat
       then [normk km (kval (rev (firstn K rp'))) (kval (map comp3 (firstn K rp')))] else [])
      ++ spec_loop km K rp' t'
    | None => spec_loop km K [] t'
    end
  end.

Lemma digits_comp3 : forall l, digits l -> digits (map comp3 l).
Proof. induction 1; constructor; [unfold comp3; lia|assumption]. Qed.

Lemma nks_loop_spec : forall km K, km_k km = N.of_nat (S K) -> 2 * km_k km <= km_wd km ->
  km_mask km = 4 ^ km_k km - 1 ->
  forall t rp cur ccur size, digits rp ->
    cur = lval rp mod 4 ^ km_k km -> ccur = bval (S K) (map comp3 rp) ->
    size = N.of_nat (Nat.min (length rp) K) ->
    nks_loop true km t cur ccur size = spec_loop km (S K) rp t.
Proof.
  intros km K Hk Hwd Hmask. induction t as [|b t IH]; intros rp cur ccur size Hrp Hcur Hccur Hsize; [reflexivity|].
  cbn [nks_loop spec_loop]. unfold ocode.
  destruct (iupac b) as [|c [|c2 rest]] eqn:E.
  - apply IH; [apply Forall_nil|cbn [lval]; symmetry; apply N.mod_0_l; apply N.pow_nonzero; discriminate|reflexivity|reflexivity].
  - destruct (iupac_single b c E) as [Hc Hcc]. rewrite Hcc.
    rewrite Hmask.
    rewrite (fwd_step (km_wd km) (km_k km) cur c (lval rp)); [|lia|assumption|assumption|assumption].
    assert (Hrev : N.lor (N.shiftr ccur 2) (shlw (km_wd km) (3 - c) (2 * (N.of_nat (S K) - 1))) = bval (S K) ((3 - c) :: map comp3 rp)).
    { apply rev_step; [apply digits_comp3; assumption|lia|rewrite <- Hk; assumption|assumption]. }
    rewrite <- Hk in Hrev. rewrite Hrev.
    assert (Hrp' : digits (c :: rp)) by (constructor; assumption).
    cbn [length].
    destruct (N.eqb_spec (size + 1) (km_k km)) as [Es|Es].
    + destruct (Nat.leb_spec (S K) (S (length rp))) as [L|L]; [|lia].
      cbn [app]. f_equal.
      * f_equal.
        -- rewrite kval_lval_rev, rev_involutive, lval_firstn by assumption. rewrite <- Hk. reflexivity.
        -- change (bval (S K) ((3 - c) :: map comp3 rp)) with (bval (S K) (map comp3 (c :: rp))).
           rewrite bval_kval by (rewrite map_length; cbn [length]; lia). rewrite firstn_map. reflexivity.
      * apply IH; [assumption|reflexivity|reflexivity|]. cbn [length]. lia.
    + destruct (Nat.leb_spec (S K) (S (length rp))) as [L|L]; [lia|].
      cbn [app]. apply IH; [assumption|reflexivity|reflexivity|]. cbn [length]. lia.
  - apply IH; [apply Forall_nil|cbn [lval]; symmetry; apply N.mod_0_l; apply N.pow_nonzero; discriminate|reflexivity|reflexivity].
Qed.


(** ================= specification of the canonical k-mers over windows ================= *)

Fixpoint all_some {A} (l : list (option A)) : option (list A) :=
  match l with
  | [] => Some []
  | Some x :: t => option_map (cons x) (all_some t)
  | None :: _ => None
  end.

Definition rcw (w : list N) : list N := map comp3 (rev w).
(* canonical form of a window of codes (sequence order): the smaller of the k-mer and its reverse complement *)
Definition canon_km (km : kmap) (w : list N) : N := normk km (kval w) (kval (rcw w)).
Definition canon_win (km : kmap) (w : list N) : list N :=
  match all_some (map ocode w) with Some cs => [canon_km km cs] | None => [] end.
Definition canon_spec (km : kmap) (K : nat) (s : list N) : list N := flat_map (canon_win km) (windows K s).

Lemma all_some_app : forall {A} (a b : list (option A)),
  all_some (a ++ b) = match all_some a, all_some b with Some x, Some y => Some (x ++ y) | _, _ => None end.
Proof.
  induction a as [|[x|] a IH]; intro b; cbn [app all_some].
  - destruct (all_some b); reflexivity.
  - rewrite IH. destruct (all_some a), (all_some b); reflexivity.
  - reflexivity.
Qed.

Lemma all_some_rev : forall {A} (l : list (option A)), all_some (rev l) = option_map (@rev A) (all_some l).
Proof.
  induction l as [|[x|] l IH]; cbn [rev]; [reflexivity| |].
  - rewrite all_some_app, IH. cbn [all_some]. destruct (all_some l); reflexivity.
  - rewrite all_some_app. cbn [all_some]. destruct (all_some (rev l)); reflexivity.
Qed.

Lemma all_some_map : forall {A B} (f : A -> B) (l : list (option A)),
  all_some (map (option_map f) l) = option_map (map f) (all_some l).
Proof.
  induction l as [|[x|] l IH]; cbn [map all_some option_map]; [reflexivity| |reflexivity].
  rewrite IH. destruct (all_some l); reflexivity.
Qed.

Lemma ocode_digit : forall b c, ocode b = Some c -> c < 4.
Proof.
  intros b c. unfold ocode. destruct (iupac b) as [|c1 [|c2 r]] eqn:E; try discriminate.
  intro H; inversion H; subst. apply (iupac_single b c E).
Qed.

Lemma all_some_digits : forall w cs, all_some (map ocode w) = Some cs -> digits cs.
Proof.
  induction w as [|b w IH]; intros cs H; cbn [map all_some] in H.
  - inversion H. apply Forall_nil.
  - destruct (ocode b) as [c|] eqn:E; [|discriminate].
    destruct (all_some (map ocode w)) as [cs'|]; [|discriminate]. inversion H; subst.
    constructor; [eapply ocode_digit; eassumption|apply IH; reflexivity].
Qed.

Lemma ocode_revcomp : forall b, ocode (revcompnuc b) = option_map comp3 (ocode b).
Proof.
  intro b. unfold ocode, revcompnuc, iupac.
  repeat match goal with
  | |- context [N.eqb b ?y] => destruct (N.eqb_spec b y) as [->|?]; [vm_compute; reflexivity|]
  end.
  vm_compute; reflexivity.
Qed.

(** the maximal unambiguous run at the head of a reversed prefix of bytes *)
Fixpoint run (rpb : list N) : list N :=
  match rpb with
  | [] => []
  | b :: r => match ocode b with Some c => c :: run r | None => [] end
  end.

Lemma run_length : forall r, (length (run r) <= length r)%nat.
Proof. induction r as [|b r IH]; cbn [run length]; [lia|]. destruct (ocode b); cbn [length]; lia. Qed.

Lemma run_digits : forall r, digits (run r).
Proof.
  induction r as [|b r IH]; cbn [run]; [apply Forall_nil|].
  destruct (ocode b) eqn:E; [|apply Forall_nil]. constructor; [eapply ocode_digit; eassumption|assumption].
Qed.

Lemma all_some_run_ge : forall K r, (K <= length (run r))%nat ->
  all_some (map ocode (firstn K r)) = Some (firstn K (run r)).
Proof.
  induction K as [|K IH]; intros r H; [reflexivity|].
  destruct r as [|b r]; [cbn in H; lia|]. cbn [run] in *.
  destruct (ocode b) as [c|] eqn:E; [|cbn in H; lia].
  cbn [length] in H. cbn [firstn map all_some]. rewrite E. rewrite IH by lia. reflexivity.
Qed.

Lemma all_some_run_lt : forall K r, (length (run r) < K)%nat -> (K <= length r)%nat ->
  all_some (map ocode (firstn K r)) = None.
Proof.
  induction K as [|K IH]; intros r H1 H2; [lia|].
  destruct r as [|b r]; [cbn in H2; lia|]. cbn [run] in H1. cbn [length] in H2.
  cbn [firstn map all_some]. destruct (ocode b) as [c|] eqn:E; [|reflexivity].
  cbn [length] in H1. rewrite IH by lia. reflexivity.
Qed.

(** windows ending inside [t], given the reversed prefix [rpb] already read *)
Fixpoint wends {A} (K : nat) (rpb t : list A) : list (list A) :=
  match t with
  | [] => []
  | b :: t' => (if (K <=? length rpb + 1)%nat then [rev (firstn K (b :: rpb))] else []) ++ wends K (b :: rpb) t'
  end.

Lemma windows_wends : forall {A} K (t rpb : list A), (1 <= K)%nat ->
  windows K (rev rpb ++ t) = windows K (rev rpb) ++ wends K rpb t.
Proof.
  intros A K t. induction t as [|b t IH]; intros rpb HK.
  - rewrite app_nil_r. cbn [wends]. rewrite app_nil_r. reflexivity.
  - change (rev rpb ++ b :: t) with (rev rpb ++ [b] ++ t). rewrite app_assoc.
    change (rev rpb ++ [b]) with (rev (b :: rpb)). rewrite IH by assumption.
    cbn [rev]. rewrite windows_snoc by assumption. rewrite rev_length. cbn [wends].
    rewrite <- !app_assoc. f_equal. f_equal.
    destruct (Nat.leb_spec K (length rpb + 1)) as [L|L]; [|reflexivity].
    f_equal. change (rev rpb ++ [b]) with (rev (b :: rpb)). rewrite skipn_rev. cbn [length].
    f_equal. f_equal. lia.
Qed.

Lemma spec_loop_wends : forall km K t rpb, (1 <= K)%nat ->
  spec_loop km K (run rpb) t = flat_map (canon_win km) (wends K rpb t).
Proof.
  intros km K t. induction t as [|b t IH]; intros rpb HK; [reflexivity|].
  cbn [spec_loop wends]. rewrite flat_map_app.
  specialize (IH (b :: rpb) HK). cbn [run] in IH.
  destruct (ocode b) as [c|] eqn:E.
  - rewrite IH. f_equal. cbn [length].
    replace (length rpb + 1)%nat with (S (length rpb)) by lia.
    destruct (Nat.leb_spec K (S (length (run rpb)))) as [L|L].
    + assert (L2 : (K <= S (length rpb))%nat) by (pose proof (run_length rpb); lia).
      destruct (Nat.leb_spec K (S (length rpb))) as [_|?]; [|lia].
      cbn [flat_map]. rewrite app_nil_r. unfold canon_win.
      rewrite map_rev, all_some_rev.
      assert (R : run (b :: rpb) = c :: run rpb) by (cbn [run]; rewrite E; reflexivity).
      rewrite (all_some_run_ge K (b :: rpb)) by (rewrite R; cbn [length]; lia).
      rewrite R. cbn [option_map]. unfold canon_km, rcw. rewrite rev_involutive. reflexivity.
    + destruct (Nat.leb_spec K (S (length rpb))) as [L2|L2]; [|reflexivity].
      cbn [flat_map]. rewrite app_nil_r. unfold canon_win.
      rewrite map_rev, all_some_rev.
      assert (R : run (b :: rpb) = c :: run rpb) by (cbn [run]; rewrite E; reflexivity).
      rewrite (all_some_run_lt K (b :: rpb)) by (try rewrite R; cbn [length]; lia). reflexivity.
  - rewrite IH. 
    destruct (Nat.leb_spec K (length rpb + 1)) as [L|L]; [|reflexivity].
    cbn [flat_map]. rewrite app_nil_r. unfold canon_win. rewrite map_rev, all_some_rev.
    assert (R : run (b :: rpb) = []) by (cbn [run]; rewrite E; reflexivity).
    rewrite (all_some_run_lt K (b :: rpb)) by (try rewrite R; cbn [length]; lia). reflexivity.
Qed.

Lemma spec_loop_windows : forall km K s, (1 <= K)%nat -> spec_loop km K [] s = canon_spec km K s.
Proof.
  intros km K s HK. unfold canon_spec.
  change s with (rev [] ++ s) at 2. rewrite (windows_wends K s [] HK). cbn [rev windows app].
  apply (spec_loop_wends km K s [] HK).
Qed.


(** ================= NewKmerMap facts and the main theorems ================= *)

Lemma pow2_mod_ge : forall n wd, wd <= n -> 2 ^ n mod 2 ^ wd = 0.
Proof.
  intros n wd H. replace n with ((n - wd) + wd) by lia. rewrite N.pow_add_r.
  apply N.mod_mul. apply N.pow_nonzero. discriminate.
Qed.

Lemma kmask_value : forall wd k, 0 < k -> 2 * k <= wd -> kmask wd k = Some (4 ^ k - 1).
Proof.
  intros wd k Hk Hwd. unfold kmask. destruct (N.ltb_spec 0 k) as [_|?]; [|lia].
  assert (P1 : 2 ^ (2 * k - 1) < 2 ^ wd) by (apply N.pow_lt_mono_r; lia).
  assert (E1 : shlw wd 1 (2 * k - 1) = 2 ^ (2 * k - 1)).
  { unfold shlw. rewrite N.shiftl_mul_pow2, N.mul_1_l. apply N.mod_small. assumption. }
  rewrite E1.
  assert (P0 : 0 < 2 ^ (2 * k - 1)) by (apply N.neq_0_lt_0, N.pow_nonzero; discriminate).
  unfold subw. destruct (N.leb_spec 1 (2 ^ (2 * k - 1))) as [_|?]; [|lia].
  f_equal. unfold shlw. rewrite N.shiftl_mul_pow2.
  assert (E : 2 ^ (2 * k) = 2 * 2 ^ (2 * k - 1)).
  { replace (2 * k) with (N.succ (2 * k - 1)) at 1 by lia. apply N.pow_succ_r'. }
  assert (P2 : 2 ^ (2 * k) <= 2 ^ wd) by (apply N.pow_le_mono_r; [discriminate|assumption]).
  rewrite N.mod_small by (change (2 ^ 1) with 2; lia).
  rewrite (lor_disjoint (2 ^ (2 * k - 1) - 1) 1 1) by reflexivity.
  rewrite pow4_2. change (2 ^ 1) with 2. lia.
Qed.

Lemma kmask_fails : forall wd k, wd < 2 * k -> kmask wd k = None.
Proof.
  intros wd k H. unfold kmask. destruct (N.ltb_spec 0 k) as [_|?]; [|lia].
  assert (E1 : shlw wd 1 (2 * k - 1) = 0).
  { unfold shlw. rewrite N.shiftl_mul_pow2, N.mul_1_l. apply pow2_mod_ge. lia. }
  rewrite E1. reflexivity.
Qed.

Lemma new_kmap_facts : forall wd k0 sparse km, new_kmap wd k0 sparse = Some km ->
  km_wd km = wd /\ km_k km = eff_k k0 sparse /\ km_sparse km = sparse /\
  (0 < km_k km -> 2 * km_k km <= wd /\ km_mask km = 4 ^ km_k km - 1).
Proof.
  intros wd k0 sparse km. unfold new_kmap, new_kmap_with.
  set (k := eff_k k0 sparse).
  destruct (kmask wd k) as [mask|] eqn:EM; [|discriminate].
  assert (HM : 0 < k -> 2 * k <= wd /\ mask = 4 ^ k - 1).
  { intro Hk. destruct (N.le_gt_cases (2 * k) wd) as [L|L].
    - split; [assumption|]. rewrite kmask_value in EM by assumption. inversion EM. reflexivity.
    - rewrite kmask_fails in EM by assumption. discriminate. }
  destruct sparse.
  - destruct (subw _ _); [|discriminate]. destruct (subw _ _); [|discriminate].
    intro H; inversion H; subst; cbn. auto.
  - intro H; inversion H; subst; cbn. auto.
Qed.

(** the repaired rolling computation returns, for every window of k unambiguous bases, the smaller
    of the k-mer and its reverse complement (after make_sparse), in sequence order *)
Lemma normalized_slice_spec : forall wd k0 sparse km s,
  new_kmap wd k0 sparse = Some km -> 0 < km_k km ->
  normalized_slice true km s = canon_spec km (N.to_nat (km_k km)) s.
Proof.
  intros wd k0 sparse km s Hnew Hk.
  destruct (new_kmap_facts _ _ _ _ Hnew) as (Hwd & _ & _ & HM). destruct (HM Hk) as [H2k Hmask].
  unfold normalized_slice.
  destruct (N.ltb_spec (N.of_nat (length s)) (km_k km)) as [L|L].
  - unfold canon_spec. rewrite windows_short by lia. reflexivity.
  - destruct (N.to_nat (km_k km)) as [|K] eqn:EK; [lia|].
    rewrite (nks_loop_spec km K) with (rp := []);
      [|lia|rewrite Hwd; assumption|assumption|apply Forall_nil
       |cbn [lval]; symmetry; apply N.mod_0_l, N.pow_nonzero; discriminate|reflexivity|reflexivity].
    apply spec_loop_windows. lia.
Qed.

(** strand invariance *)
Lemma rcw_involutive : forall w, digits w -> rcw (rcw w) = w.
Proof.
  intros w H. unfold rcw. rewrite <- map_rev, rev_involutive, map_map.
  induction H as [|c w Hc Hw IH]; [reflexivity|]. cbn [map]. rewrite IH. f_equal. unfold comp3. lia.
Qed.

Lemma normk_comm : forall km a b, normk km a b = normk km b a.
Proof.
  intros km a b. unfold normk.
  destruct (N.ltb_spec (make_sparse km a) (make_sparse km b)), (N.ltb_spec (make_sparse km b) (make_sparse km a)); lia.
Qed.

Lemma canon_km_rc : forall km w, digits w -> canon_km km (rcw w) = canon_km km w.
Proof. intros km w H. unfold canon_km. rewrite rcw_involutive by assumption. apply normk_comm. Qed.

Lemma canon_win_rc : forall km w, canon_win km (map revcompnuc (rev w)) = canon_win km w.
Proof.
  intros km w. unfold canon_win.
  rewrite map_map. rewrite (map_ext _ _ ocode_revcomp). rewrite <- map_map.
  rewrite all_some_map. rewrite map_rev, all_some_rev.
  destruct (all_some (map ocode w)) as [cs|] eqn:E; [|reflexivity].
  cbn [option_map]. f_equal. apply (canon_km_rc km cs). eapply all_some_digits; eassumption.
Qed.

Lemma flat_map_map : forall {A B C} (g : B -> list C) (h : A -> B) l, flat_map g (map h l) = flat_map (fun x => g (h x)) l.
Proof. induction l as [|a l IH]; [reflexivity|]. cbn [map flat_map]. rewrite IH. reflexivity. Qed.

Lemma canon_spec_strand : forall km K s, (1 <= K)%nat ->
  Permutation (canon_spec km K (rcseq s)) (canon_spec km K s).
Proof.
  intros km K s HK. unfold canon_spec, rcseq.
  rewrite windows_map, windows_rev by assumption.
  rewrite flat_map_map. rewrite <- map_rev. rewrite flat_map_map.
  rewrite (flat_map_ext _ (canon_win km)).
  2:{ intro w. apply canon_win_rc. }
  apply Permutation_flat_map. apply Permutation_sym, Permutation_rev.
Qed.

Lemma canon_strand_invariant : forall wd k0 sparse s a b, 0 < eff_k k0 sparse ->
  canon wd k0 sparse s = Some a -> canon wd k0 sparse (rcseq s) = Some b -> Permutation b a.
Proof.
  intros wd k0 sparse s a b Hk Ha Hb. unfold canon in *.
  destruct (new_kmap wd k0 sparse) as [km|] eqn:E; [|discriminate].
  destruct (new_kmap_facts _ _ _ _ E) as (_ & Hkk & _ & _).
  inversion Ha; inversion Hb; subst.
  rewrite !(normalized_slice_spec wd k0 sparse km) by (try assumption; rewrite Hkk; assumption).
  apply canon_spec_strand. lia.
Qed.

(* dense mode: the canonical k-mer is literally min (k-mer, reverse-complement k-mer) *)
Lemma canon_km_dense : forall km w, km_sparse km = false -> canon_km km w = N.min (kval w) (kval (rcw w)).
Proof.
  intros km w H. unfold canon_km, normk, make_sparse. rewrite H.
  destruct (N.ltb_spec (kval w) (kval (rcw w))); [rewrite N.min_l|rewrite N.min_r]; lia.
Qed.

(* the index can be built exactly when the k-mer fits the word *)
Lemma new_kmap_dense_ok : forall wd k0, 0 < eff_k k0 false -> 2 * eff_k k0 false <= wd ->
  exists km, new_kmap wd k0 false = Some km.
Proof.
  intros wd k0 H1 H2. unfold new_kmap, new_kmap_with. rewrite kmask_value by assumption. eexists; reflexivity.
Qed.



(** ================= 4-mer tables ================= *)
Definition code4 (w : list N) : N := kval (map base4 w).

Lemma base4_lt : forall b, base4 b < 4.
Proof.
  intro b. unfold base4.
  repeat match goal with |- context [if ?c then _ else _] => destruct c end; reflexivity.
Qed.

Lemma digits_base4 : forall l, digits (map base4 l).
Proof. induction l; [apply Forall_nil|constructor; [apply base4_lt|assumption]]. Qed.

Lemma windows_count : forall {A} k (l : list A), (1 <= k)%nat -> length (windows k l) = (length l + 1 - k)%nat.
Proof.
  intros A k l Hk. induction l as [|a l IH]; [cbn [windows length]; lia|].
  cbn [windows]. rewrite app_length, IH. cbn [length].
  destruct (Nat.leb_spec k (S (length l))); cbn [length]; lia.
Qed.

Lemma enc4_roll_spec : forall t rpb code, (3 <= length rpb)%nat ->
  code = lval (map base4 rpb) mod 256 ->
  enc4_roll t code = map code4 (wends 4 rpb t).
Proof.
  induction t as [|b t IH]; intros rpb code Hlen Hcode; [reflexivity|].
  cbn [enc4_roll wends].
  destruct (Nat.leb_spec 4 (length rpb + 1)) as [_|?]; [|lia].
  cbn [app map].
  assert (E : N.lor (code * 4 mod 256) (base4 b) = lval (map base4 (b :: rpb)) mod 256).
  { pose proof (base4_lt b) as Hb. cbn [map lval]. subst code.
    set (X := lval (map base4 rpb)).
    change 256 with (4 * 64). rewrite (N.mul_comm (X mod (4 * 64)) 4).
    rewrite N.mul_mod_distr_l by lia. rewrite lor_mul4 by assumption.
    rewrite mod4_step by lia. change (4 * 64) with (64 * 4). rewrite mod_mod_mul by lia. lia. }
  rewrite E. f_equal.
  - unfold code4. rewrite map_rev, kval_lval_rev, rev_involutive.
    rewrite <- firstn_map. rewrite lval_firstn by apply digits_base4. reflexivity.
  - apply IH; [cbn [length]; lia|reflexivity].
Qed.


Lemma encode4_spec : forall s, encode4 true s = Some (map code4 (windows 4 s)).
Proof.
  intro s. destruct s as [|b0 [|b1 [|b2 [|b3 t]]]]; try reflexivity.
  unfold encode4.
  change (b0 :: b1 :: b2 :: b3 :: t) with (rev [b3; b2; b1; b0] ++ t).
  rewrite windows_wends by lia.
  pose proof (base4_lt b0) as H0. pose proof (base4_lt b1) as H1.
  pose proof (base4_lt b2) as H2. pose proof (base4_lt b3) as H3.
  cbv zeta.
  match goal with |- Some (?x :: _) = _ => set (c := x) end.
  assert (Ec : c = base4 b3 + 4 * (base4 b2 + 4 * (base4 b1 + 4 * (base4 b0 + 4 * 0)))).
  { subst c. generalize dependent (base4 b0). generalize dependent (base4 b1).
    generalize dependent (base4 b2). generalize dependent (base4 b3). intros.
    repeat match goal with |- context [?x mod 256] => rewrite (N.mod_small x 256) by lia end. lia. }
  f_equal. cbn [rev app windows length Nat.leb firstn map].
  f_equal.
  - rewrite Ec. unfold code4. cbn [map kval length]. cbn [N.of_nat Pos.of_succ_nat Pos.succ]. lia.
  - apply enc4_roll_spec; [cbn; lia|]. rewrite Ec. cbn [map lval].
    symmetry. apply N.mod_small. lia.
Qed.

Lemma count_n_le : forall c l, count_n c l <= N.of_nat (length l).
Proof.
  induction l as [|x l IH]; [cbn; lia|]. cbn [count_n length]. destruct (x =? c); lia.
Qed.

Lemma count4_wrap : forall s c, count4 s c = Some (count_n c (map code4 (windows 4 s)) mod 65536).
Proof. intros s c. unfold count4. rewrite encode4_spec. reflexivity. Qed.

Lemma count4_exact : forall s c, N.of_nat (length s) < 65539 ->
  count4 s c = Some (count_n c (map code4 (windows 4 s))).
Proof.
  intros s c H. rewrite count4_wrap. f_equal. apply N.mod_small.
  pose proof (count_n_le c (map code4 (windows 4 s))) as L.
  rewrite map_length, windows_count in L by lia. lia.
Qed.


(** ================= De Bruijn graph: weights ================= *)
(** ---------------- the weight map *)
Lemma weight_notmem : forall g x, mem g x = false -> weight g x = 0.
Proof.
  induction g as [|[y v] g IH]; intros x H; [reflexivity|].
  cbn [mem weight] in *. destruct (y =? x); [discriminate|]. apply IH. exact H.
Qed.

Lemma weight_upd : forall g x w y, mem g x = true ->
  weight (upd_w x w g) y = weight g y + (if x =? y then w else 0).
Proof.
  induction g as [|[z v] g IH]; intros x w y H; [discriminate|].
  cbn [mem] in H. cbn [upd_w]. destruct (N.eqb_spec z x) as [->|Hzx].
  - cbn [weight]. destruct (N.eqb_spec x y); lia.
  - cbn [weight]. destruct (N.eqb_spec z y) as [->|Hzy].
    + destruct (N.eqb_spec x y); [congruence|lia].
    + apply IH. exact H.
Qed.

Lemma weight_ins : forall g x w y, mem g x = false ->
  weight (ins_w x w g) y = weight g y + (if x =? y then w else 0).
Proof.
  induction g as [|[z v] g IH]; intros x w y H.
  - cbn. destruct (x =? y); reflexivity.
  - cbn [mem] in H. destruct (N.eqb_spec z x) as [|Hzx]; [discriminate|]. cbn [orb] in H.
    cbn [ins_w]. destruct (x <? z).
    + cbn [weight]. destruct (N.eqb_spec x y) as [->|Hxy].
      * destruct (N.eqb_spec z y); [congruence|]. rewrite weight_notmem by assumption. lia.
      * lia.
    + cbn [weight]. destruct (N.eqb_spec z y) as [->|Hzy].
      * destruct (N.eqb_spec x y); [congruence|lia].
      * apply IH. exact H.
Qed.

Lemma weight_add : forall g x w y, weight (add_w x w g) y = weight g y + (if x =? y then w else 0).
Proof.
  intros g x w y. unfold add_w. destruct (mem g x) eqn:E; [apply weight_upd|apply weight_ins]; exact E.
Qed.

Lemma count_n_app : forall c a b, count_n c (a ++ b) = count_n c a + count_n c b.
Proof. induction a as [|x a IH]; intro b; [reflexivity|]. cbn [app count_n]. rewrite IH. lia. Qed.

(** ---------------- word operations of debruijn.go as arithmetic (k <= 31) *)
Lemma shl64_2 : forall x, shl64 x 2 = shlw 64 x 2.
Proof. reflexivity. Qed.

Lemma dbg_mask_value : forall k, 2 * k < 64 -> dbg_mask k = 4 ^ k - 1.
Proof.
  intros k Hk. unfold dbg_mask, shl64. destruct (N.ltb_spec (2 * k) 64) as [_|?]; [|lia].
  rewrite N.shiftl_mul_pow2. rewrite <- pow4_2.
  assert (HP : 0 < 4 ^ k) by apply pow4_pos.
  assert (HP2 : 4 ^ k < W64).
  { rewrite pow4_2. unfold W64. apply N.pow_lt_mono_r; lia. }
  assert (E : ((W64 - 1) * 4 ^ k) mod W64 = W64 - 4 ^ k).
  { symmetry. apply N.mod_unique with (q := 4 ^ k - 1); [lia|].
    generalize dependent (4 ^ k). intros P HP HP2. unfold W64 in *.
    change (2 ^ 64) with 18446744073709551616 in *. lia. }
  rewrite E. unfold not64. rewrite N.mod_small by lia. lia.
Qed.

Lemma clear2_mul4 : forall y, y < 2 ^ 62 -> clear2 (4 * y) = 4 * y.
Proof.
  intros y Hy. unfold clear2.
  change (not64 3) with (N.shiftl (2 ^ 62 - 1) 2).
  rewrite (N.mul_comm 4 y). change 4 with (2 ^ 2). rewrite <- N.shiftl_mul_pow2.
  rewrite <- N.shiftl_land. rewrite land_mask. rewrite N.mod_small by assumption. reflexivity.
Qed.

(** ---------------- Push on an unambiguous sequence *)
Definition kmers (K : nat) (cs : list N) : list N := map kval (windows K cs).

Lemma ocode_iupac : forall b c, ocode b = Some c -> iupac b = [c].
Proof.
  intros b c. unfold ocode. destruct (iupac b) as [|c1 [|c2 r]]; try discriminate.
  intro H; inversion H; reflexivity.
Qed.

Lemma all_some_cons_inv : forall b t cs, all_some (map ocode (b :: t)) = Some cs ->
  exists c ct, cs = c :: ct /\ ocode b = Some c /\ all_some (map ocode t) = Some ct.
Proof.
  intros b t cs H. cbn [map all_some] in H. destruct (ocode b) as [c|]; [|discriminate].
  destruct (all_some (map ocode t)) as [ct|]; [|discriminate]. inversion H. eauto.
Qed.

(* the loop of initFirstKmer over the codes of one base (repaired code: the limit is carried along) *)
Section EachLim.
Variable f : nat -> N -> graph -> option graph.
Variable start : nat.
Fixpoint each_lim (first : bool) (cs : list N) (key : N) (lim : nat) (g : graph) : option graph :=
  match cs with
  | [] => Some g
  | c :: cs' =>
    let key' := N.lor (clear2 key) c in
    let lim' := if first then lim else if Nat.ltb start lim then start else lim in
    match f lim' key' g with
    | None => None
    | Some g' => each_lim false cs' key' lim' g'
    end
  end.
End EachLim.

Lemma dbg_first_S : forall w n start K1 mask lim b t key g,
  dbg_first (S n) start K1 mask w lim (b :: t) key g =
  each_lim (fun lim' key' g' => dbg_first n (S start) K1 mask w lim' t key' g') start true (iupac b) (shl64 key 2) lim g.
Proof. reflexivity. Qed.

Lemma append_spec : forall k K w, K = N.to_nat k -> 1 <= k -> 2 * k < 64 ->
  forall K1 t lim ct rp cur g, all_some (map ocode t) = Some ct -> digits rp -> (K <= length rp + 1)%nat ->
    cur = lval rp mod 4 ^ k -> (length t <= lim)%nat ->
    exists g', dbg_append K1 (dbg_mask k) w lim t cur g = Some g' /\
      forall x, weight g' x = weight g x + w * count_n x (map kval (wends K rp ct)).
Proof.
  intros k K w HK Hk1 Hk2 K1. induction t as [|b t IH]; intros lim ct rp cur g Hct Hrp Hlen Hcur Hlim.
  - inversion Hct; subst. exists g. split; [reflexivity|]. intro x. cbn. lia.
  - destruct (all_some_cons_inv _ _ _ Hct) as (c & ct' & -> & Hb & Hct').
    destruct lim as [|l]; [cbn [length] in Hlim; lia|].
    cbn [dbg_append]. rewrite (ocode_iupac b c Hb).
    assert (Hc : c < 4) by (eapply ocode_digit; eassumption).
    rewrite dbg_mask_value by assumption. rewrite shl64_2.
    rewrite (fwd_step 64 k cur c (lval rp)); [|lia|lia|assumption|assumption].
    change (c + 4 * lval rp) with (lval (c :: rp)).
    assert (Hrp' : digits (c :: rp)) by (constructor; assumption).
    destruct (IH l ct' (c :: rp) (lval (c :: rp) mod 4 ^ k) (add_w (lval (c :: rp) mod 4 ^ k) w g) Hct' Hrp')
      as (g' & Hg' & Hw'); [cbn [length]; lia|reflexivity|cbn [length] in Hlim; lia|].
    rewrite <- dbg_mask_value by assumption. rewrite Hg'. exists g'. split; [reflexivity|].
    intro x. rewrite Hw', weight_add. cbn [wends].
    destruct (Nat.leb_spec K (length rp + 1)) as [_|?]; [|lia].
    cbn [app map count_n].
    rewrite kval_lval_rev, rev_involutive, lval_firstn by assumption.
    replace (N.of_nat K) with k by lia.
    rewrite (N.eqb_sym (lval (c :: rp) mod 4 ^ k) x). destruct (_ =? _); lia.
Qed.

Lemma windows_exact : forall {A} K (l : list A), length l = K -> (1 <= K)%nat -> windows K l = [l].
Proof.
  intros A K l H HK. destruct l as [|a l]; [cbn in H; lia|].
  cbn [windows]. destruct (Nat.leb_spec K (length (a :: l))) as [_|?]; [|lia].
  rewrite firstn_all2 by lia. rewrite windows_short by (cbn [length] in H; lia). reflexivity.
Qed.

Lemma first_spec : forall k K w, K = N.to_nat k -> 1 <= k -> 2 * k < 64 ->
  forall K1 n start lim s cs rp key g, all_some (map ocode s) = Some cs -> digits rp -> key = lval rp ->
    (length rp + n = K)%nat -> (n <= length s)%nat -> (length s <= n + lim)%nat ->
    exists g', dbg_first n start K1 (dbg_mask k) w lim s key g = Some g' /\
      forall x, weight g' x = weight g x + w * count_n x (kmers K (rev rp ++ cs)).
Proof.
  intros k K w HK Hk1 Hk2 K1. induction n as [|n IH]; intros start lim s cs rp key g Hcs Hrp Hkey Hlen Hn Hlim.
  - cbn [dbg_first].
    assert (HB : lval rp < 4 ^ k).
    { pose proof (lval_bound rp Hrp) as B. replace (N.of_nat (length rp)) with k in B by lia. exact B. }
    destruct (append_spec k K w HK Hk1 Hk2 K1 s lim cs rp key (add_w key w g) Hcs Hrp) as (g' & Hg' & Hw');
      [lia|rewrite N.mod_small; assumption|lia|].
    exists g'. split; [exact Hg'|]. intro x. rewrite Hw', weight_add. unfold kmers.
    rewrite windows_wends by lia. rewrite (windows_exact K (rev rp)) by (try rewrite rev_length; lia).
    cbn [app map count_n]. rewrite kval_lval_rev, rev_involutive. subst key.
    rewrite (N.eqb_sym (lval rp) x). destruct (_ =? _); lia.
  - destruct s as [|b t]; [cbn in Hn; lia|].
    destruct (all_some_cons_inv _ _ _ Hcs) as (c & ct & -> & Hb & Hct).
    rewrite dbg_first_S. rewrite (ocode_iupac b c Hb). cbn [each_lim].
    assert (Hc : c < 4) by (eapply ocode_digit; eassumption).
    assert (HB : lval rp < 2 ^ 60).
    { pose proof (lval_bound rp Hrp) as B. eapply N.lt_le_trans; [exact B|].
      rewrite pow4_2. apply N.pow_le_mono_r; lia. }
    assert (E : N.lor (clear2 (shl64 key 2)) c = lval (c :: rp)).
    { subst key. unfold shl64. cbn [N.ltb N.compare Pos.compare Pos.compare_cont].
      rewrite N.shiftl_mul_pow2. change (2 ^ 2) with 4.
      rewrite N.mod_small by (unfold W64; change (2 ^ 64) with 18446744073709551616; change (2 ^ 60) with 1152921504606846976 in HB; lia).
      rewrite (N.mul_comm (lval rp) 4). rewrite clear2_mul4 by (change (2 ^ 62) with 4611686018427387904; change (2 ^ 60) with 1152921504606846976 in HB; lia).
      rewrite lor_mul4 by assumption. cbn [lval]. lia. }
    rewrite E.
    assert (Hrp' : digits (c :: rp)) by (constructor; assumption).
    destruct (IH (S start) lim t ct (c :: rp) (lval (c :: rp)) g Hct Hrp' eq_refl) as (g' & Hg' & Hw');
      [cbn [length]; lia|cbn [length] in Hn; lia|cbn [length] in Hlim; lia|].
    rewrite Hg'. exists g'. split; [reflexivity|]. intro x. rewrite Hw'.
    cbn [rev]. rewrite <- app_assoc. reflexivity.
Qed.

Lemma push_spec : forall k g s w cs, 1 <= k -> 2 * k < 64 -> all_some (map ocode s) = Some cs ->
  exists g', dbg_push_with true k g (s, w) = Some g' /\
    forall x, weight g' x = weight g x + w * count_n x (kmers (N.to_nat k) cs).
Proof.
  intros k g s w cs Hk1 Hk2 Hcs. unfold dbg_push_with.
  assert (Hl : length cs = length s).
  { clear -Hcs. revert cs Hcs. induction s as [|b s IH]; intros cs H.
    - inversion H; reflexivity.
    - destruct (all_some_cons_inv _ _ _ H) as (c & ct & -> & _ & Hct). cbn [length]. f_equal. auto. }
  destruct (N.leb_spec k (N.of_nat (length s))) as [L|L].
  - destruct (first_spec k (N.to_nat k) w eq_refl Hk1 Hk2 (N.to_nat k - 1)%nat (N.to_nat k) 0%nat
                (length s - N.to_nat k)%nat s cs [] 0 g Hcs) as (g' & Hg' & Hw');
      [apply Forall_nil|reflexivity|cbn [length]; lia|lia|lia|].
    exists g'. split; [exact Hg'|exact Hw'].
  - exists g. split; [reflexivity|]. intro x. unfold kmers. rewrite windows_short by lia. cbn. lia.
Qed.

(* total weight the property demands: sum over the sequences of count x occurrences *)
Fixpoint total_weight (K : nat) (seqs : list (list N * N)) (x : N) : N :=
  match seqs with
  | [] => 0
  | (s, w) :: t =>
    w * count_n x (match all_some (map ocode s) with Some cs => kmers K cs | None => [] end) + total_weight K t x
  end.

Definition unambiguous (s : list N) : Prop := exists cs, all_some (map ocode s) = Some cs.

Lemma build_spec : forall k seqs g, 1 <= k -> 2 * k < 64 -> Forall (fun sq => unambiguous (fst sq)) seqs ->
  exists g', dbg_build_with true k seqs g = Some g' /\
    forall x, weight g' x = weight g x + total_weight (N.to_nat k) seqs x.
Proof.
  intros k seqs. induction seqs as [|[s w] seqs IH]; intros g Hk1 Hk2 Hall.
  - exists g. split; [reflexivity|]. intro x. cbn. lia.
  - inversion Hall as [|? ? [cs Hcs] Hall']; subst. cbn [fst] in Hcs.
    cbn [dbg_build_with].
    destruct (push_spec k g s w cs Hk1 Hk2 Hcs) as (g1 & Hg1 & Hw1). rewrite Hg1.
    destruct (IH g1 Hk1 Hk2 Hall') as (g' & Hg' & Hw'). exists g'. split; [exact Hg'|].
    intro x. rewrite Hw', Hw1. cbn [total_weight]. rewrite Hcs. lia.
Qed.

Lemma weights_exact : forall k seqs, 1 <= k -> k <= 31 -> Forall (fun sq => unambiguous (fst sq)) seqs ->
  exists g, dbg_build k seqs = Some g /\ forall x, weight g x = total_weight (N.to_nat k) seqs x.
Proof.
  intros k seqs H1 H2 Hall. destruct (build_spec k seqs [] H1 ltac:(lia) Hall) as (g & Hg & Hw).
  exists g. split; [exact Hg|]. intro x. rewrite Hw. reflexivity.
Qed.


(** ================= De Bruijn graph: walks, cycles, heaviest walk (specification) ================= *)
(** ---------------- walks of the graph *)
Fixpoint is_walk (k : N) (g : graph) (p : list N) : Prop :=
  match p with
  | [] => False
  | x :: q => mem g x = true /\ match q with [] => True | y :: _ => In y (nexts k g x) /\ is_walk k g q end
  end.
Definition wsum (g : graph) (p : list N) : N := fold_right (fun x a => weight g x + a) 0 p.

Lemma mem_nodes : forall g x, mem g x = true <-> In x (nodes g).
Proof.
  induction g as [|[y v] g IH]; intro x; cbn [mem nodes map fst In]; [split; [discriminate|tauto]|].
  rewrite orb_true_iff, N.eqb_eq. unfold nodes in IH. rewrite IH. tauto.
Qed.

Lemma nexts_mem : forall k g x y, In y (nexts k g x) -> mem g y = true.
Proof. intros k g x y H. unfold nexts in H. apply filter_In in H. tauto. Qed.

Lemma maxl_ge : forall l v, In v l -> v <= maxl l.
Proof.
  induction l as [|a l IH]; intros v H; [destruct H|].
  cbn [maxl fold_right]. destruct H as [->|H]; [lia|]. specialize (IH v H). unfold maxl in IH. lia.
Qed.

Lemma maxl_in : forall l, maxl l = 0 \/ In (maxl l) l.
Proof.
  induction l as [|a l IH]; [left; reflexivity|].
  cbn [maxl fold_right]. fold (maxl l).
  destruct (N.max_spec a (maxl l)) as [[_ E]|[_ E]]; rewrite E.
  - destruct IH as [Z|I]; [left; exact Z|right; right; exact I].
  - right; left; reflexivity.
Qed.

Lemma weight_map : forall (F : N * N -> N) g x,
  weight (map (fun p => (fst p, F p)) g) x = if mem g x then F (x, weight g x) else 0.
Proof.
  induction g as [|[y v] g IH]; intro x; [reflexivity|].
  cbn [map weight mem fst]. destruct (N.eqb_spec y x) as [->|?]; [reflexivity|]. cbn [orb]. apply IH.
Qed.

Lemma btab_step : forall i k g x,
  weight (btab (S i) k g) x =
  if mem g x then weight g x + maxl (map (weight (btab i k g)) (nexts k g x)) else 0.
Proof.
  intros i k g x. cbn [btab].
  rewrite (weight_map (fun p => snd p + maxl (map (weight (btab i k g)) (nexts k g (fst p))))). reflexivity.
Qed.

Lemma btab_upper : forall k g i p x, is_walk k g (x :: p) -> (length (x :: p) <= S i)%nat ->
  wsum g (x :: p) <= weight (btab i k g) x.
Proof.
  intros k g. induction i as [|i IH]; intros p x Hw Hl.
  - destruct p as [|y q]; [|cbn [length] in Hl; lia]. cbn. lia.
  - rewrite btab_step. destruct Hw as [Hm Hq]. rewrite Hm.
    destruct p as [|y q]; [cbn; lia|]. destruct Hq as [Hy Hq].
    change (wsum g (x :: y :: q)) with (weight g x + wsum g (y :: q)).
    assert (L : wsum g (y :: q) <= weight (btab i k g) y) by (apply IH; [exact Hq|cbn [length] in *; lia]).
    assert (M : weight (btab i k g) y <= maxl (map (weight (btab i k g)) (nexts k g x))).
    { apply maxl_ge. apply in_map. exact Hy. }
    lia.
Qed.

Lemma btab_achieved : forall k g i x, mem g x = true ->
  exists p, is_walk k g (x :: p) /\ (length (x :: p) <= S i)%nat /\ wsum g (x :: p) = weight (btab i k g) x.
Proof.
  intros k g. induction i as [|i IH]; intros x Hm.
  - exists []. cbn [is_walk length wsum fold_right btab]. repeat split; try assumption; lia.
  - rewrite btab_step, Hm.
    destruct (maxl_in (map (weight (btab i k g)) (nexts k g x))) as [Z|I].
    + exists []. rewrite Z. cbn [is_walk length wsum fold_right]. repeat split; try assumption; lia.
    + apply in_map_iff in I. destruct I as (y & Ey & Hy).
      destruct (IH y (nexts_mem _ _ _ _ Hy)) as (q & Hq & Lq & Wq).
      exists (y :: q). split; [|split].
      * cbn [is_walk]. split; [exact Hm|]. split; [exact Hy|exact Hq].
      * cbn [length] in *. lia.
      * change (wsum g (x :: y :: q)) with (weight g x + wsum g (y :: q)). rewrite Wq, Ey. reflexivity.
Qed.

(** ---------------- alive / has_cycle *)
Lemma walk_alive : forall k g i p x, is_walk k g (x :: p) -> length p = i -> In x (alive i k g).
Proof.
  intros k g. induction i as [|i IH]; intros p x Hw Hl.
  - cbn [alive]. apply mem_nodes. destruct Hw as [Hm _]. exact Hm.
  - destruct p as [|y q]; [discriminate|]. destruct Hw as [Hm [Hy Hq]].
    cbn [alive]. apply filter_In. split; [apply mem_nodes; exact Hm|].
    apply existsb_exists. exists y. split; [exact Hy|].
    apply existsb_exists. exists y. split; [|apply N.eqb_refl].
    apply (IH q y Hq). cbn [length] in Hl. lia.
Qed.

Lemma walk_firstn : forall k g n p x, is_walk k g (x :: p) -> is_walk k g (x :: firstn n p).
Proof.
  intros k g. induction n as [|n IH]; intros p x Hw.
  - cbn [firstn]. destruct Hw as [Hm _]. cbn. tauto.
  - destruct p as [|y q]; [exact Hw|]. destruct Hw as [Hm [Hy Hq]].
    cbn [firstn is_walk]. split; [exact Hm|]. split; [exact Hy|]. apply IH. exact Hq.
Qed.

Lemma acyclic_walk_short : forall k g p x, has_cycle k g = false -> is_walk k g (x :: p) ->
  (length (x :: p) <= length g)%nat.
Proof.
  intros k g p x Hc Hw. unfold has_cycle in Hc.
  destruct (alive (length g) k g) eqn:E; [|discriminate].
  destruct (Nat.le_gt_cases (length (x :: p)) (length g)) as [L|L]; [exact L|exfalso].
  cbn [length] in L.
  assert (H : In x (alive (length g) k g)).
  { apply (walk_alive k g (length g) (firstn (length g) p) x); [apply walk_firstn; exact Hw|].
    apply firstn_length_le. lia. }
  rewrite E in H. destruct H.
Qed.

Lemma walk_app : forall k g a x b, is_walk k g (a ++ [x]) -> is_walk k g (x :: b) -> is_walk k g (a ++ x :: b).
Proof.
  intros k g. induction a as [|y a IH]; intros x b Ha Hb; [exact Hb|].
  cbn [app is_walk] in *. destruct Ha as [Hm Ha]. split; [exact Hm|].
  destruct a as [|z a'].
  - cbn [app] in *. destruct Ha as [Hy _]. split; [exact Hy|exact Hb].
  - cbn [app] in *. destruct Ha as [Hz Ha]. split; [exact Hz|]. apply (IH x b Ha Hb).
Qed.

(* a closed walk (x ... x with at least one edge) can be followed any number of times *)
Fixpoint pump (x : N) (p : list N) (j : nat) : list N :=
  match j with O => [] | S j' => p ++ x :: pump x p j' end.

Lemma pump_walk : forall k g x p j, is_walk k g (x :: p ++ [x]) -> is_walk k g (x :: pump x p j).
Proof.
  intros k g x p. induction j as [|j IH]; intro Hc.
  - cbn. destruct Hc as [Hm _]. tauto.
  - cbn [pump]. change (x :: p ++ x :: pump x p j) with ((x :: p) ++ x :: pump x p j).
    apply walk_app; [exact Hc|apply IH; exact Hc].
Qed.

Lemma pump_length : forall x p j, (j <= length (pump x p j))%nat.
Proof. induction j as [|j IH]; cbn [pump length]; [lia|]. rewrite app_length. cbn [length]. lia. Qed.

Lemma cycle_detected : forall k g x p, is_walk k g (x :: p ++ [x]) -> has_cycle k g = true.
Proof.
  intros k g x p Hc. destruct (has_cycle k g) eqn:E; [reflexivity|exfalso].
  pose proof (pump_walk k g x p (length g) Hc) as Hw.
  pose proof (acyclic_walk_short k g _ x E Hw) as L.
  pose proof (pump_length x p (length g)). cbn [length] in L. lia.
Qed.

(** ---------------- the heaviest walk from a source node *)
Lemma heads_mem : forall k g h, In h (heads k g) -> mem g h = true.
Proof. intros k g h H. unfold heads in H. apply filter_In in H. apply mem_nodes. tauto. Qed.

Lemma best_walk_optimal : forall k g bw, best_walk_weight k g = Some bw ->
  has_cycle k g = false /\
  (forall h p, In h (heads k g) -> is_walk k g (h :: p) -> wsum g (h :: p) <= bw) /\
  (heads k g <> [] -> exists h p, In h (heads k g) /\ is_walk k g (h :: p) /\ wsum g (h :: p) = bw).
Proof.
  intros k g bw. unfold best_walk_weight. destruct (has_cycle k g) eqn:Hc; [discriminate|].
  intro H; inversion H as [Hbw]; clear H. split; [reflexivity|]. split.
  - intros h p Hh Hw.
    pose proof (acyclic_walk_short k g p h Hc Hw) as L.
    pose proof (btab_upper k g (length g) p h Hw ltac:(lia)) as U.
    assert (M : weight (btab (length g) k g) h <= maxl (map (weight (btab (length g) k g)) (heads k g))).
    { apply maxl_ge. apply in_map. exact Hh. }
    lia.
  - intro Hne. destruct (maxl_in (map (weight (btab (length g) k g)) (heads k g))) as [Z|I].
    + destruct (heads k g) as [|h hs] eqn:Eh; [congruence|].
      destruct (btab_achieved k g (length g) h) as (p & Hw & _ & Ws); [apply (heads_mem k); rewrite Eh; left; reflexivity|].
      exists h, p. split; [left; reflexivity|]. split; [exact Hw|].
      assert (M : weight (btab (length g) k g) h <= maxl (map (weight (btab (length g) k g)) (h :: hs))).
      { apply maxl_ge. apply in_map. left; reflexivity. }
      lia.
    + apply in_map_iff in I. destruct I as (h & Eh & Hh).
      destruct (btab_achieved k g (length g) h (heads_mem k g h Hh)) as (p & Hw & _ & Ws).
      exists h, p. split; [exact Hh|]. split; [exact Hw|]. rewrite Ws. exact Eh.
Qed.

Lemma no_walk_iff_cycle : forall k g, best_walk_weight k g = None <-> has_cycle k g = true.
Proof. intros k g. unfold best_walk_weight. destruct (has_cycle k g); split; intro H; congruence. Qed.


Lemma alive_walk : forall k g i x, In x (alive i k g) -> exists p, is_walk k g (x :: p) /\ length p = i.
Proof.
  intros k g. induction i as [|i IH]; intros x H.
  - exists []. split; [|reflexivity]. cbn. split; [apply mem_nodes; exact H|exact I].
  - cbn [alive] in H. apply filter_In in H. destruct H as [Hx He].
    apply existsb_exists in He. destruct He as (y & Hy & He).
    apply existsb_exists in He. destruct He as (z & Hz & Ez). apply N.eqb_eq in Ez. subst z.
    destruct (IH y Hz) as (q & Hq & Lq).
    exists (y :: q). split; [|cbn [length]; lia].
    cbn [is_walk]. split; [apply mem_nodes; exact Hx|]. split; [exact Hy|exact Hq].
Qed.

Lemma walk_nodes : forall k g p, is_walk k g p -> incl p (nodes g).
Proof.
  intros k g. induction p as [|x p IH]; intros Hw y Hy; [destruct Hy|].
  destruct Hw as [Hm Hq]. destruct Hy as [<-|Hy]; [apply mem_nodes; exact Hm|].
  destruct p as [|z q]; [destruct Hy|]. destruct Hq as [_ Hq]. apply IH; assumption.
Qed.

Lemma dup_split : forall (l : list N), ~ NoDup l -> exists a x b c, l = a ++ x :: b ++ x :: c.
Proof.
  induction l as [|y l IH]; intro H; [exfalso; apply H; constructor|].
  destruct (in_dec N.eq_dec y l) as [Hin|Hnin].
  - apply in_split in Hin. destruct Hin as (b & c & ->). exists [], y, b, c. reflexivity.
  - assert (H' : ~ NoDup l) by (intro N; apply H; constructor; assumption).
    destruct (IH H') as (a & x & b & c & ->). exists (y :: a), x, b, c. reflexivity.
Qed.

Lemma walk_suffix : forall k g a q, is_walk k g (a ++ q) -> q <> [] -> is_walk k g q.
Proof.
  intros k g. induction a as [|y a IH]; intros q Hw Hq; [exact Hw|].
  apply IH; [|exact Hq]. cbn [app is_walk] in Hw. destruct Hw as [_ Hw].
  destruct (a ++ q) as [|z r] eqn:E; [destruct a; [cbn in E; congruence|discriminate]|].
  destruct Hw as [_ Hw]. exact Hw.
Qed.

Lemma walk_prefix : forall k g q r, is_walk k g (q ++ r) -> q <> [] -> is_walk k g q.
Proof.
  intros k g. induction q as [|x q IH]; intros r Hw Hq; [congruence|].
  cbn [app is_walk] in *. destruct Hw as [Hm Hw]. split; [exact Hm|].
  destruct q as [|y q']; [exact I|]. cbn [app] in Hw. destruct Hw as [Hy Hw].
  split; [exact Hy|]. apply (IH r Hw). discriminate.
Qed.

Lemma cycle_exists : forall k g, has_cycle k g = true -> exists x p, is_walk k g (x :: p ++ [x]).
Proof.
  intros k g H. unfold has_cycle in H.
  destruct (alive (length g) k g) as [|x0 rest] eqn:E; [discriminate|].
  destruct (alive_walk k g (length g) x0) as (p & Hw & Lp); [rewrite E; left; reflexivity|].
  assert (ND : ~ NoDup (x0 :: p)).
  { intro ND. pose proof (NoDup_incl_length ND (walk_nodes k g _ Hw)) as L.
    unfold nodes in L. rewrite map_length in L. cbn [length] in L. lia. }
  destruct (dup_split _ ND) as (a & x & b & c & Ew). rewrite Ew in Hw.
  exists x, b.
  apply walk_suffix in Hw; [|discriminate].
  change (x :: b ++ x :: c) with ((x :: b) ++ [x] ++ c) in Hw. rewrite app_assoc in Hw.
  apply walk_prefix in Hw; [exact Hw|discriminate].
Qed.

Lemma has_cycle_iff : forall k g, has_cycle k g = true <-> exists x p, is_walk k g (x :: p ++ [x]).
Proof.
  intros k g. split; [apply cycle_exists|]. intros (x & p & H). eapply cycle_detected; eassumption.
Qed.


(** ---------------- sparse mode: make_sparse drops the centre base *)
Lemma land_shiftl_mask : forall x M s, N.land x (N.shiftl M s) = N.shiftl (N.land (N.shiftr x s) M) s.
Proof.
  intros x M s. apply N.bits_inj. intro n. rewrite N.land_spec.
  destruct (N.lt_ge_cases n s) as [L|L].
  - rewrite !N.shiftl_spec_low by assumption. apply andb_false_r.
  - rewrite !N.shiftl_spec_high' by assumption. rewrite N.land_spec, N.shiftr_spec'.
    replace (n - s + s) with n by lia. reflexivity.
Qed.

Lemma kval_app : forall a b, kval (a ++ b) = kval a * 4 ^ N.of_nat (length b) + kval b.
Proof.
  induction a as [|c a IH]; intro b; [cbn; lia|].
  cbn [app kval]. rewrite IH, app_length, Nat2N.inj_add, N.pow_add_r. lia.
Qed.

Lemma kval_bound : forall w, digits w -> kval w < 4 ^ N.of_nat (length w).
Proof. intros w H. rewrite kval_lval_rev. rewrite <- rev_length. apply lval_bound. apply Forall_rev. exact H. Qed.

Definition drop_centre (w : list N) : list N := firstn (length w / 2) w ++ skipn (length w / 2 + 1) w.

Lemma make_sparse_drops_centre : forall wd k0 km w, new_kmap wd k0 true = Some km ->
  digits w -> N.of_nat (length w) = km_k km ->
  make_sparse km (kval w) = kval (drop_centre w).
Proof.
  intros wd k0 km w Hnew Hw Hlen.
  pose proof (new_kmap_facts _ _ _ _ Hnew) as (_ & Hk & _ & HM).
  assert (Hodd : N.odd (km_k km) = true).
  { rewrite Hk. unfold eff_k. destruct (N.even k0) eqn:E.
    - rewrite N.add_1_r, N.odd_succ. exact E.
    - rewrite <- N.negb_even. rewrite E. reflexivity. }
  assert (Hpos : 0 < km_k km) by (destruct (km_k km); [discriminate|lia]).
  destruct (HM Hpos) as [H2k _].
  set (m := km_k km / 2).
  assert (Ek : km_k km = 2 * m + 1).
  { unfold m. rewrite (N.div_mod (km_k km) 2) at 1 by discriminate. f_equal.
    rewrite <- N.bit0_mod, N.bit0_odd. rewrite Hodd. reflexivity. }
  (* the masks *)
  unfold new_kmap, new_kmap_with in Hnew. fold (eff_k k0 true) in Hnew. rewrite <- Hk in Hnew.
  destruct (kmask wd (km_k km)) as [mask|]; [|discriminate]. fold m in Hnew.
  replace (km_k km - 1 - m) with m in Hnew by lia.
  assert (P1 : 2 ^ (m * 2) < 2 ^ wd) by (apply N.pow_lt_mono_r; lia).
  assert (E1 : shlw wd 1 (m * 2) = 4 ^ m).
  { unfold shlw. rewrite N.shiftl_mul_pow2, N.mul_1_l, N.mod_small by assumption. rewrite pow4_2. f_equal. lia. }
  rewrite E1 in Hnew. assert (P4 : 0 < 4 ^ m) by apply pow4_pos.
  unfold subw in Hnew. destruct (N.leb_spec 1 (4 ^ m)) as [_|?]; [|lia].
  inversion Hnew as [Hkm]. clear Hnew. unfold make_sparse. cbn [km_sparse km_left km_right].
  (* decomposition of w *)
  assert (Lw : length w = (N.to_nat m + 1 + N.to_nat m)%nat) by lia.
  set (hi := firstn (N.to_nat m) w). set (rest := skipn (N.to_nat m) w).
  assert (Ew : w = hi ++ rest) by (symmetry; apply firstn_skipn).
  assert (Lhi : length hi = N.to_nat m) by (apply firstn_length_le; lia).
  assert (Lrest : length rest = (1 + N.to_nat m)%nat) by (unfold rest; rewrite skipn_length; lia).
  destruct rest as [|mid lo] eqn:Er; [cbn in Lrest; lia|]. cbn [length] in Lrest.
  assert (Llo : length lo = N.to_nat m) by lia.
  assert (Hdrop : drop_centre w = hi ++ lo).
  { unfold drop_centre. replace (length w / 2)%nat with (N.to_nat m).
    2:{ rewrite Lw. replace (N.to_nat m + 1 + N.to_nat m)%nat with (1 + N.to_nat m * 2)%nat by lia.
        rewrite Nat.div_add by lia. reflexivity. }
    rewrite Ew. rewrite firstn_app, skipn_app, Lhi.
    rewrite (firstn_all2 hi) by lia. rewrite (skipn_all2 hi) by lia.
    replace (N.to_nat m - N.to_nat m)%nat with 0%nat by lia.
    replace (N.to_nat m + 1 - N.to_nat m)%nat with 1%nat by lia.
    cbn [firstn skipn app]. rewrite app_nil_r. reflexivity. }
  rewrite Hdrop. replace (kval w) with (kval (hi ++ mid :: lo)) by (rewrite <- Ew; reflexivity).
  rewrite !kval_app. cbn [kval length]. rewrite Nat2N.inj_succ. rewrite Llo. rewrite !N2Nat.id.
  assert (Dw : digits (hi ++ mid :: lo)) by (rewrite <- Ew; exact Hw).
  apply Forall_app in Dw. destruct Dw as [Dhi Dr]. pose proof (Forall_inv Dr) as Dmid. pose proof (Forall_inv_tail Dr) as Dlo. cbv beta in Dmid.
  pose proof (kval_bound hi Dhi) as Bhi. rewrite Lhi, N2Nat.id in Bhi.
  pose proof (kval_bound lo Dlo) as Blo. rewrite Llo, N2Nat.id in Blo.
  set (H := kval hi) in *. set (L := kval lo) in *. set (P := 4 ^ m) in *.
  rewrite N.pow_succ_r'. fold P.
  (* right part *)
  assert (ER : N.land (H * (4 * P) + (mid * P + L)) (P - 1) = L).
  { unfold P at 3. rewrite pow4_2, land_mask, <- pow4_2. fold P.
    replace (H * (4 * P) + (mid * P + L)) with (L + (H * 4 + mid) * P) by lia.
    rewrite N.mod_add by lia. apply N.mod_small. assumption. }
  (* left part *)
  assert (EL : N.land (H * (4 * P) + (mid * P + L)) (shlw wd (P - 1) (m * 2 + 2)) = H * (4 * P)).
  { assert (E2 : shlw wd (P - 1) (m * 2 + 2) = N.shiftl (P - 1) (m * 2 + 2)).
    { unfold shlw. apply N.mod_small. rewrite N.shiftl_mul_pow2.
      apply N.lt_le_trans with (2 ^ (2 * km_k km)); [|apply N.pow_le_mono_r; [discriminate|assumption]].
      rewrite Ek. replace (2 * (2 * m + 1)) with (m * 2 + (m * 2 + 2)) by lia.
      rewrite (N.pow_add_r 2 (m * 2) (m * 2 + 2)). unfold P. rewrite pow4_2. replace (2 * m) with (m * 2) by lia.
      assert (0 < 2 ^ (m * 2 + 2)) by (apply N.neq_0_lt_0, N.pow_nonzero; discriminate).
      assert (0 < 2 ^ (m * 2)) by (apply N.neq_0_lt_0, N.pow_nonzero; discriminate).
      set (Q := 2 ^ (m * 2)) in *. set (R := 2 ^ (m * 2 + 2)) in *. nia. }
    rewrite E2, land_shiftl_mask. rewrite N.shiftr_div_pow2, N.shiftl_mul_pow2.
    replace (2 ^ (m * 2 + 2)) with (4 * P).
    2:{ unfold P. rewrite pow4_2, N.pow_add_r. change (2 ^ 2) with 4. replace (2 * m) with (m * 2) by lia. lia. }
    replace (H * (4 * P) + (mid * P + L)) with (H * (4 * P) + (mid * P + L)) by reflexivity.
    rewrite N.div_add_l by lia. rewrite (N.div_small (mid * P + L)) by nia. rewrite N.add_0_r.
    unfold P at 1. rewrite pow4_2, land_mask, <- pow4_2. fold P. rewrite N.mod_small by assumption. reflexivity. }
  rewrite EL, ER. rewrite N.shiftr_div_pow2. change (2 ^ 2) with 4.
  replace (H * (4 * P)) with (H * P * 4) by lia. rewrite N.div_mul by discriminate.
  unfold P. rewrite pow4_2. rewrite lor_disjoint by (rewrite <- pow4_2; assumption). reflexivity.
Qed.


(** ---------------- IUPAC codes: the two symmetric readings of "count x occurrences" and the code's weight *)
Fixpoint expand (s : list N) : list (list N) :=
  match s with
  | [] => [[]]
  | b :: t => flat_map (fun c => map (cons c) (expand t)) (iupac b)
  end.
(* reading 1: every full expansion of the sequence is a sequence *)
Definition full_occ (K : nat) (s : list N) (x : N) : N :=
  fold_right (fun e a => count_n x (kmers K e) + a) 0 (expand s).
(* reading 2: number of windows of the sequence compatible with the k-mer *)
Definition compat_occ (K : nat) (s : list N) (x : N) : N :=
  fold_right (fun w a => (if existsb (N.eqb x) (map kval (expand w)) then 1 else 0) + a) 0 (windows K s).

Lemma weights_iupac_neither_reading :
  exists k s x g, dbg_build_pre k [(s, 1)] = Some g /\
    weight g x <> full_occ (N.to_nat k) s x /\ weight g x <> compat_occ (N.to_nat k) s x /\
    weight g x = 4 /\ full_occ (N.to_nat k) s x = 16 /\ compat_occ (N.to_nat k) s x = 1.
Proof.
  exists 2, [110; 97; 99; 110], 1. eexists. split; [vm_compute; reflexivity|].
  vm_compute. repeat split; discriminate.
Qed.

(* reading direction matters: `nac` and `acn` both contain the window `ac` once and have 4 expansions *)
Lemma weights_iupac_direction :
  exists g1 g2, dbg_build_pre 2 [([110; 97; 99], 1)] = Some g1 /\ dbg_build_pre 2 [([97; 99; 110], 1)] = Some g2 /\
                weight g1 1 = 4 /\ weight g2 1 = 1.
Proof. eexists. eexists. split; [vm_compute; reflexivity|]. split; [vm_compute; reflexivity|]. vm_compute. auto. Qed.


(** edges of the graph: y follows x iff y is a node and y = (x shifted by one base, oldest base dropped) + a new base *)
Lemma nexts_spec : forall k g x y, 1 <= k -> 2 * k < 64 ->
  (In y (nexts k g x) <-> mem g y = true /\ exists b, b < 4 /\ y = (4 * x) mod 4 ^ k + b).
Proof.
  intros k g x y Hk1 Hk2. unfold nexts. rewrite filter_In.
  rewrite dbg_mask_value by assumption.
  assert (E : N.land (shl64 x 2) (4 ^ k - 1) = (4 * x) mod 4 ^ k).
  { unfold shl64. cbn [N.ltb N.compare Pos.compare Pos.compare_cont].
    rewrite N.shiftl_mul_pow2. change (2 ^ 2) with 4. rewrite (pow4_2 k) at 1. rewrite land_mask.
    unfold W64. replace 64 with (2 * k + (64 - 2 * k)) by lia. rewrite N.pow_add_r.
    rewrite mod_mod_mul by (apply N.pow_nonzero; discriminate). rewrite <- pow4_2. f_equal. lia. }
  rewrite E.
  assert (M4 : exists q, (4 * x) mod 4 ^ k = 4 * q).
  { replace k with (N.succ (k - 1)) by lia. rewrite N.pow_succ_r'.
    rewrite N.mul_mod_distr_l by (try apply N.pow_nonzero; discriminate). eexists; reflexivity. }
  destruct M4 as [q Eq]. rewrite Eq.
  rewrite !lor_mul4 by reflexivity.
  split.
  - intros [HI Hm]. split; [exact Hm|]. cbn [In] in HI.
    destruct HI as [<-|[<-|[<-|[<-|[]]]]]; [exists 0|exists 1|exists 2|exists 3]; split; (reflexivity || lia).
  - intros [Hm (b & Hb & ->)]. split; [|exact Hm]. cbn [In].
    assert (C : b = 0 \/ b = 1 \/ b = 2 \/ b = 3) by lia.
    destruct C as [C|[C|[C|C]]]; subst b; [left; lia|right; left|right; right; left|right; right; right; left]; reflexivity.
Qed.


(** ---------------- Push on ANY IUPAC sequence: exact characterisation of what the code accumulates.
    [pexp rp t] = the nodes of the expansion tree of t below the (reversed) expanded prefix rp: every
    IUPAC expansion of every non-empty prefix of t, as a reversed list of codes. *)
Fixpoint pexp (rp : list N) (t : list N) : list (list N) :=
  match t with
  | [] => []
  | b :: t' => flat_map (fun c => (c :: rp) :: pexp (c :: rp) t') (iupac b)
  end.

Lemma iupac_codes_lt : forall b c, In c (iupac b) -> c < 4.
Proof.
  intros b c. unfold iupac.
  repeat match goal with
  | |- context [N.eqb b ?y] => destruct (N.eqb_spec b y) as [->|?]; cbv iota;
    [cbn [In]; intro H; repeat (destruct H as [<-|H]; [reflexivity|]); destruct H|]
  end.
  intros [].
Qed.

Lemma clear2_low : forall q c, q < 2 ^ 62 -> c < 4 -> clear2 (4 * q + c) = 4 * q.
Proof.
  intros q c Hq Hc. rewrite <- lor_mul4 by assumption. unfold clear2.
  rewrite N.land_lor_distr_l. fold (clear2 (4 * q)). rewrite clear2_mul4 by assumption.
  change (not64 3) with ((2 ^ 62 - 1) * 2 ^ 2). rewrite N.land_comm, (land_low_high (2 ^ 62 - 1) c 2) by assumption.
  apply N.lor_0_r.
Qed.

Definition kmer_of (k : N) (q : list N) : N := lval q mod 4 ^ k.

Section Push.
Variables (k : N) (w : N).
Hypothesis Hk1 : 1 <= k.
Hypothesis Hk2 : 2 * k < 64.

Lemma roll_value : forall cur c rp, digits rp -> c < 4 -> cur = kmer_of k rp ->
  N.lor (N.land (shl64 cur 2) (dbg_mask k)) c = kmer_of k (c :: rp).
Proof.
  intros cur c rp Hrp Hc Hcur. rewrite dbg_mask_value by assumption. rewrite shl64_2.
  unfold kmer_of in *. rewrite (fwd_step 64 k cur c (lval rp)); [reflexivity|lia|lia|assumption|assumption].
Qed.

Lemma kmer_of_split : forall c rp, c < 4 -> exists q, q < 2 ^ 62 /\ kmer_of k (c :: rp) = 4 * q + c.
Proof.
  intros c rp Hc. unfold kmer_of. cbn [lval].
  replace k with (N.succ (k - 1)) by lia. rewrite N.pow_succ_r'.
  rewrite mod4_step by (try assumption; apply pow4_pos).
  exists (lval rp mod 4 ^ (k - 1)). split; [|lia].
  apply N.lt_le_trans with (4 ^ (k - 1)); [apply N.mod_lt, N.pow_nonzero; discriminate|].
  rewrite pow4_2. apply N.pow_le_mono_r; lia.
Qed.

Lemma sibling_value : forall c c' rp, c < 4 -> c' < 4 ->
  N.lor (clear2 (kmer_of k (c :: rp))) c' = kmer_of k (c' :: rp).
Proof.
  intros c c' rp Hc Hc'.
  destruct (kmer_of_split c rp Hc) as (q & Hq & E). destruct (kmer_of_split c' rp Hc') as (q' & Hq' & E').
  assert (q = q').
  { unfold kmer_of in *. cbn [lval] in *.
    replace k with (N.succ (k - 1)) in E, E' by lia. rewrite N.pow_succ_r' in E, E'.
    rewrite mod4_step in E, E' by (try assumption; apply pow4_pos). lia. }
  subst q'. rewrite E, E'. rewrite clear2_low by assumption. apply lor_mul4. assumption.
Qed.

Definition nonempty_codes (s : list N) : Prop := Forall (fun b => iupac b <> []) s.

Lemma append_iupac : forall t rp cur g, nonempty_codes t -> digits rp -> cur = kmer_of k rp ->
  exists g', dbg_append_pre (dbg_mask k) w t cur g = Some g' /\
    forall x, weight g' x = weight g x + w * count_n x (map (kmer_of k) (pexp rp t)).
Proof.
  induction t as [|b t IH]; intros rp cur g Hne Hrp Hcur.
  - exists g. split; [reflexivity|]. intro x. cbn. lia.
  - inversion Hne as [|? ? Hb Hne']; subst.
    cbn [dbg_append_pre pexp].
    pose proof (iupac_codes_lt b) as Hlt.
    destruct (iupac b) as [|c0 cs]; [congruence|].
    assert (Hc0 : c0 < 4) by (apply Hlt; left; reflexivity).
    rewrite (roll_value _ c0 rp Hrp Hc0 eq_refl).
    destruct (IH (c0 :: rp) (kmer_of k (c0 :: rp)) (add_w (kmer_of k (c0 :: rp)) w g) Hne'
                 ltac:(constructor; assumption) eq_refl) as (g0 & Hg0 & Hw0).
    rewrite Hg0. cbn [flat_map].
    (* the other codes of the same base *)
    assert (Hcs : forall c, In c cs -> c < 4) by (intros c Hc; apply Hlt; right; exact Hc).
    clear Hlt Hb Hg0.
    assert (Base : forall x, weight g0 x = weight g x + w * count_n x (map (kmer_of k) ((c0 :: rp) :: pexp (c0 :: rp) t))).
    { intro x. rewrite Hw0, weight_add. cbn [map count_n]. rewrite (N.eqb_sym _ x). destruct (_ =? _); lia. }
    clear Hw0. revert Base. generalize ((c0 :: rp) :: pexp (c0 :: rp) t) as done.
    revert g0. generalize c0 Hc0. clear c0 Hc0.
    induction cs as [|c cs IHcs]; intros cprev Hcprev g0 done Base.
    + exists g0. split; [reflexivity|]. intro x. rewrite Base. cbn [flat_map]. rewrite app_nil_r. reflexivity.
    + assert (Hc : c < 4) by (apply Hcs; left; reflexivity).
      rewrite (sibling_value cprev c rp Hcprev Hc).
      destruct (IH (c :: rp) (kmer_of k (c :: rp)) (add_w (kmer_of k (c :: rp)) w g0) Hne'
                   ltac:(constructor; assumption) eq_refl) as (g1 & Hg1 & Hw1).
      rewrite Hg1.
      destruct (IHcs ltac:(intros c' Hc'; apply Hcs; right; exact Hc') c Hc g1
                     (done ++ (c :: rp) :: pexp (c :: rp) t)) as (g' & Hg' & Hw').
      { intro x. rewrite Hw1, weight_add, Base. rewrite map_app, count_n_app. cbn [map count_n].
        rewrite (N.eqb_sym _ x). destruct (_ =? _); lia. }
      exists g'. split; [exact Hg'|]. intro x. rewrite Hw'. cbn [flat_map]. rewrite <- app_assoc. reflexivity.
Qed.

Definition long (K : nat) (q : list N) : bool := (K <=? length q)%nat.

Lemma pexp_length : forall t rp q, In q (pexp rp t) -> (length rp < length q)%nat.
Proof.
  induction t as [|b t IH]; intros rp q H; [destruct H|].
  cbn [pexp] in H. apply in_flat_map in H. destruct H as (c & _ & [<-|H]); [cbn [length]; lia|].
  apply IH in H. cbn [length] in H. lia.
Qed.

Lemma filter_all : forall {A} (f : A -> bool) l, (forall a, In a l -> f a = true) -> filter f l = l.
Proof.
  induction l as [|a l IH]; intro H; [reflexivity|].
  cbn [filter]. rewrite (H a) by (left; reflexivity). f_equal. apply IH. intros; apply H; right; assumption.
Qed.

Lemma filter_long_all : forall K t rp, (K <= length rp + 1)%nat -> filter (long K) (pexp rp t) = pexp rp t.
Proof.
  intros K t rp H. apply filter_all. intros q Hq. apply pexp_length in Hq. unfold long.
  apply Nat.leb_le. lia.
Qed.

Section Each.
Variable f : N -> graph -> option graph.
Fixpoint each_code (cs : list N) (key : N) (g : graph) : option graph :=
  match cs with
  | [] => Some g
  | c :: cs' =>
    let key' := N.lor (clear2 key) c in
    match f key' g with
    | None => None
    | Some g' => each_code cs' key' g'
    end
  end.
End Each.

Lemma dbg_first_pre_S : forall n mask b t key g,
  dbg_first_pre (S n) mask w (b :: t) key g =
  each_code (fun key' g' => dbg_first_pre n mask w t key' g') (iupac b) (shl64 key 2) g.
Proof. reflexivity. Qed.

Lemma each_loop : forall (f : N -> graph -> option graph) (cnt : N -> N -> N) base cs,
  base < 2 ^ 62 -> (forall c, In c cs -> c < 4) ->
  (forall c g0, In c cs -> exists g1, f (4 * base + c) g0 = Some g1 /\
                                      forall x, weight g1 x = weight g0 x + w * cnt c x) ->
  forall cprev g0, cprev < 4 ->
    exists g', each_code f cs (4 * base + cprev) g0 = Some g' /\
      forall x, weight g' x = weight g0 x + w * fold_right (fun c a => cnt c x + a) 0 cs.
Proof.
  intros f cnt base cs Hbase. induction cs as [|c cs IH]; intros Hlt Hf cprev g0 Hcprev.
  - exists g0. split; [reflexivity|]. intro x. cbn. lia.
  - cbn [each_code]. assert (Hc : c < 4) by (apply Hlt; left; reflexivity).
    rewrite (clear2_low base cprev Hbase Hcprev). rewrite lor_mul4 by assumption.
    destruct (Hf c g0 ltac:(left; reflexivity)) as (g1 & Hg1 & Hw1). rewrite Hg1.
    destruct (IH ltac:(intros; apply Hlt; right; assumption)
                 ltac:(intros; apply Hf; right; assumption) c g1 Hc) as (g' & Hg' & Hw').
    exists g'. split; [exact Hg'|]. intro x. rewrite Hw', Hw1. cbn [fold_right]. lia.
Qed.

Lemma first_iupac : forall K, K = N.to_nat k ->
  forall n s rp key g, nonempty_codes s -> digits rp -> key = lval rp ->
    (length rp + n = K)%nat -> (n <= length s)%nat ->
    exists g', dbg_first_pre n (dbg_mask k) w s key g = Some g' /\
      forall x, weight g' x = weight g x +
        w * ((if (n =? 0)%nat then (if kmer_of k rp =? x then 1 else 0) else 0)
             + count_n x (map (kmer_of k) (filter (long K) (pexp rp s)))).
Proof.
  intros K HK. induction n as [|n IH]; intros s rp key g Hne Hrp Hkey Hlen Hn.
  - cbn [dbg_first_pre Nat.eqb].
    assert (HB : lval rp < 4 ^ k).
    { pose proof (lval_bound rp Hrp) as B. replace (N.of_nat (length rp)) with k in B by lia. exact B. }
    assert (Ek : kmer_of k rp = key) by (unfold kmer_of; rewrite N.mod_small by assumption; congruence).
    destruct (append_iupac s rp key (add_w key w g) Hne Hrp (eq_sym Ek)) as (g' & Hg' & Hw').
    exists g'. split; [exact Hg'|]. intro x. rewrite Hw', weight_add, Ek.
    rewrite filter_long_all by lia. destruct (key =? x); lia.
  - destruct s as [|b t]; [cbn in Hn; lia|]. pose proof (Forall_inv Hne) as Hb. pose proof (Forall_inv_tail Hne) as Hne'. cbv beta in Hb.
    subst key. rewrite dbg_first_pre_S. cbn [pexp]. replace (S n =? 0)%nat with false by reflexivity.
    assert (HB : lval rp < 2 ^ 60).
    { pose proof (lval_bound rp Hrp) as B. eapply N.lt_le_trans; [exact B|].
      rewrite pow4_2. apply N.pow_le_mono_r; lia. }
    assert (HB2 : lval rp < 2 ^ 62) by (eapply N.lt_le_trans; [exact HB|apply N.pow_le_mono_r; lia]).
    assert (E0 : shl64 (lval rp) 2 = 4 * lval rp + 0).
    { unfold shl64. cbn [N.ltb N.compare Pos.compare Pos.compare_cont].
      rewrite N.shiftl_mul_pow2. change (2 ^ 2) with 4.
      rewrite N.mod_small by (unfold W64; change (2 ^ 64) with 18446744073709551616; change (2 ^ 60) with 1152921504606846976 in HB; lia).
      lia. }
    rewrite E0.
    set (cnt := fun c x => (if (n =? 0)%nat then (if kmer_of k (c :: rp) =? x then 1 else 0) else 0)
                           + count_n x (map (kmer_of k) (filter (long K) (pexp (c :: rp) t)))).
    destruct (each_loop (fun key' g' => dbg_first_pre n (dbg_mask k) w t key' g') cnt (lval rp) (iupac b) HB2
                (iupac_codes_lt b)) with (cprev := 0) (g0 := g) as (g' & Hg' & Hw'); [|reflexivity|].
    { intros c g0 Hc. assert (Hc4 : c < 4) by (apply (iupac_codes_lt b); exact Hc).
      replace (4 * lval rp + c) with (lval (c :: rp)) by (cbn [lval]; lia).
      destruct (IH t (c :: rp) (lval (c :: rp)) g0 Hne' ltac:(constructor; assumption) eq_refl)
        as (g1 & Hg1 & Hw1); [cbn [length]; lia|cbn [length] in Hn; lia|].
      exists g1. split; [exact Hg1|]. intro x. rewrite Hw1. reflexivity. }
    exists g'. split; [exact Hg'|]. intro x. rewrite Hw'. f_equal. f_equal. cbn [N.add].
    generalize (iupac b). intro cs. induction cs as [|c cs IHcs]; [reflexivity|].
    cbn [fold_right flat_map]. rewrite IHcs. rewrite filter_app, map_app, count_n_app.
    f_equal. unfold cnt. cbn [filter]. unfold long at 2. cbn [length].
    destruct (Nat.eqb_spec n 0) as [En0|Hn0].
    + destruct (Nat.leb_spec K (S (length rp))) as [_|?]; [|lia].
      cbn [map count_n]. rewrite (N.eqb_sym _ x). reflexivity.
    + destruct (Nat.leb_spec K (S (length rp))) as [?|_]; [lia|]. reflexivity.
Qed.
End Push.

Lemma pexp_length_le : forall t rp q, In q (pexp rp t) -> (length q <= length rp + length t)%nat.
Proof.
  induction t as [|b t IH]; intros rp q H; [destruct H|].
  cbn [pexp] in H. apply in_flat_map in H. destruct H as (c & _ & [<-|H]); [cbn [length]; lia|].
  apply IH in H. cbn [length] in *. lia.
Qed.

Lemma pexp_digits : forall t rp q, digits rp -> In q (pexp rp t) -> digits q.
Proof.
  induction t as [|b t IH]; intros rp q Hrp H; [destruct H|].
  cbn [pexp] in H. apply in_flat_map in H. destruct H as (c & Hc & H).
  assert (D : digits (c :: rp)) by (constructor; [eapply iupac_codes_lt; eassumption|assumption]).
  destruct H as [<-|H]; [exact D|]. eapply IH; eassumption.
Qed.

(* the k-mer of a node of the expansion tree = the last k bases of that expanded prefix *)
Lemma kmer_of_long : forall k q, digits q -> kmer_of k q = kval (rev (firstn (N.to_nat k) q)).
Proof.
  intros k q Hq. unfold kmer_of. rewrite kval_lval_rev, rev_involutive, lval_firstn by assumption.
  rewrite N2Nat.id. reflexivity.
Qed.

Definition prefix_occ (k : N) (s : list N) (x : N) : N :=
  count_n x (map (kmer_of k) (filter (long (N.to_nat k)) (pexp [] s))).

Lemma filter_none : forall {A} (f : A -> bool) l, (forall a, In a l -> f a = false) -> filter f l = [].
Proof.
  induction l as [|a l IH]; intro H; [reflexivity|].
  cbn [filter]. rewrite (H a) by (left; reflexivity). apply IH. intros; apply H; right; assumption.
Qed.

Lemma push_iupac : forall k w g s, 1 <= k -> 2 * k < 64 -> nonempty_codes s ->
  exists g', dbg_push_pre_with true k g (s, w) = Some g' /\
    forall x, weight g' x = weight g x + w * prefix_occ k s x.
Proof.
  intros k w g s Hk1 Hk2 Hne. unfold dbg_push_pre_with.
  destruct (N.leb_spec k (N.of_nat (length s))) as [L|L].
  - destruct (first_iupac k w Hk1 Hk2 (N.to_nat k) eq_refl (N.to_nat k) s [] 0 g Hne) as (g' & Hg' & Hw');
      [apply Forall_nil|reflexivity|cbn [length]; lia|lia|].
    exists g'. split; [exact Hg'|]. intro x. rewrite Hw'.
    destruct (Nat.eqb_spec (N.to_nat k) 0); [lia|]. unfold prefix_occ. lia.
  - exists g. split; [reflexivity|]. intro x. unfold prefix_occ.
    rewrite filter_none; [cbn; lia|].
    intros q Hq. apply pexp_length_le in Hq. cbn [length] in Hq. unfold long. apply Nat.leb_gt. lia.
Qed.

Fixpoint total_prefix_weight (k : N) (seqs : list (list N * N)) (x : N) : N :=
  match seqs with
  | [] => 0
  | (s, w) :: t => w * prefix_occ k s x + total_prefix_weight k t x
  end.

Lemma build_iupac : forall k seqs g, 1 <= k -> 2 * k < 64 -> Forall (fun sq => nonempty_codes (fst sq)) seqs ->
  exists g', dbg_build_pre_with true k seqs g = Some g' /\
    forall x, weight g' x = weight g x + total_prefix_weight k seqs x.
Proof.
  intros k seqs. induction seqs as [|[s w] seqs IH]; intros g Hk1 Hk2 Hall.
  - exists g. split; [reflexivity|]. intro x. cbn. lia.
  - pose proof (Forall_inv Hall) as Hs. pose proof (Forall_inv_tail Hall) as Hall'. cbn [fst] in Hs.
    cbn [dbg_build_pre_with].
    destruct (push_iupac k w g s Hk1 Hk2 Hs) as (g1 & Hg1 & Hw1). rewrite Hg1.
    destruct (IH g1 Hk1 Hk2 Hall') as (g' & Hg' & Hw'). exists g'. split; [exact Hg'|].
    intro x. rewrite Hw', Hw1. cbn [total_prefix_weight]. lia.
Qed.

Lemma weights_iupac_exact : forall k seqs, 1 <= k -> k <= 31 -> Forall (fun sq => nonempty_codes (fst sq)) seqs ->
  exists g, dbg_build_pre k seqs = Some g /\ forall x, weight g x = total_prefix_weight k seqs x.
Proof.
  intros k seqs H1 H2 Hall. destruct (build_iupac k seqs [] H1 ltac:(lia) Hall) as (g & Hg & Hw).
  exists g. split; [exact Hg|]. intro x. rewrite Hw. reflexivity.
Qed.


Lemma new_kmap_built_iff_fits : forall wd k0 sparse, 0 < eff_k k0 sparse ->
  ((exists km, new_kmap wd k0 sparse = Some km) <-> 2 * eff_k k0 sparse <= wd).
Proof.
  intros wd k0 sparse Hk. split.
  - intros [km H]. destruct (new_kmap_facts _ _ _ _ H) as (_ & E & _ & HM). rewrite <- E. apply HM. rewrite E. exact Hk.
  - intro Hfit. unfold new_kmap, new_kmap_with. rewrite kmask_value by assumption.
    destruct sparse; [|eexists; reflexivity].
    set (k := eff_k k0 true) in *.
    assert (S1 : forall n, n < wd -> exists v, subw (shlw wd 1 n) 1 = Some v).
    { intros n Hn. unfold shlw. rewrite N.shiftl_mul_pow2, N.mul_1_l.
      rewrite N.mod_small by (apply N.pow_lt_mono_r; lia).
      assert (0 < 2 ^ n) by (apply N.neq_0_lt_0, N.pow_nonzero; discriminate).
      unfold subw. destruct (N.leb_spec 1 (2 ^ n)); [eexists; reflexivity|lia]. }
    destruct (S1 (k / 2 * 2)) as [l ->]; [zify; Z.div_mod_to_equations; lia|].
    destruct (S1 ((k - 1 - k / 2) * 2)) as [r ->]; [zify; Z.div_mod_to_equations; lia|].
    eexists; reflexivity.
Qed.


(** ---------------- source nodes: Heads (through Previouses) = nodes without incoming edge *)
Definition keys_lt (k : N) (g : graph) : Prop := forall y, mem g y = true -> y < 4 ^ k.

Lemma prevs_spec : forall k g x y, 1 <= k -> 2 * k < 64 -> x < 4 ^ k ->
  (In y (prevs k g x) <-> mem g y = true /\ exists b, b < 4 /\ y = x / 4 + b * 4 ^ (k - 1)).
Proof.
  intros k g x y Hk1 Hk2 Hx. unfold prevs. rewrite filter_In.
  rewrite N.shiftr_div_pow2. change (2 ^ 2) with 4.
  assert (HP : 4 ^ k = 4 * 4 ^ (k - 1)).
  { replace k with (N.succ (k - 1)) at 1 by lia. apply N.pow_succ_r'. }
  assert (HM : 0 < 4 ^ (k - 1)) by apply pow4_pos.
  assert (Hidx : x / 4 < 4 ^ (k - 1)) by (apply N.div_lt_upper_bound; lia).
  assert (S : forall b, b < 4 -> N.lor (x / 4) (shl64 b (2 * (k - 1))) = x / 4 + b * 4 ^ (k - 1)).
  { intros b Hb. unfold shl64. destruct (N.ltb_spec (2 * (k - 1)) 64) as [_|?]; [|lia].
    rewrite N.shiftl_mul_pow2. rewrite <- pow4_2.
    rewrite N.mod_small.
    2:{ apply N.lt_le_trans with (4 ^ k); [rewrite HP; nia|].
        unfold W64. rewrite pow4_2. apply N.pow_le_mono_r; lia. }
    rewrite N.lor_comm. rewrite (pow4_2 (k - 1)). rewrite lor_disjoint by (rewrite <- pow4_2; assumption).
    rewrite <- pow4_2. lia. }
  rewrite !S by reflexivity.
  split.
  - intros [HI Hm]. split; [exact Hm|]. cbn [In] in HI.
    destruct HI as [<-|[<-|[<-|[<-|[]]]]]; [exists 0|exists 1|exists 2|exists 3]; split; (reflexivity || lia).
  - intros [Hm (b & Hb & ->)]. split; [|exact Hm]. cbn [In].
    assert (C : b = 0 \/ b = 1 \/ b = 2 \/ b = 3) by lia.
    destruct C as [C|[C|[C|C]]]; subst b; [left; lia|right; left|right; right; left|right; right; right; left]; reflexivity.
Qed.

Lemma edge_duality : forall k x y, 1 <= k -> x < 4 ^ k -> y < 4 ^ k ->
  ((exists b, b < 4 /\ y = x / 4 + b * 4 ^ (k - 1)) <-> (exists c, c < 4 /\ x = (4 * y) mod 4 ^ k + c)).
Proof.
  intros k x y Hk Hx Hy.
  assert (HP : 4 ^ k = 4 * 4 ^ (k - 1)).
  { replace k with (N.succ (k - 1)) at 1 by lia. apply N.pow_succ_r'. }
  assert (HM : 0 < 4 ^ (k - 1)) by apply pow4_pos.
  rewrite HP in *. set (M := 4 ^ (k - 1)) in *.
  split.
  - intros (b & Hb & ->). exists (x mod 4). split; [apply N.mod_lt; discriminate|].
    rewrite N.mul_mod_distr_l by lia.
    assert (E : (x / 4 + b * M) mod M = x / 4).
    { rewrite N.mod_add by lia. apply N.mod_small. apply N.div_lt_upper_bound; lia. }
    rewrite E. rewrite (N.div_mod x 4) at 1 by discriminate. reflexivity.
  - intros (c & Hc & ->). exists (y / M). split; [apply N.div_lt_upper_bound; lia|].
    rewrite N.mul_mod_distr_l by lia.
    replace (4 * (y mod M) + c) with (c + (y mod M) * 4) by lia.
    rewrite N.div_add by discriminate. rewrite (N.div_small c 4) by assumption.
    rewrite (N.div_mod y M) at 1 by lia. lia.
Qed.

Lemma heads_are_sources : forall k g h, 1 <= k -> 2 * k < 64 -> keys_lt k g ->
  (In h (heads k g) <-> In h (nodes g) /\ forall y, mem g y = true -> ~ In h (nexts k g y)).
Proof.
  intros k g h Hk1 Hk2 Hwf. unfold heads. rewrite filter_In. split.
  - intros [Hn Hp]. split; [exact Hn|]. intros y Hy Hin.
    assert (Hh : h < 4 ^ k) by (apply Hwf, mem_nodes; exact Hn).
    apply (nexts_spec k g y h Hk1 Hk2) in Hin. destruct Hin as [_ Hc].
    apply (edge_duality k h y Hk1 Hh (Hwf y Hy)) in Hc.
    assert (Hin : In y (prevs k g h)) by (apply prevs_spec; try assumption; split; assumption).
    destruct (prevs k g h); [destruct Hin|discriminate].
  - intros [Hn Hno]. split; [exact Hn|].
    assert (Hh : h < 4 ^ k) by (apply Hwf, mem_nodes; exact Hn).
    destruct (prevs k g h) as [|y l] eqn:E; [reflexivity|exfalso].
    assert (Hin : In y (prevs k g h)) by (rewrite E; left; reflexivity).
    apply (prevs_spec k g h y Hk1 Hk2 Hh) in Hin. destruct Hin as [Hy Hb].
    apply (edge_duality k h y Hk1 Hh (Hwf y Hy)) in Hb.
    apply (Hno y Hy). apply nexts_spec; try assumption. split; [apply mem_nodes; exact Hn|exact Hb].
Qed.


Lemma mem_upd : forall g x w y, mem (upd_w x w g) y = mem g y.
Proof.
  induction g as [|[z v] g IH]; intros x w y; [reflexivity|].
  cbn [upd_w]. destruct (z =? x); cbn [mem]; [reflexivity|]. rewrite IH. reflexivity.
Qed.

Lemma mem_ins : forall g x w y, mem (ins_w x w g) y = (x =? y) || mem g y.
Proof.
  induction g as [|[z v] g IH]; intros x w y; [cbn; rewrite orb_false_r; reflexivity|].
  cbn [ins_w]. destruct (x <? z); cbn [mem]; [reflexivity|]. rewrite IH.
  destruct (z =? y), (x =? y); reflexivity.
Qed.

Lemma keys_lt_add : forall k g x w, x < 4 ^ k -> keys_lt k g -> keys_lt k (add_w x w g).
Proof.
  intros k g x w Hx Hg y Hy. unfold add_w in Hy. destruct (mem g x).
  - rewrite mem_upd in Hy. apply Hg. exact Hy.
  - rewrite mem_ins in Hy. apply orb_true_iff in Hy. destruct Hy as [E|Hy]; [apply N.eqb_eq in E; subst; exact Hx|apply Hg; exact Hy].
Qed.

Lemma kmer_of_lt : forall k q, kmer_of k q < 4 ^ k.
Proof. intros. unfold kmer_of. apply N.mod_lt, N.pow_nonzero. discriminate. Qed.

Section Keys.
Variables (k : N) (w : N).
Hypothesis Hk1 : 1 <= k.
Hypothesis Hk2 : 2 * k < 64.

Lemma append_keys : forall K1 t lim rp cur g g', digits rp -> cur = kmer_of k rp ->
  dbg_append K1 (dbg_mask k) w lim t cur g = Some g' -> keys_lt k g -> keys_lt k g'.
Proof.
  intro K1. induction t as [|b t IH]; intros lim rp cur g g' Hrp Hcur H Hg.
  - inversion H; subst. exact Hg.
  - destruct lim as [|l]; [inversion H; subst; exact Hg|].
    cbn [dbg_append] in H.
    pose proof (iupac_codes_lt b) as Hlt.
    destruct (iupac b) as [|c0 cs]; [discriminate|].
    assert (Hc0 : c0 < 4) by (apply Hlt; left; reflexivity).
    rewrite (roll_value k Hk1 Hk2 _ c0 rp Hrp Hc0 Hcur) in H.
    destruct (dbg_append K1 (dbg_mask k) w l t (kmer_of k (c0 :: rp)) (add_w (kmer_of k (c0 :: rp)) w g)) as [g0|] eqn:E0; [|discriminate].
    assert (Hg0 : keys_lt k g0).
    { eapply (IH l (c0 :: rp)); [constructor; assumption|reflexivity|exact E0|].
      apply keys_lt_add; [apply kmer_of_lt|exact Hg]. }
    assert (Hcs : forall c, In c cs -> c < 4) by (intros c Hc; apply Hlt; right; exact Hc).
    clear E0 Hg Hlt. revert H Hg0. generalize g0. generalize c0 Hc0. clear c0 Hc0 g0.
    induction cs as [|c cs IHcs]; intros cprev Hcprev g0 H Hg0.
    + inversion H; subst. exact Hg0.
    + assert (Hc : c < 4) by (apply Hcs; left; reflexivity).
      rewrite (sibling_value k Hk1 Hk2 cprev c rp Hcprev Hc) in H.
      destruct (dbg_append K1 (dbg_mask k) w (Nat.min l K1) t (kmer_of k (c :: rp)) (add_w (kmer_of k (c :: rp)) w g0)) as [g1|] eqn:E1; [|discriminate].
      apply (IHcs ltac:(intros c' Hc'; apply Hcs; right; exact Hc') c Hc g1 H).
      eapply (IH (Nat.min l K1) (c :: rp)); [constructor; assumption|reflexivity|exact E1|].
      apply keys_lt_add; [apply kmer_of_lt|exact Hg0].
Qed.

Lemma each_lim_keys : forall (f : nat -> N -> graph -> option graph) start base cs,
  base < 2 ^ 62 -> (forall c, In c cs -> c < 4) ->
  (forall lim c g0 g1, In c cs -> f lim (4 * base + c) g0 = Some g1 -> keys_lt k g0 -> keys_lt k g1) ->
  forall first cprev lim g0 g', cprev < 4 -> each_lim f start first cs (4 * base + cprev) lim g0 = Some g' ->
    keys_lt k g0 -> keys_lt k g'.
Proof.
  intros f start base cs Hbase. induction cs as [|c cs IH]; intros Hlt Hf first cprev lim g0 g' Hcprev H Hg0.
  - inversion H; subst. exact Hg0.
  - cbn [each_lim] in H. assert (Hc : c < 4) by (apply Hlt; left; reflexivity).
    rewrite (clear2_low base cprev Hbase Hcprev) in H. rewrite lor_mul4 in H by assumption.
    match type of H with match f ?L _ _ with _ => _ end = _ => set (lim' := L) in * end.
    destruct (f lim' (4 * base + c) g0) as [g1|] eqn:E1; [|discriminate].
    apply (IH ltac:(intros; apply Hlt; right; assumption)
              ltac:(intros l' c' a b' Hc'; apply Hf; right; assumption) false c lim' g1 g' Hc H).
    eapply Hf; [left; reflexivity|exact E1|exact Hg0].
Qed.

Lemma first_keys : forall K1 n start lim s rp key g g', digits rp -> key = lval rp ->
  (length rp + n = N.to_nat k)%nat ->
  dbg_first n start K1 (dbg_mask k) w lim s key g = Some g' -> keys_lt k g -> keys_lt k g'.
Proof.
  intro K1. induction n as [|n IH]; intros start lim s rp key g g' Hrp Hkey Hlen H Hg.
  - cbn [dbg_first] in H.
    assert (HB : lval rp < 4 ^ k).
    { pose proof (lval_bound rp Hrp) as B. replace (N.of_nat (length rp)) with k in B by lia. exact B. }
    assert (Ek : key = kmer_of k rp) by (unfold kmer_of; rewrite N.mod_small by assumption; congruence).
    eapply (append_keys K1 s lim rp key); [exact Hrp|exact Ek|exact H|].
    apply keys_lt_add; [rewrite Ek; apply kmer_of_lt|exact Hg].
  - destruct s as [|b t]; [discriminate|]. subst key. rewrite dbg_first_S in H.
    assert (HB : lval rp < 2 ^ 60).
    { pose proof (lval_bound rp Hrp) as B. eapply N.lt_le_trans; [exact B|].
      rewrite pow4_2. apply N.pow_le_mono_r; lia. }
    assert (HB2 : lval rp < 2 ^ 62) by (eapply N.lt_le_trans; [exact HB|apply N.pow_le_mono_r; lia]).
    assert (E0 : shl64 (lval rp) 2 = 4 * lval rp + 0).
    { unfold shl64. cbn [N.ltb N.compare Pos.compare Pos.compare_cont].
      rewrite N.shiftl_mul_pow2. change (2 ^ 2) with 4.
      rewrite N.mod_small by (unfold W64; change (2 ^ 64) with 18446744073709551616; change (2 ^ 60) with 1152921504606846976 in HB; lia).
      lia. }
    rewrite E0 in H.
    assert (HF : forall lim' c g0 g1, In c (iupac b) ->
              (fun lim' key' g' => dbg_first n (S start) K1 (dbg_mask k) w lim' t key' g') lim' (4 * lval rp + c) g0 = Some g1 -> keys_lt k g0 -> keys_lt k g1).
    { intros lim' c g0 g1 Hc Hf Hg0. cbv beta in Hf.
      assert (Hc4 : c < 4) by (apply (iupac_codes_lt b); exact Hc).
      replace (4 * lval rp + c) with (lval (c :: rp)) in Hf by (cbn [lval]; lia).
      eapply (IH (S start) lim' t (c :: rp)); [constructor; assumption|reflexivity|cbn [length]; lia|exact Hf|exact Hg0]. }
    exact (each_lim_keys _ start (lval rp) (iupac b) HB2 (iupac_codes_lt b) HF true 0 lim g g' eq_refl H Hg).
Qed.
End Keys.

Lemma build_keys : forall k seqs g g', 1 <= k -> 2 * k < 64 ->
  dbg_build_with true k seqs g = Some g' -> keys_lt k g -> keys_lt k g'.
Proof.
  intros k seqs. induction seqs as [|[s w] seqs IH]; intros g g' Hk1 Hk2 H Hg.
  - inversion H; subst. exact Hg.
  - cbn [dbg_build_with] in H. destruct (dbg_push_with true k g (s, w)) as [g1|] eqn:E1; [|discriminate].
    apply (IH g1 g' Hk1 Hk2 H). unfold dbg_push_with in E1.
    destruct (k <=? N.of_nat (length s)).
    + eapply (first_keys k w Hk1 Hk2 _ (N.to_nat k) 0%nat _ s [] 0); [apply Forall_nil|reflexivity|cbn [length]; lia|exact E1|exact Hg].
    + inversion E1; subst. exact Hg.
Qed.

Lemma built_keys_lt : forall k seqs g, 1 <= k -> k <= 31 -> dbg_build k seqs = Some g -> keys_lt k g.
Proof.
  intros k seqs g H1 H2 H. eapply (build_keys k seqs []); [exact H1|lia|exact H|].
  intros y Hy. discriminate Hy.
Qed.

Lemma built_heads_are_sources : forall k seqs g h, 1 <= k -> k <= 31 -> dbg_build k seqs = Some g ->
  (In h (heads k g) <-> In h (nodes g) /\ forall y, mem g y = true -> ~ In h (nexts k g y)).
Proof.
  intros k seqs g h H1 H2 H. apply heads_are_sources; [exact H1|lia|]. eapply built_keys_lt; eassumption.
Qed.


(** ---------------- witnesses of the defects of the original code (all fail on the real code too) *)
(* acgtgcatta, k = 4, Uint64 *)
Definition wit_seq : list N := [97;99;103;116;103;99;97;116;116;97].

Lemma canon_orig_strand_dependent :
  exists wd k s a b, canon_orig wd k false s = Some a /\ canon_orig wd k false (rcseq s) = Some b /\
                     ~ Permutation a b.
Proof.
  exists 64, 4, wit_seq, [27; 70; 145; 228; 57; 14; 195], [60; 79; 147; 228; 185; 110; 27].
  split; [vm_compute; reflexivity|]. split; [vm_compute; reflexivity|].
  intro P. assert (H : In 195 [60; 79; 147; 228; 185; 110; 27]).
  { eapply Permutation_in; [exact P|]. cbn. tauto. }
  cbn in H. repeat (destruct H as [H|H]; [discriminate H|]). exact H.
Qed.

Lemma kmask_orig_panics_full_word :
  canon_orig 128 64 false wit_seq = None /\ canon_orig 64 32 false wit_seq = None /\ canon_orig 256 128 false wit_seq = None.
Proof. vm_compute. auto. Qed.

Lemma push_orig_ignores_length_k :
  exists k s, N.of_nat (length s) = k /\ dbg_build_orig k [(s, 1)] = Some [] /\ dbg_build k [(s, 1)] = Some [(27, 1)].
Proof. exists 4, [97;99;103;116]. vm_compute. auto. Qed.

Lemma encode4_orig_panics_length_3 : count4_table false [97;99;103] = None /\ count4_table true [97;99;103] = Some [].
Proof. vm_compute. auto. Qed.
