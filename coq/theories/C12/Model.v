(** C12 — executable model of the demultiplexer (pkg/obingslibrary/multimatch.go, marker.go) and of
    the merge of overlapping primer matches (pkg/obiapat/pattern.go FilterBestMatch, as repaired by
    the fix: commit recorded in known_findings.d/C12.json).
    Strings are [list N] (bytes); positions are [Z] exactly where the Go code computes with [int]
    (they may go negative); counts are [nat].  Primer hits come from the SPECIFICATION matcher
    (mismatch count per window, IUPAC pattern letters) — the Manber automaton is property C10.
    Executable definitions only: proofs live in Proofs.v, property theorems in Props.v. *)
From Coq Require Import NArith ZArith List Bool Arith.
Import ListNotations.

Definition str := list N.

Fixpoint str_eqb (a b : str) : bool :=
  match a, b with
  | [], [] => true
  | x :: a', y :: b' => N.eqb x y && str_eqb a' b'
  | _, _ => false
  end.

(** ---------------- Hamming (multimatch.go) ---------------- *)
Fixpoint ham_count (a b : str) : nat :=
  match a, b with
  | x :: a', y :: b' => (if N.eqb x y then 0 else 1) + ham_count a' b'
  | _, _ => 0
  end.
Definition hamming (a b : str) : nat :=
  if Nat.eqb (length a) (length b) then ham_count a b else Nat.max (length a) (length b).

(** ---------------- Levenshtein, two rows (multimatch.go) ---------------- *)
(* inner loop over s2: [prev] = prev[j-1] :: prev[j] :: ..., [left] = curr[j-1]; returns curr[j..] *)
Fixpoint lev_row (c : N) (s2 : str) (prev : list nat) (left : nat) : list nat :=
  match s2, prev with
  | y :: s2', pd :: ((pu :: _) as prev') =>
      let cost := if N.eqb c y then 0 else 1 in
      let v := Nat.min (Nat.min (pu + 1) (left + 1)) (pd + cost) in
      v :: lev_row c s2' prev' v
  | _, _ => []
  end.
(* outer loop over s1: curr[0] = i *)
Fixpoint lev_rows (s1 s2 : str) (prev : list nat) (i : nat) : list nat :=
  match s1 with
  | [] => prev
  | c :: s1' => lev_rows s1' s2 (i :: lev_row c s2 prev i) (S i)
  end.
Definition levenshtein (s1 s2 : str) : nat :=
  match s1, s2 with
  | [], _ => length s2
  | _, [] => length s1
  | _, _ => last (lev_rows s1 s2 (seq 0 (S (length s2))) 1) 0
  end.

(** ---------------- ClosestForwardTag / ClosestReverseTag ----------------
    state = (mintag, mindist); mintag = "" is [[]], mindist = math.MaxInt is [None] *)
Definition cstep (dist : str -> str -> nat) (t : str) (st : str * option nat) (ts : str) : str * option nat :=
  let '(mintag, mind) := st in
  let d := dist ts t in
  match mind with
  | None => (ts, Some d)                                   (* d < MaxInt *)
  | Some m =>
      let mintag1 := if Nat.eqb d m && negb (str_eqb mintag []) && negb (str_eqb ts mintag) then [] else mintag in
      if Nat.ltb d m then (ts, Some d) else (mintag1, mind)
  end.
Definition closest (dist : str -> str -> nat) (tags : list str) (t : str) : str * option nat :=
  fold_left (cstep dist t) tags ([], None).

(** ---------------- lookForTag / lookForRescueTag ---------------- *)
Fixpoint drop_while (p : N -> bool) (l : str) : str :=
  match l with x :: l' => if p x then drop_while p l' else l | [] => [] end.
Fixpoint take_while (p : N -> bool) (l : str) : str :=
  match l with x :: l' => if p x then x :: take_while p l' else [] | [] => [] end.

(* the three backward scans of lookForTag, on the reversed fragment *)
Definition look_for_tag (s : str) (d : N) : str :=
  let r := rev s in
  let r1 := drop_while (fun c => negb (N.eqb c d)) r in
  let r2 := drop_while (fun c => N.eqb c d) r1 in
  let tg := take_while (fun c => negb (N.eqb c d)) r2 in
  let r3 := drop_while (fun c => negb (N.eqb c d)) r2 in
  match r3 with [] => [] | _ => rev tg end.               (* i < 0 : no leading delimiter *)

Open Scope Z_scope.
Definition nthZ (s : str) (i : Z) : N := nth (Z.to_nat i) s 0%N.
Definition subZ (s : str) (a b : Z) : str := firstn (Z.to_nat (b - a)) (skipn (Z.to_nat a) s).
Definition lenZ (s : str) : Z := Z.of_nat (length s).
(* for i >= 0 && p seq[i] { i-- } *)
Fixpoint back_while (fuel : nat) (s : str) (p : N -> bool) (i : Z) : Z :=
  match fuel with
  | O => i
  | S f => if (0 <=? i) && p (nthZ s i) then back_while f s p (i - 1) else i
  end.
(* index arithmetic transcribed; parameters with indel > taglength (Go would slice out of range) are not generated *)
Definition look_for_rescue_tag (s : str) (d : N) (taglength border indel : Z) : str :=
  let fuel := S (length s) in
  let isd := fun c => N.eqb c d in
  let nod := fun c => negb (N.eqb c d) in
  let i1 := back_while fuel s nod (lenZ s - 1) in
  let i2 := back_while fuel s isd i1 in
  let delimlen := i1 - i2 in
  if indel <? border - delimlen then []
  else
    let i3 := if border <? delimlen then i2 + (delimlen - border) else i2 in
    let e := i3 + 1 in
    let i4 := i3 - (taglength - indel) in
    let i5 := back_while fuel s nod i4 in
    let i6 := back_while fuel s isd i5 in
    let delimlen2 := Z.min (i5 - i6) border in
    let b := i6 + delimlen2 + 1 in
    if (i6 <? 0) || (indel <? Z.abs (taglength - e + b)) then [] else subZ s b e.

(** ---------------- DNA alphabet ---------------- *)
Open Scope N_scope.
(* a=1 c=2 g=4 t=8 *)
Definition mask (c : N) : N :=
  match c with
  | 97 => 1 | 99 => 2 | 103 => 4 | 116 => 8
  | 114 => 5 | 121 => 10 | 109 => 3 | 107 => 12 | 115 => 6 | 119 => 9
  | 98 => 14 | 100 => 13 | 104 => 11 | 118 => 7 | 110 => 15
  | _ => 0
  end.
Definition comp (c : N) : N :=
  match c with
  | 97 => 116 | 116 => 97 | 99 => 103 | 103 => 99
  | 114 => 121 | 121 => 114 | 109 => 107 | 107 => 109 | 115 => 115 | 119 => 119
  | 98 => 118 | 118 => 98 | 100 => 104 | 104 => 100
  | _ => 110
  end.
Definition rc (s : str) : str := rev (map comp s).
Open Scope Z_scope.

(** ---------------- specification primer matcher + FilterBestMatch/AllMatches ---------------- *)
Definition mhit := (Z * Z * Z)%type.        (* begin, end, mismatches *)
Fixpoint mism (pat w : str) : option Z :=
  match pat with
  | [] => Some 0
  | p :: pat' =>
      match w with
      | [] => None
      | b :: w' => match mism pat' w' with
                   | None => None
                   | Some k => Some (k + (if N.eqb (N.land (mask p) (mask b)) 0%N then 1 else 0))
                   end
      end
  end.
Fixpoint find_all (pat : str) (k from : Z) (s : str) (pos : Z) : list mhit :=
  match s with
  | [] => []
  | _ :: s' =>
      let rest := find_all pat k from s' (pos + 1) in
      match mism pat s with
      | Some e => if (from <=? pos) && (e <=? k) then (pos, pos + lenZ pat, e) :: rest else rest
      | None => rest
      end
  end.
Definition fb_step (st : mhit * list mhit) (m : mhit) : mhit * list mhit :=
  let '((b0, b1, b2), acc) := st in
  let '(m0, m1, m2) := m in
  if (10000 <=? b2) || (m0 - m2 <? b1 + b2)
  then (if m2 <? b2 then (m, acc) else st)
  else if b2 <? 10000 then (m, (b0, b1, b2) :: acc) else st.
Definition filter_best (l : list mhit) : list mhit :=
  let '((b0, b1, b2), acc) := fold_left fb_step l ((0, 0, 10000), []) in
  rev (if b2 <? 10000 then (b0, b1, b2) :: acc else acc).
Definition all_matches (pat : str) (k from : Z) (s : str) : list mhit :=
  filter (fun m => snd m <=? k) (filter_best (find_all pat k from s 0)).

(** ---------------- library ---------------- *)
Record marker := mkM {
  m_fwd : str; m_rev : str;
  m_ftl : N; m_rtl : N; m_fsp : N; m_rsp : N; m_ferr : N; m_rerr : N;
  m_fmode : N; m_rmode : N;                 (* 0 strict, 1 hamming, 2 indel *)
  m_fdelim : N; m_rdelim : N; m_ftind : N; m_rtind : N;
  m_samples : list (str * str * N) }.       (* forward tag, reverse tag, sample id *)

Record hit := mkH { hb : Z; he : Z; hk : Z; hmk : Z; hfw : bool }.
Definition mk_hit (i : Z) (fw : bool) (m : mhit) : hit := mkH (fst (fst m)) (snd (fst m)) (snd m) i fw.

Definition marker_hits (i : Z) (m : marker) (s : str) : list hit :=
  let ferr := Z.of_N (m_ferr m) in
  let rerr := Z.of_N (m_rerr m) in
  let f := all_matches (m_fwd m) ferr 0 s in
  let part1 := match f with
               | [] => []
               | (b, _, _) :: _ => map (mk_hit i true) f ++ map (mk_hit (- i) true) (all_matches (rc (m_rev m)) rerr (b + 1) s)
               end in
  let r := all_matches (m_rev m) rerr 0 s in
  let part2 := match r with
               | [] => []
               | (b, _, _) :: _ => map (mk_hit i false) r ++ map (mk_hit (- i) false) (all_matches (rc (m_fwd m)) ferr (b + 1) s)
               end in
  part1 ++ part2.
Fixpoint lib_hits (i : Z) (lib : list marker) (s : str) : list hit :=
  match lib with [] => [] | m :: lib' => marker_hits i m s ++ lib_hits (i + 1) lib' s end.

(* slices.SortFunc by Begin (insertion sort below 13 elements: stable) *)
Fixpoint insert_hit (h : hit) (l : list hit) : list hit :=
  match l with
  | [] => [h]
  | x :: l' => if hb h <? hb x then h :: l else x :: insert_hit h l'
  end.
Definition sort_hits (l : list hit) : list hit := fold_left (fun acc h => insert_hit h acc) l [].

(** the two-state machine of ExtractMultiBarcode: pairs (from, match) *)
Fixpoint pair_hits (hits : list hit) (from : option hit) : list (hit * hit) :=
  match hits with
  | [] => []
  | h :: rest =>
      match from with
      | None => if 0 <? hmk h then pair_hits rest (Some h) else pair_hits rest None
      | Some f =>
          if (hmk h =? - hmk f) && Bool.eqb (hfw h) (hfw f) then (f, h) :: pair_hits rest None
          else if 0 <? hmk h then pair_hits rest (Some h)
          else pair_hits rest None
      end
  end.

(** ---------------- tag extraction ---------------- *)
Record side := mkS { s_tl : Z; s_sp : Z; s_delim : N; s_tind : Z }.
Definition fside (m : marker) := mkS (Z.of_N (m_ftl m)) (Z.of_N (m_fsp m)) (m_fdelim m) (Z.of_N (m_ftind m)).
Definition rside (m : marker) := mkS (Z.of_N (m_rtl m)) (Z.of_N (m_rsp m)) (m_rdelim m) (Z.of_N (m_rtind m)).

Definition begin_fixed (s : str) (b : Z) (sd : side) : str :=
  let fb := b - s_sp sd - s_tl sd in
  if fb <? 0 then [] else subZ s fb (b - s_sp sd).
Definition begin_delimited (s : str) (b : Z) (sd : side) : str :=
  let taglength := 2 * s_sp sd + s_tl sd in
  let fb := Z.max 0 (b - taglength * 2) in
  look_for_tag (subZ s fb b) (s_delim sd).
Definition begin_rescue (s : str) (b : Z) (sd : side) : str :=
  let frg := s_sp sd + s_tl sd in
  let fb := Z.max 0 (b - frg * 2) in
  look_for_rescue_tag (subZ s fb b) (s_delim sd) (s_tl sd) (s_sp sd) (s_tind sd).
Definition end_fixed (s : str) (e : Z) (sd : side) : str :=
  let fe := e + s_sp sd + s_tl sd in
  if lenZ s <? fe then [] else rc (subZ s (e + s_sp sd) fe).
Definition end_delimited (s : str) (e : Z) (sd : side) : str :=
  let taglength := s_sp sd + s_tl sd in
  let fb := Z.min (lenZ s) (e + taglength * 2) in
  if fb <=? e then [] else look_for_tag (rc (subZ s e fb)) (s_delim sd).
Definition end_rescue (s : str) (e : Z) (sd : side) : str :=
  let frg := s_sp sd + s_tl sd in
  let fb := Z.min (lenZ s) (e + frg * 2) in
  if fb <=? e then [] else look_for_rescue_tag (rc (subZ s e fb)) (s_delim sd) (s_tl sd) (s_sp sd) (s_tind sd).

Definition begin_tag (s : str) (b : Z) (sd : side) : str :=
  if s_tl sd =? 0 then []
  else if N.eqb (s_delim sd) 0%N then begin_fixed s b sd
  else if s_tind sd =? 0 then begin_delimited s b sd
  else begin_rescue s b sd.
Definition end_tag (s : str) (e : Z) (sd : side) : str :=
  if s_tl sd =? 0 then []
  else if N.eqb (s_delim sd) 0%N then end_fixed s e sd
  else if s_tind sd =? 0 then end_delimited s e sd
  else end_rescue s e sd.

(* TagExtractor: (forward tag, reverse tag) *)
Definition tag_extractor (m : marker) (s : str) (b e : Z) (forward : bool) : str * str :=
  if forward then (begin_tag s b (fside m), end_tag s e (rside m))
  else (end_tag s e (fside m), begin_tag s b (rside m)).

(** ---------------- SampleIdentifier ---------------- *)
Definition propose (mode : N) (tags : list str) (t : str) : str :=
  match t with
  | [] => []
  | _ => match mode with
         | 0%N => t
         | 1%N => fst (closest hamming tags t)
         | 2%N => fst (closest levenshtein tags t)
         | _ => []
         end
  end.
Fixpoint lookup_sample (samples : list (str * str * N)) (f r : str) : option N :=
  match samples with
  | [] => None
  | (a, b, id) :: rest => if str_eqb a f && str_eqb b r then Some id else lookup_sample rest f r
  end.
Definition proposed_pair (m : marker) (tags : str * str) : str * str :=
  (propose (m_fmode m) (map (fun x => fst (fst x)) (m_samples m)) (fst tags),
   propose (m_rmode m) (map (fun x => snd (fst x)) (m_samples m)) (snd tags)).
Definition identify (m : marker) (tags : str * str) : option N :=
  let p := proposed_pair m tags in lookup_sample (m_samples m) (fst p) (snd p).

(** ---------------- one output record ---------------- *)
Record res := mkR {
  r_bar : str; r_dir : bool; r_mk : N; r_fm : str; r_rm : str; r_fe : N; r_re : N;
  r_ft : str; r_rt : str; r_sample : option N; r_err : bool }.
Inductive obs := NoBarcode (s : str) | Recs (l : list res).

Definition dummy_marker := mkM [] [] 0 0 0 0 0 0 0 0 0 0 0 0 [].
Definition emit (lib : list marker) (s : str) (fh : hit * hit) : list res :=
  let '(f, h) := fh in
  let m := nth (Z.to_nat (hmk f - 1)) lib dummy_marker in
  if (hb f <? 0) || (lenZ s <? he f) then []                              (* "Cannot extract ... primer match" *)
  else if (he h <=? hb h) || (hb h <? 0) || (lenZ s <=? hb h) || (lenZ s <? he h) then []
  else
    let tags := tag_extractor m s (hb f) (he h) (hfw f) in
    (* barcode := Subsequence(from.End, match.Begin) ; an error (empty or inverted interval) drops the record *)
    if (hb h <=? he f) || (lenZ s <=? he f) then []
    else
      let bar0 := subZ s (he f) (hb h) in
      let bar := if hfw h then bar0 else rc bar0 in
      let w1 := subZ s (hb f) (he f) in
      let w2 := rc (subZ s (hb h) (he h)) in
      let sm := identify m tags in
      [ mkR bar (hfw f) (Z.to_N (hmk f - 1))
            (if hfw f then w1 else w2) (if hfw f then w2 else w1)
            (Z.to_N (if hfw f then hk f else hk h)) (Z.to_N (if hfw f then hk h else hk f))
            (fst tags) (snd tags) sm (match sm with Some _ => false | None => true end) ].

Definition demux_hits (lib : list marker) (s : str) (hits : list hit) : obs :=
  match flat_map (emit lib s) (pair_hits (sort_hits hits) None) with
  | [] => NoBarcode s
  | l => Recs l
  end.
Definition demux (lib : list marker) (s : str) : obs := demux_hits lib s (lib_hits 1 lib s).

(** ---------------- correspondence cases ---------------- *)
Definition optN_eqb (a b : option N) : bool :=
  match a, b with Some x, Some y => N.eqb x y | None, None => true | _, _ => false end.
Definition res_eqb (a b : res) : bool :=
  str_eqb (r_bar a) (r_bar b) && Bool.eqb (r_dir a) (r_dir b) && N.eqb (r_mk a) (r_mk b) &&
  str_eqb (r_fm a) (r_fm b) && str_eqb (r_rm a) (r_rm b) && N.eqb (r_fe a) (r_fe b) && N.eqb (r_re a) (r_re b) &&
  str_eqb (r_ft a) (r_ft b) && str_eqb (r_rt a) (r_rt b) && optN_eqb (r_sample a) (r_sample b) && Bool.eqb (r_err a) (r_err b).
Fixpoint list_eqb {A} (eqb : A -> A -> bool) (a b : list A) : bool :=
  match a, b with [], [] => true | x :: a', y :: b' => eqb x y && list_eqb eqb a' b' | _, _ => false end.
Definition obs_eqb (a b : obs) : bool :=
  match a, b with
  | NoBarcode x, NoBarcode y => str_eqb x y
  | Recs x, Recs y => list_eqb res_eqb x y
  | _, _ => false
  end.

(** every iteration order of a small tag set (round 2: the Go map is iterated in an order that changes from run to run) *)
Fixpoint insert_all {A} (x : A) (l : list A) : list (list A) :=
  match l with
  | [] => [[x]]
  | y :: l' => (x :: l) :: map (cons y) (insert_all x l')
  end.
Fixpoint perms {A} (l : list A) : list (list A) :=
  match l with [] => [[]] | x :: l' => flat_map (insert_all x) (perms l') end.

Inductive ccase :=
| CHam (a b : str) (n : N)
| CLev (a b : str) (n : N)
| CClosest (tags : list (str * str)) (t : str) (fwd : bool) (lev : bool) (otag : str) (od : option N)
| CLook (s : str) (d : N) (out : str)
| CRescue (s : str) (d : N) (tl border indel : N) (out : str)
| CDemux (lib : list marker) (s : str) (o : obs)
(* the tags in ONE observed iteration order are a [CClosest] case; here: every permutation of the tag list gives the observed answer *)
| CClosestAll (tags : list str) (t : str) (lev : bool) (otag : str) (od : option N)
(* primer matches supplied by the library's matcher (re-aligned spans when the primers allow indels) *)
| CDemuxH (lib : list marker) (s : str) (hits : list hit) (o : obs).

Definition case_ok (c : ccase) : bool :=
  match c with
  | CHam a b n => N.eqb (N.of_nat (hamming a b)) n
  | CLev a b n => N.eqb (N.of_nat (levenshtein a b)) n
  | CClosest tags t fwd lev otag od =>
      let r := closest (if lev then levenshtein else hamming) (map (if fwd then fst else snd) tags) t in
      str_eqb (fst r) otag && optN_eqb (option_map N.of_nat (snd r)) od
  | CLook s d out => str_eqb (look_for_tag s d) out
  | CRescue s d tl b i out => str_eqb (look_for_rescue_tag s d (Z.of_N tl) (Z.of_N b) (Z.of_N i)) out
  | CDemux lib s o => obs_eqb (demux lib s) o
  | CClosestAll tags t lev otag od =>
      forallb (fun p => let r := closest (if lev then levenshtein else hamming) p t in
                        str_eqb (fst r) otag && optN_eqb (option_map N.of_nat (snd r)) od) (perms tags)
  | CDemuxH lib s hits o => obs_eqb (demux_hits lib s hits) o
  end.
Fixpoint mismatches_from (i : nat) (l : list ccase) : list nat :=
  match l with
  | [] => []
  | c :: l' => let rest := mismatches_from (S i) l' in if case_ok c then rest else i :: rest
  end.
Definition mismatches := mismatches_from 0.
