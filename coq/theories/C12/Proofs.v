(** C12 — lemmas about the model (Model.v). *)
From Coq Require Import NArith ZArith List Bool Arith Lia Permutation.
Import ListNotations.
From OBI.C12 Require Import Model.
Local Open Scope nat_scope.

Lemma str_eqb_spec : forall a b, str_eqb a b = true <-> a = b.
Proof.
  induction a as [|x a IH]; destruct b as [|y b]; simpl; split; intro H; try discriminate; try reflexivity.
  - apply andb_true_iff in H. destruct H as [H1 H2]. apply N.eqb_eq in H1. apply IH in H2. subst. reflexivity.
  - inversion H; subst. apply andb_true_iff. split. apply N.eqb_refl. apply IH. reflexivity.
Qed.

(* ======================= clo ======================= *)


Section Closest.
Variable dist : str -> str -> nat.
Variable t : str.

(* what the fold has computed after the tags of [l] *)
Definition cinv (l : list str) (st : str * option nat) : Prop :=
  match l with
  | [] => st = ([], None)
  | _ => exists m, snd st = Some m
         /\ (exists w, In w l /\ dist w t = m)
         /\ (forall v, In v l -> m <= dist v t)
         /\ (fst st <> [] -> In (fst st) l /\ dist (fst st) t = m /\ forall v, In v l -> dist v t = m -> v = fst st)
         /\ (fst st = [] -> exists v w, In v l /\ In w l /\ v <> w /\ dist v t = m /\ dist w t = m)
  end.

Lemma closest_snoc : forall l x, closest dist (l ++ [x]) t = cstep dist t (closest dist l t) x.
Proof. intros. unfold closest. rewrite fold_left_app. reflexivity. Qed.

Lemma str_eqb_false : forall a b, str_eqb a b = false <-> a <> b.
Proof. intros. split; intro H.
  - intro E. apply str_eqb_spec in E. congruence.
  - destruct (str_eqb a b) eqn:E; auto. apply str_eqb_spec in E. contradiction.
Qed.

Ltac split5 := split; [|split; [|split; [|split]]].
Ltac inapp := apply in_or_app; simpl; auto.
Ltac caseapp Hv := apply in_app_or in Hv; destruct Hv as [Hv|[Hv|[]]]; [|subst].

Lemma cinv_ne : forall l st, l <> [] -> (cinv l st <-> exists m, snd st = Some m
         /\ (exists w, In w l /\ dist w t = m)
         /\ (forall v, In v l -> m <= dist v t)
         /\ (fst st <> [] -> In (fst st) l /\ dist (fst st) t = m /\ forall v, In v l -> dist v t = m -> v = fst st)
         /\ (fst st = [] -> exists v w, In v l /\ In w l /\ v <> w /\ dist v t = m /\ dist w t = m)).
Proof. intros l st H. destruct l. contradiction. reflexivity. Qed.

Lemma cinv_step : forall l st x, ~ In [] (l ++ [x]) -> cinv l st -> cinv (l ++ [x]) (cstep dist t st x).
Proof.
  intros l st x Hne Hinv.
  assert (Hx : x <> []). { intro E. apply Hne. subst. inapp. }
  destruct st as [u md].
  destruct l as [|y l].
  - simpl in Hinv. inversion Hinv; subst. simpl.
    exists (dist x t). simpl. split5.
    + reflexivity.
    + exists x. auto.
    + intros v [E|[]]. subst. lia.
    + intros _. split; [auto|split; [auto|]]. intros v [E|[]] _. auto.
    + intro E. contradiction.
  - assert (HL : y :: l <> []) by discriminate.
    remember (y :: l) as L. clear HeqL.
    apply cinv_ne in Hinv; auto.
    apply cinv_ne. { destruct L; discriminate. }
    destruct Hinv as (m & Hm & (w & Hw & Hwd) & Hmin & Hu & Hnil).
    simpl in Hm, Hu, Hnil. subst md.
    unfold cstep.
    destruct (Nat.ltb (dist x t) m) eqn:Hlt.
    + apply Nat.ltb_lt in Hlt. exists (dist x t). simpl. split5.
      * reflexivity.
      * exists x. split; auto. inapp.
      * intros v Hv. caseapp Hv. specialize (Hmin v Hv). lia. lia.
      * intros _. split; [inapp|split; [auto|]].
        intros v Hv Hd. caseapp Hv. specialize (Hmin v Hv). lia. auto.
      * intro E. contradiction.
    + apply Nat.ltb_ge in Hlt.
      exists m. simpl.
      destruct (Nat.eqb (dist x t) m) eqn:Heq.
      * apply Nat.eqb_eq in Heq.
        destruct (str_eqb u []) eqn:Hun.
        -- apply str_eqb_spec in Hun. subst u. simpl. split5.
           ++ reflexivity.
           ++ exists w. split; auto. inapp.
           ++ intros v Hv. caseapp Hv. auto. lia.
           ++ intro E. contradiction E. reflexivity.
           ++ intros _. destruct (Hnil eq_refl) as (v1 & v2 & H1 & H2 & H3 & H4 & H5).
              exists v1, v2. split; [inapp|split; [inapp|auto]].
        -- apply str_eqb_false in Hun. simpl.
           destruct (Hu Hun) as (Hin & Hd & Huniq).
           destruct (str_eqb x u) eqn:Hxu.
           ++ apply str_eqb_spec in Hxu. subst x. simpl. split5.
              ** reflexivity.
              ** exists u. split; auto. inapp.
              ** intros v Hv. caseapp Hv. auto. lia.
              ** intros _. split; [inapp|split; [auto|]].
                 intros v Hv Hdv. caseapp Hv; auto.
              ** intro E. contradiction.
           ++ apply str_eqb_false in Hxu. simpl. split5.
              ** reflexivity.
              ** exists u. split; auto. inapp.
              ** intros v Hv. caseapp Hv. auto. lia.
              ** intro E. contradiction E. reflexivity.
              ** intros _. exists x, u. split; [inapp|split; [inapp|auto]].
      * apply Nat.eqb_neq in Heq. simpl. split5.
        -- reflexivity.
        -- exists w. split; auto. inapp.
        -- intros v Hv. caseapp Hv. auto. lia.
        -- intro H. destruct (Hu H) as (Hin & Hd & Huniq). split; [inapp|split; [auto|]].
           intros v Hv Hdv. caseapp Hv. auto. lia.
        -- intro E. destruct (Hnil E) as (v1 & v2 & H1 & H2 & H3 & H4 & H5).
           exists v1, v2. split; [inapp|split; [inapp|auto]].
Qed.

Lemma closest_inv : forall l, ~ In [] l -> cinv l (closest dist l t).
Proof.
  induction l as [|x l IH] using rev_ind; intro Hne.
  - reflexivity.
  - rewrite closest_snoc. apply cinv_step; auto. apply IH. intro H. apply Hne. apply in_or_app. auto.
Qed.

(* the invariant determines the result from the SET of tags *)
Lemma cinv_functional : forall l l' st st', (forall x, In x l <-> In x l') -> cinv l st -> cinv l' st' -> st = st'.
Proof.
  intros l l' [u md] [u' md'] Hset H H'.
  destruct l as [|y l]; destruct l' as [|y' l'].
  - simpl in *. congruence.
  - exfalso. apply (Hset y'). left. auto.
  - exfalso. apply (Hset y). left. auto.
  - assert (HL : y :: l <> []) by discriminate. assert (HL' : y' :: l' <> []) by discriminate.
    remember (y :: l) as L. remember (y' :: l') as L'. clear HeqL HeqL'.
    apply (proj1 (cinv_ne L _ HL)) in H. apply (proj1 (cinv_ne L' _ HL')) in H'.
    destruct H as (m & Hm & (w & Hw & Hwd) & Hmin & Hu & Hnil).
    destruct H' as (m' & Hm' & (w' & Hw' & Hwd') & Hmin' & Hu' & Hnil').
    simpl in *. subst md md'.
    assert (Hmm : m' = m).
    { pose proof Hw as Hw2. pose proof Hw' as Hw2'. apply Hset in Hw2. apply Hset in Hw2'. specialize (Hmin' _ Hw2). specialize (Hmin _ Hw2'). lia. }
    rewrite Hmm in *. clear Hmm.
    assert (u = u').
    { destruct (list_eq_dec N.eq_dec u []) as [E|E]; destruct (list_eq_dec N.eq_dec u' []) as [E'|E'].
      - congruence.
      - exfalso. destruct (Hnil E) as (v1 & v2 & H1 & H2 & H3 & H4 & H5).
        destruct (Hu' E') as (_ & _ & Huniq). apply Hset in H1. apply Hset in H2.
        apply H3. rewrite (Huniq _ H1 H4), (Huniq _ H2 H5). reflexivity.
      - exfalso. destruct (Hnil' E') as (v1 & v2 & H1 & H2 & H3 & H4 & H5).
        destruct (Hu E) as (_ & _ & Huniq). apply Hset in H1. apply Hset in H2.
        apply H3. rewrite (Huniq _ H1 H4), (Huniq _ H2 H5). reflexivity.
      - destruct (Hu E) as (Hin & Hd & Huniq). destruct (Hu' E') as (Hin' & Hd' & Huniq').
        apply Hset in Hin. apply Huniq'; auto. }
    subst. reflexivity.
Qed.

Theorem closest_perm : forall l l', ~ In [] l -> (forall x, In x l <-> In x l') -> closest dist l t = closest dist l' t.
Proof.
  intros l l' Hne Hset. apply (cinv_functional l l'); auto.
  - apply closest_inv; auto.
  - apply closest_inv. intro H. apply Hne. apply Hset. auto.
Qed.

(* Some u  <->  u is the unique tag at minimal distance *)
Definition unique_nearest (l : list str) (u : str) : Prop :=
  In u l /\ forall v, In v l -> v <> u -> dist u t < dist v t.

Theorem closest_unique : forall l u, ~ In [] l -> u <> [] ->
  (fst (closest dist l t) = u <-> unique_nearest l u).
Proof.
  intros l u Hne Hu.
  pose proof (closest_inv l Hne) as H.
  destruct (closest dist l t) as [u0 md]. simpl.
  destruct l as [|y l].
  - simpl in H. inversion H; subst. split; intro E. congruence. destruct E as [[] _].
  - assert (HL : y :: l <> []) by discriminate. remember (y :: l) as L. clear HeqL.
    apply (proj1 (cinv_ne L _ HL)) in H.
    destruct H as (m & Hm & (w & Hw & Hwd) & Hmin & Hu0 & Hnil). simpl in *.
    split.
    + intro E. subst u0. destruct (Hu0 Hu) as (Hin & Hd & Huniq). split; auto.
      intros v Hv Hvu. specialize (Hmin v Hv).
      destruct (Nat.eq_dec (dist v t) m) as [E|E]. exfalso. apply Hvu. auto. lia.
    + intros [Hin Hbest].
      assert (Hdu : dist u t = m).
      { specialize (Hmin u Hin). destruct (list_eq_dec N.eq_dec w u) as [E|E]. subst; auto.
        specialize (Hbest w Hw E). lia. }
      destruct (list_eq_dec N.eq_dec u0 []) as [E|E].
      * exfalso. destruct (Hnil E) as (v1 & v2 & H1 & H2 & H3 & H4 & H5).
        destruct (list_eq_dec N.eq_dec v1 u) as [E1|E1]; destruct (list_eq_dec N.eq_dec v2 u) as [E2|E2]; try congruence.
        specialize (Hbest v2 H2 E2). lia. specialize (Hbest v1 H1 E1). lia. specialize (Hbest v1 H1 E1). lia.
      * destruct (Hu0 E) as (Hin0 & Hd0 & Huniq). symmetry. apply Huniq; auto.
Qed.

(* and "" exactly when there is no tag or a tie *)
Theorem closest_none : forall l, ~ In [] l ->
  (fst (closest dist l t) = [] <-> forall u, ~ unique_nearest l u).
Proof.
  intros l Hne. split.
  - intros E u Hun. assert (Hu : u <> []). { intro E'. subst. destruct Hun as [Hin _]. contradiction. }
    apply (closest_unique l u Hne Hu) in Hun. congruence.
  - intro Hno. destruct (list_eq_dec N.eq_dec (fst (closest dist l t)) []) as [E|E]; auto.
    exfalso. apply (Hno (fst (closest dist l t))). apply closest_unique; auto.
Qed.
End Closest.

Lemma closest_permutation : forall (dist : str -> str -> nat) (t : str) (tags tags' : list str),
  ~ In [] tags -> Permutation tags tags' -> closest dist tags t = closest dist tags' t.
Proof.
  intros dist t tags tags' Hne HP. apply closest_perm; auto.
  intro x; split; intro H; [eapply Permutation_in; eauto | eapply Permutation_in; [apply Permutation_sym|]; eauto].
Qed.

(* ======================= lev ======================= *)


(** recursive (Wagner-Fischer) definition of the edit distance: recurrence on the first characters *)
Fixpoint edit (a b : str) : nat :=
  match a with
  | [] => length b
  | x :: a' =>
      (fix inner (b : str) : nat :=
         match b with
         | [] => S (length a')
         | y :: b' => Nat.min (Nat.min (edit a' b + 1) (inner b' + 1)) (edit a' b' + (if N.eqb x y then 0 else 1))
         end) b
  end.

Lemma edit_cons : forall x a y b,
  edit (x :: a) (y :: b) = Nat.min (Nat.min (edit a (y :: b) + 1) (edit (x :: a) b + 1)) (edit a b + (if N.eqb x y then 0 else 1)).
Proof. reflexivity. Qed.
Lemma edit_nil_r : forall a, edit a [] = length a.
Proof. destruct a; reflexivity. Qed.

Fixpoint rowspec (p q s2 : str) : list nat :=
  edit p q :: match s2 with [] => [] | y :: s2' => rowspec p (y :: q) s2' end.

Lemma rowspec_unfold : forall p q s, rowspec p q s = edit p q :: tl (rowspec p q s).
Proof. destruct s; reflexivity. Qed.

Lemma lev_row_spec : forall s2 c p q,
  lev_row c s2 (rowspec p q s2) (edit (c :: p) q) = tl (rowspec (c :: p) q s2).
Proof.
  induction s2 as [|y s2 IH]; intros c p q.
  - reflexivity.
  - cbn [rowspec tl]. rewrite (rowspec_unfold p (y :: q) s2). cbn [lev_row].
    rewrite <- (rowspec_unfold p (y :: q) s2).
    rewrite (rowspec_unfold (c :: p) (y :: q) s2).
    rewrite edit_cons. f_equal.
    rewrite <- IH. rewrite edit_cons. reflexivity.
Qed.

Lemma lev_rows_spec : forall s1 s2 p,
  lev_rows s1 s2 (rowspec p [] s2) (S (length p)) = rowspec (rev s1 ++ p) [] s2.
Proof.
  induction s1 as [|c s1 IH]; intros s2 p.
  - reflexivity.
  - cbn [lev_rows].
    replace (S (length p)) with (edit (c :: p) []) at 2 3 by reflexivity.
    rewrite lev_row_spec.
    replace (S (length p)) with (edit (c :: p) []) by reflexivity.
    rewrite <- rowspec_unfold.
    replace (S (edit (c :: p) [])) with (S (length (c :: p))) by reflexivity.
    rewrite IH. simpl. rewrite <- app_assoc. reflexivity.
Qed.

Lemma rowspec_nil : forall s2 q, rowspec [] q s2 = seq (length q) (S (length s2)).
Proof.
  induction s2 as [|y s2 IH]; intro q.
  - reflexivity.
  - cbn [rowspec]. rewrite IH. reflexivity.
Qed.

Lemma last_rowspec : forall s2 p q, last (rowspec p q s2) 0 = edit p (rev s2 ++ q).
Proof.
  induction s2 as [|y s2 IH]; intros p q.
  - reflexivity.
  - cbn [rowspec]. rewrite (rowspec_unfold p (y :: q) s2).
    change (last (edit p q :: edit p (y :: q) :: tl (rowspec p (y :: q) s2)) 0) with (last (edit p (y :: q) :: tl (rowspec p (y :: q) s2)) 0).
    rewrite <- rowspec_unfold. rewrite IH. simpl. rewrite <- app_assoc. reflexivity.
Qed.

Theorem levenshtein_is_edit : forall s1 s2, levenshtein s1 s2 = edit (rev s1) (rev s2).
Proof.
  intros s1 s2. unfold levenshtein.
  destruct s1 as [|c s1].
  - simpl. rewrite rev_length. reflexivity.
  - destruct s2 as [|y s2].
    + rewrite edit_nil_r. rewrite rev_length. reflexivity.
    + remember (c :: s1) as a. remember (y :: s2) as b.
      replace (seq 0 (S (length b))) with (rowspec [] [] b) by (rewrite rowspec_nil; reflexivity).
      replace 1 with (S (length (@nil N))) by reflexivity.
      rewrite lev_rows_spec. rewrite last_rowspec. rewrite !app_nil_r. reflexivity.
Qed.

(** the recurrence does not depend on the end it starts from: elementary consequences used by the safety statement *)
Lemma edit_refl : forall a, edit a a = 0.
Proof.
  induction a as [|x a IH]. reflexivity.
  rewrite edit_cons. rewrite IH. rewrite N.eqb_refl. lia.
Qed.

Lemma edit_zero : forall a b, edit a b = 0 -> a = b.
Proof.
  induction a as [|x a IH]; intros b H.
  - destruct b; simpl in H; [reflexivity|discriminate].
  - destruct b as [|y b]. simpl in H. discriminate.
    rewrite edit_cons in H.
    destruct (N.eqb x y) eqn:E.
    + apply N.eqb_eq in E. subst. f_equal. apply IH. lia.
    + lia.
Qed.

Theorem levenshtein_zero_iff : forall a b, levenshtein a b = 0 <-> a = b.
Proof.
  intros. rewrite levenshtein_is_edit. split; intro H.
  - apply edit_zero in H. rewrite <- (rev_involutive a), <- (rev_involutive b). congruence.
  - subst. apply edit_refl.
Qed.

(** Hamming *)
Definition mismatch_positions (a b : str) : nat :=
  length (filter (fun p => negb (N.eqb (fst p) (snd p))) (combine a b)).

Lemma ham_count_spec : forall a b, ham_count a b = mismatch_positions a b.
Proof.
  induction a as [|x a IH]; intros [|y b]; try reflexivity.
  unfold mismatch_positions in *. simpl. rewrite IH. destruct (N.eqb x y); reflexivity.
Qed.

Theorem hamming_spec : forall a b,
  (length a = length b -> hamming a b = mismatch_positions a b) /\
  (length a <> length b -> hamming a b = Nat.max (length a) (length b)).
Proof.
  intros a b. unfold hamming. split; intro H.
  - apply Nat.eqb_eq in H. rewrite H. apply ham_count_spec.
  - apply Nat.eqb_neq in H. rewrite H. reflexivity.
Qed.

Lemma ham_count_zero : forall a b, length a = length b -> ham_count a b = 0 -> a = b.
Proof.
  induction a as [|x a IH]; intros [|y b] HL H; try discriminate; try reflexivity.
  simpl in *. destruct (N.eqb x y) eqn:E; [|discriminate]. apply N.eqb_eq in E. subst. f_equal. apply IH; lia.
Qed.
Lemma ham_count_refl : forall a, ham_count a a = 0.
Proof. induction a; simpl; auto. rewrite N.eqb_refl. auto. Qed.

Theorem hamming_zero_iff : forall a b, hamming a b = 0 <-> a = b.
Proof.
  intros a b. unfold hamming. split; intro H.
  - destruct (Nat.eqb (length a) (length b)) eqn:E.
    + apply Nat.eqb_eq in E. apply ham_count_zero; auto.
    + apply Nat.eqb_neq in E. destruct a, b; simpl in *; try lia; try reflexivity.
  - subst. rewrite Nat.eqb_refl. apply ham_count_refl.
Qed.

(* ======================= safe ======================= *)


Lemma lookup_sample_some : forall l f r id, lookup_sample l f r = Some id -> In (f, r, id) l.
Proof.
  induction l as [|[[a b] i] l IH]; intros f r id H; simpl in H. discriminate.
  destruct (str_eqb a f && str_eqb b r) eqn:E.
  - apply andb_true_iff in E. destruct E as [E1 E2]. apply str_eqb_spec in E1. apply str_eqb_spec in E2.
    inversion H; subst. left. reflexivity.
  - right. apply IH. exact H.
Qed.
Lemma lookup_sample_none : forall l f r, lookup_sample l f r = None -> forall id, ~ In (f, r, id) l.
Proof.
  induction l as [|[[a b] i] l IH]; intros f r H id Hin; simpl in *. contradiction.
  destruct (str_eqb a f && str_eqb b r) eqn:E. discriminate.
  destruct Hin as [Hin|Hin].
  - inversion Hin; subst. rewrite (proj2 (str_eqb_spec f f) eq_refl), (proj2 (str_eqb_spec r r) eq_refl) in E. discriminate.
  - eapply IH; eauto.
Qed.

(** what SAFETY says of one output record [r] of the read [s]:
    its tags are the ones cut next to a paired (from, match) couple of primer hits of marker [r_mk r];
    a sample id is present only if the pair of tags proposed under the declared modes is a key of that marker's
    table with that very id (and then the record carries no error flag); otherwise the record is flagged. *)
Definition safe_record (lib : list marker) (s : str) (hits : list hit) (r : res) : Prop :=
  let m := nth (N.to_nat (r_mk r)) lib dummy_marker in
  (exists f h, In (f, h) (pair_hits (sort_hits hits) None) /\ r_mk r = Z.to_N (hmk f - 1) /\
               (r_ft r, r_rt r) = tag_extractor m s (hb f) (he h) (hfw f)) /\
  let p := proposed_pair m (r_ft r, r_rt r) in
  match r_sample r with
  | Some id => In (fst p, snd p, id) (m_samples m) /\ r_err r = false
  | None => (forall id, ~ In (fst p, snd p, id) (m_samples m)) /\ r_err r = true
  end.

Lemma emit_safe : forall lib s hits f h r,
  In (f, h) (pair_hits (sort_hits hits) None) -> In r (emit lib s (f, h)) -> safe_record lib s hits r.
Proof.
  intros lib s hits f h r Hp Hr. unfold emit in Hr.
  destruct ((hb f <? 0)%Z || (lenZ s <? he f)%Z); [contradiction|].
  destruct ((he h <=? hb h)%Z || (hb h <? 0)%Z || (lenZ s <=? hb h)%Z || (lenZ s <? he h)%Z); [contradiction|].
  destruct ((hb h <=? he f)%Z || (lenZ s <=? he f)%Z); [contradiction|].
  destruct Hr as [Hr|[]]. subst r. unfold safe_record. cbn [r_mk r_ft r_rt r_sample r_err].
  rewrite Z_N_nat.
  set (m := nth (Z.to_nat (hmk f - 1)) lib dummy_marker).
  set (tg := tag_extractor m s (hb f) (he h) (hfw f)).
  split.
  - exists f, h. split; [exact Hp|]. split; [reflexivity|]. symmetry. apply surjective_pairing.
  - rewrite <- (surjective_pairing tg).
    unfold identify. destruct (lookup_sample (m_samples m) (fst (proposed_pair m tg)) (snd (proposed_pair m tg))) eqn:E.
    + split; [|reflexivity]. apply lookup_sample_some. exact E.
    + split; [|reflexivity]. apply lookup_sample_none. exact E.
Qed.

Theorem demux_hits_safe : forall lib s hits rs, demux_hits lib s hits = Recs rs -> forall r, In r rs -> safe_record lib s hits r.
Proof.
  intros lib s hits rs H r Hr. unfold demux_hits in H.
  destruct (flat_map (emit lib s) (pair_hits (sort_hits hits) None)) as [|r0 l] eqn:E; [discriminate|].
  inversion H; subst rs. rewrite <- E in Hr. apply in_flat_map in Hr. destruct Hr as [[f h] [Hin Hr]].
  eapply emit_safe; eauto.
Qed.

Theorem demux_safe : forall lib s rs, demux lib s = Recs rs -> forall r, In r rs -> safe_record lib s (lib_hits 1 lib s) r.
Proof. intros. eapply demux_hits_safe; eauto. Qed.

(* ======================= canon ======================= *)


(** ---------- list / position lemmas ---------- *)
Lemma lenZ_app : forall a b : str, lenZ (a ++ b) = (lenZ a + lenZ b)%Z.
Proof. intros. unfold lenZ. rewrite app_length. lia. Qed.
Lemma lenZ_nonneg : forall a : str, (0 <= lenZ a)%Z.
Proof. intros. unfold lenZ. lia. Qed.
Lemma lenZ_pos : forall a : str, a <> [] -> (0 < lenZ a)%Z.
Proof. intros [|x a] H. contradiction. unfold lenZ. simpl. lia. Qed.
Lemma lenZ_zero : forall a : str, lenZ a = 0%Z -> a = [].
Proof. intros [|x a] H. reflexivity. unfold lenZ in H. simpl in H. lia. Qed.

Lemma subZ_app3 : forall (a b c : str) p q, p = lenZ a -> q = (lenZ a + lenZ b)%Z -> subZ (a ++ b ++ c) p q = b.
Proof.
  intros a b c p q Hp Hq. subst. unfold subZ, lenZ.
  replace (Z.to_nat (Z.of_nat (length a) + Z.of_nat (length b) - Z.of_nat (length a))) with (length b) by lia.
  rewrite Nat2Z.id. rewrite skipn_app. rewrite skipn_all. rewrite Nat.sub_diag. simpl.
  rewrite firstn_app. rewrite firstn_all. rewrite Nat.sub_diag. simpl. apply app_nil_r.
Qed.

Definition dna (s : str) : Prop := Forall (fun c => comp (comp c) = c) s.
Lemma rc_app : forall a b, rc (a ++ b) = rc b ++ rc a.
Proof. intros. unfold rc. rewrite map_app, rev_app_distr. reflexivity. Qed.
Lemma rc_length : forall a, length (rc a) = length a.
Proof. intros. unfold rc. rewrite rev_length, map_length. reflexivity. Qed.
Lemma lenZ_rc : forall a, lenZ (rc a) = lenZ a.
Proof. intros. unfold lenZ. rewrite rc_length. reflexivity. Qed.
Lemma rc_involutive : forall a, dna a -> rc (rc a) = a.
Proof.
  intros a H. unfold rc. rewrite map_rev, rev_involutive, map_map.
  induction H as [|x l Hx Hl IH]; simpl; [reflexivity|]. rewrite Hx, IH. reflexivity.
Qed.
Lemma rc_nil_inv : forall a, rc a = [] -> a = [].
Proof. intros a H. apply (f_equal (@length N)) in H. rewrite rc_length in H. destruct a; [reflexivity|discriminate]. Qed.

(** ---------- the state machine on the canonical two-hit list ---------- *)
Lemma sort_two : forall h1 h2, (hb h1 <= hb h2)%Z -> sort_hits [h1; h2] = [h1; h2].
Proof.
  intros h1 h2 H. unfold sort_hits. simpl.
  destruct (hb h2 <? hb h1)%Z eqn:E; [apply Z.ltb_lt in E; lia|reflexivity].
Qed.

Lemma pair_two : forall h1 h2, (0 < hmk h1)%Z -> hmk h2 = (- hmk h1)%Z -> hfw h2 = hfw h1 ->
  pair_hits [h1; h2] None = [(h1, h2)].
Proof.
  intros h1 h2 H1 H2 H3. simpl.
  apply Z.ltb_lt in H1. rewrite H1. rewrite H2, Z.eqb_refl, H3, eqb_reflx. reflexivity.
Qed.

(** ---------- one amplicon read in the orientation forward primer -> reverse primer ---------- *)
Section Layout.
Variable lib : list marker.
Variable i : nat.
Variable m : marker.
Hypothesis Hm : nth i lib dummy_marker = m.

(* left part:  X ++ t1 ++ s1 ++ q1 ++ B ++ q2 ++ s2 ++ t2 ++ Y ; the from-hit is the window q1, the match-hit the window q2 *)
Variables X t1 s1 q1 B q2 s2 t2 Y : str.
Let s := X ++ t1 ++ s1 ++ q1 ++ B ++ q2 ++ s2 ++ t2 ++ Y.
Let b1 := lenZ (X ++ t1 ++ s1).
Let e1 := (b1 + lenZ q1)%Z.
Let b2 := (e1 + lenZ B)%Z.
Let e2 := (b2 + lenZ q2)%Z.
Hypothesis Hq1 : q1 <> [].
Hypothesis Hq2 : q2 <> [].
Hypothesis HB : B <> [].

Lemma lay_q1 : subZ s b1 e1 = q1.
Proof.
  unfold s. replace (X ++ t1 ++ s1 ++ q1 ++ B ++ q2 ++ s2 ++ t2 ++ Y) with ((X ++ t1 ++ s1) ++ q1 ++ (B ++ q2 ++ s2 ++ t2 ++ Y)).
  apply subZ_app3; reflexivity. rewrite <- !app_assoc. reflexivity.
Qed.
Lemma lay_B : subZ s e1 b2 = B.
Proof.
  unfold s. replace (X ++ t1 ++ s1 ++ q1 ++ B ++ q2 ++ s2 ++ t2 ++ Y) with ((X ++ t1 ++ s1 ++ q1) ++ B ++ (q2 ++ s2 ++ t2 ++ Y)).
  apply subZ_app3; unfold e1, b2, e1, b1; rewrite !lenZ_app; lia. rewrite <- !app_assoc. reflexivity.
Qed.
Lemma lay_q2 : subZ s b2 e2 = q2.
Proof.
  unfold s. replace (X ++ t1 ++ s1 ++ q1 ++ B ++ q2 ++ s2 ++ t2 ++ Y) with ((X ++ t1 ++ s1 ++ q1 ++ B) ++ q2 ++ (s2 ++ t2 ++ Y)).
  apply subZ_app3; unfold e2, b2, e1, b1; rewrite !lenZ_app; lia. rewrite <- !app_assoc. reflexivity.
Qed.
Lemma lay_t1 : subZ s (b1 - lenZ s1 - lenZ t1) (b1 - lenZ s1) = t1.
Proof.
  unfold s. apply subZ_app3; unfold b1; rewrite !lenZ_app; lia.
Qed.
Lemma lay_t2 : subZ s (e2 + lenZ s2) (e2 + lenZ s2 + lenZ t2) = t2.
Proof.
  unfold s. replace (X ++ t1 ++ s1 ++ q1 ++ B ++ q2 ++ s2 ++ t2 ++ Y) with ((X ++ t1 ++ s1 ++ q1 ++ B ++ q2 ++ s2) ++ t2 ++ Y).
  apply subZ_app3; unfold e2, b2, e1, b1; rewrite !lenZ_app; lia. rewrite <- !app_assoc. reflexivity.
Qed.
Lemma lay_len : lenZ s = (e2 + lenZ s2 + lenZ t2 + lenZ Y)%Z.
Proof. unfold s, e2, b2, e1, b1. rewrite !lenZ_app. lia. Qed.

(* fixed-length windows next to the two hits, for the side parameters (tl, sp) that the layout was built with *)
Lemma lay_begin_tag : forall sd, s_delim sd = 0%N -> s_tl sd = lenZ t1 -> s_sp sd = lenZ s1 -> begin_tag s b1 sd = t1.
Proof.
  intros sd Hd Htl Hsp. unfold begin_tag. rewrite Hd. simpl.
  destruct (s_tl sd =? 0)%Z eqn:E.
  - apply Z.eqb_eq in E. symmetry. apply lenZ_zero. lia.
  - unfold begin_fixed. rewrite Htl, Hsp.
    destruct (b1 - lenZ s1 - lenZ t1 <? 0)%Z eqn:E2.
    + apply Z.ltb_lt in E2. unfold b1 in E2. rewrite !lenZ_app in E2. pose proof (lenZ_nonneg X). lia.
    + apply lay_t1.
Qed.
Lemma lay_end_tag : forall sd, s_delim sd = 0%N -> s_tl sd = lenZ t2 -> s_sp sd = lenZ s2 -> end_tag s e2 sd = rc t2.
Proof.
  intros sd Hd Htl Hsp. unfold end_tag. rewrite Hd. simpl.
  destruct (s_tl sd =? 0)%Z eqn:E.
  - apply Z.eqb_eq in E. assert (t2 = []) by (apply lenZ_zero; lia). subst t2. reflexivity.
  - unfold end_fixed. rewrite Htl, Hsp.
    destruct (lenZ s <? e2 + lenZ s2 + lenZ t2)%Z eqn:E2.
    + apply Z.ltb_lt in E2. rewrite lay_len in E2. pose proof (lenZ_nonneg Y). lia.
    + rewrite lay_t2. reflexivity.
Qed.

Lemma lay_emit : forall k1 k2 fw tags,
  tag_extractor m s b1 e2 fw = tags ->
  emit lib s (mkH b1 e1 k1 (Z.of_nat i + 1) fw, mkH b2 e2 k2 (- (Z.of_nat i + 1)) fw) =
  [ mkR (if fw then B else rc B) fw (N.of_nat i)
        (if fw then q1 else rc q2) (if fw then rc q2 else q1)
        (Z.to_N (if fw then k1 else k2)) (Z.to_N (if fw then k2 else k1))
        (fst tags) (snd tags) (identify m tags) (match identify m tags with Some _ => false | None => true end) ].
Proof.
  intros k1 k2 fw tags Ht. unfold emit. cbn [hb he hk hmk hfw].
  replace (Z.to_nat (Z.of_nat i + 1 - 1)) with i by lia. rewrite Hm.
  pose proof (lenZ_nonneg X) as HX. pose proof (lenZ_nonneg t1) as H1. pose proof (lenZ_nonneg s1) as H2.
  pose proof (lenZ_pos q1 Hq1) as H3. pose proof (lenZ_pos B HB) as H4. pose proof (lenZ_pos q2 Hq2) as H5.
  pose proof (lenZ_nonneg s2) as H6. pose proof (lenZ_nonneg t2) as H7. pose proof (lenZ_nonneg Y) as H8.
  pose proof lay_len as HL.
  assert (Hb1 : (0 <= b1)%Z) by (unfold b1; rewrite !lenZ_app; lia).
  replace ((b1 <? 0)%Z || (lenZ s <? e1)%Z) with false
    by (symmetry; apply orb_false_iff; split; [apply Z.ltb_ge|apply Z.ltb_ge]; unfold e2, b2 in HL; lia).
  replace ((e2 <=? b2)%Z || (b2 <? 0)%Z || (lenZ s <=? b2)%Z || (lenZ s <? e2)%Z) with false
    by (symmetry; repeat (apply orb_false_iff; split); [apply Z.leb_gt|apply Z.ltb_ge|apply Z.leb_gt|apply Z.ltb_ge]; unfold e2, b2, e1 in *; lia).
  replace ((b2 <=? e1)%Z || (lenZ s <=? e1)%Z) with false
    by (symmetry; apply orb_false_iff; split; [apply Z.leb_gt|apply Z.leb_gt]; unfold e2, b2 in *; lia).
  rewrite Ht, lay_B, lay_q1, lay_q2.
  replace (Z.to_N (Z.of_nat i + 1 - 1)) with (N.of_nat i) by lia.
  reflexivity.
Qed.

Lemma lay_demux : forall k1 k2 fw tags,
  tag_extractor m s b1 e2 fw = tags ->
  demux_hits lib s [mkH b1 e1 k1 (Z.of_nat i + 1) fw; mkH b2 e2 k2 (- (Z.of_nat i + 1)) fw] =
  Recs [ mkR (if fw then B else rc B) fw (N.of_nat i)
        (if fw then q1 else rc q2) (if fw then rc q2 else q1)
        (Z.to_N (if fw then k1 else k2)) (Z.to_N (if fw then k2 else k1))
        (fst tags) (snd tags) (identify m tags) (match identify m tags with Some _ => false | None => true end) ].
Proof.
  intros k1 k2 fw tags Ht. unfold demux_hits.
  rewrite sort_two.
  - rewrite pair_two; cbn [hmk hfw]; try reflexivity; try lia.
    cbn [flat_map]. rewrite (lay_emit k1 k2 fw tags Ht). reflexivity.
  - cbn [hb]. unfold b2, e1. pose proof (lenZ_nonneg q1). pose proof (lenZ_nonneg B). lia.
Qed.
End Layout.

(** ---------- canonical read and its reverse complement ---------- *)
Definition canon_read (flankL tagF spF pF bar pR spR tagR flankR : str) : str :=
  flankL ++ tagF ++ spF ++ pF ++ bar ++ rc pR ++ rc spR ++ rc tagR ++ flankR.

Section CanonicalGen.
Variable lib : list marker.
Variable i : nat.
Variable m : marker.
Hypothesis Hm : nth i lib dummy_marker = m.
Variables flankL tagF spF pF bar pR spR tagR flankR : str.
Hypothesis HpF : pF <> [].
Hypothesis HpR : pR <> [].
Hypothesis Hbar : bar <> [].
Hypothesis DpF : dna pF.
Hypothesis DpR : dna pR.
Hypothesis DtR : dna tagR.
Hypothesis Dbar : dna bar.

Let rd := canon_read flankL tagF spF pF bar pR spR tagR flankR.
Definition cb1 : Z := lenZ (flankL ++ tagF ++ spF).
Definition ce1 : Z := (cb1 + lenZ pF)%Z.
Definition cb2 : Z := (ce1 + lenZ bar)%Z.
Definition ce2 : Z := (cb2 + lenZ pR)%Z.
Definition cL : Z := lenZ (canon_read flankL tagF spF pF bar pR spR tagR flankR).
Definition mkid : Z := (Z.of_nat i + 1)%Z.
(* the two intended hits, with their mismatch counts k1 (forward primer) and k2 (reverse primer) *)
Definition canon_hits (k1 k2 : Z) : list hit := [mkH cb1 ce1 k1 mkid true; mkH cb2 ce2 k2 (- mkid) true].
(* the same two priming sites seen on the reverse-complemented read *)
Definition canon_hits_rc (k1 k2 : Z) : list hit :=
  [mkH (cL - ce2) (cL - cb2) k2 mkid false; mkH (cL - ce1) (cL - cb1) k1 (- mkid) false].
Definition canon_record (k1 k2 : Z) (dir : bool) : res :=
  mkR bar dir (N.of_nat i) pF pR (Z.to_N k1) (Z.to_N k2) tagF tagR (identify m (tagF, tagR))
      (match identify m (tagF, tagR) with Some _ => false | None => true end).

Lemma rc_ne : forall a, a <> [] -> rc a <> [].
Proof. intros a H E. apply H. apply rc_nil_inv. exact E. Qed.

(* whatever the extraction mode: if the two tag extractors return the tags at the two hits, the record is the canonical one *)
Lemma canonical_forward_gen : forall k1 k2,
  begin_tag rd cb1 (fside m) = tagF -> end_tag rd ce2 (rside m) = tagR ->
  demux_hits lib rd (canon_hits k1 k2) = Recs [canon_record k1 k2 true].
Proof.
  intros k1 k2 F1 F2. unfold canon_hits, rd, canon_read, ce2, cb2, ce1, cb1, mkid in *.
  replace (lenZ pR) with (lenZ (rc pR)) in * by apply lenZ_rc.
  rewrite (lay_demux lib i m Hm flankL tagF spF pF bar (rc pR) (rc spR) (rc tagR) flankR HpF (rc_ne _ HpR) Hbar k1 k2 true (tagF, tagR)).
  - unfold canon_record. rewrite (rc_involutive pR DpR). reflexivity.
  - unfold tag_extractor. rewrite F1, F2. reflexivity.
Qed.

Lemma rc_canon_read :
  rc rd = rc flankR ++ tagR ++ rc (rc spR) ++ pR ++ rc bar ++ rc pF ++ rc spF ++ rc tagF ++ rc flankL.
Proof.
  unfold rd, canon_read. rewrite !rc_app. rewrite (rc_involutive tagR DtR), (rc_involutive pR DpR).
  rewrite <- !app_assoc. reflexivity.
Qed.

Lemma cL_eq : cL = (lenZ flankL + lenZ tagF + lenZ spF + lenZ pF + lenZ bar + lenZ pR + lenZ spR + lenZ tagR + lenZ flankR)%Z.
Proof. unfold cL, canon_read. rewrite !lenZ_app, !lenZ_rc. lia. Qed.

(* positions of the mirrored sites in the layout form *)
Lemma mir_b1 : (cL - ce2)%Z = lenZ (rc flankR ++ tagR ++ rc (rc spR)).
Proof. rewrite cL_eq. unfold ce2, cb2, ce1, cb1. rewrite !lenZ_app, !lenZ_rc. lia. Qed.
Lemma mir_e1 : (cL - cb2)%Z = (lenZ (rc flankR ++ tagR ++ rc (rc spR)) + lenZ pR)%Z.
Proof. rewrite cL_eq. unfold cb2, ce1, cb1. rewrite !lenZ_app, !lenZ_rc. lia. Qed.
Lemma mir_b2 : (cL - ce1)%Z = (lenZ (rc flankR ++ tagR ++ rc (rc spR)) + lenZ pR + lenZ (rc bar))%Z.
Proof. rewrite cL_eq. unfold ce1, cb1. rewrite !lenZ_app, !lenZ_rc. lia. Qed.
Lemma mir_e2 : (cL - cb1)%Z = (lenZ (rc flankR ++ tagR ++ rc (rc spR)) + lenZ pR + lenZ (rc bar) + lenZ (rc pF))%Z.
Proof. rewrite cL_eq. unfold cb1. rewrite !lenZ_app, !lenZ_rc. lia. Qed.

Lemma canonical_reverse_gen : forall k1 k2,
  end_tag (rc rd) (cL - cb1) (fside m) = tagF -> begin_tag (rc rd) (cL - ce2) (rside m) = tagR ->
  demux_hits lib (rc rd) (canon_hits_rc k1 k2) = Recs [canon_record k1 k2 false].
Proof.
  intros k1 k2 R1 R2. unfold canon_hits_rc.
  rewrite mir_b1, mir_e1, mir_b2, mir_e2 in *. rewrite rc_canon_read in *. unfold mkid.
  rewrite (lay_demux lib i m Hm (rc flankR) tagR (rc (rc spR)) pR (rc bar) (rc pF) (rc spF) (rc tagF) (rc flankL)
             HpR (rc_ne _ HpF) (rc_ne _ Hbar) k2 k1 false (tagF, tagR)).
  - unfold canon_record. rewrite (rc_involutive bar Dbar), (rc_involutive pF DpF). reflexivity.
  - unfold tag_extractor. rewrite R1, R2. reflexivity.
Qed.
End CanonicalGen.

(** ---------- fixed-length tags ---------- *)
Section CanonicalFixed.
Variable lib : list marker.
Variable i : nat.
Variable m : marker.
Hypothesis Hm : nth i lib dummy_marker = m.
Hypothesis Hfd : m_fdelim m = 0%N.                 (* fixed-length tags on both sides *)
Hypothesis Hrd : m_rdelim m = 0%N.
Variables flankL tagF spF pF bar pR spR tagR flankR : str.
Hypothesis HtF : lenZ tagF = Z.of_N (m_ftl m).
Hypothesis HsF : lenZ spF = Z.of_N (m_fsp m).
Hypothesis HtR : lenZ tagR = Z.of_N (m_rtl m).
Hypothesis HsR : lenZ spR = Z.of_N (m_rsp m).
Hypothesis HpF : pF <> [].
Hypothesis HpR : pR <> [].
Hypothesis Hbar : bar <> [].
Hypothesis DpF : dna pF.
Hypothesis DpR : dna pR.
Hypothesis DtF : dna tagF.
Hypothesis DtR : dna tagR.
Hypothesis Dbar : dna bar.
Let rd := canon_read flankL tagF spF pF bar pR spR tagR flankR.

Lemma canonical_forward : forall k1 k2,
  demux_hits lib rd (canon_hits i flankL tagF spF pF bar pR k1 k2) = Recs [canon_record i m tagF pF bar pR tagR k1 k2 true].
Proof.
  intros k1 k2. apply canonical_forward_gen; auto.
  - unfold canon_read, cb1. apply lay_begin_tag; cbn [fside s_delim s_tl s_sp]; auto.
  - unfold canon_read, ce2, cb2, ce1, cb1. replace (lenZ pR) with (lenZ (rc pR)) by apply lenZ_rc.
    rewrite <- (rc_involutive tagR DtR) at 2.
    apply lay_end_tag; cbn [rside s_delim s_tl s_sp]; rewrite ?lenZ_rc; auto.
Qed.

Lemma canonical_reverse : forall k1 k2,
  demux_hits lib (rc rd) (canon_hits_rc i flankL tagF spF pF bar pR spR tagR flankR k1 k2) = Recs [canon_record i m tagF pF bar pR tagR k1 k2 false].
Proof.
  intros k1 k2. apply canonical_reverse_gen; auto.
  - rewrite mir_e2. rewrite rc_canon_read by auto.
    rewrite <- (rc_involutive tagF DtF) at 2.
    apply lay_end_tag; cbn [fside s_delim s_tl s_sp]; rewrite ?lenZ_rc; auto.
  - rewrite mir_b1. rewrite rc_canon_read by auto.
    apply lay_begin_tag; cbn [rside s_delim s_tl s_sp]; rewrite ?lenZ_rc; auto.
Qed.

(* stated on [demux]: the hypothesis is the one of the property - the primer hits of the whole library in the read are
   exactly the two intended priming sites *)
Theorem canonical_read_demux : forall k1 k2,
  lib_hits 1 lib rd = canon_hits i flankL tagF spF pF bar pR k1 k2 ->
  demux lib rd = Recs [canon_record i m tagF pF bar pR tagR k1 k2 true].
Proof. intros k1 k2 H. unfold demux. rewrite H. apply canonical_forward. Qed.

Theorem strand_symmetry_demux : forall k1 k2,
  lib_hits 1 lib rd = canon_hits i flankL tagF spF pF bar pR k1 k2 ->
  lib_hits 1 lib (rc rd) = canon_hits_rc i flankL tagF spF pF bar pR spR tagR flankR k1 k2 ->
  demux lib rd = Recs [canon_record i m tagF pF bar pR tagR k1 k2 true] /\
  demux lib (rc rd) = Recs [canon_record i m tagF pF bar pR tagR k1 k2 false].
Proof.
  intros k1 k2 H H'. split. apply canonical_read_demux; auto.
  unfold demux. rewrite H'. apply canonical_reverse.
Qed.
End CanonicalFixed.

(* ======================= pair ======================= *)


(** the pairing automaton = "every +i hit IMMEDIATELY followed (in begin order) by the -i hit of the same orientation" *)
Definition closes (f h : hit) : bool :=
  (0 <? hmk f)%Z && (hmk h =? - hmk f)%Z && Bool.eqb (hfw h) (hfw f).
Fixpoint adj_pairs (l : list hit) : list (hit * hit) :=
  match l with
  | f :: ((h :: _) as rest) => if closes f h then (f, h) :: adj_pairs rest else adj_pairs rest
  | _ => []
  end.

Lemma adj_pairs_neg : forall h l, (hmk h <= 0)%Z -> adj_pairs (h :: l) = adj_pairs l.
Proof.
  intros h [|x l] H. reflexivity.
  cbn [adj_pairs]. unfold closes. replace (0 <? hmk h)%Z with false by (symmetry; apply Z.ltb_ge; lia). reflexivity.
Qed.

Lemma pair_hits_adj : forall l,
  pair_hits l None = adj_pairs l /\
  (forall f, (0 < hmk f)%Z -> pair_hits l (Some f) = adj_pairs (f :: l)).
Proof.
  induction l as [|h l [IH0 IH1]].
  - split; [reflexivity|]. intros f Hf. reflexivity.
  - split.
    + cbn [pair_hits]. destruct (0 <? hmk h)%Z eqn:E.
      * apply Z.ltb_lt in E. apply IH1. exact E.
      * apply Z.ltb_ge in E. rewrite adj_pairs_neg by exact E. exact IH0.
    + intros f Hf. cbn [pair_hits].
      change (adj_pairs (f :: h :: l)) with (if closes f h then (f, h) :: adj_pairs (h :: l) else adj_pairs (h :: l)). unfold closes.
      replace (0 <? hmk f)%Z with true by (symmetry; apply Z.ltb_lt; exact Hf). cbn [andb].
      destruct ((hmk h =? - hmk f)%Z && Bool.eqb (hfw h) (hfw f)) eqn:E.
      * f_equal. apply andb_true_iff in E. destruct E as [E _]. apply Z.eqb_eq in E.
        rewrite adj_pairs_neg by lia. exact IH0.
      * destruct (0 <? hmk h)%Z eqn:E2.
        -- apply Z.ltb_lt in E2. apply IH1. exact E2.
        -- apply Z.ltb_ge in E2. rewrite adj_pairs_neg by exact E2. exact IH0.
Qed.

Theorem pair_hits_is_adjacent : forall l, pair_hits l None = adj_pairs l.
Proof. intro l. apply pair_hits_adj. Qed.

(* consequence: every emitted pair is made of two consecutive hits *)
Lemma adj_pairs_consecutive : forall l f h, In (f, h) (adj_pairs l) ->
  closes f h = true /\ exists l1 l2, l = l1 ++ f :: h :: l2.
Proof.
  induction l as [|x l IH]; intros f h Hin. contradiction.
  destruct l as [|y l]. contradiction.
  cbn [adj_pairs] in Hin. destruct (closes x y) eqn:E.
  - destruct Hin as [Hin|Hin].
    + inversion Hin; subst. split; [exact E|]. exists [], l. reflexivity.
    + destruct (IH f h Hin) as [Hc (l1 & l2 & Hl)]. split; [exact Hc|]. exists (x :: l1), l2. rewrite Hl. reflexivity.
  - destruct (IH f h Hin) as [Hc (l1 & l2 & Hl)]. split; [exact Hc|]. exists (x :: l1), l2. rewrite Hl. reflexivity.
Qed.

Theorem pair_hits_consecutive : forall l f h, In (f, h) (pair_hits l None) ->
  ((0 < hmk f)%Z /\ hmk h = (- hmk f)%Z /\ hfw h = hfw f) /\ exists l1 l2, l = l1 ++ f :: h :: l2.
Proof.
  intros l f h Hin. rewrite pair_hits_is_adjacent in Hin. apply adj_pairs_consecutive in Hin.
  destruct Hin as [Hc Hl]. split; [|exact Hl].
  unfold closes in Hc. apply andb_true_iff in Hc. destruct Hc as [Hc H3]. apply andb_true_iff in Hc. destruct Hc as [H1 H2].
  apply Z.ltb_lt in H1. apply Z.eqb_eq in H2. apply eqb_prop in H3. auto.
Qed.

(** sort_hits is a stable sort by begin: a permutation, sorted *)
Lemma insert_hit_perm : forall h l, Permutation (h :: l) (insert_hit h l).
Proof.
  induction l as [|x l IH]; simpl. apply Permutation_refl.
  destruct (hb h <? hb x)%Z. apply Permutation_refl.
  eapply Permutation_trans. apply perm_swap. apply perm_skip. exact IH.
Qed.
Lemma sort_hits_perm_aux : forall l acc, Permutation (acc ++ l) (fold_left (fun a h => insert_hit h a) l acc).
Proof.
  induction l as [|x l IH]; intro acc; simpl. rewrite app_nil_r. apply Permutation_refl.
  eapply Permutation_trans; [|apply IH].
  eapply Permutation_trans. apply Permutation_sym. apply Permutation_middle.
  change (x :: acc ++ l) with ((x :: acc) ++ l). apply Permutation_app_tail. apply insert_hit_perm.
Qed.
Theorem sort_hits_perm : forall l, Permutation l (sort_hits l).
Proof. intro l. apply (sort_hits_perm_aux l []). Qed.

Inductive sorted_b : list hit -> Prop :=
| sb_nil : sorted_b []
| sb_one : forall h, sorted_b [h]
| sb_cons : forall h x l, (hb h <= hb x)%Z -> sorted_b (x :: l) -> sorted_b (h :: x :: l).
Lemma insert_hit_sorted : forall h l, sorted_b l -> sorted_b (insert_hit h l).
Proof.
  intros h l Hs. induction Hs as [|x|x y l Hxy Hs IH]; simpl.
  - constructor.
  - destruct (hb h <? hb x)%Z eqn:E. apply Z.ltb_lt in E. constructor. lia. constructor.
    apply Z.ltb_ge in E. constructor. lia. constructor.
  - destruct (hb h <? hb x)%Z eqn:E.
    + apply Z.ltb_lt in E. constructor. lia. constructor; auto.
    + apply Z.ltb_ge in E. simpl in IH. destruct (hb h <? hb y)%Z eqn:E2.
      * constructor. lia. exact IH.
      * constructor. exact Hxy. exact IH.
Qed.
Lemma sort_hits_sorted_aux : forall l acc, sorted_b acc -> sorted_b (fold_left (fun a h => insert_hit h a) l acc).
Proof. induction l as [|x l IH]; intros acc H; simpl. exact H. apply IH. apply insert_hit_sorted. exact H. Qed.
Theorem sort_hits_sorted : forall l, sorted_b (sort_hits l).
Proof. intro l. apply sort_hits_sorted_aux. constructor. Qed.
Lemma sort_hits_sorted_perm : forall l, Permutation l (sort_hits l) /\ sorted_b (sort_hits l).
Proof. intro l. split. apply sort_hits_perm. apply sort_hits_sorted. Qed.

(* ======================= fa ======================= *)


(** the specification matcher: [find_all] reports exactly the windows whose mismatch count is within budget *)
Definition incompatible (p b : N) : bool := N.eqb (N.land (mask p) (mask b)) 0%N.
Definition window_mismatches (pat w : str) : Z :=
  Z.of_nat (length (filter (fun pb => incompatible (fst pb) (snd pb)) (combine pat w))).

Lemma mism_spec : forall pat w c,
  mism pat w = Some c <-> (length pat <= length w /\ c = window_mismatches pat w).
Proof.
  induction pat as [|p pat IH]; intros w c.
  - simpl. unfold window_mismatches. simpl. split. intro H; inversion H; split; [lia|reflexivity]. intros [_ H]. subst. reflexivity.
  - destruct w as [|b w].
    + simpl. split. discriminate. intros [H _]. simpl in H. lia.
    + cbn [mism]. unfold window_mismatches. cbn [combine filter fst snd length]. fold (incompatible p b).
      destruct (mism pat w) as [k|] eqn:E.
      * apply IH in E. destruct E as [E1 E2]. unfold window_mismatches in E2.
        split.
        -- intro H. inversion H; subst. split. simpl; lia. destruct (incompatible p b); simpl length; lia.
        -- intros [H1 H2]. subst. f_equal. destruct (incompatible p b); simpl length; lia.
      * split. discriminate. intros [H1 H2]. exfalso.
        assert (Hs : mism pat w = Some (window_mismatches pat w)). { apply IH. split; [simpl in H1; lia|reflexivity]. }
        congruence.
Qed.

Lemma find_all_spec : forall pat k from s pos b e c,
  In (b, e, c) (find_all pat k from s pos) <->
  exists j : nat, j < length s /\ b = (pos + Z.of_nat j)%Z /\ e = (b + lenZ pat)%Z /\
                  mism pat (skipn j s) = Some c /\ (from <= b)%Z /\ (c <= k)%Z.
Proof.
  intros pat k from s. induction s as [|x s IH]; intros pos b e c.
  - simpl. split. contradiction. intros (j & H & _). lia.
  - cbn [find_all].
    assert (Hrest : In (b, e, c) (find_all pat k from s (pos + 1)) <->
                    exists j : nat, 0 < j /\ j < length (x :: s) /\ b = (pos + Z.of_nat j)%Z /\ e = (b + lenZ pat)%Z /\
                      mism pat (skipn j (x :: s)) = Some c /\ (from <= b)%Z /\ (c <= k)%Z).
    { rewrite IH. split.
      - intros (j & H1 & H2 & H3 & H4 & H5 & H6). exists (S j). simpl. repeat split; auto; lia.
      - intros (j & H0 & H1 & H2 & H3 & H4 & H5 & H6). destruct j as [|j]; [lia|]. exists j. simpl in *. repeat split; auto; lia. }
    destruct (mism pat (x :: s)) as [c0|] eqn:E.
    + destruct ((from <=? pos)%Z && (c0 <=? k)%Z) eqn:E2.
      * apply andb_true_iff in E2. destruct E2 as [E2 E3]. apply Z.leb_le in E2. apply Z.leb_le in E3.
        split.
        -- intros [H|H].
           ++ injection H as Hb He Hc. exists 0. simpl. split; [lia|]. split; [lia|]. split; [lia|]. split; [rewrite E; congruence|]. split; lia.
           ++ apply Hrest in H. destruct H as (j & _ & H). exists j. exact H.
        -- intros (j & H1 & H2 & H3 & H4 & H5 & H6). destruct j as [|j].
           ++ left. simpl in H4. rewrite E in H4. inversion H4; subst. simpl Z.of_nat. rewrite !Z.add_0_r. reflexivity.
           ++ right. apply Hrest. exists (S j). repeat split; auto; lia.
      * split.
        -- intro H. apply Hrest in H. destruct H as (j & _ & H). exists j. exact H.
        -- intros (j & H1 & H2 & H3 & H4 & H5 & H6). destruct j as [|j].
           ++ exfalso. simpl in H4. rewrite E in H4. inversion H4; subst.
              apply andb_false_iff in E2. destruct E2 as [E2|E2]; [apply Z.leb_gt in E2|apply Z.leb_gt in E2]; lia.
           ++ apply Hrest. exists (S j). repeat split; auto; lia.
    + split.
      * intro H. apply Hrest in H. destruct H as (j & _ & H). exists j. exact H.
      * intros (j & H1 & H2 & H3 & H4 & H5 & H6). destruct j as [|j].
        -- simpl in H4. congruence.
        -- apply Hrest. exists (S j). repeat split; auto; lia.
Qed.

Lemma mism_app : forall pat w rest c, mism pat w = Some c -> mism pat (w ++ rest) = Some c.
Proof.
  induction pat as [|p pat IH]; intros w rest c H.
  - simpl in *. exact H.
  - destruct w as [|b w]; simpl in H. discriminate.
    cbn [app mism]. destruct (mism pat w) as [k|] eqn:E; [|discriminate].
    rewrite (IH w rest k E). exact H.
Qed.

(* a window of the read that is within budget of the pattern IS reported by the specification matcher *)
Lemma find_all_complete : forall pat k pre w rest c,
  mism pat w = Some c -> (c <= k)%Z -> w <> [] ->
  In (lenZ pre, (lenZ pre + lenZ pat)%Z, c) (find_all pat k 0 (pre ++ w ++ rest) 0).
Proof.
  intros pat k pre w rest c Hm Hk Hw. apply find_all_spec.
  exists (length pre). split.
  - rewrite !app_length. destruct w; [contradiction|simpl; lia].
  - split. unfold lenZ. lia. split. reflexivity. split.
    + rewrite skipn_app, skipn_all, Nat.sub_diag. simpl. apply mism_app. exact Hm.
    + split. unfold lenZ. lia. exact Hk.
Qed.

(* ======================= delim ======================= *)


(** ---------- lookForTag on  ... d tag d^j junk ---------- *)
Lemma drop_while_app_all : forall p a b, Forall (fun c => p c = true) a -> drop_while p (a ++ b) = drop_while p b.
Proof. intros p a b H. induction H as [|x a Hx Ha IH]; simpl. reflexivity. rewrite Hx. exact IH. Qed.
Lemma drop_while_stop : forall p x l, p x = false -> drop_while p (x :: l) = x :: l.
Proof. intros p x l H. simpl. rewrite H. reflexivity. Qed.
Lemma take_while_app_stop : forall p a x l, Forall (fun c => p c = true) a -> p x = false -> take_while p (a ++ x :: l) = a.
Proof. intros p a x l H Hx. induction H as [|y a Hy Ha IH]; simpl. rewrite Hx. reflexivity. rewrite Hy, IH. reflexivity. Qed.

Lemma notin_forall_neq : forall d (l : str), ~ In d l -> Forall (fun c => negb (N.eqb c d) = true) l.
Proof.
  intros d l H. apply Forall_forall. intros x Hx. apply negb_true_iff. apply N.eqb_neq. intro E. subst. contradiction.
Qed.
Lemma repeat_forall_eq : forall d n, Forall (fun c => N.eqb c d = true) (repeat d n).
Proof. intros d n. apply Forall_forall. intros x Hx. apply repeat_spec in Hx. subst. apply N.eqb_refl. Qed.

Lemma rev_repeat' : forall (d : N) n, rev (repeat d n) = repeat d n.
Proof.
  intros d n. induction n as [|n IH]. reflexivity.
  simpl. rewrite IH. clear IH. induction n as [|n IH]. reflexivity. simpl. rewrite IH. reflexivity.
Qed.

Lemma look_for_tag_spec : forall pre tag j junk d,
  tag <> [] -> ~ In d tag -> ~ In d junk -> 1 <= j ->
  look_for_tag (pre ++ [d] ++ tag ++ repeat d j ++ junk) d = tag.
Proof.
  intros pre tag j junk d Hne Ht Hj Hj1. unfold look_for_tag.
  rewrite !rev_app_distr. rewrite rev_repeat'. simpl (rev [d]).
  rewrite <- !app_assoc.
  rewrite (drop_while_app_all _ (rev junk)) by (apply notin_forall_neq; intro H; apply Hj; apply in_rev; exact H).
  assert (H1 : forall Z, drop_while (fun c => negb (N.eqb c d)) (repeat d j ++ Z) = repeat d j ++ Z).
  { intro Z. destruct j as [|j']; [lia|]. simpl. rewrite N.eqb_refl. reflexivity. }
  rewrite H1.
  rewrite (drop_while_app_all (fun c => N.eqb c d) (repeat d j)) by apply repeat_forall_eq.
  assert (Hrt : Forall (fun c => negb (N.eqb c d) = true) (rev tag)).
  { apply notin_forall_neq. intro H. apply Ht. apply in_rev. exact H. }
  assert (Hd2 : drop_while (fun c => N.eqb c d) (rev tag ++ [d] ++ rev pre) = rev tag ++ [d] ++ rev pre).
  { destruct (rev tag) as [|x r] eqn:E.
    - exfalso. apply Hne. rewrite <- (rev_involutive tag), E. reflexivity.
    - inversion Hrt as [|? ? Hx Hr]; subst. cbn [app]. apply drop_while_stop. apply negb_true_iff in Hx. exact Hx. }
  rewrite Hd2. change ([d] ++ rev pre) with (d :: rev pre).
  rewrite (take_while_app_stop _ (rev tag) d (rev pre) Hrt) by (rewrite N.eqb_refl; reflexivity).
  rewrite (drop_while_app_all _ (rev tag) (d :: rev pre) Hrt).
  rewrite (drop_while_stop (fun c => negb (N.eqb c d)) d) by (rewrite N.eqb_refl; reflexivity).
  apply rev_involutive.
Qed.

(** ---------- the clipped windows of the delimited extractors ---------- *)
Lemma win_suffix : forall (u v c : str) W, (lenZ v <= W)%Z ->
  exists u2, subZ ((u ++ v) ++ c) (Z.max 0 (lenZ (u ++ v) - W)) (lenZ (u ++ v)) = u2 ++ v.
Proof.
  intros u v c W HW. unfold subZ.
  set (k := Z.to_nat (Z.max 0 (lenZ (u ++ v) - W))).
  assert (Hk : k <= length u). { unfold k, lenZ in *. rewrite app_length. lia. }
  exists (skipn k u).
  rewrite <- app_assoc. rewrite skipn_app. replace (k - length u) with 0 by lia. cbn [skipn].
  replace (Z.to_nat (lenZ (u ++ v) - Z.max 0 (lenZ (u ++ v) - W))) with (length (skipn k u ++ v)).
  - rewrite app_assoc. rewrite firstn_app. rewrite Nat.sub_diag. simpl. rewrite firstn_all. apply app_nil_r.
  - rewrite app_length, skipn_length. unfold k, lenZ in *. rewrite app_length in *. lia.
Qed.

Lemma win_prefix : forall (p w c : str) W, (lenZ w <= W)%Z ->
  exists c1, subZ (p ++ w ++ c) (lenZ p) (Z.min (lenZ (p ++ w ++ c)) (lenZ p + W)) = w ++ c1.
Proof.
  intros p w c W HW. unfold subZ.
  replace (Z.to_nat (lenZ p)) with (length p) by (unfold lenZ; lia).
  rewrite skipn_app, skipn_all, Nat.sub_diag. cbn [skipn app].
  set (n := Z.to_nat (Z.min (lenZ (p ++ w ++ c)) (lenZ p + W) - lenZ p)).
  assert (Hn : length w <= n). { unfold n, lenZ in *. rewrite !app_length. lia. }
  exists (firstn (n - length w) c).
  rewrite firstn_app. rewrite firstn_all2 by exact Hn. reflexivity.
Qed.

Lemma rc_repeat_comp : forall d n, comp (comp d) = d -> rc (repeat (comp d) n) = repeat d n.
Proof.
  intros d n H. unfold rc.
  assert (Hm : map comp (repeat (comp d) n) = repeat d n).
  { induction n as [|n IH]. reflexivity. simpl. rewrite H, IH. reflexivity. }
  rewrite Hm. apply rev_repeat'.
Qed.

(** ---------- delimited tags next to the hits ---------- *)
Lemma begin_tag_delimited : forall X0 d t1 n REST sd,
  s_delim sd = d -> d <> 0%N -> s_tind sd = 0%Z -> s_tl sd = lenZ t1 -> s_sp sd = Z.of_nat n -> 1 <= n -> ~ In d t1 ->
  begin_tag ((X0 ++ [d]) ++ t1 ++ repeat d n ++ REST) (lenZ ((X0 ++ [d]) ++ t1 ++ repeat d n)) sd = t1.
Proof.
  intros X0 d t1 n REST sd Hd Hd0 Hti Htl Hsp Hn Hnot.
  unfold begin_tag. rewrite Hd, Hti.
  destruct (s_tl sd =? 0)%Z eqn:E.
  - apply Z.eqb_eq in E. symmetry. apply lenZ_zero. lia.
  - apply Z.eqb_neq in E.
    replace (N.eqb d 0%N) with false by (symmetry; apply N.eqb_neq; exact Hd0).
    cbn [Z.eqb]. unfold begin_delimited. rewrite Hd, Htl, Hsp.
    replace ((X0 ++ [d]) ++ t1 ++ repeat d n ++ REST) with ((X0 ++ ([d] ++ t1 ++ repeat d n)) ++ REST)
      by (rewrite <- !app_assoc; reflexivity).
    replace ((X0 ++ [d]) ++ t1 ++ repeat d n) with (X0 ++ ([d] ++ t1 ++ repeat d n))
      by (rewrite <- !app_assoc; reflexivity).
    destruct (win_suffix X0 ([d] ++ t1 ++ repeat d n) REST ((2 * Z.of_nat n + lenZ t1) * 2)) as [u2 Hw].
    + rewrite !lenZ_app. unfold lenZ at 1 3. rewrite repeat_length. simpl length. pose proof (lenZ_nonneg t1). lia.
    + rewrite Hw. replace (u2 ++ [d] ++ t1 ++ repeat d n) with (u2 ++ [d] ++ t1 ++ repeat d n ++ []) by (rewrite app_nil_r; reflexivity).
      apply look_for_tag_spec; auto.
      intro Ht. subst t1. apply E. rewrite Htl. reflexivity.
Qed.

Lemma end_tag_delimited : forall P d t2 n Y0 sd,
  s_delim sd = d -> d <> 0%N -> comp (comp d) = d -> s_tind sd = 0%Z -> s_tl sd = lenZ t2 -> s_sp sd = Z.of_nat n -> 1 <= n ->
  ~ In d (rc t2) ->
  end_tag (P ++ repeat (comp d) n ++ t2 ++ [comp d] ++ Y0) (lenZ P) sd = rc t2.
Proof.
  intros P d t2 n Y0 sd Hd Hd0 Hcc Hti Htl Hsp Hn Hnot.
  unfold end_tag. rewrite Hd, Hti.
  destruct (s_tl sd =? 0)%Z eqn:E.
  - apply Z.eqb_eq in E. assert (t2 = []) by (apply lenZ_zero; lia). subst t2. reflexivity.
  - apply Z.eqb_neq in E.
    replace (N.eqb d 0%N) with false by (symmetry; apply N.eqb_neq; exact Hd0).
    cbn [Z.eqb]. unfold end_delimited. rewrite Hd, Htl, Hsp.
    set (s := P ++ repeat (comp d) n ++ t2 ++ [comp d] ++ Y0).
    assert (Hlen : (lenZ s = lenZ P + Z.of_nat n + lenZ t2 + 1 + lenZ Y0)%Z).
    { unfold s. rewrite !lenZ_app. unfold lenZ at 2 4. rewrite repeat_length. simpl length. lia. }
    pose proof (lenZ_nonneg t2) as Ht2. pose proof (lenZ_nonneg Y0) as HY.
    destruct (Z.min (lenZ s) (lenZ P + (Z.of_nat n + lenZ t2) * 2) <=? lenZ P)%Z eqn:E2.
    + apply Z.leb_le in E2. lia.
    + unfold s.
      replace (P ++ repeat (comp d) n ++ t2 ++ [comp d] ++ Y0) with (P ++ (repeat (comp d) n ++ t2 ++ [comp d]) ++ Y0)
        by (rewrite <- !app_assoc; reflexivity).
      destruct (win_prefix P (repeat (comp d) n ++ t2 ++ [comp d]) Y0 ((Z.of_nat n + lenZ t2) * 2)) as [c1 Hw].
      * rewrite !lenZ_app. unfold lenZ at 1 3. rewrite repeat_length. simpl length. lia.
      * rewrite Hw. rewrite !rc_app. rewrite rc_repeat_comp by exact Hcc.
        replace (rc [comp d]) with [d] by (unfold rc; simpl; rewrite Hcc; reflexivity).
        rewrite <- !app_assoc.
        replace (rc c1 ++ [d] ++ rc t2 ++ repeat d n) with (rc c1 ++ [d] ++ rc t2 ++ repeat d n ++ []) by (rewrite app_nil_r; reflexivity).
        apply look_for_tag_spec; auto.
        intro Ht. apply rc_nil_inv in Ht. subst t2. apply E. rewrite Htl. reflexivity.
Qed.

Lemma rc_repeat : forall d n, rc (repeat d n) = repeat (comp d) n.
Proof.
  intros d n. unfold rc.
  assert (Hm : map comp (repeat d n) = repeat (comp d) n).
  { induction n as [|n IH]. reflexivity. simpl. rewrite IH. reflexivity. }
  rewrite Hm. apply rev_repeat'.
Qed.

(** ---------- canonical read with DELIMITED tags (tag_delimiter set, no tag indels) ---------- *)
Section CanonicalDelimited.
Variable lib : list marker.
Variable i : nat.
Variable m : marker.
Hypothesis Hm : nth i lib dummy_marker = m.
Variables df dr : N.
Variables nf nr : nat.
Hypothesis Hfd : m_fdelim m = df.
Hypothesis Hrd : m_rdelim m = dr.
Hypothesis Hdf0 : df <> 0%N.
Hypothesis Hdr0 : dr <> 0%N.
Hypothesis Hcf : comp (comp df) = df.
Hypothesis Hcr : comp (comp dr) = dr.
Hypothesis Hfti : m_ftind m = 0%N.
Hypothesis Hrti : m_rtind m = 0%N.
Hypothesis Hnf : Z.of_N (m_fsp m) = Z.of_nat nf.
Hypothesis Hnr : Z.of_N (m_rsp m) = Z.of_nat nr.
Hypothesis Hnf1 : 1 <= nf.
Hypothesis Hnr1 : 1 <= nr.
Variables flankL tagF pF bar pR tagR flankR : str.
Hypothesis HtF : lenZ tagF = Z.of_N (m_ftl m).
Hypothesis HtR : lenZ tagR = Z.of_N (m_rtl m).
Hypothesis HnotF : ~ In df tagF.
Hypothesis HnotR : ~ In dr tagR.
Hypothesis HpF : pF <> [].
Hypothesis HpR : pR <> [].
Hypothesis Hbar : bar <> [].
Hypothesis DpF : dna pF.
Hypothesis DpR : dna pR.
Hypothesis DtF : dna tagF.
Hypothesis DtR : dna tagR.
Hypothesis Dbar : dna bar.

(* ... flankL d_f tagF d_f^nf pF barcode rc(pR) rc(d_r^nr) rc(tagR) rc(d_r) flankR *)
Definition fL := flankL ++ [df].
Definition sF := repeat df nf.
Definition sR := repeat dr nr.
Definition fR := [comp dr] ++ flankR.
Let rd := canon_read fL tagF sF pF bar pR sR tagR fR.

Lemma delim_F1 : begin_tag rd (cb1 fL tagF sF) (fside m) = tagF.
Proof.
  unfold rd, canon_read, cb1, fL, sF.
  apply begin_tag_delimited; cbn [fside s_delim s_tl s_sp s_tind]; auto. rewrite Hfti. reflexivity.
Qed.

Lemma delim_F2 : end_tag rd (ce2 fL tagF sF pF bar pR) (rside m) = tagR.
Proof.
  unfold rd, canon_read, ce2, cb2, ce1, cb1, sR, fR. rewrite rc_repeat.
  replace (fL ++ tagF ++ sF ++ pF ++ bar ++ rc pR ++ repeat (comp dr) nr ++ rc tagR ++ [comp dr] ++ flankR)
    with ((fL ++ tagF ++ sF ++ pF ++ bar ++ rc pR) ++ repeat (comp dr) nr ++ rc tagR ++ [comp dr] ++ flankR)
    by (rewrite <- !app_assoc; reflexivity).
  replace (lenZ (fL ++ tagF ++ sF) + lenZ pF + lenZ bar + lenZ pR)%Z with (lenZ (fL ++ tagF ++ sF ++ pF ++ bar ++ rc pR))
    by (rewrite !lenZ_app, lenZ_rc; lia).
  rewrite <- (rc_involutive tagR DtR) at 2.
  apply end_tag_delimited; cbn [rside s_delim s_tl s_sp s_tind]; rewrite ?lenZ_rc; auto.
  - rewrite Hrti. reflexivity.
  - rewrite (rc_involutive tagR DtR). exact HnotR.
Qed.

Lemma delim_R2 : begin_tag (rc rd) (cL fL tagF sF pF bar pR sR tagR fR - ce2 fL tagF sF pF bar pR) (rside m) = tagR.
Proof.
  rewrite mir_b1. unfold rd. rewrite rc_canon_read by auto.
  unfold fR, sR. rewrite rc_app. rewrite rc_repeat, rc_repeat, Hcr.
  replace (rc [comp dr]) with [dr] by (unfold rc; simpl; rewrite Hcr; reflexivity).
  apply begin_tag_delimited; cbn [rside s_delim s_tl s_sp s_tind]; auto. rewrite Hrti. reflexivity.
Qed.

Lemma delim_R1 : end_tag (rc rd) (cL fL tagF sF pF bar pR sR tagR fR - cb1 fL tagF sF) (fside m) = tagF.
Proof.
  rewrite mir_e2. unfold rd. rewrite rc_canon_read by auto.
  unfold fL, sF. rewrite (rc_app flankL [df]). rewrite (rc_repeat df nf).
  replace (rc [df]) with [comp df] by reflexivity.
  set (A := rc fR ++ tagR ++ rc (rc sR)).
  replace (rc fR ++ tagR ++ rc (rc sR) ++ pR ++ rc bar ++ rc pF ++ repeat (comp df) nf ++ rc tagF ++ [comp df] ++ rc flankL)
    with ((A ++ pR ++ rc bar ++ rc pF) ++ repeat (comp df) nf ++ rc tagF ++ [comp df] ++ rc flankL)
    by (unfold A; rewrite <- !app_assoc; reflexivity).
  replace (lenZ A + lenZ pR + lenZ (rc bar) + lenZ (rc pF))%Z with (lenZ (A ++ pR ++ rc bar ++ rc pF))
    by (rewrite !lenZ_app; lia).
  rewrite <- (rc_involutive tagF DtF) at 2.
  apply end_tag_delimited; cbn [fside s_delim s_tl s_sp s_tind]; rewrite ?lenZ_rc; auto.
  - rewrite Hfti. reflexivity.
  - rewrite (rc_involutive tagF DtF). exact HnotF.
Qed.

Theorem canonical_read_delimited : forall k1 k2,
  lib_hits 1 lib rd = canon_hits i fL tagF sF pF bar pR k1 k2 ->
  demux lib rd = Recs [canon_record i m tagF pF bar pR tagR k1 k2 true].
Proof.
  intros k1 k2 H. unfold demux. rewrite H.
  apply canonical_forward_gen; auto. apply delim_F1. apply delim_F2.
Qed.

Theorem strand_symmetry_delimited : forall k1 k2,
  lib_hits 1 lib rd = canon_hits i fL tagF sF pF bar pR k1 k2 ->
  lib_hits 1 lib (rc rd) = canon_hits_rc i fL tagF sF pF bar pR sR tagR fR k1 k2 ->
  demux lib rd = Recs [canon_record i m tagF pF bar pR tagR k1 k2 true] /\
  demux lib (rc rd) = Recs [canon_record i m tagF pF bar pR tagR k1 k2 false].
Proof.
  intros k1 k2 H H'. split. apply canonical_read_delimited; auto.
  unfold demux. rewrite H'. apply canonical_reverse_gen; auto. apply delim_R1. apply delim_R2.
Qed.
End CanonicalDelimited.

(* ======================= ident ======================= *)


(** the safety clause spelled out: what "the extracted tag t identifies the declared tag u under the declared mode" means *)
Definition identifies (mode : N) (tags : list str) (t u : str) : Prop :=
  (mode = 0%N /\ u = t) \/
  (mode = 1%N /\ unique_nearest hamming t tags u) \/
  (mode = 2%N /\ unique_nearest levenshtein t tags u).

Lemma propose_identifies : forall mode tags t u,
  ~ In [] tags -> u <> [] -> propose mode tags t = u -> t <> [] /\ identifies mode tags t u.
Proof.
  intros mode tags t u Hne Hu H. unfold propose in H.
  destruct t as [|c t]. congruence.
  split. discriminate.
  destruct mode as [|p].
  - left. split; auto.
  - destruct p as [p|p|].
    + congruence.
    + destruct p; try congruence. right. right. split; [reflexivity|]. apply (closest_unique levenshtein (c :: t) tags u Hne Hu). exact H.
    + right. left. split; [reflexivity|]. apply (closest_unique hamming (c :: t) tags u Hne Hu). exact H.
Qed.

Definition fwd_tags (m : marker) : list str := map (fun x => fst (fst x)) (m_samples m).
Definition rev_tags (m : marker) : list str := map (fun x => snd (fst x)) (m_samples m).

Theorem safety_identifies : forall lib s hits rs r id,
  demux_hits lib s hits = Recs rs -> In r rs -> r_sample r = Some id ->
  let m := nth (N.to_nat (r_mk r)) lib dummy_marker in
  ~ In [] (fwd_tags m) -> ~ In [] (rev_tags m) ->
  exists f rv, In (f, rv, id) (m_samples m) /\
    r_ft r <> [] /\ r_rt r <> [] /\
    identifies (m_fmode m) (fwd_tags m) (r_ft r) f /\
    identifies (m_rmode m) (rev_tags m) (r_rt r) rv /\
    r_err r = false.
Proof.
  intros lib s hits rs r id H Hr Hs m HneF HneR.
  pose proof (demux_hits_safe lib s hits rs H r Hr) as Hsafe.
  unfold safe_record in Hsafe. fold m in Hsafe. destruct Hsafe as [_ Hsafe]. rewrite Hs in Hsafe.
  destruct Hsafe as [Hin Herr].
  set (p := proposed_pair m (r_ft r, r_rt r)) in *.
  exists (fst p), (snd p). split; [exact Hin|].
  assert (HfIn : In (fst p) (fwd_tags m)).
  { unfold fwd_tags. apply in_map_iff. exists (fst p, snd p, id). split; [reflexivity|exact Hin]. }
  assert (HrIn : In (snd p) (rev_tags m)).
  { unfold rev_tags. apply in_map_iff. exists (fst p, snd p, id). split; [reflexivity|exact Hin]. }
  assert (Hf0 : fst p <> []) by (intro E; rewrite E in HfIn; contradiction).
  assert (Hr0 : snd p <> []) by (intro E; rewrite E in HrIn; contradiction).
  destruct (propose_identifies (m_fmode m) (fwd_tags m) (r_ft r) (fst p) HneF Hf0 eq_refl) as [A1 A2].
  destruct (propose_identifies (m_rmode m) (rev_tags m) (r_rt r) (snd p) HneR Hr0 eq_refl) as [B1 B2].
  repeat split; auto.
Qed.

(* ======================= sym ======================= *)


Ltac min_le := first [ apply Nat.le_refl | (eapply Nat.le_trans; [apply Nat.le_min_l|]; min_le) | (eapply Nat.le_trans; [apply Nat.le_min_r|]; min_le) ].
Lemma add_min3 : forall a b c k, Nat.min (Nat.min a b) c + k = Nat.min (Nat.min (a + k) (b + k)) (c + k).
Proof. intros. lia. Qed.
Lemma min9_swap : forall A B C D E F G H I e f : nat,
  Nat.min (Nat.min (Nat.min (Nat.min (A + 1) (B + 1)) (C + e) + 1) (Nat.min (Nat.min (D + 1) (E + 1)) (F + e) + 1)) (Nat.min (Nat.min (G + 1) (H + 1)) (I + e) + f) =
  Nat.min (Nat.min (Nat.min (Nat.min (A + 1) (D + 1)) (G + f) + 1) (Nat.min (Nat.min (B + 1) (E + 1)) (H + f) + 1)) (Nat.min (Nat.min (C + 1) (F + 1)) (I + f) + e).
Proof.
  intros. rewrite !add_min3.
  replace (G + 1 + f) with (G + f + 1) by lia. replace (H + 1 + f) with (H + f + 1) by lia.
  replace (C + e + 1) with (C + 1 + e) by lia. replace (F + e + 1) with (F + 1 + e) by lia.
  replace (I + e + f) with (I + f + e) by lia.
  apply Nat.le_antisymm; repeat apply Nat.min_glb; min_le.
Qed.

(** the Wagner-Fischer recurrence can be run from either end: [edit] also satisfies the recurrence on the LAST characters *)
Definition cst (x y : N) : nat := if N.eqb x y then 0 else 1.
Lemma edit_cons' : forall x a y b,
  edit (x :: a) (y :: b) = Nat.min (Nat.min (edit a (y :: b) + 1) (edit (x :: a) b + 1)) (edit a b + cst x y).
Proof. reflexivity. Qed.
Lemma edit_nil_l : forall b, edit [] b = length b.
Proof. reflexivity. Qed.

Lemma edit_snoc_nil : forall b x y,
  edit [x] (b ++ [y]) = Nat.min (Nat.min (edit [] (b ++ [y]) + 1) (edit [x] b + 1)) (edit [] b + cst x y).
Proof.
  induction b as [|d b IH]; intros x y.
  - simpl. unfold cst. destruct (N.eqb x y); reflexivity.
  - change ((d :: b) ++ [y]) with (d :: (b ++ [y])).
    rewrite (edit_cons' x [] d (b ++ [y])). rewrite IH.
    rewrite (edit_cons' x [] d b).
    rewrite !edit_nil_l. simpl length. rewrite !app_length. simpl length.
    generalize (edit [x] b) (cst x y) (cst x d) (length b). intros. lia.
Qed.

Lemma edit_snoc : forall a b x y,
  edit (a ++ [x]) (b ++ [y]) = Nat.min (Nat.min (edit a (b ++ [y]) + 1) (edit (a ++ [x]) b + 1)) (edit a b + cst x y).
Proof.
  induction a as [|c a IHa]; intros b x y.
  - apply edit_snoc_nil.
  - induction b as [|d b IHb].
    + change ((c :: a) ++ [x]) with (c :: (a ++ [x])). change ([] ++ [y]) with [y].
      rewrite (edit_cons' c (a ++ [x]) y []).
      specialize (IHa [] x y). change ([] ++ [y]) with [y] in IHa. rewrite IHa.
      rewrite (edit_cons' c a y []).
      rewrite !edit_nil_r. simpl length. rewrite !app_length. simpl length.
      generalize (edit a [y]) (cst x y) (cst c y) (length a). intros. lia.
    + change ((c :: a) ++ [x]) with (c :: (a ++ [x])) in *. change ((d :: b) ++ [y]) with (d :: (b ++ [y])).
      rewrite (edit_cons' c (a ++ [x]) d (b ++ [y])).
      rewrite IHb.
      rewrite (IHa b x y).
      pose proof (IHa (d :: b) x y) as H1. change ((d :: b) ++ [y]) with (d :: (b ++ [y])) in H1. rewrite H1.
      rewrite (edit_cons' c a d (b ++ [y])).
      rewrite (edit_cons' c (a ++ [x]) d b).
      rewrite (edit_cons' c a d b).
      generalize (edit a (d :: b ++ [y])) (edit (a ++ [x]) (d :: b)) (edit a (d :: b)) (edit (c :: a) (b ++ [y]))
                 (edit (c :: a ++ [x]) b) (edit (c :: a) b) (edit a (b ++ [y])) (edit (a ++ [x]) b) (edit a b)
                 (cst x y) (cst c d).
      intros. apply min9_swap.
Qed.

Lemma edit_snoc_nil_r : forall a x, edit (a ++ [x]) [] = S (length a).
Proof. intros. rewrite edit_nil_r, app_length. simpl. lia. Qed.

Theorem edit_rev : forall a b, edit (rev a) (rev b) = edit a b.
Proof.
  induction a as [|x a IHa]; intro b.
  - simpl. rewrite rev_length. reflexivity.
  - induction b as [|y b IHb].
    + simpl rev at 2. rewrite edit_nil_r, rev_length. reflexivity.
    + simpl rev. rewrite edit_snoc.
      rewrite edit_cons'.
      rewrite <- (IHa b).
      pose proof (IHa (y :: b)) as H1. simpl rev in H1. rewrite <- H1.
      simpl rev in IHb. rewrite <- IHb.
      reflexivity.
Qed.

Theorem levenshtein_is_edit_fwd : forall s1 s2, levenshtein s1 s2 = edit s1 s2.
Proof. intros. rewrite levenshtein_is_edit. apply edit_rev. Qed.

(* hence symmetric ... *)
Lemma edit_sym : forall a b, edit a b = edit b a.
Proof.
  induction a as [|x a IHa]; intro b.
  - rewrite edit_nil_r. reflexivity.
  - induction b as [|y b IHb].
    + rewrite edit_nil_r. reflexivity.
    + rewrite !edit_cons'. rewrite (IHa (y :: b)), (IHa b), IHb.
      unfold cst. rewrite (N.eqb_sym y x). lia.
Qed.

(* ======================= win ======================= *)


(** from the raw windows within budget (find_all, characterised by find_all_spec) to the hit list of the library *)
Definition quiet (s : str) (mj : marker) : Prop :=
  find_all (m_fwd mj) (Z.of_N (m_ferr mj)) 0 s 0 = [] /\ find_all (m_rev mj) (Z.of_N (m_rerr mj)) 0 s 0 = [].

Lemma all_matches_nil : forall pat k from s, find_all pat k from s 0 = [] -> all_matches pat k from s = [].
Proof. intros pat k from s H. unfold all_matches. rewrite H. reflexivity. Qed.

Lemma all_matches_single : forall pat k from s b e c,
  find_all pat k from s 0 = [(b, e, c)] -> (c <= k)%Z -> (c < 10000)%Z -> all_matches pat k from s = [(b, e, c)].
Proof.
  intros pat k from s b e c H Hk Hc. unfold all_matches. rewrite H.
  assert (Hlt : (c <? 10000)%Z = true) by (apply Z.ltb_lt; exact Hc).
  assert (Hle : (c <=? k)%Z = true) by (apply Z.leb_le; exact Hk).
  unfold filter_best. cbn [fold_left fb_step].
  replace (10000 <=? 10000)%Z with true by reflexivity. cbn [orb].
  rewrite Hlt. rewrite Hlt. cbn [rev app filter snd]. rewrite Hle. reflexivity.
Qed.

Lemma marker_hits_quiet : forall idx mj s, quiet s mj -> marker_hits idx mj s = [].
Proof.
  intros idx mj s [H1 H2]. unfold marker_hits.
  rewrite (all_matches_nil _ _ _ _ H1), (all_matches_nil _ _ _ _ H2). reflexivity.
Qed.

Lemma lib_hits_quiet : forall l idx s, Forall (quiet s) l -> lib_hits idx l s = [].
Proof.
  induction l as [|mj l IH]; intros idx s H. reflexivity.
  inversion H; subst. cbn [lib_hits]. rewrite marker_hits_quiet by assumption. rewrite IH by assumption. reflexivity.
Qed.

Lemma lib_hits_app : forall l1 l2 idx s,
  lib_hits idx (l1 ++ l2) s = lib_hits idx l1 s ++ lib_hits (idx + Z.of_nat (length l1)) l2 s.
Proof.
  induction l1 as [|mj l1 IH]; intros l2 idx s.
  - simpl. rewrite Z.add_0_r. reflexivity.
  - cbn [app lib_hits]. rewrite IH. rewrite <- app_assoc. f_equal. f_equal.
    f_equal. simpl length. lia.
Qed.

(* read in the orientation forward primer ... reverse primer: only the marker [m] has windows within budget:
   one for its forward primer, one (further right) for the complement of its reverse primer, none for the reverse primer *)
Theorem hits_from_windows_forward : forall l1 m l2 s b1 e1 k1 b2 e2 k2,
  Forall (quiet s) l1 -> Forall (quiet s) l2 ->
  find_all (m_fwd m) (Z.of_N (m_ferr m)) 0 s 0 = [(b1, e1, k1)] ->
  find_all (rc (m_rev m)) (Z.of_N (m_rerr m)) (b1 + 1) s 0 = [(b2, e2, k2)] ->
  find_all (m_rev m) (Z.of_N (m_rerr m)) 0 s 0 = [] ->
  (k1 <= Z.of_N (m_ferr m) < 10000)%Z -> (k2 <= Z.of_N (m_rerr m) < 10000)%Z ->
  lib_hits 1 (l1 ++ m :: l2) s =
  [mkH b1 e1 k1 (Z.of_nat (length l1) + 1) true; mkH b2 e2 k2 (- (Z.of_nat (length l1) + 1)) true].
Proof.
  intros l1 m l2 s b1 e1 k1 b2 e2 k2 Q1 Q2 F CR R Hk1 Hk2.
  rewrite lib_hits_app. rewrite (lib_hits_quiet l1 1 s Q1). cbn [app lib_hits].
  rewrite (lib_hits_quiet l2 _ s Q2). rewrite app_nil_r.
  unfold marker_hits.
  rewrite (all_matches_single _ _ _ _ _ _ _ F) by lia.
  rewrite (all_matches_single _ _ _ _ _ _ _ CR) by lia.
  rewrite (all_matches_nil _ _ _ _ R).
  cbn [map app]. unfold mk_hit. cbn [fst snd].
  replace (1 + Z.of_nat (length l1))%Z with (Z.of_nat (length l1) + 1)%Z by lia. reflexivity.
Qed.

(* the reverse-complemented read: one window for the reverse primer, one further right for the complement of the forward primer *)
Theorem hits_from_windows_reverse : forall l1 m l2 s b1 e1 k1 b2 e2 k2,
  Forall (quiet s) l1 -> Forall (quiet s) l2 ->
  find_all (m_fwd m) (Z.of_N (m_ferr m)) 0 s 0 = [] ->
  find_all (m_rev m) (Z.of_N (m_rerr m)) 0 s 0 = [(b1, e1, k1)] ->
  find_all (rc (m_fwd m)) (Z.of_N (m_ferr m)) (b1 + 1) s 0 = [(b2, e2, k2)] ->
  (k1 <= Z.of_N (m_rerr m) < 10000)%Z -> (k2 <= Z.of_N (m_ferr m) < 10000)%Z ->
  lib_hits 1 (l1 ++ m :: l2) s =
  [mkH b1 e1 k1 (Z.of_nat (length l1) + 1) false; mkH b2 e2 k2 (- (Z.of_nat (length l1) + 1)) false].
Proof.
  intros l1 m l2 s b1 e1 k1 b2 e2 k2 Q1 Q2 F R CF Hk1 Hk2.
  rewrite lib_hits_app. rewrite (lib_hits_quiet l1 1 s Q1). cbn [app lib_hits].
  rewrite (lib_hits_quiet l2 _ s Q2). rewrite app_nil_r.
  unfold marker_hits.
  rewrite (all_matches_nil _ _ _ _ F).
  rewrite (all_matches_single _ _ _ _ _ _ _ R) by lia.
  rewrite (all_matches_single _ _ _ _ _ _ _ CF) by lia.
  cbn [map app]. unfold mk_hit. cbn [fst snd].
  replace (1 + Z.of_nat (length l1))%Z with (Z.of_nat (length l1) + 1)%Z by lia. reflexivity.
Qed.

(** canonical read / strand symmetry with the hypothesis of the property stated on the raw windows:
    the two priming sites are within budget and NO other window of the read is within budget of any primer of the library *)
Theorem canonical_read_windows : forall (l1 l2 : list marker) (m : marker),
  m_fdelim m = 0%N -> m_rdelim m = 0%N ->
  forall flankL tagF spF pF bar pR spR tagR flankR : str,
  lenZ tagF = Z.of_N (m_ftl m) -> lenZ spF = Z.of_N (m_fsp m) ->
  lenZ tagR = Z.of_N (m_rtl m) -> lenZ spR = Z.of_N (m_rsp m) ->
  pF <> [] -> pR <> [] -> bar <> [] -> dna pR -> dna tagR ->
  forall k1 k2 : Z,
  let s := canon_read flankL tagF spF pF bar pR spR tagR flankR in
  let i := length l1 in
  Forall (quiet s) l1 -> Forall (quiet s) l2 ->
  find_all (m_fwd m) (Z.of_N (m_ferr m)) 0 s 0 = [(cb1 flankL tagF spF, ce1 flankL tagF spF pF, k1)] ->
  find_all (rc (m_rev m)) (Z.of_N (m_rerr m)) (cb1 flankL tagF spF + 1) s 0 = [(cb2 flankL tagF spF pF bar, ce2 flankL tagF spF pF bar pR, k2)] ->
  find_all (m_rev m) (Z.of_N (m_rerr m)) 0 s 0 = [] ->
  (k1 <= Z.of_N (m_ferr m) < 10000)%Z -> (k2 <= Z.of_N (m_rerr m) < 10000)%Z ->
  demux (l1 ++ m :: l2) s = Recs [canon_record i m tagF pF bar pR tagR k1 k2 true].
Proof.
  intros l1 l2 m Hfd Hrd flankL tagF spF pF bar pR spR tagR flankR HtF HsF HtR HsR HpF HpR Hbar DpR DtR k1 k2 s i Q1 Q2 F CR R Hk1 Hk2.
  apply canonical_read_demux; auto.
  - unfold i. rewrite app_nth2 by lia. rewrite Nat.sub_diag. reflexivity.
  - unfold canon_hits, mkid. apply hits_from_windows_forward; auto.
Qed.

Theorem strand_symmetry_windows : forall (l1 l2 : list marker) (m : marker),
  m_fdelim m = 0%N -> m_rdelim m = 0%N ->
  forall flankL tagF spF pF bar pR spR tagR flankR : str,
  lenZ tagF = Z.of_N (m_ftl m) -> lenZ spF = Z.of_N (m_fsp m) ->
  lenZ tagR = Z.of_N (m_rtl m) -> lenZ spR = Z.of_N (m_rsp m) ->
  pF <> [] -> pR <> [] -> bar <> [] -> dna pF -> dna pR -> dna tagF -> dna tagR -> dna bar ->
  forall k1 k2 : Z,
  let s := canon_read flankL tagF spF pF bar pR spR tagR flankR in
  let L := cL flankL tagF spF pF bar pR spR tagR flankR in
  let i := length l1 in
  Forall (quiet (rc s)) l1 -> Forall (quiet (rc s)) l2 ->
  find_all (m_fwd m) (Z.of_N (m_ferr m)) 0 (rc s) 0 = [] ->
  find_all (m_rev m) (Z.of_N (m_rerr m)) 0 (rc s) 0 =
    [((L - ce2 flankL tagF spF pF bar pR)%Z, (L - cb2 flankL tagF spF pF bar)%Z, k2)] ->
  find_all (rc (m_fwd m)) (Z.of_N (m_ferr m)) (L - ce2 flankL tagF spF pF bar pR + 1) (rc s) 0 =
    [((L - ce1 flankL tagF spF pF)%Z, (L - cb1 flankL tagF spF)%Z, k1)] ->
  (k1 <= Z.of_N (m_ferr m) < 10000)%Z -> (k2 <= Z.of_N (m_rerr m) < 10000)%Z ->
  demux (l1 ++ m :: l2) (rc s) = Recs [canon_record i m tagF pF bar pR tagR k1 k2 false].
Proof.
  intros l1 l2 m Hfd Hrd flankL tagF spF pF bar pR spR tagR flankR HtF HsF HtR HsR HpF HpR Hbar DpF DpR DtF DtR Dbar k1 k2 s L i Q1 Q2 F R CF Hk1 Hk2.
  unfold demux.
  rewrite (hits_from_windows_reverse l1 m l2 (rc s) _ _ k2 _ _ k1 Q1 Q2 F R CF) by lia.
  apply (canonical_reverse (l1 ++ m :: l2) i m); auto.
  unfold i. rewrite app_nth2 by lia. rewrite Nat.sub_diag. reflexivity.
Qed.
