(** C12, round 3 — executable model of the glue between the sample sheet / the command line and the demultiplexer:
    * the @param lines of a CSV sheet (pkg/obiformats/ngsfilter_read.go [library_parameter], pkg/obingslibrary/ngslibrary.go
      Set*, Set*For, CheckPrimerUnicity filling [library.Primers]) and the command-line overrides -e / --with-indels
      (ExtractMultiBarcodeSliceWorker);
    * the routing of the records by obimultiplex (pkg/obitools/obimultiplex/demultiplex.go IExtractBarcode): standard output,
      file given to --unidentified, or nothing.
    Executable definitions only: lemmas in CmdProofs.v, property theorems in Props.v. *)
From Coq Require Import NArith ZArith List Bool Arith.
Import ListNotations.
From OBI.C12 Require Import Model.

(** ---------------- settings of one primer of a marker ---------------- *)
Record side := mkS { s_sp : N; s_err : N; s_mode : N; s_delim : N; s_tind : N; s_ind : bool }.
Record pmarker := mkPM { p_fwd : str; p_rev : str; p_f : side; p_r : side }.

(* NGSLibrary.GetMarker: the settings of a marker the sheet has just introduced *)
Definition default_side := mkS 0 2 0 0 0 false.

(** ---------------- one @param line ---------------- *)
(* which primers the line is about: every marker (spacer), the forward ones (forward_spacer), the reverse ones, or ONE primer
   given by its sequence (two-argument form) *)
Inductive scope := Both | FwdOnly | RevOnly | For (p : str).
Inductive field := FSpacer (v : N) | FErr (v : N) | FMode (v : N) | FDelim (d : N) | FTind (v : N) | FInd (b : bool).
Record param := mkP { p_scope : scope; p_field : field }.

(* marker.go normalizeTagDelimiter: '0' and 0 mean "no delimiter", capitals are lowered (other letters: fatal, not a library) *)
Definition norm_delim (d : N) : N :=
  if N.eqb d 48 || N.eqb d 0 then 0 else if N.leb 65 d && N.leb d 90 then d + 32 else d.

Definition upd (f : field) (s : side) : side :=
  match f with
  | FSpacer v => mkS v (s_err s) (s_mode s) (s_delim s) (s_tind s) (s_ind s)
  | FErr v => mkS (s_sp s) v (s_mode s) (s_delim s) (s_tind s) (s_ind s)
  | FMode v => mkS (s_sp s) (s_err s) v (s_delim s) (s_tind s) (s_ind s)
  | FDelim d => mkS (s_sp s) (s_err s) (s_mode s) (norm_delim d) (s_tind s) (s_ind s)
  | FTind v => mkS (s_sp s) (s_err s) (s_mode s) (s_delim s) v (s_ind s)
  | FInd b => mkS (s_sp s) (s_err s) (s_mode s) (s_delim s) (s_tind s) b
  end.

Definition on_f (g : side -> side) (m : pmarker) : pmarker := mkPM (p_fwd m) (p_rev m) (g (p_f m)) (p_r m).
Definition on_r (g : side -> side) (m : pmarker) : pmarker := mkPM (p_fwd m) (p_rev m) (p_f m) (g (p_r m)).

(* library.Primers : primer sequence -> primer pair of the marker it belongs to.  CheckPrimerUnicity writes two entries per
   marker; the table is EMPTY until it has run. *)
Definition ptable := list (str * (str * str)).
Definition table_of (lib : list pmarker) : ptable :=
  flat_map (fun m => [(p_fwd m, (p_fwd m, p_rev m)); (p_rev m, (p_fwd m, p_rev m))]) lib.
Definition owner (tbl : ptable) (p : str) : option (str * str) :=
  option_map snd (find (fun e => str_eqb (fst e) p) tbl).
Definition is_marker (pp : str * str) (m : pmarker) : bool := str_eqb (p_fwd m) (fst pp) && str_eqb (p_rev m) (snd pp).

(* NGSLibrary.Set<X>, SetForward<X>, SetReverse<X>, Set<X>For *)
Definition apply_param (tbl : ptable) (lib : list pmarker) (p : param) : list pmarker :=
  let g := upd (p_field p) in
  match p_scope p with
  | Both => map (fun m => on_r g (on_f g m)) lib
  | FwdOnly => map (on_f g) lib
  | RevOnly => map (on_r g) lib
  | For pr =>
      match owner tbl pr with
      | None => lib                                             (* unknown primer: the line is ignored, silently *)
      | Some pp => map (fun m => if is_marker pp m then (if str_eqb pr (fst pp) then on_f g m else on_r g m) else m) lib
      end
  end.
(* ReadCSVNGSFilter: rows first, CheckPrimerUnicity, then the @param lines in the order of the file *)
Definition apply_params (tbl : ptable) (lib : list pmarker) (ps : list param) : list pmarker := fold_left (apply_param tbl) ps lib.
Definition read_params (lib : list pmarker) (ps : list param) : list pmarker := apply_params (table_of lib) lib ps.

(* ExtractMultiBarcodeSliceWorker: --with-indels, then -e N when N > 0, for every primer *)
Definition cli_params (emis : Z) (windels : bool) : list param :=
  (if windels then [mkP Both (FInd true)] else []) ++ (if (0 <? emis)%Z then [mkP Both (FErr (Z.to_N emis))] else []).

(** ---------------- routing of the records (IExtractBarcode) ---------------- *)
Inductive mode := MDefault | MKeep | MUnid | MKeepUnid.
Definition m_keep (md : mode) : bool := match md with MKeep | MKeepUnid => true | _ => false end.
Definition m_unid (md : mode) : bool := match md with MUnid | MKeepUnid => true | _ => false end.
(* options.go CLIConservedErrors *)
Definition conserved (md : mode) : bool := m_unid md || m_keep md.

(* a record is seen through its error flag (second component: obimultiplex_error present) *)
Definition flagged {A} (r : A * bool) : bool := snd r.
Definition unflagged {A} (r : A * bool) : bool := negb (snd r).
(* (standard output, file of --unidentified) *)
Definition route {A} (md : mode) (recs : list (A * bool)) : list (A * bool) * list (A * bool) :=
  let out := if conserved md then recs else filter unflagged recs in         (* FilterOn(HasAttribute(error).Not()) *)
  if m_unid md then (filter unflagged recs, filter flagged recs)             (* newIter.DivideOn(HasAttribute(error)) *)
  else (out, []).

(* the records of the model with their flag *)
Definition with_flag (r : res) : res * bool := (r, r_err r).

(** ---------------- correspondence cases ---------------- *)
Definition side_eqb (a b : side) : bool :=
  N.eqb (s_sp a) (s_sp b) && N.eqb (s_err a) (s_err b) && N.eqb (s_mode a) (s_mode b) && N.eqb (s_delim a) (s_delim b) &&
  N.eqb (s_tind a) (s_tind b) && Bool.eqb (s_ind a) (s_ind b).
Definition pmarker_eqb (a b : pmarker) : bool :=
  str_eqb (p_fwd a) (p_fwd b) && str_eqb (p_rev a) (p_rev b) && side_eqb (p_f a) (p_f b) && side_eqb (p_r a) (p_r b).
Definition flag_eqb (a b : N * bool) : bool := N.eqb (fst a) (fst b) && Bool.eqb (snd a) (snd b).

Inductive ccase3 :=
(* the markers of the sheet (primer pairs, in any order), its @param lines, the command-line overrides, the settings observed in the library *)
| CParams (primers : list (str * str)) (ps : list param) (emis : Z) (windels : bool) (observed : list pmarker)
(* the records of one read (rank, flag), what was seen on the standard output and in the file *)
| CRoute (md : mode) (recs out unid : list (N * bool)).

Definition case3_ok (c : ccase3) : bool :=
  match c with
  | CParams primers ps emis windels observed =>
      let lib := map (fun pp => mkPM (fst pp) (snd pp) default_side default_side) primers in
      let l1 := read_params lib ps in
      list_eqb pmarker_eqb (apply_params (table_of l1) l1 (cli_params emis windels)) observed
  | CRoute md recs out unid =>
      let r := route md recs in list_eqb flag_eqb (fst r) out && list_eqb flag_eqb (snd r) unid
  end.
Fixpoint mismatches3_from (i : nat) (l : list ccase3) : list nat :=
  match l with
  | [] => []
  | c :: l' => let rest := mismatches3_from (S i) l' in if case3_ok c then rest else i :: rest
  end.
Definition mismatches3 := mismatches3_from 0.
