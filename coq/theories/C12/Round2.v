(** C12 (round 2) - every iteration order of the tag table (perms), no distance bound on the nearest tag, records cut at the spans of
    their own hit pair (any matcher: indel spans), independence of the amplicons of a chimeric read, stability of the sort of the hits.
    Lemmas only; property theorems are restated in Props.v. *)
From Coq Require Import NArith ZArith List Bool Arith Lia Permutation.
Import ListNotations.
From OBI.C12 Require Import Model Proofs.

Local Open Scope nat_scope.

(** ---------- perms enumerates exactly the permutations ---------- *)
Lemma insert_all_perm : forall (A : Type) (x : A) l p, In p (insert_all x l) -> Permutation (x :: l) p.
Proof.
  intros A x l. induction l as [|y l IH]; intros p H; simpl in H.
  - destruct H as [H|[]]. subst. apply Permutation_refl.
  - destruct H as [H|H]. subst. apply Permutation_refl.
    apply in_map_iff in H. destruct H as [q [Hq Hin]]. subst p.
    apply IH in Hin. eapply Permutation_trans. apply perm_swap. apply perm_skip. exact Hin.
Qed.

Lemma perms_sound : forall (A : Type) (l p : list A), In p (perms l) -> Permutation l p.
Proof.
  intros A l. induction l as [|x l IH]; intros p H; simpl in H.
  - destruct H as [H|[]]. subst. apply perm_nil.
  - apply in_flat_map in H. destruct H as [q [Hq Hin]]. apply insert_all_perm in Hin.
    eapply Permutation_trans; [|exact Hin]. apply perm_skip. apply IH. exact Hq.
Qed.

Lemma insert_all_mid : forall (A : Type) (x : A) a b, In (a ++ x :: b) (insert_all x (a ++ b)).
Proof.
  intros A x a. induction a as [|y a IH]; intros b; simpl.
  - destruct b; simpl; left; reflexivity.
  - right. apply in_map. apply IH.
Qed.

Lemma perms_complete : forall (A : Type) (l p : list A), Permutation l p -> In p (perms l).
Proof.
  intros A l. induction l as [|x l IH]; intros p H.
  - apply Permutation_nil in H. subst. simpl. left. reflexivity.
  - assert (Hin : In x p) by (eapply Permutation_in; [exact H|left; reflexivity]).
    apply in_split in Hin. destruct Hin as [a [b Hp]]. subst p.
    apply Permutation_cons_app_inv in H.
    simpl. apply in_flat_map. exists (a ++ b). split. apply IH. exact H. apply insert_all_mid.
Qed.

(* what one [CClosestAll] correspondence case establishes: the answer observed on the code is the model's answer for EVERY iteration order *)
Theorem closest_all_orders : forall dist t tags ans,
  forallb (fun p => let r := closest dist p t in str_eqb (fst r) (fst ans) && optN_eqb (option_map N.of_nat (snd r)) (snd ans)) (perms tags) = true ->
  forall tags', Permutation tags tags' ->
  fst (closest dist tags' t) = fst ans /\ option_map N.of_nat (snd (closest dist tags' t)) = snd ans.
Proof.
  intros dist t tags ans H tags' HP. rewrite forallb_forall in H.
  specialize (H tags' (perms_complete _ _ _ HP)). cbv zeta in H. apply andb_true_iff in H. destruct H as [H1 H2].
  split. apply str_eqb_spec. exact H1.
  destruct (option_map N.of_nat (snd (closest dist tags' t))) as [x|], (snd ans) as [y|]; simpl in H2; try discriminate; try reflexivity.
  apply N.eqb_eq in H2. subst. reflexivity.
Qed.

(** ---------- no upper bound on the distance of the nearest tag (by design: "unique nearest tag") ---------- *)
Lemma closest_single : forall dist u t, closest dist [u] t = (u, Some (dist u t)).
Proof. intros. reflexivity. Qed.

Lemma ham_count_repeat : forall a c n, a <> c -> ham_count (repeat a n) (repeat c n) = n.
Proof.
  intros a c n H. induction n as [|n IH]. reflexivity.
  simpl. replace (N.eqb a c) with false by (symmetry; apply N.eqb_neq; exact H). rewrite IH. reflexivity.
Qed.

Theorem nearest_unbounded : forall n, 1 <= n ->
  exists tags t u, In u tags /\ hamming u t = n /\ n = length t /\ propose 1%N tags t = u.
Proof.
  intros n Hn. exists [repeat 97%N n], (repeat 99%N n), (repeat 97%N n).
  split. left. reflexivity.
  assert (Hh : hamming (repeat 97%N n) (repeat 99%N n) = n).
  { unfold hamming. rewrite !repeat_length, Nat.eqb_refl. apply ham_count_repeat. discriminate. }
  split. exact Hh. split. rewrite repeat_length. reflexivity.
  unfold propose. destruct n as [|n]; [lia|]. reflexivity.
Qed.


Local Open Scope Z_scope.

(** ---------- every record is cut at the spans of ITS OWN hit pair (whatever the matcher: substitution windows or re-aligned
    indel spans of any length) ---------- *)
Definition record_of_pair (s : str) (f h : hit) (r : res) : Prop :=
  r_dir r = hfw f /\
  r_bar r = (if hfw h then subZ s (he f) (hb h) else rc (subZ s (he f) (hb h))) /\
  (if hfw f
   then r_fm r = subZ s (hb f) (he f) /\ r_rm r = rc (subZ s (hb h) (he h)) /\ r_fe r = Z.to_N (hk f) /\ r_re r = Z.to_N (hk h)
   else r_rm r = subZ s (hb f) (he f) /\ r_fm r = rc (subZ s (hb h) (he h)) /\ r_re r = Z.to_N (hk f) /\ r_fe r = Z.to_N (hk h)) /\
  0 <= hb f /\ he f < hb h /\ hb h < he h /\ he h <= lenZ s.

Lemma emit_record_of_pair : forall lib s f h r, In r (emit lib s (f, h)) -> record_of_pair s f h r.
Proof.
  intros lib s f h r Hr. unfold emit in Hr.
  destruct ((hb f <? 0) || (lenZ s <? he f)) eqn:E1; [contradiction|].
  destruct ((he h <=? hb h) || (hb h <? 0) || (lenZ s <=? hb h) || (lenZ s <? he h)) eqn:E2; [contradiction|].
  destruct ((hb h <=? he f) || (lenZ s <=? he f)) eqn:E3; [contradiction|].
  destruct Hr as [Hr|[]]. subst r. unfold record_of_pair. cbn [r_dir r_bar r_fm r_rm r_fe r_re].
  apply orb_false_iff in E1. destruct E1 as [E1a E1b].
  apply orb_false_iff in E2. destruct E2 as [E2 E2d]. apply orb_false_iff in E2. destruct E2 as [E2 E2c].
  apply orb_false_iff in E2. destruct E2 as [E2a E2b].
  apply orb_false_iff in E3. destruct E3 as [E3a E3b].
  apply Z.ltb_ge in E1a, E1b, E2b, E2d. apply Z.leb_gt in E2a, E2c, E3a, E3b.
  split. reflexivity. split. reflexivity.
  split. destruct (hfw f); repeat split; reflexivity.
  lia.
Qed.

Theorem record_between_spans : forall lib s hits rs r,
  demux_hits lib s hits = Recs rs -> In r rs ->
  exists f h, In (f, h) (pair_hits (sort_hits hits) None) /\ In f hits /\ In h hits /\ record_of_pair s f h r.
Proof.
  intros lib s hits rs r H Hr. unfold demux_hits in H.
  destruct (flat_map (emit lib s) (pair_hits (sort_hits hits) None)) as [|r0 l] eqn:E; [discriminate|].
  inversion H; subst rs. rewrite <- E in Hr. apply in_flat_map in Hr. destruct Hr as [[f h] [Hin Hr]].
  exists f, h. split. exact Hin.
  destruct (pair_hits_consecutive _ _ _ Hin) as [_ [l1 [l2 Hl]]].
  assert (Hf : In f (sort_hits hits)) by (rewrite Hl; apply in_or_app; right; left; reflexivity).
  assert (Hh : In h (sort_hits hits)) by (rewrite Hl; apply in_or_app; right; right; left; reflexivity).
  split. eapply Permutation_in. apply Permutation_sym. apply sort_hits_perm. exact Hf.
  split. eapply Permutation_in. apply Permutation_sym. apply sort_hits_perm. exact Hh.
  eapply emit_record_of_pair. exact Hr.
Qed.

(** ---------- the amplicons of a chimeric read are independent: what is emitted for one (from, match) pair is what the read
    would give if these two hits were its only primer hits ---------- *)
Definition records_of (o : obs) : list res := match o with Recs l => l | NoBarcode _ => [] end.

Lemma sorted_b_tail : forall x l, sorted_b (x :: l) -> sorted_b l.
Proof. intros x l H. inversion H; subst. constructor. assumption. Qed.

Lemma sorted_b_adjacent : forall l1 f h l2, sorted_b (l1 ++ f :: h :: l2) -> hb f <= hb h.
Proof.
  induction l1 as [|x l1 IH]; intros f h l2 H.
  - simpl in H. inversion H; subst. assumption.
  - simpl in H. apply sorted_b_tail in H. eapply IH. exact H.
Qed.

Lemma demux_pair_alone : forall lib s f h,
  0 < hmk f -> hmk h = - hmk f -> hfw h = hfw f -> hb f <= hb h ->
  records_of (demux_hits lib s [f; h]) = emit lib s (f, h).
Proof.
  intros lib s f h H1 H2 H3 H4. unfold demux_hits. rewrite sort_two by exact H4.
  rewrite pair_two by assumption. cbn [flat_map]. rewrite app_nil_r.
  destruct (emit lib s (f, h)); reflexivity.
Qed.

Lemma flat_map_ext_in' : forall (A B : Type) (f g : A -> list B) l, (forall x, In x l -> f x = g x) -> flat_map f l = flat_map g l.
Proof.
  intros A B f g l H. induction l as [|x l IH]. reflexivity.
  simpl. rewrite H by (left; reflexivity). rewrite IH. reflexivity. intros y Hy. apply H. right. exact Hy.
Qed.

Theorem amplicons_independent : forall lib s hits,
  records_of (demux_hits lib s hits) =
  flat_map (fun fh => records_of (demux_hits lib s [fst fh; snd fh])) (pair_hits (sort_hits hits) None).
Proof.
  intros lib s hits.
  assert (E : records_of (demux_hits lib s hits) = flat_map (emit lib s) (pair_hits (sort_hits hits) None)).
  { unfold demux_hits. destruct (flat_map (emit lib s) (pair_hits (sort_hits hits) None)); reflexivity. }
  rewrite E. apply flat_map_ext_in'. intros [f h] Hin. cbn [fst snd].
  destruct (pair_hits_consecutive _ _ _ Hin) as [[H1 [H2 H3]] [l1 [l2 Hl]]].
  symmetry. apply demux_pair_alone; auto.
  eapply sorted_b_adjacent. rewrite <- Hl. apply sort_hits_sorted.
Qed.

(* in particular: the same hit pair gives the same records in any two reads' hit lists (same read text) - nothing leaks from the
   other amplicons of a chimera *)
Corollary amplicon_records_do_not_depend_on_the_other_hits : forall lib s hits hits' f h,
  In (f, h) (pair_hits (sort_hits hits) None) -> In (f, h) (pair_hits (sort_hits hits') None) ->
  forall r, In r (emit lib s (f, h)) ->
  In r (records_of (demux_hits lib s hits)) /\ In r (records_of (demux_hits lib s hits')) /\
  In r (records_of (demux_hits lib s [f; h])).
Proof.
  intros lib s hits hits' f h H H' r Hr.
  assert (E : forall hs, records_of (demux_hits lib s hs) = flat_map (emit lib s) (pair_hits (sort_hits hs) None)).
  { intro hs. unfold demux_hits. destruct (flat_map (emit lib s) (pair_hits (sort_hits hs) None)); reflexivity. }
  split. rewrite E. apply in_flat_map. exists (f, h). split; assumption.
  split. rewrite E. apply in_flat_map. exists (f, h). split; assumption.
  destruct (pair_hits_consecutive _ _ _ H) as [[H1 [H2 H3]] [l1 [l2 Hl]]].
  rewrite demux_pair_alone; auto.
  eapply sorted_b_adjacent. rewrite <- Hl. apply sort_hits_sorted.
Qed.


Local Open Scope Z_scope.

(** ---------- sort_hits is STABLE: hits starting at the same position keep the order in which they were collected
    (marker after marker in primer order; forward, complemented reverse, reverse, complemented forward pattern) ---------- *)
Definition at_b (b : Z) (x : hit) : bool := hb x =? b.

Lemma sorted_b_tl : forall x l, sorted_b (x :: l) -> sorted_b l.
Proof. intros x l H. inversion H; subst. constructor. assumption. Qed.

Lemma sorted_b_head_le : forall x l y, sorted_b (x :: l) -> In y l -> hb x <= hb y.
Proof.
  intros x l. revert x. induction l as [|z l IH]; intros x y Hs Hy. contradiction.
  inversion Hs; subst. destruct Hy as [Hy|Hy]. subst. assumption.
  specialize (IH z y H3 Hy). lia.
Qed.

Lemma filter_none_above : forall b l, (forall y, In y l -> b < hb y) -> filter (at_b b) l = [].
Proof.
  intros b l H. induction l as [|x l IH]. reflexivity.
  simpl. unfold at_b at 1. replace (hb x =? b) with false.
  apply IH. intros y Hy. apply H. right. exact Hy.
  symmetry. apply Z.eqb_neq. specialize (H x (or_introl eq_refl)). lia.
Qed.

Lemma insert_hit_filter : forall b h l, sorted_b l ->
  filter (at_b b) (insert_hit h l) = if hb h =? b then filter (at_b b) l ++ [h] else filter (at_b b) l.
Proof.
  intros b h l Hs. induction l as [|x l IH].
  - simpl. unfold at_b. destruct (hb h =? b); reflexivity.
  - cbn [insert_hit]. destruct (hb h <? hb x) eqn:E.
    + apply Z.ltb_lt in E.
      change (filter (at_b b) (h :: x :: l)) with (if at_b b h then h :: filter (at_b b) (x :: l) else filter (at_b b) (x :: l)).
      unfold at_b at 1. destruct (hb h =? b) eqn:Eb.
      * apply Z.eqb_eq in Eb.
        rewrite (filter_none_above b (x :: l)). reflexivity.
        intros y Hy. destruct Hy as [Hy|Hy]. subst. lia.
        pose proof (sorted_b_head_le x l y Hs Hy). lia.
      * reflexivity.
    + cbn [filter]. rewrite IH by (eapply sorted_b_tl; exact Hs).
      destruct (at_b b x); destruct (hb h =? b); reflexivity.
Qed.

Lemma sort_hits_stable_aux : forall b l acc, sorted_b acc ->
  filter (at_b b) (fold_left (fun a h => insert_hit h a) l acc) = filter (at_b b) acc ++ filter (at_b b) l.
Proof.
  intros b l. induction l as [|x l IH]; intros acc Hs; cbn [fold_left filter].
  - rewrite app_nil_r. reflexivity.
  - rewrite IH by (apply insert_hit_sorted; exact Hs). rewrite insert_hit_filter by exact Hs.
    unfold at_b. destruct (hb x =? b). rewrite <- app_assoc. reflexivity. reflexivity.
Qed.

Theorem sort_hits_stable : forall b l, filter (at_b b) (sort_hits l) = filter (at_b b) l.
Proof. intros b l. unfold sort_hits. rewrite sort_hits_stable_aux by constructor. reflexivity. Qed.


Local Open Scope nat_scope.
(* every list enumerated by [perms] gives the answer of the declared order *)
Lemma closest_perms : forall (dist : str -> str -> nat) (t : str) (tags p : list str),
  ~ In [] tags -> In p (perms tags) -> closest dist p t = closest dist tags t.
Proof. intros dist t tags p H Hp. symmetry. apply closest_permutation. exact H. apply perms_sound. exact Hp. Qed.

Lemma perms_iff : forall (A : Type) (l p : list A), In p (perms l) <-> Permutation l p.
Proof. intros. split. apply perms_sound. apply perms_complete. Qed.

Local Open Scope Z_scope.
(** delimited tags, ANY matcher producing the two intended hits (e.g. re-aligned indel spans), both strands *)
Theorem canonical_delimited_any_matcher : forall (lib : list marker) (i : nat) (m : marker),
  nth i lib dummy_marker = m ->
  forall (df dr : N) (nf nr : nat),
  m_fdelim m = df -> m_rdelim m = dr -> df <> 0%N -> dr <> 0%N ->
  comp (comp df) = df -> comp (comp dr) = dr ->
  m_ftind m = 0%N -> m_rtind m = 0%N ->
  Z.of_N (m_fsp m) = Z.of_nat nf -> Z.of_N (m_rsp m) = Z.of_nat nr -> (1 <= nf)%nat -> (1 <= nr)%nat ->
  forall flankL tagF pF bar pR tagR flankR : str,
  lenZ tagF = Z.of_N (m_ftl m) -> lenZ tagR = Z.of_N (m_rtl m) ->
  ~ In df tagF -> ~ In dr tagR ->
  pF <> [] -> pR <> [] -> bar <> [] -> dna pF -> dna pR -> dna tagF -> dna tagR -> dna bar ->
  forall k1 k2 : Z,
  demux_hits lib (canon_read (fL df flankL) tagF (sF df nf) pF bar pR (sR dr nr) tagR (fR dr flankR))
    (canon_hits i (fL df flankL) tagF (sF df nf) pF bar pR k1 k2) = Recs [canon_record i m tagF pF bar pR tagR k1 k2 true] /\
  demux_hits lib (rc (canon_read (fL df flankL) tagF (sF df nf) pF bar pR (sR dr nr) tagR (fR dr flankR)))
    (canon_hits_rc i (fL df flankL) tagF (sF df nf) pF bar pR (sR dr nr) tagR (fR dr flankR) k1 k2) = Recs [canon_record i m tagF pF bar pR tagR k1 k2 false].
Proof.
  intros. split.
  - apply canonical_forward_gen; auto.
    + eapply delim_F1; eauto.
    + eapply delim_F2; eauto.
  - apply canonical_reverse_gen; auto.
    + eapply delim_R1; eauto.
    + eapply delim_R2; eauto.
Qed.
