(** C12, round 3 — lemmas about the glue modelled in Cmd.v (sheet parameters, command-line overrides, routing of the records). *)
From Coq Require Import NArith ZArith List Bool Arith Permutation Lia.
Import ListNotations.
From OBI.C12 Require Import Model Proofs Cmd.

(** ---------------- routing ---------------- *)
Lemma filter_split_perm : forall A (f : A -> bool) l,
  Permutation l (filter (fun x => negb (f x)) l ++ filter f l).
Proof.
  intros A f l. induction l as [|x l IH]; simpl.
  - constructor.
  - destruct (f x); simpl.
    + apply Permutation_cons_app. exact IH.
    + constructor. exact IH.
Qed.

Lemma route_partition : forall A md (recs : list (A * bool)),
  m_unid md = true -> Permutation recs (fst (route md recs) ++ snd (route md recs)).
Proof.
  intros A md recs H. unfold route. rewrite H. simpl.
  exact (filter_split_perm (A * bool) (fun r => snd r) recs).
Qed.

Lemma route_keep_all : forall A (recs : list (A * bool)), route MKeep recs = (recs, []).
Proof. reflexivity. Qed.

Lemma route_unflagged_kept : forall A md (recs : list (A * bool)) r,
  In r recs -> snd r = false -> In r (fst (route md recs)).
Proof.
  intros A md recs r Hin Hf. unfold route.
  assert (Hfl : In r (filter unflagged recs)).
  { apply filter_In. split; [exact Hin|]. unfold unflagged. rewrite Hf. reflexivity. }
  destruct (m_unid md); simpl; [exact Hfl|].
  destruct (conserved md); [exact Hin|exact Hfl].
Qed.

Lemma route_stdout_unflagged : forall A md (recs : list (A * bool)) r,
  md <> MKeep -> In r (fst (route md recs)) -> snd r = false /\ In r recs.
Proof.
  intros A md recs r Hmd Hin. unfold route in Hin.
  destruct md; simpl in Hin; try congruence;
    apply filter_In in Hin; destruct Hin as [Hin Hu]; unfold unflagged in Hu;
    (split; [destruct (snd r); [discriminate|reflexivity]|exact Hin]).
Qed.

Lemma route_file_flagged : forall A md (recs : list (A * bool)) r,
  In r (snd (route md recs)) -> snd r = true /\ m_unid md = true /\ In r recs.
Proof.
  intros A md recs r Hin. unfold route in Hin.
  destruct (m_unid md) eqn:Hu; simpl in Hin; [|contradiction].
  apply filter_In in Hin. destruct Hin as [Hin Hf]. unfold flagged in Hf. auto.
Qed.

Lemma route_nothing_invented : forall A md (recs : list (A * bool)) r,
  In r (fst (route md recs)) -> In r recs.
Proof.
  intros A md recs r Hin. unfold route in Hin.
  destruct (m_unid md); simpl in Hin.
  - apply filter_In in Hin. tauto.
  - destruct (conserved md); [exact Hin|]. apply filter_In in Hin. tauto.
Qed.

(* a flagged record disappears only in the default mode *)
Lemma route_flagged_somewhere : forall A md (recs : list (A * bool)) r,
  md <> MDefault -> In r recs -> In r (fst (route md recs) ++ snd (route md recs)).
Proof.
  intros A md recs r Hmd Hin. destruct (m_unid md) eqn:Hu.
  - eapply Permutation_in; [apply route_partition; exact Hu|exact Hin].
  - destruct md; simpl in Hu; try discriminate; try congruence.
    simpl. rewrite app_nil_r. exact Hin.
Qed.

(* composition with the safety theorem: what the command writes on its standard output when errors are not kept *)
Lemma command_stdout_identified : forall lib s hits rs md r,
  demux_hits lib s hits = Recs rs -> md <> MKeep ->
  In (with_flag r) (fst (route md (map with_flag rs))) -> In r rs ->
  let m := nth (N.to_nat (r_mk r)) lib dummy_marker in
  let p := proposed_pair m (r_ft r, r_rt r) in
  exists id, r_sample r = Some id /\ In (fst p, snd p, id) (m_samples m).
Proof.
  intros lib s hits rs md r Hd Hmd Hout Hin m p.
  apply route_stdout_unflagged in Hout; [|exact Hmd]. destruct Hout as [Hf _]. simpl in Hf.
  pose proof (demux_hits_safe lib s hits rs Hd r Hin) as Hs. unfold safe_record in Hs.
  destruct Hs as [_ Hs]. fold m in Hs. fold p in Hs.
  destruct (r_sample r) as [id|].
  - exists id. split; [reflexivity|tauto].
  - destruct Hs as [_ He]. congruence.
Qed.

Lemma command_sample_on_stdout : forall lib s hits rs md r id,
  demux_hits lib s hits = Recs rs -> In r rs -> r_sample r = Some id ->
  In (with_flag r) (fst (route md (map with_flag rs))).
Proof.
  intros lib s hits rs md r id Hd Hin Hs.
  apply route_unflagged_kept.
  - apply in_map. exact Hin.
  - simpl. pose proof (demux_hits_safe lib s hits rs Hd r Hin) as Hsafe. unfold safe_record in Hsafe.
    destruct Hsafe as [_ Hsafe]. rewrite Hs in Hsafe. tauto.
Qed.

(** ---------------- sheet parameters ---------------- *)
Definition primers_of (lib : list pmarker) : list str := flat_map (fun m => [p_fwd m; p_rev m]) lib.

Lemma str_eqb_refl : forall a, str_eqb a a = true.
Proof. intro a. apply str_eqb_spec. reflexivity. Qed.

Lemma primers_of_app : forall a b, primers_of (a ++ b) = primers_of a ++ primers_of b.
Proof. intros. unfold primers_of. apply flat_map_app. Qed.

Lemma table_of_app : forall a b, table_of (a ++ b) = table_of a ++ table_of b.
Proof. intros. unfold table_of. apply flat_map_app. Qed.

Lemma find_app_none : forall A (f : A -> bool) a b, find f a = None -> find f (a ++ b) = find f b.
Proof.
  intros A f a b. induction a as [|x a IH]; simpl; [reflexivity|].
  destruct (f x); [discriminate|exact IH].
Qed.

Lemma find_table_none : forall lib p, ~ In p (primers_of lib) ->
  find (fun e : str * (str * str) => str_eqb (fst e) p) (table_of lib) = None.
Proof.
  intros lib p. induction lib as [|m lib IH]; simpl; intro Hn; [reflexivity|].
  destruct (str_eqb (p_fwd m) p) eqn:E1.
  { apply str_eqb_spec in E1. exfalso. apply Hn. left. exact E1. }
  destruct (str_eqb (p_rev m) p) eqn:E2.
  { apply str_eqb_spec in E2. exfalso. apply Hn. right. left. exact E2. }
  apply IH. intro H. apply Hn. right. right. exact H.
Qed.

Lemma owner_unknown : forall lib p, ~ In p (primers_of lib) -> owner (table_of lib) p = None.
Proof. intros lib p H. unfold owner. rewrite find_table_none by exact H. reflexivity. Qed.

Lemma nodup_split : forall l1 (m : pmarker) l2, NoDup (primers_of (l1 ++ m :: l2)) ->
  ~ In (p_fwd m) (primers_of l1) /\ ~ In (p_rev m) (primers_of l1) /\
  ~ In (p_fwd m) (primers_of l2) /\ ~ In (p_rev m) (primers_of l2) /\ p_fwd m <> p_rev m.
Proof.
  intros l1 m l2 H. rewrite primers_of_app in H. simpl in H.
  assert (H1 := NoDup_remove_2 _ _ _ H).
  assert (H0 := NoDup_remove_1 _ _ _ H).
  change (primers_of l1 ++ p_rev m :: primers_of l2) with (primers_of l1 ++ p_rev m :: primers_of l2) in *.
  assert (H2 := NoDup_remove_2 _ _ _ H0).
  repeat split.
  - intro Hin. apply H1. apply in_or_app. left. exact Hin.
  - intro Hin. apply H2. apply in_or_app. left. exact Hin.
  - intro Hin. apply H1. apply in_or_app. right. right. exact Hin.
  - intro Hin. apply H2. apply in_or_app. right. exact Hin.
  - intro E. apply H1. apply in_or_app. right. left. symmetry. exact E.
Qed.

Lemma owner_fwd : forall l1 m l2, NoDup (primers_of (l1 ++ m :: l2)) ->
  owner (table_of (l1 ++ m :: l2)) (p_fwd m) = Some (p_fwd m, p_rev m).
Proof.
  intros l1 m l2 H. apply nodup_split in H. destruct H as (H1 & _).
  unfold owner. rewrite table_of_app. rewrite find_app_none by (apply find_table_none; exact H1).
  simpl. rewrite str_eqb_refl. reflexivity.
Qed.

Lemma owner_rev : forall l1 m l2, NoDup (primers_of (l1 ++ m :: l2)) ->
  owner (table_of (l1 ++ m :: l2)) (p_rev m) = Some (p_fwd m, p_rev m).
Proof.
  intros l1 m l2 H. apply nodup_split in H. destruct H as (_ & H2 & _ & _ & Hne).
  unfold owner. rewrite table_of_app. rewrite find_app_none by (apply find_table_none; exact H2).
  simpl. destruct (str_eqb (p_fwd m) (p_rev m)) eqn:E.
  - apply str_eqb_spec in E. contradiction.
  - rewrite str_eqb_refl. reflexivity.
Qed.

Lemma map_other_markers : forall (pp : str * str) (g1 g2 : pmarker -> pmarker) l,
  ~ In (fst pp) (primers_of l) ->
  map (fun m => if is_marker pp m then g1 m else g2 m) l = map g2 l.
Proof.
  intros pp g1 g2 l. induction l as [|x l IH]; simpl; intro Hn; [reflexivity|].
  assert (E : is_marker pp x = false).
  { unfold is_marker. destruct (str_eqb (p_fwd x) (fst pp)) eqn:E1; [|reflexivity].
    apply str_eqb_spec in E1. exfalso. apply Hn. left. exact E1. }
  rewrite E. f_equal. apply IH. intro H. apply Hn. right. right. exact H.
Qed.

Lemma per_primer_forward : forall l1 m l2 fld,
  NoDup (primers_of (l1 ++ m :: l2)) ->
  apply_param (table_of (l1 ++ m :: l2)) (l1 ++ m :: l2) (mkP (For (p_fwd m)) fld) = l1 ++ on_f (upd fld) m :: l2.
Proof.
  intros l1 m l2 fld H. unfold apply_param; cbn [p_scope p_field].
  rewrite owner_fwd by exact H. apply nodup_split in H. destruct H as (H1 & _ & H3 & _).
  rewrite map_app. simpl map.
  rewrite (map_other_markers (p_fwd m, p_rev m) _ (fun x => x) l1) by exact H1.
  rewrite (map_other_markers (p_fwd m, p_rev m) _ (fun x => x) l2) by exact H3.
  rewrite !map_id. unfold is_marker. simpl fst. simpl snd. rewrite !str_eqb_refl. reflexivity.
Qed.

Lemma per_primer_reverse : forall l1 m l2 fld,
  NoDup (primers_of (l1 ++ m :: l2)) ->
  apply_param (table_of (l1 ++ m :: l2)) (l1 ++ m :: l2) (mkP (For (p_rev m)) fld) = l1 ++ on_r (upd fld) m :: l2.
Proof.
  intros l1 m l2 fld H. unfold apply_param; cbn [p_scope p_field].
  rewrite owner_rev by exact H. apply nodup_split in H. destruct H as (H1 & _ & H3 & _ & Hne).
  rewrite map_app. simpl map.
  rewrite (map_other_markers (p_fwd m, p_rev m) _ (fun x => x) l1) by exact H1.
  rewrite (map_other_markers (p_fwd m, p_rev m) _ (fun x => x) l2) by exact H3.
  rewrite !map_id. unfold is_marker. simpl fst. simpl snd. rewrite !str_eqb_refl. simpl.
  destruct (str_eqb (p_rev m) (p_fwd m)) eqn:E.
  - apply str_eqb_spec in E. exfalso. apply Hne. symmetry. exact E.
  - reflexivity.
Qed.

(* the hidden ordering dependency: before CheckPrimerUnicity has filled library.Primers every one-primer line is a no-op *)
Lemma per_primer_needs_table : forall lib pr fld, apply_param [] lib (mkP (For pr) fld) = lib.
Proof. reflexivity. Qed.

Lemma per_primer_unknown : forall lib pr fld, ~ In pr (primers_of lib) ->
  apply_param (table_of lib) lib (mkP (For pr) fld) = lib.
Proof. intros lib pr fld H. unfold apply_param. simpl. rewrite owner_unknown by exact H. reflexivity. Qed.

(* parameters never change which primers the library has (so the table built before them stays the table of the library) *)
Lemma apply_param_primers : forall tbl lib p, map (fun m => (p_fwd m, p_rev m)) (apply_param tbl lib p) = map (fun m => (p_fwd m, p_rev m)) lib.
Proof.
  intros tbl lib p. unfold apply_param. destruct (p_scope p) as [| | |pr].
  - rewrite map_map. reflexivity.
  - rewrite map_map. reflexivity.
  - rewrite map_map. reflexivity.
  - destruct (owner tbl pr) as [pp|]; [|reflexivity]. rewrite map_map. apply map_ext. intro m.
    destruct (is_marker pp m); [|reflexivity]. destruct (str_eqb pr (fst pp)); reflexivity.
Qed.

(* same kind of line, same scope, twice: the last one wins *)
Definition same_kind (a b : field) : bool :=
  match a, b with
  | FSpacer _, FSpacer _ | FErr _, FErr _ | FMode _, FMode _ | FDelim _, FDelim _ | FTind _, FTind _ | FInd _, FInd _ => true
  | _, _ => false
  end.
Lemma upd_upd : forall a b s, same_kind a b = true -> upd b (upd a s) = upd b s.
Proof. intros a b s H. destruct a, b; try discriminate; reflexivity. Qed.

Lemma last_line_wins : forall tbl lib sc a b, same_kind a b = true ->
  apply_param tbl (apply_param tbl lib (mkP sc a)) (mkP sc b) = apply_param tbl lib (mkP sc b).
Proof.
  intros tbl lib sc a b H. unfold apply_param; cbn [p_scope p_field]. destruct sc as [| | |pr].
  - rewrite map_map. apply map_ext. intro m. unfold on_r, on_f. simpl. rewrite !upd_upd by exact H. reflexivity.
  - rewrite map_map. apply map_ext. intro m. unfold on_f. simpl. rewrite upd_upd by exact H. reflexivity.
  - rewrite map_map. apply map_ext. intro m. unfold on_r. simpl. rewrite upd_upd by exact H. reflexivity.
  - destruct (owner tbl pr) as [pp|]; [|reflexivity]. rewrite map_map. apply map_ext. intro m.
    destruct (is_marker pp m) eqn:E.
    + destruct (str_eqb pr (fst pp)).
      * assert (E' : is_marker pp (on_f (upd a) m) = true) by exact E. rewrite E'. unfold on_f. simpl. rewrite upd_upd by exact H. reflexivity.
      * assert (E' : is_marker pp (on_r (upd a) m) = true) by exact E. rewrite E'. unfold on_r. simpl. rewrite upd_upd by exact H. reflexivity.
    + rewrite E. reflexivity.
Qed.

(* a line for every primer written after a line for one primer erases it (the order of the lines of the sheet matters) *)
Lemma global_line_erases_per_primer_line : forall tbl lib pr a b, same_kind a b = true ->
  apply_param tbl (apply_param tbl lib (mkP (For pr) a)) (mkP Both b) = apply_param tbl lib (mkP Both b).
Proof.
  intros tbl lib pr a b H. unfold apply_param; cbn [p_scope p_field].
  destruct (owner tbl pr) as [pp|]; [|reflexivity]. rewrite map_map. apply map_ext. intro m.
  destruct (is_marker pp m); [|reflexivity].
  destruct (str_eqb pr (fst pp)); unfold on_r, on_f; simpl; rewrite ?upd_upd by exact H; reflexivity.
Qed.

(* the command line: -e N (N > 0) sets the budget of every primer, whatever the sheet said; N <= 0 changes nothing *)
Lemma cli_budget : forall tbl lib e, (0 < e)%Z ->
  apply_params tbl lib (cli_params e false) =
  map (fun m => on_r (upd (FErr (Z.to_N e))) (on_f (upd (FErr (Z.to_N e))) m)) lib.
Proof.
  intros tbl lib e He. unfold cli_params, apply_params. simpl.
  destruct (0 <? e)%Z eqn:E; [reflexivity|]. apply Z.ltb_ge in E. lia.
Qed.
Lemma cli_nothing : forall tbl lib e, (e <= 0)%Z -> apply_params tbl lib (cli_params e false) = lib.
Proof.
  intros tbl lib e He. unfold cli_params, apply_params. simpl.
  destruct (0 <? e)%Z eqn:E; [|reflexivity]. apply Z.ltb_lt in E. lia.
Qed.

(** ---------------- the order of the markers (iteration order of the Go map library.Markers) does not matter ---------------- *)
Lemma primers_of_perm : forall l l', Permutation l l' -> Permutation (primers_of l) (primers_of l').
Proof. intros l l' H. unfold primers_of. apply Permutation_flat_map. exact H. Qed.

Lemma owner_of_member : forall lib m, NoDup (primers_of lib) -> In m lib ->
  owner (table_of lib) (p_fwd m) = Some (p_fwd m, p_rev m) /\ owner (table_of lib) (p_rev m) = Some (p_fwd m, p_rev m).
Proof.
  intros lib m Hnd Hin. apply in_split in Hin. destruct Hin as (l1 & l2 & E). subst lib.
  split; [apply owner_fwd|apply owner_rev]; exact Hnd.
Qed.

Lemma owner_perm : forall lib lib' p, Permutation lib lib' -> NoDup (primers_of lib) ->
  owner (table_of lib) p = owner (table_of lib') p.
Proof.
  intros lib lib' p Hp Hnd.
  assert (Hnd' : NoDup (primers_of lib')) by (eapply Permutation_NoDup; [apply primers_of_perm; exact Hp|exact Hnd]).
  destruct (in_dec (list_eq_dec N.eq_dec) p (primers_of lib)) as [Hin|Hout].
  - unfold primers_of in Hin. apply in_flat_map in Hin. destruct Hin as (m & Hm & Hpm).
    assert (Hm' : In m lib') by (eapply Permutation_in; eassumption).
    destruct (owner_of_member lib m Hnd Hm) as [A1 A2]. destruct (owner_of_member lib' m Hnd' Hm') as [B1 B2].
    simpl in Hpm. destruct Hpm as [E|[E|[]]]; subst p; congruence.
  - rewrite owner_unknown by exact Hout. rewrite owner_unknown; [reflexivity|].
    intro H. apply Hout. eapply Permutation_in; [apply Permutation_sym; apply primers_of_perm; exact Hp|exact H].
Qed.

(* one line acts marker by marker *)
Definition param_fun (tbl : ptable) (p : param) : pmarker -> pmarker :=
  let g := upd (p_field p) in
  match p_scope p with
  | Both => fun m => on_r g (on_f g m)
  | FwdOnly => on_f g
  | RevOnly => on_r g
  | For pr => match owner tbl pr with
              | None => fun m => m
              | Some pp => fun m => if is_marker pp m then (if str_eqb pr (fst pp) then on_f g m else on_r g m) else m
              end
  end.
Lemma apply_param_is_map : forall tbl lib p, apply_param tbl lib p = map (param_fun tbl p) lib.
Proof.
  intros tbl lib p. unfold apply_param, param_fun. destruct (p_scope p) as [| | |pr]; try reflexivity.
  destruct (owner tbl pr); [reflexivity|]. symmetry. apply map_id.
Qed.
Lemma param_fun_ext : forall t1 t2 p, (forall pr, owner t1 pr = owner t2 pr) -> param_fun t1 p = param_fun t2 p.
Proof. intros t1 t2 p H. unfold param_fun. destruct (p_scope p); try reflexivity. rewrite H. reflexivity. Qed.

Lemma apply_params_perm : forall t1 t2 ps l l', (forall pr, owner t1 pr = owner t2 pr) -> Permutation l l' ->
  Permutation (apply_params t1 l ps) (apply_params t2 l' ps).
Proof.
  intros t1 t2 ps. induction ps as [|p ps IH]; intros l l' Ht Hp; simpl; [exact Hp|].
  apply IH; [exact Ht|]. rewrite !apply_param_is_map. rewrite (param_fun_ext t1 t2 p Ht). apply Permutation_map. exact Hp.
Qed.

Lemma read_params_order_independent : forall lib lib' ps, Permutation lib lib' -> NoDup (primers_of lib) ->
  Permutation (read_params lib ps) (read_params lib' ps).
Proof.
  intros lib lib' ps Hp Hnd. unfold read_params. apply apply_params_perm; [|exact Hp].
  intro pr. apply owner_perm; assumption.
Qed.
