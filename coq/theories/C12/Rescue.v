(** C12 (round 2) - RESCUE tag extraction (lookForRescueTag: @tag_delimiter + @tag_indels): what it returns, and the
    canonical-read / strand-symmetry theorems in rescue mode.  Lemmas only; property theorems are restated in Props.v. *)
From Coq Require Import NArith ZArith List Bool Arith Lia.
Import ListNotations.
From OBI.C12 Require Import Model Proofs.
Local Open Scope Z_scope.

Lemma nthZ_middle : forall (A : str) z C, nthZ (A ++ z :: C) (lenZ A) = z.
Proof. intros. unfold nthZ, lenZ. rewrite Nat2Z.id. apply nth_middle. Qed.

Lemma back_while_run : forall p R A z C fuel i,
  Forall (fun y => p y = true) R -> p z = false -> (length R < fuel)%nat -> i = lenZ A + lenZ R ->
  back_while fuel (A ++ z :: R ++ C) p i = lenZ A.
Proof.
  intros p R. induction R as [|y R' IH] using rev_ind; intros A z C fuel i HR Hz Hf Hi.
  - destruct fuel as [|f]; [simpl in Hf; lia|]. cbn [back_while app].
    assert (Hi2 : i = lenZ A) by (rewrite Hi; unfold lenZ; simpl; lia). clear Hi. subst i.
    rewrite nthZ_middle, Hz, andb_false_r. reflexivity.
  - destruct fuel as [|f]; [simpl in Hf; lia|]. cbn [back_while].
    apply Forall_app in HR. destruct HR as [HR' Hy]. inversion Hy as [|? ? Hy' _]; subst.
    rewrite app_length in Hf. simpl in Hf.
    replace (A ++ z :: (R' ++ [y]) ++ C) with ((A ++ z :: R') ++ y :: C)
      by (rewrite <- (app_assoc A (z :: R') (y :: C)); cbn [app]; rewrite <- (app_assoc R' [y] C); reflexivity).
    assert (Hi' : lenZ A + lenZ (R' ++ [y]) = lenZ (A ++ z :: R')).
    { unfold lenZ. rewrite !app_length. simpl. lia. }
    rewrite Hi'. rewrite nthZ_middle, Hy'.
    replace (0 <=? lenZ (A ++ z :: R')) with true by (symmetry; apply Z.leb_le; apply lenZ_nonneg).
    cbn [andb].
    replace ((A ++ z :: R') ++ y :: C) with (A ++ z :: R' ++ (y :: C)) by (rewrite <- app_assoc; reflexivity).
    apply IH; auto. lia. unfold lenZ. rewrite !app_length. simpl. lia.
Qed.


Lemma lenZ_repeat : forall (d : N) n, lenZ (repeat d n) = Z.of_nat n.
Proof. intros. unfold lenZ. rewrite repeat_length. reflexivity. Qed.
Lemma lenZ_cons : forall (x : N) l, lenZ (x :: l) = 1 + lenZ l.
Proof. intros. unfold lenZ. simpl length. lia. Qed.
Lemma lenZ_nil : lenZ [] = 0.
Proof. reflexivity. Qed.

Ltac lz := repeat (progress (rewrite ?lenZ_app, ?lenZ_cons, ?lenZ_repeat, ?lenZ_nil in *)).
Ltac nf := repeat (rewrite <- app_assoc || (progress (cbn [app]))).

Lemma rescue_core : forall pre x d r1 r2 tag junk tl border indel,
  x <> d -> ~ In d tag -> ~ In d junk ->
  Forall (fun c => N.eqb c d = true) r1 -> Forall (fun c => N.eqb c d = true) r2 ->
  lenZ r1 + 1 <= border -> lenZ r2 + 1 <= border -> border - (lenZ r2 + 1) <= indel ->
  tl - indel <= lenZ tag <= tl + indel -> 1 <= tl - indel ->
  look_for_rescue_tag (pre ++ x :: (r1 ++ [d]) ++ tag ++ (r2 ++ [d]) ++ junk) d tl border indel = tag.
Proof.
  intros pre x d r1 r2 tag junk tl border indel Hx Ht Hj Hr1 Hr2 Hk1b Hk2b Hdel Hlen Hmin.
  assert (Htne : tag <> []). { intro E. subst tag. unfold lenZ in Hlen. simpl in Hlen. lia. }
  destruct (exists_last Htne) as [tag' [z Etag]].
  assert (Hz : z <> d). { intro E. subst z. apply Ht. rewrite Etag. apply in_or_app. right. left. reflexivity. }
  set (s := pre ++ x :: (r1 ++ [d]) ++ tag ++ (r2 ++ [d]) ++ junk).
  set (P := lenZ pre). set (T := lenZ tag). set (K1 := lenZ r1 + 1). set (K2 := lenZ r2 + 1).
  pose proof (lenZ_nonneg pre) as HP0. pose proof (lenZ_nonneg junk) as HJ0.
  pose proof (lenZ_nonneg r1) as HR1. pose proof (lenZ_nonneg r2) as HR2.
  assert (Lens : lenZ s = P + 1 + K1 + T + K2 + lenZ junk).
  { unfold s, P, T, K1, K2. lz. lia. }
  unfold look_for_rescue_tag. fold s. rewrite Lens.
  set (nod := fun c : N => negb (N.eqb c d)). set (isd := fun c : N => N.eqb c d).
  assert (Hnodd : nod d = false) by (unfold nod; rewrite N.eqb_refl; reflexivity).
  assert (Hisd : forall y, y <> d -> isd y = false) by (intros y Hy; unfold isd; apply N.eqb_neq; exact Hy).
  set (fuel := S (length s)).
  assert (Hfuel : (length pre + 1 + length r1 + 1 + length tag + length r2 + 1 + length junk < fuel)%nat).
  { unfold fuel, s. rewrite !app_length. simpl. rewrite !app_length. simpl. lia. }
  clearbody fuel.
  (* scan 1 : junk *)
  assert (S1 : back_while fuel s nod (P + 1 + K1 + T + K2 + lenZ junk - 1) = P + K1 + T + K2).
  { replace s with ((pre ++ x :: (r1 ++ [d]) ++ tag ++ r2) ++ d :: junk ++ []) by (unfold s; rewrite app_nil_r; nf; reflexivity).
    rewrite back_while_run with (i := P + 1 + K1 + T + K2 + lenZ junk - 1); auto.
    - unfold P, T, K1, K2. lz. lia.
    - apply notin_forall_neq. exact Hj.
    - lia.
    - unfold P, T, K1, K2. lz. lia. }
  (* scan 2 : right delimiter run *)
  assert (S2 : back_while fuel s isd (P + K1 + T + K2) = P + K1 + T).
  { replace s with ((pre ++ x :: (r1 ++ [d]) ++ tag') ++ z :: (r2 ++ [d]) ++ junk) by (unfold s; rewrite Etag; nf; reflexivity).
    rewrite back_while_run with (i := P + K1 + T + K2); auto.
    - unfold P, T, K1. rewrite Etag. lz. lia.
    - apply Forall_app. split; [exact Hr2|]. constructor; [apply N.eqb_refl|constructor].
    - rewrite app_length. simpl. lia.
    - unfold P, T, K1, K2. rewrite Etag. lz. lia. }
  (* scan 3 : tag characters from the jump position *)
  set (n := Z.to_nat (T - (tl - indel))).
  assert (Hn : (n <= length tag)%nat) by (unfold n, T, lenZ in *; lia).
  assert (Hfn : lenZ (firstn n tag) = T - (tl - indel)).
  { unfold lenZ at 1. rewrite firstn_length. unfold n, T, lenZ in *. lia. }
  assert (S3 : back_while fuel s nod (P + K1 + T - (tl - indel)) = P + K1).
  { replace s with ((pre ++ x :: r1) ++ d :: firstn n tag ++ (skipn n tag ++ (r2 ++ [d]) ++ junk)).
    - rewrite back_while_run with (i := P + K1 + T - (tl - indel)); auto.
      + unfold P, K1. lz. lia.
      + apply notin_forall_neq. intro H. apply Ht. rewrite <- (firstn_skipn n tag). apply in_or_app. left. exact H.
      + rewrite firstn_length. lia.
      + rewrite Hfn. unfold P, K1. lz. lia.
    - unfold s. rewrite (app_assoc (firstn n tag)), firstn_skipn. nf. reflexivity. }
  (* scan 4 : left delimiter run *)
  assert (S4 : back_while fuel s isd (P + K1) = P).
  { replace s with (pre ++ x :: (r1 ++ [d]) ++ (tag ++ (r2 ++ [d]) ++ junk)) by (unfold s; nf; reflexivity).
    rewrite back_while_run with (i := P + K1); auto.
    - apply Forall_app. split; [exact Hr1|]. constructor; [apply N.eqb_refl|constructor].
    - rewrite app_length. simpl. lia.
    - unfold P, K1. lz. lia. }
  rewrite S1, S2.
  replace (indel <? border - (P + K1 + T + K2 - (P + K1 + T))) with false by (symmetry; apply Z.ltb_ge; unfold K2; lia).
  replace (border <? P + K1 + T + K2 - (P + K1 + T)) with false by (symmetry; apply Z.ltb_ge; unfold K2; lia).
  rewrite S3, S4.
  replace (P <? 0) with false by (symmetry; apply Z.ltb_ge; lia).
  cbn [orb].
  replace (Z.min (P + K1 - P) border) with K1 by (unfold K1; lia).
  replace (indel <? Z.abs (tl - (P + K1 + T + 1) + (P + K1 + 1))) with false by (symmetry; apply Z.ltb_ge; unfold T; lia).
  unfold s.
  replace (pre ++ x :: (r1 ++ [d]) ++ tag ++ (r2 ++ [d]) ++ junk)
    with ((pre ++ x :: (r1 ++ [d])) ++ tag ++ ((r2 ++ [d]) ++ junk)) by (nf; reflexivity).
  apply subZ_app3; unfold P, T, K1; lz; lia.
Qed.

Lemma repeat_snoc : forall (d : N) n, repeat d (S n) = repeat d n ++ [d].
Proof. intros. cbn [repeat]. apply repeat_cons. Qed.

Theorem rescue_spec : forall pre x d (k1 k2 : nat) tag junk tl border indel,
  x <> d -> ~ In d tag -> ~ In d junk ->
  (1 <= k1)%nat -> Z.of_nat k1 <= border ->
  (1 <= k2)%nat -> Z.of_nat k2 <= border -> border - Z.of_nat k2 <= indel ->
  tl - indel <= lenZ tag <= tl + indel -> 1 <= tl - indel ->
  look_for_rescue_tag (pre ++ [x] ++ repeat d k1 ++ tag ++ repeat d k2 ++ junk) d tl border indel = tag.
Proof.
  intros pre x d k1 k2 tag junk tl border indel Hx Ht Hj Hk1 Hk1b Hk2 Hk2b Hdel Hlen Hmin.
  destruct k1 as [|k1']; [lia|]. destruct k2 as [|k2']; [lia|].
  rewrite !repeat_snoc. cbn [app].
  apply rescue_core; auto; try apply repeat_forall_eq; lz; lia.
Qed.


Lemma back_while_le : forall fuel s p i, back_while fuel s p i <= i.
Proof.
  induction fuel as [|f IH]; intros s p i; cbn [back_while]. lia.
  destruct ((0 <=? i) && p (nthZ s i)). specialize (IH s p (i - 1)). lia. lia.
Qed.

Lemma subZ_factor : forall (s : str) b e, exists a c, s = a ++ subZ s b e ++ c.
Proof.
  intros s b e. unfold subZ. exists (firstn (Z.to_nat b) s), (skipn (Z.to_nat (e - b)) (skipn (Z.to_nat b) s)).
  rewrite firstn_skipn, firstn_skipn. reflexivity.
Qed.

Lemma subZ_length : forall (s : str) b e, 0 <= b -> b <= e -> e <= lenZ s -> lenZ (subZ s b e) = e - b.
Proof.
  intros s b e H0 H1 H2. unfold subZ, lenZ in *. rewrite firstn_length, skipn_length. lia.
Qed.

Theorem rescue_sound : forall s d tl border indel,
  0 <= border -> 0 <= indel <= tl ->
  let r := look_for_rescue_tag s d tl border indel in
  r = [] \/ ((exists a c, s = a ++ r ++ c) /\ tl - indel <= lenZ r <= tl + indel).
Proof.
  intros s d tl border indel Hb Hi. cbv zeta. unfold look_for_rescue_tag.
  set (fuel := S (length s)). set (nod := fun c : N => negb (N.eqb c d)). set (isd := fun c : N => N.eqb c d).
  set (i1 := back_while fuel s nod (lenZ s - 1)).
  set (i2 := back_while fuel s isd i1).
  destruct (indel <? border - (i1 - i2)); [left; reflexivity|].
  set (i3 := if border <? i1 - i2 then i2 + (i1 - i2 - border) else i2).
  set (i5 := back_while fuel s nod (i3 - (tl - indel))).
  set (i6 := back_while fuel s isd i5).
  destruct ((i6 <? 0) || (indel <? Z.abs (tl - (i3 + 1) + (i6 + Z.min (i5 - i6) border + 1)))) eqn:E; [left; reflexivity|].
  right. apply orb_false_iff in E. destruct E as [E1 E2]. apply Z.ltb_ge in E1. apply Z.ltb_ge in E2.
  split. apply subZ_factor.
  pose proof (back_while_le fuel s nod (lenZ s - 1)) as L1. fold i1 in L1.
  pose proof (back_while_le fuel s isd i1) as L2. fold i2 in L2.
  pose proof (back_while_le fuel s isd i5) as L6. fold i6 in L6.
  assert (L3 : i3 <= i1). { unfold i3. destruct (border <? i1 - i2) eqn:E3; [apply Z.ltb_lt in E3|apply Z.ltb_ge in E3]; lia. }
  rewrite subZ_length; lia.
Qed.


(** rescue extraction next to the two hits *)

Lemma begin_tag_rescue : forall X0 x d t1 (k1 k2 : nat) REST sd,
  s_delim sd = d -> d <> 0%N -> 1 <= s_tind sd ->
  x <> d -> ~ In d t1 ->
  (1 <= k1)%nat -> Z.of_nat k1 <= s_sp sd -> (1 <= k2)%nat -> Z.of_nat k2 <= s_sp sd -> s_sp sd - Z.of_nat k2 <= s_tind sd ->
  s_tl sd - s_tind sd <= lenZ t1 <= s_tl sd + s_tind sd -> 1 <= s_tl sd - s_tind sd ->
  begin_tag ((X0 ++ [x] ++ repeat d k1) ++ t1 ++ repeat d k2 ++ REST) (lenZ ((X0 ++ [x] ++ repeat d k1) ++ t1 ++ repeat d k2)) sd = t1.
Proof.
  intros X0 x d t1 k1 k2 REST sd Hd Hd0 Hti Hx Hnot Hk1 Hk1b Hk2 Hk2b Hdel Hlen Hmin.
  unfold begin_tag.
  replace (s_tl sd =? 0) with false by (symmetry; apply Z.eqb_neq; lia).
  rewrite Hd. replace (N.eqb d 0%N) with false by (symmetry; apply N.eqb_neq; exact Hd0).
  replace (s_tind sd =? 0) with false by (symmetry; apply Z.eqb_neq; lia).
  unfold begin_rescue. rewrite Hd.
  set (V := [x] ++ repeat d k1 ++ t1 ++ repeat d k2).
  replace ((X0 ++ [x] ++ repeat d k1) ++ t1 ++ repeat d k2 ++ REST) with ((X0 ++ V) ++ REST) by (unfold V; nf; reflexivity).
  replace ((X0 ++ [x] ++ repeat d k1) ++ t1 ++ repeat d k2) with (X0 ++ V) by (unfold V; nf; reflexivity).
  destruct (win_suffix X0 V REST ((s_sp sd + s_tl sd) * 2)) as [u2 Hw].
  - unfold V. lz. lia.
  - rewrite Hw. unfold V.
    replace (u2 ++ [x] ++ repeat d k1 ++ t1 ++ repeat d k2) with (u2 ++ [x] ++ repeat d k1 ++ t1 ++ repeat d k2 ++ []) by (rewrite app_nil_r; reflexivity).
    apply rescue_spec; auto.
Qed.

Lemma rc_single : forall y, rc [y] = [comp y].
Proof. reflexivity. Qed.

Lemma end_tag_rescue : forall P d t2 (k1 k2 : nat) y Y0 sd,
  s_delim sd = d -> d <> 0%N -> comp (comp d) = d -> 1 <= s_tind sd ->
  comp y <> d -> ~ In d (rc t2) ->
  (1 <= k1)%nat -> Z.of_nat k1 <= s_sp sd -> (1 <= k2)%nat -> Z.of_nat k2 <= s_sp sd -> s_sp sd - Z.of_nat k2 <= s_tind sd ->
  s_tl sd - s_tind sd <= lenZ t2 <= s_tl sd + s_tind sd -> 1 <= s_tl sd - s_tind sd ->
  end_tag (P ++ repeat (comp d) k2 ++ t2 ++ repeat (comp d) k1 ++ [y] ++ Y0) (lenZ P) sd = rc t2.
Proof.
  intros P d t2 k1 k2 y Y0 sd Hd Hd0 Hcc Hti Hy Hnot Hk1 Hk1b Hk2 Hk2b Hdel Hlen Hmin.
  unfold end_tag.
  replace (s_tl sd =? 0) with false by (symmetry; apply Z.eqb_neq; lia).
  rewrite Hd. replace (N.eqb d 0%N) with false by (symmetry; apply N.eqb_neq; exact Hd0).
  replace (s_tind sd =? 0) with false by (symmetry; apply Z.eqb_neq; lia).
  unfold end_rescue. rewrite Hd.
  set (w := repeat (comp d) k2 ++ t2 ++ repeat (comp d) k1 ++ [y]).
  replace (P ++ repeat (comp d) k2 ++ t2 ++ repeat (comp d) k1 ++ [y] ++ Y0) with (P ++ w ++ Y0) by (unfold w; nf; reflexivity).
  assert (Hw : lenZ w = Z.of_nat k2 + lenZ t2 + Z.of_nat k1 + 1). { unfold w. lz. lia. }
  pose proof (lenZ_nonneg Y0) as HY. pose proof (lenZ_nonneg P) as HP.
  destruct (Z.min (lenZ (P ++ w ++ Y0)) (lenZ P + (s_sp sd + s_tl sd) * 2) <=? lenZ P) eqn:E2.
  - apply Z.leb_le in E2. rewrite !lenZ_app in E2. lia.
  - destruct (win_prefix P w Y0 ((s_sp sd + s_tl sd) * 2)) as [c1 Hwin]. lia.
    rewrite Hwin. unfold w. rewrite !rc_app. rewrite !rc_repeat_comp by exact Hcc. rewrite rc_single.
    match goal with |- look_for_rescue_tag ?l _ _ _ _ = _ =>
      replace l with (rc c1 ++ [comp y] ++ repeat d k1 ++ rc t2 ++ repeat d k2 ++ []) by (rewrite app_nil_r; nf; reflexivity) end.
    apply rescue_spec; auto. rewrite lenZ_rc. exact Hlen.
Qed.


Section CanonicalRescue.
Variable lib : list marker.
Variable i : nat.
Variable m : marker.
Hypothesis Hm : nth i lib dummy_marker = m.
Variables df dr : N.
Hypothesis Hfd : m_fdelim m = df.
Hypothesis Hrd : m_rdelim m = dr.
Hypothesis Hdf0 : df <> 0%N.
Hypothesis Hdr0 : dr <> 0%N.
Hypothesis Hcf : comp (comp df) = df.
Hypothesis Hcr : comp (comp dr) = dr.
(* rescue mode on both sides: tag indels allowed *)
Hypothesis Hfti : (1 <= m_ftind m)%N.
Hypothesis Hrti : (1 <= m_rtind m)%N.
(* declared tag length exceeds the allowed number of indels *)
Hypothesis Hfmin : (m_ftind m < m_ftl m)%N.
Hypothesis Hrmin : (m_rtind m < m_rtl m)%N.
Variables k1f k2f k1r k2r : nat.       (* observed lengths of the outer (k1) and inner (k2, next to the primer) delimiter runs *)
Hypothesis Hk1f : (1 <= k1f)%nat.
Hypothesis Hk1fb : Z.of_nat k1f <= Z.of_N (m_fsp m).
Hypothesis Hk2f : (1 <= k2f)%nat.
Hypothesis Hk2fb : Z.of_nat k2f <= Z.of_N (m_fsp m).
Hypothesis Hk2fd : Z.of_N (m_fsp m) - Z.of_nat k2f <= Z.of_N (m_ftind m).   (* missing delimiters next to the primer <= tag_indels *)
Hypothesis Hk1r : (1 <= k1r)%nat.
Hypothesis Hk1rb : Z.of_nat k1r <= Z.of_N (m_rsp m).
Hypothesis Hk2r : (1 <= k2r)%nat.
Hypothesis Hk2rb : Z.of_nat k2r <= Z.of_N (m_rsp m).
Hypothesis Hk2rd : Z.of_N (m_rsp m) - Z.of_nat k2r <= Z.of_N (m_rtind m).
Variables flankL0 tagF pF bar pR tagR flankR0 : str.
Variables xl yr : N.                   (* the bases bordering the outer delimiter runs *)
Hypothesis Hxl : xl <> df.
Hypothesis Dxl : comp (comp xl) = xl.
Hypothesis Hyr : comp yr <> dr.
(* observed tags: any length within tag_indels of the declared length, no delimiter inside *)
Hypothesis HtF : Z.of_N (m_ftl m) - Z.of_N (m_ftind m) <= lenZ tagF <= Z.of_N (m_ftl m) + Z.of_N (m_ftind m).
Hypothesis HtR : Z.of_N (m_rtl m) - Z.of_N (m_rtind m) <= lenZ tagR <= Z.of_N (m_rtl m) + Z.of_N (m_rtind m).
Hypothesis HnotF : ~ In df tagF.
Hypothesis HnotR : ~ In dr tagR.
Hypothesis HpF : pF <> [].
Hypothesis HpR : pR <> [].
Hypothesis Hbar : bar <> [].
Hypothesis DpF : dna pF.
Hypothesis DpR : dna pR.
Hypothesis DtF : dna tagF.
Hypothesis DtR : dna tagR.
Hypothesis Dbar : dna bar.

(* flankL0 x d_f^k1f tagF d_f^k2f pF barcode rc(pR) rc(d_r^k2r) rc(tagR) rc(d_r^k1r) y flankR0 *)
Definition rfL := flankL0 ++ [xl] ++ repeat df k1f.
Definition rsF := repeat df k2f.
Definition rsR := repeat dr k2r.
Definition rfR := repeat (comp dr) k1r ++ [yr] ++ flankR0.
Let rd := canon_read rfL tagF rsF pF bar pR rsR tagR rfR.

Lemma resc_F1 : begin_tag rd (cb1 rfL tagF rsF) (fside m) = tagF.
Proof.
  unfold rd, canon_read, cb1, rfL, rsF.
  apply begin_tag_rescue; cbn [fside s_delim s_tl s_sp s_tind]; auto; lia.
Qed.

Lemma resc_F2 : end_tag rd (ce2 rfL tagF rsF pF bar pR) (rside m) = tagR.
Proof.
  unfold rd, canon_read, ce2, cb2, ce1, cb1, rsR, rfR. rewrite rc_repeat.
  replace (rfL ++ tagF ++ rsF ++ pF ++ bar ++ rc pR ++ repeat (comp dr) k2r ++ rc tagR ++ repeat (comp dr) k1r ++ [yr] ++ flankR0)
    with ((rfL ++ tagF ++ rsF ++ pF ++ bar ++ rc pR) ++ repeat (comp dr) k2r ++ rc tagR ++ repeat (comp dr) k1r ++ [yr] ++ flankR0)
    by (rewrite <- !app_assoc; reflexivity).
  replace (lenZ (rfL ++ tagF ++ rsF) + lenZ pF + lenZ bar + lenZ pR)%Z with (lenZ (rfL ++ tagF ++ rsF ++ pF ++ bar ++ rc pR))
    by (rewrite !lenZ_app, lenZ_rc; lia).
  rewrite <- (rc_involutive tagR DtR) at 2.
  apply end_tag_rescue; cbn [rside s_delim s_tl s_sp s_tind]; rewrite ?lenZ_rc; auto; try lia.
  rewrite (rc_involutive tagR DtR). exact HnotR.
Qed.

Lemma resc_R2 : begin_tag (rc rd) (cL rfL tagF rsF pF bar pR rsR tagR rfR - ce2 rfL tagF rsF pF bar pR) (rside m) = tagR.
Proof.
  rewrite mir_b1. unfold rd. rewrite rc_canon_read by auto.
  unfold rfR, rsR. rewrite !rc_app. rewrite rc_repeat, rc_repeat, rc_repeat, Hcr, rc_single.
  replace ((rc flankR0 ++ [comp yr]) ++ repeat dr k1r) with (rc flankR0 ++ [comp yr] ++ repeat dr k1r) by (rewrite <- !app_assoc; reflexivity).
  apply begin_tag_rescue; cbn [rside s_delim s_tl s_sp s_tind]; auto; lia.
Qed.

Lemma resc_R1 : end_tag (rc rd) (cL rfL tagF rsF pF bar pR rsR tagR rfR - cb1 rfL tagF rsF) (fside m) = tagF.
Proof.
  rewrite mir_e2. unfold rd. rewrite rc_canon_read by auto.
  unfold rfL, rsF. rewrite !rc_app. rewrite (rc_repeat df k1f), (rc_repeat df k2f), rc_single.
  set (A := rc rfR ++ tagR ++ rc (rc rsR)).
  match goal with |- end_tag ?l _ _ = _ =>
    replace l with ((A ++ pR ++ rc bar ++ rc pF) ++ repeat (comp df) k2f ++ rc tagF ++ repeat (comp df) k1f ++ [comp xl] ++ rc flankL0)
      by (unfold A; rewrite <- !app_assoc; reflexivity) end.
  replace (lenZ A + lenZ pR + lenZ (rc bar) + lenZ (rc pF))%Z with (lenZ (A ++ pR ++ rc bar ++ rc pF))
    by (rewrite !lenZ_app; lia).
  rewrite <- (rc_involutive tagF DtF) at 2.
  apply end_tag_rescue; cbn [fside s_delim s_tl s_sp s_tind]; rewrite ?lenZ_rc; auto; try lia;
    try (rewrite Dxl; exact Hxl); try (rewrite (rc_involutive tagF DtF); exact HnotF).
Qed.

Theorem canonical_read_rescue : forall k1 k2,
  lib_hits 1 lib rd = canon_hits i rfL tagF rsF pF bar pR k1 k2 ->
  demux lib rd = Recs [canon_record i m tagF pF bar pR tagR k1 k2 true].
Proof.
  intros k1 k2 H. unfold demux. rewrite H.
  apply canonical_forward_gen; auto. apply resc_F1. apply resc_F2.
Qed.

Theorem canonical_rescue_any_matcher : forall k1 k2,
  demux_hits lib rd (canon_hits i rfL tagF rsF pF bar pR k1 k2) = Recs [canon_record i m tagF pF bar pR tagR k1 k2 true] /\
  demux_hits lib (rc rd) (canon_hits_rc i rfL tagF rsF pF bar pR rsR tagR rfR k1 k2) = Recs [canon_record i m tagF pF bar pR tagR k1 k2 false].
Proof.
  intros k1 k2. split.
  - apply canonical_forward_gen; auto. apply resc_F1. apply resc_F2.
  - apply canonical_reverse_gen; auto. apply resc_R1. apply resc_R2.
Qed.

Theorem strand_symmetry_rescue : forall k1 k2,
  lib_hits 1 lib rd = canon_hits i rfL tagF rsF pF bar pR k1 k2 ->
  lib_hits 1 lib (rc rd) = canon_hits_rc i rfL tagF rsF pF bar pR rsR tagR rfR k1 k2 ->
  demux lib rd = Recs [canon_record i m tagF pF bar pR tagR k1 k2 true] /\
  demux lib (rc rd) = Recs [canon_record i m tagF pF bar pR tagR k1 k2 false].
Proof.
  intros k1 k2 H H'. split. apply canonical_read_rescue; auto.
  unfold demux. rewrite H'. apply canonical_reverse_gen; auto. apply resc_R1. apply resc_R2.
Qed.
End CanonicalRescue.

