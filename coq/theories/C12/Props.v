(** C12 — property theorems (statements only; proofs in Proofs.v, Rescue.v, Round2.v).
    Model.v transcribes pkg/obingslibrary (multimatch.go) and FilterBestMatch of pkg/obiapat/pattern.go.
    Round 2 (second half of the file): rescue extraction (lookForRescueTag characterised, canonical read + strand symmetry in rescue
    mode), every iteration order of the tag table, no distance bound on the nearest tag (by design), records cut at the spans of their
    own hit pair for ANY matcher (primer indels), independence of the amplicons of a chimeric read, stability of the sort of the hits,
    canonical read for any extraction mode / any matcher.
    Round 3 (end of the file; model in Cmd.v, lemmas in CmdProofs.v): the glue around the demultiplexer - routing of the records by the
    obimultiplex command (standard output / --unidentified file / dropped), composed with the safety theorem; the @param lines of a CSV
    sheet (every primer, one side, ONE primer through the table filled by CheckPrimerUnicity), the command-line overrides. *)
From Coq Require Import NArith ZArith List Bool Arith Permutation.
Import ListNotations.
From OBI.C12 Require Import Model Proofs Rescue Round2 Cmd CmdProofs.
Local Open Scope nat_scope.

(** ---- Closest*Tag: the fold over the Go map returns the UNIQUE nearest declared tag, whatever the iteration order ---- *)

(* [fst (closest ...)] is the non-empty tag u  iff  u is declared and strictly nearer than every other declared tag *)
Theorem C12_closest_unique : forall (dist : str -> str -> nat) (t : str) (tags : list str) (u : str),
  ~ In [] tags -> u <> [] ->
  (fst (closest dist tags t) = u <-> unique_nearest dist t tags u).
Proof. exact closest_unique. Qed.

(* "" (no proposal) iff no declared tag is the unique nearest one (no tag at all, or a tie at the minimal distance) *)
Theorem C12_closest_none_iff_tie : forall (dist : str -> str -> nat) (t : str) (tags : list str),
  ~ In [] tags ->
  (fst (closest dist tags t) = [] <-> forall u, ~ unique_nearest dist t tags u).
Proof. exact closest_none. Qed.

(* tag AND distance are functions of the SET of declared tags: any permutation (indeed any list with the same
   elements, duplicates included - the same tag occurs in several tag pairs) gives the same answer *)
Theorem C12_closest_order_independent : forall (dist : str -> str -> nat) (t : str) (tags tags' : list str),
  ~ In [] tags -> (forall x, In x tags <-> In x tags') ->
  closest dist tags t = closest dist tags' t.
Proof. exact closest_perm. Qed.

Theorem C12_closest_permutation : forall (dist : str -> str -> nat) (t : str) (tags tags' : list str),
  ~ In [] tags -> Permutation tags tags' ->
  closest dist tags t = closest dist tags' t.
Proof. exact closest_permutation. Qed.

(** ---- distances ---- *)
(* the two-row DP is the edit distance defined by the Wagner-Fischer recurrence ([edit], Proofs.v: recursion on the first
   characters, min of deletion / insertion / substitution-or-match) *)
Theorem C12_levenshtein_is_edit_distance : forall s1 s2, levenshtein s1 s2 = edit s1 s2.
Proof. exact levenshtein_is_edit_fwd. Qed.

(* the recurrence gives the same distance from either end of the strings (the DP consumes prefixes), and is symmetric *)
Theorem C12_edit_distance_end_independent : forall a b, edit (rev a) (rev b) = edit a b.
Proof. exact edit_rev. Qed.

Theorem C12_edit_distance_symmetric : forall a b, edit a b = edit b a.
Proof. exact edit_sym. Qed.

Theorem C12_levenshtein_zero_iff_equal : forall a b, levenshtein a b = 0 <-> a = b.
Proof. exact levenshtein_zero_iff. Qed.

Theorem C12_hamming_is_mismatch_count : forall a b,
  (length a = length b -> hamming a b = mismatch_positions a b) /\
  (length a <> length b -> hamming a b = Nat.max (length a) (length b)).
Proof. exact hamming_spec. Qed.

Theorem C12_hamming_zero_iff_equal : forall a b, hamming a b = 0 <-> a = b.
Proof. exact hamming_zero_iff. Qed.

(** ---- SAFETY: never a sample unless the extracted tags identify it under the declared mode; otherwise flagged ---- *)
Theorem C12_safety : forall lib s rs,
  demux lib s = Recs rs -> forall r, In r rs -> safe_record lib s (lib_hits 1 lib s) r.
Proof. exact demux_safe. Qed.

(* same statement for ANY list of primer hits (the matcher is a parameter: C10) *)
Theorem C12_safety_any_hits : forall lib s hits rs,
  demux_hits lib s hits = Recs rs -> forall r, In r rs -> safe_record lib s hits r.
Proof. exact demux_hits_safe. Qed.

(* SAFETY spelled out for sheets with tags on both sides: a sample id on a record means that BOTH extracted tags are non-empty,
   that each identifies a declared tag under the declared mode (strict: equal; hamming / indel: the UNIQUE nearest declared tag,
   strictly nearer than every other), and that the pair of identified tags is declared for that marker with that very sample *)
Theorem C12_safety_identifies : forall lib s hits rs r id,
  demux_hits lib s hits = Recs rs -> In r rs -> r_sample r = Some id ->
  let m := nth (N.to_nat (r_mk r)) lib dummy_marker in
  ~ In [] (fwd_tags m) -> ~ In [] (rev_tags m) ->
  exists f rv, In (f, rv, id) (m_samples m) /\
    r_ft r <> [] /\ r_rt r <> [] /\
    identifies (m_fmode m) (fwd_tags m) (r_ft r) f /\
    identifies (m_rmode m) (rev_tags m) (r_rt r) rv /\
    r_err r = false.
Proof. exact safety_identifies. Qed.

(** ---- canonical read, strand symmetry (fixed-length tags; hypothesis = the property's: the primer hits of the library in
    the read are exactly the two intended priming sites; stated on the specification matcher of the model) ---- *)
Theorem C12_canonical_read : forall (lib : list marker) (i : nat) (m : marker),
  nth i lib dummy_marker = m -> m_fdelim m = 0%N -> m_rdelim m = 0%N ->
  forall flankL tagF spF pF bar pR spR tagR flankR : str,
  lenZ tagF = Z.of_N (m_ftl m) -> lenZ spF = Z.of_N (m_fsp m) ->
  lenZ tagR = Z.of_N (m_rtl m) -> lenZ spR = Z.of_N (m_rsp m) ->
  pF <> [] -> pR <> [] -> bar <> [] -> dna pR -> dna tagR ->
  forall k1 k2 : Z,
  lib_hits 1 lib (canon_read flankL tagF spF pF bar pR spR tagR flankR) = canon_hits i flankL tagF spF pF bar pR k1 k2 ->
  demux lib (canon_read flankL tagF spF pF bar pR spR tagR flankR) = Recs [canon_record i m tagF pF bar pR tagR k1 k2 true].
Proof. exact canonical_read_demux. Qed.

Theorem C12_strand_symmetry : forall (lib : list marker) (i : nat) (m : marker),
  nth i lib dummy_marker = m -> m_fdelim m = 0%N -> m_rdelim m = 0%N ->
  forall flankL tagF spF pF bar pR spR tagR flankR : str,
  lenZ tagF = Z.of_N (m_ftl m) -> lenZ spF = Z.of_N (m_fsp m) ->
  lenZ tagR = Z.of_N (m_rtl m) -> lenZ spR = Z.of_N (m_rsp m) ->
  pF <> [] -> pR <> [] -> bar <> [] -> dna pF -> dna pR -> dna tagF -> dna tagR -> dna bar ->
  forall k1 k2 : Z,
  lib_hits 1 lib (canon_read flankL tagF spF pF bar pR spR tagR flankR) = canon_hits i flankL tagF spF pF bar pR k1 k2 ->
  lib_hits 1 lib (rc (canon_read flankL tagF spF pF bar pR spR tagR flankR)) = canon_hits_rc i flankL tagF spF pF bar pR spR tagR flankR k1 k2 ->
  demux lib (canon_read flankL tagF spF pF bar pR spR tagR flankR) = Recs [canon_record i m tagF pF bar pR tagR k1 k2 true] /\
  demux lib (rc (canon_read flankL tagF spF pF bar pR spR tagR flankR)) = Recs [canon_record i m tagF pF bar pR tagR k1 k2 false].
Proof. exact strand_symmetry_demux. Qed.

(* the same two statements for ANY matcher producing the two intended hits *)
Theorem C12_canonical_read_any_matcher : forall (lib : list marker) (i : nat) (m : marker),
  nth i lib dummy_marker = m -> m_fdelim m = 0%N -> m_rdelim m = 0%N ->
  forall flankL tagF spF pF bar pR spR tagR flankR : str,
  lenZ tagF = Z.of_N (m_ftl m) -> lenZ spF = Z.of_N (m_fsp m) ->
  lenZ tagR = Z.of_N (m_rtl m) -> lenZ spR = Z.of_N (m_rsp m) ->
  pF <> [] -> pR <> [] -> bar <> [] -> dna pR -> dna tagR ->
  forall k1 k2 : Z,
  demux_hits lib (canon_read flankL tagF spF pF bar pR spR tagR flankR) (canon_hits i flankL tagF spF pF bar pR k1 k2)
  = Recs [canon_record i m tagF pF bar pR tagR k1 k2 true].
Proof. exact canonical_forward. Qed.

Theorem C12_strand_symmetry_any_matcher : forall (lib : list marker) (i : nat) (m : marker),
  nth i lib dummy_marker = m -> m_fdelim m = 0%N -> m_rdelim m = 0%N ->
  forall flankL tagF spF pF bar pR spR tagR flankR : str,
  lenZ tagF = Z.of_N (m_ftl m) -> lenZ spF = Z.of_N (m_fsp m) ->
  lenZ tagR = Z.of_N (m_rtl m) -> lenZ spR = Z.of_N (m_rsp m) ->
  pF <> [] -> pR <> [] -> bar <> [] -> dna pF -> dna pR -> dna tagF -> dna tagR -> dna bar ->
  forall k1 k2 : Z,
  demux_hits lib (rc (canon_read flankL tagF spF pF bar pR spR tagR flankR)) (canon_hits_rc i flankL tagF spF pF bar pR spR tagR flankR k1 k2)
  = Recs [canon_record i m tagF pF bar pR tagR k1 k2 false].
Proof. exact canonical_reverse. Qed.

(** ---- the hypothesis "no other primer hit" on the RAW windows (find_all is characterised by C12_find_all_spec):
     only marker m has windows within budget, exactly the two priming sites; FilterBestMatch and the hit collection are then proved ---- *)
Theorem C12_hits_from_windows_forward : forall l1 m l2 s b1 e1 k1 b2 e2 k2,
  Forall (quiet s) l1 -> Forall (quiet s) l2 ->
  find_all (m_fwd m) (Z.of_N (m_ferr m)) 0 s 0 = [(b1, e1, k1)] ->
  find_all (rc (m_rev m)) (Z.of_N (m_rerr m)) (b1 + 1) s 0 = [(b2, e2, k2)] ->
  find_all (m_rev m) (Z.of_N (m_rerr m)) 0 s 0 = [] ->
  (k1 <= Z.of_N (m_ferr m) < 10000)%Z -> (k2 <= Z.of_N (m_rerr m) < 10000)%Z ->
  lib_hits 1 (l1 ++ m :: l2) s =
  [mkH b1 e1 k1 (Z.of_nat (length l1) + 1) true; mkH b2 e2 k2 (- (Z.of_nat (length l1) + 1)) true].
Proof. exact hits_from_windows_forward. Qed.

Theorem C12_hits_from_windows_reverse : forall l1 m l2 s b1 e1 k1 b2 e2 k2,
  Forall (quiet s) l1 -> Forall (quiet s) l2 ->
  find_all (m_fwd m) (Z.of_N (m_ferr m)) 0 s 0 = [] ->
  find_all (m_rev m) (Z.of_N (m_rerr m)) 0 s 0 = [(b1, e1, k1)] ->
  find_all (rc (m_fwd m)) (Z.of_N (m_ferr m)) (b1 + 1) s 0 = [(b2, e2, k2)] ->
  (k1 <= Z.of_N (m_rerr m) < 10000)%Z -> (k2 <= Z.of_N (m_ferr m) < 10000)%Z ->
  lib_hits 1 (l1 ++ m :: l2) s =
  [mkH b1 e1 k1 (Z.of_nat (length l1) + 1) false; mkH b2 e2 k2 (- (Z.of_nat (length l1) + 1)) false].
Proof. exact hits_from_windows_reverse. Qed.

Theorem C12_canonical_read_windows : forall (l1 l2 : list marker) (m : marker),
  m_fdelim m = 0%N -> m_rdelim m = 0%N ->
  forall flankL tagF spF pF bar pR spR tagR flankR : str,
  lenZ tagF = Z.of_N (m_ftl m) -> lenZ spF = Z.of_N (m_fsp m) ->
  lenZ tagR = Z.of_N (m_rtl m) -> lenZ spR = Z.of_N (m_rsp m) ->
  pF <> [] -> pR <> [] -> bar <> [] -> dna pR -> dna tagR ->
  forall k1 k2 : Z,
  let s := canon_read flankL tagF spF pF bar pR spR tagR flankR in
  let i := length l1 in
  Forall (quiet s) l1 -> Forall (quiet s) l2 ->
  find_all (m_fwd m) (Z.of_N (m_ferr m)) 0 s 0 = [(cb1 flankL tagF spF, ce1 flankL tagF spF pF, k1)] ->
  find_all (rc (m_rev m)) (Z.of_N (m_rerr m)) (cb1 flankL tagF spF + 1) s 0 = [(cb2 flankL tagF spF pF bar, ce2 flankL tagF spF pF bar pR, k2)] ->
  find_all (m_rev m) (Z.of_N (m_rerr m)) 0 s 0 = [] ->
  (k1 <= Z.of_N (m_ferr m) < 10000)%Z -> (k2 <= Z.of_N (m_rerr m) < 10000)%Z ->
  demux (l1 ++ m :: l2) s = Recs [canon_record i m tagF pF bar pR tagR k1 k2 true].
Proof. exact canonical_read_windows. Qed.

Theorem C12_strand_symmetry_windows : forall (l1 l2 : list marker) (m : marker),
  m_fdelim m = 0%N -> m_rdelim m = 0%N ->
  forall flankL tagF spF pF bar pR spR tagR flankR : str,
  lenZ tagF = Z.of_N (m_ftl m) -> lenZ spF = Z.of_N (m_fsp m) ->
  lenZ tagR = Z.of_N (m_rtl m) -> lenZ spR = Z.of_N (m_rsp m) ->
  pF <> [] -> pR <> [] -> bar <> [] -> dna pF -> dna pR -> dna tagF -> dna tagR -> dna bar ->
  forall k1 k2 : Z,
  let s := canon_read flankL tagF spF pF bar pR spR tagR flankR in
  let L := cL flankL tagF spF pF bar pR spR tagR flankR in
  let i := length l1 in
  Forall (quiet (rc s)) l1 -> Forall (quiet (rc s)) l2 ->
  find_all (m_fwd m) (Z.of_N (m_ferr m)) 0 (rc s) 0 = [] ->
  find_all (m_rev m) (Z.of_N (m_rerr m)) 0 (rc s) 0 =
    [((L - ce2 flankL tagF spF pF bar pR)%Z, (L - cb2 flankL tagF spF pF bar)%Z, k2)] ->
  find_all (rc (m_fwd m)) (Z.of_N (m_ferr m)) (L - ce2 flankL tagF spF pF bar pR + 1) (rc s) 0 =
    [((L - ce1 flankL tagF spF pF)%Z, (L - cb1 flankL tagF spF)%Z, k1)] ->
  (k1 <= Z.of_N (m_ferr m) < 10000)%Z -> (k2 <= Z.of_N (m_rerr m) < 10000)%Z ->
  demux (l1 ++ m :: l2) (rc s) = Recs [canon_record i m tagF pF bar pR tagR k1 k2 false].
Proof. exact strand_symmetry_windows. Qed.

(** ---- delimited tags (@tag_delimiter, no tag indels): lookForTag, canonical read, strand symmetry ---- *)
(* on  ... d tag d^j junk  (tag and junk without d, j >= 1) the three backward scans return the tag *)
Theorem C12_look_for_tag_spec : forall pre tag j junk d,
  tag <> [] -> ~ In d tag -> ~ In d junk -> 1 <= j ->
  look_for_tag (pre ++ [d] ++ tag ++ repeat d j ++ junk) d = tag.
Proof. exact look_for_tag_spec. Qed.

Theorem C12_canonical_read_delimited : forall (lib : list marker) (i : nat) (m : marker),
  nth i lib dummy_marker = m ->
  forall (df dr : N) (nf nr : nat),
  m_fdelim m = df -> m_rdelim m = dr -> df <> 0%N -> dr <> 0%N ->
  comp (comp df) = df -> comp (comp dr) = dr ->
  m_ftind m = 0%N -> m_rtind m = 0%N ->
  Z.of_N (m_fsp m) = Z.of_nat nf -> Z.of_N (m_rsp m) = Z.of_nat nr -> 1 <= nf -> 1 <= nr ->
  forall flankL tagF pF bar pR tagR flankR : str,
  lenZ tagF = Z.of_N (m_ftl m) -> lenZ tagR = Z.of_N (m_rtl m) ->
  ~ In df tagF -> ~ In dr tagR ->
  pF <> [] -> pR <> [] -> bar <> [] -> dna pR -> dna tagR ->
  forall k1 k2 : Z,
  lib_hits 1 lib (canon_read (fL df flankL) tagF (sF df nf) pF bar pR (sR dr nr) tagR (fR dr flankR)) =
    canon_hits i (fL df flankL) tagF (sF df nf) pF bar pR k1 k2 ->
  demux lib (canon_read (fL df flankL) tagF (sF df nf) pF bar pR (sR dr nr) tagR (fR dr flankR)) =
    Recs [canon_record i m tagF pF bar pR tagR k1 k2 true].
Proof. exact canonical_read_delimited. Qed.

Theorem C12_strand_symmetry_delimited : forall (lib : list marker) (i : nat) (m : marker),
  nth i lib dummy_marker = m ->
  forall (df dr : N) (nf nr : nat),
  m_fdelim m = df -> m_rdelim m = dr -> df <> 0%N -> dr <> 0%N ->
  comp (comp df) = df -> comp (comp dr) = dr ->
  m_ftind m = 0%N -> m_rtind m = 0%N ->
  Z.of_N (m_fsp m) = Z.of_nat nf -> Z.of_N (m_rsp m) = Z.of_nat nr -> 1 <= nf -> 1 <= nr ->
  forall flankL tagF pF bar pR tagR flankR : str,
  lenZ tagF = Z.of_N (m_ftl m) -> lenZ tagR = Z.of_N (m_rtl m) ->
  ~ In df tagF -> ~ In dr tagR ->
  pF <> [] -> pR <> [] -> bar <> [] -> dna pF -> dna pR -> dna tagF -> dna tagR -> dna bar ->
  forall k1 k2 : Z,
  lib_hits 1 lib (canon_read (fL df flankL) tagF (sF df nf) pF bar pR (sR dr nr) tagR (fR dr flankR)) =
    canon_hits i (fL df flankL) tagF (sF df nf) pF bar pR k1 k2 ->
  lib_hits 1 lib (rc (canon_read (fL df flankL) tagF (sF df nf) pF bar pR (sR dr nr) tagR (fR dr flankR))) =
    canon_hits_rc i (fL df flankL) tagF (sF df nf) pF bar pR (sR dr nr) tagR (fR dr flankR) k1 k2 ->
  demux lib (canon_read (fL df flankL) tagF (sF df nf) pF bar pR (sR dr nr) tagR (fR dr flankR)) =
    Recs [canon_record i m tagF pF bar pR tagR k1 k2 true] /\
  demux lib (rc (canon_read (fL df flankL) tagF (sF df nf) pF bar pR (sR dr nr) tagR (fR dr flankR))) =
    Recs [canon_record i m tagF pF bar pR tagR k1 k2 false].
Proof. exact strand_symmetry_delimited. Qed.

(* delimiter 't' (116), spacer 2, tags without 't', hamming mode: both strands *)
Definition ex_md : marker := mkM [103;99;97;116;99;103;97;116;103;99;97;97;103;116;99;99;116;103]%N [99;116;97;103;97;116;103;99;103;97;97;116;116;99;103;116;99;99]%N 4 4 2 2 2 2 1 1 116 116 0 0
   [([97;97;99;99]%N, [103;103;97;97]%N, 7%N); ([99;99;103;103]%N, [103;103;99;97]%N, 8%N)].
Example C12_canonical_delimited_nonvacuous :
  let lib := [ex_md] in
  let rd := canon_read (fL 116 [103;103]%N) [97;97;99;99]%N (sF 116 2) [103;99;97;116;99;103;97;116;103;99;97;97;103;116;99;99;116;103]%N [103;97;116;116;97;99;97;103;97;116;116;97;99;97;103;97;116;116;97;99;97;99;99;99;99]%N [99;116;97;103;97;116;103;99;103;97;97;116;116;99;103;116;99;99]%N (sR 116 2) [103;103;97;97]%N (fR 116 [99]%N) in
  lib_hits 1 lib rd = canon_hits 0 (fL 116 [103;103]%N) [97;97;99;99]%N (sF 116 2) [103;99;97;116;99;103;97;116;103;99;97;97;103;116;99;99;116;103]%N [103;97;116;116;97;99;97;103;97;116;116;97;99;97;103;97;116;116;97;99;97;99;99;99;99]%N [99;116;97;103;97;116;103;99;103;97;97;116;116;99;103;116;99;99]%N 0 0 /\
  lib_hits 1 lib (rc rd) = canon_hits_rc 0 (fL 116 [103;103]%N) [97;97;99;99]%N (sF 116 2) [103;99;97;116;99;103;97;116;103;99;97;97;103;116;99;99;116;103]%N [103;97;116;116;97;99;97;103;97;116;116;97;99;97;103;97;116;116;97;99;97;99;99;99;99]%N [99;116;97;103;97;116;103;99;103;97;97;116;116;99;103;116;99;99]%N (sR 116 2) [103;103;97;97]%N (fR 116 [99]%N) 0 0 /\
  demux lib rd = Recs [mkR [103;97;116;116;97;99;97;103;97;116;116;97;99;97;103;97;116;116;97;99;97;99;99;99;99]%N true 0 [103;99;97;116;99;103;97;116;103;99;97;97;103;116;99;99;116;103]%N [99;116;97;103;97;116;103;99;103;97;97;116;116;99;103;116;99;99]%N 0 0 [97;97;99;99]%N [103;103;97;97]%N (Some 7%N) false] /\
  demux lib (rc rd) = Recs [mkR [103;97;116;116;97;99;97;103;97;116;116;97;99;97;103;97;116;116;97;99;97;99;99;99;99]%N false 0 [103;99;97;116;99;103;97;116;103;99;97;97;103;116;99;99;116;103]%N [99;116;97;103;97;116;103;99;103;97;97;116;116;99;103;116;99;99]%N 0 0 [97;97;99;99]%N [103;103;97;97]%N (Some 7%N) false].
Proof. vm_compute. repeat split; reflexivity. Qed.

(** ---- the pairing automaton of ExtractMultiBarcode ---- *)
(* it emits exactly the couples (+i hit IMMEDIATELY followed, in begin order, by the -i hit of the same orientation) *)
Theorem C12_pair_hits_is_adjacent_pairs : forall l, pair_hits l None = adj_pairs l.
Proof. exact pair_hits_is_adjacent. Qed.

Theorem C12_pair_hits_consecutive : forall l f h, In (f, h) (pair_hits l None) ->
  ((0 < hmk f)%Z /\ hmk h = (- hmk f)%Z /\ hfw h = hfw f) /\ exists l1 l2, l = l1 ++ f :: h :: l2.
Proof. exact pair_hits_consecutive. Qed.

(* the hits are examined in begin order: sort_hits is a sorted permutation *)
Theorem C12_sort_hits_sorted_permutation : forall l, Permutation l (sort_hits l) /\ sorted_b (sort_hits l).
Proof. exact sort_hits_sorted_perm. Qed.

(** ---- the specification matcher of the model ---- *)
Theorem C12_find_all_spec : forall pat k from s pos b e c,
  In (b, e, c) (find_all pat k from s pos) <->
  exists j : nat, j < length s /\ b = (pos + Z.of_nat j)%Z /\ e = (b + lenZ pat)%Z /\
                  mism pat (skipn j s) = Some c /\ (from <= b)%Z /\ (c <= k)%Z.
Proof. exact find_all_spec. Qed.

Theorem C12_mismatch_count_spec : forall pat w c,
  mism pat w = Some c <-> (length pat <= length w /\ c = window_mismatches pat w).
Proof. exact mism_spec. Qed.

(* a priming site within budget is always among the windows reported (before the merge of overlapping matches) *)
Theorem C12_priming_site_is_reported : forall pat k pre w rest c,
  mism pat w = Some c -> (c <= k)%Z -> w <> [] ->
  In (lenZ pre, (lenZ pre + lenZ pat)%Z, c) (find_all pat k 0 (pre ++ w ++ rest) 0).
Proof. exact find_all_complete. Qed.

(** ---- the hypotheses are satisfiable: a concrete sheet and read (one substitution in the forward primer), both strands ---- *)
Definition ex_m : marker := mkM [103;99;97;116;99;103;97;116;103;99;97;97;103;116;99;99;116;103]%N [99;116;97;103;97;116;103;99;103;97;97;116;116;99;103;116;99;99]%N 4 4 2 1 2 2 1 1 0 0 0 0
   [([97;97;99;99]%N, [103;103;116;116]%N, 7%N); ([97;97;99;103]%N, [103;103;116;97]%N, 8%N)].
Definition ex_pF : str := [103;99;97;116;99;97;97;116;103;99;97;97;103;116;99;99;116;103]%N.
Example C12_canonical_nonvacuous :
  let lib := [ex_m] in
  let rd := canon_read [116;116]%N [97;97;99;99]%N [99;97]%N ex_pF [103;97;116;116;97;99;97;103;97;116;116;97;99;97;103;97;116;116;97;99;97;99;99;99;99]%N [99;116;97;103;97;116;103;99;103;97;97;116;116;99;103;116;99;99]%N [103]%N [103;103;116;116]%N [97]%N in
  lib_hits 1 lib rd = canon_hits 0 [116;116]%N [97;97;99;99]%N [99;97]%N ex_pF [103;97;116;116;97;99;97;103;97;116;116;97;99;97;103;97;116;116;97;99;97;99;99;99;99]%N [99;116;97;103;97;116;103;99;103;97;97;116;116;99;103;116;99;99]%N 1 0 /\
  lib_hits 1 lib (rc rd) = canon_hits_rc 0 [116;116]%N [97;97;99;99]%N [99;97]%N ex_pF [103;97;116;116;97;99;97;103;97;116;116;97;99;97;103;97;116;116;97;99;97;99;99;99;99]%N [99;116;97;103;97;116;103;99;103;97;97;116;116;99;103;116;99;99]%N [103]%N [103;103;116;116]%N [97]%N 1 0 /\
  demux lib rd = Recs [mkR [103;97;116;116;97;99;97;103;97;116;116;97;99;97;103;97;116;116;97;99;97;99;99;99;99]%N true 0 ex_pF [99;116;97;103;97;116;103;99;103;97;97;116;116;99;103;116;99;99]%N 1 0 [97;97;99;99]%N [103;103;116;116]%N (Some 7%N) false] /\
  demux lib (rc rd) = Recs [mkR [103;97;116;116;97;99;97;103;97;116;116;97;99;97;103;97;116;116;97;99;97;99;99;99;99]%N false 0 ex_pF [99;116;97;103;97;116;103;99;103;97;97;116;116;99;103;116;99;99]%N 1 0 [97;97;99;99]%N [103;103;116;116]%N (Some 7%N) false].
Proof. vm_compute. repeat split; reflexivity. Qed.

(* the window-level hypotheses on a two-marker library: the other marker is quiet on both strands *)
Definition ex_other : marker := mkM [116;116;103;97;99;103;99;97;116;97;103;99;103;116;97;99;99;97]%N [103;103;97;116;99;97;116;99;103;99;103;97;97;116;97;103;116;99]%N 0 8 0 0 2 2 0 0 0 0 0 0 [([], [97;99;103;116;97;99;103;116]%N, 3%N)].
Example C12_windows_nonvacuous :
  let s := canon_read [116;116]%N [97;97;99;99]%N [99;97]%N ex_pF [103;97;116;116;97;99;97;103;97;116;116;97;99;97;103;97;116;116;97;99;97;99;99;99;99]%N [99;116;97;103;97;116;103;99;103;97;97;116;116;99;103;116;99;99]%N [103]%N [103;103;116;116]%N [97]%N in
  let L := cL [116;116]%N [97;97;99;99]%N [99;97]%N ex_pF [103;97;116;116;97;99;97;103;97;116;116;97;99;97;103;97;116;116;97;99;97;99;99;99;99]%N [99;116;97;103;97;116;103;99;103;97;97;116;116;99;103;116;99;99]%N [103]%N [103;103;116;116]%N [97]%N in
  quiet s ex_other /\ quiet (rc s) ex_other /\
  find_all (m_fwd ex_m) 2 0 s 0 = [(cb1 [116;116]%N [97;97;99;99]%N [99;97]%N, ce1 [116;116]%N [97;97;99;99]%N [99;97]%N ex_pF, 1%Z)] /\
  find_all (rc (m_rev ex_m)) 2 (cb1 [116;116]%N [97;97;99;99]%N [99;97]%N + 1) s 0 =
     [(cb2 [116;116]%N [97;97;99;99]%N [99;97]%N ex_pF [103;97;116;116;97;99;97;103;97;116;116;97;99;97;103;97;116;116;97;99;97;99;99;99;99]%N, ce2 [116;116]%N [97;97;99;99]%N [99;97]%N ex_pF [103;97;116;116;97;99;97;103;97;116;116;97;99;97;103;97;116;116;97;99;97;99;99;99;99]%N [99;116;97;103;97;116;103;99;103;97;97;116;116;99;103;116;99;99]%N, 0%Z)] /\
  find_all (m_rev ex_m) 2 0 s 0 = [] /\
  find_all (m_fwd ex_m) 2 0 (rc s) 0 = [] /\
  find_all (m_rev ex_m) 2 0 (rc s) 0 = [((L - ce2 [116;116]%N [97;97;99;99]%N [99;97]%N ex_pF [103;97;116;116;97;99;97;103;97;116;116;97;99;97;103;97;116;116;97;99;97;99;99;99;99]%N [99;116;97;103;97;116;103;99;103;97;97;116;116;99;103;116;99;99]%N)%Z, (L - cb2 [116;116]%N [97;97;99;99]%N [99;97]%N ex_pF [103;97;116;116;97;99;97;103;97;116;116;97;99;97;103;97;116;116;97;99;97;99;99;99;99]%N)%Z, 0%Z)].
Proof. vm_compute. repeat split; reflexivity. Qed.

(* a tie between two declared tags is never resolved: no proposal, the record is flagged *)
Example C12_closest_tie_nonvacuous :
  closest hamming [[97;97;97;97]%N; [97;97;97;116]%N; [97;97;97;97]%N] [97;97;97;99]%N = ([], Some 1) /\
  closest hamming [[97;97;97;97]%N; [116;116;97;116]%N; [97;97;97;97]%N] [97;97;97;99]%N = ([97;97;97;97]%N, Some 1) /\
  levenshtein [107;105;116;116;101;110]%N [115;105;116;116;105;110;103]%N = 3.
Proof. vm_compute. repeat split; reflexivity. Qed.

(** ---- RESCUE extraction (@tag_delimiter + @tag_indels): what lookForRescueTag returns ---- *)
(* on  pre x d^k1 tag d^k2 junk  (x <> d; tag, junk without d; 1 <= k1, k2 <= spacer; at most tag_indels delimiters missing next to
   the primer; tag length within tag_indels of the declared length, declared length > tag_indels) it returns the tag *)
Theorem C12_rescue_tag_spec : forall pre x d (k1 k2 : nat) tag junk tl border indel,
  x <> d -> ~ In d tag -> ~ In d junk ->
  (1 <= k1)%nat -> (Z.of_nat k1 <= border)%Z ->
  (1 <= k2)%nat -> (Z.of_nat k2 <= border)%Z -> (border - Z.of_nat k2 <= indel)%Z ->
  (tl - indel <= lenZ tag <= tl + indel)%Z -> (1 <= tl - indel)%Z ->
  look_for_rescue_tag (pre ++ [x] ++ repeat d k1 ++ tag ++ repeat d k2 ++ junk) d tl border indel = tag.
Proof. exact rescue_spec. Qed.

(* whatever the fragment: the result is empty or a factor of the fragment whose length is within tag_indels of the declared length *)
Theorem C12_rescue_tag_sound : forall s d tl border indel,
  (0 <= border)%Z -> (0 <= indel <= tl)%Z ->
  let r := look_for_rescue_tag s d tl border indel in
  r = [] \/ ((exists a c, s = a ++ r ++ c) /\ (tl - indel <= lenZ r <= tl + indel)%Z).
Proof. exact rescue_sound. Qed.

(* canonical read, rescue mode on both sides: delimiter runs may have lost bases (inner run: at most tag_indels), the observed tags may
   be longer or shorter than declared by at most tag_indels; the record carries the OBSERVED tags and the sample they identify
   ([canon_record] looks (tagF, tagR) up under the declared matching mode) *)
Theorem C12_canonical_read_rescue :
  (forall (lib : list marker) (i : nat) (m : marker),
  nth i lib dummy_marker = m ->
  forall df dr : N,
  m_fdelim m = df ->
  m_rdelim m = dr ->
  df <> 0%N ->
  dr <> 0%N ->
  comp (comp df) = df ->
  comp (comp dr) = dr ->
  (1 <= m_ftind m)%N ->
  (1 <= m_rtind m)%N ->
  (m_ftind m < m_ftl m)%N ->
  (m_rtind m < m_rtl m)%N ->
  forall k1f k2f k1r k2r : nat,
  (1 <= k1f)%nat ->
  Z.of_nat k1f <= Z.of_N (m_fsp m) ->
  (1 <= k2f)%nat ->
  Z.of_nat k2f <= Z.of_N (m_fsp m) ->
  Z.of_N (m_fsp m) - Z.of_nat k2f <= Z.of_N (m_ftind m) ->
  (1 <= k1r)%nat ->
  Z.of_nat k1r <= Z.of_N (m_rsp m) ->
  (1 <= k2r)%nat ->
  Z.of_nat k2r <= Z.of_N (m_rsp m) ->
  Z.of_N (m_rsp m) - Z.of_nat k2r <= Z.of_N (m_rtind m) ->
  forall (flankL0 tagF pF bar pR tagR flankR0 : str) (xl yr : N),
  xl <> df ->
  comp (comp xl) = xl ->
  comp yr <> dr ->
  Z.of_N (m_ftl m) - Z.of_N (m_ftind m) <= lenZ tagF <= Z.of_N (m_ftl m) + Z.of_N (m_ftind m) ->
  Z.of_N (m_rtl m) - Z.of_N (m_rtind m) <= lenZ tagR <= Z.of_N (m_rtl m) + Z.of_N (m_rtind m) ->
  ~ In df tagF ->
  ~ In dr tagR ->
  pF <> nil ->
  pR <> nil ->
  bar <> nil ->
  dna pR ->
  dna tagR ->
  forall k1 k2 : Z,
  lib_hits 1 lib (canon_read (rfL df k1f flankL0 xl) tagF (rsF df k2f) pF bar pR (rsR dr k2r) tagR (rfR dr k1r flankR0 yr)) =
  canon_hits i (rfL df k1f flankL0 xl) tagF (rsF df k2f) pF bar pR k1 k2 ->
  demux lib (canon_read (rfL df k1f flankL0 xl) tagF (rsF df k2f) pF bar pR (rsR dr k2r) tagR (rfR dr k1r flankR0 yr)) =
  Recs (canon_record i m tagF pF bar pR tagR k1 k2 true :: nil))%Z.
Proof. exact canonical_read_rescue. Qed.

(* both strands *)
Theorem C12_strand_symmetry_rescue :
  (forall (lib : list marker) (i : nat) (m : marker),
  nth i lib dummy_marker = m ->
  forall df dr : N,
  m_fdelim m = df ->
  m_rdelim m = dr ->
  df <> 0%N ->
  dr <> 0%N ->
  comp (comp df) = df ->
  comp (comp dr) = dr ->
  (1 <= m_ftind m)%N ->
  (1 <= m_rtind m)%N ->
  (m_ftind m < m_ftl m)%N ->
  (m_rtind m < m_rtl m)%N ->
  forall k1f k2f k1r k2r : nat,
  (1 <= k1f)%nat ->
  Z.of_nat k1f <= Z.of_N (m_fsp m) ->
  (1 <= k2f)%nat ->
  Z.of_nat k2f <= Z.of_N (m_fsp m) ->
  Z.of_N (m_fsp m) - Z.of_nat k2f <= Z.of_N (m_ftind m) ->
  (1 <= k1r)%nat ->
  Z.of_nat k1r <= Z.of_N (m_rsp m) ->
  (1 <= k2r)%nat ->
  Z.of_nat k2r <= Z.of_N (m_rsp m) ->
  Z.of_N (m_rsp m) - Z.of_nat k2r <= Z.of_N (m_rtind m) ->
  forall (flankL0 tagF pF bar pR tagR flankR0 : str) (xl yr : N),
  xl <> df ->
  comp (comp xl) = xl ->
  comp yr <> dr ->
  Z.of_N (m_ftl m) - Z.of_N (m_ftind m) <= lenZ tagF <= Z.of_N (m_ftl m) + Z.of_N (m_ftind m) ->
  Z.of_N (m_rtl m) - Z.of_N (m_rtind m) <= lenZ tagR <= Z.of_N (m_rtl m) + Z.of_N (m_rtind m) ->
  ~ In df tagF ->
  ~ In dr tagR ->
  pF <> nil ->
  pR <> nil ->
  bar <> nil ->
  dna pF ->
  dna pR ->
  dna tagF ->
  dna tagR ->
  dna bar ->
  forall k1 k2 : Z,
  lib_hits 1 lib (canon_read (rfL df k1f flankL0 xl) tagF (rsF df k2f) pF bar pR (rsR dr k2r) tagR (rfR dr k1r flankR0 yr)) =
  canon_hits i (rfL df k1f flankL0 xl) tagF (rsF df k2f) pF bar pR k1 k2 ->
  lib_hits 1 lib (rc (canon_read (rfL df k1f flankL0 xl) tagF (rsF df k2f) pF bar pR (rsR dr k2r) tagR (rfR dr k1r flankR0 yr))) =
  canon_hits_rc i (rfL df k1f flankL0 xl) tagF (rsF df k2f) pF bar pR (rsR dr k2r) tagR (rfR dr k1r flankR0 yr) k1 k2 ->
  demux lib (canon_read (rfL df k1f flankL0 xl) tagF (rsF df k2f) pF bar pR (rsR dr k2r) tagR (rfR dr k1r flankR0 yr)) =
  Recs (canon_record i m tagF pF bar pR tagR k1 k2 true :: nil) /\
  demux lib (rc (canon_read (rfL df k1f flankL0 xl) tagF (rsF df k2f) pF bar pR (rsR dr k2r) tagR (rfR dr k1r flankR0 yr))) =
  Recs (canon_record i m tagF pF bar pR tagR k1 k2 false :: nil))%Z.
Proof. exact strand_symmetry_rescue. Qed.

(* the same for ANY matcher producing the two intended hits (e.g. re-aligned indel spans) *)
Theorem C12_canonical_rescue_any_matcher :
  (forall (lib : list marker) (i : nat) (m : marker),
  nth i lib dummy_marker = m ->
  forall df dr : N,
  m_fdelim m = df ->
  m_rdelim m = dr ->
  df <> 0%N ->
  dr <> 0%N ->
  comp (comp df) = df ->
  comp (comp dr) = dr ->
  (1 <= m_ftind m)%N ->
  (1 <= m_rtind m)%N ->
  (m_ftind m < m_ftl m)%N ->
  (m_rtind m < m_rtl m)%N ->
  forall k1f k2f k1r k2r : nat,
  (1 <= k1f)%nat ->
  Z.of_nat k1f <= Z.of_N (m_fsp m) ->
  (1 <= k2f)%nat ->
  Z.of_nat k2f <= Z.of_N (m_fsp m) ->
  Z.of_N (m_fsp m) - Z.of_nat k2f <= Z.of_N (m_ftind m) ->
  (1 <= k1r)%nat ->
  Z.of_nat k1r <= Z.of_N (m_rsp m) ->
  (1 <= k2r)%nat ->
  Z.of_nat k2r <= Z.of_N (m_rsp m) ->
  Z.of_N (m_rsp m) - Z.of_nat k2r <= Z.of_N (m_rtind m) ->
  forall (flankL0 tagF pF bar pR tagR flankR0 : str) (xl yr : N),
  xl <> df ->
  comp (comp xl) = xl ->
  comp yr <> dr ->
  Z.of_N (m_ftl m) - Z.of_N (m_ftind m) <= lenZ tagF <= Z.of_N (m_ftl m) + Z.of_N (m_ftind m) ->
  Z.of_N (m_rtl m) - Z.of_N (m_rtind m) <= lenZ tagR <= Z.of_N (m_rtl m) + Z.of_N (m_rtind m) ->
  ~ In df tagF ->
  ~ In dr tagR ->
  pF <> nil ->
  pR <> nil ->
  bar <> nil ->
  dna pF ->
  dna pR ->
  dna tagF ->
  dna tagR ->
  dna bar ->
  forall k1 k2 : Z,
  demux_hits lib (canon_read (rfL df k1f flankL0 xl) tagF (rsF df k2f) pF bar pR (rsR dr k2r) tagR (rfR dr k1r flankR0 yr))
  (canon_hits i (rfL df k1f flankL0 xl) tagF (rsF df k2f) pF bar pR k1 k2) = Recs (canon_record i m tagF pF bar pR tagR k1 k2 true :: nil) /\
  demux_hits lib (rc (canon_read (rfL df k1f flankL0 xl) tagF (rsF df k2f) pF bar pR (rsR dr k2r) tagR (rfR dr k1r flankR0 yr)))
  (canon_hits_rc i (rfL df k1f flankL0 xl) tagF (rsF df k2f) pF bar pR (rsR dr k2r) tagR (rfR dr k1r flankR0 yr) k1 k2) =
  Recs (canon_record i m tagF pF bar pR tagR k1 k2 false :: nil))%Z.
Proof. exact canonical_rescue_any_matcher. Qed.

(* rescue mode, delimiter 't', spacer 2, one tag indel allowed, matching = indel: forward tag with a deleted base and one delimiter lost
   next to the primer, reverse tag with an inserted base and a shortened outer run; both strands *)
Definition ex_mr : marker := mkM [103;99;97;116;99;103;97;116;103;99;97;97;103;116;99;99;116;103]%N [99;116;97;103;97;116;103;99;103;97;97;116;116;99;103;116;99;99]%N 4 4 2 2 2 2 2 2 116 116 1 1
   [([97;97;99;99]%N, [103;103;97;97]%N, 7%N); ([99;99;103;103]%N, [99;99;99;97]%N, 8%N)].
Example C12_canonical_rescue_nonvacuous :
  let lib := [ex_mr] in
  let fl := rfL 116 2 [103;103]%N 103 in let sf := rsF 116 1 in let sr := rsR 116 2 in let fr := rfR 116 1 [97]%N 99 in
  let rd := canon_read fl [97;97;99]%N sf [103;99;97;116;99;103;97;116;103;99;97;97;103;116;99;99;116;103]%N [103;97;116;116;97;99;97;103;97;116;116;97;99;97;103;97;116;116;97;99;97;99;99;99;99]%N [99;116;97;103;97;116;103;99;103;97;97;116;116;99;103;116;99;99]%N sr [103;103;97;97;99]%N fr in
  lib_hits 1 lib rd = canon_hits 0 fl [97;97;99]%N sf [103;99;97;116;99;103;97;116;103;99;97;97;103;116;99;99;116;103]%N [103;97;116;116;97;99;97;103;97;116;116;97;99;97;103;97;116;116;97;99;97;99;99;99;99]%N [99;116;97;103;97;116;103;99;103;97;97;116;116;99;103;116;99;99]%N 0 0 /\
  lib_hits 1 lib (rc rd) = canon_hits_rc 0 fl [97;97;99]%N sf [103;99;97;116;99;103;97;116;103;99;97;97;103;116;99;99;116;103]%N [103;97;116;116;97;99;97;103;97;116;116;97;99;97;103;97;116;116;97;99;97;99;99;99;99]%N [99;116;97;103;97;116;103;99;103;97;97;116;116;99;103;116;99;99]%N sr [103;103;97;97;99]%N fr 0 0 /\
  demux lib rd = Recs [mkR [103;97;116;116;97;99;97;103;97;116;116;97;99;97;103;97;116;116;97;99;97;99;99;99;99]%N true 0 [103;99;97;116;99;103;97;116;103;99;97;97;103;116;99;99;116;103]%N [99;116;97;103;97;116;103;99;103;97;97;116;116;99;103;116;99;99]%N 0 0 [97;97;99]%N [103;103;97;97;99]%N (Some 7%N) false] /\
  demux lib (rc rd) = Recs [mkR [103;97;116;116;97;99;97;103;97;116;116;97;99;97;103;97;116;116;97;99;97;99;99;99;99]%N false 0 [103;99;97;116;99;103;97;116;103;99;97;97;103;116;99;99;116;103]%N [99;116;97;103;97;116;103;99;103;97;97;116;116;99;103;116;99;99]%N 0 0 [97;97;99]%N [103;103;97;97;99]%N (Some 7%N) false].
Proof. vm_compute. repeat split; reflexivity. Qed.

(** ================================ round 2 ================================ *)

(** ---- Closest*Tag under EVERY iteration order of the sample map ---- *)
(* [perms] (Model.v) enumerates exactly the permutations: one [CClosestAll] correspondence case compares the answer observed on the
   code with the model folded over every order of the declared tags *)
Theorem C12_perms_are_the_permutations : forall (A : Type) (l p : list A), In p (perms l) <-> Permutation l p.
Proof. exact perms_iff. Qed.

Theorem C12_closest_same_on_every_enumerated_order : forall (dist : str -> str -> nat) (t : str) (tags p : list str),
  ~ In [] tags -> In p (perms tags) -> closest dist p t = closest dist tags t.
Proof. exact closest_perms. Qed.

(* what a green [CClosestAll] case means *)
Theorem C12_closest_all_orders_case : forall dist t tags ans,
  forallb (fun p => let r := closest dist p t in str_eqb (fst r) (fst ans) && optN_eqb (option_map N.of_nat (snd r)) (snd ans)) (perms tags) = true ->
  forall tags', Permutation tags tags' ->
  fst (closest dist tags' t) = fst ans /\ option_map N.of_nat (snd (closest dist tags' t)) = snd ans.
Proof. exact closest_all_orders. Qed.

(** ---- BY DESIGN: "unique nearest tag" has no upper bound on the distance. A tag that shares no base with the declared tag is still
    proposed (and the read assigned) as soon as that declared tag is strictly nearer than every other one (C12_closest_unique);
    for every n there is such a case at Hamming distance n = the whole tag length ---- *)
Theorem C12_nearest_tag_has_no_distance_bound : forall n, 1 <= n ->
  exists tags t u, In u tags /\ hamming u t = n /\ n = length t /\ propose 1%N tags t = u.
Proof. exact nearest_unbounded. Qed.

(** ---- ANY matcher (substitution windows, or the re-aligned spans of the indel matcher whose length differs from the primer's):
    a record is cut exactly at the spans of its own (from, match) hit pair ---- *)
Theorem C12_record_between_spans : forall lib s hits rs r,
  demux_hits lib s hits = Recs rs -> In r rs ->
  exists f h, In (f, h) (pair_hits (sort_hits hits) None) /\ In f hits /\ In h hits /\ record_of_pair s f h r.
Proof. exact record_between_spans. Qed.

(** ---- the amplicons of a chimeric read are independent (seed C12-B: one annotation map reused across amplicons): the records
    emitted for a hit pair are those of the read in which these two hits are the only ones ---- *)
Theorem C12_amplicons_independent : forall lib s hits,
  records_of (demux_hits lib s hits) =
  flat_map (fun fh => records_of (demux_hits lib s [fst fh; snd fh])) (pair_hits (sort_hits hits) None).
Proof. exact amplicons_independent. Qed.

Theorem C12_amplicon_records_do_not_depend_on_the_other_hits : forall lib s hits hits' f h,
  In (f, h) (pair_hits (sort_hits hits) None) -> In (f, h) (pair_hits (sort_hits hits') None) ->
  forall r, In r (emit lib s (f, h)) ->
  In r (records_of (demux_hits lib s hits)) /\ In r (records_of (demux_hits lib s hits')) /\
  In r (records_of (demux_hits lib s [f; h])).
Proof. exact amplicon_records_do_not_depend_on_the_other_hits. Qed.

(** ---- hits that start at the same position keep their collection order (markers in primer order - fixed in round 2 -, then forward,
    complemented reverse, reverse, complemented forward pattern): the records are a function of (sheet, read) ---- *)
Theorem C12_sort_hits_stable : forall b l, filter (at_b b) (sort_hits l) = filter (at_b b) l.
Proof. exact sort_hits_stable. Qed.

(* primer occurrences with an inserted base (forward) and a deleted base (reverse): spans of length 19 and 17 for 18-base primers *)
Example C12_primer_indels_nonvacuous :
  let pF := [103;99;97;116;99;103;97;116;103;116;99;97;97;103;116;99;99;116;103]%N in let pR := [99;116;97;103;97;116;103;103;97;97;116;116;99;103;116;99;99]%N in
  let bar := [103;97;116;116;97;99;97;103;97;116;116;97;99;97;103;97;116;116;97;99;97;99;99;99;99]%N in
  demux_hits [ex_m] (canon_read [116;116]%N [97;97;99;99]%N [99;97]%N pF bar pR [103]%N [103;103;116;116]%N [97]%N)
             (canon_hits 0 [116;116]%N [97;97;99;99]%N [99;97]%N pF bar pR 1 1) =
    Recs [mkR bar true 0 pF pR 1 1 [97;97;99;99]%N [103;103;116;116]%N (Some 7%N) false] /\
  length pF = 19 /\ length pR = 17 /\ length (m_fwd ex_m) = 18 /\ length (m_rev ex_m) = 18.
Proof. vm_compute. repeat split; reflexivity. Qed.

(* a chimeric read: a good amplicon (sample 7) and one whose tag pair is not declared, in both orders *)
Example C12_chimera_nonvacuous :
  let good := [116;116;97;97;99;99;99;97;103;99;97;116;99;103;97;116;103;99;97;97;103;116;99;99;116;103;103;97;116;116;97;99;97;103;97;116;116;97;99;97;103;97;116;116;97;99;97;99;99;99;99;103;103;97;99;103;97;97;116;116;99;103;99;97;116;99;116;97;103;103;97;97;99;99;97]%N in
  let bad := [116;116;97;97;99;99;99;97;103;99;97;116;99;103;97;116;103;99;97;97;103;116;99;99;116;103;99;99;97;116;103;99;97;116;103;99;97;97;97;103;103;97;99;103;97;97;116;116;99;103;99;97;116;99;116;97;103;103;116;97;99;99;97]%N in
  let view o := map (fun r => (r_rt r, r_sample r, r_err r)) (records_of o) in
  view (demux [ex_m] (good ++ bad)) = [([103;103;116;116]%N, Some 7%N, false); ([103;103;116;97]%N, None, true)] /\
  view (demux [ex_m] (bad ++ good)) = [([103;103;116;97]%N, None, true); ([103;103;116;116]%N, Some 7%N, false)] /\
  records_of (demux [ex_m] (good ++ bad)) = records_of (demux [ex_m] good) ++ records_of (demux [ex_m] bad).
Proof. vm_compute. repeat split; reflexivity. Qed.


(** ---- ANY matcher, ANY extraction mode ---- *)
(* delimited tags with any matcher producing the two intended hits (primer indels), both strands *)
Theorem C12_canonical_delimited_any_matcher :
  (forall (lib : list marker) (i : nat) (m : marker),
  nth i lib dummy_marker = m ->
  forall (df dr : N) (nf nr : nat),
  m_fdelim m = df ->
  m_rdelim m = dr ->
  df <> 0%N ->
  dr <> 0%N ->
  comp (comp df) = df ->
  comp (comp dr) = dr ->
  m_ftind m = 0%N ->
  m_rtind m = 0%N ->
  Z.of_N (m_fsp m) = Z.of_nat nf ->
  Z.of_N (m_rsp m) = Z.of_nat nr ->
  (1 <= nf)%nat ->
  (1 <= nr)%nat ->
  forall flankL tagF pF bar pR tagR flankR : str,
  lenZ tagF = Z.of_N (m_ftl m) ->
  lenZ tagR = Z.of_N (m_rtl m) ->
  ~ In df tagF ->
  ~ In dr tagR ->
  pF <> nil ->
  pR <> nil ->
  bar <> nil ->
  dna pF ->
  dna pR ->
  dna tagF ->
  dna tagR ->
  dna bar ->
  forall k1 k2 : Z,
  demux_hits lib (canon_read (fL df flankL) tagF (sF df nf) pF bar pR (sR dr nr) tagR (fR dr flankR))
  (canon_hits i (fL df flankL) tagF (sF df nf) pF bar pR k1 k2) = Recs (canon_record i m tagF pF bar pR tagR k1 k2 true :: nil) /\
  demux_hits lib (rc (canon_read (fL df flankL) tagF (sF df nf) pF bar pR (sR dr nr) tagR (fR dr flankR)))
  (canon_hits_rc i (fL df flankL) tagF (sF df nf) pF bar pR (sR dr nr) tagR (fR dr flankR) k1 k2) =
  Recs (canon_record i m tagF pF bar pR tagR k1 k2 false :: nil))%Z.
Proof. exact canonical_delimited_any_matcher. Qed.

(* whatever the extraction modes of the two sides (fixed, delimited, rescue - possibly different on the two sides) and whatever the
   matcher: if the two extractors return the tags next to the two hits, the record is the canonical one; on either strand *)
Theorem C12_canonical_read_any_extractor :
  (forall (lib : list marker) (i : nat) (m : marker),
  nth i lib dummy_marker = m ->
  forall flankL tagF spF pF bar pR spR tagR flankR : str,
  pF <> nil ->
  pR <> nil ->
  bar <> nil ->
  dna pR ->
  forall k1 k2 : Z,
  begin_tag (canon_read flankL tagF spF pF bar pR spR tagR flankR) (cb1 flankL tagF spF) (fside m) = tagF ->
  end_tag (canon_read flankL tagF spF pF bar pR spR tagR flankR) (ce2 flankL tagF spF pF bar pR) (rside m) = tagR ->
  demux_hits lib (canon_read flankL tagF spF pF bar pR spR tagR flankR) (canon_hits i flankL tagF spF pF bar pR k1 k2) =
  Recs (canon_record i m tagF pF bar pR tagR k1 k2 true :: nil))%Z.
Proof. exact canonical_forward_gen. Qed.

Theorem C12_strand_symmetry_any_extractor :
  (forall (lib : list marker) (i : nat) (m : marker),
  nth i lib dummy_marker = m ->
  forall flankL tagF spF pF bar pR spR tagR flankR : str,
  pF <> nil ->
  pR <> nil ->
  bar <> nil ->
  dna pF ->
  dna pR ->
  dna tagR ->
  dna bar ->
  forall k1 k2 : Z,
  end_tag (rc (canon_read flankL tagF spF pF bar pR spR tagR flankR)) (cL flankL tagF spF pF bar pR spR tagR flankR - cb1 flankL tagF spF)
  (fside m) = tagF ->
  begin_tag (rc (canon_read flankL tagF spF pF bar pR spR tagR flankR))
  (cL flankL tagF spF pF bar pR spR tagR flankR - ce2 flankL tagF spF pF bar pR) (rside m) = tagR ->
  demux_hits lib (rc (canon_read flankL tagF spF pF bar pR spR tagR flankR)) (canon_hits_rc i flankL tagF spF pF bar pR spR tagR flankR k1 k2) =
  Recs (canon_record i m tagF pF bar pR tagR k1 k2 false :: nil))%Z.
Proof. exact canonical_reverse_gen. Qed.

(** ================= round 3: the command around the demultiplexer ================= *)

(** ---- routing of the records by their error flag (IExtractBarcode); a record is (payload, obimultiplex_error present) ---- *)
(* with --unidentified, standard output and file together hold every record exactly once *)
Theorem C12_route_partition : forall A md (recs : list (A * bool)),
  m_unid md = true -> Permutation recs (fst (route md recs) ++ snd (route md recs)).
Proof. exact route_partition. Qed.

(* in EVERY mode an unflagged record reaches the standard output *)
Theorem C12_route_never_loses_an_unflagged_record : forall A md (recs : list (A * bool)) r,
  In r recs -> snd r = false -> In r (fst (route md recs)).
Proof. exact route_unflagged_kept. Qed.

(* unless --keep-errors alone is given, the standard output holds unflagged records only (and nothing it was not given) *)
Theorem C12_route_output_unflagged_unless_kept : forall A md (recs : list (A * bool)) r,
  md <> MKeep -> In r (fst (route md recs)) -> snd r = false /\ In r recs.
Proof. exact route_stdout_unflagged. Qed.

(* the file holds flagged records only, and only when it was asked for *)
Theorem C12_route_file_only_flagged : forall A md (recs : list (A * bool)) r,
  In r (snd (route md recs)) -> snd r = true /\ m_unid md = true /\ In r recs.
Proof. exact route_file_flagged. Qed.

(* "otherwise it is output flagged with an error": a flagged record is written somewhere in every mode but the default one *)
Theorem C12_route_flagged_lost_only_by_default : forall A md (recs : list (A * bool)) r,
  md <> MDefault -> In r recs -> In r (fst (route md recs) ++ snd (route md recs)).
Proof. exact route_flagged_somewhere. Qed.

(* composed with SAFETY: whatever the matcher found, a record the command writes on its standard output (errors not kept) carries a
   sample, and the tag pair proposed from its extracted tags under the declared modes is declared for its marker with that sample *)
Theorem C12_command_output_is_identified : forall lib s hits rs md r,
  demux_hits lib s hits = Recs rs -> md <> MKeep ->
  In (with_flag r) (fst (route md (map with_flag rs))) -> In r rs ->
  let m := nth (N.to_nat (r_mk r)) lib dummy_marker in
  let p := proposed_pair m (r_ft r, r_rt r) in
  exists id, r_sample r = Some id /\ In (fst p, snd p, id) (m_samples m).
Proof. exact command_stdout_identified. Qed.

(* ... and every record that got a sample is on the standard output, in every mode *)
Theorem C12_command_sample_always_on_output : forall lib s hits rs md r id,
  demux_hits lib s hits = Recs rs -> In r rs -> r_sample r = Some id ->
  In (with_flag r) (fst (route md (map with_flag rs))).
Proof. exact command_sample_on_stdout. Qed.

(** ---- @param lines of a CSV sheet ---- *)
(* a two-argument line naming the forward primer of a marker changes the forward side of THAT marker and nothing else
   (hypothesis = what CheckPrimerUnicity enforces: no primer is used twice) *)
Theorem C12_per_primer_param_forward : forall l1 m l2 fld,
  NoDup (primers_of (l1 ++ m :: l2)) ->
  apply_param (table_of (l1 ++ m :: l2)) (l1 ++ m :: l2) (mkP (For (p_fwd m)) fld) = l1 ++ on_f (upd fld) m :: l2.
Proof. exact per_primer_forward. Qed.

Theorem C12_per_primer_param_reverse : forall l1 m l2 fld,
  NoDup (primers_of (l1 ++ m :: l2)) ->
  apply_param (table_of (l1 ++ m :: l2)) (l1 ++ m :: l2) (mkP (For (p_rev m)) fld) = l1 ++ on_r (upd fld) m :: l2.
Proof. exact per_primer_reverse. Qed.

(* a line naming a primer the sheet does not use changes nothing (it is never applied to another primer) *)
Theorem C12_per_primer_param_unknown_primer_ignored : forall lib pr fld,
  ~ In pr (primers_of lib) -> apply_param (table_of lib) lib (mkP (For pr) fld) = lib.
Proof. exact per_primer_unknown. Qed.

(* THE ORDERING DEPENDENCY of ReadCSVNGSFilter: with the table of primers still empty (CheckPrimerUnicity not run yet) every
   one-primer line is silently a no-op - the reader must fill the table before it applies the parameters *)
Theorem C12_per_primer_param_needs_primer_table : forall lib pr fld, apply_param [] lib (mkP (For pr) fld) = lib.
Proof. exact per_primer_needs_table. Qed.

(* lines of the same kind and scope: the last one wins; a line for every primer erases an earlier one-primer line *)
Theorem C12_param_last_line_wins : forall tbl lib sc a b, same_kind a b = true ->
  apply_param tbl (apply_param tbl lib (mkP sc a)) (mkP sc b) = apply_param tbl lib (mkP sc b).
Proof. exact last_line_wins. Qed.

Theorem C12_global_param_erases_per_primer_param : forall tbl lib pr a b, same_kind a b = true ->
  apply_param tbl (apply_param tbl lib (mkP (For pr) a)) (mkP Both b) = apply_param tbl lib (mkP Both b).
Proof. exact global_line_erases_per_primer_line. Qed.

(* parameters never change the set of markers: the table built before them remains the table of the library *)
Theorem C12_params_keep_the_primers : forall tbl lib p,
  map (fun m => (p_fwd m, p_rev m)) (apply_param tbl lib p) = map (fun m => (p_fwd m, p_rev m)) lib.
Proof. exact apply_param_primers. Qed.

(* library.Markers is a Go map: the settings every marker ends with do not depend on the order in which the markers are met, nor
   on the order in which CheckPrimerUnicity filled the table (no primer used twice) *)
Theorem C12_params_marker_order_independent : forall lib lib' ps,
  Permutation lib lib' -> NoDup (primers_of lib) -> Permutation (read_params lib ps) (read_params lib' ps).
Proof. exact read_params_order_independent. Qed.

(** ---- command line: -e N overrides the budget of every primer when N > 0, and is ignored otherwise ---- *)
Theorem C12_cli_mismatches_override : forall tbl lib e, (0 < e)%Z ->
  apply_params tbl lib (cli_params e false) =
  map (fun m => on_r (upd (FErr (Z.to_N e))) (on_f (upd (FErr (Z.to_N e))) m)) lib.
Proof. exact cli_budget. Qed.

Theorem C12_cli_nonpositive_mismatches_ignored : forall tbl lib e, (e <= 0)%Z -> apply_params tbl lib (cli_params e false) = lib.
Proof. exact cli_nothing. Qed.

(* the hypotheses are met: two markers with four distinct primers; a spacer for the reverse primer of the second one *)
Example C12_per_primer_nonvacuous :
  let m1 := mkPM [97;99]%N [103;116]%N default_side default_side in
  let m2 := mkPM [99;99]%N [116;116]%N default_side default_side in
  NoDup (primers_of ([m1] ++ m2 :: [])) /\
  read_params [m1; m2] [mkP (For [116;116]%N) (FSpacer 2)] = [m1; mkPM [99;99]%N [116;116]%N default_side (mkS 2 2 0 0 0 false)].
Proof.
  split; [|vm_compute; reflexivity].
  simpl. repeat constructor; simpl; intuition discriminate.
Qed.

(* default mode drops the flagged record, -u sends it to the file, --keep-errors keeps it on the output *)
Example C12_route_nonvacuous :
  route MDefault [(0%N, false); (1%N, true)] = ([(0%N, false)], []) /\
  route MUnid [(0%N, false); (1%N, true)] = ([(0%N, false)], [(1%N, true)]) /\
  route MKeep [(0%N, false); (1%N, true)] = ([(0%N, false); (1%N, true)], []) /\
  route MKeepUnid [(0%N, false); (1%N, true)] = ([(0%N, false)], [(1%N, true)]).
Proof. repeat split. Qed.

Print Assumptions C12_closest_unique.
Print Assumptions C12_closest_none_iff_tie.
Print Assumptions C12_closest_order_independent.
Print Assumptions C12_closest_permutation.
Print Assumptions C12_levenshtein_is_edit_distance.
Print Assumptions C12_levenshtein_zero_iff_equal.
Print Assumptions C12_hamming_is_mismatch_count.
Print Assumptions C12_hamming_zero_iff_equal.
Print Assumptions C12_safety.
Print Assumptions C12_safety_any_hits.
Print Assumptions C12_canonical_read.
Print Assumptions C12_strand_symmetry.
Print Assumptions C12_canonical_read_any_matcher.
Print Assumptions C12_strand_symmetry_any_matcher.
Print Assumptions C12_pair_hits_is_adjacent_pairs.
Print Assumptions C12_pair_hits_consecutive.
Print Assumptions C12_sort_hits_sorted_permutation.
Print Assumptions C12_find_all_spec.
Print Assumptions C12_mismatch_count_spec.
Print Assumptions C12_priming_site_is_reported.
Print Assumptions C12_look_for_tag_spec.
Print Assumptions C12_canonical_read_delimited.
Print Assumptions C12_strand_symmetry_delimited.
Print Assumptions C12_safety_identifies.
Print Assumptions C12_edit_distance_end_independent.
Print Assumptions C12_edit_distance_symmetric.
Print Assumptions C12_hits_from_windows_forward.
Print Assumptions C12_hits_from_windows_reverse.
Print Assumptions C12_canonical_read_windows.
Print Assumptions C12_strand_symmetry_windows.
Print Assumptions C12_rescue_tag_spec.
Print Assumptions C12_rescue_tag_sound.
Print Assumptions C12_canonical_read_rescue.
Print Assumptions C12_strand_symmetry_rescue.
Print Assumptions C12_canonical_rescue_any_matcher.
Print Assumptions C12_perms_are_the_permutations.
Print Assumptions C12_closest_same_on_every_enumerated_order.
Print Assumptions C12_closest_all_orders_case.
Print Assumptions C12_nearest_tag_has_no_distance_bound.
Print Assumptions C12_record_between_spans.
Print Assumptions C12_amplicons_independent.
Print Assumptions C12_amplicon_records_do_not_depend_on_the_other_hits.
Print Assumptions C12_sort_hits_stable.
Print Assumptions C12_canonical_delimited_any_matcher.
Print Assumptions C12_canonical_read_any_extractor.
Print Assumptions C12_strand_symmetry_any_extractor.
Print Assumptions C12_route_partition.
Print Assumptions C12_route_never_loses_an_unflagged_record.
Print Assumptions C12_route_output_unflagged_unless_kept.
Print Assumptions C12_route_file_only_flagged.
Print Assumptions C12_route_flagged_lost_only_by_default.
Print Assumptions C12_command_output_is_identified.
Print Assumptions C12_command_sample_always_on_output.
Print Assumptions C12_per_primer_param_forward.
Print Assumptions C12_per_primer_param_reverse.
Print Assumptions C12_per_primer_param_unknown_primer_ignored.
Print Assumptions C12_per_primer_param_needs_primer_table.
Print Assumptions C12_param_last_line_wins.
Print Assumptions C12_global_param_erases_per_primer_param.
Print Assumptions C12_params_keep_the_primers.
Print Assumptions C12_cli_mismatches_override.
Print Assumptions C12_cli_nonpositive_mismatches_ignored.
Print Assumptions C12_params_marker_order_independent.
