(** C14 — theorems (statements only; proofs are in Proofs.v). *)
From Coq Require Import NArith ZArith List Bool FMapPositive Permutation.
Import ListNotations.
From OBI.C14 Require Import Model Proofs.
Open Scope N_scope.

(** Path: starts at the taxon, ends at a self-looped root, consecutive elements are child/parent
    ([chain]), no repetition — for every taxonomy on which Path returns at all. *)
Theorem C14_path : forall t x p, path t x = Some p ->
  hd_error p = Some x /\ (exists z r, lasto p = Some z /\ get t z = Some (z, r)) /\ chain t p /\ NoDup p.
Proof. exact path_shape. Qed.

(** In a well-formed taxonomy Path returns for every present taxon (fuel = number of nodes + 1 suffices). *)
Theorem C14_path_total : forall t x, wf_tax t -> present t x -> exists p, path t x = Some p.
Proof. exact path_total. Qed.

(** LCA (paths compared from the root end) = the deepest common ancestor-or-self. *)
Theorem C14_lca_is_deepest_common_ancestor : forall t x y, wf_tax t -> present t x -> present t y ->
  exists z, lca t x y = Some z /\ anc t x z /\ anc t y z /\
            (forall w, anc t x w -> anc t y w -> anc t z w) /\
            (forall w pw pz, anc t x w -> anc t y w -> is_path t w pw -> is_path t z pz -> (length pw <= length pz)%nat).
Proof. exact lca_deepest. Qed.

Theorem C14_lca_comm : forall t x y, lca t x y = lca t y x.
Proof. exact lca_comm. Qed.

Theorem C14_lca_idem : forall t x p, path t x = Some p -> lca t x x = Some x.
Proof. exact lca_idem_path. Qed.

Theorem C14_lca_assoc : forall t x y w, wf_tax t -> present t x -> present t y -> present t w ->
  obind (lca t x y) (fun a => lca t a w) = obind (lca t y w) (fun c => lca t x c) /\
  exists b, obind (lca t x y) (fun a => lca t a w) = Some b.
Proof. exact lca_assoc. Qed.

(** IsSubCladeOf / IsBelongingSubclades: membership on the lineage. *)
Theorem C14_subclade_iff_on_path : forall t x p a, path t x = Some p ->
  subclade t x a = Some (mem a p) /\ (mem a p = true <-> In a p).
Proof. exact subclade_spec. Qed.

(** ... equivalently: x belongs to the clade of a iff LCA(x, a) = a. *)
Theorem C14_subclade_iff_lca : forall t x a p, wf_tax t -> present t a -> path t x = Some p ->
  (subclade t x a = Some true <-> lca t x a = Some a).
Proof. exact subclade_iff_lca. Qed.

Theorem C14_belongs_iff_path_meets_set : forall t x p s, path t x = Some p ->
  belongs t x s = Some (existsb (fun y => mem y s) p) /\
  (existsb (fun y => mem y s) p = true <-> exists y, In y p /\ In y s).
Proof. exact belongs_spec. Qed.

(** TaxonAtRank = the first taxon of the lineage with that rank (None if there is none);
    HasRankDefined = such a taxon exists. *)
Theorem C14_at_rank : forall t x p r, path t x = Some p ->
  at_rank t x r = Some (find (has_rank_at t r) p) /\
  has_rank t x r = Some (existsb (has_rank_at t r) p) /\
  (forall z, find (has_rank_at t r) p = Some z <->
     exists l1 l2, p = l1 ++ z :: l2 /\ has_rank_at t r z = true /\ forall y, In y l1 -> has_rank_at t r y = false) /\
  (find (has_rank_at t r) p = None <-> forall y, In y p -> has_rank_at t r y = false).
Proof. exact at_rank_spec. Qed.

(** Aliases: after loading, whatever Taxon(x) returns is a node of the table and resolves to itself;
    a further merged row "old|new" makes the old id designate the node the new id designated and
    changes nothing else.  (Every query of the model goes through [resolve] first, so queries through
    an alias are queries through the new id by construction.) *)
Theorem C14_alias : forall rows merged x n, resolve (load rows merged) x = Some n ->
  present (load rows merged) n /\ resolve (load rows merged) n = Some n.
Proof. exact alias_resolves. Qed.

Theorem C14_alias_row : forall rows merged old new n, let t := load rows merged in
  resolve t new = Some n -> get t old = None ->
  resolve (load rows (merged ++ [(old, new)])) old = Some n /\
  (forall x, x <> old -> resolve (load rows (merged ++ [(old, new)])) x = resolve t x).
Proof. exact alias_row. Qed.

(** The executable check of the hypothesis [wf_tax] (evaluated on every generated taxonomy in the
    correspondence run) is sound. *)
Theorem C14_wf_check_sound : forall t, wf_check t = true -> wf_tax t.
Proof. exact wf_check_sound. Qed.

(** Known finding: a parent cycle is accepted by the loader; Path exhausts any fuel on it (the Go
    loop never returns), no lineage exists and the taxonomy is not well-formed. *)
Theorem C14_path_cycle_out_of_fuel :
  (forall fuel, path_f fuel cycle_tax 2 = None) /\ ~ (exists p, is_path cycle_tax 2 p) /\ ~ wf_tax cycle_tax.
Proof. exact cycle_no_path. Qed.

(** Non-vacuity: an NCBI-like taxonomy with aliases meets every hypothesis used above. *)
Definition ex_tax : tax :=
  load [(1,1,0); (2,1,6); (3,2,3); (4,3,2); (5,4,1); (6,4,1); (7,3,2); (8,7,1)] [(99,7); (98,99); (97,1234)].
Example C14_wf_nonvacuous :
  wf_tax ex_tax /\ present ex_tax 5 /\ path ex_tax 5 = Some [5;4;3;2;1] /\ lca ex_tax 5 8 = Some 3 /\
  resolve ex_tax 98 = Some 7 /\ resolve ex_tax 97 = None /\ at_rank ex_tax 5 2 = Some (Some 4).
Proof. split; [apply wf_check_sound; vm_compute; reflexivity|]. split; [eexists; vm_compute; reflexivity|]. vm_compute. repeat split. Qed.

(** Weighted LCA, threshold 1.0.  (1) list level: the level-by-level descent returns the last element
    of the longest common prefix of the root-first lineages of the taxa of positive weight (or the
    initial answer when there is none); the argmax order is irrelevant. *)
Theorem C14_wl_is_last_of_common_prefix : forall fuel ts tmax, nonneg ts -> (0 < fuel)%nat ->
  (forall e, In e (pos ts) -> (length (fst e) < fuel)%nat) ->
  wl fuel ts tmax = Some (wl_result ts tmax).
Proof. exact wl_spec. Qed.

(** (2) on a well-formed taxonomy, for a distribution node -> weight >= 0 with one positive weight:
    the result z is the taxon whose ancestors-or-self are exactly the common ancestors-or-self of
    the taxa of positive weight, i.e. their LCA (unique by antisymmetry; no mention of any order). *)
Theorem C14_wlca_threshold1_nodes : forall t d, wf_tax t ->
  (forall e, In e d -> present t (fst e) /\ (0 <= snd e)%Z) ->
  (exists e, In e d /\ (0 < snd e)%Z) ->
  forall init, exists z,
    rpaths t d = Some (map (wentry t) d) /\
    wl (S (fuel_of t)) (map (wentry t) d) init = Some (Some z) /\ present t z /\
    forall u, anc t z u <-> forall e, In e d -> (0 < snd e)%Z -> anc t (fst e) u.
Proof. exact wlca_nodes_char. Qed.

(** (3) through TaxonomicDistribution (keys resolved through the alias table), all weights positive
    (merged_taxid counts are >= 1). *)
Theorem C14_wlca_threshold1 : forall t m, wf_tax t -> alias_ok t -> m <> [] ->
  (forall k w, In (k, w) m -> (0 < w)%Z /\ resolve t k <> None) ->
  exists z, wlca t m = Some (Some z) /\ present t z /\
    forall u, anc t z u <-> forall k w, In (k, w) m -> exists x, resolve t k = Some x /\ anc t x u.
Proof. exact wlca_char. Qed.

(** (4) the result does not depend on the order in which the map is iterated *)
Theorem C14_wlca_order_independent : forall t m m', wf_tax t -> alias_ok t -> m <> [] ->
  (forall k w, In (k, w) m -> (0 < w)%Z /\ resolve t k <> None) ->
  Permutation m m' -> wlca t m = wlca t m'.
Proof. exact wlca_perm. Qed.

Theorem C14_loaded_alias_ok : forall rows merged, alias_ok (load rows merged).
Proof. exact load_alias_ok. Qed.

(** Sequence predicates and workers (restrict-to, ignore, require-rank, taxon-at-rank, slot clade):
    they read the lineage p of the taxon the sequence's taxid resolves to ... *)
Theorem C14_predicates : forall t s x p, resolve t (seq_taxid s) = Some x -> path t x = Some p ->
  (forall ids cs, ids <> [] -> resolve_all t ids = Some cs ->
     restrict t s ids = zb (existsb (fun c => mem c p) cs) /\
     ignore t s ids = zb (negb (existsb (fun c => mem c p) cs))) /\
  (forall rs, rs <> [] -> forallb (rank_listed t) rs = true ->
     require t s rs = zb (forallb (fun r => existsb (has_rank_at t r) p) rs)) /\
  (forall r, rank_listed t r = true ->
     atrank_attr t s r = match find (has_rank_at t r) p with Some z => Z.of_N z | None => (-1)%Z end) /\
  (forall c y, s_slot s = Some c -> resolve t c = Some y -> slotsub t s = zb (mem y p)).
Proof. exact predicates_known. Qed.

(** ... and a sequence whose taxid is unknown is not selected by restrict-to / require-rank, is kept
    by ignore, and gets no taxon-at-rank annotation. *)
Theorem C14_predicates_unknown_taxid : forall t s, resolve t (seq_taxid s) = None ->
  (forall ids cs, ids <> [] -> resolve_all t ids = Some cs -> restrict t s ids = 0%Z /\ ignore t s ids = 1%Z) /\
  (forall rs, rs <> [] -> forallb (rank_listed t) rs = true -> require t s rs = 0%Z) /\
  (forall r, rank_listed t r = true -> atrank_attr t s r = (-9)%Z) /\
  (forall c, s_slot s = Some c -> slotsub t s = 0%Z).
Proof. exact predicates_unknown. Qed.

(** Names (after the AddNewName fix): IsNameEqual holds exactly for the scientific name and for every
    alternate name listed in names.dmp for that taxon - the first one included. *)
Theorem C14_names_found : forall rows x n sn, sci_name rows x = Some sn ->
  (name_equal rows x n = Some true <-> (sn = n \/ In (x, n, false) rows)).
Proof. exact names_found. Qed.

Example C14_wlca_nonvacuous :
  let m := [(5, 2%Z); (8, 1%Z); (99, 4%Z)] in
  m <> [] /\ (forall k w, In (k, w) m -> (0 < w)%Z /\ resolve ex_tax k <> None) /\ alias_ok ex_tax /\
  wlca ex_tax m = Some (Some 3) /\ wlca ex_tax [(6, 1%Z); (5, 3%Z)] = Some (Some 4).
Proof.
  split; [discriminate|]. split.
  - intros k w [H|[H|[H|[]]]]; inversion H; subst; split; try reflexivity; vm_compute; discriminate.
  - split; [apply load_alias_ok|]. vm_compute. split; reflexivity.
Qed.

Print Assumptions C14_path.
Print Assumptions C14_path_total.
Print Assumptions C14_lca_is_deepest_common_ancestor.
Print Assumptions C14_lca_comm.
Print Assumptions C14_lca_idem.
Print Assumptions C14_lca_assoc.
Print Assumptions C14_subclade_iff_on_path.
Print Assumptions C14_belongs_iff_path_meets_set.
Print Assumptions C14_at_rank.
Print Assumptions C14_alias.
Print Assumptions C14_alias_row.
Print Assumptions C14_wf_check_sound.
Print Assumptions C14_path_cycle_out_of_fuel.
Print Assumptions C14_wl_is_last_of_common_prefix.
Print Assumptions C14_wlca_threshold1_nodes.
Print Assumptions C14_wlca_threshold1.
Print Assumptions C14_wlca_order_independent.
Print Assumptions C14_loaded_alias_ok.
Print Assumptions C14_predicates.
Print Assumptions C14_predicates_unknown_taxid.
Print Assumptions C14_names_found.
Print Assumptions C14_subclade_iff_lca.
