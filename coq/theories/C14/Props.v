(** C14 — theorems (statements only; proofs are in Proofs.v). *)
From Coq Require Import NArith ZArith List Bool FMapPositive Permutation Floats.SpecFloat.
Import ListNotations.
From OBI.C14 Require Import Model Proofs.
Open Scope N_scope.

(** Path: starts at the taxon, ends at a self-looped root, consecutive elements are child/parent
    ([chain]), no repetition — for every taxonomy on which Path returns at all. *)
Theorem C14_path : forall t x p, path t x = Some p ->
  hd_error p = Some x /\ (exists z r, lasto p = Some z /\ get t z = Some (z, r)) /\ chain t p /\ NoDup p.
Proof. exact path_shape. Qed.

(** In a well-formed taxonomy Path returns for every present taxon (fuel = number of nodes + 1 suffices). *)
Theorem C14_path_total : forall t x, wf_tax t -> present t x -> exists p, path t x = Some p.
Proof. exact path_total. Qed.

(** LCA (paths compared from the root end) = the deepest common ancestor-or-self. *)
Theorem C14_lca_is_deepest_common_ancestor : forall t x y, wf_tax t -> present t x -> present t y ->
  exists z, lca t x y = Some z /\ anc t x z /\ anc t y z /\
            (forall w, anc t x w -> anc t y w -> anc t z w) /\
            (forall w pw pz, anc t x w -> anc t y w -> is_path t w pw -> is_path t z pz -> (length pw <= length pz)%nat).
Proof. exact lca_deepest. Qed.

Theorem C14_lca_comm : forall t x y, lca t x y = lca t y x.
Proof. exact lca_comm. Qed.

Theorem C14_lca_idem : forall t x p, path t x = Some p -> lca t x x = Some x.
Proof. exact lca_idem_path. Qed.

Theorem C14_lca_assoc : forall t x y w, wf_tax t -> present t x -> present t y -> present t w ->
  obind (lca t x y) (fun a => lca t a w) = obind (lca t y w) (fun c => lca t x c) /\
  exists b, obind (lca t x y) (fun a => lca t a w) = Some b.
Proof. exact lca_assoc. Qed.

(** IsSubCladeOf / IsBelongingSubclades: membership on the lineage. *)
Theorem C14_subclade_iff_on_path : forall t x p a, path t x = Some p ->
  subclade t x a = Some (mem a p) /\ (mem a p = true <-> In a p).
Proof. exact subclade_spec. Qed.

(** ... equivalently: x belongs to the clade of a iff LCA(x, a) = a. *)
Theorem C14_subclade_iff_lca : forall t x a p, wf_tax t -> present t a -> path t x = Some p ->
  (subclade t x a = Some true <-> lca t x a = Some a).
Proof. exact subclade_iff_lca. Qed.

Theorem C14_belongs_iff_path_meets_set : forall t x p s, path t x = Some p ->
  belongs t x s = Some (existsb (fun y => mem y s) p) /\
  (existsb (fun y => mem y s) p = true <-> exists y, In y p /\ In y s).
Proof. exact belongs_spec. Qed.

(** TaxonAtRank = the first taxon of the lineage with that rank (None if there is none);
    HasRankDefined = such a taxon exists. *)
Theorem C14_at_rank : forall t x p r, path t x = Some p ->
  at_rank t x r = Some (find (has_rank_at t r) p) /\
  has_rank t x r = Some (existsb (has_rank_at t r) p) /\
  (forall z, find (has_rank_at t r) p = Some z <->
     exists l1 l2, p = l1 ++ z :: l2 /\ has_rank_at t r z = true /\ forall y, In y l1 -> has_rank_at t r y = false) /\
  (find (has_rank_at t r) p = None <-> forall y, In y p -> has_rank_at t r y = false).
Proof. exact at_rank_spec. Qed.

(** Aliases: after loading, whatever Taxon(x) returns is a node of the table and resolves to itself;
    a further merged row "old|new" makes the old id designate the node the new id designated and
    changes nothing else.  (Every query of the model goes through [resolve] first, so queries through
    an alias are queries through the new id by construction.) *)
Theorem C14_alias : forall rows merged x n, resolve (load rows merged) x = Some n ->
  present (load rows merged) n /\ resolve (load rows merged) n = Some n.
Proof. exact alias_resolves. Qed.

Theorem C14_alias_row : forall rows merged old new n, let t := load rows merged in
  resolve t new = Some n -> get t old = None ->
  resolve (load rows (merged ++ [(old, new)])) old = Some n /\
  (forall x, x <> old -> resolve (load rows (merged ++ [(old, new)])) x = resolve t x).
Proof. exact alias_row. Qed.

(** The executable check of the hypothesis [wf_tax] (evaluated on every generated taxonomy in the
    correspondence run) is sound. *)
Theorem C14_wf_check_sound : forall t, wf_check t = true -> wf_tax t.
Proof. exact wf_check_sound. Qed.

(** Known finding: a parent cycle is accepted by the loader; Path exhausts any fuel on it (the Go
    loop never returns), no lineage exists and the taxonomy is not well-formed. *)
Theorem C14_path_cycle_out_of_fuel :
  (forall fuel, path_f fuel cycle_tax 2 = None) /\ ~ (exists p, is_path cycle_tax 2 p) /\ ~ wf_tax cycle_tax.
Proof. exact cycle_no_path. Qed.

(** Non-vacuity: an NCBI-like taxonomy with aliases meets every hypothesis used above. *)
Definition ex_tax : tax :=
  load [(1,1,0); (2,1,6); (3,2,3); (4,3,2); (5,4,1); (6,4,1); (7,3,2); (8,7,1)] [(99,7); (98,99); (97,1234)].
Example C14_wf_nonvacuous :
  wf_tax ex_tax /\ present ex_tax 5 /\ path ex_tax 5 = Some [5;4;3;2;1] /\ lca ex_tax 5 8 = Some 3 /\
  resolve ex_tax 98 = Some 7 /\ resolve ex_tax 97 = None /\ at_rank ex_tax 5 2 = Some (Some 4).
Proof. split; [apply wf_check_sound; vm_compute; reflexivity|]. split; [eexists; vm_compute; reflexivity|]. vm_compute. repeat split. Qed.

(** Weighted LCA, threshold 1.0.  (1) list level: the level-by-level descent returns the last element
    of the longest common prefix of the root-first lineages of the taxa of positive weight (or the
    initial answer when there is none); the argmax order is irrelevant. *)
Theorem C14_wl_is_last_of_common_prefix : forall fuel ts tmax, nonneg ts -> (0 < fuel)%nat ->
  (forall e, In e (pos ts) -> (length (fst e) < fuel)%nat) ->
  wl fuel ts tmax = Some (wl_result ts tmax).
Proof. exact wl_spec. Qed.

(** (2) on a well-formed taxonomy, for a distribution node -> weight >= 0 with one positive weight:
    the result z is the taxon whose ancestors-or-self are exactly the common ancestors-or-self of
    the taxa of positive weight, i.e. their LCA (unique by antisymmetry; no mention of any order). *)
Theorem C14_wlca_threshold1_nodes : forall t d, wf_tax t ->
  (forall e, In e d -> present t (fst e) /\ (0 <= snd e)%Z) ->
  (exists e, In e d /\ (0 < snd e)%Z) ->
  forall init, exists z,
    rpaths t d = Some (map (wentry t) d) /\
    wl (S (fuel_of t)) (map (wentry t) d) init = Some (Some z) /\ present t z /\
    forall u, anc t z u <-> forall e, In e d -> (0 < snd e)%Z -> anc t (fst e) u.
Proof. exact wlca_nodes_char. Qed.

(** (3) through TaxonomicDistribution (keys resolved through the alias table), all weights positive
    (merged_taxid counts are >= 1). *)
Theorem C14_wlca_threshold1 : forall t m, wf_tax t -> alias_ok t -> m <> [] ->
  (forall k w, In (k, w) m -> (0 < w)%Z /\ resolve t k <> None) ->
  exists z, wlca t m = Some (Some z) /\ present t z /\
    forall u, anc t z u <-> forall k w, In (k, w) m -> exists x, resolve t k = Some x /\ anc t x u.
Proof. exact wlca_char. Qed.

(** (4) the result does not depend on the order in which the map is iterated *)
Theorem C14_wlca_order_independent : forall t m m', wf_tax t -> alias_ok t -> m <> [] ->
  (forall k w, In (k, w) m -> (0 < w)%Z /\ resolve t k <> None) ->
  Permutation m m' -> wlca t m = wlca t m'.
Proof. exact wlca_perm. Qed.

Theorem C14_loaded_alias_ok : forall rows merged, alias_ok (load rows merged).
Proof. exact load_alias_ok. Qed.

(** Sequence predicates and workers (restrict-to, ignore, require-rank, taxon-at-rank, slot clade):
    they read the lineage p of the taxon the sequence's taxid resolves to ... *)
Theorem C14_predicates : forall t s x p, resolve t (seq_taxid s) = Some x -> path t x = Some p ->
  (forall ids cs, ids <> [] -> resolve_all t ids = Some cs ->
     restrict t s ids = zb (existsb (fun c => mem c p) cs) /\
     ignore t s ids = zb (negb (existsb (fun c => mem c p) cs))) /\
  (forall rs, rs <> [] -> forallb (rank_listed t) rs = true ->
     require t s rs = zb (forallb (fun r => existsb (has_rank_at t r) p) rs)) /\
  (forall r, rank_listed t r = true ->
     atrank_attr t s r = match find (has_rank_at t r) p with Some z => Z.of_N z | None => (-1)%Z end) /\
  (forall c y, s_slot s = Some c -> taxon_of t c = Some y -> slotsub t s = zb (mem y p)).
Proof. exact predicates_known. Qed.

(** ... and a sequence whose taxid is unknown is not selected by restrict-to / require-rank, is kept
    by ignore, and gets no taxon-at-rank annotation. *)
Theorem C14_predicates_unknown_taxid : forall t s, resolve t (seq_taxid s) = None ->
  (forall ids cs, ids <> [] -> resolve_all t ids = Some cs -> restrict t s ids = 0%Z /\ ignore t s ids = 1%Z) /\
  (forall rs, rs <> [] -> forallb (rank_listed t) rs = true -> require t s rs = 0%Z) /\
  (forall r, rank_listed t r = true -> atrank_attr t s r = (-9)%Z) /\
  (forall c, s_slot s = Some c -> slotsub t s = 0%Z).
Proof. exact predicates_unknown. Qed.

(** Names (after the AddNewName fix): IsNameEqual holds exactly for the scientific name and for every
    alternate name listed in names.dmp for that taxon - the first one included. *)
Theorem C14_names_found : forall rows x n sn, sci_name rows x = Some sn ->
  (name_equal rows x n = Some true <-> (sn = n \/ exists c, In (x, n, c) rows /\ beqb c sci_class = false)).
Proof. exact names_found. Qed.

Example C14_wlca_nonvacuous :
  let m := [(5, 2%Z); (8, 1%Z); (99, 4%Z)] in
  m <> [] /\ (forall k w, In (k, w) m -> (0 < w)%Z /\ resolve ex_tax k <> None) /\ alias_ok ex_tax /\
  wlca ex_tax m = Some (Some 3) /\ wlca ex_tax [(6, 1%Z); (5, 3%Z)] = Some (Some 4).
Proof.
  split; [discriminate|]. split.
  - intros k w [H|[H|[H|[]]]]; inversion H; subst; split; try reflexivity; vm_compute; discriminate.
  - split; [apply load_alias_ok|]. vm_compute. split; reflexivity.
Qed.

(** * Round 2 *)

(** ** Taxonomy.LCA(sequence, threshold) for ANY threshold and ANY arithmetic of rmax ([score]: IEEE binary64 [sc_b64 thr],
    exact rationals [sc_q n d], or threshold 1.0 [sc_one]).  [wld_all] = every outcome the Go loop can produce (taxonMax is
    whichever maximal key of the level map is met first), [wld] = the run that takes the first maximum in list order. *)

(** weighMax is the maximum of the level table and the taxon picked reaches it *)
Theorem C14_maxw_is_the_level_maximum : forall ts, is_maxw ts (maxw ts) /\
  match pick ts with None => maxw ts = 0%Z | Some h => In h (heads ts) /\ head_weight h ts = maxw ts /\ (0 < maxw ts)%Z end.
Proof. exact maxw_is. Qed.

Theorem C14_wld_first_is_possible : forall R (sc : score R) fuel ts r tmax l, wld_all sc fuel ts r tmax = Some l ->
  exists x, wld sc fuel ts r tmax = Some x /\ In x l.
Proof. exact wld_in_all. Qed.

(** no level whose cumulated share passes the threshold has two maximal children => exactly one possible outcome *)
Theorem C14_wld_single_outcome_without_passing_tie : forall R (sc : score R) fuel ts r tmax, notie sc fuel ts r = true ->
  wld_all sc fuel ts r tmax = option_map (fun x => [x]) (wld sc fuel ts r tmax).
Proof. exact notie_single. Qed.

(** the SET of possible outcomes is independent of the iteration order of the maps (list level) ... *)
Theorem C14_wld_outcomes_order_independent : forall R (sc : score R) fuel ts ts' r tmax, Permutation ts ts' ->
  match wld_all sc fuel ts r tmax, wld_all sc fuel ts' r tmax with
  | Some l, Some l' => forall x, In x l <-> In x l'
  | None, None => True
  | _, _ => False
  end.
Proof. exact wld_all_perm. Qed.

(** ... and at the level of the merged_taxid map of a sequence (keys resolved through aliases, weights of one taxon added) *)
Theorem C14_wlcad_outcomes_order_independent : forall R (sc : score R) t m m', wf_tax t -> Permutation m m' ->
  match wlcad sc t m, wlcad sc t m' with
  | Some l, Some l' => forall x, In x l <-> In x l'
  | None, None => True
  | _, _ => False
  end.
Proof. exact wlcad_perm. Qed.

(** hence: without a passing tie the answer (and rans) does not depend on the iteration order, for any threshold *)
Theorem C14_wlca_order_independent_without_passing_tie : forall R (sc : score R) t m m', wf_tax t -> Permutation m m' ->
  wlca_notie sc t m = true -> wlcad1 sc t m = wlcad1 sc t m'.
Proof. exact wlcad1_perm_notie. Qed.

(** with exact arithmetic and a threshold above one half a tie can never pass (two maximal children carry at most half
    each): the answer is a function of the set of (taxid, count) pairs for EVERY input with counts >= 0 *)
Theorem C14_wlca_rational_above_half_order_independent : forall tn td t m m', wf_tax t -> (0 < td)%Z -> (td < 2 * tn)%Z ->
  (forall k w, In (k, w) m -> (0 <= w)%Z) -> Permutation m m' ->
  wlcad1 (sc_q tn td) t m = wlcad1 (sc_q tn td) t m'.
Proof. exact wlca_q_above_half_perm. Qed.

(** at one half and below the answer does depend on the order: the witness observed on the real code (4 or 8) *)
Theorem C14_wlca_order_independence_at_half_refuted :
  Permutation [(5, 1%Z); (6, 1%Z); (8, 2%Z)] [(8, 2%Z); (5, 1%Z); (6, 1%Z)] /\
  option_map fst (wlcad1 (sc_q 1 2) tie_tax [(5, 1%Z); (6, 1%Z); (8, 2%Z)]) = Some (Some 4) /\
  option_map fst (wlcad1 (sc_q 1 2) tie_tax [(8, 2%Z); (5, 1%Z); (6, 1%Z)]) = Some (Some 8) /\
  option_map fst (wlcad1 (sc_b64 b64_half) tie_tax [(5, 1%Z); (6, 1%Z); (8, 2%Z)]) = Some (Some 4) /\
  option_map fst (wlcad1 (sc_b64 b64_half) tie_tax [(8, 2%Z); (5, 1%Z); (6, 1%Z)]) = Some (Some 8) /\
  option_map (map (fun x : option N * spec_float * Z => fst (fst x))) (wlcad (sc_b64 b64_half) tie_tax [(5, 1%Z); (6, 1%Z); (8, 2%Z)]) = Some [Some 4; Some 8] /\
  wlca_notie (sc_q 1 2) tie_tax [(5, 1%Z); (6, 1%Z); (8, 2%Z)] = false.
Proof. exact tie_order_dependent. Qed.

(** ** Characterisation of the descent (threshold > 0: a null share fails the test), for any arithmetic of rmax.
    (1) on the trie of the root-first lineages: at the prefix [pi] the share is (heaviest continuation of pi) / (weight of the
    lineages comparable with pi); while the cumulated share passes, go to A heaviest continuation. *)
Theorem C14_wld_outcomes_walk_the_trie : forall R (sc : score R) ts0 (Inv : R -> Prop),
  Inv (s_zero sc) -> (forall r w tt, Inv r -> (0 <= w)%Z -> (0 < tt)%Z -> Inv (s_mul sc r w tt)) ->
  s_ge sc (s_zero sc) = false -> (forall r tt, Inv r -> (0 < tt)%Z -> s_ge sc (s_mul sc r 0%Z tt) = false) ->
  forall fuel pi r tmax l, Inv r -> wld_all sc fuel (st pi ts0) r tmax = Some l ->
  forall x, In x l -> trie_desc R sc ts0 pi r tmax x.
Proof. exact wld_all_trie. Qed.

(** (2) on the TREE of a well-formed taxonomy: every outcome is the initial answer (first test fails) or an outcome of
    [tree_desc] from the root: at taxon a, M = the heaviest clade weight among the children of a, share = M / (weight of the
    merged taxa that are in the clade of a or on its lineage); while rmax * share >= threshold go down to A child of weight M *)
Theorem C14_wlca_descent_on_tree : forall R (sc : score R) (Inv : R -> Prop) t d, wf_tax t -> (forall e, In e d -> present t (fst e)) ->
  Inv (s_zero sc) -> (forall r w tt, Inv r -> (0 <= w)%Z -> (0 < tt)%Z -> Inv (s_mul sc r w tt)) ->
  s_ge sc (s_zero sc) = false -> (forall r tt, Inv r -> (0 < tt)%Z -> s_ge sc (s_mul sc r 0%Z tt) = false) ->
  forall fuel r0 tmax l, Inv r0 -> wld_all sc fuel (map (wentry t) d) r0 tmax = Some l -> forall x, In x l ->
    x = (tmax, r0) \/
    exists root rk, get t root = Some (root, rk) /\ (0 < wsumf (fun _ => true) d)%Z /\
       tree_desc R sc t d root (s_mul sc r0 (wsumf (fun _ => true) d) (wsumf (fun _ => true) d)) x.
Proof. exact wlca_descent_on_tree. Qed.

(** unconditional instances: exact rationals with any positive threshold tn/td; threshold 1.0 *)
Theorem C14_wlca_descent_on_tree_rational : forall tn td t d, (0 < tn)%Z -> (0 < td)%Z -> wf_tax t -> (forall e, In e d -> present t (fst e)) ->
  forall fuel tmax l, wld_all (sc_q tn td) fuel (map (wentry t) d) (1, 1)%Z tmax = Some l -> forall x, In x l ->
    x = (tmax, (1, 1)%Z) \/
    exists root rk, get t root = Some (root, rk) /\ (0 < wsumf (fun _ => true) d)%Z /\
       tree_desc _ (sc_q tn td) t d root (s_mul (sc_q tn td) (1, 1)%Z (wsumf (fun _ => true) d) (wsumf (fun _ => true) d)) x.
Proof. exact wlca_descent_on_tree_q. Qed.

Theorem C14_wlca_descent_on_tree_threshold1 : forall t d, wf_tax t -> (forall e, In e d -> present t (fst e)) ->
  forall fuel tmax l, wld_all sc_one fuel (map (wentry t) d) true tmax = Some l -> forall x, In x l ->
    x = (tmax, true) \/
    exists root rk, get t root = Some (root, rk) /\ (0 < wsumf (fun _ => true) d)%Z /\
       tree_desc _ sc_one t d root (s_mul sc_one true (wsumf (fun _ => true) d) (wsumf (fun _ => true) d)) x.
Proof. exact wlca_descent_on_tree_one. Qed.

(** the two hypotheses hold e.g. for the threshold-1.0 arithmetic; the clade weights read the tree *)
Example C14_descent_hypotheses_nonvacuous :
  s_ge sc_one (s_zero sc_one) = false /\ (forall r tt, (0 < tt)%Z -> s_ge sc_one (s_mul sc_one r 0%Z tt) = false) /\
  cladew tie_tax [(5, 1%Z); (6, 1%Z); (8, 2%Z)] 4 = 2%Z /\ compw tie_tax [(5, 1%Z); (6, 1%Z); (8, 2%Z); (3, 7%Z)] 4 = 9%Z.
Proof.
  split; [reflexivity|]. split; [|vm_compute; split; reflexivity].
  intros r tt H. simpl. destruct tt; try discriminate; try reflexivity. apply andb_false_r.
Qed.

(** a threshold that every score passes (<= 0, i.e. --lca-error >= 1): the loop never exits *)
Theorem C14_wld_never_returns_when_every_score_passes : forall R (sc : score R), (forall r, s_ge sc r = true) ->
  forall fuel ts r tmax, wld sc fuel ts r tmax = None.
Proof. exact wld_diverges. Qed.

(** threshold 1.0 (the round-1 model [wlca]) is the instance [sc_one]; there no tie passes, so for all counts >= 0
    (zero counts included - they do not count) the answer is independent of the order *)
Theorem C14_wlca_threshold1_is_instance : forall t m, wlca t m = option_map fst (wlcad1 sc_one t m).
Proof. exact wlca_is_wlcad1_one. Qed.

Theorem C14_wlca_threshold1_order_independent_nonneg : forall t m m', wf_tax t -> (forall k w, In (k, w) m -> (0 <= w)%Z) ->
  Permutation m m' -> wlca t m = wlca t m'.
Proof. exact wlca_perm_nonneg. Qed.

(** ... and it is the LCA of the taxa designated by a key of POSITIVE count (zero counts do not count; aliases add up) *)
Theorem C14_wlca_threshold1_nonneg : forall t m, wf_tax t -> alias_ok t ->
  (forall k w, In (k, w) m -> (0 <= w)%Z /\ resolve t k <> None) -> (exists k w, In (k, w) m /\ (0 < w)%Z) ->
  exists z, wlca t m = Some (Some z) /\ present t z /\
    forall u, anc t z u <-> forall k w, In (k, w) m -> (0 < w)%Z -> exists x, resolve t k = Some x /\ anc t x u.
Proof. exact wlca_char_nonneg. Qed.

(** TaxonomicDistribution: node x weighs the sum of the counts of the keys designating x (after the fix) *)
Theorem C14_distribution_sums_aliases : forall t m d, distribution t m [] = Some d ->
  NoDup (map fst d) /\
  (forall x, In x (map fst d) <-> exists k w0, In (k, w0) m /\ resolve t k = Some x) /\
  (forall x, accw d x = wsum t m x).
Proof. exact distribution_sums. Qed.

(** before the fix (overwrite) the LCA at threshold 1.0 of {alias of 7: 0, 7: 1, 5: 2} followed the iteration order *)
Theorem C14_distribution_overwrite_refuted :
  wlca_ow tie_tax [(99, 0%Z); (7, 1%Z); (5, 2%Z)] = Some (Some 3) /\
  wlca_ow tie_tax [(7, 1%Z); (99, 0%Z); (5, 2%Z)] = Some (Some 5) /\
  wlca tie_tax [(99, 0%Z); (7, 1%Z); (5, 2%Z)] = Some (Some 3) /\
  wlca tie_tax [(7, 1%Z); (99, 0%Z); (5, 2%Z)] = Some (Some 3) /\
  option_map (map snd) (wlcad sc_one tie_tax [(99, 4%Z); (7, 1%Z); (5, 2%Z)]) = Some [7%Z].
Proof. exact overwrite_order_dependent. Qed.

(** ** Rows outside the tree (e.g. a dangling parent id) do not change any answer about the taxa of the tree *)
Theorem C14_rows_outside_tree_harmless : forall t t' x p, extends t t' -> path t x = Some p ->
  path t' x = Some p /\
  (forall y q, path t y = Some q -> lca t' x y = lca t x y) /\
  (forall a, subclade t' x a = subclade t x a) /\
  (forall s, belongs t' x s = belongs t x s) /\
  (forall r, at_rank t' x r = at_rank t x r /\ has_rank t' x r = has_rank t x r).
Proof. exact extends_queries. Qed.

Theorem C14_load_extra_rows_extends : forall rows extra merged merged',
  (forall row, In row extra -> get (load rows merged) (fst (fst row)) = None) ->
  extends (load rows merged) (load (rows ++ extra) merged').
Proof. exact load_extends. Qed.

(** ** Taxonomy.Taxon(interface{}): "n", "+n", "...TX:n..." (first match) and the int n designate the same taxon;
    any other dynamic type is looked up as taxid 0 *)
Theorem C14_taxon_forms_agree : forall t d, all_digits d = true -> (digits_val 0 d < int_lim)%Z ->
  taxon_of t (FStr d) = taxon_of t (FInt (digits_val 0 d)) /\
  taxon_of t (FStr (43 :: d)) = taxon_of t (FInt (digits_val 0 d)) /\
  (forall pre suf, (forall c, In c pre -> c <> 84) -> (match suf with [] => True | c :: _ => is_digit c = false end) ->
     taxon_of t (FStr (pre ++ 84 :: 88 :: 58 :: d ++ suf)) = taxon_of t (FInt (digits_val 0 d))) /\
  taxon_of t FOther = resolve t 0.
Proof. exact forms_agree. Qed.

(** ** Names on byte strings: IsNameMatching for any regexp oracle; the scientific name is the last such row *)
Theorem C14_names_matching : forall (P : Type) (rm : P -> bstr -> bool) rows x pat sn, sci_name rows x = Some sn ->
  (name_matching rm rows x pat = Some true <->
   (rm pat sn = true \/ exists n c, In (x, n, c) rows /\ beqb c sci_class = false /\ rm pat n = true)).
Proof. exact names_matching. Qed.

Theorem C14_scientific_name_is_last_row : forall rows x,
  match sci_name rows x with
  | Some sn => exists l1 l2 c, rows = l1 ++ (x, sn, c) :: l2 /\ beqb c sci_class = true /\
                               forall r, In r l2 -> (is_sci r && (fst (fst r) =? x))%bool = false
  | None => forall r, In r rows -> (is_sci r && (fst (fst r) =? x))%bool = false
  end.
Proof. exact sci_name_last. Qed.

(** a names.dmp line in the NCBI layout is read back as (taxid, name, class); the unique-name column is never read *)
Theorem C14_names_line_parsed : forall d name uniq class,
  all_digits d = true -> (digits_val 0 d < int_lim)%Z -> no_bar name -> no_bar uniq -> no_bar class -> tight name -> tight class ->
  parse_name_line (d ++ [9] ++ 124 :: ([9] ++ name ++ [9]) ++ 124 :: ([9] ++ uniq ++ [9]) ++ 124 :: ([9] ++ class ++ [9]) ++ 124 :: [])
  = Some (digits_val 0 d, name, class).
Proof. exact parse_name_line_ncbi. Qed.

Example C14_round2_nonvacuous :
  wf_tax tie_tax /\ wlca_notie (sc_b64 b64_half) tie_tax [(5, 2%Z); (8, 1%Z)] = true /\
  option_map fst (wlcad1 (sc_b64 b64_half) tie_tax [(5, 2%Z); (8, 1%Z)]) = Some (Some 5) /\
  all_digits [49;50] = true /\ taxon_of tie_tax (FStr [120;32;84;88;58;57;56;32]) = Some 7 /\
  extends (load [(1,1,0); (2,1,1)] []) (load ([(1,1,0); (2,1,1)] ++ [(9,77,1)]) []).
Proof.
  split; [apply wf_check_sound; vm_compute; reflexivity|]. split; [vm_compute; reflexivity|]. split; [vm_compute; reflexivity|].
  split; [reflexivity|]. split; [vm_compute; reflexivity|]. apply load_extends. intros row [<-|[]]. vm_compute. reflexivity.
Qed.

Print Assumptions C14_path.
Print Assumptions C14_path_total.
Print Assumptions C14_lca_is_deepest_common_ancestor.
Print Assumptions C14_lca_comm.
Print Assumptions C14_lca_idem.
Print Assumptions C14_lca_assoc.
Print Assumptions C14_subclade_iff_on_path.
Print Assumptions C14_belongs_iff_path_meets_set.
Print Assumptions C14_at_rank.
Print Assumptions C14_alias.
Print Assumptions C14_alias_row.
Print Assumptions C14_wf_check_sound.
Print Assumptions C14_path_cycle_out_of_fuel.
Print Assumptions C14_wl_is_last_of_common_prefix.
Print Assumptions C14_wlca_threshold1_nodes.
Print Assumptions C14_wlca_threshold1.
Print Assumptions C14_wlca_order_independent.
Print Assumptions C14_loaded_alias_ok.
Print Assumptions C14_predicates.
Print Assumptions C14_predicates_unknown_taxid.
Print Assumptions C14_names_found.
Print Assumptions C14_subclade_iff_lca.
Print Assumptions C14_maxw_is_the_level_maximum.
Print Assumptions C14_wld_first_is_possible.
Print Assumptions C14_wld_single_outcome_without_passing_tie.
Print Assumptions C14_wld_outcomes_order_independent.
Print Assumptions C14_wlcad_outcomes_order_independent.
Print Assumptions C14_wlca_order_independent_without_passing_tie.
Print Assumptions C14_wlca_rational_above_half_order_independent.
Print Assumptions C14_wlca_order_independence_at_half_refuted.
Print Assumptions C14_wld_never_returns_when_every_score_passes.
Print Assumptions C14_wlca_threshold1_is_instance.
Print Assumptions C14_wlca_threshold1_order_independent_nonneg.
Print Assumptions C14_distribution_sums_aliases.
Print Assumptions C14_distribution_overwrite_refuted.
Print Assumptions C14_rows_outside_tree_harmless.
Print Assumptions C14_load_extra_rows_extends.
Print Assumptions C14_taxon_forms_agree.
Print Assumptions C14_names_matching.
Print Assumptions C14_scientific_name_is_last_row.
Print Assumptions C14_wld_outcomes_walk_the_trie.
Print Assumptions C14_wlca_descent_on_tree.
Print Assumptions C14_wlca_threshold1_nonneg.
Print Assumptions C14_names_line_parsed.
Print Assumptions C14_wlca_descent_on_tree_rational.
Print Assumptions C14_wlca_descent_on_tree_threshold1.
