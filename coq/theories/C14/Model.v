(** C14 — executable model of pkg/obitax (taxonomy queries) and of the row semantics of
    ncbitaxdump.LoadNCBITaxDump.  Definitions only (no proofs).

    A taxonomy is a finite map taxid -> (parent taxid, rank code) plus an alias map
    old taxid -> node taxid (stdlib PositiveMap keyed by [N.succ_pos taxid]; the theorems only use
    [get]/[get_alias]).  Rank labels are abstracted to codes (only equality matters).
    Loops of the Go code that walk the parent pointers are modelled with explicit fuel
    (number of nodes + 1); [None] = the Go code does not return a value there (nil parent pointer,
    index out of range, or no termination on a parent cycle) — never a normal-looking default. *)
From Coq Require Import NArith ZArith List Bool FMapPositive.
Import ListNotations.
Open Scope N_scope.

Module PM := PositiveMap.

Record tax := mkTax { t_nodes : PM.t (N * N); t_alias : PM.t N }.

Definition key (x : N) : positive := N.succ_pos x.
Definition get (t : tax) (x : N) : option (N * N) := PM.find (key x) (t_nodes t).
Definition get_alias (t : tax) (x : N) : option N := PM.find (key x) (t_alias t).

(** Taxonomy.Taxon: the node table first, then the alias table. *)
Definition resolve (t : tax) (x : N) : option N :=
  match get t x with Some _ => Some x | None => get_alias t x end.

(** loadNodeTable: AddNewTaxa(..., replace = true): a later row replaces an earlier one. *)
Definition load_nodes (rows : list (N * N * N)) : PM.t (N * N) :=
  fold_left (fun m (row : N * N * N) => let '(x, p, r) := row in PM.add (key x) (p, r) m) rows (PM.empty _).

(** loadMergedTable / AddNewAlias(new, old): the new id is itself resolved through Taxon at that
    moment (nodes, then the aliases read so far); an unknown new id is silently skipped. *)
Definition add_alias (t : tax) (on : N * N) : tax :=
  let '(old, new) := on in
  match resolve t new with
  | Some n => mkTax (t_nodes t) (PM.add (key old) n (t_alias t))
  | None => t
  end.

Definition load (rows : list (N * N * N)) (merged : list (N * N)) : tax :=
  fold_left add_alias merged (mkTax (load_nodes rows) (PM.empty _)).

Definition fuel_of (t : tax) : nat := S (PM.cardinal (t_nodes t)).

(** TaxNode.Path: append the taxon, follow pparent until the self-looped root. *)
Fixpoint path_f (fuel : nat) (t : tax) (x : N) : option (list N) :=
  match fuel with
  | O => None
  | S f =>
    match get t x with
    | None => None
    | Some (p, _) => if p =? x then Some [x] else option_map (cons x) (path_f f t p)
    end
  end.
Definition path (t : tax) (x : N) : option (list N) := path_f (fuel_of t) t x.

(** TaxNode.LCA: the two paths are compared from the root end while equal; the last equal
    element is returned (index out of range if the two roots differ). *)
Fixpoint cpre (r1 r2 : list N) : list N :=
  match r1, r2 with
  | a :: r1', b :: r2' => if a =? b then a :: cpre r1' r2' else []
  | _, _ => []
  end.
Fixpoint lasto (l : list N) : option N :=
  match l with
  | [] => None
  | a :: l' => match l' with [] => Some a | _ => lasto l' end
  end.
Definition lca_paths (p1 p2 : list N) : option N := lasto (cpre (rev p1) (rev p2)).
Definition lca (t : tax) (x y : N) : option N :=
  match path t x, path t y with
  | Some p1, Some p2 => lca_paths p1 p2
  | _, _ => None
  end.

(** TaxNode.IsSubCladeOf(parent): walk up until the taxid is found or the root is reached. *)
Fixpoint subclade_f (fuel : nat) (t : tax) (x a : N) : option bool :=
  match fuel with
  | O => None
  | S f =>
    if x =? a then Some true else
    match get t x with
    | None => None
    | Some (p, _) => if p =? x then Some false else subclade_f f t p a
    end
  end.
Definition subclade (t : tax) (x a : N) : option bool := subclade_f (fuel_of t) t x a.

Definition mem (x : N) (l : list N) : bool := existsb (N.eqb x) l.

(** TaxNode.IsBelongingSubclades(set). *)
Fixpoint belongs_f (fuel : nat) (t : tax) (x : N) (s : list N) : option bool :=
  match fuel with
  | O => None
  | S f =>
    if mem x s then Some true else
    match get t x with
    | None => None
    | Some (p, _) => if p =? x then Some false else belongs_f f t p s
    end
  end.
Definition belongs (t : tax) (x : N) (s : list N) : option bool := belongs_f (fuel_of t) t x s.

(** TaxNode.TaxonAtRank(rank): first taxon with that rank on the way up; nil if the root is
    reached without one. *)
Fixpoint at_rank_f (fuel : nat) (t : tax) (x r : N) : option (option N) :=
  match fuel with
  | O => None
  | S f =>
    match get t x with
    | None => None
    | Some (p, rk) =>
      if rk =? r then Some (Some x)
      else if p =? x then Some None
      else at_rank_f f t p r
    end
  end.
Definition at_rank (t : tax) (x r : N) : option (option N) := at_rank_f (fuel_of t) t x r.

(** TaxNode.HasRankDefined(rank). *)
Fixpoint has_rank_f (fuel : nat) (t : tax) (x r : N) : option bool :=
  match fuel with
  | O => None
  | S f =>
    match get t x with
    | None => None
    | Some (p, rk) =>
      if rk =? r then Some true
      else if p =? x then Some false
      else has_rank_f f t p r
    end
  end.
Definition has_rank (t : tax) (x r : N) : option bool := has_rank_f (fuel_of t) t x r.

Definition rank_of (t : tax) (x : N) : option N := option_map snd (get t x).

(** Taxonomy.RankList membership. *)
Definition rank_listed (t : tax) (r : N) : bool :=
  existsb (fun e : positive * (N * N) => snd (snd e) =? r) (PM.elements (t_nodes t)).

(** ** Weighted LCA, Taxonomy.LCA(sequence, 1.0).
    TaxonomicDistribution: every key of merged_taxid is resolved (panic when unknown); two keys
    resolving to the same node overwrite each other (map order: here the later entry wins). *)
Fixpoint upsert (x : N) (w : Z) (l : list (N * Z)) : list (N * Z) :=
  match l with
  | [] => [(x, w)]
  | (y, v) :: l' => if y =? x then (x, w) :: l' else (y, v) :: upsert x w l'
  end.
Fixpoint distribution (t : tax) (m : list (N * Z)) (acc : list (N * Z)) : option (list (N * Z)) :=
  match m with
  | [] => Some acc
  | (k, w) :: m' => match resolve t k with None => None | Some x => distribution t m' (upsert x w acc) end
  end.

(** taxa as (remaining root-first path, weight) *)
Definition wt := (list N * Z)%type.
Definition total (ts : list wt) : Z := fold_right (fun (e : wt) a => (snd e + a)%Z) 0%Z ts.
Definition head_weight (h : N) (ts : list wt) : Z :=
  fold_right (fun (e : wt) a => match fst e with h' :: _ => if h' =? h then (snd e + a)%Z else a | [] => a end) 0%Z ts.
(** argmax over the level table with the strict test [weight > weighMax] *)
Fixpoint argmax (ts all : list wt) (best : Z) (bt : option N) : Z * option N :=
  match ts with
  | [] => (best, bt)
  | (h :: _, _) :: r => let w := head_weight h all in
                        if (best <? w)%Z then argmax r all w (Some h) else argmax r all best bt
  | ([], _) :: r => argmax r all best bt
  end.
Definition keep (tm : option N) (e : wt) : bool :=
  match fst e with [] => true | h :: _ => match tm with Some m => h =? m | None => false end end.
Definition strip (e : wt) : wt := (tl (fst e), snd e).

(** one turn of the loop per level; [tmax] is taxonMax of the previous level.  With threshold 1.0
    the product rmax stays >= 1.0 exactly when weighMax = total > 0 at every level so far. *)
Fixpoint wl (fuel : nat) (ts : list wt) (tmax : option N) : option (option N) :=
  match fuel with
  | O => None
  | S f =>
    let tot := total ts in
    let '(wmax, tm) := argmax ts ts 0%Z None in
    if ((0 <? tot)%Z && (wmax =? tot)%Z)%bool
    then wl f (map strip (filter (keep tm) ts)) tm
    else Some tmax
  end.

Fixpoint rpaths (t : tax) (d : list (N * Z)) : option (list wt) :=
  match d with
  | [] => Some []
  | (x, w) :: d' =>
    match path t x, rpaths t d' with
    | Some p, Some r => Some ((rev p, w) :: r)
    | _, _ => None
    end
  end.

(** Some (Some z): the LCA taxon; Some None: nil taxon (empty distribution); None: panic *)
Definition wlca (t : tax) (m : list (N * Z)) : option (option N) :=
  match distribution t m [] with
  | None => None
  | Some d =>
    match rpaths t d with
    | None => None
    | Some ts => wl (S (fuel_of t)) ts (match ts with (h :: _, _) :: _ => Some h | _ => None end)
    end
  end.

(** ** Sequence predicates and workers (pkg/obitax/sequence_*.go composed as in obigrep/options.go) *)
Record seq := mkseq {
  s_taxid : option N;                 (* taxid attribute; absent = 1 *)
  s_merged : option (list (N * Z));   (* merged_taxid attribute *)
  s_restrict : list N; s_ignore : list N; s_require : list N;
  s_atrank : list (N * Z);            (* rank, observed <rank>_taxid *)
  s_slot : option N;
  s_obs : list Z                      (* valid restrict ignore require slotsub wlca lcaattr *)
}.
Definition seq_taxid (s : seq) : N := match s_taxid s with Some x => x | None => 1 end.

Definition zb (b : bool) : Z := if b then 1%Z else 0%Z.
Definition zob (o : option bool) : Z := match o with Some b => zb b | None => (-3)%Z end.
Definition zon (o : option N) : Z := match o with Some z => Z.of_N z | None => (-3)%Z end.

(** IsSubCladeOf(taxid) predicate on a sequence, clade already resolved *)
Definition seq_in_clade (t : tax) (s : seq) (c : N) : option bool :=
  match resolve t (seq_taxid s) with None => Some false | Some x => subclade t x c end.
Fixpoint resolve_all (t : tax) (ids : list N) : option (list N) :=
  match ids with
  | [] => Some []
  | c :: r => match resolve t c, resolve_all t r with Some x, Some l => Some (x :: l) | _, _ => None end
  end.
Fixpoint any_clade (t : tax) (s : seq) (cs : list N) : option bool :=
  match cs with
  | [] => Some false
  | c :: r => match seq_in_clade t s c with
              | None => None
              | Some true => Some true
              | Some false => any_clade t s r
              end
  end.
(** -r : log.Fatal when a clade taxid is unknown, else OR of the clade tests *)
Definition restrict (t : tax) (s : seq) (ids : list N) : Z :=
  match ids with [] => (-9)%Z | _ =>
    match resolve_all t ids with None => (-3)%Z | Some cs => zob (any_clade t s cs) end end.
Definition ignore (t : tax) (s : seq) (ids : list N) : Z :=
  match ids with [] => (-9)%Z | _ =>
    match resolve_all t ids with None => (-3)%Z | Some cs => zob (option_map negb (any_clade t s cs)) end end.
Fixpoint all_ranks (t : tax) (s : seq) (rs : list N) : option bool :=
  match rs with
  | [] => Some true
  | r :: rest =>
    match resolve t (seq_taxid s) with
    | None => Some false
    | Some x => match has_rank t x r with
                | None => None
                | Some false => Some false
                | Some true => all_ranks t s rest
                end
    end
  end.
Definition require (t : tax) (s : seq) (rs : list N) : Z :=
  match rs with [] => (-9)%Z | _ =>
    if forallb (rank_listed t) rs then zob (all_ranks t s rs) else (-3)%Z end.
Definition slotsub (t : tax) (s : seq) : Z :=
  match s_slot s with
  | None => (-9)%Z
  | Some c => match resolve t c, resolve t (seq_taxid s) with
              | Some p, Some x => zob (subclade t x p)
              | _, _ => 0%Z
              end
  end.
(** MakeSetTaxonAtRankWorker(rank): value of <rank>_taxid afterwards (-9: not set) *)
Definition atrank_attr (t : tax) (s : seq) (r : N) : Z :=
  if rank_listed t r then
    match resolve t (seq_taxid s) with
    | None => (-9)%Z
    | Some x => match at_rank t x r with
                | None => (-3)%Z
                | Some None => (-1)%Z
                | Some (Some z) => Z.of_N z
                end
    end
  else (-3)%Z.
Definition seq_dist (s : seq) : option (list (N * Z)) :=
  match s_merged s with
  | Some m => Some m
  | None => match s_taxid s with Some x => Some [(x, 1%Z)] | None => None end
  end.
Definition seq_obs (t : tax) (s : seq) : list Z :=
  [ zb (match resolve t (seq_taxid s) with Some _ => true | None => false end);
    restrict t s (s_restrict s); ignore t s (s_ignore s); require t s (s_require s); slotsub t s;
    match seq_dist s with None => (-9)%Z | Some m =>
      match wlca t m with None => (-3)%Z | Some None => (-4)%Z | Some (Some z) => Z.of_N z end end;
    match seq_dist s with None => (-9)%Z | Some m =>
      match wlca t m with Some (Some z) => Z.of_N z | _ => (-3)%Z end end ].

(** ** Executable well-formedness check (what the loader does not do): one self-looped root, every
    parent present, Path returns for every node.  Sound for [wf_tax] (Proofs.wf_check_sound). *)
Definition unkey (k : positive) : N := Pos.pred_N k.
Definition is_some {A} (o : option A) : bool := match o with Some _ => true | None => false end.
Definition self_looped (e : positive * (N * N)) : bool := fst (snd e) =? unkey (fst e).
Definition wf_check (t : tax) : bool :=
  let els := PM.elements (t_nodes t) in
  match find self_looped els with
  | None => false
  | Some e0 =>
    let root := unkey (fst e0) in
    forallb (fun e : positive * (N * N) =>
               let x := unkey (fst e) in
               (implb (self_looped e) (x =? root) && is_some (get t (fst (snd e))) && is_some (path t x))%bool) els
  end.

(** ** Names (names.dmp rows: taxid, name code, is the class "scientific name").  loadNameTable runs
    before the merged table is read, so a row designates a taxon only through the node table; the
    last scientific name wins; every other name is an alternate name.  IsNameEqual dereferences the
    scientific name (nil pointer panic = [None] when the taxon has none). *)
Definition name_row := (N * N * bool)%type.
Definition load_names (onlysn : bool) (rows : list name_row) : list name_row :=
  if onlysn then filter (fun r : name_row => snd r) rows else rows.
Definition sci_name (rows : list name_row) (x : N) : option N :=
  fold_left (fun acc (r : name_row) => if (snd r && (fst (fst r) =? x))%bool then Some (snd (fst r)) else acc) rows None.
Definition alt_names (rows : list name_row) (x : N) : list N :=
  map (fun r : name_row => snd (fst r)) (filter (fun r : name_row => (negb (snd r) && (fst (fst r) =? x))%bool) rows).
Definition name_equal (rows : list name_row) (x n : N) : option bool :=
  match sci_name rows x with
  | None => None
  | Some sn => Some ((sn =? n) || mem n (alt_names rows x))%bool
  end.

(** ** Correspondence: one case = dump rows + queries with the observations of the real code *)
Record case := mkcase {
  c_nodes : list (N * N * N);
  c_merged : list (N * N);
  c_len : Z; c_nalias : Z;
  c_pairs : list (N * N * Z * Z);
  c_paths : list (N * list Z);
  c_ranks : list (N * N * Z * Z * Z);
  c_sets : list (N * list N * Z);
  c_resolve : list (N * Z);
  c_seqs : list seq;
  c_onlysn : bool;
  c_names : list name_row;
  c_namesq : list (N * N * Z)
}.

Definition zlist_eqb (a b : list Z) : bool :=
  (Nat.eqb (length a) (length b) && forallb (fun p : Z * Z => Z.eqb (fst p) (snd p)) (combine a b))%bool.

Definition pair_ok (t : tax) (q : N * N * Z * Z) : bool :=
  let '(a, b, ol, os) := q in
  match resolve t a, resolve t b with
  | Some x, Some y => (Z.eqb (zon (lca t x y)) ol && Z.eqb (zob (subclade t x y)) os)%bool
  | _, _ => (Z.eqb ol (-1) && Z.eqb os (-1))%bool
  end.
Definition path_ok (t : tax) (q : N * list Z) : bool :=
  let '(a, o) := q in
  match resolve t a with
  | None => zlist_eqb o [(-1)%Z]
  | Some x => match path t x with None => zlist_eqb o [(-3)%Z] | Some p => zlist_eqb o (map Z.of_N p) end
  end.
Definition rank_ok (t : tax) (q : N * N * Z * Z * Z) : bool :=
  let '(a, r, oat, onil, ohas) := q in
  match resolve t a with
  | None => (Z.eqb oat (-1) && Z.eqb onil 0 && Z.eqb ohas (-1))%bool
  | Some x =>
    (match at_rank t x r with
     | None => Z.eqb oat (-3)
     | Some None => (Z.eqb oat 0 && Z.eqb onil 1)%bool
     | Some (Some z) => (Z.eqb oat (Z.of_N z) && Z.eqb onil 0)%bool
     end && Z.eqb (zob (has_rank t x r)) ohas)%bool
  end.
Fixpoint resolve_some (t : tax) (ids : list N) : list N :=
  match ids with
  | [] => []
  | c :: r => match resolve t c with Some x => x :: resolve_some t r | None => resolve_some t r end
  end.
Definition set_ok (t : tax) (q : N * list N * Z) : bool :=
  let '(a, ids, o) := q in
  match resolve t a with
  | None => Z.eqb o (-1)
  | Some x => Z.eqb (zob (belongs t x (resolve_some t ids))) o
  end.
Definition resolve_ok (t : tax) (q : N * Z) : bool :=
  let '(a, o) := q in Z.eqb o (match resolve t a with Some x => Z.of_N x | None => (-1)%Z end).
Definition seq_ok (t : tax) (s : seq) : bool :=
  (zlist_eqb (seq_obs t s) (s_obs s) &&
   forallb (fun q : N * Z => Z.eqb (atrank_attr t s (fst q)) (snd q)) (s_atrank s))%bool.

Definition nameq_ok (t : tax) (rows : list name_row) (q : N * N * Z) : bool :=
  let '(a, n, o) := q in
  match resolve t a with
  | None => Z.eqb o (-1)
  | Some x => Z.eqb o (zob (name_equal rows x n))
  end.

(** per-observable verdicts (for diagnosis) *)
Definition diag (c : case) : list bool :=
  let t := load (c_nodes c) (c_merged c) in
  [ wf_check t;   (* every generated taxonomy meets the hypothesis of the theorems *)
    Z.eqb (Z.of_nat (PM.cardinal (t_nodes t))) (c_len c);
    Z.eqb (Z.of_nat (PM.cardinal (t_alias t))) (c_nalias c);
    forallb (pair_ok t) (c_pairs c); forallb (path_ok t) (c_paths c); forallb (rank_ok t) (c_ranks c);
    forallb (set_ok t) (c_sets c); forallb (resolve_ok t) (c_resolve c); forallb (seq_ok t) (c_seqs c);
    forallb (nameq_ok t (load_names (c_onlysn c) (c_names c))) (c_namesq c) ].
Definition case_ok (c : case) : bool := forallb (fun b : bool => b) (diag c).

Fixpoint mism_from (i : nat) (cs : list case) : list nat :=
  match cs with
  | [] => []
  | c :: r => if case_ok c then mism_from (S i) r else i :: mism_from (S i) r
  end.
Definition mismatches (cs : list case) : list nat := mism_from 0 cs.
