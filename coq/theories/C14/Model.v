(** C14 — executable model of pkg/obitax (taxonomy queries) and of the row semantics of
    ncbitaxdump.LoadNCBITaxDump.  Definitions only (no proofs).

    A taxonomy is a finite map taxid -> (parent taxid, rank code) plus an alias map
    old taxid -> node taxid (stdlib PositiveMap keyed by [N.succ_pos taxid]; the theorems only use
    [get]/[get_alias]).  Rank labels are abstracted to codes (only equality matters).
    Loops of the Go code that walk the parent pointers are modelled with explicit fuel
    (number of nodes + 1); [None] = the Go code does not return a value there (nil parent pointer,
    index out of range, or no termination on a parent cycle) — never a normal-looking default. *)
From Coq Require Import NArith ZArith List Bool FMapPositive.
From Coq Require Import Floats.SpecFloat.
Import ListNotations.
Open Scope N_scope.

Module PM := PositiveMap.

Record tax := mkTax { t_nodes : PM.t (N * N); t_alias : PM.t N }.

Definition key (x : N) : positive := N.succ_pos x.
Definition get (t : tax) (x : N) : option (N * N) := PM.find (key x) (t_nodes t).
Definition get_alias (t : tax) (x : N) : option N := PM.find (key x) (t_alias t).

(** Taxonomy.Taxon: the node table first, then the alias table. *)
Definition resolve (t : tax) (x : N) : option N :=
  match get t x with Some _ => Some x | None => get_alias t x end.

(** loadNodeTable: AddNewTaxa(..., replace = true): a later row replaces an earlier one. *)
Definition load_nodes (rows : list (N * N * N)) : PM.t (N * N) :=
  fold_left (fun m (row : N * N * N) => let '(x, p, r) := row in PM.add (key x) (p, r) m) rows (PM.empty _).

(** loadMergedTable / AddNewAlias(new, old): the new id is itself resolved through Taxon at that
    moment (nodes, then the aliases read so far); an unknown new id is silently skipped. *)
Definition add_alias (t : tax) (on : N * N) : tax :=
  let '(old, new) := on in
  match resolve t new with
  | Some n => mkTax (t_nodes t) (PM.add (key old) n (t_alias t))
  | None => t
  end.

Definition load (rows : list (N * N * N)) (merged : list (N * N)) : tax :=
  fold_left add_alias merged (mkTax (load_nodes rows) (PM.empty _)).

Definition fuel_of (t : tax) : nat := S (PM.cardinal (t_nodes t)).

(** TaxNode.Path: append the taxon, follow pparent until the self-looped root. *)
Fixpoint path_f (fuel : nat) (t : tax) (x : N) : option (list N) :=
  match fuel with
  | O => None
  | S f =>
    match get t x with
    | None => None
    | Some (p, _) => if p =? x then Some [x] else option_map (cons x) (path_f f t p)
    end
  end.
Definition path (t : tax) (x : N) : option (list N) := path_f (fuel_of t) t x.

(** TaxNode.LCA: the two paths are compared from the root end while equal; the last equal
    element is returned (index out of range if the two roots differ). *)
Fixpoint cpre (r1 r2 : list N) : list N :=
  match r1, r2 with
  | a :: r1', b :: r2' => if a =? b then a :: cpre r1' r2' else []
  | _, _ => []
  end.
Fixpoint lasto (l : list N) : option N :=
  match l with
  | [] => None
  | a :: l' => match l' with [] => Some a | _ => lasto l' end
  end.
Definition lca_paths (p1 p2 : list N) : option N := lasto (cpre (rev p1) (rev p2)).
Definition lca (t : tax) (x y : N) : option N :=
  match path t x, path t y with
  | Some p1, Some p2 => lca_paths p1 p2
  | _, _ => None
  end.

(** TaxNode.IsSubCladeOf(parent): walk up until the taxid is found or the root is reached. *)
Fixpoint subclade_f (fuel : nat) (t : tax) (x a : N) : option bool :=
  match fuel with
  | O => None
  | S f =>
    if x =? a then Some true else
    match get t x with
    | None => None
    | Some (p, _) => if p =? x then Some false else subclade_f f t p a
    end
  end.
Definition subclade (t : tax) (x a : N) : option bool := subclade_f (fuel_of t) t x a.

Definition mem (x : N) (l : list N) : bool := existsb (N.eqb x) l.

(** TaxNode.IsBelongingSubclades(set). *)
Fixpoint belongs_f (fuel : nat) (t : tax) (x : N) (s : list N) : option bool :=
  match fuel with
  | O => None
  | S f =>
    if mem x s then Some true else
    match get t x with
    | None => None
    | Some (p, _) => if p =? x then Some false else belongs_f f t p s
    end
  end.
Definition belongs (t : tax) (x : N) (s : list N) : option bool := belongs_f (fuel_of t) t x s.

(** TaxNode.TaxonAtRank(rank): first taxon with that rank on the way up; nil if the root is
    reached without one. *)
Fixpoint at_rank_f (fuel : nat) (t : tax) (x r : N) : option (option N) :=
  match fuel with
  | O => None
  | S f =>
    match get t x with
    | None => None
    | Some (p, rk) =>
      if rk =? r then Some (Some x)
      else if p =? x then Some None
      else at_rank_f f t p r
    end
  end.
Definition at_rank (t : tax) (x r : N) : option (option N) := at_rank_f (fuel_of t) t x r.

(** TaxNode.HasRankDefined(rank). *)
Fixpoint has_rank_f (fuel : nat) (t : tax) (x r : N) : option bool :=
  match fuel with
  | O => None
  | S f =>
    match get t x with
    | None => None
    | Some (p, rk) =>
      if rk =? r then Some true
      else if p =? x then Some false
      else has_rank_f f t p r
    end
  end.
Definition has_rank (t : tax) (x r : N) : option bool := has_rank_f (fuel_of t) t x r.

Definition rank_of (t : tax) (x : N) : option N := option_map snd (get t x).

(** Taxonomy.RankList membership. *)
Definition rank_listed (t : tax) (r : N) : bool :=
  existsb (fun e : positive * (N * N) => snd (snd e) =? r) (PM.elements (t_nodes t)).

(** ** Weighted LCA, Taxonomy.LCA(sequence, threshold).
    TaxonomicDistribution: every key of merged_taxid is resolved (panic when unknown); the weights of
    two keys resolving to the same node are ADDED (after the round-2 fix; [upsert]/[distribution_ow] is
    the behaviour before the fix: the entry iterated last overwrote the other, C14_distribution_overwrite_refuted). *)
Fixpoint addw (x : N) (w : Z) (l : list (N * Z)) : list (N * Z) :=
  match l with
  | [] => [(x, w)]
  | (y, v) :: l' => if y =? x then (x, (v + w)%Z) :: l' else (y, v) :: addw x w l'
  end.
Fixpoint upsert (x : N) (w : Z) (l : list (N * Z)) : list (N * Z) :=
  match l with
  | [] => [(x, w)]
  | (y, v) :: l' => if y =? x then (x, w) :: l' else (y, v) :: upsert x w l'
  end.
Fixpoint distribution (t : tax) (m : list (N * Z)) (acc : list (N * Z)) : option (list (N * Z)) :=
  match m with
  | [] => Some acc
  | (k, w) :: m' => match resolve t k with None => None | Some x => distribution t m' (addw x w acc) end
  end.
Fixpoint distribution_ow (t : tax) (m : list (N * Z)) (acc : list (N * Z)) : option (list (N * Z)) :=
  match m with
  | [] => Some acc
  | (k, w) :: m' => match resolve t k with None => None | Some x => distribution_ow t m' (upsert x w acc) end
  end.

(** taxa as (remaining root-first path, weight) *)
Definition wt := (list N * Z)%type.
Definition total (ts : list wt) : Z := fold_right (fun (e : wt) a => (snd e + a)%Z) 0%Z ts.
Definition head_weight (h : N) (ts : list wt) : Z :=
  fold_right (fun (e : wt) a => match fst e with h' :: _ => if h' =? h then (snd e + a)%Z else a | [] => a end) 0%Z ts.
(** argmax over the level table with the strict test [weight > weighMax] *)
Fixpoint argmax (ts all : list wt) (best : Z) (bt : option N) : Z * option N :=
  match ts with
  | [] => (best, bt)
  | (h :: _, _) :: r => let w := head_weight h all in
                        if (best <? w)%Z then argmax r all w (Some h) else argmax r all best bt
  | ([], _) :: r => argmax r all best bt
  end.
Definition keep (tm : option N) (e : wt) : bool :=
  match fst e with [] => true | h :: _ => match tm with Some m => h =? m | None => false end end.
Definition strip (e : wt) : wt := (tl (fst e), snd e).

(** one turn of the loop per level; [tmax] is taxonMax of the previous level.  With threshold 1.0
    the product rmax stays >= 1.0 exactly when weighMax = total > 0 at every level so far. *)
Fixpoint wl (fuel : nat) (ts : list wt) (tmax : option N) : option (option N) :=
  match fuel with
  | O => None
  | S f =>
    let tot := total ts in
    let '(wmax, tm) := argmax ts ts 0%Z None in
    if ((0 <? tot)%Z && (wmax =? tot)%Z)%bool
    then wl f (map strip (filter (keep tm) ts)) tm
    else Some tmax
  end.

Fixpoint rpaths (t : tax) (d : list (N * Z)) : option (list wt) :=
  match d with
  | [] => Some []
  | (x, w) :: d' =>
    match path t x, rpaths t d' with
    | Some p, Some r => Some ((rev p, w) :: r)
    | _, _ => None
    end
  end.

(** Some (Some z): the LCA taxon; Some None: nil taxon (empty distribution); None: panic *)
Definition wlca (t : tax) (m : list (N * Z)) : option (option N) :=
  match distribution t m [] with
  | None => None
  | Some d =>
    match rpaths t d with
    | None => None
    | Some ts => wl (S (fuel_of t)) ts (match ts with (h :: _, _) :: _ => Some h | _ => None end)
    end
  end.

(** the behaviour before the fix of TaxonomicDistribution (overwrite) *)
Definition wlca_ow (t : tax) (m : list (N * Z)) : option (option N) :=
  match distribution_ow t m [] with
  | None => None
  | Some d =>
    match rpaths t d with
    | None => None
    | Some ts => wl (S (fuel_of t)) ts (match ts with (h :: _, _) :: _ => Some h | _ => None end)
    end
  end.

(** ** The descent for ANY threshold.  [score]: the arithmetic of rmax (one, zero, rmax * (w / t), rmax >= threshold).
    One turn of [wld] = one turn of the Go loop whose test [rmax >= threshold] has passed: answer = tmax,
    rans = r; the per-level table is [head_weight], total = [total], weighMax = [maxw]; taxonMax is ANY
    key of the level table whose weight is weighMax > 0 (Go iterates a map and keeps the first maximum met:
    [wld] takes the first in list order, [wld_all] collects the outcomes of every possible choice). *)
Record score (R : Type) := mkScore { s_one : R; s_zero : R; s_mul : R -> Z -> Z -> R; s_ge : R -> bool }.
Arguments mkScore {R}. Arguments s_one {R}. Arguments s_zero {R}. Arguments s_mul {R}. Arguments s_ge {R}.

Definition maxw (ts : list wt) : Z := fst (argmax ts ts 0%Z None).
Definition pick (ts : list wt) : option N := snd (argmax ts ts 0%Z None).
Definition next_r {R} (sc : score R) (ts : list wt) (r : R) : R :=
  if (0 <? total ts)%Z then s_mul sc r (maxw ts) (total ts) else s_zero sc.
Definition next_ts (ts : list wt) (tm : option N) : list wt := map strip (filter (keep tm) ts).

Fixpoint wld {R} (sc : score R) (fuel : nat) (ts : list wt) (r : R) (tmax : option N) : option (option N * R) :=
  match fuel with
  | O => None
  | S f => let r' := next_r sc ts r in
           if s_ge sc r' then wld sc f (next_ts ts (pick ts)) r' (pick ts) else Some (tmax, r)
  end.

Fixpoint heads (ts : list wt) : list N :=
  match ts with
  | [] => []
  | (h :: _, _) :: r => if mem h (heads r) then heads r else h :: heads r
  | ([], _) :: r => heads r
  end.
Definition cands (ts : list wt) : list (option N) :=
  if (0 <? maxw ts)%Z then map Some (filter (fun h => (head_weight h ts =? maxw ts)%Z) (heads ts)) else [None].
Definition ocat {A} (a b : option (list A)) : option (list A) :=
  match a, b with Some x, Some y => Some (x ++ y) | _, _ => None end.
Fixpoint wld_all {R} (sc : score R) (fuel : nat) (ts : list wt) (r : R) (tmax : option N) : option (list (option N * R)) :=
  match fuel with
  | O => None
  | S f => let r' := next_r sc ts r in
           if s_ge sc r'
           then fold_right (fun tm acc => ocat (wld_all sc f (next_ts ts tm) r' tm) acc) (Some []) (cands ts)
           else Some [(tmax, r)]
  end.
(** no level whose share passes the threshold has two maximal children *)
Fixpoint notie {R} (sc : score R) (fuel : nat) (ts : list wt) (r : R) : bool :=
  match fuel with
  | O => true
  | S f => let r' := next_r sc ts r in
           if s_ge sc r'
           then match cands ts with [tm] => notie sc f (next_ts ts tm) r' | _ => false end
           else true
  end.

(** the three arithmetics: IEEE binary64 (the Go code), exact rationals n/d, and "still equal to 1" (threshold 1.0) *)
Definition b64_of_Z (n : Z) : spec_float := binary_normalize 53 1024 n 0 false.
Definition sc_b64 (thr : spec_float) : score spec_float :=
  mkScore (b64_of_Z 1) (S754_zero false)
          (fun r w t => SFmul 53 1024 r (SFdiv 53 1024 (b64_of_Z w) (b64_of_Z t)))
          (fun r => SFleb thr r).
Definition sc_q (tn td : Z) : score (Z * Z) :=
  mkScore (1, 1)%Z (0, 1)%Z (fun r w t => (fst r * w, snd r * t)%Z) (fun r => (tn * snd r <=? fst r * td)%Z).
Definition sc_one : score bool := mkScore true false (fun r w t => (r && (w =? t)%Z)%bool) (fun r => r).

(** Taxonomy.LCA(sequence, threshold): every possible (answer, rans, granTotal); None = panic / no return *)
Definition wlcad {R} (sc : score R) (t : tax) (m : list (N * Z)) : option (list (option N * R * Z)) :=
  match distribution t m [] with
  | None => None
  | Some d =>
    match rpaths t d with
    | None => None
    | Some ts =>
      let init := match ts with (h :: _, _) :: _ => Some h | _ => None end in
      if s_ge sc (s_one sc)
      then option_map (map (fun ar : option N * R => (ar, total ts))) (wld_all sc (S (fuel_of t)) ts (s_one sc) init)
      else Some [(init, s_one sc, total ts)]
    end
  end.
(** the same with the first maximum in list order *)
Definition wlcad1 {R} (sc : score R) (t : tax) (m : list (N * Z)) : option (option N * R) :=
  match distribution t m [] with
  | None => None
  | Some d =>
    match rpaths t d with
    | None => None
    | Some ts =>
      let init := match ts with (h :: _, _) :: _ => Some h | _ => None end in
      if s_ge sc (s_one sc) then wld sc (S (fuel_of t)) ts (s_one sc) init else Some (init, s_one sc)
    end
  end.

(** ** Taxonomy.Taxon(interface{}): int; string = strconv.Atoi, else the first match of TX:(\d+); any other
    dynamic type leaves itaxid = 0 (the switch has no default): taxid 0 is looked up. *)
Inductive tform := FInt (z : Z) | FStr (s : list N) | FOther.
Definition is_digit (c : N) : bool := ((48 <=? c) && (c <=? 57))%bool.
Fixpoint digits_val (acc : Z) (s : list N) : Z :=
  match s with [] => acc | c :: r => digits_val (10 * acc + Z.of_N (c - 48))%Z r end.
Definition all_digits (s : list N) : bool := match s with [] => false | _ => forallb is_digit s end.
Definition int_lim : Z := (2 ^ 63)%Z.
(** strconv.Atoi (base 10, optional sign, no underscore, int64 range) *)
Definition atoi_u (r : list N) : option Z :=
  if all_digits r then (if (digits_val 0 r <? int_lim)%Z then Some (digits_val 0 r) else None) else None.
Definition atoi (s : list N) : option Z :=
  match s with
  | [] => None
  | c :: r =>
    if c =? 43 then atoi_u r
    else if c =? 45 then (if all_digits r then (if (digits_val 0 r <=? int_lim)%Z then Some (- digits_val 0 r)%Z else None) else None)
    else atoi_u s
  end.
Fixpoint span_digits (s : list N) : list N * list N :=
  match s with
  | c :: r => if is_digit c then (let p := span_digits r in (c :: fst p, snd p)) else ([], s)
  | [] => ([], [])
  end.
(** leftmost match of TX:(\d+), greedy digits *)
Fixpoint find_tx (s : list N) : option (list N) :=
  match s with
  | [] => None
  | c :: r =>
    if c =? 84 then
      match r with
      | x1 :: x2 :: r2 => if ((x1 =? 88) && (x2 =? 58))%bool
                          then match fst (span_digits r2) with [] => find_tx r | d => Some d end
                          else find_tx r
      | _ => find_tx r
      end
    else find_tx r
  end.
(** Atoi of the captured digits with its error dropped: on a range error Atoi returns MaxInt64 *)
Definition clamp (v : Z) : Z := if (v <? int_lim)%Z then v else (int_lim - 1)%Z.
Definition form_taxid (f : tform) : option Z :=
  match f with
  | FInt z => Some z
  | FOther => Some 0%Z
  | FStr s => match atoi s with
              | Some v => Some v
              | None => match find_tx s with Some d => Some (clamp (digits_val 0 d)) | None => None end
              end
  end.
Definition resolveZ (t : tax) (z : Z) : option N := if (z <? 0)%Z then None else resolve t (Z.to_N z).
Definition taxon_of (t : tax) (f : tform) : option N :=
  match form_taxid f with Some z => resolveZ t z | None => None end.

(** ** Sequence predicates and workers (pkg/obitax/sequence_*.go composed as in obigrep/options.go) *)
Record seq := mkseq {
  s_taxid : option N;                 (* taxid attribute; absent = 1 *)
  s_merged : option (list (N * Z));   (* merged_taxid attribute *)
  s_restrict : list N; s_ignore : list N; s_require : list N;
  s_atrank : list (N * Z);            (* rank, observed <rank>_taxid *)
  s_slot : option tform;              (* the value of the attribute read by IsSubCladeOfSlot, as Taxonomy.Taxon(string) receives it *)
  s_obs : list Z;                     (* valid restrict ignore require slotsub wlca lcaattr *)
  s_thr : list (spec_float * list (Z * spec_float * Z));  (* threshold, observed set of (taxid, rans, granTotal) over repeated runs *)
  s_notax : Z                         (* AddLCAWorker on a sequence with neither taxid nor merged_taxid (-9: has one) *)
}.
Definition seq_taxid (s : seq) : N := match s_taxid s with Some x => x | None => 1 end.

Definition zb (b : bool) : Z := if b then 1%Z else 0%Z.
Definition zob (o : option bool) : Z := match o with Some b => zb b | None => (-3)%Z end.
Definition zon (o : option N) : Z := match o with Some z => Z.of_N z | None => (-3)%Z end.

(** IsSubCladeOf(taxid) predicate on a sequence, clade already resolved *)
Definition seq_in_clade (t : tax) (s : seq) (c : N) : option bool :=
  match resolve t (seq_taxid s) with None => Some false | Some x => subclade t x c end.
Fixpoint resolve_all (t : tax) (ids : list N) : option (list N) :=
  match ids with
  | [] => Some []
  | c :: r => match resolve t c, resolve_all t r with Some x, Some l => Some (x :: l) | _, _ => None end
  end.
Fixpoint any_clade (t : tax) (s : seq) (cs : list N) : option bool :=
  match cs with
  | [] => Some false
  | c :: r => match seq_in_clade t s c with
              | None => None
              | Some true => Some true
              | Some false => any_clade t s r
              end
  end.
(** -r : log.Fatal when a clade taxid is unknown, else OR of the clade tests *)
Definition restrict (t : tax) (s : seq) (ids : list N) : Z :=
  match ids with [] => (-9)%Z | _ =>
    match resolve_all t ids with None => (-3)%Z | Some cs => zob (any_clade t s cs) end end.
Definition ignore (t : tax) (s : seq) (ids : list N) : Z :=
  match ids with [] => (-9)%Z | _ =>
    match resolve_all t ids with None => (-3)%Z | Some cs => zob (option_map negb (any_clade t s cs)) end end.
Fixpoint all_ranks (t : tax) (s : seq) (rs : list N) : option bool :=
  match rs with
  | [] => Some true
  | r :: rest =>
    match resolve t (seq_taxid s) with
    | None => Some false
    | Some x => match has_rank t x r with
                | None => None
                | Some false => Some false
                | Some true => all_ranks t s rest
                end
    end
  end.
Definition require (t : tax) (s : seq) (rs : list N) : Z :=
  match rs with [] => (-9)%Z | _ =>
    if forallb (rank_listed t) rs then zob (all_ranks t s rs) else (-3)%Z end.
Definition slotsub (t : tax) (s : seq) : Z :=
  match s_slot s with
  | None => (-9)%Z
  | Some c => match taxon_of t c, resolve t (seq_taxid s) with
              | Some p, Some x => zob (subclade t x p)
              | _, _ => 0%Z
              end
  end.
(** MakeSetTaxonAtRankWorker(rank): value of <rank>_taxid afterwards (-9: not set) *)
Definition atrank_attr (t : tax) (s : seq) (r : N) : Z :=
  if rank_listed t r then
    match resolve t (seq_taxid s) with
    | None => (-9)%Z
    | Some x => match at_rank t x r with
                | None => (-3)%Z
                | Some None => (-1)%Z
                | Some (Some z) => Z.of_N z
                end
    end
  else (-3)%Z.
Definition seq_dist (s : seq) : option (list (N * Z)) :=
  match s_merged s with
  | Some m => Some m
  | None => match s_taxid s with Some x => Some [(x, 1%Z)] | None => None end
  end.
Definition seq_obs (t : tax) (s : seq) : list Z :=
  [ zb (match resolve t (seq_taxid s) with Some _ => true | None => false end);
    restrict t s (s_restrict s); ignore t s (s_ignore s); require t s (s_require s); slotsub t s;
    match seq_dist s with None => (-9)%Z | Some m =>
      match wlca t m with None => (-3)%Z | Some None => (-4)%Z | Some (Some z) => Z.of_N z end end;
    match seq_dist s with None => (-9)%Z | Some m =>
      match wlca t m with Some (Some z) => Z.of_N z | _ => (-3)%Z end end ].

(** ** Executable well-formedness check (what the loader does not do): one self-looped root, every
    parent present, Path returns for every node.  Sound for [wf_tax] (Proofs.wf_check_sound). *)
Definition unkey (k : positive) : N := Pos.pred_N k.
Definition is_some {A} (o : option A) : bool := match o with Some _ => true | None => false end.
Definition self_looped (e : positive * (N * N)) : bool := fst (snd e) =? unkey (fst e).
Definition wf_check (t : tax) : bool :=
  let els := PM.elements (t_nodes t) in
  match find self_looped els with
  | None => false
  | Some e0 =>
    let root := unkey (fst e0) in
    forallb (fun e : positive * (N * N) =>
               let x := unkey (fst e) in
               (implb (self_looped e) (x =? root) && is_some (get t (fst (snd e))) && is_some (path t x))%bool) els
  end.

(** ** Names.  names.dmp rows: taxid | name | unique name (ignored by the loader) | class; fields are byte
    strings (already split on '|' and trimmed).  loadNameTable runs before the merged table is read, so a row
    designates a taxon only through the node table; the last row of class "scientific name" wins; every
    other row is an alternate name (a map keyed by the name).  IsNameEqual / IsNameMatching dereference the
    scientific name (nil pointer panic = [None] when the taxon has none). *)
Definition bstr := list N.
Fixpoint beqb (a b : bstr) : bool :=
  match a, b with
  | [], [] => true
  | x :: a', y :: b' => ((x =? y) && beqb a' b')%bool
  | _, _ => false
  end.
(** "scientific name" *)
Definition sci_class : bstr := [115;99;105;101;110;116;105;102;105;99;32;110;97;109;101].
Definition name_row := (N * bstr * bstr)%type.
Definition is_sci (r : name_row) : bool := beqb (snd r) sci_class.
Definition load_names (onlysn : bool) (rows : list name_row) : list name_row :=
  if onlysn then filter is_sci rows else rows.
Definition sci_name (rows : list name_row) (x : N) : option bstr :=
  fold_left (fun acc (r : name_row) => if (is_sci r && (fst (fst r) =? x))%bool then Some (snd (fst r)) else acc) rows None.
Definition alt_names (rows : list name_row) (x : N) : list bstr :=
  map (fun r : name_row => snd (fst r)) (filter (fun r : name_row => (negb (is_sci r) && (fst (fst r) =? x))%bool) rows).
Definition name_equal (rows : list name_row) (x : N) (n : bstr) : option bool :=
  match sci_name rows x with
  | None => None
  | Some sn => Some (beqb sn n || existsb (beqb n) (alt_names rows x))%bool
  end.
(** IsNameMatching: [rm pat s] stands for regexp.MatchString (an oracle) *)
Definition name_matching {P} (rm : P -> bstr -> bool) (rows : list name_row) (x : N) (pat : P) : option bool :=
  match sci_name rows x with
  | None => None
  | Some sn => Some (rm pat sn || existsb (rm pat) (alt_names rows x))%bool
  end.
(** a finite table of observed regexp verdicts (pattern code, subject, verdict) as the oracle *)
Definition rm_tab (tab : list (N * bstr * bool)) (pat : N) (s : bstr) : bool :=
  existsb (fun e : N * bstr * bool => ((fst (fst e) =? pat) && beqb (snd (fst e)) s && snd e)%bool) tab.

(** ** One line of names.dmp: strings.Split(line, "|"), fields 0, 1, 3 trimmed (field 2, the unique name, is never read) *)
Definition is_space (c : N) : bool := ((c =? 32) || (c =? 9) || (c =? 10) || (c =? 11) || (c =? 12) || (c =? 13))%bool.
Fixpoint ltrim (s : list N) : list N := match s with c :: r => if is_space c then ltrim r else s | [] => [] end.
Definition trim (s : list N) : list N := rev (ltrim (rev (ltrim s))).
Fixpoint split_bar (s cur : list N) : list (list N) :=
  match s with
  | [] => [rev cur]
  | c :: r => if c =? 124 then rev cur :: split_bar r [] else split_bar r (c :: cur)
  end.
(** None = the Go code panics (fewer than 4 fields: index out of range; taxid not an integer: log.Panicf) *)
Definition parse_name_line (line : list N) : option (Z * bstr * bstr) :=
  match split_bar line [] with
  | f0 :: f1 :: _ :: f3 :: _ => match atoi (trim f0) with Some z => Some (z, trim f1, trim f3) | None => None end
  | _ => None
  end.


(** ** Correspondence: one case = dump rows + queries with the observations of the real code *)
Record case := mkcase {
  c_nodes : list (N * N * N);
  c_merged : list (N * N);
  c_len : Z; c_nalias : Z;
  c_pairs : list (N * N * Z * Z);
  c_paths : list (N * list Z);
  c_ranks : list (N * N * Z * Z * Z);
  c_sets : list (N * list N * Z);
  c_resolve : list (N * Z);
  c_seqs : list seq;
  c_onlysn : bool;
  c_names : list name_row;
  c_namesq : list (N * bstr * Z);
  c_wf : bool;                         (* does the dump describe a rooted tree (python) *)
  c_forms : list (tform * Z);
  c_namesm : list (N * N * Z);
  c_retab : list (N * bstr * bool);
  c_nameparse : list (bstr * Z * bstr * bstr)   (* a line of names.dmp as written, and the row (taxid, name, class) it stands for *)
}.

Definition zlist_eqb (a b : list Z) : bool :=
  (Nat.eqb (length a) (length b) && forallb (fun p : Z * Z => Z.eqb (fst p) (snd p)) (combine a b))%bool.

(** the model's "no value" (-3) stands for a panic (-3) or an error return (-2) of the Go code *)
Definition zeqn (model obs : Z) : bool :=
  if Z.eqb model (-3) then (Z.eqb obs (-3) || Z.eqb obs (-2))%bool else Z.eqb model obs.
Definition pair_ok (t : tax) (q : N * N * Z * Z) : bool :=
  let '(a, b, ol, os) := q in
  match resolve t a, resolve t b with
  | Some x, Some y => (zeqn (zon (lca t x y)) ol && zeqn (zob (subclade t x y)) os)%bool
  | _, _ => (Z.eqb ol (-1) && Z.eqb os (-1))%bool
  end.
Definition path_ok (t : tax) (q : N * list Z) : bool :=
  let '(a, o) := q in
  match resolve t a with
  | None => zlist_eqb o [(-1)%Z]
  | Some x => match path t x with None => (zlist_eqb o [(-3)%Z] || zlist_eqb o [(-2)%Z])%bool | Some p => zlist_eqb o (map Z.of_N p) end
  end.
Definition rank_ok (t : tax) (q : N * N * Z * Z * Z) : bool :=
  let '(a, r, oat, onil, ohas) := q in
  match resolve t a with
  | None => (Z.eqb oat (-1) && Z.eqb onil 0 && Z.eqb ohas (-1))%bool
  | Some x =>
    (match at_rank t x r with
     | None => Z.eqb oat (-3)
     | Some None => (Z.eqb oat 0 && Z.eqb onil 1)%bool
     | Some (Some z) => (Z.eqb oat (Z.of_N z) && Z.eqb onil 0)%bool
     end && zeqn (zob (has_rank t x r)) ohas)%bool
  end.
Fixpoint resolve_some (t : tax) (ids : list N) : list N :=
  match ids with
  | [] => []
  | c :: r => match resolve t c with Some x => x :: resolve_some t r | None => resolve_some t r end
  end.
Definition set_ok (t : tax) (q : N * list N * Z) : bool :=
  let '(a, ids, o) := q in
  match resolve t a with
  | None => Z.eqb o (-1)
  | Some x => zeqn (zob (belongs t x (resolve_some t ids))) o
  end.
Definition resolve_ok (t : tax) (q : N * Z) : bool :=
  let '(a, o) := q in Z.eqb o (match resolve t a with Some x => Z.of_N x | None => (-1)%Z end).
Definition sf_eqb (a b : spec_float) : bool :=
  match a, b with
  | S754_zero s1, S754_zero s2 => Bool.eqb s1 s2
  | S754_finite s1 m1 e1, S754_finite s2 m2 e2 => (Bool.eqb s1 s2 && Pos.eqb m1 m2 && Z.eqb e1 e2)%bool
  | S754_infinity s1, S754_infinity s2 => Bool.eqb s1 s2
  | S754_nan, S754_nan => true
  | _, _ => false
  end.
Definition zoo (o : option N) : Z := match o with Some z => Z.of_N z | None => (-4)%Z end.
(** what TaxonomicDistribution sees: merged_taxid, else {taxid: 1}, else {"na": 1} and Atoi("na") = 0 *)
Definition seq_dist0 (s : seq) : list (N * Z) := match seq_dist s with Some m => m | None => [(0, 1%Z)] end.
(** every observed outcome of Taxonomy.LCA(seq, thr) is one the model allows (a single one when no tie passes) *)
Definition thr_ok (t : tax) (s : seq) (q : spec_float * list (Z * spec_float * Z)) : bool :=
  let '(thr, outs) := q in
  match wlcad (sc_b64 thr) t (seq_dist0 s) with
  | None => forallb (fun o : Z * spec_float * Z => Z.eqb (fst (fst o)) (-3)) outs
  | Some l => forallb (fun o : Z * spec_float * Z =>
                existsb (fun x : option N * spec_float * Z =>
                   (Z.eqb (zoo (fst (fst x))) (fst (fst o)) && sf_eqb (snd (fst x)) (snd (fst o)) && Z.eqb (snd x) (snd o))%bool) l) outs
  end.
Definition notax_ok (t : tax) (s : seq) : bool :=
  match s_taxid s, s_merged s with
  | None, None => Z.eqb (s_notax s) (match wlca t [(0, 1%Z)] with Some (Some z) => Z.of_N z | _ => (-3)%Z end)
  | _, _ => Z.eqb (s_notax s) (-9)
  end.
Definition seq_ok (t : tax) (s : seq) : bool :=
  (zlist_eqb (seq_obs t s) (s_obs s) &&
   forallb (fun q : N * Z => Z.eqb (atrank_attr t s (fst q)) (snd q)) (s_atrank s) &&
   forallb (thr_ok t s) (s_thr s) && notax_ok t s)%bool.

Definition form_ok (t : tax) (q : tform * Z) : bool :=
  Z.eqb (snd q) (match taxon_of t (fst q) with Some x => Z.of_N x | None => (-1)%Z end).
Definition namem_ok (t : tax) (rows : list name_row) (tab : list (N * bstr * bool)) (q : N * N * Z) : bool :=
  let '(a, pat, o) := q in
  match resolve t a with
  | None => Z.eqb o (-1)
  | Some x => Z.eqb o (zob (name_matching (rm_tab tab) rows x pat))
  end.
Definition beqb_o (a b : bstr) := beqb a b.
Definition nameparse_ok (q : bstr * Z * bstr * bstr) : bool :=
  let '(line, z, n, c) := q in
  match parse_name_line line with
  | Some (z', n', c') => (Z.eqb z z' && beqb n n' && beqb c c')%bool
  | None => false
  end.
Definition nameq_ok (t : tax) (rows : list name_row) (q : N * bstr * Z) : bool :=
  let '(a, n, o) := q in
  match resolve t a with
  | None => Z.eqb o (-1)
  | Some x => Z.eqb o (zob (name_equal rows x n))
  end.

(** per-observable verdicts (for diagnosis) *)
Definition diag (c : case) : list bool :=
  let t := load (c_nodes c) (c_merged c) in
  [ Bool.eqb (wf_check t) (c_wf c);   (* rooted trees meet the hypothesis of the theorems; dumps with dangling rows do not *)
    forallb (form_ok t) (c_forms c);
    forallb nameparse_ok (c_nameparse c);
    forallb (namem_ok t (load_names (c_onlysn c) (c_names c)) (c_retab c)) (c_namesm c);
    Z.eqb (Z.of_nat (PM.cardinal (t_nodes t))) (c_len c);
    Z.eqb (Z.of_nat (PM.cardinal (t_alias t))) (c_nalias c);
    forallb (pair_ok t) (c_pairs c); forallb (path_ok t) (c_paths c); forallb (rank_ok t) (c_ranks c);
    forallb (set_ok t) (c_sets c); forallb (resolve_ok t) (c_resolve c); forallb (seq_ok t) (c_seqs c);
    forallb (nameq_ok t (load_names (c_onlysn c) (c_names c))) (c_namesq c) ].
Definition case_ok (c : case) : bool := forallb (fun b : bool => b) (diag c).

Fixpoint mism_from (i : nat) (cs : list case) : list nat :=
  match cs with
  | [] => []
  | c :: r => if case_ok c then mism_from (S i) r else i :: mism_from (S i) r
  end.
Definition mismatches (cs : list case) : list nat := mism_from 0 cs.
