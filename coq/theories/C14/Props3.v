(** C14, round 3 — theorems about the glue around pkg/obitax: the selection obigrep composes from
    --require-rank / -r / -i / -v (obigrep/options.go + the nil-neutral combinators of
    obiseq.SequencePredicate), IsAValidTaxon with auto-correction, the taxonomic_path annotation and
    the attribute names of AddLCAWorker.  The model (Model3) is tied to the commands and to the
    worker constructors on every run (Model3.mismatches3). *)
From Coq Require Import NArith ZArith List Bool.
Import ListNotations.
From OBI.C14 Require Import Model Proofs Model3 Proofs3.
Open Scope N_scope.

(** obigrep -t DIR [--require-rank R]... [-r C | -r ATTRIBUTE]... [-i C]... [-v]: a sequence whose taxon has
    lineage p is kept iff p carries every required rank, meets one of the clades to restrict to (when one
    is given), meets none of the clades to ignore; -v complements.  No option at all keeps everything. *)
Theorem C14_grep_selection_is_what_the_tree_says : forall t g s x p,
  resolve t (seq_taxid s) = Some x -> path t x = Some p -> g_fatal t g = false ->
  grep_sel t g s = zb (sel_spec t s p g).
Proof. exact grep_sel_known. Qed.

(** a taxid the taxonomy does not know is in no clade and has no rank: kept only when neither
    --require-rank nor -r is given (whatever is ignored) *)
Theorem C14_grep_unknown_taxid : forall t g s, resolve t (seq_taxid s) = None -> g_fatal t g = false ->
  grep_sel t g s = zb (xorb (g_invert g) (match g_require g with [] => true | _ => false end && match g_restrict g with [] => true | _ => false end)%bool).
Proof. exact grep_sel_unknown. Qed.

(** -v / --save-discarded: the two outputs partition the input *)
Theorem C14_grep_invert_is_the_complement : forall t g s b, grep_sel t g s = zb b -> grep_sel t (flip g) s = zb (negb b).
Proof. exact grep_sel_flip. Qed.

(** several -i: a sequence is kept iff EVERY single -i keeps it (it is dropped as soon as one ignored clade contains it) *)
Theorem C14_ignore_several_is_every_single_one : forall t s ids, ids <> [] -> g_fatal t (only_ignore ids) = false ->
  (resolve t (seq_taxid s) = None \/ exists x p, resolve t (seq_taxid s) = Some x /\ path t x = Some p) ->
  (grep_sel t (only_ignore ids) s = 1%Z <-> forall c, In c ids -> grep_sel t (only_ignore [c]) s = 1%Z).
Proof. exact ignore_several. Qed.

(** IsAValidTaxon(true) rewrites a merged taxid into the current one: the new attribute designates the same
    taxon directly, a second pass changes nothing, and no selection / annotation changes its answer *)
Theorem C14_autocorrect_preserves_every_answer : forall t s x, alias_ok t -> resolve t (seq_taxid s) = Some x -> 1 <= x ->
  let s' := snd (valid_taxon t true s) in
  fst (valid_taxon t true s) = true /\ seq_taxid s' = x /\ resolve t (seq_taxid s') = Some x /\
  valid_taxon t true s' = (true, s') /\
  (forall g, grep_sel t g s' = grep_sel t g s) /\
  (forall names r, rank_annot t names s' r = rank_annot t names s r) /\
  (forall names, path_annot t names s' = path_annot t names s).
Proof. exact autocorrect_stable. Qed.

(** --taxonomic-path: the taxids are the lineage of the taxon read backwards (self-looped root first, the
    taxon itself last), each with its own scientific name and rank *)
Theorem C14_taxonomic_path_is_the_lineage_root_first : forall t names s x p l,
  resolve t (seq_taxid s) = Some x -> path t x = Some p -> path_annot t names s = Some l ->
  map (fun e : N * bstr * N => fst (fst e)) l = rev p /\
  (exists root r, hd_error (map (fun e : N * bstr * N => fst (fst e)) l) = Some root /\ get t root = Some (root, r)) /\
  lasto (map (fun e : N * bstr * N => fst (fst e)) l) = Some x /\
  (forall e, In e l -> snd (fst e) = sci_or_empty names (fst (fst e)) /\ rank_of t (fst (fst e)) = Some (snd e)).
Proof. exact path_annot_shape. Qed.

(** the attribute text taxid@name@rank|... determines the lineage as long as no name or rank label contains '@' or '|' *)
Theorem C14_taxonomic_path_reads_back : forall l, (forall e, In e l -> clean e) -> parse_path (render_path l) = Some l.
Proof. exact parse_render_path. Qed.

Theorem C14_taxonomic_path_text_injective : forall l1 l2, (forall e, In e l1 -> clean e) -> (forall e, In e l2 -> clean e) ->
  render_path l1 = render_path l2 -> l1 = l2.
Proof. exact render_path_injective. Qed.

(** --add-lca-in SLOT: the taxid, name and error attributes never overwrite one another, whatever the slot name
    (strings.Replace of the FIRST "taxid"), and the taxid attribute ends with "taxid" *)
Theorem C14_lca_attribute_names_distinct : forall slot k1 k2 k3, lca_keys slot = (k1, k2, k3) ->
  k1 <> k2 /\ k1 <> k3 /\ k2 <> k3 /\ has_suffix taxid_s k1 = true.
Proof. exact lca_keys_distinct. Qed.

Theorem C14_find_first_occurrence : forall old s,
  (forall a b, find1 old s = Some (a, b) -> s = a ++ old ++ b) /\ (forall a b, s = a ++ old ++ b -> find1 old s <> None).
Proof. intros old s. split; [apply find1_sound | intros a b ->; apply find1_complete]. Qed.

(** species / genus / family / --with-taxon-at-rank annotations: the first taxon of the lineage carrying the rank with
    its own scientific name, -1 / "NA" when no ancestor carries it, nothing at all for an unknown taxid *)
Theorem C14_rank_annotation : forall t names s r,
  (forall x p, resolve t (seq_taxid s) = Some x -> path t x = Some p ->
     rank_annot t names s r = Some (Some (match find (has_rank_at t r) p with
                                          | Some z => (Z.of_N z, sci_or_empty names z)
                                          | None => ((-1)%Z, na_name)
                                          end))) /\
  (resolve t (seq_taxid s) = None -> rank_annot t names s r = Some None).
Proof. intros t names s r. split; [intros x p; apply rank_annot_spec | apply rank_annot_unknown]. Qed.

(** the name index designates nodes only (a row of names.dmp whose taxid is a merged or an unknown id names nobody) *)
Theorem C14_name_index_lists_nodes_only : forall t names n x,
  In x (name_index t names n) <-> present t x /\ exists c, In (x, n, c) names.
Proof. exact name_index_spec. Qed.

(** --add-lca-in SLOT for a slot name without "taxid" in it: SLOT_taxid, SLOT_name, SLOT_error *)
Theorem C14_lca_attribute_names_plain_slot : forall slot, find1 taxid_s slot = None ->
  lca_keys slot = (slot ++ utaxid_s, slot ++ 95 :: name_s, slot ++ 95 :: error_s).
Proof. exact lca_keys_plain. Qed.

(** the hypotheses are met: the taxonomy of Props.ex_tax (aliases 99 -> 7, 98 -> 7), a sequence of species 5 *)
Definition ex3_tax : tax :=
  load [(1,1,0); (2,1,6); (3,2,3); (4,3,2); (5,4,1); (6,4,1); (7,3,2); (8,7,1)] [(99,7); (98,99)].
Definition ex3_seq (x : N) : seq := mkseq (Some x) None [] [] [] [] (Some (FStr [84;88;58;55])) []%Z [] (-9)%Z.
Example C14_round3_nonvacuous :
  resolve ex3_tax (seq_taxid (ex3_seq 5)) = Some 5 /\ path ex3_tax 5 = Some [5;4;3;2;1] /\
  g_fatal ex3_tax (mkgopts [2] [RId 3] [7; 8] false) = false /\
  grep_sel ex3_tax (mkgopts [2] [RId 3] [7; 8] false) (ex3_seq 5) = 1%Z /\
  grep_sel ex3_tax (mkgopts [2] [RId 3] [7; 8] true) (ex3_seq 5) = 0%Z /\
  grep_sel ex3_tax (mkgopts [] [RSlot] [] false) (ex3_seq 8) = 1%Z /\
  grep_sel ex3_tax (mkgopts [] [RSlot] [] false) (ex3_seq 5) = 0%Z /\
  grep_sel ex3_tax (only_ignore [4; 98]) (ex3_seq 8) = 0%Z /\ grep_sel ex3_tax (only_ignore [4]) (ex3_seq 8) = 1%Z /\
  grep_sel ex3_tax (mkgopts [] [RId 1234] [] false) (ex3_seq 5) = (-3)%Z /\
  valid_taxon ex3_tax true (ex3_seq 98) = (true, ex3_seq 7) /\ alias_ok ex3_tax /\
  option_map (map (fun e : N * bstr * N => fst (fst e))) (path_annot ex3_tax [] (ex3_seq 99)) = Some [1;2;3;7] /\
  clean ([55], [116;97;120;111;110], [103;101;110;117;115]) /\
  rank_annot ex3_tax [(4, [71], sci_class)] (ex3_seq 5) 2 = Some (Some (4%Z, [71])) /\ rank_annot ex3_tax [] (ex3_seq 5) 9 = Some (Some ((-1)%Z, na_name)) /\
  find1 taxid_s [108;99;97] = None /\ name_index ex3_tax [(4, [71], sci_class); (99, [71], sci_class)] [71] = [4] /\
  parse_path [49;64;114;64;110;124;55;64;64;103] = Some [([49],[114],[110]); ([55],[],[103])].
Proof.
  repeat match goal with |- _ /\ _ => split end; try (vm_compute; reflexivity).
  - apply load_alias_ok.
  - unfold clean, no_sep. simpl. intuition (subst; discriminate).
Qed.

Print Assumptions C14_grep_selection_is_what_the_tree_says.
Print Assumptions C14_grep_unknown_taxid.
Print Assumptions C14_grep_invert_is_the_complement.
Print Assumptions C14_ignore_several_is_every_single_one.
Print Assumptions C14_autocorrect_preserves_every_answer.
Print Assumptions C14_taxonomic_path_is_the_lineage_root_first.
Print Assumptions C14_taxonomic_path_reads_back.
Print Assumptions C14_taxonomic_path_text_injective.
Print Assumptions C14_lca_attribute_names_distinct.
Print Assumptions C14_find_first_occurrence.
Print Assumptions C14_rank_annotation.
Print Assumptions C14_name_index_lists_nodes_only.
Print Assumptions C14_lca_attribute_names_plain_slot.
