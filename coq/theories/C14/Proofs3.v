(** C14, round 3 — lemmas about the glue model (Model3). *)
From Coq Require Import NArith ZArith List Bool Lia FMapPositive.
Import ListNotations.
From OBI.C14 Require Import Model Proofs Model3.
Open Scope N_scope.

(** ** The combinators on definite predicates *)
Definition definite (p : pv) : Prop := p <> Some None.
(** value of a predicate on the sequence; the nil predicate accepts everything *)
Definition pval (p : pv) : bool := match p with None => true | Some (Some b) => b | Some None => false end.

Lemma p_and_val : forall a b, definite a -> definite b -> definite (p_and a b) /\ pval (p_and a b) = (pval a && pval b)%bool.
Proof.
  intros [[[|]|]|] [[[|]|]|] Ha Hb; unfold definite in *; simpl; split; try congruence; auto.
Qed.

Lemma p_not_val : forall a, definite a -> definite (p_not a) /\ pval (p_not a) = negb (pval a).
Proof.
  intros [[[|]|]|] Ha; unfold definite in *; simpl; split; try congruence; auto.
Qed.

(** a predicate built from a list of option values: nil when there is none *)
Definition pv_of {A} (l : list A) (b : bool) : pv := match l with [] => None | _ => Some (Some b) end.

Lemma fold_or_from : forall (l : list (option bool)) (h : list bool) a, l = map Some h ->
  fold_left (fun acc x => p_or acc (Some x)) l (Some (Some a)) = Some (Some (a || existsb (fun b => b) h)%bool).
Proof.
  intros l h; revert l; induction h as [|b h IH]; intros l a E; subst l; simpl.
  - rewrite orb_false_r; reflexivity.
  - destruct a; simpl.
    + rewrite (IH _ true eq_refl). reflexivity.
    + rewrite (IH _ b eq_refl). reflexivity.
Qed.

Lemma fold_or_map : forall A (f : A -> option bool) (h : A -> bool) l, (forall x, In x l -> f x = Some (h x)) ->
  fold_or (map f l) = pv_of l (existsb h l).
Proof.
  intros A f h l H. destruct l as [|x l]; [reflexivity|]. unfold fold_or, pv_of. simpl.
  rewrite (H x (or_introl eq_refl)).
  rewrite (fold_or_from (map f l) (map h l) (h x)).
  - f_equal. f_equal. f_equal. induction l as [|y l IH]; simpl; auto. f_equal. apply IH. intros z Hz. apply H. simpl in *. tauto.
  - rewrite map_map. apply map_ext_in. intros y Hy. apply H. right; exact Hy.
Qed.

Lemma fold_and_from : forall (l : list (option bool)) (h : list bool) a, l = map Some h ->
  fold_left (fun acc x => p_and acc (Some x)) l (Some (Some a)) = Some (Some (a && forallb (fun b => b) h)%bool).
Proof.
  intros l h; revert l; induction h as [|b h IH]; intros l a E; subst l; simpl.
  - rewrite andb_true_r; reflexivity.
  - destruct a; simpl.
    + rewrite (IH _ b eq_refl). reflexivity.
    + rewrite (IH _ false eq_refl). reflexivity.
Qed.

Lemma fold_and_map : forall A (f : A -> option bool) (h : A -> bool) l, (forall x, In x l -> f x = Some (h x)) ->
  fold_and (map f l) = pv_of l (forallb h l).
Proof.
  intros A f h l H. destruct l as [|x l]; [reflexivity|]. unfold fold_and, pv_of. simpl.
  rewrite (H x (or_introl eq_refl)).
  rewrite (fold_and_from (map f l) (map h l) (h x)).
  - f_equal. f_equal. f_equal. induction l as [|y l IH]; simpl; auto. f_equal. apply IH. intros z Hz. apply H. simpl in *. tauto.
  - rewrite map_map. apply map_ext_in. intros y Hy. apply H. right; exact Hy.
Qed.

(** ** What the selection means on the tree *)
Definition id_in (t : tax) (p : list N) (c : N) : bool :=
  match resolve t c with Some x => mem x p | None => false end.
Definition rarg_in (t : tax) (s : seq) (p : list N) (a : rarg) : bool :=
  match a with
  | RId c => id_in t p c
  | RSlot => match s_slot s with
             | Some f => match taxon_of t f with Some y => mem y p | None => false end
             | None => false
             end
  end.
(** the sequence is selected iff its lineage [p] carries every required rank, meets one of the clades to
    restrict to (when there is one) and none of the clades to ignore; -v complements *)
Definition sel_spec (t : tax) (s : seq) (p : list N) (g : gopts) : bool :=
  xorb (g_invert g)
       (forallb (fun r => existsb (has_rank_at t r) p) (g_require g) &&
        match g_restrict g with [] => true | l => existsb (rarg_in t s p) l end &&
        negb (existsb (id_in t p) (g_ignore g)))%bool.

Lemma pv_cases : forall A (l : list A) b, definite (pv_of l b).
Proof. intros A [|x l] b; unfold definite, pv_of; congruence. Qed.
Lemma pv_of_val : forall A (l : list A) b, pval (pv_of l b) = match l with [] => true | _ => b end.
Proof. intros A [|x l] b; reflexivity. Qed.

Lemma grep_sel_known : forall t g s x p, resolve t (seq_taxid s) = Some x -> path t x = Some p -> g_fatal t g = false ->
  grep_sel t g s = zb (sel_spec t s p g).
Proof.
  intros t g s x p R P F. unfold grep_sel. rewrite F.
  unfold g_fatal in F. apply negb_false_iff in F. apply andb_prop in F. destruct F as [F F3]. apply andb_prop in F. destruct F as [F1 F2].
  assert (Hrq : p_require t s g = pv_of (g_require g) (forallb (fun r => existsb (has_rank_at t r) p) (g_require g))).
  { unfold p_require. apply fold_and_map. intros r _. unfold seq_has_rank. rewrite R.
    destruct (at_rank_spec t x p r P) as [_ [H _]]. exact H. }
  assert (Hrs : p_restrict t s g = pv_of (g_restrict g) (existsb (rarg_in t s p) (g_restrict g))).
  { unfold p_restrict. apply fold_or_map. intros a Ha. destruct a as [c|]; simpl.
    - rewrite forallb_forall in F2. specialize (F2 _ Ha). simpl in F2. unfold id_in. destruct (resolve t c) as [y|]; [|discriminate].
      unfold seq_in_clade. rewrite R. apply (proj1 (subclade_spec t x p y P)).
    - destruct (s_slot s) as [f|]; auto. destruct (taxon_of t f) as [y|]; auto. rewrite R. apply (proj1 (subclade_spec t x p y P)). }
  assert (Hig : p_ignore t s g = pv_of (g_ignore g) (negb (existsb (id_in t p) (g_ignore g)))).
  { unfold p_ignore. destruct (g_ignore g) as [|c l] eqn:E; auto.
    rewrite (fold_or_map _ (seq_in_clade_id t s) (id_in t p)).
    - reflexivity.
    - intros c' Hc'. rewrite forallb_forall in F3. specialize (F3 _ Hc'). unfold seq_in_clade_id, id_in.
      destruct (resolve t c') as [y|]; [|discriminate]. unfold seq_in_clade. rewrite R. apply (proj1 (subclade_spec t x p y P)). }
  unfold p_select. rewrite Hrq, Hrs, Hig.
  remember (pv_of (g_require g) (forallb (fun r => existsb (has_rank_at t r) p) (g_require g))) as a eqn:Ea.
  remember (pv_of (g_restrict g) (existsb (rarg_in t s p) (g_restrict g))) as b eqn:Eb.
  remember (pv_of (g_ignore g) (negb (existsb (id_in t p) (g_ignore g)))) as c eqn:Ec.
  assert (Da : definite a) by (subst a; apply pv_cases). assert (Db : definite b) by (subst b; apply pv_cases). assert (Dc : definite c) by (subst c; apply pv_cases).
  destruct (p_and_val a b Da Db) as [Dab Vab]. destruct (p_and_val _ c Dab Dc) as [Dabc Vabc].
  assert (Va : pval a = forallb (fun r => existsb (has_rank_at t r) p) (g_require g)) by (subst a; destruct (g_require g); reflexivity).
  assert (Vb : pval b = match g_restrict g with [] => true | l => existsb (rarg_in t s p) l end) by (subst b; destruct (g_restrict g); reflexivity).
  assert (Vc : pval c = negb (existsb (id_in t p) (g_ignore g))) by (subst c; destruct (g_ignore g); reflexivity).
  clear Ea Eb Ec.
  assert (V : pval (p_and (p_and a b) c) = (forallb (fun r => existsb (has_rank_at t r) p) (g_require g) &&
        match g_restrict g with [] => true | l => existsb (rarg_in t s p) l end && negb (existsb (id_in t p) (g_ignore g)))%bool).
  { rewrite Vabc, Vab, Va, Vb, Vc. reflexivity. }
  unfold sel_spec. rewrite <- V.
  clear V Va Vb Vc Vab Vabc Hrq Hrs Hig. remember (p_and (p_and a b) c) as q eqn:Eq. clear Eq.
  destruct (g_invert g); [replace (xorb true (pval q)) with (negb (pval q)) by (destruct (pval q); reflexivity) |
                          replace (xorb false (pval q)) with (pval q) by (destruct (pval q); reflexivity)].
  - destruct (p_not_val q Dabc) as [Dn Vn]. rewrite <- Vn. destruct (p_not q) as [[bb|]|]; [reflexivity | exfalso; apply Dn; reflexivity | reflexivity].
  - destruct q as [[bb|]|]; [reflexivity | exfalso; apply Dabc; reflexivity | reflexivity].
Qed.

(** a sequence whose taxid the taxonomy does not know: kept only by selections made of -i alone *)
Lemma grep_sel_unknown : forall t g s, resolve t (seq_taxid s) = None -> g_fatal t g = false ->
  grep_sel t g s = zb (xorb (g_invert g) (match g_require g with [] => true | _ => false end && match g_restrict g with [] => true | _ => false end)%bool).
Proof.
  intros t g s R F. unfold grep_sel. rewrite F.
  unfold g_fatal in F. apply negb_false_iff in F. apply andb_prop in F. destruct F as [F F3]. apply andb_prop in F. destruct F as [F1 F2].
  assert (Hrq : p_require t s g = pv_of (g_require g) (forallb (fun _ => false) (g_require g))).
  { unfold p_require. apply fold_and_map. intros r _. unfold seq_has_rank. rewrite R. reflexivity. }
  assert (Hrs : p_restrict t s g = pv_of (g_restrict g) (existsb (fun _ => false) (g_restrict g))).
  { unfold p_restrict. apply fold_or_map. intros a Ha. destruct a as [c|]; simpl.
    - rewrite forallb_forall in F2. specialize (F2 _ Ha). simpl in F2. destruct (resolve t c) as [y|]; [|discriminate].
      unfold seq_in_clade. rewrite R. reflexivity.
    - destruct (s_slot s) as [f|]; auto. destruct (taxon_of t f) as [y|]; auto. rewrite R. reflexivity. }
  assert (Hig : p_ignore t s g = pv_of (g_ignore g) (negb (existsb (fun _ => false) (g_ignore g)))).
  { unfold p_ignore. destruct (g_ignore g) as [|c l] eqn:E; auto.
    rewrite (fold_or_map _ (seq_in_clade_id t s) (fun _ => false)).
    - reflexivity.
    - intros c' Hc'. rewrite forallb_forall in F3. specialize (F3 _ Hc'). unfold seq_in_clade_id.
      destruct (resolve t c') as [y|]; [|discriminate]. unfold seq_in_clade. rewrite R. reflexivity. }
  unfold p_select. rewrite Hrq, Hrs, Hig.
  assert (E1 : forall A (l : list A), existsb (fun _ => false) l = false) by (induction l; simpl; auto).
  assert (E2 : forall A (l : list A), forallb (fun _ => false) l = match l with [] => true | _ => false end) by (destruct l; simpl; auto).
  rewrite !E1, E2. unfold pv_of.
  destruct (g_require g), (g_restrict g), (g_ignore g), (g_invert g); reflexivity.
Qed.

(** -v (and --save-discarded) split the input: what one keeps the other drops *)
Definition flip (g : gopts) : gopts := mkgopts (g_require g) (g_restrict g) (g_ignore g) (negb (g_invert g)).
Lemma grep_sel_flip : forall t g s b, grep_sel t g s = zb b -> grep_sel t (flip g) s = zb (negb b).
Proof.
  intros t g s b H. unfold grep_sel in *. unfold g_fatal in *. simpl.
  destruct (negb _); [destruct b; discriminate|].
  unfold p_select in *. simpl.
  change (p_require t s (flip g)) with (p_require t s g).
  change (p_restrict t s (flip g)) with (p_restrict t s g).
  change (p_ignore t s (flip g)) with (p_ignore t s g).
  destruct (p_and (p_and (p_require t s g) (p_restrict t s g)) (p_ignore t s g)) as [[c|]|]; destruct (g_invert g); simpl in *;
    destruct b; try discriminate; try reflexivity; destruct c; simpl in *; try discriminate; reflexivity.
Qed.

(** several -i: dropped as soon as ONE of the ignored clades contains the taxon (not: all of them) *)
Definition only_ignore (ids : list N) : gopts := mkgopts [] [] ids false.
Lemma ignore_several : forall t s ids, ids <> [] -> g_fatal t (only_ignore ids) = false ->
  (resolve t (seq_taxid s) = None \/ exists x p, resolve t (seq_taxid s) = Some x /\ path t x = Some p) ->
  (grep_sel t (only_ignore ids) s = 1%Z <-> forall c, In c ids -> grep_sel t (only_ignore [c]) s = 1%Z).
Proof.
  intros t s ids Hne F Hs.
  assert (Fc : forall c, In c ids -> g_fatal t (only_ignore [c]) = false).
  { intros c Hc. unfold g_fatal in *. simpl in *. apply negb_false_iff in F. rewrite forallb_forall in F. rewrite (F c Hc). reflexivity. }
  destruct Hs as [R | [x [p [R P]]]].
  - rewrite (grep_sel_unknown t _ s R F). simpl. split; [|reflexivity].
    intros _ c Hc. rewrite (grep_sel_unknown t _ s R (Fc c Hc)). reflexivity.
  - rewrite (grep_sel_known t _ s x p R P F). unfold sel_spec; simpl.
    split.
    + intros H c Hc. rewrite (grep_sel_known t _ s x p R P (Fc c Hc)). unfold sel_spec; simpl.
      destruct (existsb (id_in t p) ids) eqn:E; [discriminate|].
      destruct (id_in t p c) eqn:Ec; auto. exfalso.
      assert (existsb (id_in t p) ids = true) by (apply existsb_exists; exists c; auto). congruence.
    + intros H. destruct (existsb (id_in t p) ids) eqn:E; auto. exfalso.
      apply existsb_exists in E. destruct E as [c [Hc Ec]]. specialize (H c Hc).
      rewrite (grep_sel_known t _ s x p R P (Fc c Hc)) in H. unfold sel_spec in H; simpl in H. rewrite Ec in H. discriminate.
Qed.

(** ** IsAValidTaxon with auto-correction: the rewritten taxid designates the same taxon, directly *)
Lemma resolve_fix : forall t y x, alias_ok t -> resolve t y = Some x -> resolve t x = Some x.
Proof.
  intros t y x A H. destruct (resolve_present t y x A H) as [v Hv]. unfold resolve. rewrite Hv. reflexivity.
Qed.

Lemma grep_sel_ext : forall t g s1 s2, resolve t (seq_taxid s1) = resolve t (seq_taxid s2) -> s_slot s1 = s_slot s2 ->
  grep_sel t g s1 = grep_sel t g s2.
Proof.
  intros t g s1 s2 R S. unfold grep_sel, p_select.
  assert (E1 : p_require t s1 g = p_require t s2 g).
  { unfold p_require. f_equal. apply map_ext. intros r. unfold seq_has_rank. rewrite R. reflexivity. }
  assert (E2 : p_restrict t s1 g = p_restrict t s2 g).
  { unfold p_restrict. f_equal. apply map_ext. intros [c|]; simpl; unfold seq_in_clade; rewrite R, ?S; reflexivity. }
  assert (E3 : p_ignore t s1 g = p_ignore t s2 g).
  { unfold p_ignore. destruct (g_ignore g) as [|c l]; auto. f_equal. f_equal. apply map_ext. intros c'.
    unfold seq_in_clade_id, seq_in_clade. rewrite R. reflexivity. }
  rewrite E1, E2, E3. reflexivity.
Qed.

Lemma autocorrect_stable : forall t s x, alias_ok t -> resolve t (seq_taxid s) = Some x -> 1 <= x ->
  let s' := snd (valid_taxon t true s) in
  fst (valid_taxon t true s) = true /\ seq_taxid s' = x /\ resolve t (seq_taxid s') = Some x /\
  valid_taxon t true s' = (true, s') /\
  (forall g, grep_sel t g s' = grep_sel t g s) /\
  (forall names r, rank_annot t names s' r = rank_annot t names s r) /\
  (forall names, path_annot t names s' = path_annot t names s).
Proof.
  intros t s x A R Hx. unfold valid_taxon. rewrite R. simpl.
  destruct (x =? seq_taxid s) eqn:E; simpl.
  - apply N.eqb_eq in E. rewrite R. rewrite <- E, N.eqb_refl. simpl. repeat split; auto.
  - assert (Hs : seq_taxid (set_taxid s x) = x).
    { unfold set_taxid, with_taxid, seq_taxid. simpl. destruct (x <? 1) eqn:L; auto. apply N.ltb_lt in L. lia. }
    assert (Rx : resolve t x = Some x) by (eapply resolve_fix; eauto).
    rewrite Hs, Rx, N.eqb_refl. simpl. repeat split; auto.
    + intros g. apply grep_sel_ext; [rewrite Hs, Rx, R; reflexivity | reflexivity].
    + intros names r. unfold rank_annot. rewrite Hs, Rx, R. reflexivity.
    + intros names. unfold path_annot. rewrite Hs, Rx, R. reflexivity.
Qed.

(** ** The path annotation: the lineage root first, each taxon with its own name and rank *)
Lemma hd_rev_lasto : forall (l : list N), hd_error (rev l) = lasto l.
Proof.
  intros l. destruct l as [|a l]; [reflexivity|].
  destruct (lasto_cons_some l a) as [z Hz]. rewrite Hz. destruct (lasto_some _ _ Hz) as [l0 E]. rewrite E.
  rewrite rev_app_distr. reflexivity.
Qed.

Lemma path_annot_shape : forall t names s x p l, resolve t (seq_taxid s) = Some x -> path t x = Some p ->
  path_annot t names s = Some l ->
  map (fun e : N * bstr * N => fst (fst e)) l = rev p /\
  (exists root r, hd_error (map (fun e : N * bstr * N => fst (fst e)) l) = Some root /\ get t root = Some (root, r)) /\
  lasto (map (fun e : N * bstr * N => fst (fst e)) l) = Some x /\
  (forall e, In e l -> snd (fst e) = sci_or_empty names (fst (fst e)) /\ rank_of t (fst (fst e)) = Some (snd e)).
Proof.
  intros t names s x p l R P H. unfold path_annot in H. rewrite R, P in H. inversion H; subst l; clear H.
  pose proof (path_sound t x p P) as IP.
  assert (M : map (fun e : N * bstr * N => fst (fst e))
                (map (fun w => (w, sci_or_empty names w, match rank_of t w with Some r => r | None => 0 end)) (rev p)) = rev p).
  { rewrite map_map. simpl. apply map_id. }
  rewrite M. split; [reflexivity|]. split; [|split].
  - destruct (is_path_last_root t x p IP) as [z [r [L G]]]. exists z, r. rewrite hd_rev_lasto. auto.
  - destruct (is_path_head t x p IP) as [l0 E]. rewrite E. apply lasto_rev_hd.
  - intros e He. apply in_map_iff in He. destruct He as [w [E Hw]]. subst e. simpl. split; auto.
    apply in_rev in Hw. destruct (is_path_in_table t x p IP w Hw) as [[q r] G]. unfold rank_of. rewrite G. reflexivity.
Qed.

(** ** The path attribute can be read back *)
Definition no_sep (s : bstr) : Prop := forall c, In c s -> c <> 64 /\ c <> 124.
Definition clean (e : path_field) : Prop := no_sep (fst (fst e)) /\ no_sep (snd (fst e)) /\ no_sep (snd e).

Lemma split_on_app : forall sep a b cur, (forall c, In c a -> c <> sep) ->
  split_on sep (a ++ sep :: b) cur = (rev cur ++ a) :: split_on sep b [].
Proof.
  intros sep a; induction a as [|c a IH]; intros b cur H; simpl.
  - rewrite N.eqb_refl, app_nil_r. reflexivity.
  - assert (c <> sep) by (apply H; left; reflexivity). destruct (c =? sep) eqn:E; [apply N.eqb_eq in E; contradiction|].
    rewrite IH by (intros d Hd; apply H; right; exact Hd). simpl. rewrite <- app_assoc. reflexivity.
Qed.

Lemma split_on_last : forall sep a cur, (forall c, In c a -> c <> sep) -> split_on sep a cur = [rev cur ++ a].
Proof.
  intros sep a; induction a as [|c a IH]; intros cur H; simpl.
  - rewrite app_nil_r. reflexivity.
  - assert (c <> sep) by (apply H; left; reflexivity). destruct (c =? sep) eqn:E; [apply N.eqb_eq in E; contradiction|].
    rewrite IH by (intros d Hd; apply H; right; exact Hd). simpl. rewrite <- app_assoc. reflexivity.
Qed.

Lemma parse_render_entry : forall e, clean e -> parse_entry (render_entry e) = Some e.
Proof.
  intros [[a b] c] [Ha [Hb Hc]]. simpl in *. unfold parse_entry, render_entry. simpl.
  rewrite split_on_app by (intros d Hd; apply Ha; exact Hd).
  rewrite split_on_app by (intros d Hd; apply Hb; exact Hd).
  rewrite split_on_last by (intros d Hd; apply Hc; exact Hd). reflexivity.
Qed.

Lemma render_entry_no_bar : forall e, clean e -> forall c, In c (render_entry e) -> c <> 124.
Proof.
  intros [[a b] c0] [Ha [Hb Hc]] c H. unfold render_entry in H. simpl in *.
  apply in_app_or in H. destruct H as [H|[H|H]]; [apply Ha; auto | subst; discriminate |].
  apply in_app_or in H. destruct H as [H|[H|H]]; [apply Hb; auto | subst; discriminate | apply Hc; auto].
Qed.

Lemma split_render_path : forall l, l <> [] -> (forall e, In e l -> clean e) ->
  split_on 124 (render_path l) [] = map render_entry l.
Proof.
  induction l as [|e l IH]; intros Hne H; [congruence|].
  destruct l as [|e2 l].
  - simpl. apply split_on_last. apply render_entry_no_bar. apply H; left; reflexivity.
  - change (render_path (e :: e2 :: l)) with (render_entry e ++ 124 :: render_path (e2 :: l)).
    rewrite split_on_app by (apply render_entry_no_bar; apply H; left; reflexivity).
    rewrite IH; [reflexivity | discriminate | intros e' He'; apply H; right; exact He'].
Qed.

Lemma all_some_parse : forall l, (forall e, In e l -> clean e) -> all_some (map parse_entry (map render_entry l)) = Some l.
Proof.
  induction l as [|e l IH]; intros H; simpl; auto.
  rewrite parse_render_entry by (apply H; left; reflexivity).
  rewrite IH by (intros e' He'; apply H; right; exact He'). reflexivity.
Qed.

Lemma parse_render_path : forall l, (forall e, In e l -> clean e) -> parse_path (render_path l) = Some l.
Proof.
  intros l H. destruct l as [|e l]; [reflexivity|].
  unfold parse_path.
  assert (N0 : render_path (e :: l) <> []).
  { destruct l; simpl; destruct e as [[a b] c]; unfold render_entry; simpl; destruct a; simpl; discriminate. }
  destruct (render_path (e :: l)) eqn:E; [congruence|]. rewrite <- E.
  rewrite split_render_path; [apply all_some_parse; exact H | discriminate | exact H].
Qed.

Lemma render_path_injective : forall l1 l2, (forall e, In e l1 -> clean e) -> (forall e, In e l2 -> clean e) ->
  render_path l1 = render_path l2 -> l1 = l2.
Proof.
  intros l1 l2 H1 H2 E. pose proof (parse_render_path l1 H1) as P1. rewrite E, (parse_render_path l2 H2) in P1. congruence.
Qed.

(** ** The three attribute names of AddLCAWorker *)
Lemma has_prefix_app : forall p s, has_prefix p s = true -> exists b, s = p ++ b /\ skipn (length p) s = b.
Proof.
  induction p as [|a p IH]; intros s H; simpl in *.
  - exists s; auto.
  - destruct s as [|c s]; [discriminate|]. apply andb_prop in H. destruct H as [H1 H2]. apply N.eqb_eq in H1; subst c.
    destruct (IH s H2) as [b [E S]]. exists b. simpl. split; [f_equal; exact E | exact S].
Qed.

Lemma has_prefix_refl_app : forall p b, has_prefix p (p ++ b) = true.
Proof. induction p as [|a p IH]; intros b; simpl; auto. rewrite N.eqb_refl, IH. reflexivity. Qed.

Lemma find1_sound : forall old s a b, find1 old s = Some (a, b) -> s = a ++ old ++ b.
Proof.
  intros old s; induction s as [|c s IH]; intros a b H.
  - simpl in H. destruct (has_prefix old []) eqn:P; [|discriminate]. inversion H; subst. destruct old; [reflexivity|discriminate].
  - simpl in H. destruct (has_prefix old (c :: s)) eqn:P.
    + inversion H; subst. destruct (has_prefix_app _ _ P) as [b' [E S]]. rewrite S. simpl. exact E.
    + destruct (find1 old s) as [[a' b']|] eqn:F; [|discriminate]. inversion H; subst. rewrite (IH a' b eq_refl). reflexivity.
Qed.

Lemma find1_prefix : forall old s, has_prefix old s = true -> find1 old s <> None.
Proof. intros old s H. destruct s; simpl; rewrite H; discriminate. Qed.

Lemma find1_complete : forall old a b, find1 old (a ++ old ++ b) <> None.
Proof.
  intros old a b; induction a as [|c a IH].
  - simpl. apply find1_prefix. apply has_prefix_refl_app.
  - simpl. destruct (has_prefix old (c :: a ++ old ++ b)); [discriminate|].
    destruct (find1 old (a ++ old ++ b)) as [[a' b']|]; [discriminate | exact IH].
Qed.

Lemma has_suffix_app : forall p s, has_suffix p s = true -> exists a, s = a ++ p.
Proof.
  intros p s H. unfold has_suffix in H. destruct (has_prefix_app _ _ H) as [b [E _]].
  exists (rev b). rewrite <- (rev_involutive s), E, rev_app_distr, rev_involutive. reflexivity.
Qed.

Lemma has_suffix_refl_app : forall a p, has_suffix p (a ++ p) = true.
Proof. intros a p. unfold has_suffix. rewrite rev_app_distr. apply has_prefix_refl_app. Qed.

Lemma lca_slot_suffix : forall slot, has_suffix taxid_s (lca_slot slot) = true.
Proof.
  intros slot. unfold lca_slot. destruct (has_suffix taxid_s slot) eqn:E; auto.
  unfold utaxid_s. change (95 :: taxid_s) with ([95] ++ taxid_s). rewrite app_assoc. apply has_suffix_refl_app.
Qed.

Lemma lca_keys_distinct : forall slot k1 k2 k3, lca_keys slot = (k1, k2, k3) ->
  k1 <> k2 /\ k1 <> k3 /\ k2 <> k3 /\ has_suffix taxid_s k1 = true.
Proof.
  intros slot k1 k2 k3 H. unfold lca_keys in H. cbv zeta in H.
  pose proof (lca_slot_suffix slot) as S. remember (lca_slot slot) as s eqn:Es. clear Es.
  destruct (has_suffix_app _ _ S) as [a0 E0].
  unfold replace1 in H. destruct (find1 taxid_s s) as [[a b]|] eqn:F.
  2:{ exfalso. apply (find1_complete taxid_s a0 []). rewrite app_nil_r, <- E0. exact F. }
  pose proof (find1_sound _ _ _ _ F) as E.
  injection H as H1 H2 H3. subst k1 k2 k3.
  change (a ++ 110 :: 97 :: 109 :: 101 :: b) with (a ++ name_s ++ b).
  change (a ++ 101 :: 114 :: 114 :: 111 :: 114 :: b) with (a ++ error_s ++ b).
  split; [|split; [|split]]; auto.
  - (* taxid key <> name key *)
    destruct (beqb (a ++ name_s ++ b) name_s) eqn:B.
    + apply beqb_eq in B. apply (f_equal (@length N)) in B. rewrite !app_length in B. unfold taxid_s, name_s, error_s in B. simpl in B.
      destruct a, b; simpl in B; try lia. simpl in E. rewrite E. vm_compute. discriminate.
    + rewrite E. intros C. apply (f_equal (@length N)) in C. rewrite !app_length in C. unfold taxid_s, name_s, error_s in C. simpl in C. lia.
  - (* taxid key <> error key *)
    destruct (beqb (a ++ error_s ++ b) error_s) eqn:B.
    + apply beqb_eq in B. apply (f_equal (@length N)) in B. rewrite !app_length in B. unfold taxid_s, name_s, error_s in B. simpl in B.
      destruct a, b; simpl in B; try lia. simpl in E. rewrite E. vm_compute. discriminate.
    + rewrite E. intros C. apply app_inv_head in C. vm_compute in C. discriminate.
  - (* name key <> error key *)
    destruct (beqb (a ++ name_s ++ b) name_s) eqn:B1; destruct (beqb (a ++ error_s ++ b) error_s) eqn:B2.
    + vm_compute. discriminate.
    + apply beqb_eq in B1. apply (f_equal (@length N)) in B1. rewrite !app_length in B1. unfold taxid_s, name_s, error_s in B1. simpl in B1.
      destruct a, b; simpl in B1; try lia. vm_compute. discriminate.
    + apply beqb_eq in B2. apply (f_equal (@length N)) in B2. rewrite !app_length in B2. unfold taxid_s, name_s, error_s in B2. simpl in B2.
      destruct a, b; simpl in B2; try lia. vm_compute. discriminate.
    + intros C. apply (f_equal (@length N)) in C. rewrite !app_length in C. unfold taxid_s, name_s, error_s in C. simpl in C. lia.
Qed.

(** a slot name that does not contain "taxid": <slot>_taxid, <slot>_name, <slot>_error *)
Example lca_keys_examples :
  lca_keys [120] = ([120] ++ utaxid_s, [120; 95] ++ name_s, [120; 95] ++ error_s) /\
  lca_keys taxid_s = (taxid_s, scientific_name_s, lca_error_s) /\
  lca_keys ([109; 121] ++ taxid_s) = ([109; 121] ++ taxid_s, [109; 121] ++ name_s, [109; 121] ++ error_s) /\
  lca_keys (taxid_s ++ [120]) = (taxid_s ++ [120] ++ utaxid_s, name_s ++ [120] ++ utaxid_s, error_s ++ [120] ++ utaxid_s).
Proof. vm_compute. repeat split. Qed.

(** ** Annotation with the taxon at a rank (species / genus / family / --with-taxon-at-rank): the first taxon of the
    lineage that carries the rank, with its own scientific name; -1 / NA when there is none *)
Lemma rank_annot_spec : forall t names s x p r, resolve t (seq_taxid s) = Some x -> path t x = Some p ->
  rank_annot t names s r =
  Some (Some (match find (has_rank_at t r) p with
              | Some z => (Z.of_N z, sci_or_empty names z)
              | None => ((-1)%Z, na_name)
              end)).
Proof.
  intros t names s x p r R P. unfold rank_annot. rewrite R.
  destruct (at_rank_spec t x p r P) as [H _]. rewrite H.
  destruct (find (has_rank_at t r) p); reflexivity.
Qed.

Lemma rank_annot_unknown : forall t names s r, resolve t (seq_taxid s) = None -> rank_annot t names s r = Some None.
Proof. intros t names s r R. unfold rank_annot. rewrite R. reflexivity. Qed.

(** ** The name index lists nodes only: the rows of names.dmp whose taxid is no node name nobody *)
Lemma name_index_spec : forall t names n x,
  In x (name_index t names n) <-> present t x /\ exists c, In (x, n, c) names.
Proof.
  intros t names n x. unfold name_index. rewrite in_map_iff. split.
  - intros [[[y m] c] [E H]]. simpl in E. subst y. apply filter_In in H. destruct H as [H B]. simpl in B.
    apply andb_prop in B. destruct B as [B1 B2]. apply beqb_eq in B1. subst m.
    split; [|exists c; exact H]. unfold present. unfold is_some in B2. destruct (get t x) as [v|]; [exists v; reflexivity | discriminate].
  - intros [[v Hv] [c H]]. exists (x, n, c). split; [reflexivity|]. apply filter_In. split; [exact H|]. simpl.
    rewrite Hv. simpl. rewrite andb_true_r. apply beqb_eq. reflexivity.
Qed.

(** a slot name without any "taxid" in it: <slot>_taxid, <slot>_name, <slot>_error *)
Lemma find1_none_no_prefix : forall old s, find1 old s = None -> has_prefix old s = false.
Proof. intros old s H. destruct s; simpl in H; destruct (has_prefix old _) eqn:P; auto; discriminate. Qed.

Lemma has_prefix_cut : forall sep old u v, ~ In sep old -> has_prefix old (u ++ sep :: v) = true -> has_prefix old u = true.
Proof.
  intros sep old; induction old as [|a old IH]; intros u v Hn H; [reflexivity|].
  destruct u as [|c u]; simpl in *.
  - apply andb_prop in H. destruct H as [H _]. apply N.eqb_eq in H. subst a. exfalso. apply Hn. left; reflexivity.
  - apply andb_prop in H. destruct H as [H1 H2]. rewrite H1. simpl. apply (IH u v); auto.
Qed.

Lemma has_prefix_refl : forall p, has_prefix p p = true.
Proof. induction p as [|a p IH]; simpl; auto. rewrite N.eqb_refl. exact IH. Qed.

Lemma skipn_length_self : forall (p : bstr), skipn (length p) p = [].
Proof. induction p; simpl; auto. Qed.

Lemma find1_app_sep : forall sep old slot, ~ In sep old -> old <> [] -> find1 old slot = None ->
  find1 old (slot ++ sep :: old) = Some (slot ++ [sep], []).
Proof.
  intros sep old slot Hn Hne; induction slot as [|c r IH]; intros H.
  - destruct old as [|a o]; [congruence|]. simpl app.
    assert (E : has_prefix (a :: o) (sep :: a :: o) = false).
    { simpl. destruct (a =? sep) eqn:E; auto. apply N.eqb_eq in E. subst a. exfalso. apply Hn. left; reflexivity. }
    change (find1 (a :: o) (sep :: a :: o)) with
      (if has_prefix (a :: o) (sep :: a :: o) then Some ([], skipn (length (a :: o)) (sep :: a :: o)) else
         match find1 (a :: o) (a :: o) with Some (x, y) => Some (sep :: x, y) | None => None end).
    rewrite E.
    change (find1 (a :: o) (a :: o)) with
      (if has_prefix (a :: o) (a :: o) then Some ([], skipn (length (a :: o)) (a :: o)) else
         match find1 (a :: o) o with Some (x, y) => Some (a :: x, y) | None => None end).
    rewrite has_prefix_refl, skipn_length_self. reflexivity.
  - simpl in H. destruct (has_prefix old (c :: r)) eqn:P; [discriminate|].
    destruct (find1 old r) as [[x y]|] eqn:F; [discriminate|].
    simpl app.
    change (find1 old (c :: r ++ sep :: old)) with
      (if has_prefix old (c :: r ++ sep :: old) then Some ([], skipn (length old) (c :: r ++ sep :: old)) else
         match find1 old (r ++ sep :: old) with Some (x, y) => Some (c :: x, y) | None => None end).
    destruct (has_prefix old (c :: r ++ sep :: old)) eqn:Q.
    + exfalso. change (c :: r ++ sep :: old) with ((c :: r) ++ sep :: old) in Q.
      rewrite (has_prefix_cut sep old (c :: r) old Hn Q) in P. discriminate.
    + rewrite (IH eq_refl). reflexivity.
Qed.

(** a slot name that does not contain "taxid": <slot>_taxid, <slot>_name, <slot>_error *)
Lemma lca_keys_plain : forall slot, find1 taxid_s slot = None ->
  lca_keys slot = (slot ++ utaxid_s, slot ++ 95 :: name_s, slot ++ 95 :: error_s).
Proof.
  intros slot H. unfold lca_keys.
  assert (S : has_suffix taxid_s slot = false).
  { destruct (has_suffix taxid_s slot) eqn:E; auto. destruct (has_suffix_app _ _ E) as [a Ea]. exfalso.
    apply (find1_complete taxid_s a []). rewrite app_nil_r, <- Ea. exact H. }
  unfold lca_slot. rewrite S. unfold replace1, utaxid_s.
  rewrite (find1_app_sep 95 taxid_s slot); [| vm_compute; intuition discriminate | discriminate | exact H].
  rewrite !app_nil_r.
  assert (B1 : beqb ((slot ++ [95]) ++ name_s) name_s = false).
  { destruct (beqb ((slot ++ [95]) ++ name_s) name_s) eqn:B; auto. apply beqb_eq in B.
    apply (f_equal (@length N)) in B. rewrite !app_length in B. simpl in B. lia. }
  assert (B2 : beqb ((slot ++ [95]) ++ error_s) error_s = false).
  { destruct (beqb ((slot ++ [95]) ++ error_s) error_s) eqn:B; auto. apply beqb_eq in B.
    apply (f_equal (@length N)) in B. rewrite !app_length in B. simpl in B. lia. }
  rewrite B1, B2. rewrite <- !app_assoc. reflexivity.
Qed.
