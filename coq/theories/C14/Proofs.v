(** C14 — lemmas about the taxonomy model. *)
From Coq Require Import NArith ZArith List Bool Lia FMapPositive Permutation.
Import ListNotations.
From OBI.C14 Require Import Model.
Open Scope N_scope.

(** ** Lineages as a relation: [is_path t x p] — p starts at x, follows parent links, ends at a self-looped node *)
Inductive is_path (t : tax) : N -> list N -> Prop :=
| ip_root : forall x r, get t x = Some (x, r) -> is_path t x [x]
| ip_step : forall x p r l, get t x = Some (p, r) -> p <> x -> is_path t p l -> is_path t x (x :: l).

Lemma is_path_head : forall t x p, is_path t x p -> exists l, p = x :: l.
Proof. intros t x p H; inversion H; eauto. Qed.

Lemma is_path_fun : forall t x p1, is_path t x p1 -> forall p2, is_path t x p2 -> p1 = p2.
Proof.
  intros t x p1 H; induction H as [x r Hg | x p r l Hg Hne Hp IH]; intros p2 H2.
  - inversion H2 as [x' r' Hg' | x' p' r' l' Hg' Hne' Hp']; subst; auto.
    rewrite Hg in Hg'; inversion Hg'; subst; congruence.
  - inversion H2 as [x' r' Hg' | x' p' r' l' Hg' Hne' Hp']; subst.
    + rewrite Hg in Hg'; inversion Hg'; subst; congruence.
    + rewrite Hg in Hg'; inversion Hg'; subst. f_equal; auto.
Qed.

(** every suffix of a lineage is the lineage of its first element *)
Lemma is_path_suffix : forall t l x w rest, is_path t x (l ++ w :: rest) -> is_path t w (w :: rest).
Proof.
  intros t l; induction l as [|a l IH]; intros x w rest H; simpl in H.
  - destruct (is_path_head _ _ _ H) as [l' E]; inversion E; subst; auto.
  - inversion H as [x' r' Hg' E1 | x' p' r' l' Hg' Hne' Hp']; subst.
    + destruct l; discriminate.
    + eapply IH; eauto.
Qed.

Lemma is_path_NoDup : forall t x p, is_path t x p -> NoDup p.
Proof.
  intros t x p H; induction H as [x r Hg | x p r l Hg Hne Hp IH].
  - constructor; [intros []|constructor].
  - constructor; auto. intros Hin.
    destruct (in_split _ _ Hin) as [l1 [l2 E]]; subst l.
    assert (Hx : is_path t x (x :: l2)) by (eapply is_path_suffix; eauto).
    assert (Hx2 : is_path t x (x :: l1 ++ x :: l2)) by (econstructor; eauto).
    pose proof (is_path_fun _ _ _ Hx _ Hx2) as E.
    apply (f_equal (@length N)) in E; simpl in E; rewrite app_length in E; simpl in E; lia.
Qed.

(** consecutive elements are child / parent; the last one is a self-looped root *)
Fixpoint chain (t : tax) (p : list N) : Prop :=
  match p with
  | [] => False
  | [x] => exists r, get t x = Some (x, r)
  | x :: ((y :: _) as l) => (exists r, get t x = Some (y, r)) /\ y <> x /\ chain t l
  end.

Lemma is_path_chain : forall t x p, is_path t x p -> chain t p.
Proof.
  intros t x p H; induction H as [x r Hg | x p r l Hg Hne Hp IH]; simpl; eauto.
  destruct (is_path_head _ _ _ Hp) as [l' E]; subst l. split; eauto.
Qed.

Lemma chain_is_path : forall t p x l, p = x :: l -> chain t p -> is_path t x p.
Proof.
  intros t p; induction p as [|a p IH]; intros x l E H; [discriminate|].
  inversion E; subst. destruct l as [|y l].
  - destruct H as [r Hg]; econstructor; eauto.
  - destruct H as [[r Hg] [Hne Hc]]. econstructor; eauto.
Qed.

Lemma is_path_last_root : forall t x p, is_path t x p -> exists z r, lasto p = Some z /\ get t z = Some (z, r).
Proof.
  intros t x p H; induction H as [x r Hg | x p r l Hg Hne Hp IH]; simpl; eauto.
  destruct IH as [z [r' [Hl Hz]]]. exists z, r'; split; auto.
  destruct l; [discriminate|auto].
Qed.

(** ** path_f computes the lineage *)
Lemma path_f_sound : forall fuel t x p, path_f fuel t x = Some p -> is_path t x p.
Proof.
  induction fuel as [|f IH]; intros t x p H; simpl in H; [discriminate|].
  destruct (get t x) as [[q r]|] eqn:Hg; [|discriminate].
  destruct (q =? x) eqn:Hq.
  - apply N.eqb_eq in Hq; subst. inversion H; subst. econstructor; eauto.
  - apply N.eqb_neq in Hq. destruct (path_f f t q) as [l|] eqn:Hp; simpl in H; [|discriminate].
    inversion H; subst. econstructor; eauto.
Qed.

Lemma path_f_complete : forall t x p, is_path t x p -> forall fuel, (length p <= fuel)%nat -> path_f fuel t x = Some p.
Proof.
  intros t x p H; induction H as [x r Hg | x p r l Hg Hne Hp IH]; intros fuel Hf; simpl in Hf.
  - destruct fuel; [lia|]. simpl. rewrite Hg, N.eqb_refl. reflexivity.
  - destruct fuel; [lia|]. simpl. rewrite Hg.
    apply N.eqb_neq in Hne; rewrite Hne. rewrite IH by lia. reflexivity.
Qed.

(** a lineage has no repetition and stays inside the node table: it is not longer than the table *)
Lemma key_inj : forall a b, key a = key b -> a = b.
Proof.
  intros a b H. unfold key in H.
  assert (E : N.pos (N.succ_pos a) = N.pos (N.succ_pos b)) by (rewrite H; reflexivity).
  rewrite !N.succ_pos_spec in E. lia.
Qed.

Lemma is_path_in_table : forall t x p, is_path t x p -> forall y, In y p -> exists v, get t y = Some v.
Proof.
  intros t x p H; induction H as [x r Hg | x p r l Hg Hne Hp IH]; intros y Hy.
  - destruct Hy as [<-|[]]; eauto.
  - destruct Hy as [<-|Hy]; eauto.
Qed.

Lemma is_path_length : forall t x p, is_path t x p -> (length p <= PM.cardinal (t_nodes t))%nat.
Proof.
  intros t x p H.
  rewrite PM.cardinal_1.
  pose proof (is_path_NoDup _ _ _ H) as Hnd.
  pose proof (is_path_in_table _ _ _ H) as Hin.
  assert (Hnd' : NoDup (map key p)).
  { clear Hin H. induction Hnd as [|a l Hn Hnd IH]; simpl; constructor; auto.
    intros Hm. apply in_map_iff in Hm. destruct Hm as [b [Hk Hb]]. apply key_inj in Hk; subst; auto. }
  assert (Hincl : incl (map key p) (map fst (PM.elements (t_nodes t)))).
  { intros k Hk. apply in_map_iff in Hk. destruct Hk as [y [<- Hy]].
    destruct (Hin y Hy) as [v Hv]. unfold get in Hv.
    apply PM.elements_correct in Hv. apply in_map_iff. exists (key y, v); auto. }
  pose proof (NoDup_incl_length Hnd' Hincl) as L. rewrite !map_length in L. exact L.
Qed.

Lemma path_complete : forall t x p, is_path t x p -> path t x = Some p.
Proof.
  intros t x p H. unfold path, fuel_of. apply path_f_complete; auto.
  pose proof (is_path_length _ _ _ H). lia.
Qed.

Lemma path_sound : forall t x p, path t x = Some p -> is_path t x p.
Proof. intros t x p H. eapply path_f_sound; eauto. Qed.

Lemma path_iff : forall t x p, path t x = Some p <-> is_path t x p.
Proof. split; [apply path_sound|apply path_complete]. Qed.

(** ** Longest common prefix of the reversed lineages *)
Lemma cpre_comm : forall r1 r2, cpre r1 r2 = cpre r2 r1.
Proof.
  induction r1 as [|a r1 IH]; destruct r2 as [|b r2]; simpl; auto.
  rewrite (N.eqb_sym b a). destruct (a =? b) eqn:E; auto.
  apply N.eqb_eq in E; subst. f_equal; auto.
Qed.

Lemma cpre_refl : forall r, cpre r r = r.
Proof. induction r as [|a r IH]; simpl; auto. rewrite N.eqb_refl, IH; auto. Qed.

Lemma cpre_prefix : forall r1 r2, exists d1 d2, r1 = cpre r1 r2 ++ d1 /\ r2 = cpre r1 r2 ++ d2.
Proof.
  induction r1 as [|a r1 IH]; intros r2.
  - exists [], r2; simpl; auto.
  - destruct r2 as [|b r2]; simpl.
    + exists (a :: r1), []; auto.
    + destruct (a =? b) eqn:E.
      * apply N.eqb_eq in E; subst. destruct (IH r2) as [d1 [d2 [E1 E2]]].
        exists d1, d2; simpl; split; f_equal; auto.
      * exists (a :: r1), (b :: r2); auto.
Qed.

Lemma cpre_max : forall c e1 e2, exists e, cpre (c ++ e1) (c ++ e2) = c ++ e.
Proof.
  induction c as [|a c IH]; intros e1 e2; simpl.
  - eauto.
  - rewrite N.eqb_refl. destruct (IH e1 e2) as [e E]. exists e; rewrite E; auto.
Qed.

Lemma lasto_app1 : forall l z, lasto (l ++ [z]) = Some z.
Proof.
  induction l as [|a l IH]; intros z; simpl; auto.
  rewrite IH. destruct (l ++ [z]) eqn:E; auto. destruct l; discriminate.
Qed.

Lemma lasto_some : forall l z, lasto l = Some z -> exists l0, l = l0 ++ [z].
Proof.
  induction l as [|a l IH]; intros z H; simpl in H; [discriminate|].
  destruct l as [|b l].
  - inversion H; subst. exists []; auto.
  - destruct (IH z H) as [l0 E]. exists (a :: l0). rewrite E; auto.
Qed.

Lemma lasto_rev_hd : forall x l, lasto (rev (x :: l)) = Some x.
Proof. intros; simpl. apply lasto_app1. Qed.

(** ancestor-or-self *)
Definition anc (t : tax) (x w : N) : Prop := exists p, is_path t x p /\ In w p.

Lemma anc_refl : forall t x p, is_path t x p -> anc t x x.
Proof. intros t x p H. exists p; split; auto. destruct (is_path_head _ _ _ H) as [l ->]; simpl; auto. Qed.

Lemma anc_trans : forall t x y w, anc t x y -> anc t y w -> anc t x w.
Proof.
  intros t x y w [px [Hx Hy]] [py [Hpy Hw]].
  destruct (in_split _ _ Hy) as [l [s E]]; subst px.
  pose proof (is_path_suffix _ _ _ _ _ Hx) as Hy'.
  rewrite (is_path_fun _ _ _ Hpy _ Hy') in Hw.
  exists (l ++ y :: s); split; auto. apply in_or_app; right; auto.
Qed.

Lemma anc_antisym : forall t z w, anc t z w -> anc t w z -> z = w.
Proof.
  intros t z w [pz [Hz Hw]] [pw [Hpw Hzw]].
  destruct (in_split _ _ Hw) as [l [s E]]; subst pz.
  pose proof (is_path_suffix _ _ _ _ _ Hz) as Hw'.
  rewrite (is_path_fun _ _ _ Hpw _ Hw') in Hzw.
  destruct Hzw as [->|Hzs]; auto.
  destruct (in_split _ _ Hzs) as [s1 [s2 E]]; subst s.
  assert (Hz2 : is_path t z (z :: s2)).
  { apply (is_path_suffix t (l ++ w :: s1) z z s2). rewrite <- app_assoc; simpl; auto. }
  pose proof (is_path_fun _ _ _ Hz _ Hz2) as E.
  apply (f_equal (@length N)) in E. rewrite !app_length in E; simpl in E. rewrite app_length in E; simpl in E. lia.
Qed.

Lemma anc_depth : forall t z w pz pw, is_path t z pz -> is_path t w pw -> In w pz -> (length pw <= length pz)%nat.
Proof.
  intros t z w pz pw Hz Hpw Hw.
  destruct (in_split _ _ Hw) as [l [s E]]; subst pz.
  pose proof (is_path_suffix _ _ _ _ _ Hz) as Hw'.
  rewrite (is_path_fun _ _ _ Hpw _ Hw'). rewrite app_length; simpl; lia.
Qed.

(** the LCA computed on two lineages that end at the same root *)
Lemma lca_paths_spec : forall t x y p1 p2,
  is_path t x p1 -> is_path t y p2 -> lasto p1 = lasto p2 ->
  exists z pz, lca_paths p1 p2 = Some z /\ is_path t z pz /\ rev pz = cpre (rev p1) (rev p2) /\
               (forall w, In w pz <-> In w p1 /\ In w p2).
Proof.
  intros t x y p1 p2 H1 H2 Hroot.
  destruct (is_path_last_root _ _ _ H1) as [root [rr [Hl1 _]]].
  assert (Hl2 : lasto p2 = Some root) by congruence.
  destruct (lasto_some _ _ Hl1) as [q1 E1]. destruct (lasto_some _ _ Hl2) as [q2 E2].
  destruct (cpre_prefix (rev p1) (rev p2)) as [d1 [d2 [Ed1 Ed2]]].
  remember (cpre (rev p1) (rev p2)) as c eqn:Hc.
  assert (Hne : exists c0 z, c = c0 ++ [z]).
  { assert (Hc' : exists e, c = [root] ++ e).
    { rewrite Hc, E1, E2, !rev_app_distr; simpl. rewrite N.eqb_refl. eauto. }
    destruct Hc' as [e ->]. destruct (@exists_last _ ([root] ++ e)) as [c0 [z E]]; [discriminate|]. eauto. }
  destruct Hne as [c0 [z Ec]].
  assert (P1 : p1 = rev d1 ++ z :: rev c0).
  { rewrite <- (rev_involutive p1), Ed1, Ec, !rev_app_distr; simpl. try rewrite <- app_assoc; reflexivity. }
  assert (P2 : p2 = rev d2 ++ z :: rev c0).
  { rewrite <- (rev_involutive p2), Ed2, Ec, !rev_app_distr; simpl. try rewrite <- app_assoc; reflexivity. }
  assert (Hz : is_path t z (z :: rev c0)) by (rewrite P1 in H1; eapply is_path_suffix; eauto).
  exists z, (z :: rev c0). repeat split.
  - unfold lca_paths. rewrite <- Hc, Ec. apply lasto_app1.
  - exact Hz.
  - rewrite Ec. simpl. rewrite rev_involutive. reflexivity.
  - rewrite P1. apply in_or_app; right; auto.
  - rewrite P2. apply in_or_app; right; auto.
  - intros [Hw1 Hw2].
    destruct (in_split _ _ Hw1) as [l1 [s1 F1]]. destruct (in_split _ _ Hw2) as [l2 [s2 F2]].
    assert (Hws1 : is_path t w (w :: s1)) by (rewrite F1 in H1; eapply is_path_suffix; eauto).
    assert (Hws2 : is_path t w (w :: s2)) by (rewrite F2 in H2; eapply is_path_suffix; eauto).
    pose proof (is_path_fun _ _ _ Hws1 _ Hws2) as Es. inversion Es; subst s2.
    assert (R1 : rev p1 = rev (w :: s1) ++ rev l1).
    { rewrite F1, rev_app_distr. reflexivity. }
    assert (R2 : rev p2 = rev (w :: s1) ++ rev l2).
    { rewrite F2, rev_app_distr. reflexivity. }
    destruct (cpre_max (rev (w :: s1)) (rev l1) (rev l2)) as [e Ee].
    rewrite <- R1, <- R2, <- Hc, Ec in Ee.
    assert (Hin : In w (c0 ++ [z])).
    { rewrite Ee. apply in_or_app; left. apply in_rev. rewrite rev_involutive. simpl; auto. }
    apply in_app_or in Hin. destruct Hin as [Hin|[<-|[]]]; simpl; auto.
    right. apply in_rev in Hin. exact Hin.
Qed.

(** ** Well-formed taxonomies *)
Record wf_tax (t : tax) : Prop := {
  wf_root : exists root, (exists r, get t root = Some (root, r)) /\ forall x r, get t x = Some (x, r) -> x = root;
  wf_parent : forall x p r, get t x = Some (p, r) -> exists v, get t p = Some v;
  wf_reach : forall x v, get t x = Some v -> exists p, is_path t x p
}.

Lemma wf_same_root : forall t x y p1 p2, wf_tax t -> is_path t x p1 -> is_path t y p2 -> lasto p1 = lasto p2.
Proof.
  intros t x y p1 p2 [[root [_ Hr]] _ _] H1 H2.
  destruct (is_path_last_root _ _ _ H1) as [z1 [r1 [L1 G1]]].
  destruct (is_path_last_root _ _ _ H2) as [z2 [r2 [L2 G2]]].
  rewrite L1, L2. rewrite (Hr _ _ G1), (Hr _ _ G2). reflexivity.
Qed.

Definition present (t : tax) (x : N) : Prop := exists v, get t x = Some v.

Lemma lca_char : forall t x y, wf_tax t -> present t x -> present t y ->
  exists z, lca t x y = Some z /\ present t z /\ (forall u, anc t z u <-> anc t x u /\ anc t y u).
Proof.
  intros t x y W [vx Hx] [vy Hy].
  destruct (wf_reach _ W _ _ Hx) as [p1 H1]. destruct (wf_reach _ W _ _ Hy) as [p2 H2].
  destruct (lca_paths_spec _ _ _ _ _ H1 H2 (wf_same_root _ _ _ _ _ W H1 H2)) as [z [pz [Hl [Hz [_ Hin]]]]].
  exists z. split; [|split].
  - unfold lca. rewrite (path_complete _ _ _ H1), (path_complete _ _ _ H2). exact Hl.
  - inversion Hz; subst; eexists; eauto.
  - intros u; split.
    + intros [q [Hq Hu]]. rewrite (is_path_fun _ _ _ Hq _ Hz) in Hu. apply Hin in Hu.
      split; [exists p1|exists p2]; tauto.
    + intros [[q1 [Hq1 Hu1]] [q2 [Hq2 Hu2]]].
      rewrite (is_path_fun _ _ _ Hq1 _ H1) in Hu1. rewrite (is_path_fun _ _ _ Hq2 _ H2) in Hu2.
      exists pz; split; auto. apply Hin; auto.
Qed.

Lemma present_anc_refl : forall t x, wf_tax t -> present t x -> anc t x x.
Proof. intros t x W [v H]. destruct (wf_reach _ W _ _ H) as [p Hp]. eapply anc_refl; eauto. Qed.

Lemma lca_comm : forall t x y, lca t x y = lca t y x.
Proof.
  intros; unfold lca. destruct (path t x), (path t y); auto.
  unfold lca_paths. rewrite cpre_comm. reflexivity.
Qed.

Lemma lca_idem : forall t x p, is_path t x p -> lca t x x = Some x.
Proof.
  intros t x p H. unfold lca. rewrite (path_complete _ _ _ H). unfold lca_paths. rewrite cpre_refl.
  destruct (is_path_head _ _ _ H) as [l ->]. apply lasto_rev_hd.
Qed.

Definition obind {A B} (o : option A) (f : A -> option B) : option B := match o with Some a => f a | None => None end.

Lemma lca_assoc : forall t x y w, wf_tax t -> present t x -> present t y -> present t w ->
  obind (lca t x y) (fun a => lca t a w) = obind (lca t y w) (fun c => lca t x c) /\
  exists b, obind (lca t x y) (fun a => lca t a w) = Some b.
Proof.
  intros t x y w W Px Py Pw.
  destruct (lca_char t x y W Px Py) as [a [Ha [Pa Ca]]].
  destruct (lca_char t a w W Pa Pw) as [b [Hb [Pb Cb]]].
  destruct (lca_char t y w W Py Pw) as [c [Hc [Pc Cc]]].
  destruct (lca_char t x c W Px Pc) as [d [Hd [Pd Cd]]].
  rewrite Ha, Hc; simpl. rewrite Hb, Hd. split; [|eauto]. f_equal.
  apply (anc_antisym t).
  - apply Cb. cut (anc t x d /\ anc t c d). { intros [A1 A2]. apply Cc in A2. split; [apply Ca|]; tauto. }
    apply Cd. apply present_anc_refl; auto.
  - apply Cd. cut (anc t a b /\ anc t w b). { intros [A1 A2]. apply Ca in A1. split; [|apply Cc]; tauto. }
    apply Cb. apply present_anc_refl; auto.
Qed.

Lemma lca_deepest : forall t x y, wf_tax t -> present t x -> present t y ->
  exists z, lca t x y = Some z /\ anc t x z /\ anc t y z /\
            (forall w, anc t x w -> anc t y w -> anc t z w) /\
            (forall w pw pz, anc t x w -> anc t y w -> is_path t w pw -> is_path t z pz -> (length pw <= length pz)%nat).
Proof.
  intros t x y W Px Py. destruct (lca_char t x y W Px Py) as [z [Hz [Pz C]]].
  exists z. pose proof (present_anc_refl _ _ W Pz) as R. apply C in R. destruct R as [R1 R2].
  repeat split; auto.
  - intros w A1 A2. apply C; auto.
  - intros w pw pz A1 A2 Hw Hpz. assert (A : anc t z w) by (apply C; auto).
    destruct A as [q [Hq Hin]]. rewrite (is_path_fun _ _ _ Hq _ Hpz) in Hin. eapply anc_depth; eauto.
Qed.

Lemma path_shape : forall t x p, path t x = Some p ->
  hd_error p = Some x /\ (exists z r, lasto p = Some z /\ get t z = Some (z, r)) /\ chain t p /\ NoDup p.
Proof.
  intros t x p H. apply path_sound in H. repeat split.
  - destruct (is_path_head _ _ _ H) as [l ->]; auto.
  - eapply is_path_last_root; eauto.
  - eapply is_path_chain; eauto.
  - eapply is_path_NoDup; eauto.
Qed.

Lemma path_total : forall t x, wf_tax t -> present t x -> exists p, path t x = Some p.
Proof. intros t x W [v H]. destruct (wf_reach _ W _ _ H) as [p Hp]. exists p. apply path_complete; auto. Qed.

(** ** Clade membership and ranks are reads of the lineage *)
Lemma mem_In : forall a l, mem a l = true <-> In a l.
Proof.
  intros a l; unfold mem. rewrite existsb_exists. split.
  - intros [y [Hy E]]. apply N.eqb_eq in E; subst; auto.
  - intros H. exists a; split; auto. apply N.eqb_refl.
Qed.

Lemma subclade_f_spec : forall t x p, is_path t x p -> forall a fuel, (length p <= fuel)%nat ->
  subclade_f fuel t x a = Some (mem a p).
Proof.
  intros t x p H; induction H as [x r Hg | x p r l Hg Hne Hp IH]; intros a fuel Hf; simpl in Hf;
    (destruct fuel; [lia|]); simpl; rewrite (N.eqb_sym a x); destruct (x =? a) eqn:E; auto; rewrite Hg.
  - rewrite N.eqb_refl. reflexivity.
  - apply N.eqb_neq in Hne; rewrite Hne. apply IH; lia.
Qed.

Lemma subclade_spec : forall t x p a, path t x = Some p ->
  subclade t x a = Some (mem a p) /\ (mem a p = true <-> In a p).
Proof.
  intros t x p a H. apply path_sound in H. split; [|apply mem_In].
  apply subclade_f_spec; auto. unfold fuel_of. pose proof (is_path_length _ _ _ H). lia.
Qed.

Lemma belongs_f_spec : forall t x p, is_path t x p -> forall s fuel, (length p <= fuel)%nat ->
  belongs_f fuel t x s = Some (existsb (fun y => mem y s) p).
Proof.
  intros t x p H; induction H as [x r Hg | x p r l Hg Hne Hp IH]; intros s fuel Hf; simpl in Hf;
    (destruct fuel; [lia|]); simpl; destruct (mem x s) eqn:E; auto; rewrite Hg.
  - rewrite N.eqb_refl. reflexivity.
  - apply N.eqb_neq in Hne; rewrite Hne. apply IH; lia.
Qed.

Lemma belongs_spec : forall t x p s, path t x = Some p ->
  belongs t x s = Some (existsb (fun y => mem y s) p) /\
  (existsb (fun y => mem y s) p = true <-> exists y, In y p /\ In y s).
Proof.
  intros t x p s H. apply path_sound in H. split.
  - apply belongs_f_spec; auto. unfold fuel_of. pose proof (is_path_length _ _ _ H). lia.
  - rewrite existsb_exists. split; intros [y [H1 H2]]; exists y; split; auto; apply mem_In; auto.
Qed.

Definition has_rank_at (t : tax) (r : N) (y : N) : bool :=
  match get t y with Some (_, rk) => rk =? r | None => false end.

Lemma at_rank_f_spec : forall t x p, is_path t x p -> forall r fuel, (length p <= fuel)%nat ->
  at_rank_f fuel t x r = Some (find (has_rank_at t r) p).
Proof.
  intros t x p H; induction H as [x rr Hg | x p rr l Hg Hne Hp IH]; intros r fuel Hf; simpl in Hf;
    (destruct fuel; [lia|]); simpl; unfold has_rank_at at 1; rewrite Hg; destruct (rr =? r) eqn:E; auto.
  - rewrite N.eqb_refl. reflexivity.
  - apply N.eqb_neq in Hne; rewrite Hne. apply IH; lia.
Qed.

Lemma has_rank_f_spec : forall t x p, is_path t x p -> forall r fuel, (length p <= fuel)%nat ->
  has_rank_f fuel t x r = Some (existsb (has_rank_at t r) p).
Proof.
  intros t x p H; induction H as [x rr Hg | x p rr l Hg Hne Hp IH]; intros r fuel Hf; simpl in Hf;
    (destruct fuel; [lia|]); simpl; unfold has_rank_at at 1; rewrite Hg; destruct (rr =? r) eqn:E; auto.
  - rewrite N.eqb_refl. reflexivity.
  - apply N.eqb_neq in Hne; rewrite Hne. apply IH; lia.
Qed.

(** first element of a list satisfying f, as a proposition *)
Lemma find_first : forall (f : N -> bool) l z, find f l = Some z <->
  exists l1 l2, l = l1 ++ z :: l2 /\ f z = true /\ forall y, In y l1 -> f y = false.
Proof.
  intros f l; induction l as [|a l IH]; intros z; simpl.
  - split; [discriminate|]. intros [l1 [l2 [E _]]]. destruct l1; discriminate.
  - destruct (f a) eqn:Fa; split.
    + intros E; inversion E; subst. exists [], l; simpl; repeat split; auto. intros y [].
    + intros [l1 [l2 [E [Fz Hl]]]]. destruct l1 as [|b l1]; simpl in E; inversion E; subst; auto.
      rewrite (Hl b) in Fa by (left; auto). discriminate.
    + intros Hf. apply IH in Hf. destruct Hf as [l1 [l2 [E [Fz Hl]]]]. subst l.
      exists (a :: l1), l2; simpl; repeat split; auto. intros y [<-|Hy]; auto.
    + intros [l1 [l2 [E [Fz Hl]]]]. destruct l1 as [|b l1]; simpl in E; inversion E; subst.
      * congruence.
      * apply IH. exists l1, l2; repeat split; auto. intros y Hy; apply Hl; right; auto.
Qed.

Lemma at_rank_spec : forall t x p r, path t x = Some p ->
  at_rank t x r = Some (find (has_rank_at t r) p) /\
  has_rank t x r = Some (existsb (has_rank_at t r) p) /\
  (forall z, find (has_rank_at t r) p = Some z <->
     exists l1 l2, p = l1 ++ z :: l2 /\ has_rank_at t r z = true /\ forall y, In y l1 -> has_rank_at t r y = false) /\
  (find (has_rank_at t r) p = None <-> forall y, In y p -> has_rank_at t r y = false).
Proof.
  intros t x p r H. apply path_sound in H.
  assert (L : (length p <= fuel_of t)%nat) by (unfold fuel_of; pose proof (is_path_length _ _ _ H); lia).
  split; [apply at_rank_f_spec; auto|]. split; [apply has_rank_f_spec; auto|]. split; [apply find_first|].
  split.
  - intros Hn y Hy. eapply find_none; eauto.
  - intros Hall. destruct (find (has_rank_at t r) p) eqn:E; auto.
    apply find_some in E. destruct E as [E1 E2]. rewrite Hall in E2; auto; discriminate.
Qed.

(** ** Aliases: what the loader builds *)
Definition alias_ok (t : tax) : Prop := forall o n, get_alias t o = Some n -> present t n.

Lemma resolve_present : forall t x n, alias_ok t -> resolve t x = Some n -> present t n.
Proof.
  intros t x n A H. unfold resolve in H. destruct (get t x) as [v|] eqn:G.
  - inversion H; subst. exists v; auto.
  - eapply A; eauto.
Qed.

Lemma add_alias_ok : forall t on, alias_ok t -> alias_ok (add_alias t on) /\ t_nodes (add_alias t on) = t_nodes t.
Proof.
  intros t [old new] A. unfold add_alias. destruct (resolve t new) as [n|] eqn:R; [|split; auto].
  split; [|reflexivity]. intros o m H. unfold get_alias in H; simpl in H.
  destruct (Pos.eq_dec (key old) (key o)) as [E|NE].
  - rewrite E, PM.gss in H. inversion H; subst. destruct (resolve_present _ _ _ A R) as [v Hv]. exists v; exact Hv.
  - rewrite PM.gso in H by congruence. destruct (A o m H) as [v Hv]. exists v; exact Hv.
Qed.

Lemma load_alias_ok : forall rows merged, alias_ok (load rows merged).
Proof.
  intros rows merged. unfold load.
  assert (A0 : alias_ok (mkTax (load_nodes rows) (PM.empty _))).
  { intros o n H. unfold get_alias in H; simpl in H. rewrite PM.gempty in H. discriminate. }
  revert A0. generalize (mkTax (load_nodes rows) (PM.empty N)) as t.
  induction merged as [|on merged IH]; intros t A; simpl; auto.
  apply IH. apply add_alias_ok; auto.
Qed.

Lemma alias_resolves : forall rows merged x n, resolve (load rows merged) x = Some n ->
  present (load rows merged) n /\ resolve (load rows merged) n = Some n.
Proof.
  intros rows merged x n H. pose proof (resolve_present _ _ _ (load_alias_ok rows merged) H) as P.
  split; auto. destruct P as [v Hv]. unfold resolve. rewrite Hv. reflexivity.
Qed.

(** one more merged row "old | new": the old id now designates the node the new id designated *)
Lemma alias_row : forall rows merged old new n, let t := load rows merged in
  resolve t new = Some n -> get t old = None ->
  resolve (load rows (merged ++ [(old, new)])) old = Some n /\
  (forall x, x <> old -> resolve (load rows (merged ++ [(old, new)])) x = resolve t x).
Proof.
  intros rows merged old new n t R G.
  assert (E : load rows (merged ++ [(old, new)]) = add_alias t (old, new)).
  { unfold load, t. rewrite fold_left_app. reflexivity. }
  rewrite E. unfold add_alias. rewrite R. split.
  - unfold resolve, get; simpl. fold (get t old). rewrite G. unfold get_alias; simpl. apply PM.gss.
  - intros x Hx. unfold resolve, get; simpl. fold (get t x). destruct (get t x); auto.
    unfold get_alias; simpl. apply PM.gso. intros K. apply key_inj in K. congruence.
Qed.

(** ** The parent cycle 2 -> 3 -> 2 beside the root: Path exhausts any fuel (the Go loop never returns) *)
Definition cycle_tax : tax := load [(1, 1, 0); (2, 3, 1); (3, 2, 2)] [].

Lemma cycle_out_of_fuel : forall fuel, path_f fuel cycle_tax 2 = None /\ path_f fuel cycle_tax 3 = None.
Proof.
  induction fuel as [|f [IH2 IH3]]; [split; reflexivity|].
  split; simpl.
  - change (get cycle_tax 2) with (Some (3, 1)). change (3 =? 2) with false. rewrite IH3. reflexivity.
  - change (get cycle_tax 3) with (Some (2, 2)). change (2 =? 3) with false. rewrite IH2. reflexivity.
Qed.

Lemma cycle_no_path : (forall fuel, path_f fuel cycle_tax 2 = None) /\ ~ (exists p, is_path cycle_tax 2 p) /\ ~ wf_tax cycle_tax.
Proof.
  split; [intros; apply cycle_out_of_fuel|]. 
  assert (N2 : ~ (exists p, is_path cycle_tax 2 p)).
  { intros [p H]. pose proof (path_f_complete _ _ _ H (length p) (le_n _)) as E.
    rewrite (proj1 (cycle_out_of_fuel _)) in E. discriminate. }
  split; auto. intros W. apply N2. apply (wf_reach _ W 2 (3, 1)). reflexivity.
Qed.

(** ** The executable well-formedness check is sound *)
Lemma unkey_key : forall x, unkey (key x) = x.
Proof. intros x. unfold unkey, key. apply N.pos_pred_succ. Qed.

Lemma wf_check_sound : forall t, wf_check t = true -> wf_tax t.
Proof.
  intros t H. unfold wf_check in H.
  destruct (find self_looped (PM.elements (t_nodes t))) as [e0|] eqn:F; [|discriminate].
  rewrite forallb_forall in H.
  assert (El : forall x v, get t x = Some v -> In (key x, v) (PM.elements (t_nodes t))).
  { intros x v G. apply PM.elements_correct. exact G. }
  apply find_some in F. destruct F as [F1 F2].
  destruct e0 as [k0 [p0 r0]]. unfold self_looped in F2; simpl in F2. apply N.eqb_eq in F2.
  assert (K0 : get t (unkey k0) = Some (unkey k0, r0)).
  { apply PM.elements_complete in F1. unfold get.
    assert (E : key (unkey k0) = k0).
    { unfold key, unkey. destruct k0; simpl; try reflexivity; rewrite ?Pos.succ_pred_double; auto. }
    rewrite E, F1, F2. reflexivity. }
  constructor.
  - exists (unkey k0). split; [eauto|]. intros x r G. pose proof (H _ (El _ _ G)) as C. simpl in C.
    unfold self_looped in C; simpl in C. rewrite unkey_key, N.eqb_refl in C. simpl in C.
    apply andb_prop in C. destruct C as [C _]. apply andb_prop in C. destruct C as [C _]. apply N.eqb_eq in C. exact C.
  - intros x p r G. pose proof (H _ (El _ _ G)) as C. simpl in C.
    apply andb_prop in C. destruct C as [C _]. apply andb_prop in C. destruct C as [_ C].
    destruct (get t p) as [v|]; [eauto|discriminate].
  - intros x v G. pose proof (H _ (El _ _ G)) as C. simpl in C.
    apply andb_prop in C. destruct C as [_ C]. rewrite unkey_key in C.
    destruct (path t x) as [p|] eqn:P; [|discriminate]. exists p. apply path_sound; auto.
Qed.

(** ** Weighted LCA at threshold 1.0: a pure list fact first.
    The level-by-level descent returns the last element of the longest common prefix of the
    root-first lineages of the taxa of positive weight. *)
Open Scope Z_scope.

Definition pos (ts : list wt) : list wt := filter (fun e : wt => 0 <? snd e) ts.
Definition lcpl (rs : list (list N)) : list N := match rs with [] => [] | r :: rs' => fold_left cpre rs' r end.
Definition nonneg (ts : list wt) : Prop := forall e, In e ts -> 0 <= snd e.

Lemma nonneg_cons : forall e ts, nonneg (e :: ts) -> 0 <= snd e /\ nonneg ts.
Proof. intros e ts H; split; [apply H; left; auto|intros x Hx; apply H; right; auto]. Qed.

Lemma total_cons : forall e ts, total (e :: ts) = snd e + total ts.
Proof. reflexivity. Qed.

Lemma hw_cons : forall h e ts, head_weight h (e :: ts) =
  match fst e with h' :: _ => if (h' =? h)%N then snd e + head_weight h ts else head_weight h ts | [] => head_weight h ts end.
Proof. reflexivity. Qed.

Lemma hw_bounds : forall h ts, nonneg ts -> 0 <= head_weight h ts <= total ts.
Proof.
  intros h ts; induction ts as [|e ts IH]; intros Hn.
  - simpl; lia.
  - apply nonneg_cons in Hn. destruct Hn as [He Hn]. specialize (IH Hn).
    rewrite hw_cons, total_cons. destruct (fst e) as [|h' r]; [lia|]. destruct (h' =? h)%N; lia.
Qed.

Lemma hw_eq_total : forall h ts, nonneg ts ->
  (head_weight h ts = total ts <-> forall e, In e ts -> 0 < snd e -> exists r, fst e = h :: r).
Proof.
  intros h ts; induction ts as [|e ts IH]; intros Hn.
  - simpl; split; auto. intros _ e [].
  - apply nonneg_cons in Hn. destruct Hn as [He Hn]. specialize (IH Hn).
    pose proof (hw_bounds h ts Hn) as B.
    rewrite hw_cons, total_cons. destruct (fst e) as [|h' r] eqn:Fe; [|destruct (h' =? h)%N eqn:Eh].
    + split.
      * intros E x [<-|Hx] Px; [lia|]. apply IH; auto. lia.
      * intros A. assert (snd e = 0). { destruct (Z.eq_dec (snd e) 0); auto. destruct (A e) as [r Hr]; [left; auto|lia|]. rewrite Fe in Hr; discriminate. }
        assert (head_weight h ts = total ts) by (apply IH; intros x Hx; apply A; right; auto). lia.
    + apply N.eqb_eq in Eh; subst h'. split.
      * intros E x [<-|Hx] Px; [eauto|]. apply IH; auto. lia.
      * intros A. assert (head_weight h ts = total ts) by (apply IH; intros x Hx; apply A; right; auto). lia.
    + apply N.eqb_neq in Eh. split.
      * intros E x [<-|Hx] Px; [lia|]. apply IH; auto. lia.
      * intros A. assert (snd e = 0). { destruct (Z.eq_dec (snd e) 0); auto. destruct (A e) as [r' Hr]; [left; auto|lia|]. rewrite Fe in Hr; inversion Hr; congruence. }
        assert (head_weight h ts = total ts) by (apply IH; intros x Hx; apply A; right; auto). lia.
Qed.

Lemma total_pos : forall ts, nonneg ts -> (0 < total ts <-> pos ts <> []).
Proof.
  induction ts as [|e ts IH]; intros Hn.
  - simpl; split; [lia|congruence].
  - apply nonneg_cons in Hn. destruct Hn as [He Hn]. specialize (IH Hn). rewrite total_cons. unfold pos in *; simpl.
    destruct (0 <? snd e) eqn:E.
    + apply Z.ltb_lt in E. split; [discriminate|]. intros _.
      assert (0 <= total ts) by (pose proof (hw_bounds 0%N ts Hn); lia). lia.
    + apply Z.ltb_ge in E. rewrite <- IH. lia.
Qed.

Lemma in_pos : forall e ts, In e (pos ts) <-> In e ts /\ 0 < snd e.
Proof. intros e ts. unfold pos. rewrite filter_In, Z.ltb_lt. tauto. Qed.

Lemma argmax_spec : forall all ts best bt w o, argmax ts all best bt = (w, o) ->
  best <= w /\ (forall e h r, In e ts -> fst e = h :: r -> head_weight h all <= w) /\
  ((w = best /\ o = bt) \/ (exists h, o = Some h /\ w = head_weight h all /\ best < w)).
Proof.
  intros all ts; induction ts as [|[p wgt] ts IH]; intros best bt w o H; simpl in H.
  - inversion H; subst. split; [lia|]. split; [intros e h r []|left; auto].
  - destruct p as [|h r].
    + destruct (IH _ _ _ _ H) as [A [B C]]. split; auto. split; auto.
      intros e h r [<-|He] Fe; [discriminate|eauto].
    + destruct (best <? head_weight h all) eqn:E.
      * apply Z.ltb_lt in E. destruct (IH _ _ _ _ H) as [A [B C]]. split; [lia|]. split.
        -- intros e h' r' [<-|He] Fe; [simpl in Fe; inversion Fe; subst; auto|eauto].
        -- destruct C as [[-> ->]|[h' [-> [-> L]]]]; right; [exists h|exists h']; repeat split; auto; lia.
      * apply Z.ltb_ge in E. destruct (IH _ _ _ _ H) as [A [B C]]. split; auto. split; auto.
        intros e h' r' [<-|He] Fe; [simpl in Fe; inversion Fe; subst; lia|eauto].
Qed.

Lemma cpre_cons_inv : forall r a h L, cpre r a = h :: L -> (exists r', r = h :: r') /\ (exists a', a = h :: a').
Proof.
  intros [|x r] [|y a] h L H; simpl in H; try discriminate.
  destruct (x =? y)%N eqn:E; [|discriminate]. apply N.eqb_eq in E; subst. inversion H; subst. eauto.
Qed.

Lemma fold_cpre_head : forall rs r h L, fold_left cpre rs r = h :: L ->
  (exists r', r = h :: r') /\ forall x, In x rs -> exists x', x = h :: x'.
Proof.
  induction rs as [|a rs IH]; intros r h L H; simpl in H.
  - split; [eauto|intros x []].
  - destruct (IH _ _ _ H) as [[c Hc] Hall]. destruct (cpre_cons_inv _ _ _ _ Hc) as [Hr Ha].
    split; auto. intros x [<-|Hx]; auto.
Qed.

Lemma lcpl_head : forall rs h L, lcpl rs = h :: L -> forall x, In x rs -> exists x', x = h :: x'.
Proof.
  intros [|r rs] h L H x Hx; simpl in H; [discriminate|].
  destruct (fold_cpre_head _ _ _ _ H) as [Hr Hall]. destruct Hx as [<-|Hx]; auto.
Qed.

Lemma fold_cpre_cons : forall h rs r, (forall x, In x rs -> exists x', x = h :: x') ->
  fold_left cpre rs (h :: r) = h :: fold_left cpre (map (@tl N) rs) r.
Proof.
  intros h rs; induction rs as [|a rs IH]; intros r Hall; simpl; auto.
  destruct (Hall a (or_introl eq_refl)) as [a' ->]. simpl. rewrite N.eqb_refl. apply IH.
  intros x Hx; apply Hall; right; auto.
Qed.

Lemma lcpl_cons : forall h rs, rs <> [] -> (forall x, In x rs -> exists x', x = h :: x') ->
  lcpl rs = h :: lcpl (map (@tl N) rs).
Proof.
  intros h [|r rs] Hne Hall; [congruence|]. simpl.
  destruct (Hall r (or_introl eq_refl)) as [r' ->]. simpl. apply fold_cpre_cons.
  intros x Hx; apply Hall; right; auto.
Qed.

Lemma lasto_cons_some : forall L a, exists z, lasto (a :: L) = Some z.
Proof.
  induction L as [|b L IH]; intros a; [exists a; reflexivity|].
  destruct (IH b) as [z Hz]. exists z. change (lasto (a :: b :: L)) with (lasto (b :: L)). exact Hz.
Qed.

Lemma lasto_cons : forall h L, lasto (h :: L) = match lasto L with Some z => Some z | None => Some h end.
Proof.
  intros h [|a L]; [reflexivity|]. change (lasto (h :: a :: L)) with (lasto (a :: L)).
  destruct (lasto_cons_some L a) as [z ->]. reflexivity.
Qed.

Definition wl_result (ts : list wt) (tmax : option N) : option N :=
  match pos ts with
  | [] => tmax
  | _ => match lasto (lcpl (map fst (pos ts))) with Some z => Some z | None => tmax end
  end.

Lemma pos_step : forall h ts, (forall e, In e (pos ts) -> exists r, fst e = h :: r) ->
  pos (map strip (filter (keep (Some h)) ts)) = map strip (pos ts).
Proof.
  intros h ts; induction ts as [|e ts IH]; intros A; simpl; auto.
  unfold pos in *; simpl in *. destruct (0 <? snd e) eqn:E.
  - destruct (A e (or_introl eq_refl)) as [r Hr]. unfold keep at 1. rewrite Hr, N.eqb_refl. simpl. rewrite E.
    f_equal. apply IH. intros x Hx; apply A; right; auto.
  - destruct (keep (Some h) e); simpl; [rewrite E|]; apply IH; auto.
Qed.

Lemma wl_spec : forall fuel ts tmax, nonneg ts -> (0 < fuel)%nat ->
  (forall e, In e (pos ts) -> (length (fst e) < fuel)%nat) ->
  wl fuel ts tmax = Some (wl_result ts tmax).
Proof.
  induction fuel as [|f IH]; intros ts tmax Hn Hf Hlen; [lia|].
  simpl. destruct (argmax ts ts 0 None) as [wmax tm] eqn:Ea.
  destruct (argmax_spec _ _ _ _ _ _ Ea) as [A1 [A2 A3]].
  pose proof (total_pos ts Hn) as TP.
  destruct ((0 <? total ts) && (wmax =? total ts))%bool eqn:C.
  - apply andb_prop in C. destruct C as [C1 C2]. apply Z.ltb_lt in C1. apply Z.eqb_eq in C2.
    destruct A3 as [[-> _]|[h [-> [Hw _]]]]; [lia|].
    assert (AllH : forall e, In e (pos ts) -> exists r, fst e = h :: r).
    { intros e He. apply in_pos in He. destruct He as [He Pe].
      apply (proj1 (hw_eq_total h ts Hn)); auto. congruence. }
    assert (Pne : pos ts <> []) by (apply TP; auto).
    assert (F1 : (0 < f)%nat).
    { destruct (pos ts) as [|e0 P] eqn:EP; [congruence|]. pose proof (Hlen e0 (or_introl eq_refl)) as L.
      destruct (AllH e0 (or_introl eq_refl)) as [r Hr]. rewrite Hr in L; simpl in L. lia. }
    rewrite IH; auto.
    + f_equal. unfold wl_result. rewrite (pos_step h ts AllH).
      destruct (pos ts) as [|e0 P] eqn:EP; [congruence|].
      assert (M : map fst (map strip (e0 :: P)) = map (@tl N) (map fst (e0 :: P))).
      { rewrite !map_map. reflexivity. }
      assert (L : lcpl (map fst (e0 :: P)) = h :: lcpl (map (@tl N) (map fst (e0 :: P)))).
      { apply lcpl_cons; [discriminate|]. intros x Hx. apply in_map_iff in Hx. destruct Hx as [e [<- He]]. apply AllH; auto. }
      rewrite L, lasto_cons, M. simpl map at 1. cbv iota.
      destruct (lasto (lcpl (map (@tl N) (map fst (e0 :: P))))); reflexivity.
    + intros e He. apply in_map_iff in He. destruct He as [e' [<- He']]. apply filter_In in He'. simpl. apply Hn; tauto.
    + intros e He. rewrite (pos_step h ts AllH) in He. apply in_map_iff in He. destruct He as [e' [<- He']].
      pose proof (Hlen e' He') as L. destruct (AllH e' He') as [r Hr]. unfold strip; simpl. rewrite Hr in *; simpl in *. lia.
  - f_equal. unfold wl_result. destruct (pos ts) as [|e0 P] eqn:EP; auto.
    assert (T0 : 0 < total ts) by (apply TP; congruence).
    destruct (lasto (lcpl (map fst (e0 :: P)))) as [z|] eqn:El; auto. exfalso.
    destruct (lcpl (map fst (e0 :: P))) as [|h L] eqn:Elc; [discriminate|].
    pose proof (lcpl_head _ _ _ Elc) as AllH.
    assert (AllH' : forall e, In e ts -> 0 < snd e -> exists r, fst e = h :: r).
    { intros e He Pe. apply AllH. apply in_map. rewrite <- EP. apply in_pos; auto. }
    assert (Hw : head_weight h ts = total ts) by (apply hw_eq_total; auto).
    assert (I0 : In e0 ts /\ 0 < snd e0) by (apply in_pos; rewrite EP; left; auto).
    destruct (AllH' e0 (proj1 I0) (proj2 I0)) as [r0 Hr0].
    pose proof (A2 e0 h r0 (proj1 I0) Hr0) as Le.
    assert (Ub : wmax <= total ts).
    { destruct A3 as [[-> _]|[h' [_ [-> _]]]]; [lia|]. apply hw_bounds; auto. }
    apply andb_false_iff in C. destruct C as [C|C]; [apply Z.ltb_ge in C; lia|apply Z.eqb_neq in C; lia].
Qed.
Close Scope Z_scope.

(** ** ... and on a well-formed taxonomy that element is the deepest taxon above every taxon of positive weight *)
Definition rp (t : tax) (x : N) : list N := match path t x with Some p => rev p | None => [] end.
Definition wentry (t : tax) (e : N * Z) : wt := (rp t (fst e), snd e).

Lemma rpaths_map : forall t d, wf_tax t -> (forall e, In e d -> present t (fst e)) ->
  rpaths t d = Some (map (wentry t) d).
Proof.
  intros t d W; induction d as [|[x w] d IH]; intros P; simpl; auto.
  destruct (path_total t x W (P (x, w) (or_introl eq_refl))) as [p Hp].
  rewrite Hp, IH by (intros e He; apply P; right; auto).
  f_equal. f_equal. unfold wentry, rp; simpl. rewrite Hp. reflexivity.
Qed.

Lemma pos_map_wentry : forall t d, pos (map (wentry t) d) = map (wentry t) (filter (fun e : N * Z => (0 <? snd e)%Z) d).
Proof.
  intros t d; induction d as [|e d IH]; simpl; auto. unfold pos in *; simpl.
  destruct (0 <? snd e)%Z; simpl; rewrite IH; reflexivity.
Qed.

Lemma fold_cpre_lca : forall t, wf_tax t -> forall rest a pa, is_path t a pa -> (forall x, In x rest -> present t x) ->
  exists z pz, is_path t z pz /\ fold_left cpre (map (rp t) rest) (rev pa) = rev pz /\
               forall u, In u pz <-> In u pa /\ forall x, In x rest -> anc t x u.
Proof.
  intros t W rest; induction rest as [|x rest IH]; intros a pa Ha P; simpl.
  - exists a, pa. split; auto. split; auto. intros u; split; [intros H; split; auto; intros y []|tauto].
  - destruct (P x (or_introl eq_refl)) as [v Hv]. destruct (wf_reach _ W _ _ Hv) as [px Hx].
    destruct (lca_paths_spec _ _ _ _ _ Ha Hx (wf_same_root _ _ _ _ _ W Ha Hx)) as [z [pz [_ [Hz [Er Hin]]]]].
    replace (rp t x) with (rev px) by (unfold rp; rewrite (path_complete _ _ _ Hx); reflexivity). rewrite <- Er.
    destruct (IH z pz Hz (fun y Hy => P y (or_intror Hy))) as [z' [pz' [Hz' [Ef Hin']]]].
    exists z', pz'. split; auto. split; auto. intros u; split.
    + intros Hu. apply Hin' in Hu. destruct Hu as [Hu1 Hu2]. apply Hin in Hu1. destruct Hu1 as [Hu1 Hu3].
      split; auto. intros y [<-|Hy]; [exists px; auto|auto].
    + intros [Hu Hall]. apply Hin'. split.
      * apply Hin. split; auto. destruct (Hall x (or_introl eq_refl)) as [q [Hq Huq]].
        rewrite (is_path_fun _ _ _ Hq _ Hx) in Huq; auto.
      * intros y Hy; apply Hall; right; auto.
Qed.

Lemma wlca_nodes_char : forall t d, wf_tax t ->
  (forall e, In e d -> present t (fst e) /\ (0 <= snd e)%Z) ->
  (exists e, In e d /\ (0 < snd e)%Z) ->
  forall init, exists z,
    rpaths t d = Some (map (wentry t) d) /\
    wl (S (fuel_of t)) (map (wentry t) d) init = Some (Some z) /\ present t z /\
    forall u, anc t z u <-> forall e, In e d -> (0 < snd e)%Z -> anc t (fst e) u.
Proof.
  intros t d W Hd [e0 [He0 Pe0]] init.
  assert (R : rpaths t d = Some (map (wentry t) d)) by (apply rpaths_map; auto; intros e He; apply Hd; auto).
  assert (Hn : nonneg (map (wentry t) d)).
  { intros e He. apply in_map_iff in He. destruct He as [e' [<- He']]. simpl. apply Hd; auto. }
  assert (Hl : forall e, In e (pos (map (wentry t) d)) -> (length (fst e) < S (fuel_of t))%nat).
  { intros e He. apply in_pos in He. destruct He as [He _]. apply in_map_iff in He. destruct He as [e' [<- He']].
    unfold wentry, rp; simpl. destruct (path t (fst e')) as [p|] eqn:Hp; simpl; [|lia].
    rewrite rev_length. apply path_sound in Hp. pose proof (is_path_length _ _ _ Hp). unfold fuel_of. lia. }
  rewrite (wl_spec _ _ init Hn (Nat.lt_0_succ _) Hl).
  unfold wl_result. rewrite pos_map_wentry.
  remember (filter (fun e : N * Z => (0 <? snd e)%Z) d) as dp eqn:Edp.
  assert (Hdp : forall e, In e dp <-> In e d /\ (0 < snd e)%Z).
  { intros e. rewrite Edp, filter_In, Z.ltb_lt. tauto. }
  destruct dp as [|[a wa] dp']; [exfalso; apply (proj2 (Hdp e0)); auto|].
  assert (Pa : present t a) by (apply (Hd (a, wa)); apply Hdp; left; auto).
  destruct Pa as [va Hva]. destruct (wf_reach _ W _ _ Hva) as [pa Ha].
  destruct (fold_cpre_lca t W (map fst dp') a pa Ha) as [z [pz [Hz [Ef Hin]]]].
  { intros x Hx. apply in_map_iff in Hx. destruct Hx as [e [<- He]]. apply (Hd e). apply Hdp. right; auto. }
  assert (EL : lcpl (map fst (map (wentry t) ((a, wa) :: dp'))) = rev pz).
  { simpl. replace (rp t a) with (rev pa) by (unfold rp; rewrite (path_complete _ _ _ Ha); reflexivity).
    rewrite <- Ef. f_equal. rewrite !map_map. reflexivity. }
  exists z. split; auto. split; [|split].
  - rewrite EL. simpl map at 1. cbv iota. destruct (is_path_head _ _ _ Hz) as [l ->]. rewrite lasto_rev_hd. reflexivity.
  - inversion Hz; subst; eexists; eauto.
  - intros u; split.
    + intros [q [Hq Hu]] e He Pe. rewrite (is_path_fun _ _ _ Hq _ Hz) in Hu. apply Hin in Hu. destruct Hu as [Hu1 Hu2].
      assert (In e ((a, wa) :: dp')) as [<-|Hi] by (apply Hdp; auto).
      * exists pa; auto.
      * apply Hu2. apply in_map; auto.
    + intros Hall. exists pz; split; auto. apply Hin. split.
      * destruct (Hall (a, wa)) as [q [Hq Hu]]; [apply Hdp; left; auto|apply (Hdp (a, wa)); left; auto|].
        simpl in Hq. rewrite (is_path_fun _ _ _ Hq _ Ha) in Hu; auto.
      * intros x Hx. apply in_map_iff in Hx. destruct Hx as [e [<- He]].
        apply Hall; apply (Hdp e); right; auto.
Qed.

(** TaxonomicDistribution (keys resolved through the alias table, same node overwritten) *)
Lemma upsert_in : forall x w l y v, In (y, v) (upsert x w l) -> (y, v) = (x, w) \/ In (y, v) l.
Proof.
  intros x w l; induction l as [|[a b] l IH]; intros y v H; simpl in H.
  - destruct H as [H|[]]; auto.
  - destruct (a =? x) eqn:E; destruct H as [H|H]; simpl; auto.
    destruct (IH _ _ H); auto.
Qed.

Lemma upsert_keeps : forall x w l y v, In (y, v) l -> exists v', In (y, v') (upsert x w l).
Proof.
  intros x w l; induction l as [|[a b] l IH]; intros y v H; simpl in *; [tauto|].
  destruct (a =? x) eqn:E.
  - apply N.eqb_eq in E; subst. destruct H as [H|H]; [inversion H; subst; exists w; left; auto|exists v; right; auto].
  - destruct H as [H|H]; [exists v; left; auto|]. destruct (IH _ _ H) as [v' Hv']. exists v'; right; auto.
Qed.

Lemma upsert_has : forall x w l, exists v', In (x, v') (upsert x w l).
Proof.
  intros x w l; induction l as [|[a b] l IH]; simpl; [exists w; left; auto|].
  destruct (a =? x) eqn:E; [exists w; left; auto|]. destruct IH as [v' Hv']. exists v'; right; auto.
Qed.

Lemma distribution_spec : forall t m acc d, distribution t m acc = Some d ->
  (forall x w, In (x, w) d -> In (x, w) acc \/ exists k, In (k, w) m /\ resolve t k = Some x) /\
  (forall k w, In (k, w) m -> exists x w', resolve t k = Some x /\ In (x, w') d) /\
  (forall x w, In (x, w) acc -> exists w', In (x, w') d).
Proof.
  intros t m; induction m as [|[k w] m IH]; intros acc d H; simpl in H.
  - inversion H; subst. repeat split; eauto. intros k w [].
  - destruct (resolve t k) as [x|] eqn:R; [|discriminate].
    destruct (IH _ _ H) as [A [B C]]. repeat split.
    + intros y v Hy. destruct (A _ _ Hy) as [Hu|[k' [Hk' Rk']]].
      * destruct (upsert_in _ _ _ _ _ Hu) as [E|Hacc]; auto. inversion E; subst. right; exists k; split; auto. left; auto.
      * right; exists k'; split; auto. right; auto.
    + intros k' w' [E|Hk'].
      * inversion E; subst. destruct (upsert_has x w' acc) as [v' Hv']. destruct (C _ _ Hv') as [w'' Hw'']. eauto.
      * apply B in Hk'. exact Hk'.
    + intros y v Hy. destruct (upsert_keeps x w _ _ _ Hy) as [v' Hv']. eauto.
Qed.

Lemma distribution_total : forall t m acc, (forall k w, In (k, w) m -> resolve t k <> None) ->
  exists d, distribution t m acc = Some d.
Proof.
  intros t m; induction m as [|[k w] m IH]; intros acc H; simpl; eauto.
  destruct (resolve t k) as [x|] eqn:R; [|exfalso; apply (H k w); [left; auto|auto]].
  apply IH. intros k' w' Hk'; apply (H k' w'); right; auto.
Qed.

Lemma wlca_char : forall t m, wf_tax t -> alias_ok t -> m <> [] ->
  (forall k w, In (k, w) m -> (0 < w)%Z /\ resolve t k <> None) ->
  exists z, wlca t m = Some (Some z) /\ present t z /\
    forall u, anc t z u <-> forall k w, In (k, w) m -> exists x, resolve t k = Some x /\ anc t x u.
Proof.
  intros t m W A Hne Hm.
  destruct (distribution_total t m [] (fun k w H => proj2 (Hm k w H))) as [d Hd].
  destruct (distribution_spec _ _ _ _ Hd) as [D1 [D2 _]].
  assert (Hdd : forall e, In e d -> present t (fst e) /\ (0 <= snd e)%Z).
  { intros [x w] He. destruct (D1 _ _ He) as [[]|[k [Hk Rk]]]. simpl. split.
    - eapply resolve_present; eauto.
    - destruct (Hm _ _ Hk); lia. }
  assert (Hpos : forall e, In e d -> (0 < snd e)%Z).
  { intros [x w] He. destruct (D1 _ _ He) as [[]|[k [Hk Rk]]]. simpl. destruct (Hm _ _ Hk); auto. }
  assert (Hex : exists e, In e d /\ (0 < snd e)%Z).
  { destruct m as [|[k w] m']; [congruence|]. destruct (D2 k w (or_introl eq_refl)) as [x [w' [_ Hx]]].
    exists (x, w'); split; auto. }
  unfold wlca. rewrite Hd.
  destruct (wlca_nodes_char t d W Hdd Hex
              (match map (wentry t) d with (h :: _, _) :: _ => Some h | _ => None end)) as [z [R [Hw [Pz C]]]].
  rewrite R. exists z. split; auto. split; auto.
  intros u. rewrite C. split.
  - intros Hall k w Hk. destruct (D2 _ _ Hk) as [x [w' [Rk Hx]]]. exists x; split; auto.
    apply (Hall (x, w')); auto.
  - intros Hall [x w] He _. destruct (D1 _ _ He) as [[]|[k [Hk Rk]]].
    destruct (Hall _ _ Hk) as [x' [Rk' Ax]]. simpl. congruence.
Qed.

Lemma wlca_perm : forall t m m', wf_tax t -> alias_ok t -> m <> [] ->
  (forall k w, In (k, w) m -> (0 < w)%Z /\ resolve t k <> None) ->
  Permutation m m' -> wlca t m = wlca t m'.
Proof.
  intros t m m' W A Hne Hm Pm.
  assert (Hne' : m' <> []). { intros ->. apply Permutation_sym, Permutation_nil in Pm. auto. }
  assert (Hm' : forall k w, In (k, w) m' -> (0 < w)%Z /\ resolve t k <> None).
  { intros k w H. apply Hm. eapply Permutation_in; [apply Permutation_sym|]; eauto. }
  destruct (wlca_char t m W A Hne Hm) as [z [E [Pz C]]].
  destruct (wlca_char t m' W A Hne' Hm') as [z' [E' [Pz' C']]].
  rewrite E, E'. do 2 f_equal. apply (anc_antisym t).
  - apply C. intros k w Hk. apply (proj1 (C' z') (present_anc_refl _ _ W Pz') k w). eapply Permutation_in; eauto.
  - apply C'. intros k w Hk. apply (proj1 (C z) (present_anc_refl _ _ W Pz) k w). eapply Permutation_in; [apply Permutation_sym|]; eauto.
Qed.

(** ** Sequence predicates / workers read the lineage of the sequence's taxon *)
Lemma any_clade_known : forall t s x p cs, resolve t (seq_taxid s) = Some x -> path t x = Some p ->
  any_clade t s cs = Some (existsb (fun c => mem c p) cs).
Proof.
  intros t s x p cs R P; induction cs as [|c cs IH]; simpl; auto.
  unfold seq_in_clade. rewrite R. rewrite (proj1 (subclade_spec t x p c P)).
  destruct (mem c p); simpl; auto.
Qed.

Lemma any_clade_unknown : forall t s cs, resolve t (seq_taxid s) = None -> any_clade t s cs = Some false.
Proof.
  intros t s cs R; induction cs as [|c cs IH]; simpl; auto. unfold seq_in_clade. rewrite R. exact IH.
Qed.

Lemma all_ranks_known : forall t s x p rs, resolve t (seq_taxid s) = Some x -> path t x = Some p ->
  all_ranks t s rs = Some (forallb (fun r => existsb (has_rank_at t r) p) rs).
Proof.
  intros t s x p rs R P; induction rs as [|r rs IH]; simpl; auto.
  rewrite R. destruct (at_rank_spec t x p r P) as [_ [H _]]. rewrite H.
  destruct (existsb (has_rank_at t r) p); simpl; auto.
Qed.

Lemma predicates_known : forall t s x p, resolve t (seq_taxid s) = Some x -> path t x = Some p ->
  (forall ids cs, ids <> [] -> resolve_all t ids = Some cs ->
     restrict t s ids = zb (existsb (fun c => mem c p) cs) /\
     ignore t s ids = zb (negb (existsb (fun c => mem c p) cs))) /\
  (forall rs, rs <> [] -> forallb (rank_listed t) rs = true ->
     require t s rs = zb (forallb (fun r => existsb (has_rank_at t r) p) rs)) /\
  (forall r, rank_listed t r = true ->
     atrank_attr t s r = match find (has_rank_at t r) p with Some z => Z.of_N z | None => (-1)%Z end) /\
  (forall c y, s_slot s = Some c -> resolve t c = Some y -> slotsub t s = zb (mem y p)).
Proof.
  intros t s x p R P. repeat split.
  - unfold restrict. destruct ids; [congruence|]. rewrite H0. rewrite (any_clade_known t s x p cs R P). reflexivity.
  - unfold ignore. destruct ids; [congruence|]. rewrite H0. rewrite (any_clade_known t s x p cs R P). reflexivity.
  - intros rs Hne Hl. unfold require. destruct rs; [congruence|]. rewrite Hl. rewrite (all_ranks_known t s x p _ R P). reflexivity.
  - intros r Hl. unfold atrank_attr. rewrite Hl, R. destruct (at_rank_spec t x p r P) as [H _]. rewrite H.
    destruct (find (has_rank_at t r) p); reflexivity.
  - intros c y Hs Hc. unfold slotsub. rewrite Hs, Hc, R. rewrite (proj1 (subclade_spec t x p y P)). reflexivity.
Qed.

Lemma predicates_unknown : forall t s, resolve t (seq_taxid s) = None ->
  (forall ids cs, ids <> [] -> resolve_all t ids = Some cs -> restrict t s ids = 0%Z /\ ignore t s ids = 1%Z) /\
  (forall rs, rs <> [] -> forallb (rank_listed t) rs = true -> require t s rs = 0%Z) /\
  (forall r, rank_listed t r = true -> atrank_attr t s r = (-9)%Z) /\
  (forall c, s_slot s = Some c -> slotsub t s = 0%Z).
Proof.
  intros t s R. repeat split.
  - unfold restrict. destruct ids; [congruence|]. rewrite H0, (any_clade_unknown t s cs R). reflexivity.
  - unfold ignore. destruct ids; [congruence|]. rewrite H0, (any_clade_unknown t s cs R). reflexivity.
  - intros rs Hne Hl. unfold require. destruct rs as [|r rs]; [congruence|]. rewrite Hl. simpl. rewrite R. reflexivity.
  - intros r Hl. unfold atrank_attr. rewrite Hl, R. reflexivity.
  - intros c Hs. unfold slotsub. rewrite Hs, R. destruct (resolve t c); reflexivity.
Qed.

(** ** Names: every alternate name listed for a taxon is found by IsNameEqual *)
Lemma alt_names_in : forall rows x n, In n (alt_names rows x) <-> In (x, n, false) rows.
Proof.
  intros rows x n. unfold alt_names. rewrite in_map_iff. split.
  - intros [[[k m] b] [E H]]. simpl in E; subst m. apply filter_In in H. destruct H as [H C]. simpl in C.
    apply andb_prop in C. destruct C as [C1 C2]. apply N.eqb_eq in C2; subst k. destruct b; [discriminate|auto].
  - intros H. exists (x, n, false). split; auto. apply filter_In. split; auto. simpl. apply N.eqb_refl.
Qed.

Lemma names_found : forall rows x n sn, sci_name rows x = Some sn ->
  (name_equal rows x n = Some true <-> (sn = n \/ In (x, n, false) rows)).
Proof.
  intros rows x n sn H. unfold name_equal. rewrite H. split.
  - intros E. inversion E as [E']. apply orb_prop in E'. destruct E' as [E'|E'].
    + left. apply N.eqb_eq; auto.
    + right. apply alt_names_in. apply mem_In; auto.
  - intros [->|Hin]; f_equal.
    + rewrite N.eqb_refl; reflexivity.
    + apply orb_true_iff. right. apply mem_In. apply alt_names_in; auto.
Qed.

(** ** Clade membership through the LCA: x is in the clade of a iff LCA(x, a) = a *)
Lemma subclade_iff_lca : forall t x a p, wf_tax t -> present t a -> path t x = Some p ->
  (subclade t x a = Some true <-> lca t x a = Some a).
Proof.
  intros t x a p W Pa Hp.
  assert (Px : present t x). { apply path_sound in Hp. inversion Hp; subst; eexists; eauto. }
  destruct (lca_char t x a W Px Pa) as [z [Hz [Pz C]]].
  destruct (subclade_spec t x p a Hp) as [Hs Hm]. rewrite Hs, Hz.
  pose proof (path_sound _ _ _ Hp) as Hip.
  split.
  - intros E. inversion E as [E']. apply Hm in E'. f_equal. apply (anc_antisym t).
    + apply C. split; [exists p; auto|apply present_anc_refl; auto].
    + apply (proj1 (C z) (present_anc_refl _ _ W Pz)).
  - intros E. inversion E; subst z. f_equal. apply Hm.
    destruct (proj1 (proj1 (C a) (present_anc_refl _ _ W Pa))) as [q [Hq Hin]].
    rewrite (is_path_fun _ _ _ Hq _ Hip) in Hin. exact Hin.
Qed.

Lemma lca_idem_path : forall t x p, path t x = Some p -> lca t x x = Some x.
Proof. intros t x p H. eapply lca_idem. apply path_sound; eauto. Qed.
