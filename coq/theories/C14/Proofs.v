(** C14 — lemmas about the taxonomy model. *)
From Coq Require Import NArith ZArith List Bool Lia FMapPositive Permutation Floats.SpecFloat.
Import ListNotations.
From OBI.C14 Require Import Model.
Open Scope N_scope.

(** ** Lineages as a relation: [is_path t x p] — p starts at x, follows parent links, ends at a self-looped node *)
Inductive is_path (t : tax) : N -> list N -> Prop :=
| ip_root : forall x r, get t x = Some (x, r) -> is_path t x [x]
| ip_step : forall x p r l, get t x = Some (p, r) -> p <> x -> is_path t p l -> is_path t x (x :: l).

Lemma is_path_head : forall t x p, is_path t x p -> exists l, p = x :: l.
Proof. intros t x p H; inversion H; eauto. Qed.

Lemma is_path_fun : forall t x p1, is_path t x p1 -> forall p2, is_path t x p2 -> p1 = p2.
Proof.
  intros t x p1 H; induction H as [x r Hg | x p r l Hg Hne Hp IH]; intros p2 H2.
  - inversion H2 as [x' r' Hg' | x' p' r' l' Hg' Hne' Hp']; subst; auto.
    rewrite Hg in Hg'; inversion Hg'; subst; congruence.
  - inversion H2 as [x' r' Hg' | x' p' r' l' Hg' Hne' Hp']; subst.
    + rewrite Hg in Hg'; inversion Hg'; subst; congruence.
    + rewrite Hg in Hg'; inversion Hg'; subst. f_equal; auto.
Qed.

(** every suffix of a lineage is the lineage of its first element *)
Lemma is_path_suffix : forall t l x w rest, is_path t x (l ++ w :: rest) -> is_path t w (w :: rest).
Proof.
  intros t l; induction l as [|a l IH]; intros x w rest H; simpl in H.
  - destruct (is_path_head _ _ _ H) as [l' E]; inversion E; subst; auto.
  - inversion H as [x' r' Hg' E1 | x' p' r' l' Hg' Hne' Hp']; subst.
    + destruct l; discriminate.
    + eapply IH; eauto.
Qed.

Lemma is_path_NoDup : forall t x p, is_path t x p -> NoDup p.
Proof.
  intros t x p H; induction H as [x r Hg | x p r l Hg Hne Hp IH].
  - constructor; [intros []|constructor].
  - constructor; auto. intros Hin.
    destruct (in_split _ _ Hin) as [l1 [l2 E]]; subst l.
    assert (Hx : is_path t x (x :: l2)) by (eapply is_path_suffix; eauto).
    assert (Hx2 : is_path t x (x :: l1 ++ x :: l2)) by (econstructor; eauto).
    pose proof (is_path_fun _ _ _ Hx _ Hx2) as E.
    apply (f_equal (@length N)) in E; simpl in E; rewrite app_length in E; simpl in E; lia.
Qed.

(** consecutive elements are child / parent; the last one is a self-looped root *)
Fixpoint chain (t : tax) (p : list N) : Prop :=
  match p with
  | [] => False
  | [x] => exists r, get t x = Some (x, r)
  | x :: ((y :: _) as l) => (exists r, get t x = Some (y, r)) /\ y <> x /\ chain t l
  end.

Lemma is_path_chain : forall t x p, is_path t x p -> chain t p.
Proof.
  intros t x p H; induction H as [x r Hg | x p r l Hg Hne Hp IH]; simpl; eauto.
  destruct (is_path_head _ _ _ Hp) as [l' E]; subst l. split; eauto.
Qed.

Lemma chain_is_path : forall t p x l, p = x :: l -> chain t p -> is_path t x p.
Proof.
  intros t p; induction p as [|a p IH]; intros x l E H; [discriminate|].
  inversion E; subst. destruct l as [|y l].
  - destruct H as [r Hg]; econstructor; eauto.
  - destruct H as [[r Hg] [Hne Hc]]. econstructor; eauto.
Qed.

Lemma is_path_last_root : forall t x p, is_path t x p -> exists z r, lasto p = Some z /\ get t z = Some (z, r).
Proof.
  intros t x p H; induction H as [x r Hg | x p r l Hg Hne Hp IH]; simpl; eauto.
  destruct IH as [z [r' [Hl Hz]]]. exists z, r'; split; auto.
  destruct l; [discriminate|auto].
Qed.

(** ** path_f computes the lineage *)
Lemma path_f_sound : forall fuel t x p, path_f fuel t x = Some p -> is_path t x p.
Proof.
  induction fuel as [|f IH]; intros t x p H; simpl in H; [discriminate|].
  destruct (get t x) as [[q r]|] eqn:Hg; [|discriminate].
  destruct (q =? x) eqn:Hq.
  - apply N.eqb_eq in Hq; subst. inversion H; subst. econstructor; eauto.
  - apply N.eqb_neq in Hq. destruct (path_f f t q) as [l|] eqn:Hp; simpl in H; [|discriminate].
    inversion H; subst. econstructor; eauto.
Qed.

Lemma path_f_complete : forall t x p, is_path t x p -> forall fuel, (length p <= fuel)%nat -> path_f fuel t x = Some p.
Proof.
  intros t x p H; induction H as [x r Hg | x p r l Hg Hne Hp IH]; intros fuel Hf; simpl in Hf.
  - destruct fuel; [lia|]. simpl. rewrite Hg, N.eqb_refl. reflexivity.
  - destruct fuel; [lia|]. simpl. rewrite Hg.
    apply N.eqb_neq in Hne; rewrite Hne. rewrite IH by lia. reflexivity.
Qed.

(** a lineage has no repetition and stays inside the node table: it is not longer than the table *)
Lemma key_inj : forall a b, key a = key b -> a = b.
Proof.
  intros a b H. unfold key in H.
  assert (E : N.pos (N.succ_pos a) = N.pos (N.succ_pos b)) by (rewrite H; reflexivity).
  rewrite !N.succ_pos_spec in E. lia.
Qed.

Lemma is_path_in_table : forall t x p, is_path t x p -> forall y, In y p -> exists v, get t y = Some v.
Proof.
  intros t x p H; induction H as [x r Hg | x p r l Hg Hne Hp IH]; intros y Hy.
  - destruct Hy as [<-|[]]; eauto.
  - destruct Hy as [<-|Hy]; eauto.
Qed.

Lemma is_path_length : forall t x p, is_path t x p -> (length p <= PM.cardinal (t_nodes t))%nat.
Proof.
  intros t x p H.
  rewrite PM.cardinal_1.
  pose proof (is_path_NoDup _ _ _ H) as Hnd.
  pose proof (is_path_in_table _ _ _ H) as Hin.
  assert (Hnd' : NoDup (map key p)).
  { clear Hin H. induction Hnd as [|a l Hn Hnd IH]; simpl; constructor; auto.
    intros Hm. apply in_map_iff in Hm. destruct Hm as [b [Hk Hb]]. apply key_inj in Hk; subst; auto. }
  assert (Hincl : incl (map key p) (map fst (PM.elements (t_nodes t)))).
  { intros k Hk. apply in_map_iff in Hk. destruct Hk as [y [<- Hy]].
    destruct (Hin y Hy) as [v Hv]. unfold get in Hv.
    apply PM.elements_correct in Hv. apply in_map_iff. exists (key y, v); auto. }
  pose proof (NoDup_incl_length Hnd' Hincl) as L. rewrite !map_length in L. exact L.
Qed.

Lemma path_complete : forall t x p, is_path t x p -> path t x = Some p.
Proof.
  intros t x p H. unfold path, fuel_of. apply path_f_complete; auto.
  pose proof (is_path_length _ _ _ H). lia.
Qed.

Lemma path_sound : forall t x p, path t x = Some p -> is_path t x p.
Proof. intros t x p H. eapply path_f_sound; eauto. Qed.

Lemma path_iff : forall t x p, path t x = Some p <-> is_path t x p.
Proof. split; [apply path_sound|apply path_complete]. Qed.

(** ** Longest common prefix of the reversed lineages *)
Lemma cpre_comm : forall r1 r2, cpre r1 r2 = cpre r2 r1.
Proof.
  induction r1 as [|a r1 IH]; destruct r2 as [|b r2]; simpl; auto.
  rewrite (N.eqb_sym b a). destruct (a =? b) eqn:E; auto.
  apply N.eqb_eq in E; subst. f_equal; auto.
Qed.

Lemma cpre_refl : forall r, cpre r r = r.
Proof. induction r as [|a r IH]; simpl; auto. rewrite N.eqb_refl, IH; auto. Qed.

Lemma cpre_prefix : forall r1 r2, exists d1 d2, r1 = cpre r1 r2 ++ d1 /\ r2 = cpre r1 r2 ++ d2.
Proof.
  induction r1 as [|a r1 IH]; intros r2.
  - exists [], r2; simpl; auto.
  - destruct r2 as [|b r2]; simpl.
    + exists (a :: r1), []; auto.
    + destruct (a =? b) eqn:E.
      * apply N.eqb_eq in E; subst. destruct (IH r2) as [d1 [d2 [E1 E2]]].
        exists d1, d2; simpl; split; f_equal; auto.
      * exists (a :: r1), (b :: r2); auto.
Qed.

Lemma cpre_max : forall c e1 e2, exists e, cpre (c ++ e1) (c ++ e2) = c ++ e.
Proof.
  induction c as [|a c IH]; intros e1 e2; simpl.
  - eauto.
  - rewrite N.eqb_refl. destruct (IH e1 e2) as [e E]. exists e; rewrite E; auto.
Qed.

Lemma lasto_app1 : forall l z, lasto (l ++ [z]) = Some z.
Proof.
  induction l as [|a l IH]; intros z; simpl; auto.
  rewrite IH. destruct (l ++ [z]) eqn:E; auto. destruct l; discriminate.
Qed.

Lemma lasto_some : forall l z, lasto l = Some z -> exists l0, l = l0 ++ [z].
Proof.
  induction l as [|a l IH]; intros z H; simpl in H; [discriminate|].
  destruct l as [|b l].
  - inversion H; subst. exists []; auto.
  - destruct (IH z H) as [l0 E]. exists (a :: l0). rewrite E; auto.
Qed.

Lemma lasto_rev_hd : forall x l, lasto (rev (x :: l)) = Some x.
Proof. intros; simpl. apply lasto_app1. Qed.

(** ancestor-or-self *)
Definition anc (t : tax) (x w : N) : Prop := exists p, is_path t x p /\ In w p.

Lemma anc_refl : forall t x p, is_path t x p -> anc t x x.
Proof. intros t x p H. exists p; split; auto. destruct (is_path_head _ _ _ H) as [l ->]; simpl; auto. Qed.

Lemma anc_trans : forall t x y w, anc t x y -> anc t y w -> anc t x w.
Proof.
  intros t x y w [px [Hx Hy]] [py [Hpy Hw]].
  destruct (in_split _ _ Hy) as [l [s E]]; subst px.
  pose proof (is_path_suffix _ _ _ _ _ Hx) as Hy'.
  rewrite (is_path_fun _ _ _ Hpy _ Hy') in Hw.
  exists (l ++ y :: s); split; auto. apply in_or_app; right; auto.
Qed.

Lemma anc_antisym : forall t z w, anc t z w -> anc t w z -> z = w.
Proof.
  intros t z w [pz [Hz Hw]] [pw [Hpw Hzw]].
  destruct (in_split _ _ Hw) as [l [s E]]; subst pz.
  pose proof (is_path_suffix _ _ _ _ _ Hz) as Hw'.
  rewrite (is_path_fun _ _ _ Hpw _ Hw') in Hzw.
  destruct Hzw as [->|Hzs]; auto.
  destruct (in_split _ _ Hzs) as [s1 [s2 E]]; subst s.
  assert (Hz2 : is_path t z (z :: s2)).
  { apply (is_path_suffix t (l ++ w :: s1) z z s2). rewrite <- app_assoc; simpl; auto. }
  pose proof (is_path_fun _ _ _ Hz _ Hz2) as E.
  apply (f_equal (@length N)) in E. rewrite !app_length in E; simpl in E. rewrite app_length in E; simpl in E. lia.
Qed.

Lemma anc_depth : forall t z w pz pw, is_path t z pz -> is_path t w pw -> In w pz -> (length pw <= length pz)%nat.
Proof.
  intros t z w pz pw Hz Hpw Hw.
  destruct (in_split _ _ Hw) as [l [s E]]; subst pz.
  pose proof (is_path_suffix _ _ _ _ _ Hz) as Hw'.
  rewrite (is_path_fun _ _ _ Hpw _ Hw'). rewrite app_length; simpl; lia.
Qed.

(** the LCA computed on two lineages that end at the same root *)
Lemma lca_paths_spec : forall t x y p1 p2,
  is_path t x p1 -> is_path t y p2 -> lasto p1 = lasto p2 ->
  exists z pz, lca_paths p1 p2 = Some z /\ is_path t z pz /\ rev pz = cpre (rev p1) (rev p2) /\
               (forall w, In w pz <-> In w p1 /\ In w p2).
Proof.
  intros t x y p1 p2 H1 H2 Hroot.
  destruct (is_path_last_root _ _ _ H1) as [root [rr [Hl1 _]]].
  assert (Hl2 : lasto p2 = Some root) by congruence.
  destruct (lasto_some _ _ Hl1) as [q1 E1]. destruct (lasto_some _ _ Hl2) as [q2 E2].
  destruct (cpre_prefix (rev p1) (rev p2)) as [d1 [d2 [Ed1 Ed2]]].
  remember (cpre (rev p1) (rev p2)) as c eqn:Hc.
  assert (Hne : exists c0 z, c = c0 ++ [z]).
  { assert (Hc' : exists e, c = [root] ++ e).
    { rewrite Hc, E1, E2, !rev_app_distr; simpl. rewrite N.eqb_refl. eauto. }
    destruct Hc' as [e ->]. destruct (@exists_last _ ([root] ++ e)) as [c0 [z E]]; [discriminate|]. eauto. }
  destruct Hne as [c0 [z Ec]].
  assert (P1 : p1 = rev d1 ++ z :: rev c0).
  { rewrite <- (rev_involutive p1), Ed1, Ec, !rev_app_distr; simpl. try rewrite <- app_assoc; reflexivity. }
  assert (P2 : p2 = rev d2 ++ z :: rev c0).
  { rewrite <- (rev_involutive p2), Ed2, Ec, !rev_app_distr; simpl. try rewrite <- app_assoc; reflexivity. }
  assert (Hz : is_path t z (z :: rev c0)) by (rewrite P1 in H1; eapply is_path_suffix; eauto).
  exists z, (z :: rev c0). repeat split.
  - unfold lca_paths. rewrite <- Hc, Ec. apply lasto_app1.
  - exact Hz.
  - rewrite Ec. simpl. rewrite rev_involutive. reflexivity.
  - rewrite P1. apply in_or_app; right; auto.
  - rewrite P2. apply in_or_app; right; auto.
  - intros [Hw1 Hw2].
    destruct (in_split _ _ Hw1) as [l1 [s1 F1]]. destruct (in_split _ _ Hw2) as [l2 [s2 F2]].
    assert (Hws1 : is_path t w (w :: s1)) by (rewrite F1 in H1; eapply is_path_suffix; eauto).
    assert (Hws2 : is_path t w (w :: s2)) by (rewrite F2 in H2; eapply is_path_suffix; eauto).
    pose proof (is_path_fun _ _ _ Hws1 _ Hws2) as Es. inversion Es; subst s2.
    assert (R1 : rev p1 = rev (w :: s1) ++ rev l1).
    { rewrite F1, rev_app_distr. reflexivity. }
    assert (R2 : rev p2 = rev (w :: s1) ++ rev l2).
    { rewrite F2, rev_app_distr. reflexivity. }
    destruct (cpre_max (rev (w :: s1)) (rev l1) (rev l2)) as [e Ee].
    rewrite <- R1, <- R2, <- Hc, Ec in Ee.
    assert (Hin : In w (c0 ++ [z])).
    { rewrite Ee. apply in_or_app; left. apply in_rev. rewrite rev_involutive. simpl; auto. }
    apply in_app_or in Hin. destruct Hin as [Hin|[<-|[]]]; simpl; auto.
    right. apply in_rev in Hin. exact Hin.
Qed.

(** ** Well-formed taxonomies *)
Record wf_tax (t : tax) : Prop := {
  wf_root : exists root, (exists r, get t root = Some (root, r)) /\ forall x r, get t x = Some (x, r) -> x = root;
  wf_parent : forall x p r, get t x = Some (p, r) -> exists v, get t p = Some v;
  wf_reach : forall x v, get t x = Some v -> exists p, is_path t x p
}.

Lemma wf_same_root : forall t x y p1 p2, wf_tax t -> is_path t x p1 -> is_path t y p2 -> lasto p1 = lasto p2.
Proof.
  intros t x y p1 p2 [[root [_ Hr]] _ _] H1 H2.
  destruct (is_path_last_root _ _ _ H1) as [z1 [r1 [L1 G1]]].
  destruct (is_path_last_root _ _ _ H2) as [z2 [r2 [L2 G2]]].
  rewrite L1, L2. rewrite (Hr _ _ G1), (Hr _ _ G2). reflexivity.
Qed.

Definition present (t : tax) (x : N) : Prop := exists v, get t x = Some v.

Lemma lca_char : forall t x y, wf_tax t -> present t x -> present t y ->
  exists z, lca t x y = Some z /\ present t z /\ (forall u, anc t z u <-> anc t x u /\ anc t y u).
Proof.
  intros t x y W [vx Hx] [vy Hy].
  destruct (wf_reach _ W _ _ Hx) as [p1 H1]. destruct (wf_reach _ W _ _ Hy) as [p2 H2].
  destruct (lca_paths_spec _ _ _ _ _ H1 H2 (wf_same_root _ _ _ _ _ W H1 H2)) as [z [pz [Hl [Hz [_ Hin]]]]].
  exists z. split; [|split].
  - unfold lca. rewrite (path_complete _ _ _ H1), (path_complete _ _ _ H2). exact Hl.
  - inversion Hz; subst; eexists; eauto.
  - intros u; split.
    + intros [q [Hq Hu]]. rewrite (is_path_fun _ _ _ Hq _ Hz) in Hu. apply Hin in Hu.
      split; [exists p1|exists p2]; tauto.
    + intros [[q1 [Hq1 Hu1]] [q2 [Hq2 Hu2]]].
      rewrite (is_path_fun _ _ _ Hq1 _ H1) in Hu1. rewrite (is_path_fun _ _ _ Hq2 _ H2) in Hu2.
      exists pz; split; auto. apply Hin; auto.
Qed.

Lemma present_anc_refl : forall t x, wf_tax t -> present t x -> anc t x x.
Proof. intros t x W [v H]. destruct (wf_reach _ W _ _ H) as [p Hp]. eapply anc_refl; eauto. Qed.

Lemma lca_comm : forall t x y, lca t x y = lca t y x.
Proof.
  intros; unfold lca. destruct (path t x), (path t y); auto.
  unfold lca_paths. rewrite cpre_comm. reflexivity.
Qed.

Lemma lca_idem : forall t x p, is_path t x p -> lca t x x = Some x.
Proof.
  intros t x p H. unfold lca. rewrite (path_complete _ _ _ H). unfold lca_paths. rewrite cpre_refl.
  destruct (is_path_head _ _ _ H) as [l ->]. apply lasto_rev_hd.
Qed.

Definition obind {A B} (o : option A) (f : A -> option B) : option B := match o with Some a => f a | None => None end.

Lemma lca_assoc : forall t x y w, wf_tax t -> present t x -> present t y -> present t w ->
  obind (lca t x y) (fun a => lca t a w) = obind (lca t y w) (fun c => lca t x c) /\
  exists b, obind (lca t x y) (fun a => lca t a w) = Some b.
Proof.
  intros t x y w W Px Py Pw.
  destruct (lca_char t x y W Px Py) as [a [Ha [Pa Ca]]].
  destruct (lca_char t a w W Pa Pw) as [b [Hb [Pb Cb]]].
  destruct (lca_char t y w W Py Pw) as [c [Hc [Pc Cc]]].
  destruct (lca_char t x c W Px Pc) as [d [Hd [Pd Cd]]].
  rewrite Ha, Hc; simpl. rewrite Hb, Hd. split; [|eauto]. f_equal.
  apply (anc_antisym t).
  - apply Cb. cut (anc t x d /\ anc t c d). { intros [A1 A2]. apply Cc in A2. split; [apply Ca|]; tauto. }
    apply Cd. apply present_anc_refl; auto.
  - apply Cd. cut (anc t a b /\ anc t w b). { intros [A1 A2]. apply Ca in A1. split; [|apply Cc]; tauto. }
    apply Cb. apply present_anc_refl; auto.
Qed.

Lemma lca_deepest : forall t x y, wf_tax t -> present t x -> present t y ->
  exists z, lca t x y = Some z /\ anc t x z /\ anc t y z /\
            (forall w, anc t x w -> anc t y w -> anc t z w) /\
            (forall w pw pz, anc t x w -> anc t y w -> is_path t w pw -> is_path t z pz -> (length pw <= length pz)%nat).
Proof.
  intros t x y W Px Py. destruct (lca_char t x y W Px Py) as [z [Hz [Pz C]]].
  exists z. pose proof (present_anc_refl _ _ W Pz) as R. apply C in R. destruct R as [R1 R2].
  repeat split; auto.
  - intros w A1 A2. apply C; auto.
  - intros w pw pz A1 A2 Hw Hpz. assert (A : anc t z w) by (apply C; auto).
    destruct A as [q [Hq Hin]]. rewrite (is_path_fun _ _ _ Hq _ Hpz) in Hin. eapply anc_depth; eauto.
Qed.

Lemma path_shape : forall t x p, path t x = Some p ->
  hd_error p = Some x /\ (exists z r, lasto p = Some z /\ get t z = Some (z, r)) /\ chain t p /\ NoDup p.
Proof.
  intros t x p H. apply path_sound in H. repeat split.
  - destruct (is_path_head _ _ _ H) as [l ->]; auto.
  - eapply is_path_last_root; eauto.
  - eapply is_path_chain; eauto.
  - eapply is_path_NoDup; eauto.
Qed.

Lemma path_total : forall t x, wf_tax t -> present t x -> exists p, path t x = Some p.
Proof. intros t x W [v H]. destruct (wf_reach _ W _ _ H) as [p Hp]. exists p. apply path_complete; auto. Qed.

(** ** Clade membership and ranks are reads of the lineage *)
Lemma mem_In : forall a l, mem a l = true <-> In a l.
Proof.
  intros a l; unfold mem. rewrite existsb_exists. split.
  - intros [y [Hy E]]. apply N.eqb_eq in E; subst; auto.
  - intros H. exists a; split; auto. apply N.eqb_refl.
Qed.

Lemma subclade_f_spec : forall t x p, is_path t x p -> forall a fuel, (length p <= fuel)%nat ->
  subclade_f fuel t x a = Some (mem a p).
Proof.
  intros t x p H; induction H as [x r Hg | x p r l Hg Hne Hp IH]; intros a fuel Hf; simpl in Hf;
    (destruct fuel; [lia|]); simpl; rewrite (N.eqb_sym a x); destruct (x =? a) eqn:E; auto; rewrite Hg.
  - rewrite N.eqb_refl. reflexivity.
  - apply N.eqb_neq in Hne; rewrite Hne. apply IH; lia.
Qed.

Lemma subclade_spec : forall t x p a, path t x = Some p ->
  subclade t x a = Some (mem a p) /\ (mem a p = true <-> In a p).
Proof.
  intros t x p a H. apply path_sound in H. split; [|apply mem_In].
  apply subclade_f_spec; auto. unfold fuel_of. pose proof (is_path_length _ _ _ H). lia.
Qed.

Lemma belongs_f_spec : forall t x p, is_path t x p -> forall s fuel, (length p <= fuel)%nat ->
  belongs_f fuel t x s = Some (existsb (fun y => mem y s) p).
Proof.
  intros t x p H; induction H as [x r Hg | x p r l Hg Hne Hp IH]; intros s fuel Hf; simpl in Hf;
    (destruct fuel; [lia|]); simpl; destruct (mem x s) eqn:E; auto; rewrite Hg.
  - rewrite N.eqb_refl. reflexivity.
  - apply N.eqb_neq in Hne; rewrite Hne. apply IH; lia.
Qed.

Lemma belongs_spec : forall t x p s, path t x = Some p ->
  belongs t x s = Some (existsb (fun y => mem y s) p) /\
  (existsb (fun y => mem y s) p = true <-> exists y, In y p /\ In y s).
Proof.
  intros t x p s H. apply path_sound in H. split.
  - apply belongs_f_spec; auto. unfold fuel_of. pose proof (is_path_length _ _ _ H). lia.
  - rewrite existsb_exists. split; intros [y [H1 H2]]; exists y; split; auto; apply mem_In; auto.
Qed.

Definition has_rank_at (t : tax) (r : N) (y : N) : bool :=
  match get t y with Some (_, rk) => rk =? r | None => false end.

Lemma at_rank_f_spec : forall t x p, is_path t x p -> forall r fuel, (length p <= fuel)%nat ->
  at_rank_f fuel t x r = Some (find (has_rank_at t r) p).
Proof.
  intros t x p H; induction H as [x rr Hg | x p rr l Hg Hne Hp IH]; intros r fuel Hf; simpl in Hf;
    (destruct fuel; [lia|]); simpl; unfold has_rank_at at 1; rewrite Hg; destruct (rr =? r) eqn:E; auto.
  - rewrite N.eqb_refl. reflexivity.
  - apply N.eqb_neq in Hne; rewrite Hne. apply IH; lia.
Qed.

Lemma has_rank_f_spec : forall t x p, is_path t x p -> forall r fuel, (length p <= fuel)%nat ->
  has_rank_f fuel t x r = Some (existsb (has_rank_at t r) p).
Proof.
  intros t x p H; induction H as [x rr Hg | x p rr l Hg Hne Hp IH]; intros r fuel Hf; simpl in Hf;
    (destruct fuel; [lia|]); simpl; unfold has_rank_at at 1; rewrite Hg; destruct (rr =? r) eqn:E; auto.
  - rewrite N.eqb_refl. reflexivity.
  - apply N.eqb_neq in Hne; rewrite Hne. apply IH; lia.
Qed.

(** first element of a list satisfying f, as a proposition *)
Lemma find_first : forall (f : N -> bool) l z, find f l = Some z <->
  exists l1 l2, l = l1 ++ z :: l2 /\ f z = true /\ forall y, In y l1 -> f y = false.
Proof.
  intros f l; induction l as [|a l IH]; intros z; simpl.
  - split; [discriminate|]. intros [l1 [l2 [E _]]]. destruct l1; discriminate.
  - destruct (f a) eqn:Fa; split.
    + intros E; inversion E; subst. exists [], l; simpl; repeat split; auto. intros y [].
    + intros [l1 [l2 [E [Fz Hl]]]]. destruct l1 as [|b l1]; simpl in E; inversion E; subst; auto.
      rewrite (Hl b) in Fa by (left; auto). discriminate.
    + intros Hf. apply IH in Hf. destruct Hf as [l1 [l2 [E [Fz Hl]]]]. subst l.
      exists (a :: l1), l2; simpl; repeat split; auto. intros y [<-|Hy]; auto.
    + intros [l1 [l2 [E [Fz Hl]]]]. destruct l1 as [|b l1]; simpl in E; inversion E; subst.
      * congruence.
      * apply IH. exists l1, l2; repeat split; auto. intros y Hy; apply Hl; right; auto.
Qed.

Lemma at_rank_spec : forall t x p r, path t x = Some p ->
  at_rank t x r = Some (find (has_rank_at t r) p) /\
  has_rank t x r = Some (existsb (has_rank_at t r) p) /\
  (forall z, find (has_rank_at t r) p = Some z <->
     exists l1 l2, p = l1 ++ z :: l2 /\ has_rank_at t r z = true /\ forall y, In y l1 -> has_rank_at t r y = false) /\
  (find (has_rank_at t r) p = None <-> forall y, In y p -> has_rank_at t r y = false).
Proof.
  intros t x p r H. apply path_sound in H.
  assert (L : (length p <= fuel_of t)%nat) by (unfold fuel_of; pose proof (is_path_length _ _ _ H); lia).
  split; [apply at_rank_f_spec; auto|]. split; [apply has_rank_f_spec; auto|]. split; [apply find_first|].
  split.
  - intros Hn y Hy. eapply find_none; eauto.
  - intros Hall. destruct (find (has_rank_at t r) p) eqn:E; auto.
    apply find_some in E. destruct E as [E1 E2]. rewrite Hall in E2; auto; discriminate.
Qed.

(** ** Aliases: what the loader builds *)
Definition alias_ok (t : tax) : Prop := forall o n, get_alias t o = Some n -> present t n.

Lemma resolve_present : forall t x n, alias_ok t -> resolve t x = Some n -> present t n.
Proof.
  intros t x n A H. unfold resolve in H. destruct (get t x) as [v|] eqn:G.
  - inversion H; subst. exists v; auto.
  - eapply A; eauto.
Qed.

Lemma add_alias_ok : forall t on, alias_ok t -> alias_ok (add_alias t on) /\ t_nodes (add_alias t on) = t_nodes t.
Proof.
  intros t [old new] A. unfold add_alias. destruct (resolve t new) as [n|] eqn:R; [|split; auto].
  split; [|reflexivity]. intros o m H. unfold get_alias in H; simpl in H.
  destruct (Pos.eq_dec (key old) (key o)) as [E|NE].
  - rewrite E, PM.gss in H. inversion H; subst. destruct (resolve_present _ _ _ A R) as [v Hv]. exists v; exact Hv.
  - rewrite PM.gso in H by congruence. destruct (A o m H) as [v Hv]. exists v; exact Hv.
Qed.

Lemma load_alias_ok : forall rows merged, alias_ok (load rows merged).
Proof.
  intros rows merged. unfold load.
  assert (A0 : alias_ok (mkTax (load_nodes rows) (PM.empty _))).
  { intros o n H. unfold get_alias in H; simpl in H. rewrite PM.gempty in H. discriminate. }
  revert A0. generalize (mkTax (load_nodes rows) (PM.empty N)) as t.
  induction merged as [|on merged IH]; intros t A; simpl; auto.
  apply IH. apply add_alias_ok; auto.
Qed.

Lemma alias_resolves : forall rows merged x n, resolve (load rows merged) x = Some n ->
  present (load rows merged) n /\ resolve (load rows merged) n = Some n.
Proof.
  intros rows merged x n H. pose proof (resolve_present _ _ _ (load_alias_ok rows merged) H) as P.
  split; auto. destruct P as [v Hv]. unfold resolve. rewrite Hv. reflexivity.
Qed.

(** one more merged row "old | new": the old id now designates the node the new id designated *)
Lemma alias_row : forall rows merged old new n, let t := load rows merged in
  resolve t new = Some n -> get t old = None ->
  resolve (load rows (merged ++ [(old, new)])) old = Some n /\
  (forall x, x <> old -> resolve (load rows (merged ++ [(old, new)])) x = resolve t x).
Proof.
  intros rows merged old new n t R G.
  assert (E : load rows (merged ++ [(old, new)]) = add_alias t (old, new)).
  { unfold load, t. rewrite fold_left_app. reflexivity. }
  rewrite E. unfold add_alias. rewrite R. split.
  - unfold resolve, get; simpl. fold (get t old). rewrite G. unfold get_alias; simpl. apply PM.gss.
  - intros x Hx. unfold resolve, get; simpl. fold (get t x). destruct (get t x); auto.
    unfold get_alias; simpl. apply PM.gso. intros K. apply key_inj in K. congruence.
Qed.

(** ** The parent cycle 2 -> 3 -> 2 beside the root: Path exhausts any fuel (the Go loop never returns) *)
Definition cycle_tax : tax := load [(1, 1, 0); (2, 3, 1); (3, 2, 2)] [].

Lemma cycle_out_of_fuel : forall fuel, path_f fuel cycle_tax 2 = None /\ path_f fuel cycle_tax 3 = None.
Proof.
  induction fuel as [|f [IH2 IH3]]; [split; reflexivity|].
  split; simpl.
  - change (get cycle_tax 2) with (Some (3, 1)). change (3 =? 2) with false. rewrite IH3. reflexivity.
  - change (get cycle_tax 3) with (Some (2, 2)). change (2 =? 3) with false. rewrite IH2. reflexivity.
Qed.

Lemma cycle_no_path : (forall fuel, path_f fuel cycle_tax 2 = None) /\ ~ (exists p, is_path cycle_tax 2 p) /\ ~ wf_tax cycle_tax.
Proof.
  split; [intros; apply cycle_out_of_fuel|]. 
  assert (N2 : ~ (exists p, is_path cycle_tax 2 p)).
  { intros [p H]. pose proof (path_f_complete _ _ _ H (length p) (le_n _)) as E.
    rewrite (proj1 (cycle_out_of_fuel _)) in E. discriminate. }
  split; auto. intros W. apply N2. apply (wf_reach _ W 2 (3, 1)). reflexivity.
Qed.

(** ** The executable well-formedness check is sound *)
Lemma unkey_key : forall x, unkey (key x) = x.
Proof. intros x. unfold unkey, key. apply N.pos_pred_succ. Qed.

Lemma wf_check_sound : forall t, wf_check t = true -> wf_tax t.
Proof.
  intros t H. unfold wf_check in H.
  destruct (find self_looped (PM.elements (t_nodes t))) as [e0|] eqn:F; [|discriminate].
  rewrite forallb_forall in H.
  assert (El : forall x v, get t x = Some v -> In (key x, v) (PM.elements (t_nodes t))).
  { intros x v G. apply PM.elements_correct. exact G. }
  apply find_some in F. destruct F as [F1 F2].
  destruct e0 as [k0 [p0 r0]]. unfold self_looped in F2; simpl in F2. apply N.eqb_eq in F2.
  assert (K0 : get t (unkey k0) = Some (unkey k0, r0)).
  { apply PM.elements_complete in F1. unfold get.
    assert (E : key (unkey k0) = k0).
    { unfold key, unkey. destruct k0; simpl; try reflexivity; rewrite ?Pos.succ_pred_double; auto. }
    rewrite E, F1, F2. reflexivity. }
  constructor.
  - exists (unkey k0). split; [eauto|]. intros x r G. pose proof (H _ (El _ _ G)) as C. simpl in C.
    unfold self_looped in C; simpl in C. rewrite unkey_key, N.eqb_refl in C. simpl in C.
    apply andb_prop in C. destruct C as [C _]. apply andb_prop in C. destruct C as [C _]. apply N.eqb_eq in C. exact C.
  - intros x p r G. pose proof (H _ (El _ _ G)) as C. simpl in C.
    apply andb_prop in C. destruct C as [C _]. apply andb_prop in C. destruct C as [_ C].
    destruct (get t p) as [v|]; [eauto|discriminate].
  - intros x v G. pose proof (H _ (El _ _ G)) as C. simpl in C.
    apply andb_prop in C. destruct C as [_ C]. rewrite unkey_key in C.
    destruct (path t x) as [p|] eqn:P; [|discriminate]. exists p. apply path_sound; auto.
Qed.

(** ** Weighted LCA at threshold 1.0: a pure list fact first.
    The level-by-level descent returns the last element of the longest common prefix of the
    root-first lineages of the taxa of positive weight. *)
Open Scope Z_scope.

Definition pos (ts : list wt) : list wt := filter (fun e : wt => 0 <? snd e) ts.
Definition lcpl (rs : list (list N)) : list N := match rs with [] => [] | r :: rs' => fold_left cpre rs' r end.
Definition nonneg (ts : list wt) : Prop := forall e, In e ts -> 0 <= snd e.

Lemma nonneg_cons : forall e ts, nonneg (e :: ts) -> 0 <= snd e /\ nonneg ts.
Proof. intros e ts H; split; [apply H; left; auto|intros x Hx; apply H; right; auto]. Qed.

Lemma total_cons : forall e ts, total (e :: ts) = snd e + total ts.
Proof. reflexivity. Qed.

Lemma hw_cons : forall h e ts, head_weight h (e :: ts) =
  match fst e with h' :: _ => if (h' =? h)%N then snd e + head_weight h ts else head_weight h ts | [] => head_weight h ts end.
Proof. reflexivity. Qed.

Lemma hw_bounds : forall h ts, nonneg ts -> 0 <= head_weight h ts <= total ts.
Proof.
  intros h ts; induction ts as [|e ts IH]; intros Hn.
  - simpl; lia.
  - apply nonneg_cons in Hn. destruct Hn as [He Hn]. specialize (IH Hn).
    rewrite hw_cons, total_cons. destruct (fst e) as [|h' r]; [lia|]. destruct (h' =? h)%N; lia.
Qed.

Lemma hw_eq_total : forall h ts, nonneg ts ->
  (head_weight h ts = total ts <-> forall e, In e ts -> 0 < snd e -> exists r, fst e = h :: r).
Proof.
  intros h ts; induction ts as [|e ts IH]; intros Hn.
  - simpl; split; auto. intros _ e [].
  - apply nonneg_cons in Hn. destruct Hn as [He Hn]. specialize (IH Hn).
    pose proof (hw_bounds h ts Hn) as B.
    rewrite hw_cons, total_cons. destruct (fst e) as [|h' r] eqn:Fe; [|destruct (h' =? h)%N eqn:Eh].
    + split.
      * intros E x [<-|Hx] Px; [lia|]. apply IH; auto. lia.
      * intros A. assert (snd e = 0). { destruct (Z.eq_dec (snd e) 0); auto. destruct (A e) as [r Hr]; [left; auto|lia|]. rewrite Fe in Hr; discriminate. }
        assert (head_weight h ts = total ts) by (apply IH; intros x Hx; apply A; right; auto). lia.
    + apply N.eqb_eq in Eh; subst h'. split.
      * intros E x [<-|Hx] Px; [eauto|]. apply IH; auto. lia.
      * intros A. assert (head_weight h ts = total ts) by (apply IH; intros x Hx; apply A; right; auto). lia.
    + apply N.eqb_neq in Eh. split.
      * intros E x [<-|Hx] Px; [lia|]. apply IH; auto. lia.
      * intros A. assert (snd e = 0). { destruct (Z.eq_dec (snd e) 0); auto. destruct (A e) as [r' Hr]; [left; auto|lia|]. rewrite Fe in Hr; inversion Hr; congruence. }
        assert (head_weight h ts = total ts) by (apply IH; intros x Hx; apply A; right; auto). lia.
Qed.

Lemma total_pos : forall ts, nonneg ts -> (0 < total ts <-> pos ts <> []).
Proof.
  induction ts as [|e ts IH]; intros Hn.
  - simpl; split; [lia|congruence].
  - apply nonneg_cons in Hn. destruct Hn as [He Hn]. specialize (IH Hn). rewrite total_cons. unfold pos in *; simpl.
    destruct (0 <? snd e) eqn:E.
    + apply Z.ltb_lt in E. split; [discriminate|]. intros _.
      assert (0 <= total ts) by (pose proof (hw_bounds 0%N ts Hn); lia). lia.
    + apply Z.ltb_ge in E. rewrite <- IH. lia.
Qed.

Lemma in_pos : forall e ts, In e (pos ts) <-> In e ts /\ 0 < snd e.
Proof. intros e ts. unfold pos. rewrite filter_In, Z.ltb_lt. tauto. Qed.

Lemma argmax_spec : forall all ts best bt w o, argmax ts all best bt = (w, o) ->
  best <= w /\ (forall e h r, In e ts -> fst e = h :: r -> head_weight h all <= w) /\
  ((w = best /\ o = bt) \/ (exists h, o = Some h /\ w = head_weight h all /\ best < w)).
Proof.
  intros all ts; induction ts as [|[p wgt] ts IH]; intros best bt w o H; simpl in H.
  - inversion H; subst. split; [lia|]. split; [intros e h r []|left; auto].
  - destruct p as [|h r].
    + destruct (IH _ _ _ _ H) as [A [B C]]. split; auto. split; auto.
      intros e h r [<-|He] Fe; [discriminate|eauto].
    + destruct (best <? head_weight h all) eqn:E.
      * apply Z.ltb_lt in E. destruct (IH _ _ _ _ H) as [A [B C]]. split; [lia|]. split.
        -- intros e h' r' [<-|He] Fe; [simpl in Fe; inversion Fe; subst; auto|eauto].
        -- destruct C as [[-> ->]|[h' [-> [-> L]]]]; right; [exists h|exists h']; repeat split; auto; lia.
      * apply Z.ltb_ge in E. destruct (IH _ _ _ _ H) as [A [B C]]. split; auto. split; auto.
        intros e h' r' [<-|He] Fe; [simpl in Fe; inversion Fe; subst; lia|eauto].
Qed.

Lemma cpre_cons_inv : forall r a h L, cpre r a = h :: L -> (exists r', r = h :: r') /\ (exists a', a = h :: a').
Proof.
  intros [|x r] [|y a] h L H; simpl in H; try discriminate.
  destruct (x =? y)%N eqn:E; [|discriminate]. apply N.eqb_eq in E; subst. inversion H; subst. eauto.
Qed.

Lemma fold_cpre_head : forall rs r h L, fold_left cpre rs r = h :: L ->
  (exists r', r = h :: r') /\ forall x, In x rs -> exists x', x = h :: x'.
Proof.
  induction rs as [|a rs IH]; intros r h L H; simpl in H.
  - split; [eauto|intros x []].
  - destruct (IH _ _ _ H) as [[c Hc] Hall]. destruct (cpre_cons_inv _ _ _ _ Hc) as [Hr Ha].
    split; auto. intros x [<-|Hx]; auto.
Qed.

Lemma lcpl_head : forall rs h L, lcpl rs = h :: L -> forall x, In x rs -> exists x', x = h :: x'.
Proof.
  intros [|r rs] h L H x Hx; simpl in H; [discriminate|].
  destruct (fold_cpre_head _ _ _ _ H) as [Hr Hall]. destruct Hx as [<-|Hx]; auto.
Qed.

Lemma fold_cpre_cons : forall h rs r, (forall x, In x rs -> exists x', x = h :: x') ->
  fold_left cpre rs (h :: r) = h :: fold_left cpre (map (@tl N) rs) r.
Proof.
  intros h rs; induction rs as [|a rs IH]; intros r Hall; simpl; auto.
  destruct (Hall a (or_introl eq_refl)) as [a' ->]. simpl. rewrite N.eqb_refl. apply IH.
  intros x Hx; apply Hall; right; auto.
Qed.

Lemma lcpl_cons : forall h rs, rs <> [] -> (forall x, In x rs -> exists x', x = h :: x') ->
  lcpl rs = h :: lcpl (map (@tl N) rs).
Proof.
  intros h [|r rs] Hne Hall; [congruence|]. simpl.
  destruct (Hall r (or_introl eq_refl)) as [r' ->]. simpl. apply fold_cpre_cons.
  intros x Hx; apply Hall; right; auto.
Qed.

Lemma lasto_cons_some : forall L a, exists z, lasto (a :: L) = Some z.
Proof.
  induction L as [|b L IH]; intros a; [exists a; reflexivity|].
  destruct (IH b) as [z Hz]. exists z. change (lasto (a :: b :: L)) with (lasto (b :: L)). exact Hz.
Qed.

Lemma lasto_cons : forall h L, lasto (h :: L) = match lasto L with Some z => Some z | None => Some h end.
Proof.
  intros h [|a L]; [reflexivity|]. change (lasto (h :: a :: L)) with (lasto (a :: L)).
  destruct (lasto_cons_some L a) as [z ->]. reflexivity.
Qed.

Definition wl_result (ts : list wt) (tmax : option N) : option N :=
  match pos ts with
  | [] => tmax
  | _ => match lasto (lcpl (map fst (pos ts))) with Some z => Some z | None => tmax end
  end.

Lemma pos_step : forall h ts, (forall e, In e (pos ts) -> exists r, fst e = h :: r) ->
  pos (map strip (filter (keep (Some h)) ts)) = map strip (pos ts).
Proof.
  intros h ts; induction ts as [|e ts IH]; intros A; simpl; auto.
  unfold pos in *; simpl in *. destruct (0 <? snd e) eqn:E.
  - destruct (A e (or_introl eq_refl)) as [r Hr]. unfold keep at 1. rewrite Hr, N.eqb_refl. simpl. rewrite E.
    f_equal. apply IH. intros x Hx; apply A; right; auto.
  - destruct (keep (Some h) e); simpl; [rewrite E|]; apply IH; auto.
Qed.

Lemma wl_spec : forall fuel ts tmax, nonneg ts -> (0 < fuel)%nat ->
  (forall e, In e (pos ts) -> (length (fst e) < fuel)%nat) ->
  wl fuel ts tmax = Some (wl_result ts tmax).
Proof.
  induction fuel as [|f IH]; intros ts tmax Hn Hf Hlen; [lia|].
  simpl. destruct (argmax ts ts 0 None) as [wmax tm] eqn:Ea.
  destruct (argmax_spec _ _ _ _ _ _ Ea) as [A1 [A2 A3]].
  pose proof (total_pos ts Hn) as TP.
  destruct ((0 <? total ts) && (wmax =? total ts))%bool eqn:C.
  - apply andb_prop in C. destruct C as [C1 C2]. apply Z.ltb_lt in C1. apply Z.eqb_eq in C2.
    destruct A3 as [[-> _]|[h [-> [Hw _]]]]; [lia|].
    assert (AllH : forall e, In e (pos ts) -> exists r, fst e = h :: r).
    { intros e He. apply in_pos in He. destruct He as [He Pe].
      apply (proj1 (hw_eq_total h ts Hn)); auto. congruence. }
    assert (Pne : pos ts <> []) by (apply TP; auto).
    assert (F1 : (0 < f)%nat).
    { destruct (pos ts) as [|e0 P] eqn:EP; [congruence|]. pose proof (Hlen e0 (or_introl eq_refl)) as L.
      destruct (AllH e0 (or_introl eq_refl)) as [r Hr]. rewrite Hr in L; simpl in L. lia. }
    rewrite IH; auto.
    + f_equal. unfold wl_result. rewrite (pos_step h ts AllH).
      destruct (pos ts) as [|e0 P] eqn:EP; [congruence|].
      assert (M : map fst (map strip (e0 :: P)) = map (@tl N) (map fst (e0 :: P))).
      { rewrite !map_map. reflexivity. }
      assert (L : lcpl (map fst (e0 :: P)) = h :: lcpl (map (@tl N) (map fst (e0 :: P)))).
      { apply lcpl_cons; [discriminate|]. intros x Hx. apply in_map_iff in Hx. destruct Hx as [e [<- He]]. apply AllH; auto. }
      rewrite L, lasto_cons, M. simpl map at 1. cbv iota.
      destruct (lasto (lcpl (map (@tl N) (map fst (e0 :: P))))); reflexivity.
    + intros e He. apply in_map_iff in He. destruct He as [e' [<- He']]. apply filter_In in He'. simpl. apply Hn; tauto.
    + intros e He. rewrite (pos_step h ts AllH) in He. apply in_map_iff in He. destruct He as [e' [<- He']].
      pose proof (Hlen e' He') as L. destruct (AllH e' He') as [r Hr]. unfold strip; simpl. rewrite Hr in *; simpl in *. lia.
  - f_equal. unfold wl_result. destruct (pos ts) as [|e0 P] eqn:EP; auto.
    assert (T0 : 0 < total ts) by (apply TP; congruence).
    destruct (lasto (lcpl (map fst (e0 :: P)))) as [z|] eqn:El; auto. exfalso.
    destruct (lcpl (map fst (e0 :: P))) as [|h L] eqn:Elc; [discriminate|].
    pose proof (lcpl_head _ _ _ Elc) as AllH.
    assert (AllH' : forall e, In e ts -> 0 < snd e -> exists r, fst e = h :: r).
    { intros e He Pe. apply AllH. apply in_map. rewrite <- EP. apply in_pos; auto. }
    assert (Hw : head_weight h ts = total ts) by (apply hw_eq_total; auto).
    assert (I0 : In e0 ts /\ 0 < snd e0) by (apply in_pos; rewrite EP; left; auto).
    destruct (AllH' e0 (proj1 I0) (proj2 I0)) as [r0 Hr0].
    pose proof (A2 e0 h r0 (proj1 I0) Hr0) as Le.
    assert (Ub : wmax <= total ts).
    { destruct A3 as [[-> _]|[h' [_ [-> _]]]]; [lia|]. apply hw_bounds; auto. }
    apply andb_false_iff in C. destruct C as [C|C]; [apply Z.ltb_ge in C; lia|apply Z.eqb_neq in C; lia].
Qed.
Close Scope Z_scope.


(** ** The descent for any threshold (round 2) *)
Open Scope Z_scope.

Lemma hw_pos_head : forall h ts, 0 < head_weight h ts -> exists e r, In e ts /\ fst e = h :: r.
Proof.
  intros h ts; induction ts as [|e ts IH]; intros H; [simpl in H; lia|].
  rewrite hw_cons in H. destruct (fst e) as [|h' r] eqn:Fe.
  - destruct (IH H) as [e' [r' [Hi Hf]]]. exists e', r'; split; [right|]; auto.
  - destruct (h' =? h)%N eqn:E.
    + apply N.eqb_eq in E; subst. exists e, r; split; [left|]; auto.
    + destruct (IH H) as [e' [r' [Hi Hf]]]. exists e', r'; split; [right|]; auto.
Qed.

Lemma heads_In : forall ts h, In h (heads ts) <-> exists e r, In e ts /\ fst e = h :: r.
Proof.
  induction ts as [|[p w] ts IH]; intros h; simpl.
  - split; [intros []|intros [e [r [[] _]]]].
  - destruct p as [|h' r'].
    + rewrite IH. split.
      * intros [e [r [Hi Hf]]]. exists e, r; auto.
      * intros [e [r [[<-|Hi] Hf]]]; [discriminate|eauto].
    + assert (K : In h (if mem h' (heads ts) then heads ts else h' :: heads ts) <-> h = h' \/ In h (heads ts)).
      { destruct (mem h' (heads ts)) eqn:M; simpl.
        - apply mem_In in M. split; [auto|intros [->|]; auto].
        - split; intros [E|Hi]; auto. }
      rewrite K, IH. split.
      * intros [->|[e [r [Hi Hf]]]]; [exists (h' :: r', w), r'; auto|exists e, r; auto].
      * intros [e [r [[<-|Hi] Hf]]]; [left; simpl in Hf; congruence|right; eauto].
Qed.

Lemma heads_NoDup : forall ts, NoDup (heads ts).
Proof.
  induction ts as [|[p w] ts IH]; simpl; [constructor|]. destruct p as [|h r]; auto.
  destruct (mem h (heads ts)) eqn:M; auto. constructor; auto. intros Hi. apply mem_In in Hi. congruence.
Qed.

(** weighMax is THE maximum of the level table (0 if nothing is positive); taxonMax is one of the keys that reach it *)
Definition is_maxw (ts : list wt) (w : Z) : Prop :=
  0 <= w /\ (forall e h r, In e ts -> fst e = h :: r -> head_weight h ts <= w) /\
  (w = 0 \/ exists h, In h (heads ts) /\ w = head_weight h ts).

Lemma maxw_is : forall ts, is_maxw ts (maxw ts) /\
  match pick ts with None => maxw ts = 0 | Some h => In h (heads ts) /\ head_weight h ts = maxw ts /\ 0 < maxw ts end.
Proof.
  intros ts. unfold maxw, pick. destruct (argmax ts ts 0 None) as [w o] eqn:Ea; simpl.
  destruct (argmax_spec _ _ _ _ _ _ Ea) as [A1 [A2 A3]].
  destruct A3 as [[-> ->]|[h [-> [-> L]]]].
  - split; [|reflexivity]. split; [lia|]. split; auto.
  - assert (Hh : In h (heads ts)) by (apply heads_In; apply hw_pos_head; auto).
    split; [|auto]. split; [lia|]. split; auto. right. exists h; auto.
Qed.

Lemma is_maxw_unique : forall ts w1 w2, is_maxw ts w1 -> is_maxw ts w2 -> w1 = w2.
Proof.
  assert (Le : forall ts w1 w2, is_maxw ts w1 -> is_maxw ts w2 -> w1 <= w2).
  { intros ts w1 w2 [P1 [U1 [->|[h [Hh ->]]]]] [P2 [U2 _]]; [lia|].
    apply heads_In in Hh. destruct Hh as [e [r [Hi Hf]]]. eapply U2; eauto. }
  intros ts w1 w2 H1 H2. pose proof (Le _ _ _ H1 H2). pose proof (Le _ _ _ H2 H1). lia.
Qed.

Lemma pick_in_cands : forall ts, In (pick ts) (cands ts).
Proof.
  intros ts. destruct (maxw_is ts) as [_ P]. unfold cands. destruct (pick ts) as [h|].
  - destruct P as [Hh [Hw L]]. apply Z.ltb_lt in L. rewrite L. apply in_map. apply filter_In. split; auto. apply Z.eqb_eq; auto.
  - rewrite P. simpl. auto.
Qed.

Lemma in_cands : forall ts tm, In tm (cands ts) <->
  match tm with None => maxw ts <= 0 | Some h => 0 < maxw ts /\ In h (heads ts) /\ head_weight h ts = maxw ts end.
Proof.
  intros ts tm. unfold cands. destruct (0 <? maxw ts) eqn:L.
  - apply Z.ltb_lt in L. rewrite in_map_iff. destruct tm as [h|].
    + split.
      * intros [h' [E Hi]]. inversion E; subst. apply filter_In in Hi. destruct Hi as [Hi Hw]. apply Z.eqb_eq in Hw. auto.
      * intros [_ [Hi Hw]]. exists h. split; auto. apply filter_In. split; auto. apply Z.eqb_eq; auto.
    + split; [intros [h' [E _]]; discriminate|lia].
  - apply Z.ltb_ge in L. simpl. destruct tm as [h|]; split.
    + intros [E|[]]; discriminate.
    + lia.
    + intros _; exact L.
    + intros _; left; reflexivity.
Qed.

(** folding the outcomes of the candidates *)
Lemma fold_ocat : forall (A B : Type) (F : A -> option (list B)) cs,
  match fold_right (fun tm acc => ocat (F tm) acc) (Some []) cs with
  | Some l => (forall tm, In tm cs -> exists l', F tm = Some l') /\
              (forall x, In x l <-> exists tm l', In tm cs /\ F tm = Some l' /\ In x l')
  | None => exists tm, In tm cs /\ F tm = None
  end.
Proof.
  intros A B F cs; induction cs as [|c cs IH]; simpl.
  - split; [intros tm []|]. intros x; split; [intros []|intros [tm [l' [[] _]]]].
  - destruct (fold_right _ _ cs) as [l|].
    + destruct IH as [I1 I2]. destruct (F c) as [lc|] eqn:Fc; simpl.
      * split.
        -- intros tm [<-|Hi]; eauto.
        -- intros x. rewrite in_app_iff, I2. split.
           ++ intros [Hx|[tm [l' [Hi [Ft Hx]]]]]; [exists c, lc; auto|exists tm, l'; auto].
           ++ intros [tm [l' [[<-|Hi] [Ft Hx]]]]; [left; congruence|right; eauto].
      * exists c; auto.
    + destruct IH as [tm [Hi Ft]]. destruct (F c); simpl; exists tm; auto.
Qed.

Section Descent.
Variable R : Type.
Variable sc : score R.

(** (1) the run that takes the first maximum in list order is one of the possible runs *)
Lemma wld_in_all : forall fuel ts r tmax l, wld_all sc fuel ts r tmax = Some l ->
  exists x, wld sc fuel ts r tmax = Some x /\ In x l.
Proof.
  induction fuel as [|f IH]; intros ts r tmax l H; simpl in *; [discriminate|].
  destruct (s_ge sc (next_r sc ts r)).
  - pose proof (fold_ocat _ _ (fun tm => wld_all sc f (next_ts ts tm) (next_r sc ts r) tm) (cands ts)) as FO.
    simpl in FO. rewrite H in FO. destruct FO as [F1 F2].
    destruct (F1 _ (pick_in_cands ts)) as [l' Hl']. destruct (IH _ _ _ _ Hl') as [x [Hx Hin]].
    exists x. split; auto. apply F2. exists (pick ts), l'. split; [apply pick_in_cands|auto].
  - inversion H; subst. exists (tmax, r); simpl; auto.
Qed.

(** (2) when no level whose share passes the threshold has two maximal children, there is ONE possible outcome *)
Lemma notie_single : forall fuel ts r tmax, notie sc fuel ts r = true ->
  wld_all sc fuel ts r tmax = option_map (fun x => [x]) (wld sc fuel ts r tmax).
Proof.
  induction fuel as [|f IH]; intros ts r tmax H; simpl in *; [reflexivity|].
  destruct (s_ge sc (next_r sc ts r)); [|reflexivity].
  pose proof (pick_in_cands ts) as P.
  destruct (cands ts) as [|tm [|tm' cs]]; try discriminate.
  destruct P as [<-|[]]. simpl. rewrite (IH _ _ _ H).
  destruct (wld sc f (next_ts ts tm) (next_r sc ts r) tm); reflexivity.
Qed.

(** (3) a threshold that every score passes (threshold <= 0): the loop never exits *)
Lemma wld_diverges : (forall r, s_ge sc r = true) -> forall fuel ts r tmax, wld sc fuel ts r tmax = None.
Proof.
  intros G; induction fuel as [|f IH]; intros ts r tmax; simpl; [reflexivity|]. rewrite G. apply IH.
Qed.
End Descent.

(** *** Independence of the iteration order *)
Lemma total_perm : forall ts ts', Permutation ts ts' -> total ts = total ts'.
Proof. intros ts ts' P; induction P; simpl; try lia. Qed.

Lemma hw_perm : forall h ts ts', Permutation ts ts' -> head_weight h ts = head_weight h ts'.
Proof.
  intros h ts ts' P; induction P; try lia; rewrite ?hw_cons.
  - rewrite IHP. reflexivity.
  - destruct (fst x) as [|a ?]; destruct (fst y) as [|b ?]; try reflexivity; destruct (a =? h)%N; destruct (b =? h)%N; lia.
Qed.

Lemma heads_perm : forall ts ts' h, Permutation ts ts' -> (In h (heads ts) <-> In h (heads ts')).
Proof.
  intros ts ts' h P. rewrite !heads_In. split; intros [e [r [Hi Hf]]]; exists e, r; split; auto.
  - eapply Permutation_in; eauto.
  - eapply Permutation_in; [apply Permutation_sym|]; eauto.
Qed.

Lemma maxw_perm : forall ts ts', Permutation ts ts' -> maxw ts = maxw ts'.
Proof.
  intros ts ts' P. apply (is_maxw_unique ts'); [|apply maxw_is].
  destruct (maxw_is ts) as [[M1 [M2 M3]] _]. split; [auto|]. split.
  - intros e h r Hi Hf. rewrite <- (hw_perm h _ _ P). eapply M2; eauto. eapply Permutation_in; [apply Permutation_sym|]; eauto.
  - destruct M3 as [M3|[h [Hh Hw]]]; [left; auto|right]. exists h. split; [apply (heads_perm _ _ h P); auto|]. rewrite <- (hw_perm h _ _ P). auto.
Qed.

Lemma cands_perm : forall ts ts' tm, Permutation ts ts' -> (In tm (cands ts) <-> In tm (cands ts')).
Proof.
  intros ts ts' tm P. rewrite !in_cands. rewrite (maxw_perm _ _ P). destruct tm as [h|]; [|tauto].
  rewrite (heads_perm _ _ h P), (hw_perm h _ _ P). tauto.
Qed.

Lemma filter_perm : forall (A : Type) (f : A -> bool) l l', Permutation l l' -> Permutation (filter f l) (filter f l').
Proof.
  intros A f l l' P; induction P; simpl; auto.
  - destruct (f x); auto.
  - destruct (f x), (f y); auto. apply perm_swap.
  - eapply perm_trans; eauto.
Qed.

Lemma next_ts_perm : forall ts ts' tm, Permutation ts ts' -> Permutation (next_ts ts tm) (next_ts ts' tm).
Proof. intros ts ts' tm P. unfold next_ts. apply Permutation_map. apply filter_perm. exact P. Qed.

Lemma next_r_perm : forall R (sc : score R) ts ts' r, Permutation ts ts' -> next_r sc ts r = next_r sc ts' r.
Proof. intros R sc ts ts' r P. unfold next_r. rewrite (total_perm _ _ P), (maxw_perm _ _ P). reflexivity. Qed.

(** the SET of possible outcomes does not depend on the order of the entries *)
Lemma wld_all_perm : forall R (sc : score R) fuel ts ts' r tmax, Permutation ts ts' ->
  match wld_all sc fuel ts r tmax, wld_all sc fuel ts' r tmax with
  | Some l, Some l' => forall x, In x l <-> In x l'
  | None, None => True
  | _, _ => False
  end.
Proof.
  intros R sc; induction fuel as [|f IH]; intros ts ts' r tmax P; simpl; [exact I|].
  rewrite <- (next_r_perm R sc _ _ r P). destruct (s_ge sc (next_r sc ts r)); [|tauto].
  pose proof (fold_ocat _ _ (fun tm => wld_all sc f (next_ts ts tm) (next_r sc ts r) tm) (cands ts)) as F1.
  pose proof (fold_ocat _ _ (fun tm => wld_all sc f (next_ts ts' tm) (next_r sc ts r) tm) (cands ts')) as F2.
  simpl in F1, F2.
  assert (Step : forall tm, match wld_all sc f (next_ts ts tm) (next_r sc ts r) tm, wld_all sc f (next_ts ts' tm) (next_r sc ts r) tm with
                            | Some l, Some l' => forall x, In x l <-> In x l' | None, None => True | _, _ => False end).
  { intros tm. apply IH. apply next_ts_perm; auto. }
  destruct (fold_right _ _ (cands ts)) as [l|]; destruct (fold_right _ _ (cands ts')) as [l'|].
  - destruct F1 as [A1 B1]. destruct F2 as [A2 B2]. intros x. rewrite B1, B2. split.
    + intros [tm [l0 [Hi [E Hx]]]]. apply (cands_perm _ _ tm P) in Hi. destruct (A2 _ Hi) as [l1 E1].
      specialize (Step tm). rewrite E, E1 in Step. exists tm, l1. split; auto. split; auto. apply Step; auto.
    + intros [tm [l0 [Hi [E Hx]]]]. apply (cands_perm _ _ tm P) in Hi. destruct (A1 _ Hi) as [l1 E1].
      specialize (Step tm). rewrite E, E1 in Step. exists tm, l1. split; auto. split; auto. apply Step; auto.
  - destruct F1 as [A1 _]. destruct F2 as [tm [Hi E]]. apply (cands_perm _ _ tm P) in Hi. destruct (A1 _ Hi) as [l1 E1].
    specialize (Step tm). rewrite E, E1 in Step. exact Step.
  - destruct F2 as [A2 _]. destruct F1 as [tm [Hi E]]. apply (cands_perm _ _ tm P) in Hi. destruct (A2 _ Hi) as [l1 E1].
    specialize (Step tm). rewrite E, E1 in Step. exact Step.
  - exact I.
Qed.

Lemma notie_perm : forall R (sc : score R) fuel ts ts' r, Permutation ts ts' -> notie sc fuel ts r = true -> notie sc fuel ts' r = true.
Proof.
  intros R sc; induction fuel as [|f IH]; intros ts ts' r P H; simpl in *; [reflexivity|].
  rewrite <- (next_r_perm R sc _ _ r P). destruct (s_ge sc (next_r sc ts r)); [|reflexivity].
  destruct (cands ts) as [|tm [|tm2 cs]] eqn:C; try discriminate.
  assert (Hin : In tm (cands ts')) by (apply (cands_perm _ _ tm P); rewrite C; left; auto).
  assert (Hall : forall x, In x (cands ts') -> x = tm).
  { intros x Hx. apply (cands_perm _ _ x P) in Hx. rewrite C in Hx. destruct Hx as [<-|[]]; auto. }
  assert (ND : NoDup (cands ts')).
  { unfold cands. destruct (0 <? maxw ts'); [|repeat constructor; intros []].
    apply FinFun.Injective_map_NoDup; [intros a b E; congruence|]. apply NoDup_filter. apply heads_NoDup. }
  destruct (cands ts') as [|a [|b cs']]; [destruct Hin| |].
  - rewrite (Hall a (or_introl eq_refl)). eapply IH; [apply next_ts_perm|]; eauto.
  - exfalso. inversion ND as [|? ? Hn _]; subst. apply Hn. rewrite (Hall a), (Hall b); simpl; auto.
Qed.

(** with no passing tie, the run in list order gives the same outcome whatever the order *)
Lemma wld_perm_notie : forall R (sc : score R) fuel ts ts' r tmax, Permutation ts ts' -> notie sc fuel ts r = true ->
  wld sc fuel ts r tmax = wld sc fuel ts' r tmax.
Proof.
  intros R sc fuel ts ts' r tmax P H.
  pose proof (wld_all_perm R sc fuel ts ts' r tmax P) as W.
  rewrite (notie_single R sc _ _ _ tmax H), (notie_single R sc _ _ _ tmax (notie_perm R sc _ _ _ _ P H)) in W.
  destruct (wld sc fuel ts r tmax) as [x|], (wld sc fuel ts' r tmax) as [y|]; simpl in W; try tauto.
  f_equal. destruct (proj1 (W x) (or_introl eq_refl)) as [E|[]]. auto.
Qed.

(** *** Threshold 1.0 is the instance [sc_one]; there a tie never passes *)
Lemma wl_is_wld_one : forall fuel ts tmax, wl fuel ts tmax = option_map fst (wld sc_one fuel ts true tmax).
Proof.
  induction fuel as [|f IH]; intros ts tmax; simpl; [reflexivity|].
  unfold next_r, maxw, pick. simpl. destruct (argmax ts ts 0 None) as [wmax tm]. simpl.
  destruct (0 <? total ts); simpl; [|reflexivity].
  destruct (wmax =? total ts); simpl; [apply IH|reflexivity].
Qed.

Lemma hw_two : forall h h' ts, h <> h' -> nonneg ts -> head_weight h ts + head_weight h' ts <= total ts.
Proof.
  intros h h' ts Hne; induction ts as [|e ts IH]; intros Hn; [simpl; lia|].
  apply nonneg_cons in Hn. destruct Hn as [He Hn]. specialize (IH Hn). rewrite !hw_cons, total_cons.
  destruct (fst e) as [|a r]; [lia|]. destruct (a =? h)%N eqn:E1; destruct (a =? h')%N eqn:E2; try lia.
  apply N.eqb_eq in E1, E2. congruence.
Qed.

Lemma nonneg_next : forall ts tm, nonneg ts -> nonneg (next_ts ts tm).
Proof.
  intros ts tm Hn e He. unfold next_ts in He. apply in_map_iff in He. destruct He as [e' [<- He']].
  apply filter_In in He'. simpl. apply Hn; tauto.
Qed.

(** two maximal children: each of them carries at most half of the total *)
Lemma tie_half : forall ts, nonneg ts -> (forall a, cands ts <> [a]) -> 2 * maxw ts <= total ts.
Proof.
  intros ts Hn Hc. pose proof (pick_in_cands ts) as P.
  destruct (cands ts) as [|a [|b cs]] eqn:C; [destruct P|exfalso; eapply Hc; eauto|].
  assert (ND : NoDup (cands ts)).
  { unfold cands. destruct (0 <? maxw ts); [|repeat constructor; intros []].
    apply FinFun.Injective_map_NoDup; [intros x y E; congruence|]. apply NoDup_filter. apply heads_NoDup. }
  rewrite C in ND. assert (Hab : a <> b). { inversion ND as [|? ? Hn' _]; subst. intros ->. apply Hn'; left; auto. }
  assert (Ia : In a (cands ts)) by (rewrite C; left; auto). assert (Ib : In b (cands ts)) by (rewrite C; right; left; auto).
  apply in_cands in Ia. apply in_cands in Ib.
  destruct a as [a|]; destruct b as [b|].
  - destruct Ia as [_ [_ Wa]]. destruct Ib as [_ [_ Wb]]. assert (a <> b) by congruence.
    pose proof (hw_two a b ts H Hn). lia.
  - destruct Ia; lia.
  - destruct Ib; lia.
  - congruence.
Qed.

Lemma notie_one : forall fuel ts, nonneg ts -> notie sc_one fuel ts true = true.
Proof.
  induction fuel as [|f IH]; intros ts Hn; simpl; [reflexivity|].
  unfold next_r. simpl. destruct (0 <? total ts) eqn:T; simpl; [|reflexivity].
  destruct (maxw ts =? total ts) eqn:E; simpl; [|reflexivity].
  apply Z.ltb_lt in T. apply Z.eqb_eq in E.
  destruct (cands ts) as [|a [|b cs]] eqn:C.
  - pose proof (pick_in_cands ts) as P. rewrite C in P. destruct P.
  - unfold next_r in IH. specialize (IH (next_ts ts a) (nonneg_next _ a Hn)). exact IH.
  - exfalso. assert (2 * maxw ts <= total ts). { apply tie_half; auto. intros x Hx. rewrite C in Hx. discriminate. } lia.
Qed.

(** *** Exact rational arithmetic, threshold tn/td > 1/2: a tie never passes, hence ONE outcome for every input *)
Definition q_le1 (r : Z * Z) : Prop := 0 <= fst r <= snd r /\ 0 < snd r.

Lemma notie_q_above_half : forall tn td, 0 < td -> td < 2 * tn ->
  forall fuel ts r, nonneg ts -> q_le1 r -> notie (sc_q tn td) fuel ts r = true.
Proof.
  intros tn td Htd Hthr; induction fuel as [|f IH]; intros ts r Hn [[R0 R1] R2]; [reflexivity|]. cbn [notie].
  destruct (maxw_is ts) as [[M0 [M1 M2]] _].
  assert (Mle : maxw ts <= total ts).
  { destruct M2 as [->|[h [_ ->]]]; [|apply hw_bounds; auto]. pose proof (hw_bounds 0%N ts Hn). lia. }
  set (r' := next_r (sc_q tn td) ts r).
  assert (L1 : q_le1 r').
  { unfold r', next_r. destruct (0 <? total ts) eqn:T; simpl; [|unfold q_le1; simpl; lia].
    apply Z.ltb_lt in T. unfold q_le1; simpl. split; [split|].
    - apply Z.mul_nonneg_nonneg; lia.
    - apply Z.mul_le_mono_nonneg; lia.
    - apply Z.mul_pos_pos; lia. }
  destruct (s_ge (sc_q tn td) r') eqn:G; [|reflexivity].
  destruct (cands ts) as [|a [|b cs]] eqn:C.
  - pose proof (pick_in_cands ts) as P. rewrite C in P. destruct P.
  - apply IH; [apply nonneg_next|]; auto.
  - exfalso. assert (H2 : 2 * maxw ts <= total ts). { apply tie_half; auto. intros x Hx. rewrite C in Hx. discriminate. }
    unfold r', next_r in G. destruct (0 <? total ts) eqn:T; simpl in G.
    + apply Z.ltb_lt in T. apply Z.leb_le in G.
      set (A := fst r) in *. set (B := snd r) in *. set (W := maxw ts) in *. set (T0 := total ts) in *.
      assert (E1 : A * W <= B * W) by (apply Z.mul_le_mono_nonneg_r; lia).
      assert (E2 : 2 * (B * W) <= B * T0) by (rewrite Z.mul_assoc, (Z.mul_comm 2 B), <- Z.mul_assoc; apply Z.mul_le_mono_nonneg_l; lia).
      assert (E3 : 0 < B * T0) by (apply Z.mul_pos_pos; lia).
      assert (E4 : 2 * (A * W * td) <= B * T0 * td).
      { rewrite Z.mul_assoc. apply Z.mul_le_mono_nonneg_r; [lia|]. lia. }
      assert (E5 : B * T0 * td < B * T0 * (2 * tn)) by (apply Z.mul_lt_mono_pos_l; lia).
      assert (E6 : tn * (B * T0) = B * T0 * tn) by ring.
      generalize dependent (A * W * td). generalize dependent (B * T0 * td). generalize dependent (B * T0). intros. lia.
    + apply Z.leb_le in G. simpl in G. lia.
Qed.
Close Scope Z_scope.

(** ** ... and on a well-formed taxonomy that element is the deepest taxon above every taxon of positive weight *)
Definition rp (t : tax) (x : N) : list N := match path t x with Some p => rev p | None => [] end.
Definition wentry (t : tax) (e : N * Z) : wt := (rp t (fst e), snd e).

Lemma rpaths_map : forall t d, wf_tax t -> (forall e, In e d -> present t (fst e)) ->
  rpaths t d = Some (map (wentry t) d).
Proof.
  intros t d W; induction d as [|[x w] d IH]; intros P; simpl; auto.
  destruct (path_total t x W (P (x, w) (or_introl eq_refl))) as [p Hp].
  rewrite Hp, IH by (intros e He; apply P; right; auto).
  f_equal. f_equal. unfold wentry, rp; simpl. rewrite Hp. reflexivity.
Qed.

Lemma pos_map_wentry : forall t d, pos (map (wentry t) d) = map (wentry t) (filter (fun e : N * Z => (0 <? snd e)%Z) d).
Proof.
  intros t d; induction d as [|e d IH]; simpl; auto. unfold pos in *; simpl.
  destruct (0 <? snd e)%Z; simpl; rewrite IH; reflexivity.
Qed.

Lemma fold_cpre_lca : forall t, wf_tax t -> forall rest a pa, is_path t a pa -> (forall x, In x rest -> present t x) ->
  exists z pz, is_path t z pz /\ fold_left cpre (map (rp t) rest) (rev pa) = rev pz /\
               forall u, In u pz <-> In u pa /\ forall x, In x rest -> anc t x u.
Proof.
  intros t W rest; induction rest as [|x rest IH]; intros a pa Ha P; simpl.
  - exists a, pa. split; auto. split; auto. intros u; split; [intros H; split; auto; intros y []|tauto].
  - destruct (P x (or_introl eq_refl)) as [v Hv]. destruct (wf_reach _ W _ _ Hv) as [px Hx].
    destruct (lca_paths_spec _ _ _ _ _ Ha Hx (wf_same_root _ _ _ _ _ W Ha Hx)) as [z [pz [_ [Hz [Er Hin]]]]].
    replace (rp t x) with (rev px) by (unfold rp; rewrite (path_complete _ _ _ Hx); reflexivity). rewrite <- Er.
    destruct (IH z pz Hz (fun y Hy => P y (or_intror Hy))) as [z' [pz' [Hz' [Ef Hin']]]].
    exists z', pz'. split; auto. split; auto. intros u; split.
    + intros Hu. apply Hin' in Hu. destruct Hu as [Hu1 Hu2]. apply Hin in Hu1. destruct Hu1 as [Hu1 Hu3].
      split; auto. intros y [<-|Hy]; [exists px; auto|auto].
    + intros [Hu Hall]. apply Hin'. split.
      * apply Hin. split; auto. destruct (Hall x (or_introl eq_refl)) as [q [Hq Huq]].
        rewrite (is_path_fun _ _ _ Hq _ Hx) in Huq; auto.
      * intros y Hy; apply Hall; right; auto.
Qed.

Lemma wlca_nodes_char : forall t d, wf_tax t ->
  (forall e, In e d -> present t (fst e) /\ (0 <= snd e)%Z) ->
  (exists e, In e d /\ (0 < snd e)%Z) ->
  forall init, exists z,
    rpaths t d = Some (map (wentry t) d) /\
    wl (S (fuel_of t)) (map (wentry t) d) init = Some (Some z) /\ present t z /\
    forall u, anc t z u <-> forall e, In e d -> (0 < snd e)%Z -> anc t (fst e) u.
Proof.
  intros t d W Hd [e0 [He0 Pe0]] init.
  assert (R : rpaths t d = Some (map (wentry t) d)) by (apply rpaths_map; auto; intros e He; apply Hd; auto).
  assert (Hn : nonneg (map (wentry t) d)).
  { intros e He. apply in_map_iff in He. destruct He as [e' [<- He']]. simpl. apply Hd; auto. }
  assert (Hl : forall e, In e (pos (map (wentry t) d)) -> (length (fst e) < S (fuel_of t))%nat).
  { intros e He. apply in_pos in He. destruct He as [He _]. apply in_map_iff in He. destruct He as [e' [<- He']].
    unfold wentry, rp; simpl. destruct (path t (fst e')) as [p|] eqn:Hp; simpl; [|lia].
    rewrite rev_length. apply path_sound in Hp. pose proof (is_path_length _ _ _ Hp). unfold fuel_of. lia. }
  rewrite (wl_spec _ _ init Hn (Nat.lt_0_succ _) Hl).
  unfold wl_result. rewrite pos_map_wentry.
  remember (filter (fun e : N * Z => (0 <? snd e)%Z) d) as dp eqn:Edp.
  assert (Hdp : forall e, In e dp <-> In e d /\ (0 < snd e)%Z).
  { intros e. rewrite Edp, filter_In, Z.ltb_lt. tauto. }
  destruct dp as [|[a wa] dp']; [exfalso; apply (proj2 (Hdp e0)); auto|].
  assert (Pa : present t a) by (apply (Hd (a, wa)); apply Hdp; left; auto).
  destruct Pa as [va Hva]. destruct (wf_reach _ W _ _ Hva) as [pa Ha].
  destruct (fold_cpre_lca t W (map fst dp') a pa Ha) as [z [pz [Hz [Ef Hin]]]].
  { intros x Hx. apply in_map_iff in Hx. destruct Hx as [e [<- He]]. apply (Hd e). apply Hdp. right; auto. }
  assert (EL : lcpl (map fst (map (wentry t) ((a, wa) :: dp'))) = rev pz).
  { simpl. replace (rp t a) with (rev pa) by (unfold rp; rewrite (path_complete _ _ _ Ha); reflexivity).
    rewrite <- Ef. f_equal. rewrite !map_map. reflexivity. }
  exists z. split; auto. split; [|split].
  - rewrite EL. simpl map at 1. cbv iota. destruct (is_path_head _ _ _ Hz) as [l ->]. rewrite lasto_rev_hd. reflexivity.
  - inversion Hz; subst; eexists; eauto.
  - intros u; split.
    + intros [q [Hq Hu]] e He Pe. rewrite (is_path_fun _ _ _ Hq _ Hz) in Hu. apply Hin in Hu. destruct Hu as [Hu1 Hu2].
      assert (In e ((a, wa) :: dp')) as [<-|Hi] by (apply Hdp; auto).
      * exists pa; auto.
      * apply Hu2. apply in_map; auto.
    + intros Hall. exists pz; split; auto. apply Hin. split.
      * destruct (Hall (a, wa)) as [q [Hq Hu]]; [apply Hdp; left; auto|apply (Hdp (a, wa)); left; auto|].
        simpl in Hq. rewrite (is_path_fun _ _ _ Hq _ Ha) in Hu; auto.
      * intros x Hx. apply in_map_iff in Hx. destruct Hx as [e [<- He]].
        apply Hall; apply (Hdp e); right; auto.
Qed.

(** TaxonomicDistribution (keys resolved through the alias table, weights of the same node added) *)
Lemma addw_in : forall x w l y v, In (y, v) (addw x w l) ->
  (y = x /\ (v = w \/ exists v0, In (x, v0) l /\ v = (v0 + w)%Z)) \/ In (y, v) l.
Proof.
  intros x w l; induction l as [|[a b] l IH]; intros y v H; simpl in H.
  - destruct H as [H|[]]. inversion H; subst. left; split; auto.
  - destruct (a =? x) eqn:E.
    + apply N.eqb_eq in E; subst a. destruct H as [H|H]; [|right; right; auto].
      inversion H; subst. left; split; auto. right. exists b; split; [left; auto|reflexivity].
    + destruct H as [H|H]; [right; left; auto|].
      destruct (IH _ _ H) as [[-> [->|[v0 [Hv0 ->]]]]|Hin]; [left; split; auto|left; split; auto; right; exists v0; split; [right; auto|reflexivity]|right; right; auto].
Qed.

Lemma addw_keeps : forall x w l y v, In (y, v) l -> exists v', In (y, v') (addw x w l).
Proof.
  intros x w l; induction l as [|[a b] l IH]; intros y v H; simpl in *; [tauto|].
  destruct (a =? x) eqn:E.
  - apply N.eqb_eq in E; subst. destruct H as [H|H]; [inversion H; subst; eexists; left; eauto|exists v; right; auto].
  - destruct H as [H|H]; [exists v; left; auto|]. destruct (IH _ _ H) as [v' Hv']. exists v'; right; auto.
Qed.

Lemma addw_has : forall x w l, exists v', In (x, v') (addw x w l).
Proof.
  intros x w l; induction l as [|[a b] l IH]; simpl; [exists w; left; auto|].
  destruct (a =? x) eqn:E; [eexists; left; eauto|]. destruct IH as [v' Hv']. exists v'; right; auto.
Qed.

Lemma distribution_spec : forall t m acc d, distribution t m acc = Some d ->
  (forall x w, In (x, w) d -> (exists w0, In (x, w0) acc) \/ exists k w0, In (k, w0) m /\ resolve t k = Some x) /\
  (forall k w, In (k, w) m -> exists x w', resolve t k = Some x /\ In (x, w') d) /\
  (forall x w, In (x, w) acc -> exists w', In (x, w') d) /\
  ((forall e, In e acc -> (0 < snd e)%Z) -> (forall k w, In (k, w) m -> (0 < w)%Z) -> forall e, In e d -> (0 < snd e)%Z).
Proof.
  intros t m; induction m as [|[k w] m IH]; intros acc d H; simpl in H.
  - inversion H; subst. repeat split; eauto. intros k w [].
  - destruct (resolve t k) as [x|] eqn:R; [|discriminate].
    destruct (IH _ _ H) as [A [B [C P]]]. split; [|split; [|split]].
    + intros y v Hy. destruct (A _ _ Hy) as [[w0 Hu]|[k' [w0 [Hk' Rk']]]].
      * destruct (addw_in _ _ _ _ _ Hu) as [[-> _]|Hacc]; [right; exists k, w; split; [left|]; auto|left; eauto].
      * right; exists k', w0; split; auto. right; auto.
    + intros k' w' [E|Hk'].
      * inversion E; subst. destruct (addw_has x w' acc) as [v' Hv']. destruct (C _ _ Hv') as [w'' Hw'']. eauto.
      * apply B in Hk'. exact Hk'.
    + intros y v Hy. destruct (addw_keeps x w _ _ _ Hy) as [v' Hv']. eauto.
    + intros Pa Pm. apply P.
      * intros [y v] Hy. simpl. destruct (addw_in _ _ _ _ _ Hy) as [[-> [->|[v0 [Hv0 ->]]]]|Hin].
        -- apply (Pm k w); left; auto.
        -- pose proof (Pa _ Hv0) as P0. pose proof (Pm k w (or_introl eq_refl)) as P1. simpl in P0. lia.
        -- apply (Pa _ Hin).
      * intros k' w' Hk'. apply (Pm k' w'); right; auto.
Qed.

Lemma distribution_total : forall t m acc, (forall k w, In (k, w) m -> resolve t k <> None) ->
  exists d, distribution t m acc = Some d.
Proof.
  intros t m; induction m as [|[k w] m IH]; intros acc H; simpl; eauto.
  destruct (resolve t k) as [x|] eqn:R; [|exfalso; apply (H k w); [left; auto|auto]].
  apply IH. intros k' w' Hk'; apply (H k' w'); right; auto.
Qed.

Lemma wlca_char : forall t m, wf_tax t -> alias_ok t -> m <> [] ->
  (forall k w, In (k, w) m -> (0 < w)%Z /\ resolve t k <> None) ->
  exists z, wlca t m = Some (Some z) /\ present t z /\
    forall u, anc t z u <-> forall k w, In (k, w) m -> exists x, resolve t k = Some x /\ anc t x u.
Proof.
  intros t m W A Hne Hm.
  destruct (distribution_total t m [] (fun k w H => proj2 (Hm k w H))) as [d Hd].
  destruct (distribution_spec _ _ _ _ Hd) as [D1 [D2 [_ DP]]].
  assert (Hpos : forall e, In e d -> (0 < snd e)%Z).
  { apply DP; [intros e []|]. intros k w Hk. apply (Hm k w Hk). }
  assert (Hdd : forall e, In e d -> present t (fst e) /\ (0 <= snd e)%Z).
  { intros [x w] He. split; [|pose proof (Hpos _ He); simpl in *; lia].
    destruct (D1 _ _ He) as [[w0 []]|[k [w0 [Hk Rk]]]]. simpl. eapply resolve_present; eauto. }
  assert (Hex : exists e, In e d /\ (0 < snd e)%Z).
  { destruct m as [|[k w] m']; [congruence|]. destruct (D2 k w (or_introl eq_refl)) as [x [w' [_ Hx]]].
    exists (x, w'); split; auto. }
  unfold wlca. rewrite Hd.
  destruct (wlca_nodes_char t d W Hdd Hex
              (match map (wentry t) d with (h :: _, _) :: _ => Some h | _ => None end)) as [z [R [Hw [Pz C]]]].
  rewrite R. exists z. split; auto. split; auto.
  intros u. rewrite C. split.
  - intros Hall k w Hk. destruct (D2 _ _ Hk) as [x [w' [Rk Hx]]]. exists x; split; auto.
    apply (Hall (x, w')); auto.
  - intros Hall [x w] He _. destruct (D1 _ _ He) as [[w0 []]|[k [w0 [Hk Rk]]]].
    destruct (Hall _ _ Hk) as [x' [Rk' Ax]]. simpl. congruence.
Qed.

Lemma wlca_perm : forall t m m', wf_tax t -> alias_ok t -> m <> [] ->
  (forall k w, In (k, w) m -> (0 < w)%Z /\ resolve t k <> None) ->
  Permutation m m' -> wlca t m = wlca t m'.
Proof.
  intros t m m' W A Hne Hm Pm.
  assert (Hne' : m' <> []). { intros ->. apply Permutation_sym, Permutation_nil in Pm. auto. }
  assert (Hm' : forall k w, In (k, w) m' -> (0 < w)%Z /\ resolve t k <> None).
  { intros k w H. apply Hm. eapply Permutation_in; [apply Permutation_sym|]; eauto. }
  destruct (wlca_char t m W A Hne Hm) as [z [E [Pz C]]].
  destruct (wlca_char t m' W A Hne' Hm') as [z' [E' [Pz' C']]].
  rewrite E, E'. do 2 f_equal. apply (anc_antisym t).
  - apply C. intros k w Hk. apply (proj1 (C' z') (present_anc_refl _ _ W Pz') k w). eapply Permutation_in; eauto.
  - apply C'. intros k w Hk. apply (proj1 (C z) (present_anc_refl _ _ W Pz) k w). eapply Permutation_in; [apply Permutation_sym|]; eauto.
Qed.


(** ** TaxonomicDistribution as a function of the SET of merged taxids: node x weighs the sum of the counts of the
    keys that designate x; Taxonomy.LCA on it gives the same set of outcomes whatever the order of the map *)
Open Scope Z_scope.
Fixpoint wsum (t : tax) (m : list (N * Z)) (x : N) : Z :=
  match m with
  | [] => 0
  | (k, w) :: m' => match resolve t k with
                    | Some y => if (y =? x)%N then w + wsum t m' x else wsum t m' x
                    | None => wsum t m' x
                    end
  end.
Fixpoint accw (acc : list (N * Z)) (x : N) : Z :=
  match acc with [] => 0 | (y, v) :: l => if (y =? x)%N then v else accw l x end.

Lemma accw_cons : forall y v l x, accw ((y, v) :: l) x = if (y =? x)%N then v else accw l x.
Proof. reflexivity. Qed.
Lemma addw_cons : forall x w a b l, addw x w ((a, b) :: l) = if (a =? x)%N then (x, b + w) :: l else (a, b) :: addw x w l.
Proof. reflexivity. Qed.
Lemma addw_spec : forall x w l, NoDup (map fst l) ->
  NoDup (map fst (addw x w l)) /\
  (forall y, In y (map fst (addw x w l)) <-> y = x \/ In y (map fst l)) /\
  (forall y, accw (addw x w l) y = if (x =? y)%N then accw l x + w else accw l y).
Proof.
  intros x w l; induction l as [|[a b] l IH]; intros ND.
  - simpl. split; [repeat constructor; intros []|]. split; [intros y; split; [intros [->|[]]; auto|intros [->|[]]; auto]|].
    intros y. destruct (x =? y)%N; lia.
  - inversion ND as [|? ? Hna ND']; subst. destruct (IH ND') as [I1 [I2 I3]]. rewrite addw_cons. destruct (a =? x)%N eqn:E.
    + apply N.eqb_eq in E; subst a. split; [simpl; constructor; auto|]. split; [intros y; simpl; split; [intros [->|H]; auto|intros [->|[->|H]]; auto]|].
      intros y. rewrite !accw_cons. rewrite N.eqb_refl. destruct (x =? y)%N; lia.
    + split; [simpl; constructor; auto; rewrite I2; intros [->|H]; [rewrite N.eqb_refl in E; discriminate|auto]|].
      split; [intros y; simpl; rewrite I2; tauto|].
      intros y. rewrite !accw_cons. rewrite I3. rewrite E. destruct (a =? y)%N eqn:E2.
      * apply N.eqb_eq in E2; subst y. rewrite (N.eqb_sym x a), E. reflexivity.
      * reflexivity.
Qed.

Lemma accw_in : forall l x w, NoDup (map fst l) -> (In (x, w) l <-> In x (map fst l) /\ accw l x = w).
Proof.
  induction l as [|[a b] l IH]; intros x w ND; simpl; [tauto|].
  inversion ND as [|? ? Hna ND']; subst. destruct (a =? x)%N eqn:E.
  - apply N.eqb_eq in E; subst a. split.
    + intros [H|H]; [inversion H; auto|]. exfalso. apply Hna. apply in_map_iff. exists (x, w); auto.
    + intros [_ ->]. auto.
  - apply N.eqb_neq in E. rewrite IH by auto. split.
    + intros [H|[H1 H2]]; [inversion H; congruence|auto].
    + intros [[H|H] H2]; [congruence|auto].
Qed.

Lemma distribution_char : forall t m acc d, distribution t m acc = Some d -> NoDup (map fst acc) ->
  NoDup (map fst d) /\
  (forall x, In x (map fst d) <-> In x (map fst acc) \/ exists k w0, In (k, w0) m /\ resolve t k = Some x) /\
  (forall x, accw d x = accw acc x + wsum t m x).
Proof.
  intros t m; induction m as [|[k w] m IH]; intros acc d H ND; simpl in H.
  - inversion H; subst. split; auto. split; [intros x; split; [auto|intros [?|[k [w0 [[] _]]]]; auto]|]. intros x; simpl; lia.
  - destruct (resolve t k) as [y|] eqn:Rk; [|discriminate].
    destruct (addw_spec y w acc ND) as [A1 [A2 A3]]. destruct (IH _ _ H A1) as [I1 [I2 I3]].
    split; auto. split.
    + intros x. rewrite I2, A2. split.
      * intros [[->|Hx]|[k' [w0 [Hk Rk']]]]; [right; exists k, w; split; [left|]; auto|left; auto|right; exists k', w0; split; [right|]; auto].
      * intros [Hx|[k' [w0 [[E|Hk] Rk']]]]; [left; right; auto|inversion E; subst; left; left; congruence|right; eauto].
    + intros x. rewrite I3, A3. simpl. rewrite Rk. destruct (y =? x)%N eqn:E; [apply N.eqb_eq in E; subst|]; lia.
Qed.

Lemma wsum_perm : forall t m m' x, Permutation m m' -> wsum t m x = wsum t m' x.
Proof.
  intros t m m' x P; induction P; simpl; try lia.
  - destruct x0 as [k w]. destruct (resolve t k) as [y|]; [destruct (y =? x)%N|]; lia.
  - destruct x0 as [k w], y as [k' w']. destruct (resolve t k) as [y|], (resolve t k') as [y'|]; try destruct (y =? x)%N; try destruct (y' =? x)%N; lia.
Qed.

Lemma distribution_none : forall t m acc, distribution t m acc = None <-> exists k w, In (k, w) m /\ resolve t k = None.
Proof.
  intros t m; induction m as [|[k w] m IH]; intros acc; simpl.
  - split; [discriminate|intros [k [w [[] _]]]].
  - destruct (resolve t k) as [y|] eqn:Rk.
    + rewrite IH. split; intros [k' [w' [Hk Rk']]]; exists k', w'; split; auto. destruct Hk as [E|Hk]; auto. inversion E; subst; congruence.
    + split; auto. intros _. exists k, w; split; [left|]; auto.
Qed.

Lemma NoDup_fst : forall (l : list (N * Z)), NoDup (map fst l) -> NoDup l.
Proof.
  induction l as [|a l IH]; intros H; [constructor|]. inversion H; subst. constructor; auto.
  intros Hi. apply H2. apply in_map; auto.
Qed.

Lemma distribution_perm : forall t m m', Permutation m m' ->
  match distribution t m [], distribution t m' [] with
  | Some d, Some d' => Permutation d d'
  | None, None => True
  | _, _ => False
  end.
Proof.
  intros t m m' P.
  destruct (distribution t m []) as [d|] eqn:D; destruct (distribution t m' []) as [d'|] eqn:D'.
  - destruct (distribution_char _ _ _ _ D (NoDup_nil _)) as [N1 [M1 W1]].
    destruct (distribution_char _ _ _ _ D' (NoDup_nil _)) as [N2 [M2 W2]].
    apply NoDup_Permutation; [apply NoDup_fst; auto|apply NoDup_fst; auto|].
    intros [x w]. rewrite (accw_in d x w N1), (accw_in d' x w N2), M1, M2, W1, W2, (wsum_perm t m m' x P).
    assert (K : (exists k w0, In (k, w0) m /\ resolve t k = Some x) <-> (exists k w0, In (k, w0) m' /\ resolve t k = Some x)).
    { split; intros [k [w0 [Hk Rk]]]; exists k, w0; split; auto; [eapply Permutation_in|eapply Permutation_in; [apply Permutation_sym|]]; eauto. }
    simpl. tauto.
  - apply distribution_none in D'. destruct D' as [k [w [Hk Rk]]].
    assert (Dn : distribution t m [] = None) by (apply distribution_none; exists k, w; split; auto; eapply Permutation_in; [apply Permutation_sym|]; eauto).
    congruence.
  - apply distribution_none in D. destruct D as [k [w [Hk Rk]]].
    assert (Dn : distribution t m' [] = None) by (apply distribution_none; exists k, w; split; auto; eapply Permutation_in; eauto).
    congruence.
  - exact I.
Qed.
Close Scope Z_scope.

Lemma rpaths_some : forall t d ts, rpaths t d = Some ts <-> (forall e, In e d -> path t (fst e) <> None) /\ ts = map (wentry t) d.
Proof.
  intros t d; induction d as [|[x w] d IH]; intros ts.
  - simpl. split; [intros H; inversion H; split; auto; intros e []|intros [_ ->]; reflexivity].
  - cbn [rpaths map]. unfold wentry at 1. unfold rp. cbn [fst snd].
    destruct (path t x) as [p|] eqn:Hp.
    + destruct (rpaths t d) as [r|] eqn:Hr.
      * destruct (proj1 (IH r) eq_refl) as [A ->]. split.
        -- intros H; inversion H; subst. split; [intros e [<-|He]; cbn [fst]; [congruence|auto]|]. reflexivity.
        -- intros [_ ->]. reflexivity.
      * split; [discriminate|]. intros [A _]. exfalso.
        assert (K : None = Some (map (wentry t) d)) by (apply IH; split; auto; intros e He; apply A; right; auto). discriminate.
    + split; [discriminate|]. intros [A _]. exfalso. apply (A (x, w)); [left; auto|exact Hp].
Qed.

Lemma rpaths_perm : forall t d d', Permutation d d' ->
  match rpaths t d, rpaths t d' with
  | Some ts, Some ts' => Permutation ts ts'
  | None, None => True
  | _, _ => False
  end.
Proof.
  intros t d d' P.
  destruct (rpaths t d) as [ts|] eqn:E; destruct (rpaths t d') as [ts'|] eqn:E'.
  - apply rpaths_some in E. apply rpaths_some in E'. destruct E as [_ ->]. destruct E' as [_ ->]. apply Permutation_map; auto.
  - apply rpaths_some in E. destruct E as [A _].
    assert (rpaths t d' = Some (map (wentry t) d')) by (apply rpaths_some; split; auto; intros e He; apply A; eapply Permutation_in; [apply Permutation_sym|]; eauto). congruence.
  - apply rpaths_some in E'. destruct E' as [A _].
    assert (rpaths t d = Some (map (wentry t) d)) by (apply rpaths_some; split; auto; intros e He; apply A; eapply Permutation_in; eauto). congruence.
  - exact I.
Qed.

(** in a well-formed taxonomy every root-first lineage starts at the root: the initial answer is the root whatever entry comes first *)
Definition init_of (ts : list wt) : option N := match ts with (h :: _, _) :: _ => Some h | _ => None end.

Lemma rp_head : forall t x p, is_path t x p -> exists z l r, lasto p = Some z /\ rev p = z :: l /\ get t z = Some (z, r).
Proof.
  intros t x p H. destruct (is_path_last_root _ _ _ H) as [z [r [L G]]]. destruct (lasto_some _ _ L) as [l0 E].
  exists z, (rev l0), r. split; auto. split; auto. rewrite E, rev_app_distr. reflexivity.
Qed.

Lemma init_perm : forall t d d', wf_tax t -> Permutation d d' -> (forall e, In e d -> path t (fst e) <> None) ->
  init_of (map (wentry t) d) = init_of (map (wentry t) d').
Proof.
  intros t d d' W P A.
  assert (K : forall d0, (forall e, In e d0 -> path t (fst e) <> None) -> forall root r0, get t root = Some (root, r0) ->
              init_of (map (wentry t) d0) = match d0 with [] => None | _ => Some root end).
  { intros d0 A0 root r0 G. destruct d0 as [|[x w] d0]; [reflexivity|]. simpl. unfold rp.
    destruct (path t x) as [p|] eqn:Hp; [|exfalso; apply (A0 (x, w)); [left; auto|exact Hp]].
    apply path_sound in Hp. destruct (rp_head _ _ _ Hp) as [z [l [r [_ [E Gz]]]]]. rewrite E.
    destruct (wf_root _ W) as [rt [_ U]]. rewrite (U _ _ Gz), (U _ _ G). reflexivity. }
  destruct (wf_root _ W) as [rt [[r0 G] _]].
  rewrite (K d A rt r0 G), (K d') with (root := rt) (r0 := r0); auto.
  - destruct d as [|a d]; [apply Permutation_nil in P; subst; reflexivity|].
    destruct d' as [|b d']; [apply Permutation_sym, Permutation_nil in P; discriminate|reflexivity].
  - intros e He. apply A. eapply Permutation_in; [apply Permutation_sym|]; eauto.
Qed.

(** Taxonomy.LCA(sequence, threshold) for ANY arithmetic: the set of possible (answer, rans, granTotal) is a function
    of the merged_taxid map as a set of (key, count) pairs *)
Lemma wlcad_perm : forall R (sc : score R) t m m', wf_tax t -> Permutation m m' ->
  match wlcad sc t m, wlcad sc t m' with
  | Some l, Some l' => forall x, In x l <-> In x l'
  | None, None => True
  | _, _ => False
  end.
Proof.
  intros R sc t m m' W P. unfold wlcad.
  pose proof (distribution_perm t m m' P) as DP.
  destruct (distribution t m []) as [d|]; destruct (distribution t m' []) as [d'|]; try tauto.
  pose proof (rpaths_perm t d d' DP) as RP.
  destruct (rpaths t d) as [ts|] eqn:E; destruct (rpaths t d') as [ts'|] eqn:E'; try tauto.
  apply rpaths_some in E. apply rpaths_some in E'. destruct E as [A ->]. destruct E' as [A' ->].
  fold (init_of (map (wentry t) d)). fold (init_of (map (wentry t) d')).
  rewrite <- (init_perm t d d' W DP A). rewrite <- (total_perm _ _ RP).
  destruct (s_ge sc (s_one sc)); [|tauto].
  pose proof (wld_all_perm R sc (S (fuel_of t)) _ _ (s_one sc) (init_of (map (wentry t) d)) RP) as WP.
  destruct (wld_all sc (S (fuel_of t)) (map (wentry t) d) (s_one sc) _) as [l|];
    destruct (wld_all sc (S (fuel_of t)) (map (wentry t) d') (s_one sc) _) as [l'|]; simpl; try tauto.
  intros x. rewrite !in_map_iff. split; intros [y [<- Hy]]; exists y; split; auto; apply WP; auto.
Qed.


(** ** Order independence at the level of Taxonomy.LCA(sequence, threshold) when no tie passes; above one half none can *)
Definition wlca_notie {R} (sc : score R) (t : tax) (m : list (N * Z)) : bool :=
  match distribution t m [] with
  | Some d => match rpaths t d with Some ts => notie sc (S (fuel_of t)) ts (s_one sc) | None => true end
  | None => true
  end.

Lemma wlcad1_perm_notie : forall R (sc : score R) t m m', wf_tax t -> Permutation m m' -> wlca_notie sc t m = true ->
  wlcad1 sc t m = wlcad1 sc t m'.
Proof.
  intros R sc t m m' W P H. unfold wlcad1, wlca_notie in *.
  pose proof (distribution_perm t m m' P) as DP.
  destruct (distribution t m []) as [d|]; destruct (distribution t m' []) as [d'|]; try tauto.
  pose proof (rpaths_perm t d d' DP) as RP.
  destruct (rpaths t d) as [ts|] eqn:E; destruct (rpaths t d') as [ts'|] eqn:E'; try tauto.
  apply rpaths_some in E. apply rpaths_some in E'. destruct E as [A ->]. destruct E' as [A' ->].
  fold (init_of (map (wentry t) d)). fold (init_of (map (wentry t) d')).
  rewrite <- (init_perm t d d' W DP A).
  destruct (s_ge sc (s_one sc)); [|reflexivity].
  apply wld_perm_notie; auto.
Qed.

Lemma wsum_nonneg : forall t m x, (forall k w, In (k, w) m -> (0 <= w)%Z) -> (0 <= wsum t m x)%Z.
Proof.
  intros t m x; induction m as [|[k w] m IH]; intros H; simpl; [lia|].
  assert (0 <= w)%Z by (apply (H k w); left; auto).
  assert (0 <= wsum t m x)%Z by (apply IH; intros k' w' Hk; apply (H k' w'); right; auto).
  destruct (resolve t k) as [y|]; [destruct (y =? x)|]; lia.
Qed.

Lemma distribution_nonneg : forall t m d, distribution t m [] = Some d -> (forall k w, In (k, w) m -> (0 <= w)%Z) ->
  forall e, In e d -> (0 <= snd e)%Z.
Proof.
  intros t m d D H [x w] He. destruct (distribution_char _ _ _ _ D (NoDup_nil _)) as [N1 [_ W1]].
  apply (accw_in d x w N1) in He. destruct He as [_ <-]. rewrite W1. simpl. pose proof (wsum_nonneg t m x H). lia.
Qed.

Lemma wlca_notie_q_above_half : forall tn td t m, (0 < td)%Z -> (td < 2 * tn)%Z ->
  (forall k w, In (k, w) m -> (0 <= w)%Z) -> wlca_notie (sc_q tn td) t m = true.
Proof.
  intros tn td t m Htd Hthr H. unfold wlca_notie.
  destruct (distribution t m []) as [d|] eqn:D; [|reflexivity].
  destruct (rpaths t d) as [ts|] eqn:E; [|reflexivity].
  apply notie_q_above_half; auto.
  - apply rpaths_some in E. destruct E as [_ ->]. intros e He. apply in_map_iff in He. destruct He as [e' [<- He']].
    simpl. eapply distribution_nonneg; eauto.
  - unfold q_le1; simpl; lia.
Qed.

Lemma wlca_notie_one : forall t m, (forall k w, In (k, w) m -> (0 <= w)%Z) -> wlca_notie sc_one t m = true.
Proof.
  intros t m H. unfold wlca_notie.
  destruct (distribution t m []) as [d|] eqn:D; [|reflexivity].
  destruct (rpaths t d) as [ts|] eqn:E; [|reflexivity].
  apply notie_one. apply rpaths_some in E. destruct E as [_ ->]. intros e He. apply in_map_iff in He. destruct He as [e' [<- He']].
  simpl. eapply distribution_nonneg; eauto.
Qed.

(** threshold 1.0: the round-1 model [wlca] is the instance [sc_one] of the general descent *)
Lemma wlca_is_wlcad1_one : forall t m, wlca t m = option_map fst (wlcad1 sc_one t m).
Proof.
  intros t m. unfold wlca, wlcad1. destruct (distribution t m []) as [d|]; [|reflexivity].
  destruct (rpaths t d) as [ts|]; [|reflexivity]. cbn [sc_one s_ge s_one]. apply wl_is_wld_one.
Qed.

(** ... so at threshold 1.0 the answer is independent of the map order for all counts >= 0 (zero counts included) *)
Lemma wlca_perm_nonneg : forall t m m', wf_tax t -> (forall k w, In (k, w) m -> (0 <= w)%Z) -> Permutation m m' -> wlca t m = wlca t m'.
Proof.
  intros t m m' W H P. rewrite !wlca_is_wlcad1_one. f_equal. apply wlcad1_perm_notie; auto. apply wlca_notie_one; auto.
Qed.

Lemma wlca_q_above_half_perm : forall tn td t m m', wf_tax t -> (0 < td)%Z -> (td < 2 * tn)%Z ->
  (forall k w, In (k, w) m -> (0 <= w)%Z) -> Permutation m m' ->
  wlcad1 (sc_q tn td) t m = wlcad1 (sc_q tn td) t m'.
Proof. intros tn td t m m' W Htd Hthr H P. apply wlcad1_perm_notie; auto. apply wlca_notie_q_above_half; auto. Qed.

Lemma distribution_sums : forall t m d, distribution t m [] = Some d ->
  NoDup (map fst d) /\
  (forall x, In x (map fst d) <-> exists k w0, In (k, w0) m /\ resolve t k = Some x) /\
  (forall x, accw d x = wsum t m x).
Proof.
  intros t m d D. destruct (distribution_char t m [] d D (NoDup_nil _)) as [A [B C]]. split; auto. split.
  - intros x. rewrite B. simpl. tauto.
  - intros x. rewrite C. reflexivity.
Qed.

(** *** Witnesses on the taxonomy 1 <- 2 <- 3 <- {4 <- {5, 6}, 7 <- 8} with aliases 99 -> 7, 98 -> 7 *)
Definition tie_tax : tax :=
  load [(1,1,0); (2,1,6); (3,2,3); (4,3,2); (5,4,1); (6,4,1); (7,3,2); (8,7,1)] [(99,7); (98,99)].
Definition b64_half : spec_float := S754_finite false 4503599627370496 (-53).

(** a tie that passes (threshold 1/2, genus 4 and genus 7 both carry half): the answer follows the iteration order *)
Lemma tie_order_dependent :
  Permutation [(5, 1%Z); (6, 1%Z); (8, 2%Z)] [(8, 2%Z); (5, 1%Z); (6, 1%Z)] /\
  option_map fst (wlcad1 (sc_q 1 2) tie_tax [(5, 1%Z); (6, 1%Z); (8, 2%Z)]) = Some (Some 4) /\
  option_map fst (wlcad1 (sc_q 1 2) tie_tax [(8, 2%Z); (5, 1%Z); (6, 1%Z)]) = Some (Some 8) /\
  option_map fst (wlcad1 (sc_b64 b64_half) tie_tax [(5, 1%Z); (6, 1%Z); (8, 2%Z)]) = Some (Some 4) /\
  option_map fst (wlcad1 (sc_b64 b64_half) tie_tax [(8, 2%Z); (5, 1%Z); (6, 1%Z)]) = Some (Some 8) /\
  option_map (map (fun x : option N * spec_float * Z => fst (fst x))) (wlcad (sc_b64 b64_half) tie_tax [(5, 1%Z); (6, 1%Z); (8, 2%Z)]) = Some [Some 4; Some 8] /\
  wlca_notie (sc_q 1 2) tie_tax [(5, 1%Z); (6, 1%Z); (8, 2%Z)] = false.
Proof.
  split; [apply Permutation_sym; apply (Permutation_cons_app [(5, 1%Z); (6, 1%Z)] [] (8, 2%Z)); rewrite app_nil_r; apply Permutation_refl|].
  vm_compute. repeat split; reflexivity.
Qed.

(** before the fix of TaxonomicDistribution (overwrite): 99 is an alias of 7; with a zero count the LCA at threshold 1.0
    followed the iteration order; after the fix (weights added) it does not *)
Lemma overwrite_order_dependent :
  wlca_ow tie_tax [(99, 0%Z); (7, 1%Z); (5, 2%Z)] = Some (Some 3) /\
  wlca_ow tie_tax [(7, 1%Z); (99, 0%Z); (5, 2%Z)] = Some (Some 5) /\
  wlca tie_tax [(99, 0%Z); (7, 1%Z); (5, 2%Z)] = Some (Some 3) /\
  wlca tie_tax [(7, 1%Z); (99, 0%Z); (5, 2%Z)] = Some (Some 3) /\
  option_map (map snd) (wlcad sc_one tie_tax [(99, 4%Z); (7, 1%Z); (5, 2%Z)]) = Some [7%Z].
Proof. vm_compute. repeat split; reflexivity. Qed.

(** ** Rows outside the tree do not change the answers on the tree: [t'] has every node of [t] (and possibly more) *)
Definition extends (t t' : tax) : Prop := forall x v, get t x = Some v -> get t' x = Some v.

Lemma extends_is_path : forall t t' x p, extends t t' -> is_path t x p -> is_path t' x p.
Proof.
  intros t t' x p E H; induction H as [x r Hg | x q r l Hg Hne Hp IH].
  - econstructor; eauto.
  - econstructor; eauto.
Qed.

Lemma find_ext_in : forall (f g : N -> bool) l, (forall y, In y l -> f y = g y) -> find f l = find g l /\ existsb f l = existsb g l.
Proof.
  intros f g l; induction l as [|a l IH]; intros H; simpl; auto.
  rewrite <- (H a (or_introl eq_refl)). destruct (IH (fun y Hy => H y (or_intror Hy))) as [-> ->]. auto.
Qed.

Lemma extends_queries : forall t t' x p, extends t t' -> path t x = Some p ->
  path t' x = Some p /\
  (forall y q, path t y = Some q -> lca t' x y = lca t x y) /\
  (forall a, subclade t' x a = subclade t x a) /\
  (forall s, belongs t' x s = belongs t x s) /\
  (forall r, at_rank t' x r = at_rank t x r /\ has_rank t' x r = has_rank t x r).
Proof.
  intros t t' x p E Hp.
  assert (Hp' : path t' x = Some p) by (apply path_complete; eapply extends_is_path; eauto; apply path_sound; auto).
  split; auto. split; [|split; [|split]].
  - intros y q Hq. assert (Hq' : path t' y = Some q) by (apply path_complete; eapply extends_is_path; eauto; apply path_sound; auto).
    unfold lca. rewrite Hp, Hp', Hq, Hq'. reflexivity.
  - intros a. rewrite (proj1 (subclade_spec t x p a Hp)), (proj1 (subclade_spec t' x p a Hp')). reflexivity.
  - intros s. rewrite (proj1 (belongs_spec t x p s Hp)), (proj1 (belongs_spec t' x p s Hp')). reflexivity.
  - intros r. destruct (at_rank_spec t x p r Hp) as [A1 [A2 _]]. destruct (at_rank_spec t' x p r Hp') as [B1 [B2 _]].
    rewrite A1, A2, B1, B2.
    assert (K : forall y, In y p -> has_rank_at t' r y = has_rank_at t r y).
    { intros y Hy. apply path_sound in Hp. destruct (is_path_in_table _ _ _ Hp y Hy) as [v Hv].
      unfold has_rank_at. rewrite Hv, (E _ _ Hv). reflexivity. }
    destruct (find_ext_in _ _ p K) as [-> ->]. auto.
Qed.

Lemma load_nodes_of : forall rows merged, t_nodes (load rows merged) = load_nodes rows.
Proof.
  intros rows merged. unfold load.
  assert (G : forall t, t_nodes (fold_left add_alias merged t) = t_nodes t).
  { induction merged as [|on merged IH]; intros t; simpl; auto. rewrite IH. destruct on as [o n]. unfold add_alias.
    destruct (resolve t n); reflexivity. }
  rewrite G. reflexivity.
Qed.

Lemma load_extends : forall rows extra merged merged',
  (forall row, In row extra -> get (load rows merged) (fst (fst row)) = None) ->
  extends (load rows merged) (load (rows ++ extra) merged').
Proof.
  intros rows extra merged merged' H x v G.
  assert (Hne : forall row, In row extra -> fst (fst row) <> x).
  { intros row Hr E. specialize (H row Hr). rewrite E in H. congruence. }
  clear H. unfold get in *. rewrite load_nodes_of in *. unfold load_nodes in *. rewrite fold_left_app.
  revert G. generalize (fold_left (fun m (row : N * N * N) => let '(x0, p, r) := row in PM.add (key x0) (p, r) m) rows (PM.empty (N * N))) as m0.
  induction extra as [|[[g gp] gr] extra IH]; intros m0 G; simpl; auto.
  apply IH.
  - intros row Hr. apply Hne; right; auto.
  - rewrite PM.gso; auto. intros K. apply key_inj in K. apply (Hne (g, gp, gr)); [left; auto|simpl; congruence].
Qed.

(** ** Taxonomy.Taxon(interface{}): the accepted spellings of one taxid designate the same taxon *)
Lemma all_digits_cons : forall c r, all_digits (c :: r) = true -> is_digit c = true /\ forallb is_digit r = true.
Proof. intros c r H. simpl in H. apply andb_prop in H. exact H. Qed.

Lemma digit_not_sign : forall c, is_digit c = true -> (c =? 43) = false /\ (c =? 45) = false /\ (c =? 84) = false.
Proof.
  intros c H. unfold is_digit in H. apply andb_prop in H. destruct H as [H1 H2]. apply N.leb_le in H1. apply N.leb_le in H2.
  repeat split; apply N.eqb_neq; lia.
Qed.

Lemma atoi_digits : forall d, all_digits d = true -> (digits_val 0 d < int_lim)%Z -> atoi d = Some (digits_val 0 d).
Proof.
  intros d A L. destruct d as [|c r]; [discriminate|]. destruct (all_digits_cons _ _ A) as [Dc _].
  destruct (digit_not_sign c Dc) as [E1 [E2 _]]. unfold atoi. rewrite E1, E2. unfold atoi_u. rewrite A.
  apply Z.ltb_lt in L. rewrite L. reflexivity.
Qed.

Lemma atoi_plus : forall d, all_digits d = true -> (digits_val 0 d < int_lim)%Z -> atoi (43 :: d) = Some (digits_val 0 d).
Proof. intros d A L. unfold atoi. simpl (43 =? 43). cbv iota. unfold atoi_u. rewrite A. apply Z.ltb_lt in L. rewrite L. reflexivity. Qed.

Lemma all_digits_in : forall s c, In c s -> is_digit c = false -> all_digits s = false.
Proof.
  intros s c Hi Hc. destruct s as [|a s]; [destruct Hi|]. unfold all_digits.
  destruct (forallb is_digit (a :: s)) eqn:F; auto. rewrite forallb_forall in F. rewrite (F c Hi) in Hc. discriminate.
Qed.

Lemma atoi_nondigit : forall s c, In c s -> is_digit c = false -> (hd 0 s = c -> (c =? 43) = false /\ (c =? 45) = false) ->
  (forall r, s = hd 0 s :: r -> hd 0 s <> c -> In c r) -> atoi s = None.
Proof.
  intros s c Hi Hc Hh Ht. destruct s as [|a r]; [destruct Hi|]. simpl in Hh.
  assert (As : all_digits (a :: r) = false) by (eapply all_digits_in; eauto).
  unfold atoi, atoi_u. rewrite As.
  destruct (N.eq_dec a c) as [->|Ne].
  - destruct (Hh eq_refl) as [-> ->]. reflexivity.
  - assert (Hr : In c r) by (apply (Ht r eq_refl); simpl; auto).
    rewrite (all_digits_in r c Hr Hc). destruct (a =? 43); [reflexivity|]. destruct (a =? 45); reflexivity.
Qed.

Lemma span_digits_app : forall d suf, forallb is_digit d = true -> (match suf with [] => True | c :: _ => is_digit c = false end) ->
  span_digits (d ++ suf) = (d, suf).
Proof.
  induction d as [|c d IH]; intros suf A S; cbn [app span_digits].
  - destruct suf as [|c suf]; [reflexivity|]. cbn [span_digits]. rewrite S. reflexivity.
  - cbn [forallb] in A. apply andb_prop in A. destruct A as [Dc A]. rewrite Dc. rewrite (IH suf A S). reflexivity.
Qed.

Lemma find_tx_prefix : forall pre d suf, (forall c, In c pre -> c <> 84) -> all_digits d = true ->
  (match suf with [] => True | c :: _ => is_digit c = false end) ->
  find_tx (pre ++ 84 :: 88 :: 58 :: d ++ suf) = Some d.
Proof.
  induction pre as [|c pre IH]; intros d suf Hp A S.
  - cbn [app find_tx]. change (84 =? 84) with true. cbv iota. change ((88 =? 88) && (58 =? 58))%bool with true. cbv iota.
    destruct d as [|c d]; [discriminate|]. destruct (all_digits_cons _ _ A) as [Dc Dr].
    rewrite (span_digits_app (c :: d) suf); [reflexivity| |exact S]. cbn [forallb]. rewrite Dc, Dr. reflexivity.
  - cbn [app find_tx]. assert (E : (c =? 84) = false) by (apply N.eqb_neq; apply Hp; left; auto). rewrite E.
    apply IH; auto. intros c' Hc'. apply Hp; right; auto.
Qed.

Lemma forms_agree : forall t d, all_digits d = true -> (digits_val 0 d < int_lim)%Z ->
  taxon_of t (FStr d) = taxon_of t (FInt (digits_val 0 d)) /\
  taxon_of t (FStr (43 :: d)) = taxon_of t (FInt (digits_val 0 d)) /\
  (forall pre suf, (forall c, In c pre -> c <> 84) -> (match suf with [] => True | c :: _ => is_digit c = false end) ->
     taxon_of t (FStr (pre ++ 84 :: 88 :: 58 :: d ++ suf)) = taxon_of t (FInt (digits_val 0 d))) /\
  taxon_of t FOther = resolve t 0.
Proof.
  intros t d A L. unfold taxon_of, form_taxid. rewrite (atoi_digits d A L), (atoi_plus d A L).
  split; [reflexivity|]. split; [reflexivity|]. split; [|reflexivity].
  intros pre suf Hp S.
  assert (An : atoi (pre ++ 84 :: 88 :: 58 :: d ++ suf) = None).
  { apply (atoi_nondigit _ 84).
    - apply in_or_app; right; left; auto.
    - reflexivity.
    - intros _. split; reflexivity.
    - intros r E Hh. destruct pre as [|a pre]; simpl in *; [congruence|]. inversion E; subst. apply in_or_app; right; left; auto. }
  rewrite An, (find_tx_prefix pre d suf Hp A S). unfold clamp. apply Z.ltb_lt in L. rewrite L. reflexivity.
Qed.

Open Scope Z_scope.
(** ** The descent read on the TRIE of the root-first lineages: after following the prefix [pi], the entries left are
    those whose lineage is comparable with [pi] (one is a prefix of the other), cut after [pi]. *)
Fixpoint cmp (pi p : list N) : bool :=
  match pi, p with
  | [], _ => true
  | _, [] => true
  | a :: pi', b :: p' => ((a =? b)%N && cmp pi' p')%bool
  end.
Fixpoint is_pre (s p : list N) : bool :=
  match s, p with
  | [], _ => true
  | _ :: _, [] => false
  | a :: s', b :: p' => ((a =? b)%N && is_pre s' p')%bool
  end.
Definition st (pi : list N) (ts0 : list wt) : list wt :=
  map (fun e : wt => (skipn (length pi) (fst e), snd e)) (filter (fun e : wt => cmp pi (fst e)) ts0).
(** weight of the lineages comparable with [pi] / of the lineages that start with [s] *)
Definition cmpw (pi : list N) (ts0 : list wt) : Z := total (filter (fun e : wt => cmp pi (fst e)) ts0).
Definition pw (s : list N) (ts0 : list wt) : Z := total (filter (fun e : wt => is_pre s (fst e)) ts0).

Lemma is_pre_snoc : forall pi h p, is_pre (pi ++ [h]) p =
  (cmp pi p && match skipn (length pi) p with x :: _ => (x =? h)%N | [] => false end)%bool.
Proof.
  induction pi as [|a pi IH]; intros h p; simpl.
  - destruct p as [|b p]; [reflexivity|]. simpl. rewrite andb_true_r. apply N.eqb_sym.
  - destruct p as [|b p]; [reflexivity|]. rewrite IH. destruct (a =? b)%N; reflexivity.
Qed.

Lemma cmp_snoc : forall pi h p, cmp (pi ++ [h]) p =
  (cmp pi p && match skipn (length pi) p with x :: _ => (x =? h)%N | [] => true end)%bool.
Proof.
  induction pi as [|a pi IH]; intros h p; simpl.
  - destruct p as [|b p]; [reflexivity|]. simpl. destruct p; rewrite ?andb_true_r; apply N.eqb_sym.
  - destruct p as [|b p]; [reflexivity|]. rewrite IH. destruct (a =? b)%N; reflexivity.
Qed.

Lemma skipn_snoc : forall (pi : list N) h (p : list N), skipn (length (pi ++ [h])) p = tl (skipn (length pi) p).
Proof.
  induction pi as [|a pi IH]; intros h p; simpl.
  - destruct p; reflexivity.
  - destruct p as [|b p]; [reflexivity|]. apply IH.
Qed.

Lemma total_st : forall pi ts0, total (st pi ts0) = cmpw pi ts0.
Proof.
  intros pi ts0. unfold st, cmpw. induction (filter (fun e : wt => cmp pi (fst e)) ts0) as [|e l IH]; simpl; [reflexivity|]. rewrite IH. reflexivity.
Qed.

Lemma hw_st : forall pi h ts0, head_weight h (st pi ts0) = pw (pi ++ [h]) ts0.
Proof.
  intros pi h ts0. unfold st, pw. induction ts0 as [|[p w] l IH]; [reflexivity|].
  cbn [filter fst]. rewrite is_pre_snoc. destruct (cmp pi p); cbn [andb].
  - cbn [map]. rewrite hw_cons. cbn [fst snd]. destruct (skipn (length pi) p) as [|x r].
    + exact IH.
    + destruct (x =? h)%N; [rewrite total_cons; cbn [snd]; rewrite IH; reflexivity|exact IH].
  - exact IH.
Qed.

Lemma next_st : forall pi h ts0, next_ts (st pi ts0) (Some h) = st (pi ++ [h]) ts0.
Proof.
  intros pi h ts0. unfold next_ts, st. induction ts0 as [|[p w] l IH]; [reflexivity|].
  cbn [filter fst]. rewrite cmp_snoc. destruct (cmp pi p); cbn [andb].
  - cbn [map filter]. unfold keep at 1. cbn [fst]. destruct (skipn (length pi) p) as [|x r] eqn:E.
    + cbn [map]. rewrite IH. unfold strip at 1. cbn [fst snd]. rewrite skipn_snoc, E. reflexivity.
    + destruct (x =? h)%N; [|exact IH]. cbn [map]. rewrite IH. unfold strip at 1. cbn [fst snd]. rewrite skipn_snoc, E. reflexivity.
  - exact IH.
Qed.

Section Trie.
Variable R : Type.
Variable sc : score R.
Variable ts0 : list wt.
(** the threshold is positive: a null share fails the test (for the scores the loop can reach: [Inv]) *)
Variable Inv : R -> Prop.
Hypothesis inv_zero : Inv (s_zero sc).
Hypothesis inv_mul : forall r w tt, Inv r -> 0 <= w -> 0 < tt -> Inv (s_mul sc r w tt).
Hypothesis ge_zero : s_ge sc (s_zero sc) = false.
Hypothesis ge_null : forall r tt, Inv r -> 0 < tt -> s_ge sc (s_mul sc r 0 tt) = false.

Definition trie_max (pi : list N) (M : Z) : Prop :=
  0 <= M /\ (forall h, pw (pi ++ [h]) ts0 <= M) /\ (M = 0 \/ exists h, M = pw (pi ++ [h]) ts0).
Definition trie_r (pi : list N) (M : Z) (r : R) : R :=
  if 0 <? cmpw pi ts0 then s_mul sc r M (cmpw pi ts0) else s_zero sc.

(** the descent as a walk in the trie: at the node [pi] the share of the heaviest child is [M / cmpw pi];
    while the cumulated share passes the threshold, go to A heaviest child *)
Inductive trie_desc : list N -> R -> option N -> option N * R -> Prop :=
| td_stop : forall pi r tmax M, trie_max pi M -> s_ge sc (trie_r pi M r) = false -> trie_desc pi r tmax (tmax, r)
| td_down : forall pi r tmax M h res, trie_max pi M -> s_ge sc (trie_r pi M r) = true ->
    0 < M -> pw (pi ++ [h]) ts0 = M -> trie_desc (pi ++ [h]) (trie_r pi M r) (Some h) res -> trie_desc pi r tmax res.

Lemma hw_nonhead : forall h ts, ~ In h (heads ts) -> head_weight h ts = 0.
Proof.
  intros h ts; induction ts as [|[p w] ts IH]; intros H; [reflexivity|]. rewrite hw_cons. cbn [fst snd].
  destruct p as [|a r].
  - apply IH. intros Hi. apply H. simpl. exact Hi.
  - assert (Ha : a <> h). { intros ->. apply H. apply heads_In. exists (h :: r, w), r. split; [left|]; auto. }
    apply N.eqb_neq in Ha. rewrite Ha. apply IH. intros Hi. apply H. apply heads_In. apply heads_In in Hi.
    destruct Hi as [e [r' [Hi Hf]]]. exists e, r'. split; [right|]; auto.
Qed.

Lemma trie_max_maxw : forall pi, trie_max pi (maxw (st pi ts0)).
Proof.
  intros pi. destruct (maxw_is (st pi ts0)) as [[M0 [M1 M2]] _]. split; [auto|]. split.
  - intros h. rewrite <- hw_st. destruct (in_dec N.eq_dec h (heads (st pi ts0))) as [Hi|Hn].
    + apply heads_In in Hi. destruct Hi as [e [r [Hi Hf]]]. eapply M1; eauto.
    + rewrite (hw_nonhead _ _ Hn). exact M0.
  - destruct M2 as [->|[h [_ E]]]; [left; auto|right]. exists h. rewrite <- hw_st. exact E.
Qed.

Lemma next_r_st : forall pi r, next_r sc (st pi ts0) r = trie_r pi (maxw (st pi ts0)) r.
Proof. intros pi r. unfold next_r, trie_r. rewrite total_st. reflexivity. Qed.

Lemma inv_trie_r : forall pi M r, Inv r -> 0 <= M -> Inv (trie_r pi M r).
Proof.
  intros pi M r Hr HM. unfold trie_r. destruct (0 <? cmpw pi ts0) eqn:L; [|exact inv_zero].
  apply inv_mul; auto. apply Z.ltb_lt; exact L.
Qed.

Lemma wld_all_trie : forall fuel pi r tmax l, Inv r -> wld_all sc fuel (st pi ts0) r tmax = Some l ->
  forall x, In x l -> trie_desc pi r tmax x.
Proof.
  induction fuel as [|f IH]; intros pi r tmax l Hr H x Hx; simpl in H; [discriminate|].
  rewrite next_r_st in H. pose proof (trie_max_maxw pi) as TM. set (M := maxw (st pi ts0)) in *.
  destruct (s_ge sc (trie_r pi M r)) eqn:G.
  - pose proof (fold_ocat _ _ (fun tm => wld_all sc f (next_ts (st pi ts0) tm) (trie_r pi M r) tm) (cands (st pi ts0))) as FO.
    simpl in FO. rewrite H in FO. destruct FO as [_ F2]. apply F2 in Hx. destruct Hx as [tm [l' [Hc [Hl Hx]]]].
    apply in_cands in Hc. destruct tm as [h|].
    + destruct Hc as [Mp [_ Hw]]. rewrite next_st in Hl. fold M in Mp, Hw.
      apply (td_down pi r tmax M h x TM G Mp); [rewrite <- hw_st; exact Hw|]. eapply IH; eauto.
      apply inv_trie_r; auto. lia.
    + exfalso. fold M in Hc. destruct TM as [T0 _]. assert (M = 0) by lia.
      unfold trie_r in G. rewrite H0 in G. destruct (0 <? cmpw pi ts0) eqn:Lc; [rewrite ge_null in G by (auto; apply Z.ltb_lt; exact Lc)|rewrite ge_zero in G]; discriminate.
  - inversion H; subst. destruct Hx as [<-|[]]. eapply td_stop; eauto.
Qed.
End Trie.

(** ** ... and on the TREE: clade weights *)
Definition ancb (t : tax) (x v : N) : bool := match path t x with Some p => mem v p | None => false end.
Fixpoint wsumf (f : N -> bool) (d : list (N * Z)) : Z :=
  match d with [] => 0 | (x, w) :: d' => if f x then w + wsumf f d' else wsumf f d' end.
(** weight of the merged taxa inside the clade of v / comparable with a (inside its clade or on its lineage) *)
Definition cladew (t : tax) (d : list (N * Z)) (v : N) : Z := wsumf (fun x => ancb t x v) d.
Definition compw (t : tax) (d : list (N * Z)) (a : N) : Z := wsumf (fun x => (ancb t x a || ancb t a x)%bool) d.
Definition child (t : tax) (c a : N) : Prop := c <> a /\ exists rk, get t c = Some (a, rk).

Lemma ancb_anc : forall t x v, ancb t x v = true <-> anc t x v.
Proof.
  intros t x v. unfold ancb, anc. split.
  - destruct (path t x) as [p|] eqn:Hp; [|discriminate]. intros H. exists p. split; [apply path_sound; auto|apply mem_In; auto].
  - intros [p [Hp Hin]]. rewrite (path_complete _ _ _ Hp). apply mem_In; auto.
Qed.

Lemma wsumf_ext : forall f g d, (forall e, In e d -> f (fst e) = g (fst e)) -> wsumf f d = wsumf g d.
Proof.
  intros f g d; induction d as [|[x w] d IH]; intros H; simpl; [reflexivity|].
  pose proof (H (x, w) (or_introl eq_refl)) as E. cbn [fst] in E. rewrite E. rewrite IH; [reflexivity|]. intros e He; apply H; right; auto.
Qed.

Lemma pw_wentry : forall t s d, pw s (map (wentry t) d) = wsumf (fun x => is_pre s (rp t x)) d.
Proof.
  intros t s d. unfold pw. induction d as [|[x w] d IH]; [reflexivity|]. cbn [map filter wsumf]. unfold wentry at 1. cbn [fst snd].
  destruct (is_pre s (rp t x)); [rewrite total_cons; cbn [snd]; rewrite IH; reflexivity|exact IH].
Qed.

Lemma cmpw_wentry : forall t s d, cmpw s (map (wentry t) d) = wsumf (fun x => cmp s (rp t x)) d.
Proof.
  intros t s d. unfold cmpw. induction d as [|[x w] d IH]; [reflexivity|]. cbn [map filter wsumf]. unfold wentry at 1. cbn [fst snd].
  destruct (cmp s (rp t x)); [rewrite total_cons; cbn [snd]; rewrite IH; reflexivity|exact IH].
Qed.

Lemma is_pre_iff : forall s p, is_pre s p = true <-> exists q, p = s ++ q.
Proof.
  induction s as [|a s IH]; intros p; simpl.
  - split; [intros _; exists p; reflexivity|auto].
  - destruct p as [|b p]; [split; [discriminate|intros [q E]; discriminate]|].
    split.
    + intros H. apply andb_prop in H. destruct H as [E H]. apply N.eqb_eq in E. subst b. apply IH in H. destruct H as [q ->]. exists q; reflexivity.
    + intros [q E]. inversion E; subst. rewrite N.eqb_refl. apply IH. exists q; reflexivity.
Qed.

Lemma cmp_iff : forall s p, cmp s p = true <-> is_pre s p = true \/ is_pre p s = true.
Proof.
  induction s as [|a s IH]; intros p; simpl.
  - tauto.
  - destruct p as [|b p]; simpl; [tauto|]. destruct (a =? b)%N eqn:E; simpl.
    + rewrite IH. apply N.eqb_eq in E; subst. rewrite N.eqb_refl. simpl. tauto.
    + rewrite (N.eqb_sym b a), E. simpl. split; [discriminate|intros [H|H]; discriminate].
Qed.

Lemma rp_path : forall t x p, is_path t x p -> rp t x = rev p.
Proof. intros t x p H. unfold rp. rewrite (path_complete _ _ _ H). reflexivity. Qed.

(** the lineage of c is a prefix of the lineage of x iff c is an ancestor-or-self of x *)
Lemma is_pre_rp : forall t x c px pc, is_path t x px -> is_path t c pc -> (is_pre (rp t c) (rp t x) = ancb t x c).
Proof.
  intros t x c px pc Hx Hc. rewrite (rp_path _ _ _ Hx), (rp_path _ _ _ Hc).
  destruct (ancb t x c) eqn:A.
  - apply ancb_anc in A. destruct A as [p [Hp Hin]]. rewrite (is_path_fun _ _ _ Hp _ Hx) in Hin.
    destruct (in_split _ _ Hin) as [l [s E]]. subst px.
    pose proof (is_path_suffix _ _ _ _ _ Hx) as Hc'. rewrite (is_path_fun _ _ _ Hc _ Hc').
    apply is_pre_iff. exists (rev l). rewrite rev_app_distr. reflexivity.
  - destruct (is_pre (rev pc) (rev px)) eqn:P; [|reflexivity]. exfalso.
    apply is_pre_iff in P. destruct P as [q E]. assert (E' : px = rev q ++ pc).
    { rewrite <- (rev_involutive px), E, rev_app_distr, rev_involutive. reflexivity. }
    assert (A' : ancb t x c = true). { apply ancb_anc. exists px. split; auto. rewrite E'. apply in_or_app; right.
      destruct (is_path_head _ _ _ Hc) as [l ->]. left; auto. }
    congruence.
Qed.

Section Tree.
Variable R : Type.
Variable sc : score R.
Variable t : tax.
Variable d : list (N * Z).
Hypothesis W : wf_tax t.
Hypothesis Hd : forall e, In e d -> present t (fst e).

Definition tree_max (a : N) (M : Z) : Prop :=
  0 <= M /\ (forall c, child t c a -> cladew t d c <= M) /\ (M = 0 \/ exists c, child t c a /\ M = cladew t d c).
Definition tree_r (a : N) (M : Z) (r : R) : R :=
  if 0 <? compw t d a then s_mul sc r M (compw t d a) else s_zero sc.

(** the descent on the tree: at taxon a, M = the heaviest clade among the children of a, the share is M over the weight of
    the merged taxa comparable with a; while the cumulated share passes the threshold, go down to A heaviest child *)
Inductive tree_desc : N -> R -> option N * R -> Prop :=
| tr_stop : forall a r M, tree_max a M -> s_ge sc (tree_r a M r) = false -> tree_desc a r (Some a, r)
| tr_down : forall a r M c res, tree_max a M -> s_ge sc (tree_r a M r) = true -> 0 < M -> child t c a -> cladew t d c = M ->
    tree_desc c (tree_r a M r) res -> tree_desc a r res.

Let ts0 := map (wentry t) d.

Lemma pw_clade : forall c pc, is_path t c pc -> pw (rp t c) ts0 = cladew t d c.
Proof.
  intros c pc Hc. unfold ts0. rewrite pw_wentry. unfold cladew. apply wsumf_ext. intros e He.
  destruct (Hd e He) as [v Hv]. destruct (wf_reach _ W _ _ Hv) as [px Hx]. eapply is_pre_rp; eauto.
Qed.

Lemma cmpw_comp : forall a pa, is_path t a pa -> cmpw (rp t a) ts0 = compw t d a.
Proof.
  intros a pa Ha. unfold ts0. rewrite cmpw_wentry. unfold compw. apply wsumf_ext. intros e He.
  destruct (Hd e He) as [v Hv]. destruct (wf_reach _ W _ _ Hv) as [px Hx].
  rewrite <- (is_pre_rp t (fst e) a px pa Hx Ha), <- (is_pre_rp t a (fst e) pa px Ha Hx).
  destruct (cmp (rp t a) (rp t (fst e))) eqn:C.
  - apply cmp_iff in C. symmetry. apply orb_true_iff. exact C.
  - symmetry. apply orb_false_iff. split.
    + destruct (is_pre (rp t a) (rp t (fst e))) eqn:P; auto. assert (cmp (rp t a) (rp t (fst e)) = true) by (apply cmp_iff; auto). congruence.
    + destruct (is_pre (rp t (fst e)) (rp t a)) eqn:P; auto. assert (cmp (rp t a) (rp t (fst e)) = true) by (apply cmp_iff; auto). congruence.
Qed.

Lemma child_rp : forall c a pa, is_path t a pa -> child t c a -> is_path t c (c :: pa) /\ rp t c = rp t a ++ [c].
Proof.
  intros c a pa Ha [Hne [rk G]]. assert (Hc : is_path t c (c :: pa)) by (econstructor; eauto).
  split; auto. rewrite (rp_path _ _ _ Hc), (rp_path _ _ _ Ha). reflexivity.
Qed.

(** a lineage that continues the lineage of a with h makes h a child of a *)
Lemma pw_pos_child : forall a pa h, is_path t a pa -> pw (rp t a ++ [h]) ts0 <> 0 -> child t h a.
Proof.
  intros a pa h Ha Hp. unfold ts0 in Hp. rewrite pw_wentry in Hp.
  assert (Hex : exists e, In e d /\ is_pre (rp t a ++ [h]) (rp t (fst e)) = true).
  { clear -Hp. induction d as [|[x w] l IH]; simpl in Hp; [congruence|].
    destruct (is_pre (rp t a ++ [h]) (rp t x)) eqn:P; [exists (x, w); split; [left|]; auto|].
    destruct (IH Hp) as [e [He Pe]]. exists e; split; [right|]; auto. }
  destruct Hex as [e [He P]]. destruct (Hd e He) as [v Hv]. destruct (wf_reach _ W _ _ Hv) as [px Hx].
  rewrite (rp_path _ _ _ Hx), (rp_path _ _ _ Ha) in P. apply is_pre_iff in P. destruct P as [q E].
  assert (E' : px = rev q ++ h :: pa).
  { rewrite <- (rev_involutive px), E, !rev_app_distr, rev_involutive. reflexivity. }
  rewrite E' in Hx. apply is_path_suffix in Hx.
  destruct (is_path_head _ _ _ Ha) as [la Ela]. subst pa.
  inversion Hx as [? ? G E1 | ? p rk l G Hne Hp' ]; subst.
  destruct (is_path_head _ _ _ Hp') as [l' El']. inversion El'; subst. split; eauto.
Qed.

Lemma tree_max_of_trie : forall a pa M, is_path t a pa -> trie_max ts0 (rp t a) M -> tree_max a M.
Proof.
  intros a pa M Ha [M0 [M1 M2]]. split; [auto|]. split.
  - intros c Hc. destruct (child_rp c a pa Ha Hc) as [Hpc Erp]. rewrite <- (pw_clade c _ Hpc), Erp. apply M1.
  - destruct M2 as [->|[h E]]; [left; auto|]. destruct (Z.eq_dec M 0) as [->|Hne]; [left; auto|right].
    assert (Hc : child t h a) by (eapply pw_pos_child; eauto; congruence).
    exists h. split; auto. destruct (child_rp h a pa Ha Hc) as [Hpc Erp]. rewrite <- (pw_clade h _ Hpc), Erp. exact E.
Qed.

Lemma tree_of_trie : forall pi r tmax res, trie_desc R sc ts0 pi r tmax res ->
  forall a pa, is_path t a pa -> pi = rp t a -> tmax = Some a -> tree_desc a r res.
Proof.
  intros pi r tmax res H; induction H as [pi r tmax M TM G | pi r tmax M h res TM G Mp Hw Hrec IH]; intros a pa Ha -> ->.
  - apply (tr_stop a r M); [eapply tree_max_of_trie; eauto|]. unfold tree_r. rewrite <- (cmpw_comp a pa Ha). exact G.
  - assert (Hc : child t h a) by (eapply pw_pos_child; eauto; lia).
    destruct (child_rp h a pa Ha Hc) as [Hpc Erp].
    apply (tr_down a r M h res); auto.
    + eapply tree_max_of_trie; eauto.
    + unfold tree_r. rewrite <- (cmpw_comp a pa Ha). exact G.
    + rewrite <- (pw_clade h _ Hpc), Erp. exact Hw.
    + unfold tree_r. rewrite <- (cmpw_comp a pa Ha). apply (IH h (h :: pa)); auto.
Qed.
End Tree.

Lemma st_nil : forall ts0, st [] ts0 = ts0.
Proof.
  intros ts0. unfold st. induction ts0 as [|[p w] l IH]; [reflexivity|]. cbn [filter cmp fst map length skipn snd] in *. rewrite IH. reflexivity.
Qed.

(** Taxonomy.LCA(sequence, threshold > 0) on a well-formed taxonomy, for any arithmetic of rmax: every outcome of the loop is
    either the initial answer (the very first test fails) or an outcome of the descent on the tree from the root *)
Lemma wlca_descent_on_tree : forall R (sc : score R) (Inv : R -> Prop) t d, wf_tax t -> (forall e, In e d -> present t (fst e)) ->
  Inv (s_zero sc) -> (forall r w tt, Inv r -> 0 <= w -> 0 < tt -> Inv (s_mul sc r w tt)) ->
  s_ge sc (s_zero sc) = false -> (forall r tt, Inv r -> 0 < tt -> s_ge sc (s_mul sc r 0 tt) = false) ->
  forall fuel r0 tmax l, Inv r0 -> wld_all sc fuel (map (wentry t) d) r0 tmax = Some l -> forall x, In x l ->
    x = (tmax, r0) \/
    exists root rk, get t root = Some (root, rk) /\ 0 < wsumf (fun _ => true) d /\
       tree_desc R sc t d root (s_mul sc r0 (wsumf (fun _ => true) d) (wsumf (fun _ => true) d)) x.
Proof.
  intros R sc Inv t d W Hd I0 Im G0 Gn fuel r0 tmax l Hr0 H x Hx.
  rewrite <- (st_nil (map (wentry t) d)) in H.
  pose proof (wld_all_trie R sc (map (wentry t) d) Inv I0 Im G0 Gn fuel [] r0 tmax l Hr0 H x Hx) as T.
  remember ([] : list N) as p0 eqn:Ep. destruct T as [pi r tm M TM G | pi r tm M h res TM G Mp Hw Hrec]; subst pi; [left; reflexivity|right].
  cbn [app] in Hw, Hrec. rename r into r0, tm into tmax, res into x.
  (* some lineage starts with h: h is the root *)
  assert (Hex : exists e, In e d /\ is_pre [h] (rp t (fst e)) = true).
  { rewrite pw_wentry in Hw. clear -Hw Mp. induction d as [|[y w] l' IH]; cbn [wsumf] in Hw; [lia|].
    destruct (is_pre [h] (rp t y)) eqn:P; [exists (y, w); split; [left|]; auto|].
    destruct (IH Hw) as [e [He Pe]]. exists e; split; [right|]; auto. }
  destruct Hex as [e [He P]]. destruct (Hd e He) as [v Hv]. destruct (wf_reach _ W _ _ Hv) as [px Hpx].
  destruct (rp_head _ _ _ Hpx) as [z [lz [rk [_ [Erev Gz]]]]].
  rewrite (rp_path _ _ _ Hpx), Erev in P. simpl in P. rewrite andb_true_r in P. apply N.eqb_eq in P. subst z.
  assert (Hroot : is_path t h [h]) by (econstructor; eauto).
  assert (AllRoot : forall e', In e' d -> exists l', rp t (fst e') = h :: l').
  { intros e' He'. destruct (Hd e' He') as [v' Hv']. destruct (wf_reach _ W _ _ Hv') as [p' Hp'].
    destruct (rp_head _ _ _ Hp') as [z' [lz' [rk' [_ [Erev' Gz']]]]]. rewrite (rp_path _ _ _ Hp'), Erev'.
    destruct (wf_root _ W) as [rt [_ U]]. rewrite (U _ _ Gz'), <- (U _ _ Gz). eauto. }
  assert (EM : M = wsumf (fun _ => true) d).
  { rewrite <- Hw, pw_wentry. apply wsumf_ext. intros e' He'. destruct (AllRoot e' He') as [l' ->]. simpl. rewrite N.eqb_refl. reflexivity. }
  assert (EC : cmpw [] (map (wentry t) d) = wsumf (fun _ => true) d).
  { rewrite cmpw_wentry. apply wsumf_ext. intros; reflexivity. }
  exists h, rk. split; auto. split; [lia|].
  assert (ER : trie_r R sc (map (wentry t) d) [] M r0 = s_mul sc r0 (wsumf (fun _ => true) d) (wsumf (fun _ => true) d)).
  { unfold trie_r. rewrite EC, <- EM. assert (L : (0 <? M) = true) by (apply Z.ltb_lt; auto). rewrite L. reflexivity. }
  rewrite <- ER. apply (tree_of_trie R sc t d W Hd [h] _ (Some h) x Hrec h [h] Hroot); [|reflexivity].
  rewrite (rp_path _ _ _ Hroot). reflexivity.
Qed.

Close Scope Z_scope.

(** the characterisation holds unconditionally for exact rational arithmetic with a positive threshold tn/td, and at threshold 1.0 *)
Definition q_inv (r : Z * Z) : Prop := (0 <= fst r /\ 0 < snd r)%Z.

Lemma wlca_descent_on_tree_q : forall tn td t d, (0 < tn)%Z -> (0 < td)%Z -> wf_tax t -> (forall e, In e d -> present t (fst e)) ->
  forall fuel tmax l, wld_all (sc_q tn td) fuel (map (wentry t) d) (1, 1)%Z tmax = Some l -> forall x, In x l ->
    x = (tmax, (1, 1)%Z) \/
    exists root rk, get t root = Some (root, rk) /\ (0 < wsumf (fun _ => true) d)%Z /\
       tree_desc _ (sc_q tn td) t d root (s_mul (sc_q tn td) (1, 1)%Z (wsumf (fun _ => true) d) (wsumf (fun _ => true) d)) x.
Proof.
  intros tn td t d Htn Htd W Hd fuel tmax l H x Hx.
  apply (wlca_descent_on_tree _ (sc_q tn td) q_inv t d W Hd) with (fuel := fuel) (l := l); auto.
  - unfold q_inv; simpl; lia.
  - intros [n dd] w tt [I1 I2] Hw Ht. unfold q_inv in *; simpl in *. split; [apply Z.mul_nonneg_nonneg; lia|apply Z.mul_pos_pos; lia].
  - simpl. apply Z.leb_gt. lia.
  - intros [n dd] tt [I1 I2] Ht. simpl in *. apply Z.leb_gt. rewrite Z.mul_0_r, Z.mul_0_l.
    apply Z.mul_pos_pos; [lia|apply Z.mul_pos_pos; lia].
  - unfold q_inv; simpl; lia.
Qed.

Lemma wlca_descent_on_tree_one : forall t d, wf_tax t -> (forall e, In e d -> present t (fst e)) ->
  forall fuel tmax l, wld_all sc_one fuel (map (wentry t) d) true tmax = Some l -> forall x, In x l ->
    x = (tmax, true) \/
    exists root rk, get t root = Some (root, rk) /\ (0 < wsumf (fun _ => true) d)%Z /\
       tree_desc _ sc_one t d root (s_mul sc_one true (wsumf (fun _ => true) d) (wsumf (fun _ => true) d)) x.
Proof.
  intros t d W Hd fuel tmax l H x Hx.
  apply (wlca_descent_on_tree _ sc_one (fun _ => True) t d W Hd) with (fuel := fuel) (l := l); auto.
  intros r tt _ Ht. simpl. destruct tt; try discriminate; try reflexivity. apply andb_false_r.
Qed.

(** ** Threshold 1.0 with counts >= 0 (zero counts included): the LCA of the taxa designated by a key of positive count *)
Lemma wsum_ge : forall t m k w x, (forall k' w', In (k', w') m -> (0 <= w')%Z) -> In (k, w) m -> resolve t k = Some x -> (w <= wsum t m x)%Z.
Proof.
  intros t m k w x; induction m as [|[k0 w0] m IH]; intros Hn Hi Rk; [destruct Hi|].
  assert (N0 : (0 <= w0)%Z) by (apply (Hn k0 w0); left; auto).
  assert (Nm : forall k' w', In (k', w') m -> (0 <= w')%Z) by (intros k' w' H; apply (Hn k' w'); right; auto).
  pose proof (wsum_nonneg t m x Nm) as P. simpl. destruct Hi as [E|Hi].
  - inversion E; subst. rewrite Rk, N.eqb_refl. lia.
  - specialize (IH Nm Hi Rk). destruct (resolve t k0) as [y|]; [destruct (y =? x)|]; lia.
Qed.

Lemma wsum_pos_ex : forall t m x, (0 < wsum t m x)%Z -> exists k w, In (k, w) m /\ resolve t k = Some x /\ (0 < w)%Z.
Proof.
  intros t m x; induction m as [|[k0 w0] m IH]; intros H; simpl in H; [lia|].
  destruct (resolve t k0) as [y|] eqn:R0.
  - destruct (y =? x) eqn:E.
    + apply N.eqb_eq in E; subst y. destruct (Z_lt_le_dec 0 w0) as [L|L].
      * exists k0, w0. split; [left|]; auto.
      * destruct IH as [k [w [Hi [Rk Pw]]]]; [lia|]. exists k, w. split; [right|]; auto.
    + destruct (IH H) as [k [w [Hi [Rk Pw]]]]. exists k, w. split; [right|]; auto.
  - destruct (IH H) as [k [w [Hi [Rk Pw]]]]. exists k, w. split; [right|]; auto.
Qed.

Lemma wlca_char_nonneg : forall t m, wf_tax t -> alias_ok t ->
  (forall k w, In (k, w) m -> (0 <= w)%Z /\ resolve t k <> None) -> (exists k w, In (k, w) m /\ (0 < w)%Z) ->
  exists z, wlca t m = Some (Some z) /\ present t z /\
    forall u, anc t z u <-> forall k w, In (k, w) m -> (0 < w)%Z -> exists x, resolve t k = Some x /\ anc t x u.
Proof.
  intros t m W A Hm [k0 [w0 [Hk0 Pw0]]].
  assert (Hn : forall k w, In (k, w) m -> (0 <= w)%Z) by (intros k w H; apply (Hm k w H)).
  destruct (distribution_total t m [] (fun k w H => proj2 (Hm k w H))) as [d Hd].
  destruct (distribution_char _ _ _ _ Hd (NoDup_nil _)) as [ND [Mem Wt]].
  assert (Hdd : forall e, In e d -> present t (fst e) /\ (0 <= snd e)%Z).
  { intros [x w] He. split; [|eapply distribution_nonneg; eauto].
    assert (Hx : In x (map fst d)) by (apply in_map_iff; exists (x, w); auto).
    apply Mem in Hx. destruct Hx as [[]|[k [w1 [Hk Rk]]]]. simpl. eapply resolve_present; eauto. }
  assert (InD : forall k w x, In (k, w) m -> resolve t k = Some x -> In (x, wsum t m x) d).
  { intros k w x Hk Rk. apply (accw_in d x _ ND). split; [apply Mem; right; eauto|]. rewrite Wt. simpl. lia. }
  assert (Hex : exists e, In e d /\ (0 < snd e)%Z).
  { destruct (Hm _ _ Hk0) as [_ R0]. destruct (resolve t k0) as [x0|] eqn:Rk0; [|congruence].
    exists (x0, wsum t m x0). split; [eapply InD; eauto|]. simpl. pose proof (wsum_ge t m k0 w0 x0 Hn Hk0 Rk0). lia. }
  unfold wlca. rewrite Hd.
  destruct (wlca_nodes_char t d W Hdd Hex (match map (wentry t) d with (h :: _, _) :: _ => Some h | _ => None end)) as [z [Rp [Hw [Pz C]]]].
  rewrite Rp. exists z. split; auto. split; auto. intros u. rewrite C. split.
  - intros Hall k w Hk Pw. destruct (Hm _ _ Hk) as [_ Rn]. destruct (resolve t k) as [x|] eqn:Rk; [|congruence].
    exists x. split; auto. apply (Hall (x, wsum t m x)); [eapply InD; eauto|]. simpl. pose proof (wsum_ge t m k w x Hn Hk Rk). lia.
  - intros Hall [x w] He Pw. simpl in *. apply (accw_in d x w ND) in He. destruct He as [_ Ew]. rewrite Wt in Ew. simpl in Ew.
    assert (Pws : (0 < wsum t m x)%Z) by lia. destruct (wsum_pos_ex t m x Pws) as [k [w1 [Hk [Rk Pw1]]]].
    destruct (Hall k w1 Hk Pw1) as [x' [Rk' Ax]]. congruence.
Qed.

(** ** Sequence predicates / workers read the lineage of the sequence's taxon *)
Lemma any_clade_known : forall t s x p cs, resolve t (seq_taxid s) = Some x -> path t x = Some p ->
  any_clade t s cs = Some (existsb (fun c => mem c p) cs).
Proof.
  intros t s x p cs R P; induction cs as [|c cs IH]; simpl; auto.
  unfold seq_in_clade. rewrite R. rewrite (proj1 (subclade_spec t x p c P)).
  destruct (mem c p); simpl; auto.
Qed.

Lemma any_clade_unknown : forall t s cs, resolve t (seq_taxid s) = None -> any_clade t s cs = Some false.
Proof.
  intros t s cs R; induction cs as [|c cs IH]; simpl; auto. unfold seq_in_clade. rewrite R. exact IH.
Qed.

Lemma all_ranks_known : forall t s x p rs, resolve t (seq_taxid s) = Some x -> path t x = Some p ->
  all_ranks t s rs = Some (forallb (fun r => existsb (has_rank_at t r) p) rs).
Proof.
  intros t s x p rs R P; induction rs as [|r rs IH]; simpl; auto.
  rewrite R. destruct (at_rank_spec t x p r P) as [_ [H _]]. rewrite H.
  destruct (existsb (has_rank_at t r) p); simpl; auto.
Qed.

Lemma predicates_known : forall t s x p, resolve t (seq_taxid s) = Some x -> path t x = Some p ->
  (forall ids cs, ids <> [] -> resolve_all t ids = Some cs ->
     restrict t s ids = zb (existsb (fun c => mem c p) cs) /\
     ignore t s ids = zb (negb (existsb (fun c => mem c p) cs))) /\
  (forall rs, rs <> [] -> forallb (rank_listed t) rs = true ->
     require t s rs = zb (forallb (fun r => existsb (has_rank_at t r) p) rs)) /\
  (forall r, rank_listed t r = true ->
     atrank_attr t s r = match find (has_rank_at t r) p with Some z => Z.of_N z | None => (-1)%Z end) /\
  (forall c y, s_slot s = Some c -> taxon_of t c = Some y -> slotsub t s = zb (mem y p)).
Proof.
  intros t s x p R P. repeat split.
  - unfold restrict. destruct ids; [congruence|]. rewrite H0. rewrite (any_clade_known t s x p cs R P). reflexivity.
  - unfold ignore. destruct ids; [congruence|]. rewrite H0. rewrite (any_clade_known t s x p cs R P). reflexivity.
  - intros rs Hne Hl. unfold require. destruct rs; [congruence|]. rewrite Hl. rewrite (all_ranks_known t s x p _ R P). reflexivity.
  - intros r Hl. unfold atrank_attr. rewrite Hl, R. destruct (at_rank_spec t x p r P) as [H _]. rewrite H.
    destruct (find (has_rank_at t r) p); reflexivity.
  - intros c y Hs Hc. unfold slotsub. rewrite Hs, Hc, R. rewrite (proj1 (subclade_spec t x p y P)). reflexivity.
Qed.

Lemma predicates_unknown : forall t s, resolve t (seq_taxid s) = None ->
  (forall ids cs, ids <> [] -> resolve_all t ids = Some cs -> restrict t s ids = 0%Z /\ ignore t s ids = 1%Z) /\
  (forall rs, rs <> [] -> forallb (rank_listed t) rs = true -> require t s rs = 0%Z) /\
  (forall r, rank_listed t r = true -> atrank_attr t s r = (-9)%Z) /\
  (forall c, s_slot s = Some c -> slotsub t s = 0%Z).
Proof.
  intros t s R. repeat split.
  - unfold restrict. destruct ids; [congruence|]. rewrite H0, (any_clade_unknown t s cs R). reflexivity.
  - unfold ignore. destruct ids; [congruence|]. rewrite H0, (any_clade_unknown t s cs R). reflexivity.
  - intros rs Hne Hl. unfold require. destruct rs as [|r rs]; [congruence|]. rewrite Hl. simpl. rewrite R. reflexivity.
  - intros r Hl. unfold atrank_attr. rewrite Hl, R. reflexivity.
  - intros c Hs. unfold slotsub. rewrite Hs, R. destruct (taxon_of t c); reflexivity.
Qed.

(** ** Names: every alternate name listed for a taxon is found by IsNameEqual *)
Lemma beqb_eq : forall a b, beqb a b = true <-> a = b.
Proof.
  induction a as [|x a IH]; destruct b as [|y b]; simpl; split; intros H; try discriminate; auto.
  - apply andb_prop in H. destruct H as [H1 H2]. apply N.eqb_eq in H1. apply IH in H2. subst; auto.
  - inversion H; subst. rewrite N.eqb_refl. simpl. apply IH; auto.
Qed.

Lemma existsb_beqb : forall n l, existsb (beqb n) l = true <-> In n l.
Proof.
  intros n l. rewrite existsb_exists. split.
  - intros [y [Hy E]]. apply beqb_eq in E; subst; auto.
  - intros H. exists n; split; auto. apply beqb_eq; auto.
Qed.

Lemma alt_names_in : forall rows x n, In n (alt_names rows x) <-> exists c, In (x, n, c) rows /\ beqb c sci_class = false.
Proof.
  intros rows x n. unfold alt_names. rewrite in_map_iff. split.
  - intros [[[k m] c] [E H]]. simpl in E; subst m. apply filter_In in H. destruct H as [H C]. unfold is_sci in C; simpl in C.
    apply andb_prop in C. destruct C as [C1 C2]. apply N.eqb_eq in C2; subst k. exists c. split; auto.
    destruct (beqb c sci_class); [discriminate|auto].
  - intros [c [H C]]. exists (x, n, c). split; auto. apply filter_In. split; auto. unfold is_sci; simpl. rewrite C, N.eqb_refl. reflexivity.
Qed.

Lemma names_found : forall rows x n sn, sci_name rows x = Some sn ->
  (name_equal rows x n = Some true <-> (sn = n \/ exists c, In (x, n, c) rows /\ beqb c sci_class = false)).
Proof.
  intros rows x n sn H. unfold name_equal. rewrite H. split.
  - intros E. inversion E as [E']. apply orb_prop in E'. destruct E' as [E'|E'].
    + left. apply beqb_eq; auto.
    + right. apply alt_names_in. apply existsb_beqb; auto.
  - intros [->|Hin]; f_equal.
    + replace (beqb n n) with true by (symmetry; apply beqb_eq; auto). reflexivity.
    + apply orb_true_iff. right. apply existsb_beqb. apply alt_names_in; auto.
Qed.

(** IsNameMatching, for any regexp oracle [rm]: true iff the pattern matches the scientific name or one of the listed alternate names *)
Lemma names_matching : forall (P : Type) (rm : P -> bstr -> bool) rows x pat sn, sci_name rows x = Some sn ->
  (name_matching rm rows x pat = Some true <->
   (rm pat sn = true \/ exists n c, In (x, n, c) rows /\ beqb c sci_class = false /\ rm pat n = true)).
Proof.
  intros P rm rows x pat sn H. unfold name_matching. rewrite H. split.
  - intros E. injection E as E'. apply orb_prop in E'. destruct E' as [E'|E'].
    + left; exact E'.
    + right. apply existsb_exists in E'. destruct E' as [n [Hn Hm]]. apply alt_names_in in Hn. destruct Hn as [c [Hc Hs]]. eauto.
  - intros [Hs|[n [c [Hin [Hc Hm]]]]]; f_equal; apply orb_true_iff.
    + left; exact Hs.
    + right. apply existsb_exists. exists n. split; auto. apply alt_names_in; eauto.
Qed.

(** the scientific name of a taxon is the name of the LAST row of class "scientific name" for it; none iff no such row *)
Lemma sci_name_last : forall rows x,
  match sci_name rows x with
  | Some sn => exists l1 l2 c, rows = l1 ++ (x, sn, c) :: l2 /\ beqb c sci_class = true /\
                               forall r, In r l2 -> (is_sci r && (fst (fst r) =? x))%bool = false
  | None => forall r, In r rows -> (is_sci r && (fst (fst r) =? x))%bool = false
  end.
Proof.
  intros rows x. unfold sci_name.
  assert (G : forall rows acc,
    match fold_left (fun acc (r : name_row) => if (is_sci r && (fst (fst r) =? x))%bool then Some (snd (fst r)) else acc) rows acc with
    | Some sn => (acc = Some sn /\ forall r, In r rows -> (is_sci r && (fst (fst r) =? x))%bool = false) \/
                 exists l1 l2 c, rows = l1 ++ (x, sn, c) :: l2 /\ beqb c sci_class = true /\
                               forall r, In r l2 -> (is_sci r && (fst (fst r) =? x))%bool = false
    | None => acc = None /\ forall r, In r rows -> (is_sci r && (fst (fst r) =? x))%bool = false
    end).
  { clear rows. induction rows as [|[[k n] c] rows IH]; intros acc; simpl.
    - destruct acc; [left|]; split; auto; intros r [].
    - specialize (IH (if (is_sci (k, n, c) && (k =? x))%bool then Some n else acc)).
      destruct (fold_left _ rows _) as [sn|] eqn:F.
      + destruct IH as [[E Hn]|[l1 [l2 [c' [E [Hc Hn]]]]]].
        * destruct (is_sci (k, n, c) && (k =? x))%bool eqn:C.
          -- inversion E; subst. right. apply andb_prop in C. destruct C as [C1 C2]. apply N.eqb_eq in C2; subst k.
             exists [], rows, c. split; auto.
          -- left. split; auto. intros r [<-|Hr]; auto.
        * right. exists ((k, n, c) :: l1), l2, c'. subst rows. split; auto.
      + destruct IH as [E Hn]. destruct (is_sci (k, n, c) && (k =? x))%bool eqn:C; [discriminate|].
        split; auto. intros r [<-|Hr]; auto. }
  specialize (G rows None). destruct (fold_left _ rows None) as [sn|].
  - destruct G as [[E _]|G]; [discriminate|auto].
  - destruct G; auto.
Qed.

(** ** One line of names.dmp *)
Definition no_bar (s : list N) : Prop := forall c, In c s -> c <> 124.
Definition tight (s : list N) : Prop := match s with [] => True | c :: _ => is_space c = false end /\
                                        match rev s with [] => True | c :: _ => is_space c = false end.

Lemma split_bar_app : forall a b cur, no_bar a -> split_bar (a ++ 124 :: b) cur = (rev cur ++ a) :: split_bar b [].
Proof.
  induction a as [|c a IH]; intros b cur H; cbn [app split_bar].
  - rewrite N.eqb_refl, app_nil_r. reflexivity.
  - assert (E : (c =? 124) = false) by (apply N.eqb_neq; apply H; left; auto). rewrite E.
    rewrite IH by (intros x Hx; apply H; right; auto). cbn [rev]. rewrite <- app_assoc. reflexivity.
Qed.

Lemma split_bar_last : forall a cur, no_bar a -> split_bar a cur = [rev cur ++ a].
Proof.
  induction a as [|c a IH]; intros cur H; cbn [split_bar].
  - rewrite app_nil_r. reflexivity.
  - assert (E : (c =? 124) = false) by (apply N.eqb_neq; apply H; left; auto). rewrite E.
    rewrite IH by (intros x Hx; apply H; right; auto). cbn [rev]. rewrite <- app_assoc. reflexivity.
Qed.

Lemma ltrim_tight : forall s, match s with [] => True | c :: _ => is_space c = false end -> ltrim s = s.
Proof. intros [|c r] H; [reflexivity|]. cbn [ltrim]. rewrite H. reflexivity. Qed.

(** trimming removes the tabs NCBI puts around a field *)
Lemma trim_tabs : forall s (a b : bool), tight s -> trim ((if a then [9] else []) ++ s ++ (if b then [9] else [])) = s.
Proof.
  intros s a b [H1 H2]. unfold trim.
  assert (L1 : ltrim ((if a then [9] else []) ++ s ++ (if b then [9] else [])) = ltrim (s ++ (if b then [9] else []))).
  { destruct a; reflexivity. }
  rewrite L1. destruct s as [|c r].
  - destruct b; reflexivity.
  - assert (L2 : ltrim ((c :: r) ++ (if b then [9] else [])) = (c :: r) ++ (if b then [9] else [])).
    { cbn [app ltrim]. rewrite H1. reflexivity. }
    rewrite L2, rev_app_distr.
    assert (L3 : ltrim (rev (if b then [9] else []) ++ rev (c :: r)) = rev (c :: r)).
    { destruct b; cbn [rev app ltrim]; [change (is_space 9) with true; cbv iota|]; apply ltrim_tight; exact H2. }
    rewrite L3. apply rev_involutive.
Qed.

Lemma digits_tight : forall d, all_digits d = true -> tight d.
Proof.
  intros d A. assert (K : forall c, In c d -> is_space c = false).
  { intros c Hc. destruct d as [|x r]; [destruct Hc|]. unfold all_digits in A. rewrite forallb_forall in A.
    specialize (A c Hc). unfold is_digit in A. apply andb_prop in A. destruct A as [A1 A2]. apply N.leb_le in A1.
    unfold is_space. repeat (apply orb_false_iff; split); apply N.eqb_neq; lia. }
  split.
  - destruct d as [|c r]; [exact I|]. apply K; left; auto.
  - destruct (rev d) as [|c r] eqn:E; [exact I|]. apply K. apply in_rev. rewrite E. left; auto.
Qed.

(** a line in the NCBI layout "taxid \t|\t name \t|\t unique name \t|\t class \t|" is read back as (taxid, name, class) *)
Lemma parse_name_line_ncbi : forall d name uniq class,
  all_digits d = true -> (digits_val 0 d < int_lim)%Z -> no_bar name -> no_bar uniq -> no_bar class -> tight name -> tight class ->
  parse_name_line (d ++ [9] ++ 124 :: ([9] ++ name ++ [9]) ++ 124 :: ([9] ++ uniq ++ [9]) ++ 124 :: ([9] ++ class ++ [9]) ++ 124 :: [])
  = Some (digits_val 0 d, name, class).
Proof.
  intros d name uniq class A L Nn Nu Nc Tn Tc. unfold parse_name_line.
  assert (Nb : forall s, no_bar s -> no_bar ([9] ++ s ++ [9])).
  { intros s H c Hc. cbn [app] in Hc. destruct Hc as [<-|Hc]; [discriminate|]. apply in_app_or in Hc. destruct Hc as [Hc|[<-|[]]]; [auto|discriminate]. }
  assert (Nd : no_bar (d ++ [9])).
  { intros c Hc. apply in_app_or in Hc. destruct Hc as [Hc|[<-|[]]]; [|discriminate].
    destruct d as [|x r]; [destruct Hc|]. unfold all_digits in A. rewrite forallb_forall in A. specialize (A c Hc).
    unfold is_digit in A. apply andb_prop in A. destruct A as [_ A2]. apply N.leb_le in A2. lia. }
  rewrite app_assoc. rewrite (split_bar_app (d ++ [9]) _ [] Nd).
  rewrite (split_bar_app _ _ [] (Nb name Nn)), (split_bar_app _ _ [] (Nb uniq Nu)), (split_bar_app _ _ [] (Nb class Nc)).
  cbn [rev app].
  pose proof (trim_tabs d false true (digits_tight d A)) as T0. cbn [app] in T0. rewrite T0.
  rewrite (atoi_digits d A L).
  pose proof (trim_tabs name true true Tn) as T1. pose proof (trim_tabs class true true Tc) as T3. cbn [app] in T1, T3.
  rewrite T1, T3. reflexivity.
Qed.

(** ** Clade membership through the LCA: x is in the clade of a iff LCA(x, a) = a *)
Lemma subclade_iff_lca : forall t x a p, wf_tax t -> present t a -> path t x = Some p ->
  (subclade t x a = Some true <-> lca t x a = Some a).
Proof.
  intros t x a p W Pa Hp.
  assert (Px : present t x). { apply path_sound in Hp. inversion Hp; subst; eexists; eauto. }
  destruct (lca_char t x a W Px Pa) as [z [Hz [Pz C]]].
  destruct (subclade_spec t x p a Hp) as [Hs Hm]. rewrite Hs, Hz.
  pose proof (path_sound _ _ _ Hp) as Hip.
  split.
  - intros E. inversion E as [E']. apply Hm in E'. f_equal. apply (anc_antisym t).
    + apply C. split; [exists p; auto|apply present_anc_refl; auto].
    + apply (proj1 (C z) (present_anc_refl _ _ W Pz)).
  - intros E. inversion E; subst z. f_equal. apply Hm.
    destruct (proj1 (proj1 (C a) (present_anc_refl _ _ W Pa))) as [q [Hq Hin]].
    rewrite (is_path_fun _ _ _ Hq _ Hip) in Hin. exact Hin.
Qed.

Lemma lca_idem_path : forall t x p, path t x = Some p -> lca t x x = Some x.
Proof. intros t x p H. eapply lca_idem. apply path_sound; eauto. Qed.
