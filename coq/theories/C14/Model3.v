(** C14, round 3 — executable model of the glue around pkg/obitax: the selection obigrep composes from
    --require-rank / -r (taxid or attribute name) / -i / -v with the nil-neutral combinators of
    obiseq.SequencePredicate, IsAValidTaxon with auto-correction, the annotation workers (taxon at
    rank(s), taxonomic path / rank / scientific name), the attribute names of AddLCAWorker, the name
    index.  Definitions only (no proofs).  Histories of operations on one taxonomy object are judged
    operation by operation with these PURE functions: the model has no state to leak. *)
From Coq Require Import NArith ZArith List Bool FMapPositive.
From Coq Require Import Floats.SpecFloat.
Import ListNotations.
From OBI.C14 Require Import Model.
Open Scope N_scope.

(** ** obiseq.SequencePredicate evaluated on one sequence.  Outer [None]: the nil predicate ("no
    constraint"); inner [None]: the Go code panics (nil parent pointer). *)
Definition pv := option (option bool).
Definition p_and (a b : pv) : pv :=
  match a, b with
  | None, _ => b
  | _, None => a
  | Some x, Some y => Some (match x with None => None | Some false => Some false | Some true => y end)
  end.
Definition p_or (a b : pv) : pv :=
  match a, b with
  | None, _ => b
  | _, None => a
  | Some x, Some y => Some (match x with None => None | Some true => Some true | Some false => y end)
  end.
(** Not of the nil predicate rejects every sequence *)
Definition p_not (a : pv) : pv :=
  match a with None => Some (Some false) | Some x => Some (option_map negb x) end.

(** -r VALUE: a taxid (strconv.Atoi succeeds) or the name of an attribute holding the clade (IsSubCladeOfSlot;
    the sequence model has one such attribute, [s_slot]) *)
Inductive rarg := RId (c : N) | RSlot.
Definition rarg_ok (t : tax) (a : rarg) : bool :=
  match a with RId c => is_some (resolve t c) | RSlot => true end.
Definition rarg_pred (t : tax) (s : seq) (a : rarg) : option bool :=
  match a with
  | RId c => match resolve t c with None => None | Some x => seq_in_clade t s x end
  | RSlot => match s_slot s with
             | None => Some false
             | Some f => match taxon_of t f, resolve t (seq_taxid s) with
                         | Some p, Some x => subclade t x p
                         | _, _ => Some false
                         end
             end
  end.
Definition fold_or (l : list (option bool)) : pv := fold_left (fun acc x => p_or acc (Some x)) l None.
Definition fold_and (l : list (option bool)) : pv := fold_left (fun acc x => p_and acc (Some x)) l None.

Record gopts := mkgopts { g_require : list N; g_restrict : list rarg; g_ignore : list N; g_invert : bool }.

(** log.Fatalf while the predicates are built: a rank no taxon carries, an unknown clade taxid *)
Definition g_fatal (t : tax) (g : gopts) : bool :=
  negb (forallb (rank_listed t) (g_require g) && forallb (rarg_ok t) (g_restrict g) &&
        forallb (fun c => is_some (resolve t c)) (g_ignore g)).

Definition seq_has_rank (t : tax) (s : seq) (r : N) : option bool :=
  match resolve t (seq_taxid s) with None => Some false | Some x => has_rank t x r end.
Definition seq_in_clade_id (t : tax) (s : seq) (c : N) : option bool :=
  match resolve t c with None => None | Some x => seq_in_clade t s x end.

(** CLIHasRankDefinedPredicate().And(CLIRestrictTaxonomyPredicate()).And(CLIAvoidTaxonomyPredicate()), then -v *)
Definition p_require (t : tax) (s : seq) (g : gopts) : pv := fold_and (map (seq_has_rank t s) (g_require g)).
Definition p_restrict (t : tax) (s : seq) (g : gopts) : pv := fold_or (map (rarg_pred t s) (g_restrict g)).
Definition p_ignore (t : tax) (s : seq) (g : gopts) : pv :=
  match g_ignore g with [] => None | l => p_not (fold_or (map (seq_in_clade_id t s) l)) end.
Definition p_select (t : tax) (s : seq) (g : gopts) : pv :=
  let p := p_and (p_and (p_require t s g) (p_restrict t s g)) (p_ignore t s g) in
  if g_invert g then p_not p else p.
(** 1 selected, 0 discarded, -3 the command stops (fatal / panic) *)
Definition grep_sel (t : tax) (g : gopts) (s : seq) : Z :=
  if g_fatal t g then (-3)%Z else
  match p_select t s g with
  | None => 1%Z
  | Some None => (-3)%Z
  | Some (Some b) => zb b
  end.

(** ** IsAValidTaxon(autocorrection): the taxid attribute is rewritten when it designates a taxon through an alias *)
Definition with_taxid (s : seq) (x : N) : seq :=
  mkseq (Some x) (s_merged s) (s_restrict s) (s_ignore s) (s_require s) (s_atrank s) (s_slot s) (s_obs s) (s_thr s) (s_notax s).
(** BioSequence.SetTaxid: a taxid below 1 becomes 1 *)
Definition set_taxid (s : seq) (x : N) : seq := with_taxid s (if x <? 1 then 1 else x).
Definition valid_taxon (t : tax) (auto : bool) (s : seq) : bool * seq :=
  match resolve t (seq_taxid s) with
  | None => (false, s)
  | Some x => (true, if (auto && negb (x =? seq_taxid s))%bool then set_taxid s x else s)
  end.

(** ** Annotations.  Names as loaded (Model.load_names); a taxon without scientific name prints "" *)
Definition sci_or_empty (names : list name_row) (x : N) : bstr :=
  match sci_name names x with Some n => n | None => [] end.
(** SetTaxonAtRank: (<rank>_taxid, <rank>_name); None = nothing is written (unknown taxid); taxid -1 and
    name "NA" when no ancestor carries the rank.  Outer None: the Go code panics. *)
Definition na_name : bstr := [78; 65].
Definition rank_annot (t : tax) (names : list name_row) (s : seq) (r : N) : option (option (Z * bstr)) :=
  match resolve t (seq_taxid s) with
  | None => Some None
  | Some x => match at_rank t x r with
              | None => None
              | Some None => Some (Some ((-1)%Z, na_name))
              | Some (Some z) => Some (Some (Z.of_N z, sci_or_empty names z))
              end
  end.
(** SetPath: the lineage ROOT FIRST, one (taxid, scientific name, rank) per taxon; None = log.Fatalf (unknown taxid) or panic *)
Definition path_annot (t : tax) (names : list name_row) (s : seq) : option (list (N * bstr * N)) :=
  match resolve t (seq_taxid s) with
  | None => None
  | Some x => match path t x with
              | None => None
              | Some p => Some (map (fun w => (w, sci_or_empty names w, match rank_of t w with Some r => r | None => 0 end)) (rev p))
              end
  end.
Definition sci_annot (t : tax) (names : list name_row) (s : seq) : option bstr :=
  option_map (sci_or_empty names) (resolve t (seq_taxid s)).
Definition trank_annot (t : tax) (s : seq) : option N :=
  match resolve t (seq_taxid s) with None => None | Some x => rank_of t x end.

(** the path attribute as bytes: taxid@name@rank joined with '|' (fields given as byte strings) *)
Definition path_field := (bstr * bstr * bstr)%type.
Definition render_entry (e : path_field) : bstr := fst (fst e) ++ 64 :: snd (fst e) ++ 64 :: snd e.
Fixpoint render_path (l : list path_field) : bstr :=
  match l with
  | [] => []
  | [e] => render_entry e
  | e :: r => render_entry e ++ 124 :: render_path r
  end.
(** reading it back: split on '|', then each entry on '@' *)
Fixpoint split_on (sep : N) (s cur : list N) : list (list N) :=
  match s with
  | [] => [rev cur]
  | c :: r => if c =? sep then rev cur :: split_on sep r [] else split_on sep r (c :: cur)
  end.
Definition parse_entry (e : bstr) : option path_field :=
  match split_on 64 e [] with [a; b; c] => Some (a, b, c) | _ => None end.
Fixpoint all_some {A} (l : list (option A)) : option (list A) :=
  match l with
  | [] => Some []
  | Some x :: r => option_map (cons x) (all_some r)
  | None :: _ => None
  end.
Definition parse_path (s : bstr) : option (list path_field) :=
  match s with [] => Some [] | _ => all_some (map parse_entry (split_on 124 s [])) end.

(** ** AddLCAWorker(slot): names of the three attributes (strings.HasSuffix, strings.Replace(.., 1)) *)
Fixpoint has_prefix (p s : bstr) : bool :=
  match p, s with
  | [], _ => true
  | a :: p', b :: s' => ((a =? b) && has_prefix p' s')%bool
  | _ :: _, [] => false
  end.
Definition has_suffix (p s : bstr) : bool := has_prefix (rev p) (rev s).
(** first occurrence of [old] in [s]: what is before and after it *)
Fixpoint find1 (old s : bstr) : option (bstr * bstr) :=
  if has_prefix old s then Some ([], skipn (length old) s) else
  match s with
  | [] => None
  | c :: r => match find1 old r with Some (a, b) => Some (c :: a, b) | None => None end
  end.
Definition replace1 (old new s : bstr) : bstr :=
  match find1 old s with Some (a, b) => a ++ new ++ b | None => s end.
Definition taxid_s : bstr := [116; 97; 120; 105; 100].
Definition error_s : bstr := [101; 114; 114; 111; 114].
Definition name_s : bstr := [110; 97; 109; 101].
Definition utaxid_s : bstr := 95 :: taxid_s.
Definition lca_error_s : bstr := [108; 99; 97; 95] ++ error_s.
Definition scientific_name_s : bstr := [115; 99; 105; 101; 110; 116; 105; 102; 105; 99; 95] ++ name_s.
Definition lca_slot (slot : bstr) : bstr := if has_suffix taxid_s slot then slot else slot ++ utaxid_s.
(** (taxid key, name key, error key) *)
Definition lca_keys (slot : bstr) : bstr * bstr * bstr :=
  let s := lca_slot slot in
  let e := replace1 taxid_s error_s s in
  let n := replace1 taxid_s name_s s in
  (s, if beqb n name_s then scientific_name_s else n, if beqb e error_s then lca_error_s else e).

(** ** The name index (Taxonomy.Index): taxids of the NODES that have a loaded row with that name (rows are
    read before merged.dmp: an alias or an unknown taxid designates nobody) *)
Definition name_index (t : tax) (names : list name_row) (n : bstr) : list N :=
  map (fun r : name_row => fst (fst r)) (filter (fun r : name_row => (beqb (snd (fst r)) n && is_some (get t (fst (fst r))))%bool) names).
Definition subset (a b : list N) : bool := forallb (fun x => mem x b) a.
Definition same_set (a b : list N) : bool := (subset a b && subset b a)%bool.

(** ** Correspondence of the round-3 observations *)
Inductive extq :=
| XGrep (g : gopts) (obs : list (seq * Z))                      (* obigrep run / in-process composition: per sequence 1 | 0, -3 for a failed command *)
| XValid (s : seq) (auto : bool) (ok : Z) (after : Z)           (* after: the taxid attribute afterwards, -9 absent *)
| XRanks (s : seq) (checked : bool) (rs : list (N * option (Z * bstr))) (fatal : bool)   (* per rank: attributes written or none; checked: the constructor refuses a rank no taxon carries *)
| XPath (s : seq) (obs : option (list (Z * bstr * N)))         (* None: the worker stopped the program *)
| XSci (s : seq) (obs : option bstr)
| XTrank (s : seq) (obs : option N)
| XKeys (slot k1 k2 k3 : bstr)
| XThr (s : seq) (q : spec_float * list (Z * spec_float * Z))  (* Taxonomy.LCA inside a history *)
| XLcaW (s : seq) (thr : spec_float) (obs : Z)                  (* taxid written by AddLCAWorker, -3 panic *)
| XIndex (n : bstr) (obs : list N)
| XPathStr (l : list path_field) (obs : bstr).                  (* the taxonomic_path attribute, byte for byte *)

Definition opt_zb_eqb (a b : option (Z * bstr)) : bool :=
  match a, b with
  | None, None => true
  | Some (x, n), Some (y, m) => (Z.eqb x y && beqb n m)%bool
  | _, _ => false
  end.
Definition triple_eqb (a : N * bstr * N) (b : Z * bstr * N) : bool :=
  (Z.eqb (Z.of_N (fst (fst a))) (fst (fst b)) && beqb (snd (fst a)) (snd (fst b)) && (snd a =? snd b))%bool.
Fixpoint list_eqb {A B} (f : A -> B -> bool) (a : list A) (b : list B) : bool :=
  match a, b with
  | [], [] => true
  | x :: a', y :: b' => (f x y && list_eqb f a' b')%bool
  | _, _ => false
  end.
Definition obstr_eqb (a b : option bstr) : bool :=
  match a, b with None, None => true | Some x, Some y => beqb x y | _, _ => false end.
Definition on_eqb (a b : option N) : bool :=
  match a, b with None, None => true | Some x, Some y => x =? y | _, _ => false end.

Definition ext_ok (t : tax) (names : list name_row) (q : extq) : bool :=
  match q with
  | XGrep g obs => forallb (fun so : seq * Z => zeqn (grep_sel t g (fst so)) (snd so)) obs
  | XValid s auto ok after =>
      let '(b, s') := valid_taxon t auto s in
      (Z.eqb ok (zb b) && Z.eqb after (match s_taxid s' with Some x => Z.of_N x | None => (-9)%Z end))%bool
  | XRanks s checked rs fatal =>
      (* the worker stops the program when its constructor refuses the rank, or when the walk up the tree meets a
         missing parent (a row outside the tree) before it finds the rank *)
      let refused := (checked && negb (forallb (fun q : N * option (Z * bstr) => rank_listed t (fst q)) rs))%bool in
      let panics := existsb (fun q : N * option (Z * bstr) => match rank_annot t names s (fst q) with None => true | Some _ => false end) rs in
      (Bool.eqb fatal (refused || panics) &&
       (fatal || forallb (fun q : N * option (Z * bstr) =>
                      match rank_annot t names s (fst q) with Some a => opt_zb_eqb a (snd q) | None => false end) rs))%bool
  | XPath s obs =>
      match path_annot t names s, obs with
      | None, None => true
      | Some l, Some o => list_eqb triple_eqb l o
      | _, _ => false
      end
  | XSci s obs => obstr_eqb (sci_annot t names s) obs
  | XTrank s obs => on_eqb (trank_annot t s) obs
  | XKeys slot k1 k2 k3 => let '(a, b, c) := lca_keys slot in (beqb a k1 && beqb b k2 && beqb c k3)%bool
  | XThr s q => thr_ok t s q
  | XLcaW s thr obs =>
      match wlcad (sc_b64 thr) t (seq_dist0 s) with
      | None => Z.eqb obs (-3)
      | Some l => existsb (fun x : option N * spec_float * Z =>
                             match fst (fst x) with Some z => Z.eqb (Z.of_N z) obs | None => Z.eqb obs (-3) end) l
      end
  | XIndex n obs => same_set (name_index t names n) obs
  | XPathStr l obs => (beqb (render_path l) obs && match parse_path obs with Some l' => list_eqb (fun a b : path_field =>
                         (beqb (fst (fst a)) (fst (fst b)) && beqb (snd (fst a)) (snd (fst b)) && beqb (snd a) (snd b))%bool) l l' | None => false end)%bool
  end.

Record xcase := mkx {
  x_nodes : list (N * N * N);
  x_merged : list (N * N);
  x_onlysn : bool;
  x_names : list name_row;
  x_queries : list extq
}.
Definition xcase_ok (c : xcase) : bool :=
  let t := load (x_nodes c) (x_merged c) in
  forallb (ext_ok t (load_names (x_onlysn c) (x_names c))) (x_queries c).
Fixpoint xmism_from (i : nat) (cs : list xcase) : list nat :=
  match cs with
  | [] => []
  | c :: r => if xcase_ok c then xmism_from (S i) r else i :: xmism_from (S i) r
  end.
Definition mismatches3 (cs : list xcase) : list nat := xmism_from 0 cs.
