(** C07 — property theorems (statements only; proofs in Proofs.v).
    Reverse complement, subsequence and copy obey their algebraic laws. *)
From Coq Require Import NArith ZArith List Bool.
From OBI.C07.Gen Require Import Tables.
From OBI.C07 Require Import Model Proofs Heap HeapProofs Trace Proofs2 Proofs3.
Import ListNotations.
Open Scope N_scope.

(** ================= complement tables (regenerated from the current build on every run) *)

(** The model's [comp] IS the code's nucComplement: it reproduces the dump of nucComplement over every
    byte 0..255 taken from the current build (regenerated Gen/Tables.v). *)
Theorem C07_comp_model_is_code : map comp (nrange 256 0) = seq_comp_tab.
Proof. exact comp_model_is_code. Qed.

(** On acgtrymkswbdhvn.-[] the complement is the IUPAC complement, symbol by symbol ... *)
Theorem C07_comp_is_iupac_complement : map comp iupac = spec_comp_iupac.
Proof. exact comp_spec_on_iupac. Qed.

(** ... and an involution of that alphabet. *)
Theorem C07_comp_involutive_on_iupac : forall c, In c iupac -> comp (comp c) = c /\ In (comp c) iupac.
Proof. exact comp_involutive_on_iupac. Qed.

(** The three tables (obiseq, obikmer.revcompnuc, the C table of obiapat) agree on every IUPAC letter. *)
Theorem C07_tables_agree : forall c, In c iupac_letters ->
  lookup c kmer_tab = Some (comp c) /\ lookup c apat_tab = Some (comp c).
Proof. exact tables_agree. Qed.

(** 'u' is mapped to 'a' by all three tables and is therefore outside the involution (stated). *)
Theorem C07_u_outside_involution :
  comp 117 = 97 /\ lookup 117 kmer_tab = Some 97 /\ lookup 117 apat_tab = Some 97 /\ comp (comp 117) <> 117.
Proof. exact u_maps_to_a. Qed.

(** Upper-case IUPAC letters (the aligner writes the keys of pairing_mismatches in upper case) are
    complemented like their lower-case form (the result is lower case: reverse-complementing such a key
    twice restores it up to the case of its two letters). *)
Theorem C07_comp_upper_case : forall c, In c iupac_letters -> comp (c - 32) = comp c.
Proof. exact comp_upper_case. Qed.

(** ================= the in-place loop *)

(** The swap-and-complement index loop of ReverseComplement computes rev (map comp s) for every
    length (0, 1, odd, even) ... *)
Theorem C07_rc_loop_is_rc : forall s, rc_loop s = rev (map comp s).
Proof. exact rc_loop_is_rc. Qed.

(** ... and the same loop without complement (qualities) reverses. *)
Theorem C07_quality_loop_is_rev : forall q, run_loop (fun x => x) (length q) q = rev q.
Proof. intros q. rewrite run_loop_rev. rewrite map_id. reflexivity. Qed.

(** ================= involution, with qualities and mismatch positions *)

Theorem C07_rc_involutive_seq : forall s, on_iupac s -> rc (rc s) = s /\ on_iupac (rc s).
Proof. exact rc_involutive. Qed.

(** ReverseComplement as the objects run it (loop on symbols, loop on qualities, _revcmpMutation) succeeds
    and, applied twice, restores symbols, qualities and pairing_mismatches (keys (x:dd)->(y:dd) whose
    letters are lower-case IUPAC; the code lower-cases upper-case letters of the keys: stated). *)
Theorem C07_rc_involutive : forall v, on_iupac (vseq v) -> qual_ok v -> omm_ok (vmm v) ->
  exists w, rc_val v = Ok w /\ rc_val w = Ok v.
Proof. exact rc_val_involutive. Qed.

(** ================= subsequence laws *)

(** rc (sub s f t) = sub (rc s) (|s|-t) (|s|-f) on symbols ... *)
Theorem C07_rc_of_sub_seq : forall s f t, (0 <= f <= t)%Z -> (t <= Z.of_nat (length s))%Z ->
  slice (rc s) (Z.of_nat (length s) - t) (Z.of_nat (length s) - f) = rc (slice s f t).
Proof. exact rc_of_slice. Qed.

(** ... and on whole values through the model of Subsequence / ReverseComplement: both sides succeed and
    give the same symbols, qualities and mismatch positions, for every 0 <= f < t <= |s|. *)
Theorem C07_rc_of_sub : forall v f t, let len := Z.of_nat (length (vseq v)) in
  (0 <= f < t)%Z -> (t <= len)%Z -> length (vqual v) = length (vseq v) \/ vqual v = [] -> omm_ok (vmm v) ->
  exists w rw rv, sub_val v f t false = Ok w /\ rc_val w = Ok rw /\ rc_val v = Ok rv /\
                  sub_val rv (len - t) (len - f) false = Ok rw.
Proof. exact rc_of_sub_val. Qed.

(** Circular window, exact accepted domain: for |s| > 0, from >= 0, to >= 0 (to = 0 and from >= |s| included)
    the code neither fails nor panics and returns the window of s ++ s starting at from mod |s| with
    ((to - from - 1) mod |s|) + 1 symbols. (|s| = 0 panics — integer divide by zero —, from < 0 is an error,
    to < 0 panics for most values: [sub_window] models these, the harness exercises them.) *)
Theorem C07_circular_window : forall (s : list N) from to, let len := Z.of_nat (length s) in
  (0 < len)%Z -> (0 <= from)%Z -> (0 <= to)%Z ->
  exists f1 t1, (sub_window len from to true = Ok (f1, t1)) /\ (f1 = from mod len)%Z /\
    (window s len f1 t1 = firstn (Z.to_nat ((to - from - 1) mod len + 1)) (skipn (Z.to_nat (from mod len)) (s ++ s))).
Proof. exact (circular_window N). Qed.

Theorem C07_circular_subsequence : forall v from to, let len := Z.of_nat (length (vseq v)) in
  (0 < len)%Z -> (0 <= from)%Z -> (0 <= to)%Z -> vqual v = [] \/ length (vqual v) = length (vseq v) ->
  let n := Z.to_nat ((to - from - 1) mod len + 1) in let f1 := Z.to_nat (from mod len) in
  exists w, sub_val v from to true = Ok w /\
            vseq w = firstn n (skipn f1 (vseq v ++ vseq v)) /\
            vqual w = firstn n (skipn f1 (vqual v ++ vqual v)).
Proof. exact circular_sub_val. Qed.

Theorem C07_circular_guard_empty : forall from to, (0 <= from)%Z -> sub_window 0 from to true = Panic.
Proof. intros from to H. unfold sub_window. cbn [negb]. rewrite !andb_false_r.
  destruct (from <? 0)%Z eqn:E; [apply Z.ltb_lt in E; contradiction (Zlt_not_le _ _ E H)|]. reflexivity. Qed.

(** ================= coordinates of pairing_mismatches *)

(** _subseqMutation on a linear window: positions in (f, t] become p - f, the others disappear. *)
Theorem C07_mutation_coordinates_sub : forall f t len m, (0 <= f < t)%Z -> (t <= len)%Z ->
  sub_mm f len (t - f) m = flat_map (fun kp => if ((f <? snd kp) && (snd kp <=? t))%Z then [(fst kp, (snd kp - f)%Z)] else []) m.
Proof. exact sub_mm_linear_spec. Qed.

(** ... and on ANY window Subsequence builds (start f1, n symbols, possibly wrapping over the end of a
    sequence of len symbols): p lands at p - f1 right of the start, at p + len - f1 when the window wraps
    around to it, and disappears otherwise. *)
Theorem C07_mutation_coordinates_window : forall f1 len n m, (0 <= f1 < len)%Z -> (1 <= n <= len)%Z ->
  sub_mm f1 len n m = flat_map (fun kp =>
    let p := snd kp in
    if ((1 <=? p) && (p <=? len))%Z then
      if ((f1 <? p) && (p - f1 <=? n))%Z then [(fst kp, (p - f1)%Z)]
      else if ((p <=? f1) && (p + len - f1 <=? n))%Z then [(fst kp, (p + len - f1)%Z)] else []
    else []) m.
Proof. exact sub_mm_window_spec. Qed.

(** p |-> |s| - p + 1 under rc is an involution on well-formed keys. *)
Theorem C07_mutation_coordinates_rc : forall len m, mm_ok m -> rc_mm len (rc_mm len m) = m /\ mm_ok (rc_mm len m).
Proof. exact rc_mm_involutive. Qed.

(** The coordinate maps commute with the two laws above. *)
Theorem C07_mutation_coordinates_commute : forall f t len m, (0 <= f < t)%Z -> (t <= len)%Z ->
  rc_mm (t - f) (sub_mm f len (t - f) m) = sub_mm (len - t) len (t - f) (rc_mm len m).
Proof. exact mm_commute. Qed.

(** ================= no shared mutable state *)

(** Ownership model (Heap.v): objects own buffers in a heap, derived objects (Copy, Subsequence, fresh
    ReverseComplement, SetSequence, SetQualities) take their buffers from a pool that hands out ANY free
    buffer or a fresh one, Recycle returns the buffers of an object to the pool, pool churn scribbles over
    pooled buffers, in-place operations write through the object's own buffers. For EVERY history and
    EVERY hand-out order, every step answers what the value semantics [run] of Model.v answers (status,
    result register, aliased register) and every register reads the value predicted by the value semantics:
    modifying or recycling one object never changes another. ([run] is what the real objects are compared
    with after every history by the correspondence check.)
    Features (third buffer, SetFeatures adopts the caller's slice and gives the old one to the pool) and the
    mate link (PairTo / UnPair; a field, not a buffer) are part of the objects.
    Not modelled: sync.Pool itself — the model covers every hand-out order, and the REAL hand-out order of
    every history the check runs is validated against it (Trace.v, theorem C07_trace_accepted_is_value_run). *)
Theorem C07_no_shared_state : forall ops,
  let '(rs, cs) := crun cst0 ops in let '(rs', st) := run st0 (map abs_op ops) in
  rs = rs' /\ forall r, cval_of cs r = val_of st r.
Proof. exact no_shared_state. Qed.

(** the invariant behind it, preserved by every step: distinct live objects own distinct buffers, none of
    them in the pool *)
Theorem C07_ownership_invariant : forall ops cs st, inv cs st ->
  fst (crun cs ops) = fst (run st (map abs_op ops)) /\ inv (snd (crun cs ops)) (snd (run st (map abs_op ops))).
Proof. exact sim_run. Qed.

(** the pre-repair SetQualities (pool keeps the address of the live field) breaks it *)
Theorem C07_setqualities_orig_refuted :
  let '(_, cs1) := cstep cst0 (CNew [97;99;103;116] [1;2;3;4] None [] true CFresh CFresh CFresh) in
  let cs2 := csetqual_orig cs1 0 [5;6;7;8] CFresh in
  let '(_, cs3) := cstep cs2 (CNew [103;103;103;103] [] None [] true (CPool 0) CFresh CFresh) in
  cval_of cs2 0 = Some (mkv [97;99;103;116] [5;6;7;8] None [] None) /\
  cval_of cs3 0 = Some (mkv [97;99;103;116] [103;103;103;103] None [] None).
Proof. exact setqualities_orig_refuted. Qed.

(** non-vacuity of the ownership model: a history with recycling, a pooled hand-out, an in-place reverse
    complement and a poke, on which the derived objects keep their values *)
Example C07_ownership_nonvacuous :
  let ops := [CNew [97;99;103;116] [1;2;3;4] None [70;84] true CFresh CFresh CFresh; CCopy 0 CFresh CFresh CFresh; CRecycle 0;
              CSub 1 1 3 false (CPool 0) (CPool 0) (CPool 0); CRc 2 true CFresh CFresh CFresh; CPoke 1 0 116; CChurn 0 [219;219];
              CJoin 1 2 false CFresh (CPool 0) CFresh; CPair 1 2; CSetFeat 1 [88] (CPool 0); CRecycle 2] in
  let '(_, cs) := crun cst0 ops in
  cval_of cs 0 = None /\ cval_of cs 1 = Some (mkv [116;99;103;116] [1;2;3;4] None [88] (Some 2%nat)) /\
  cval_of cs 2 = None /\ cval_of cs 3 = None /\
  cval_of cs 4 = Some (mkv [116;99;103;116;99;103] [1;2;3;4;3;2] None [70;84] None).
Proof. vm_compute. repeat split; reflexivity. Qed.

(** ================= the code before the repairs violates the property (witnesses replayed by the corpus) *)
Theorem C07_subseq_mutation_orig_refuted :
  exists m f t len, (0 <= f < t)%Z /\ (t <= len)%Z /\
    sub_mm_orig f (t - f) m <> flat_map (fun kp => if ((f <? snd kp) && (snd kp <=? t))%Z then [(fst kp, (snd kp - f)%Z)] else []) m /\
    sub_mm_orig f (t - f) m = [(k2, (-35)%Z)].
Proof. exact subseq_mutation_orig_refuted. Qed.

Theorem C07_backlink_orig_refuted :
  let st1 := lnew (mkl [] []) [97;97;99;99] in
  let '(_, st2) := lrc st1 0 in
  let st3 := lsetseq st2 1 [116;116;116;116] in
  let '(o, st4) := lrc st3 1 in
  o = nth 0 (lregs st4) 0%nat /\ lread st4 2 = [97;97;99;99] /\ lread st4 2 <> rc [116;116;116;116].
Proof. exact backlink_orig_refuted. Qed.

(** non-vacuity: a value with all symbols, qualities and two mismatches meets every hypothesis above *)
Example C07_nonvacuous :
  let v := mkv iupac (nrange 19 0) (Some [([40;97;58;51;48;41;45;62;40;99;58;50;48;41], 5%Z); ([40;103;58;49;50;41;45;62;40;116;58;48;55;41], 19%Z)]) [70;84] None in
  on_iupac (vseq v) /\ qual_ok v /\ omm_ok (vmm v) /\ In 114 iupac_letters /\
  sub_val v 17 3 true = Ok (mkv [91;93;97;99;103] [17;18;0;1;2] (Some [([40;103;58;49;50;41;45;62;40;116;58;48;55;41], 2%Z)]) [] None).
Proof.
  cbn zeta. split; [|split; [|split; [|split]]].
  - unfold on_iupac. cbn [vseq]. apply (proj2 (Forall_forall _ _)). intros x Hx. exact Hx.
  - unfold qual_ok. right. vm_compute. reflexivity.
  - cbn [vmm omm_ok]. unfold mm_ok. constructor; [|constructor; [|constructor]]; (split; [reflexivity|split; cbn; auto 25]).
  - cbn. auto 20.
  - vm_compute. reflexivity.
Qed.

(** ================= round 2 *)

(** EXACT involution domain. Over IUPAC symbols of either case (upper case is reachable through Write /
    WriteString / WriteByte only: NewBioSequence and SetSequence lower-case their input, nucComplement always
    answers lower case) a double reverse complement LOWER-CASES: it restores s exactly when s is over the
    lower-case alphabet acgtrymkswbdhvn.-[] of the property. *)
Theorem C07_rc_involution_domain : forall s, on_iupac_any_case s ->
  rc (rc s) = to_lower s /\ on_iupac (to_lower s) /\ (rc (rc s) = s <-> on_iupac s).
Proof. exact rc_involution_domain. Qed.

(** Join: reverse complement of a concatenation; the joined object keeps one score per symbol (repaired
    code: qualities of the second sequence, or the default vector of 40s, are appended) ... *)
Theorem C07_rc_of_join : forall s1 s2, rc (s1 ++ s2) = rc s2 ++ rc s1.
Proof. exact rc_app. Qed.

Theorem C07_join_keeps_qualities : forall v v2, qual_ok v -> qual_ok v2 -> qual_ok (join_val v v2) /\
  vseq (join_val v v2) = vseq v ++ vseq v2 /\ (vqual v <> [] -> vqual v2 <> [] -> vqual (join_val v v2) = vqual v ++ vqual v2).
Proof. exact join_keeps_qual_ok. Qed.

(** ... the code before the repair appended the symbols only: acgt/[1;2;3;4] joined with gg/[7;8] has 6
    symbols and 4 scores (ReverseComplement then indexes the scores out of range). *)
Theorem C07_join_orig_refuted : exists v v2, qual_ok v /\ qual_ok v2 /\ ~ qual_ok (join_val_orig v v2) /\
  join_val_orig v v2 = mkv [97;99;103;116;103;103] [1;2;3;4] None [] None.
Proof. exact join_orig_refuted. Qed.

(** Paired links: Copy, Subsequence, fresh ReverseComplement and fresh Join leave every existing register as
    it was (mate links included) and the object they return has NO mate: derived objects share no link. *)
Theorem C07_derived_objects_share_no_mate : forall st o, wf_state st -> derives o = true ->
  (forall r, (r < length (regs st))%nat -> val_of (snd (step st o)) r = val_of st r) /\
  (forall v, fst (fst (fst (step st o))) = SOk -> val_of (snd (step st o)) (length (regs st)) = Some v -> vmate v = None).
Proof. exact derived_objects. Qed.

(** ... and the hypothesis [wf_state] holds in every state a history reaches. *)
Theorem C07_reachable_states_wf : forall ops, wf_state (snd (run st0 ops)).
Proof. intros ops. apply wf_run. exact wf_st0. Qed.

(** What the code does when a paired object is recycled (recorded, outside the statement: mates are neither
    copies nor subsequences nor reverse complements of each other): the survivor keeps a stale link. *)
Theorem C07_recycled_mate_is_stale :
  let ops := [ONew [97;99] [] None [] true; ONew [103;103] [] None [] true; OPair 0 1; OCopy 0; ORecycle 0] in
  let '(_, st) := run st0 ops in
  snapshot st = [None; Some (mkv [103;103] [] None [] (Some 0%nat), (-2)%Z); Some (mkv [97;99] [] None [] None, (-1)%Z)] /\
  snapshot (snd (step st (OUnpair 1))) = [None; Some (mkv [103;103] [] None [] None, (-1)%Z); Some (mkv [97;99] [] None [] None, (-1)%Z)].
Proof. exact recycled_mate_is_stale. Qed.

(** REAL POOL TRACES. A history whose real Get / Recycle events and buffer identities are accepted by the
    validator Trace.trun (run by vm_compute on every history of every check) is a run [crun] of the
    ownership model with the hand-out choices the real pool made, over the same operations; by
    C07_no_shared_state that run answers and reads what the value semantics answers and reads. *)
Theorem C07_trace_accepted_is_value_run : forall c, tcase_ok c = true ->
  exists cops, map abs_op cops = tops c /\
    let '(rs, cs) := crun cst0 cops in let '(rs', st) := run st0 (tops c) in
    rs = rs' /\ (forall r, cval_of cs r = val_of st r) /\
    list_eqb stepobs_eqb rs (map tres_obs (tsteps c)) = true /\ list_eqb ovalue_eqb (csnapshot cs) (tfinal c) = true.
Proof. exact trace_accepted_is_value_run. Qed.

(** non-vacuity of the validator: a real-looking trace with a reuse (buffer 0 recycled, handed out again) is
    accepted, the same trace where the pool hands out the buffer of a LIVE object is rejected (code 2) *)
Example C07_trace_nonvacuous :
  let ops := [ONew [97;99] [] None [] true; ORecycle 0; ONew [103] [] None [] true] in
  tcase_res (mktc ops [mkts [EvG 0 300] [(0, -1, -1)%Z] (SOk, 0%Z, (-1)%Z) 0%nat; mkts [EvR 0 300] [(-1, -1, -1)%Z] (SOk, (-1)%Z, (-1)%Z) 0%nat;
                       mkts [EvG 0 300] [(-1, -1, -1)%Z; (0, -1, -1)%Z] (SOk, 1%Z, (-1)%Z) 0%nat]
                  [None; Some (mkv [103] [] None [] None, (-1)%Z)]) = inl (0%nat, 1%nat) /\
  tcase_res (mktc [ONew [97;99] [] None [] true; ONew [103] [] None [] true]
                  [mkts [EvG 0 300] [(0, -1, -1)%Z] (SOk, 0%Z, (-1)%Z) 0%nat; mkts [EvG 0 300] [(0, -1, -1)%Z; (0, -1, -1)%Z] (SOk, 1%Z, (-1)%Z) 0%nat]
                  [Some (mkv [103] [] None [] None, (-1)%Z); Some (mkv [103] [] None [] None, (-1)%Z)]) = inr (1%nat, E_NOT_FREE).
Proof. vm_compute. split; reflexivity. Qed.

(** the pre-pool-fix SetFeatures (pool keeps the address of the live field) breaks the features of a live object *)
Theorem C07_setfeatures_orig_refuted :
  let '(_, cs1) := cstep cst0 (CNew [97;99;103;116] [] None [70;84] true CFresh CFresh CFresh) in
  let cs2 := csetfeat_orig cs1 0 [88;89] CFresh in
  let '(_, cs3) := cstep cs2 (CNew [103;103] [] None [] true (CPool 0) CFresh CFresh) in
  cval_of cs2 0 = Some (mkv [97;99;103;116] [] None [88;89] None) /\
  cval_of cs3 0 = Some (mkv [97;99;103;116] [] None [103;103] None).
Proof. exact setfeatures_orig_refuted. Qed.

(** ================= round 3 *)

(** In-place edits the histories now run on the real objects (Clear, ClearQualities, WriteQualities / WriteByteQualities, Grow; they
    are operations [OEdit] of the value semantics and [CEdit] of the ownership model, so C07_no_shared_state,
    C07_ownership_invariant and C07_trace_accepted_is_value_run quantify over them too). Used the way the readers use them - Clear with
    ClearQualities, Write followed by WriteQualities of as many scores as symbols, on an object that has scores or is empty - they keep
    one score per symbol, and emptying then refilling an object gives exactly the new symbols and scores. *)
Theorem C07_edits_keep_one_score_per_symbol : forall v s q, qual_ok v ->
  qual_ok (apply_edit EClearQ (apply_edit EClear v)) /\ qual_ok (apply_edit EGrow v) /\
  (length s = length q -> vqual v <> [] \/ vseq v = [] -> qual_ok (apply_edit (EWriteQ q) (write_val s v))) /\
  apply_edit (EWriteQ q) (write_val s (apply_edit EClearQ (apply_edit EClear v))) = mkv s q (vmm v) (vfeat v) (vmate v).
Proof. exact edits_keep_qual_ok. Qed.

(** Reverse complement of an object extended in place (Write + WriteQualities): both reverse complements succeed and the one of the
    extended object is the reverse complement of the extension, scores reversed, followed by the one of the object before. A cached
    reverse complement that survived the extension would be wrong by exactly this prefix. *)
Theorem C07_rc_of_append : forall v s q, qual_ok v -> omm_ok (vmm v) -> length s = length q -> vqual v <> [] \/ vseq v = [] ->
  exists w w', rc_val v = Ok w /\ rc_val (apply_edit (EWriteQ q) (write_val s v)) = Ok w' /\
               vseq w' = rc s ++ vseq w /\ vqual w' = rev q ++ vqual w.
Proof. exact rc_of_append. Qed.

(** Composition() over the alphabet of the property: the five counters are the numbers of a, c, g, t and of all the other symbols,
    and add up to the length ... *)
Theorem C07_composition : forall s, on_iupac s ->
  composition s = comp5 (cntN 97 s) (cntN 99 s) (cntN 103 s) (othersN s) (cntN 116 s) /\
  cntN 97 s + cntN 99 s + cntN 103 s + othersN s + cntN 116 s = N.of_nat (length s).
Proof. exact composition_spec. Qed.

(** ... and the composition of the reverse complement exchanges a with t and c with g. *)
Theorem C07_composition_of_rc : forall s, on_iupac s ->
  composition (rc s) = comp5 (cntN 116 s) (cntN 103 s) (cntN 99 s) (othersN s) (cntN 97 s).
Proof. exact composition_of_rc. Qed.

(** QualitiesString() with the default shift: one printable character (33..126) per score, the string of the reversed scores is the
    reversed string, and scores up to 93 are read back exactly. *)
Theorem C07_qualities_string : forall q,
  length (qual_string 33 q) = length q /\
  Forall (fun b => 33 <= b <= 126) (qual_string 33 q) /\
  qual_string 33 (rev q) = rev (qual_string 33 q) /\
  (Forall (fun x => x <= 93) q -> map (fun b => b - 33) (qual_string 33 q) = q).
Proof. exact qual_string_spec. Qed.

(** non-vacuity of the round-3 statements: acgt / 1 2 3 4 extended by gn / 7 8 meets the hypotheses; its reverse complement; its
    composition; and a history of the ownership model with the new edits (the copy taken before is untouched) *)
Example C07_round3_nonvacuous :
  let v := mkv [97;99;103;116] [1;2;3;4] None [] None in
  qual_ok v /\ omm_ok (vmm v) /\ on_iupac [97;99;103;116;103;110] /\
  rc_val (apply_edit (EWriteQ [7;8]) (write_val [103;110] v)) = Ok (mkv [110;99;97;99;103;116] [8;7;4;3;2;1] None [] None) /\
  composition [97;99;103;116;103;110] = comp5 1 1 2 1 1 /\
  qual_string 33 [0;40;93;255] = [33;73;126;126] /\
  (let '(_, cs) := crun cst0 [CNew [97;99;103;116] [1;2;3;4] None [] true CFresh CFresh CFresh; CCopy 0 CFresh CFresh CFresh;
                              CEdit 0 EClear; CEdit 0 EClearQ; CWrite 0 [103;110]; CEdit 0 (EWriteQ [7;8]); CEdit 0 EGrow;
                              CRc 0 true CFresh CFresh CFresh; CRecycle 0; CNew [116] [] None [] true (CPool 0) CFresh CFresh] in
   cval_of cs 1 = Some (mkv [97;99;103;116] [1;2;3;4] None [] None) /\ cval_of cs 2 = None /\ cval_of cs 3 = Some (mkv [116] [] None [] None)).
Proof.
  cbn zeta. split; [right; reflexivity|]. split; [exact I|]. split.
  - unfold on_iupac. apply (proj2 (Forall_forall _ _)). intros x Hx. cbn in Hx. unfold iupac. cbn. intuition.
  - vm_compute. repeat split; reflexivity.
Qed.


Print Assumptions C07_comp_model_is_code.
Print Assumptions C07_comp_is_iupac_complement.
Print Assumptions C07_comp_involutive_on_iupac.
Print Assumptions C07_tables_agree.
Print Assumptions C07_u_outside_involution.
Print Assumptions C07_comp_upper_case.
Print Assumptions C07_mutation_coordinates_window.
Print Assumptions C07_rc_loop_is_rc.
Print Assumptions C07_quality_loop_is_rev.
Print Assumptions C07_rc_involutive_seq.
Print Assumptions C07_rc_involutive.
Print Assumptions C07_rc_of_sub_seq.
Print Assumptions C07_rc_of_sub.
Print Assumptions C07_circular_window.
Print Assumptions C07_circular_subsequence.
Print Assumptions C07_circular_guard_empty.
Print Assumptions C07_mutation_coordinates_sub.
Print Assumptions C07_mutation_coordinates_rc.
Print Assumptions C07_mutation_coordinates_commute.
Print Assumptions C07_no_shared_state.
Print Assumptions C07_ownership_invariant.
Print Assumptions C07_setqualities_orig_refuted.
Print Assumptions C07_subseq_mutation_orig_refuted.
Print Assumptions C07_backlink_orig_refuted.
Print Assumptions C07_rc_involution_domain.
Print Assumptions C07_rc_of_join.
Print Assumptions C07_join_keeps_qualities.
Print Assumptions C07_join_orig_refuted.
Print Assumptions C07_derived_objects_share_no_mate.
Print Assumptions C07_recycled_mate_is_stale.
Print Assumptions C07_trace_accepted_is_value_run.
Print Assumptions C07_setfeatures_orig_refuted.
Print Assumptions C07_reachable_states_wf.
Print Assumptions C07_edits_keep_one_score_per_symbol.
Print Assumptions C07_rc_of_append.
Print Assumptions C07_composition.
Print Assumptions C07_composition_of_rc.
Print Assumptions C07_qualities_string.
