(** C07 — lemmas (assembled from scratch files that compiled; see Props.v for the statements that count). *)
From Coq Require Import NArith ZArith List Bool Lia Arith.
From OBI.C07.Gen Require Import Tables.
From OBI.C07 Require Import Model.
Import ListNotations.

(* ================= part p1 ================= *)
Open Scope N_scope.

(** finite table facts, by computation over the REGENERATED tables *)
Lemma comp_model_is_code_b : nlist_eqb (map comp (nrange 256 0)) seq_comp_tab = true.
Proof. vm_compute. reflexivity. Qed.

Lemma nlist_eqb_eq : forall a b, nlist_eqb a b = true -> a = b.
Proof. induction a as [|x a IH]; destruct b as [|y b]; cbn; try congruence.
  intros H. apply andb_prop in H. destruct H as [H1 H2]. apply N.eqb_eq in H1. f_equal; auto. Qed.

Lemma comp_model_is_code : map comp (nrange 256 0) = seq_comp_tab.
Proof. apply nlist_eqb_eq. exact comp_model_is_code_b. Qed.

Lemma comp_spec_on_iupac : map comp iupac = spec_comp_iupac.
Proof. apply nlist_eqb_eq. vm_compute. reflexivity. Qed.

Lemma comp_involutive_on_iupac : forall c, In c iupac -> comp (comp c) = c /\ In (comp c) iupac.
Proof.
  assert (H : forallb (fun c => (comp (comp c) =? c) && mem (comp c) iupac) iupac = true) by (vm_compute; reflexivity).
  intros c Hc. rewrite forallb_forall in H. specialize (H c Hc). apply andb_prop in H. destruct H as [H1 H2].
  apply N.eqb_eq in H1. split; [exact H1|].
  unfold mem in H2. apply existsb_exists in H2. destruct H2 as [x [Hx Hxe]]. apply N.eqb_eq in Hxe. subst. exact Hx.
Qed.

Definition opt_eqb (a : option N) (b : N) : bool := match a with Some x => x =? b | None => false end.
Lemma tables_agree : forall c, In c iupac_letters ->
  lookup c kmer_tab = Some (comp c) /\ lookup c apat_tab = Some (comp c).
Proof.
  assert (H : forallb (fun c => opt_eqb (lookup c kmer_tab) (comp c) && opt_eqb (lookup c apat_tab) (comp c)) iupac_letters = true)
    by (vm_compute; reflexivity).
  intros c Hc. rewrite forallb_forall in H. specialize (H c Hc). apply andb_prop in H. destruct H as [H1 H2].
  unfold opt_eqb in *. destruct (lookup c kmer_tab); [|discriminate]. destruct (lookup c apat_tab); [|discriminate].
  apply N.eqb_eq in H1. apply N.eqb_eq in H2. subst. auto.
Qed.

(** 'u' (117) is mapped to 'a' by all three tables: it is outside the involution *)
Lemma u_maps_to_a : comp 117 = 97 /\ lookup 117 kmer_tab = Some 97 /\ lookup 117 apat_tab = Some 97 /\ comp (comp 117) <> 117.
Proof. vm_compute. repeat split; congruence. Qed.

(* ================= part p2 ================= *)
Open Scope N_scope.

Lemma upd_middle : forall A (pre : list A) x y rest, upd (length pre) y (pre ++ x :: rest) = pre ++ y :: rest.
Proof. induction pre as [|h pre IH]; intros; cbn; [reflexivity|]. f_equal. apply IH. Qed.

Lemma upd_length : forall A i (x : A) l, length (upd i x l) = length l.
Proof. intros A i x l. revert i. induction l as [|h l IH]; intros [|i]; cbn; auto. Qed.

Lemma swap_loop_inv : forall f n mid, length mid = n -> forall pre post fuel i,
  (n < fuel)%nat -> (i + 1 = length pre + n)%nat ->
  swap_loop f fuel i (length pre) (pre ++ mid ++ post) = pre ++ rev (map f mid) ++ post.
Proof.
  intros f n. induction n as [n IH] using lt_wf_ind. intros mid Hn pre post fuel i Hf Hi.
  destruct fuel as [|fuel]; [lia|]. cbn [swap_loop].
  destruct mid as [|a mid].
  - cbn in Hn. subst n. replace (Nat.ltb i (length pre)) with true by (symmetry; apply Nat.ltb_lt; lia). reflexivity.
  - destruct (Nat.ltb i (length pre)) eqn:Hlt; [apply Nat.ltb_lt in Hlt; cbn in Hn; lia|].
    destruct mid as [|b0 mid0].
    + (* single middle element: i = j *)
      cbn in Hn. subst n. assert (i = length pre) by lia. subst i.
      cbn [app]. rewrite nth_middle. rewrite upd_middle, upd_middle.
      destruct (length pre) eqn:Hl; cbn; [reflexivity|].
      (* next iteration stops: i' < j' *)
      destruct fuel as [|fuel]; [reflexivity|]. cbn [swap_loop].
      replace (Nat.ltb n (S (S n))) with true by (symmetry; apply Nat.ltb_lt; lia). reflexivity.
    + destruct (exists_last (l := b0 :: mid0)) as [mid' [b Hb]]; [discriminate|]. rewrite Hb in *.
      assert (Hlen : length (a :: mid' ++ [b]) = S (S (length mid'))) by (cbn; rewrite app_length; cbn; lia).
      rewrite Hlen in Hn.
      assert (Hi' : i = length (pre ++ a :: mid')) by (rewrite app_length; cbn; lia).
      (* view the list around index i and index j *)
      assert (E1 : pre ++ (a :: mid' ++ [b]) ++ post = (pre ++ a :: mid') ++ b :: post).
      { cbn. repeat (rewrite <- app_assoc; cbn). reflexivity. }
      assert (E2 : pre ++ (a :: mid' ++ [b]) ++ post = pre ++ a :: (mid' ++ b :: post)).
      { cbn. repeat (rewrite <- app_assoc; cbn). reflexivity. }
      assert (N1 : nth i (pre ++ (a :: mid' ++ [b]) ++ post) 0 = b).
      { rewrite E1, Hi'. apply nth_middle. }
      assert (N2 : nth (length pre) (pre ++ (a :: mid' ++ [b]) ++ post) 0 = a).
      { rewrite E2. apply nth_middle. }
      assert (U : upd i (f a) (upd (length pre) (f b) (pre ++ (a :: mid' ++ [b]) ++ post))
                  = (pre ++ [f b]) ++ mid' ++ (f a :: post)).
      { rewrite E2, upd_middle.
        replace (pre ++ f b :: mid' ++ b :: post) with ((pre ++ f b :: mid') ++ b :: post)
          by (rewrite <- app_assoc; reflexivity).
        replace i with (length (pre ++ f b :: mid')) by (rewrite app_length in *; cbn in *; lia).
        rewrite upd_middle. repeat (rewrite <- app_assoc; cbn). reflexivity. }
      rewrite N1, N2, U.
      destruct i as [|i']; [rewrite app_length in Hi'; cbn in Hi'; lia|].
      replace (S (length pre)) with (length (pre ++ [f b])) by (rewrite app_length; cbn; lia).
      rewrite (IH (length mid')) with (mid := mid'); try lia; try reflexivity.
      * cbn [map rev]. rewrite map_app, rev_app_distr. cbn. repeat (rewrite <- app_assoc; cbn). reflexivity.
      * rewrite app_length in *. cbn in *. lia.
Qed.

Lemma run_loop_rev : forall f s, run_loop f (length s) s = rev (map f s).
Proof.
  intros f s. unfold run_loop. destruct (length s) as [|l'] eqn:E.
  - destruct s; [reflexivity|discriminate].
  - assert (H := swap_loop_inv f (length s) s eq_refl [] [] (S (S l')) l').
    cbn [app length] in H. rewrite !app_nil_r in H. apply H; lia.
Qed.

Lemma rc_loop_is_rc : forall s, rc_loop s = rc s.
Proof. intros s. apply run_loop_rev. Qed.

(* ================= part p3 ================= *)
Open Scope N_scope.

(** ---- involution on sequences *)
Definition on_iupac (s : list N) : Prop := Forall (fun c => In c iupac) s.

Lemma rc_involutive : forall s, on_iupac s -> rc (rc s) = s /\ on_iupac (rc s).
Proof.
  intros s H. unfold rc. split.
  - rewrite map_rev, rev_involutive, map_map. rewrite <- (map_id s) at 2. apply map_ext_in.
    intros c Hc. unfold on_iupac in H. rewrite Forall_forall in H. apply comp_involutive_on_iupac; auto.
  - unfold on_iupac in *. rewrite Forall_forall in *. intros c Hc. apply in_rev in Hc. apply in_map_iff in Hc.
    destruct Hc as [x [Hx Hin]]. subst. apply comp_involutive_on_iupac; auto.
Qed.

Lemma rc_length : forall s, length (rc s) = length s.
Proof. intros. unfold rc. rewrite rev_length, map_length. reflexivity. Qed.

(** ---- qualities *)
Definition qual_ok (v : value) : Prop := vqual v = [] \/ length (vqual v) = length (vseq v).
Definition rc_qual (len : nat) (q : list N) : list N := match q with [] => [] | q => run_loop (fun x => x) len q end.
Lemma rc_qual_rev : forall len q, q = [] \/ length q = len -> rc_qual len q = rev q.
Proof.
  intros len q [H|H]; [subst; reflexivity|]. unfold rc_qual. destruct q as [|a q0] eqn:E; [reflexivity|]. rewrite <- E in *.
  rewrite <- H. rewrite run_loop_rev. rewrite map_id. reflexivity.
Qed.

(** ---- keys of pairing_mismatches *)
Definition key_ok (k : key) : Prop := key_wf k = true /\ In (nth 1 k 0) iupac /\ In (nth 9 k 0) iupac.
Lemma revkey_involutive : forall k, key_ok k -> revkey (revkey k) = k /\ key_ok (revkey k).
Proof.
  intros k [Hwf [H1 H9]]. unfold key_wf in Hwf. apply Nat.leb_le in Hwf.
  do 13 (destruct k as [|? k]; [cbn in Hwf; lia|]).
  cbn in H1, H9. destruct (comp_involutive_on_iupac _ H1) as [I1 M1]. destruct (comp_involutive_on_iupac _ H9) as [I9 M9].
  unfold revkey. cbn [nth upd]. rewrite I1, I9. split; [reflexivity|]. unfold key_ok, key_wf. cbn [nth length]. repeat split; auto.
Qed.

Definition mm_ok (m : mmap) : Prop := Forall (fun kp => key_ok (fst kp)) m.
Lemma rc_mm_involutive : forall len m, mm_ok m -> rc_mm len (rc_mm len m) = m /\ mm_ok (rc_mm len m).
Proof.
  intros len m H. unfold rc_mm. induction H as [|[k p] m Hk Hm IH]; [split; [reflexivity|constructor]|].
  cbn [map fst snd]. destruct IH as [IH1 IH2]. destruct (revkey_involutive k Hk) as [R1 R2]. split.
  - rewrite R1, IH1. f_equal. f_equal. lia.
  - constructor; auto.
Qed.
Lemma mm_ok_wf : forall m, mm_ok m -> forallb (fun kp => key_wf (fst kp)) m = true.
Proof. intros m H. apply forallb_forall. unfold mm_ok in H. rewrite Forall_forall in H. intros x Hx. apply (H x Hx). Qed.

Definition omm_ok (o : option mmap) : Prop := match o with None => True | Some m => mm_ok m end.

Lemma rc_val_ok : forall v, omm_ok (vmm v) -> qual_ok v ->
  rc_val v = Ok (mkv (rc (vseq v)) (rev (vqual v)) (option_map (rc_mm (Z.of_nat (length (vseq v)))) (vmm v)) (vfeat v) (vmate v)).
Proof.
  intros [s q m ft mt] Hm Hq. unfold rc_val, qual_ok in *. cbn [vseq vqual vmm vfeat vmate] in *.
  rewrite rc_loop_is_rc.
  assert (Q : rc_qual (length s) q = rev q) by (apply rc_qual_rev; exact Hq).
  unfold rc_qual in Q. destruct q as [|a q0]; cbn [rev] in *; rewrite ?Q;
  (destruct m as [m|]; cbn [option_map]; [|reflexivity]; rewrite mm_ok_wf by exact Hm; reflexivity).
Qed.

(** reverse complement twice restores nucleotides, qualities and mismatch positions *)
Lemma rc_val_involutive : forall v, on_iupac (vseq v) -> qual_ok v -> omm_ok (vmm v) ->
  exists w, rc_val v = Ok w /\ rc_val w = Ok v.
Proof.
  intros v Hs Hq Hm. eexists. split; [apply rc_val_ok; assumption|].
  destruct v as [s q m ft mt]. cbn [vseq vqual vmm vfeat vmate] in *. destruct (rc_involutive s Hs) as [R1 R2].
  rewrite rc_val_ok; cbn [vseq vqual vmm vfeat vmate].
  - rewrite R1, rev_involutive, rc_length. f_equal. f_equal.
    destruct m as [m|]; [|reflexivity]. cbn [option_map]. f_equal. apply rc_mm_involutive. exact Hm.
  - destruct m as [m|]; cbn; [|exact I]. apply rc_mm_involutive. exact Hm.
  - unfold qual_ok in *. cbn [vseq vqual] in *. rewrite rc_length, rev_length. destruct Hq as [Hq|Hq]; [left; subst; reflexivity|right; exact Hq].
Qed.

(* ================= part p4 ================= *)
Open Scope Z_scope.

(** ---- slices *)
Lemma slice_length : forall A (s : list A) a b, 0 <= a <= b -> b <= Z.of_nat (length s) -> Z.of_nat (length (slice s a b)) = b - a.
Proof. intros A s a b H1 H2. unfold slice. rewrite firstn_length, skipn_length. lia. Qed.

Lemma slice_map : forall A B (f : A -> B) s a b, slice (map f s) a b = map f (slice s a b).
Proof. intros. unfold slice. rewrite skipn_map, firstn_map. reflexivity. Qed.

Lemma slice_rev : forall A (s : list A) f t, 0 <= f <= t -> t <= Z.of_nat (length s) ->
  slice (rev s) (Z.of_nat (length s) - t) (Z.of_nat (length s) - f) = rev (slice s f t).
Proof.
  intros A s f t H1 H2. unfold slice.
  replace (Z.to_nat (Z.of_nat (length s) - f - (Z.of_nat (length s) - t))) with (Z.to_nat t - Z.to_nat f)%nat by lia.
  replace (Z.to_nat (Z.of_nat (length s) - t)) with (length s - Z.to_nat t)%nat by lia.
  replace (Z.to_nat (t - f)) with (Z.to_nat t - Z.to_nat f)%nat by lia.
  rewrite skipn_rev. replace (length s - (length s - Z.to_nat t))%nat with (Z.to_nat t) by lia.
  rewrite firstn_rev. rewrite firstn_length. replace (Nat.min (Z.to_nat t) (length s)) with (Z.to_nat t) by lia.
  replace (Z.to_nat t - (Z.to_nat t - Z.to_nat f))%nat with (Z.to_nat f) by lia.
  f_equal. rewrite firstn_skipn_comm. f_equal. f_equal. lia.
Qed.

(** rc (sub s f t) = sub (rc s) (|s|-t) (|s|-f), on symbols *)
Lemma rc_of_slice : forall s f t, 0 <= f <= t -> t <= Z.of_nat (length s) ->
  slice (rc s) (Z.of_nat (length s) - t) (Z.of_nat (length s) - f) = rc (slice s f t).
Proof.
  intros s f t H1 H2. unfold rc. rewrite <- slice_map.
  replace (length s) with (length (map comp s)) by apply map_length. apply slice_rev; rewrite ?map_length; lia.
Qed.

(** ---- linear windows of Subsequence *)
Lemma sub_window_linear : forall len f t, 0 <= f < t -> t <= len -> sub_window len f t false = Ok (f, t).
Proof.
  intros len f t H1 H2. unfold sub_window. cbn [negb andb].
  replace (t <=? f) with false by lia. replace (f <? 0) with false by lia. replace (len <=? f) with false by lia.
  cbn [andb]. replace (len =? 0) with false by lia. replace (len <? t) with false by lia. cbn [andb].
  rewrite Z.rem_small by lia. rewrite Z.rem_small by lia. replace (t - 1 + 1) with t by lia.
  replace (f <? t) with true by lia. reflexivity.
Qed.

(** ---- coordinates of pairing_mismatches *)
(** what _subseqMutation must do on a linear window (f, t]: positions inside move to p - f, others vanish *)
Lemma sub_mm_linear_spec : forall f t len m, 0 <= f < t -> t <= len ->
  sub_mm f len (t - f) m = flat_map (fun kp => if (f <? snd kp) && (snd kp <=? t) then [(fst kp, snd kp - f)] else []) m.
Proof.
  intros f t len m H1 H2. unfold sub_mm. induction m as [|[k p] m IH]; [reflexivity|]. cbn [flat_map fst snd]. rewrite IH. f_equal.
  destruct (p <? 1) eqn:E1; destruct (len <? p) eqn:E2; destruct (p - f <=? 0) eqn:E3; cbn [orb];
  destruct (f <? p) eqn:E4; destruct (p <=? t) eqn:E5; cbn [andb]; try reflexivity; try lia;
  match goal with |- context [?a <=? ?b] => destruct (a <=? b) eqn:E6 end; try reflexivity; try lia.
Qed.

(** the two coordinate maps commute: sub then rc = rc then mirrored sub *)
Lemma mm_commute : forall f t len m, 0 <= f < t -> t <= len ->
  rc_mm (t - f) (sub_mm f len (t - f) m) = sub_mm (len - t) len (t - f) (rc_mm len m).
Proof.
  intros f t len m H1 H2. unfold sub_mm, rc_mm. induction m as [|[k p] m IH]; [reflexivity|].
  cbn [flat_map map fst snd]. rewrite map_app, IH. f_equal.
  destruct (p <? 1) eqn:E1; destruct (len <? p) eqn:E2; cbn [orb];
  destruct (len - p + 1 <? 1) eqn:E3; destruct (len <? len - p + 1) eqn:E4; cbn [orb]; try lia; try reflexivity;
  destruct (p - f <=? 0) eqn:E5; destruct (len - p + 1 - (len - t) <=? 0) eqn:E6;
  repeat match goal with |- context [?a <=? ?b] => destruct (a <=? b) eqn:? end; cbn [map]; try reflexivity; try lia;
  try (cbn [fst snd]; f_equal; f_equal; lia).
Qed.

Lemma sub_mm_keys : forall P sh len n m, Forall (fun kp : key * Z => P (fst kp)) m -> Forall (fun kp => P (fst kp)) (sub_mm sh len n m).
Proof.
  intros P sh len n m H. unfold sub_mm. induction H as [|[k p] m Hk Hm IH]; [constructor|]. cbn [flat_map fst snd].
  apply Forall_app. split; [|exact IH].
  destruct ((p <? 1) || (len <? p)); [constructor|]. destruct (_ <=? n); constructor; auto.
Qed.

(** value level: rc (sub v f t) = sub (rc v) (|v|-t) (|v|-f), with qualities and mismatch positions *)
Lemma rc_of_sub_val : forall v f t, let len := Z.of_nat (length (vseq v)) in
  0 <= f < t -> t <= len -> length (vqual v) = length (vseq v) \/ vqual v = [] -> omm_ok (vmm v) ->
  exists w rw rv, sub_val v f t false = Ok w /\ rc_val w = Ok rw /\ rc_val v = Ok rv /\
                  sub_val rv (len - t) (len - f) false = Ok rw.
Proof.
  intros [s q m ft mt] f t len H1 H2 Hq Hm. cbn [vseq vqual vmm vfeat vmate] in *.
  assert (Hs : Z.of_nat (length (slice s f t)) = t - f) by (apply slice_length; lia).
  assert (Hw : sub_val (mkv s q m ft mt) f t false =
               Ok (mkv (slice s f t) (slice q f t) (option_map (sub_mm f len (t - f)) m) [] None)).
  { unfold sub_val. cbn [vseq vqual vmm]. fold len. rewrite sub_window_linear by lia. unfold window.
    replace (f <? t) with true by lia. rewrite Hs. f_equal. f_equal.
    destruct q; [|reflexivity]. unfold slice. rewrite skipn_nil, firstn_nil. reflexivity. }
  assert (Hq' : qual_ok (mkv s q m ft mt)) by (unfold qual_ok; cbn [vseq vqual]; tauto).
  assert (Hrv := rc_val_ok (mkv s q m ft mt) Hm Hq').
  cbn [vseq vqual vmm vfeat vmate] in Hrv. fold len in Hrv.
  eexists. eexists. eexists. split; [exact Hw|]. split; [apply rc_val_ok|split; [exact Hrv|]].
  - cbn [vmm]. destruct m as [m|]; cbn; [|exact I]. apply sub_mm_keys. exact Hm.
  - unfold qual_ok. cbn [vseq vqual]. destruct Hq as [Hq|Hq]; [right|left; subst; unfold slice; rewrite skipn_nil, firstn_nil; reflexivity].
    unfold slice. rewrite !firstn_length, !skipn_length. lia.
  - unfold sub_val. cbn [vseq vqual vmm]. rewrite rc_length. fold len.
    rewrite sub_window_linear by lia. unfold window. replace (len - t <? len - f) with true by lia.
    unfold len. rewrite rc_of_slice by lia. fold len.
    assert (Hl : Z.of_nat (length (rc (slice s f t))) = t - f) by (rewrite rc_length; exact Hs).
    rewrite Hl, Hs. f_equal. f_equal.
    + destruct (rev q) eqn:Er.
      * assert (q = []) by (destruct q; [reflexivity|]; cbn in Er; destruct (rev q); discriminate). subst q.
        unfold slice. rewrite skipn_nil, firstn_nil. reflexivity.
      * rewrite <- Er. destruct Hq as [Hq|Hq]; [|subst q; discriminate].
        unfold len. rewrite <- Hq. rewrite slice_rev by lia. reflexivity.
    + destruct m as [m|]; [|reflexivity]. cbn [option_map]. f_equal.
      replace (len - f - (len - t)) with (t - f) by lia. symmetry. apply mm_commute; lia.
Qed.

(* ================= part p5 ================= *)
Open Scope Z_scope.

(** ---- circular windows *)
Lemma rem_pred_nonneg : forall t len, 0 < len -> 0 <= t ->
  Z.rem (t - 1) len + 1 = if t =? 0 then (if len =? 1 then 1 else 0) else (t - 1) mod len + 1.
Proof.
  intros t len Hl Ht. destruct (t =? 0) eqn:E.
  - apply Z.eqb_eq in E. subst t. cbn [Z.sub]. change (0 - 1) with (-1).
    destruct (len =? 1) eqn:E1.
    + apply Z.eqb_eq in E1. subst. reflexivity.
    + apply Z.eqb_neq in E1. replace (-1) with (- (1)) by reflexivity. rewrite Z.rem_opp_l by lia. rewrite Z.rem_small by lia. reflexivity.
  - apply Z.eqb_neq in E. rewrite Z.rem_mod_nonneg by lia. reflexivity.
Qed.

Lemma firstn_skipn_app_short : forall A (s : list A) a n, (a + n <= length s)%nat ->
  firstn n (skipn a (s ++ s)) = firstn n (skipn a s).
Proof. intros A s a n H. rewrite skipn_app. rewrite firstn_app. rewrite skipn_length.
  replace (n - (length s - a))%nat with 0%nat by lia. cbn. rewrite app_nil_r. reflexivity. Qed.

Lemma firstn_skipn_app_wrap : forall A (s : list A) a b, (a <= length s)%nat -> (b <= length s)%nat ->
  firstn (length s - a + b) (skipn a (s ++ s)) = skipn a s ++ firstn b s.
Proof. intros A s a b Ha Hb. rewrite skipn_app. replace (a - length s)%nat with 0%nat by lia. cbn [skipn].
  rewrite firstn_app. rewrite skipn_length. rewrite firstn_all2 by (rewrite skipn_length; lia).
  f_equal. f_equal. lia. Qed.

(** A circular subsequence equals the window of s ++ s that starts at from mod |s| and has
    ((to - from - 1) mod |s|) + 1 symbols — for every (from, to) with 0 <= from, 0 <= to, |s| > 0
    (the domain on which the code neither fails nor panics). *)
Lemma circular_window : forall A (s : list A) from to, let len := Z.of_nat (length s) in
  0 < len -> 0 <= from -> 0 <= to ->
  exists f1 t1, sub_window len from to true = Ok (f1, t1) /\ f1 = from mod len /\ window s len f1 t1 = firstn (Z.to_nat ((to - from - 1) mod len + 1)) (skipn (Z.to_nat (from mod len)) (s ++ s)).
Proof.
  intros A s from to len Hl Hf Ht.
  assert (Hf1 : 0 <= from mod len < len) by (apply Z.mod_pos_bound; lia).
  set (t1 := Z.rem (to - 1) len + 1).
  assert (Ht1 : 0 <= t1 <= len /\ (t1 - 1 - from mod len) mod len = (to - from - 1) mod len).
  { unfold t1. rewrite rem_pred_nonneg by lia. destruct (to =? 0) eqn:E0.
    - apply Z.eqb_eq in E0. subst to. destruct (len =? 1) eqn:E1.
      + apply Z.eqb_eq in E1. rewrite E1. split; [lia|]. rewrite !Z.mod_1_r. reflexivity.
      + split; [lia|]. rewrite Zminus_mod_idemp_r. f_equal. lia.
    - assert (0 <= (to - 1) mod len < len) by (apply Z.mod_pos_bound; lia). split; [lia|].
      replace ((to - 1) mod len + 1 - 1 - from mod len) with ((to - 1) mod len - from mod len) by lia.
      rewrite <- Zminus_mod. f_equal. lia. }
  destruct Ht1 as [Ht1 Hn].
  assert (Et1 : Z.rem (to - 1) len + 1 = t1) by reflexivity. clearbody t1.
  exists (from mod len), t1. split; [|split; [reflexivity|]].
  - unfold sub_window. cbn [negb]. rewrite !andb_false_r. replace (from <? 0) with false by lia.
    replace (len =? 0) with false by lia. rewrite Z.rem_mod_nonneg by lia. rewrite Et1.
    destruct (from mod len <? t1); [reflexivity|]. replace (t1 <? 0) with false by lia. reflexivity.
  - rewrite <- Hn. unfold window, slice. destruct (from mod len <? t1) eqn:E.
    + apply Z.ltb_lt in E. rewrite (Z.mod_small (t1 - 1 - from mod len)) by lia.
      replace (Z.to_nat (t1 - 1 - from mod len + 1)) with (Z.to_nat (t1 - from mod len)) by lia.
      symmetry. apply firstn_skipn_app_short. lia.
    + apply Z.ltb_ge in E.
      assert (Hm : (t1 - 1 - from mod len) mod len = t1 - 1 - from mod len + len).
      { symmetry. apply Z.mod_unique with (q := -1); lia. }
      rewrite Hm. cbn [skipn]. replace (Z.to_nat (t1 - 0)) with (Z.to_nat t1) by lia.
      replace (Z.to_nat (t1 - 1 - from mod len + len + 1)) with (length s - Z.to_nat (from mod len) + Z.to_nat t1)%nat by lia.
      rewrite firstn_skipn_app_wrap by lia. f_equal.
      apply firstn_all2. rewrite skipn_length. lia.
Qed.

(* ================= part p6 ================= *)
Open Scope Z_scope.

(** value level: circular Subsequence = window of s ++ s (symbols and qualities) *)
Lemma circular_sub_val : forall v from to, let len := Z.of_nat (length (vseq v)) in
  0 < len -> 0 <= from -> 0 <= to -> vqual v = [] \/ length (vqual v) = length (vseq v) ->
  let n := Z.to_nat ((to - from - 1) mod len + 1) in let f1 := Z.to_nat (from mod len) in
  exists w, sub_val v from to true = Ok w /\
            vseq w = firstn n (skipn f1 (vseq v ++ vseq v)) /\
            vqual w = firstn n (skipn f1 (vqual v ++ vqual v)).
Proof.
  intros [s q m] from to len Hl Hf Ht Hq n f1. cbn [vseq vqual vmm] in *.
  destruct (circular_window N s from to Hl Hf Ht) as [a [b [Hw [Ha Hs]]]]. fold len in Hw, Hs, Ha.
  unfold sub_val. cbn [vseq vqual vmm]. fold len. rewrite Hw. eexists. split; [reflexivity|]. cbn [vseq vqual]. split; [exact Hs|].
  destruct Hq as [Hq|Hq].
  - subst q. cbn [app]. rewrite skipn_nil, firstn_nil. reflexivity.
  - assert (Hlq : Z.of_nat (length q) = len) by (unfold len; lia).
    assert (Hlq0 : 0 < Z.of_nat (length q)) by lia.
    destruct (circular_window N q from to Hlq0 Hf Ht) as [a' [b' [Hw' [Ha' Hq']]]].
    rewrite Hlq in Hw', Hq', Ha'. rewrite Hw in Hw'. injection Hw' as E1 E2. subst a' b'.
    destruct q as [|x q0]; [cbn in Hlq; lia|]. exact Hq'.
Qed.

(** ---- the code before the repairs violates the property *)
Definition k1 : key := [40;65;58;51;48;41;45;62;40;67;58;50;48;41]%N.   (* (A:30)->(C:20) *)
Definition k2 : key := [40;71;58;49;50;41;45;62;40;84;58;48;55;41]%N.   (* (G:12)->(T:07) *)
Lemma subseq_mutation_orig_refuted :
  exists m f t len, 0 <= f < t /\ t <= len /\
    sub_mm_orig f (t - f) m <> flat_map (fun kp => if (f <? snd kp) && (snd kp <=? t) then [(fst kp, snd kp - f)] else []) m /\
    sub_mm_orig f (t - f) m = [(k2, -35)].
Proof. exists [(k1, 50); (k2, 5)], 40, 60, 100. vm_compute. repeat split; congruence. Qed.

Open Scope N_scope.
(** x = aacc; y := x.RC(false); y.SetSequence(tttt); z := y.RC(false): the pre-repair code returns the object x *)
Lemma backlink_orig_refuted :
  let st1 := lnew (mkl [] []) [97;97;99;99] in
  let '(_, st2) := lrc st1 0 in
  let st3 := lsetseq st2 1 [116;116;116;116] in
  let '(o, st4) := lrc st3 1 in
  o = nth 0 (lregs st4) 0%nat /\ lread st4 2 = [97;97;99;99] /\ lread st4 2 <> rc [116;116;116;116].
Proof. vm_compute. repeat split; congruence. Qed.

(* ================= part p7 ================= *)
Open Scope N_scope.

(** upper-case letters (the keys of pairing_mismatches are written in upper case by the aligner) are
    complemented like their lower-case form, and the result is lower case *)
Lemma comp_upper_case : forall c, In c iupac_letters -> comp (c - 32) = comp c.
Proof.
  assert (H : forallb (fun c => comp (c - 32) =? comp c) iupac_letters = true) by (vm_compute; reflexivity).
  intros c Hc. rewrite forallb_forall in H. apply N.eqb_eq. exact (H c Hc).
Qed.

Open Scope Z_scope.
(** _subseqMutation on ANY window (linear or wrapping over the end, start f1, n symbols) of a sequence of
    len symbols: a position p of the source (1 <= p <= len) lands at p - f1 when it is right of the start,
    at p + len - f1 when the window wraps around to it, and disappears otherwise *)
Lemma sub_mm_window_spec : forall f1 len n m, 0 <= f1 < len -> 1 <= n <= len ->
  sub_mm f1 len n m = flat_map (fun kp =>
    let p := snd kp in
    if (1 <=? p) && (p <=? len) then
      if (f1 <? p) && (p - f1 <=? n) then [(fst kp, p - f1)]
      else if (p <=? f1) && (p + len - f1 <=? n) then [(fst kp, p + len - f1)] else []
    else []) m.
Proof.
  intros f1 len n m H1 H2. unfold sub_mm. induction m as [|[k p] m IH]; [reflexivity|]. cbn [flat_map fst snd]. rewrite IH. f_equal.
  destruct (p <? 1) eqn:E1; destruct (len <? p) eqn:E2; cbn [orb];
  destruct (1 <=? p) eqn:E3; destruct (p <=? len) eqn:E4; cbn [andb]; try lia; try reflexivity.
  destruct (p - f1 <=? 0) eqn:E5; destruct (f1 <? p) eqn:E6; destruct (p <=? f1) eqn:E7; cbn [andb]; try lia;
  repeat match goal with |- context [?a <=? ?b] => destruct (a <=? b) eqn:? end; try reflexivity; try lia;
  try (f_equal; f_equal; lia).
Qed.

