(** C07 — proof that the ownership model of Heap.v simulates the value semantics of Model.v
    (assembled from scratch files that compiled). *)
From Coq Require Import NArith ZArith List Bool Lia Arith.
From OBI.C07 Require Import Model Heap.
Import ListNotations.

(* ================= part HP1 ================= *)

(** ---- list facts *)
Lemma upd_len : forall A i (x : A) l, length (upd i x l) = length l.
Proof. intros A i x l. revert i. induction l as [|h l IH]; intros [|i]; cbn; auto. Qed.
Lemma nth_upd_same : forall A i (x d : A) l, (i < length l)%nat -> nth i (upd i x l) d = x.
Proof. intros A i x d l. revert i. induction l as [|h l IH]; intros [|i] H; cbn in *; try lia; auto. apply IH. lia. Qed.
Lemma nth_upd_other : forall A i j (x d : A) l, i <> j -> nth j (upd i x l) d = nth j l d.
Proof. intros A i j x d l. revert i j. induction l as [|h l IH]; intros [|i] [|j] H; cbn; try reflexivity; try congruence. apply IH. congruence. Qed.
Lemma nth_error_upd_same : forall A i (x : A) l, (i < length l)%nat -> nth_error (upd i x l) i = Some x.
Proof. intros A i x l. revert i. induction l as [|h l IH]; intros [|i] H; cbn in *; try lia; auto. apply IH. lia. Qed.
Lemma nth_error_upd_other : forall A i j (x : A) l, i <> j -> nth_error (upd i x l) j = nth_error l j.
Proof. intros A i j x l. revert i j. induction l as [|h l IH]; intros [|i] [|j] H; cbn; try reflexivity; try congruence. apply IH. congruence. Qed.
Lemma remove_all_in : forall b x l, In x (remove_all b l) -> In x l /\ x <> b.
Proof. intros b x l. induction l as [|y l IH]; cbn; [tauto|]. destruct (Nat.eqb y b) eqn:E.
  - intros H. destruct (IH H). tauto.
  - apply Nat.eqb_neq in E. intros [H|H]; [subst; tauto|]. destruct (IH H). tauto. Qed.
Lemma nth_app_other : forall A (l : list A) x d j, j <> length l -> nth j (l ++ [x]) d = nth j l d.
Proof. intros A l x d j H. destruct (Nat.lt_ge_cases j (length l)) as [L|L].
  - apply app_nth1. exact L.
  - rewrite (nth_overflow l) by lia. apply nth_overflow. rewrite app_length. cbn. lia. Qed.

(** ---- acquire *)
Definition pool_bounded (cs : cstate) : Prop := forall x, In x (pool cs) -> (x < length (heap cs))%nat.

Lemma acquire_spec : forall c content cs b cs', pool_bounded cs -> acquire c content cs = (b, cs') ->
  cregs cs' = cregs cs /\ cobjs cs' = cobjs cs /\ nth b (heap cs') [] = content /\
  (forall x, x <> b -> nth x (heap cs') [] = nth x (heap cs) []) /\
  ~ In b (pool cs') /\ (forall x, In x (pool cs') -> In x (pool cs)) /\
  (In b (pool cs) \/ b = length (heap cs)) /\ (length (heap cs) <= length (heap cs'))%nat /\ (b < length (heap cs'))%nat.
Proof.
  intros c content cs b cs' PB H.
  assert (F : (length (heap cs), mkcs (cregs cs) (cobjs cs) (heap cs ++ [content]) (pool cs)) = (b, cs') ->
    cregs cs' = cregs cs /\ cobjs cs' = cobjs cs /\ nth b (heap cs') [] = content /\
    (forall x, x <> b -> nth x (heap cs') [] = nth x (heap cs) []) /\
    ~ In b (pool cs') /\ (forall x, In x (pool cs') -> In x (pool cs)) /\
    (In b (pool cs) \/ b = length (heap cs)) /\ (length (heap cs) <= length (heap cs'))%nat /\ (b < length (heap cs'))%nat).
  { intros E. injection E as E1 E2. subst b cs'. cbn. repeat split; auto.
    - apply nth_middle.
    - intros x Hx. apply nth_app_other. exact Hx.
    - intros Hin. apply PB in Hin. lia.
    - rewrite app_length. lia.
    - rewrite app_length. cbn. lia. }
  unfold acquire in H. destruct c as [|k]; [exact (F H)|].
  destruct (nth_error (pool cs) k) as [b0|] eqn:E; [|exact (F H)].
  destruct (Nat.ltb b0 (length (heap cs))) eqn:L; [|exact (F H)].
  apply Nat.ltb_lt in L. injection H as E1 E2. subst b0 cs'. cbn. repeat split; auto.
  - apply nth_upd_same. exact L.
  - intros x Hx. apply nth_upd_other. congruence.
  - intros Hin. apply remove_all_in in Hin. tauto.
  - intros x Hin. apply remove_all_in in Hin. tauto.
  - left. eapply nth_error_In. exact E.
  - rewrite upd_len. lia.
  - rewrite upd_len. exact L.
Qed.

(** ---- the invariant: ownership + simulation of the value semantics *)
Definition live (cs : cstate) (o : nat) (co : cobj) : Prop := nth_error (cobjs cs) o = Some (Some co).
Definition owns (co : cobj) (b : nat) : Prop := b = cseq co \/ b = cqual co \/ b = cfeat co.
Definition distinct3 (a b c : nat) : Prop := a <> b /\ a <> c /\ b <> c.
Lemma owns_seq : forall co, owns co (cseq co). Proof. intros; left; reflexivity. Qed.
Lemma owns_qual : forall co, owns co (cqual co). Proof. intros; right; left; reflexivity. Qed.
Lemma owns_feat : forall co, owns co (cfeat co). Proof. intros; right; right; reflexivity. Qed.

Record inv (cs : cstate) (st : state) : Prop := mkinv {
  i_regs : cregs cs = regs st;
  i_len : length (cobjs cs) = length (objs st);
  i_reglive : forall r o, nth r (cregs cs) None = Some o -> exists co, live cs o co;
  i_sim : forall o co, live cs o co -> nth_error (objs st) o = Some (cread cs co);
  i_bound : forall o co b, live cs o co -> owns co b -> (b < length (heap cs))%nat;
  i_self : forall o co, live cs o co -> distinct3 (cseq co) (cqual co) (cfeat co);
  i_disj : forall o1 o2 co1 co2 b, live cs o1 co1 -> live cs o2 co2 -> o1 <> o2 -> owns co1 b -> ~ owns co2 b;
  i_pool : forall o co b, live cs o co -> owns co b -> ~ In b (pool cs);
  i_poolb : pool_bounded cs }.

Lemma inv0 : inv cst0 st0.
Proof. constructor; cbn; auto; unfold live; cbn; intros; try (destruct o; discriminate); try (destruct o1; discriminate).
  - destruct r; discriminate.
  - intros x [].
Qed.

Lemma cread_frame : forall cs cs' co, (forall b, owns co b -> nth b (heap cs') [] = nth b (heap cs) []) -> cread cs' co = cread cs co.
Proof. intros cs cs' co H. unfold cread. rewrite (H (cseq co)) by apply owns_seq. rewrite (H (cqual co)) by apply owns_qual. rewrite (H (cfeat co)) by apply owns_feat. reflexivity. Qed.

(** a buffer handed out by [acquire] is owned by nobody, and nothing any object reads changes *)
Lemma inv_acquire : forall cs st c content b cs', inv cs st -> acquire c content cs = (b, cs') ->
  inv cs' st /\ (forall o co, live cs o co -> ~ owns co b) /\ nth b (heap cs') [] = content /\
  ~ In b (pool cs') /\ (b < length (heap cs'))%nat /\ cregs cs' = cregs cs /\ cobjs cs' = cobjs cs /\
  (forall x, x <> b -> nth x (heap cs') [] = nth x (heap cs) []) /\ (forall x, In x (pool cs') -> In x (pool cs)).
Proof.
  intros cs st c content b cs' I H. destruct (acquire_spec _ _ _ _ _ (i_poolb _ _ I) H) as [R [O [N1 [N2 [P1 [P2 [P3 [L1 L2]]]]]]]].
  assert (U : forall o co, live cs o co -> ~ owns co b).
  { intros o co Hl Ho. destruct P3 as [P3|P3].
    - exact (i_pool _ _ I o co b Hl Ho P3).
    - pose proof (i_bound _ _ I o co b Hl Ho). lia. }
  assert (LV : forall o co, live cs' o co <-> live cs o co) by (intros; unfold live; rewrite O; tauto).
  split; [|repeat split; auto].
  constructor.
  - rewrite R. apply I.
  - rewrite O. apply I.
  - intros r o Hr. rewrite R in Hr. destruct (i_reglive _ _ I r o Hr) as [co Hco]. exists co. apply LV. exact Hco.
  - intros o co Hl. apply LV in Hl. rewrite (i_sim _ _ I o co Hl). f_equal. symmetry. apply cread_frame.
    intros x Hx. apply N2. intros ->. exact (U o co Hl Hx).
  - intros o co x Hl Hx. apply LV in Hl. pose proof (i_bound _ _ I o co x Hl Hx). lia.
  - intros o co Hl. apply LV in Hl. exact (i_self _ _ I o co Hl).
  - intros o1 o2 co1 co2 x H1 H2. apply LV in H1. apply LV in H2. exact (i_disj _ _ I o1 o2 co1 co2 x H1 H2).
  - intros o co x Hl Hx Hin. apply LV in Hl. exact (i_pool _ _ I o co x Hl Hx (P2 x Hin)).
  - intros x Hin. pose proof (i_poolb _ _ I x (P2 x Hin)). lia.
Qed.

(* ================= part HP2 ================= *)

Lemma live_app : forall cs x o co regs' heap' pool',
  live (mkcs regs' (cobjs cs ++ [x]) heap' pool') o co <-> (live cs o co \/ (o = length (cobjs cs) /\ x = Some co)).
Proof.
  intros cs x o co regs' heap' pool'. unfold live. cbn. destruct (Nat.lt_ge_cases o (length (cobjs cs))) as [L|L].
  - rewrite nth_error_app1 by exact L. split; [tauto|]. intros [H|[H _]]; [exact H|lia].
  - rewrite nth_error_app2 by exact L. split.
    + intros H. right. destruct (o - length (cobjs cs))%nat as [|k] eqn:E; cbn in H; [|destruct k; discriminate].
      split; [lia|congruence].
    + intros [H|[H1 H2]].
      * assert (nth_error (cobjs cs) o <> None) by congruence. apply nth_error_Some in H0. lia.
      * subst. rewrite Nat.sub_diag. reflexivity.
Qed.

(** adding an object that owns three unowned, unpooled, distinct buffers *)
Lemma inv_add_obj : forall cs st b1 b2 b3 m mt,
  inv cs st -> distinct3 b1 b2 b3 -> (forall o co x, live cs o co -> x = b1 \/ x = b2 \/ x = b3 -> ~ owns co x) ->
  (forall x, x = b1 \/ x = b2 \/ x = b3 -> ~ In x (pool cs) /\ (x < length (heap cs))%nat) ->
  inv (mkcs (cregs cs ++ [Some (length (cobjs cs))]) (cobjs cs ++ [Some (mkco b1 b2 b3 m mt)]) (heap cs) (pool cs))
      (mks (regs st ++ [Some (length (objs st))]) (objs st ++ [mkv (nth b1 (heap cs) []) (nth b2 (heap cs) []) m (nth b3 (heap cs) []) mt])).
Proof.
  intros cs st b1 b2 b3 m mt I D U PL.
  set (cs' := mkcs (cregs cs ++ [Some (length (cobjs cs))]) (cobjs cs ++ [Some (mkco b1 b2 b3 m mt)]) (heap cs) (pool cs)).
  assert (LV : forall o co, live cs' o co <-> (live cs o co \/ (o = length (cobjs cs) /\ co = mkco b1 b2 b3 m mt))).
  { intros o co. unfold cs'. rewrite live_app. split; intros [H|[H1 H2]]; auto; right; split; auto; congruence. }
  assert (OLD : forall o co, live cs o co -> (o < length (cobjs cs))%nat).
  { intros o co H. apply nth_error_Some. unfold live in H. congruence. }
  assert (OW : forall x, owns (mkco b1 b2 b3 m mt) x -> x = b1 \/ x = b2 \/ x = b3) by (intros x Hx; exact Hx).
  constructor; unfold cs'; cbn [cregs cobjs heap pool regs objs]; fold cs'.
  - rewrite (i_regs _ _ I), (i_len _ _ I). reflexivity.
  - rewrite !app_length, (i_len _ _ I). reflexivity.
  - intros r o Hr. destruct (Nat.lt_ge_cases r (length (cregs cs))) as [L|L].
    + rewrite app_nth1 in Hr by exact L. destruct (i_reglive _ _ I r o Hr) as [co Hco]. exists co. apply LV. left. exact Hco.
    + rewrite app_nth2 in Hr by exact L. destruct (r - length (cregs cs))%nat as [|k]; cbn in Hr; [|destruct k; discriminate].
      injection Hr as <-. exists (mkco b1 b2 b3 m mt). apply LV. right. auto.
  - intros o co Hl. apply LV in Hl. destruct Hl as [Hl|[-> ->]].
    + rewrite nth_error_app1 by (rewrite <- (i_len _ _ I); eauto). exact (i_sim _ _ I o co Hl).
    + rewrite (i_len _ _ I). rewrite nth_error_app2 by lia. rewrite Nat.sub_diag. reflexivity.
  - intros o co x Hl Hx. apply LV in Hl. destruct Hl as [Hl|[-> ->]]; [exact (i_bound _ _ I o co x Hl Hx)|].
    exact (proj2 (PL x (OW x Hx))).
  - intros o co Hl. apply LV in Hl. destruct Hl as [Hl|[-> ->]]; [exact (i_self _ _ I o co Hl)|]. exact D.
  - intros o1 o2 co1 co2 x H1 H2 Hne Hx1 Hx2. apply LV in H1. apply LV in H2.
    destruct H1 as [H1|[E1 F1]]; destruct H2 as [H2|[E2 F2]].
    + exact (i_disj _ _ I o1 o2 co1 co2 x H1 H2 Hne Hx1 Hx2).
    + subst co2. exact (U o1 co1 x H1 (OW x Hx2) Hx1).
    + subst co1. exact (U o2 co2 x H2 (OW x Hx1) Hx2).
    + lia.
  - intros o co x Hl Hx. apply LV in Hl. destruct Hl as [Hl|[-> ->]]; [exact (i_pool _ _ I o co x Hl Hx)|].
    exact (proj1 (PL x (OW x Hx))).
  - exact (i_poolb _ _ I).
Qed.

Definition rel (a : (status * Z * Z) * cstate) (b : (status * Z * Z) * state) : Prop := fst a = fst b /\ inv (snd a) (snd b).

Lemma sim_alloc : forall cs st v c1 c2 c3, inv cs st -> rel (c_alloc cs v c1 c2 c3) (alloc st v).
Proof.
  intros cs st v c1 c2 c3 I. unfold c_alloc.
  destruct (acquire c1 (vseq v) cs) as [b1 cs1] eqn:A1. destruct (acquire c2 (vqual v) cs1) as [b2 cs2] eqn:A2.
  destruct (acquire c3 (vfeat v) cs2) as [b3 cs3] eqn:A3.
  destruct (inv_acquire _ _ _ _ _ _ I A1) as [I1 [U1 [N1 [P1 [L1 [R1 [O1 [F1 S1]]]]]]]].
  destruct (inv_acquire _ _ _ _ _ _ I1 A2) as [I2 [U2 [N2 [P2 [L2 [R2 [O2 [F2 S2]]]]]]]].
  destruct (inv_acquire _ _ _ _ _ _ I2 A3) as [I3 [U3 [N3 [P3 [L3 [R3 [O3 [F3 S3]]]]]]]].
  destruct (acquire_spec _ _ _ _ _ (i_poolb _ _ I1) A2) as [_ [_ [_ [_ [_ [_ [Q2 [LL2 _]]]]]]]].
  destruct (acquire_spec _ _ _ _ _ (i_poolb _ _ I2) A3) as [_ [_ [_ [_ [_ [_ [Q3 [LL3 _]]]]]]]].
  assert (D12 : b1 <> b2) by (intros ->; destruct Q2 as [Q2|Q2]; [exact (P1 Q2)|lia]).
  assert (D23 : b2 <> b3) by (intros ->; destruct Q3 as [Q3|Q3]; [exact (P2 Q3)|lia]).
  assert (D13 : b1 <> b3).
  { intros ->. destruct Q3 as [Q3|Q3]; [|lia]. apply S2 in Q3. exact (P1 Q3). }
  assert (LV1 : forall o co, live cs1 o co <-> live cs o co) by (intros; unfold live; rewrite O1; tauto).
  assert (LV2 : forall o co, live cs2 o co <-> live cs o co) by (intros; unfold live; rewrite O2, O1; tauto).
  assert (LV3 : forall o co, live cs3 o co <-> live cs o co) by (intros; unfold live; rewrite O3, O2, O1; tauto).
  pose proof (inv_add_obj cs3 st b1 b2 b3 (vmm v) (vmate v) I3) as K.
  unfold rel, alloc. cbn [fst snd]. split.
  - rewrite (i_regs _ _ I). reflexivity.
  - rewrite <- R1 at 1. rewrite <- R2, <- R3. rewrite <- O1, <- O2, <- O3.
    assert (E : mkv (nth b1 (heap cs3) []) (nth b2 (heap cs3) []) (vmm v) (nth b3 (heap cs3) []) (vmate v) = v)
      by (rewrite N3, (F3 b2 D23), N2, (F3 b1 D13), (F2 b1 D12), N1; destruct v; reflexivity).
    rewrite E in K. apply K.
    + repeat split; assumption.
    + intros o co x Hl [->|[->| ->]].
      * apply (U1 o co). apply LV3. exact Hl.
      * apply (U2 o co). apply LV1, LV3. exact Hl.
      * apply (U3 o co). apply LV2, LV3. exact Hl.
    + intros x [->|[->| ->]]; split; try assumption; try lia.
      * intros Hin. apply S3, S2 in Hin. exact (P1 Hin).
      * intros Hin. apply S3 in Hin. exact (P2 Hin).
Qed.

(* ================= part HP3 ================= *)

Lemma live_lt : forall cs o co, live cs o co -> (o < length (cobjs cs))%nat.
Proof. intros cs o co H. apply nth_error_Some. unfold live in H. congruence. Qed.

Lemma live_upd : forall cs ob x o co regs' heap' pool', (ob < length (cobjs cs))%nat ->
  (live (mkcs regs' (upd ob x (cobjs cs)) heap' pool') o co <-> ((o = ob /\ x = Some co) \/ (o <> ob /\ live cs o co))).
Proof.
  intros cs ob x o co regs' heap' pool' L. unfold live. cbn. destruct (Nat.eq_dec o ob) as [->|N].
  - rewrite nth_error_upd_same by exact L. split; [intros H; left; split; congruence|intros [[_ ->]|[H _]]; [reflexivity|congruence]].
  - rewrite nth_error_upd_other by congruence. split; [tauto|intros [[H _]|[_ H]]; [congruence|exact H]].
Qed.

(** in-place update of a live object through its own buffers *)
Lemma inv_overwrite : forall cs st ob co v, inv cs st -> live cs ob co -> inv (c_overwrite cs ob co v) (set_obj st ob v).
Proof.
  intros cs st ob co v I Hl. pose proof (live_lt _ _ _ Hl) as Lo.
  assert (B1 := i_bound _ _ I ob co (cseq co) Hl (owns_seq co)).
  assert (B2 := i_bound _ _ I ob co (cqual co) Hl (owns_qual co)).
  assert (B3 := i_bound _ _ I ob co (cfeat co) Hl (owns_feat co)).
  destruct (i_self _ _ I ob co Hl) as [S12 [S13 S23]].
  set (co' := mkco (cseq co) (cqual co) (cfeat co) (vmm v) (vmate v)).
  assert (LV : forall o c, live (c_overwrite cs ob co v) o c <-> ((o = ob /\ c = co') \/ (o <> ob /\ live cs o c))).
  { intros o c. unfold c_overwrite. rewrite live_upd by exact Lo. split.
    - intros [[H1 H2]|H]; [left; split; [exact H1|injection H2; auto]|right; exact H].
    - intros [[H1 H2]|H]; [left; split; [exact H1|rewrite H2; reflexivity]|right; exact H]. }
  assert (HF : forall o c x, o <> ob -> live cs o c -> owns c x ->
               nth x (heap (c_overwrite cs ob co v)) [] = nth x (heap cs) []).
  { intros o c x Hne Hc Hx. unfold c_overwrite. cbn [heap].
    assert (x <> cseq co) by (intros ->; exact (i_disj _ _ I o ob c co _ Hc Hl Hne Hx (owns_seq co))).
    assert (x <> cqual co) by (intros ->; exact (i_disj _ _ I o ob c co _ Hc Hl Hne Hx (owns_qual co))).
    assert (x <> cfeat co) by (intros ->; exact (i_disj _ _ I o ob c co _ Hc Hl Hne Hx (owns_feat co))).
    rewrite !nth_upd_other by congruence. reflexivity. }
  constructor.
  - exact (i_regs _ _ I).
  - unfold c_overwrite, set_obj. cbn. rewrite !upd_len. exact (i_len _ _ I).
  - intros r o Hr. destruct (i_reglive _ _ I r o Hr) as [c Hc]. destruct (Nat.eq_dec o ob) as [->|N].
    + exists co'. apply LV. auto.
    + exists c. apply LV. auto.
  - intros o c Hc. apply LV in Hc. destruct Hc as [[-> ->]|[Hne Hc]]; unfold set_obj; cbn [objs].
    + rewrite nth_error_upd_same by (rewrite <- (i_len _ _ I); exact Lo). f_equal.
      unfold cread, c_overwrite, co'. cbn [cseq cqual cfeat cmm cmate heap].
      rewrite nth_upd_same by (rewrite !upd_len; exact B1).
      rewrite (nth_upd_other _ (cseq co) (cqual co)) by congruence. rewrite nth_upd_same by (rewrite upd_len; exact B2).
      rewrite (nth_upd_other _ (cseq co) (cfeat co)) by congruence. rewrite (nth_upd_other _ (cqual co) (cfeat co)) by congruence.
      rewrite nth_upd_same by exact B3. destruct v; reflexivity.
    + rewrite nth_error_upd_other by congruence. rewrite (i_sim _ _ I o c Hc). f_equal. symmetry.
      apply cread_frame. intros x Hx. exact (HF o c x Hne Hc Hx).
  - intros o c x Hc Hx. unfold c_overwrite. cbn [heap]. rewrite !upd_len. apply LV in Hc. destruct Hc as [[-> ->]|[Hne Hc]].
    + destruct Hx as [->|[->| ->]]; cbn; assumption.
    + exact (i_bound _ _ I o c x Hc Hx).
  - intros o c Hc. apply LV in Hc. destruct Hc as [[-> ->]|[Hne Hc]]; [repeat split; assumption|exact (i_self _ _ I o c Hc)].
  - intros o1 o2 c1 c2 x H1 H2 Hne Hx1 Hx2. apply LV in H1. apply LV in H2.
    destruct H1 as [[-> ->]|[N1 H1]]; destruct H2 as [[-> ->]|[N2 H2]]; try congruence.
    + exact (i_disj _ _ I ob o2 co c2 x Hl H2 Hne Hx1 Hx2).
    + exact (i_disj _ _ I o1 ob c1 co x H1 Hl Hne Hx1 Hx2).
    + exact (i_disj _ _ I o1 o2 c1 c2 x H1 H2 Hne Hx1 Hx2).
  - intros o c x Hc Hx. apply LV in Hc. destruct Hc as [[-> ->]|[Hne Hc]].
    + exact (i_pool _ _ I ob co x Hl Hx).
    + exact (i_pool _ _ I o c x Hc Hx).
  - intros x Hx. unfold c_overwrite. cbn [heap]. rewrite !upd_len. exact (i_poolb _ _ I x Hx).
Qed.

Lemma sim_alias : forall cs st ob co, inv cs st -> live cs ob co -> rel (c_alias cs ob) (alias st ob).
Proof.
  intros cs st ob co I Hl. unfold rel, c_alias, alias. cbn [fst snd]. split; [rewrite (i_regs _ _ I); reflexivity|].
  constructor; cbn [cregs cobjs heap pool regs objs]; try apply I.
  - rewrite (i_regs _ _ I). reflexivity.
  - intros r o Hr. destruct (Nat.lt_ge_cases r (length (cregs cs))) as [L|L].
    + rewrite app_nth1 in Hr by exact L. exact (i_reglive _ _ I r o Hr).
    + rewrite app_nth2 in Hr by exact L. destruct (r - length (cregs cs))%nat as [|k]; cbn in Hr; [|destruct k; discriminate].
      injection Hr as <-. exists co. exact Hl.
Qed.

Lemma sim_quiet : forall cs st, inv cs st -> rel (cquiet cs) (quiet st).
Proof. intros. split; [reflexivity|assumption]. Qed.
Lemma sim_fails : forall cs st s, inv cs st -> rel (cfails s cs) (fails s st).
Proof. intros. split; [reflexivity|assumption]. Qed.

(* ================= part HP4 ================= *)

Lemma upd_upd : forall A i (x y : A) l, upd i x (upd i y l) = upd i x l.
Proof. intros A i x y l. revert i. induction l as [|h l IH]; intros [|i]; cbn; auto. f_equal. apply IH. Qed.

(** a live object exchanges some of its buffers for unowned ones; the buffers it gives up may go to the pool *)
Lemma inv_reown : forall cs st ob co co' heap' pool', inv cs st -> live cs ob co ->
  distinct3 (cseq co') (cqual co') (cfeat co') ->
  (forall x, owns co' x -> (x < length heap')%nat) ->
  (forall x, owns co' x -> ~ In x pool') ->
  (forall x, owns co' x -> owns co x \/ (forall o c, live cs o c -> ~ owns c x)) ->
  (forall x, In x pool' -> In x (pool cs) \/ owns co x) ->
  (forall x, In x pool' -> (x < length heap')%nat) ->
  (length (heap cs) <= length heap')%nat ->
  (forall o c x, o <> ob -> live cs o c -> owns c x -> nth x heap' [] = nth x (heap cs) []) ->
  inv (mkcs (cregs cs) (upd ob (Some co') (cobjs cs)) heap' pool')
      (set_obj st ob (mkv (nth (cseq co') heap' []) (nth (cqual co') heap' []) (cmm co') (nth (cfeat co') heap' []) (cmate co'))).
Proof.
  intros cs st ob co co' heap' pool' I Hl D B P K PS PB LL F. pose proof (live_lt _ _ _ Hl) as Lo.
  set (cs' := mkcs (cregs cs) (upd ob (Some co') (cobjs cs)) heap' pool').
  assert (LV : forall o c, live cs' o c <-> ((o = ob /\ c = co') \/ (o <> ob /\ live cs o c))).
  { intros o c. unfold cs'. rewrite live_upd by exact Lo. split.
    - intros [[H1 H2]|H]; [left; split; [exact H1|injection H2; auto]|right; exact H].
    - intros [[H1 H2]|H]; [left; split; [exact H1|rewrite H2; reflexivity]|right; exact H]. }
  assert (DJ : forall o c x, o <> ob -> live cs o c -> owns c x -> ~ owns co' x).
  { intros o c x Hne Hc Hx Hx'. destruct (K x Hx') as [K1|K1].
    - exact (i_disj _ _ I o ob c co x Hc Hl Hne Hx K1).
    - exact (K1 o c Hc Hx). }
  constructor; unfold cs'; cbn [cregs cobjs heap pool]; fold cs'.
  - exact (i_regs _ _ I).
  - unfold set_obj. cbn. rewrite !upd_len. exact (i_len _ _ I).
  - intros r o Hr. destruct (i_reglive _ _ I r o Hr) as [c Hc]. destruct (Nat.eq_dec o ob) as [->|N].
    + exists co'. apply LV. auto.
    + exists c. apply LV. auto.
  - intros o c Hc. apply LV in Hc. destruct Hc as [[-> ->]|[Hne Hc]]; unfold set_obj; cbn [objs].
    + rewrite nth_error_upd_same by (rewrite <- (i_len _ _ I); exact Lo). reflexivity.
    + rewrite nth_error_upd_other by congruence. rewrite (i_sim _ _ I o c Hc). f_equal. symmetry.
      apply cread_frame. intros x Hx. unfold cs'. cbn [heap]. exact (F o c x Hne Hc Hx).
  - intros o c x Hc Hx. apply LV in Hc. destruct Hc as [[-> ->]|[Hne Hc]]; [exact (B x Hx)|].
    pose proof (i_bound _ _ I o c x Hc Hx). lia.
  - intros o c Hc. apply LV in Hc. destruct Hc as [[-> ->]|[Hne Hc]]; [exact D|exact (i_self _ _ I o c Hc)].
  - intros o1 o2 c1 c2 x H1 H2 Hne Hx1 Hx2. apply LV in H1. apply LV in H2.
    destruct H1 as [[-> ->]|[N1 H1]]; destruct H2 as [[-> ->]|[N2 H2]]; try congruence.
    + exact (DJ o2 c2 x N2 H2 Hx2 Hx1).
    + exact (DJ o1 c1 x N1 H1 Hx1 Hx2).
    + exact (i_disj _ _ I o1 o2 c1 c2 x H1 H2 Hne Hx1 Hx2).
  - intros o c x Hc Hx Hin. apply LV in Hc. destruct Hc as [[-> ->]|[Hne Hc]]; [exact (P x Hx Hin)|].
    destruct (PS x Hin) as [Q|Q]; [exact (i_pool _ _ I o c x Hc Hx Q)|exact (i_disj _ _ I o ob c co x Hc Hl Hne Hx Q)].
  - exact PB.
Qed.

Lemma kill_nth : forall ob l r, nth r (map (fun x : option nat => match x with Some o' => if Nat.eqb o' ob then None else x | None => None end) l) None
  = match nth r l None with Some o' => if Nat.eqb o' ob then None else Some o' | None => None end.
Proof. intros ob l. induction l as [|h l IH]; intros [|r]; cbn; auto. destruct h as [o'|]; [destruct (Nat.eqb o' ob)|]; reflexivity. Qed.

Lemma inv_recycle : forall cs st ob co, inv cs st -> live cs ob co ->
  inv (mkcs (map (fun x => match x with Some o' => if Nat.eqb o' ob then None else x | None => None end) (cregs cs))
            (upd ob None (cobjs cs)) (heap cs) (cseq co :: cfeat co :: cqual co :: pool cs))
      (mks (map (fun x => match x with Some o' => if Nat.eqb o' ob then None else x | None => None end) (regs st)) (objs st)).
Proof.
  intros cs st ob co I Hl. pose proof (live_lt _ _ _ Hl) as Lo.
  match goal with |- inv ?c _ => set (cs' := c) end.
  assert (LV : forall o c, live cs' o c <-> (o <> ob /\ live cs o c)).
  { intros o c. unfold cs'. rewrite live_upd by exact Lo. split; [intros [[_ H]|H]; [discriminate|exact H]|auto]. }
  constructor; unfold cs'; cbn [cregs cobjs heap pool regs objs]; fold cs'.
  - rewrite (i_regs _ _ I). reflexivity.
  - rewrite upd_len. exact (i_len _ _ I).
  - intros r o Hr. rewrite kill_nth in Hr. destruct (nth r (cregs cs) None) as [o'|] eqn:E; [|discriminate].
    destruct (Nat.eqb o' ob) eqn:E2; [discriminate|]. injection Hr as <-. apply Nat.eqb_neq in E2.
    destruct (i_reglive _ _ I r o' E) as [c Hc]. exists c. apply LV. auto.
  - intros o c Hc. apply LV in Hc. destruct Hc as [Hne Hc]. exact (i_sim _ _ I o c Hc).
  - intros o c x Hc Hx. apply LV in Hc. destruct Hc as [Hne Hc]. exact (i_bound _ _ I o c x Hc Hx).
  - intros o c Hc. apply LV in Hc. destruct Hc as [Hne Hc]. exact (i_self _ _ I o c Hc).
  - intros o1 o2 c1 c2 x H1 H2. apply LV in H1. apply LV in H2. destruct H1 as [_ H1]. destruct H2 as [_ H2].
    exact (i_disj _ _ I o1 o2 c1 c2 x H1 H2).
  - intros o c x Hc Hx. apply LV in Hc. destruct Hc as [Hne Hc]. intros [Hin|[Hin|[Hin|Hin]]].
    + subst x. exact (i_disj _ _ I o ob c co _ Hc Hl Hne Hx (owns_seq co)).
    + subst x. exact (i_disj _ _ I o ob c co _ Hc Hl Hne Hx (owns_feat co)).
    + subst x. exact (i_disj _ _ I o ob c co _ Hc Hl Hne Hx (owns_qual co)).
    + exact (i_pool _ _ I o c x Hc Hx Hin).
  - intros x [Hin|[Hin|[Hin|Hin]]].
    + subst x. exact (i_bound _ _ I ob co _ Hl (owns_seq co)).
    + subst x. exact (i_bound _ _ I ob co _ Hl (owns_feat co)).
    + subst x. exact (i_bound _ _ I ob co _ Hl (owns_qual co)).
    + exact (i_poolb _ _ I x Hin).
Qed.

Lemma inv_heap_frame : forall cs st heap', inv cs st -> length heap' = length (heap cs) ->
  (forall o c x, live cs o c -> owns c x -> nth x heap' [] = nth x (heap cs) []) ->
  inv (mkcs (cregs cs) (cobjs cs) heap' (pool cs)) st.
Proof.
  intros cs st heap' I L F. constructor; cbn [cregs cobjs heap pool]; try apply I.
  - intros o c Hc. rewrite (i_sim _ _ I o c Hc). f_equal. symmetry. apply cread_frame. intros x Hx. exact (F o c x Hc Hx).
  - intros o c x Hc Hx. rewrite L. exact (i_bound _ _ I o c x Hc Hx).
  - intros x Hx. cbn. rewrite L. exact (i_poolb _ _ I x Hx).
Qed.

(* ================= part HP5 ================= *)

Lemma dispatch : forall cs st r, inv cs st ->
  (nth r (cregs cs) None = None /\ obj_of st r = None) \/
  exists ob co, nth r (cregs cs) None = Some ob /\ live cs ob co /\ obj_of st r = Some ob /\
                nth_error (objs st) ob = Some (cread cs co).
Proof.
  intros cs st r I. unfold obj_of. rewrite <- (i_regs _ _ I). destruct (nth r (cregs cs) None) as [ob|] eqn:E; [right|left; auto].
  destruct (i_reglive _ _ I r ob E) as [co Hco]. exists ob, co. repeat split; auto. exact (i_sim _ _ I ob co Hco).
Qed.

Ltac dispatch_on cs st r I :=
  unfold con; destruct (dispatch cs st r I) as [[D1 D2]|[ob [co [D1 [Hl [D2 D3]]]]]];
  [rewrite D1, D2; apply sim_fails; exact I| rewrite D1, D2, D3; unfold live in Hl; rewrite Hl; fold (live cs ob co) in Hl].

(** writes into an object that is not live (a recycled mate) are invisible *)
Lemma inv_dead_write : forall cs st m x, inv cs st -> (forall co, ~ live cs m co) -> inv cs (set_obj st m x).
Proof.
  intros cs st m x I D. constructor; try apply I.
  - unfold set_obj. cbn. rewrite upd_len. exact (i_len _ _ I).
  - intros o co Hl. unfold set_obj. cbn [objs]. rewrite nth_error_upd_other by (intros ->; exact (D co Hl)). exact (i_sim _ _ I o co Hl).
Qed.

Lemma with_mate_same : forall v, with_mate v (vmate v) = v.
Proof. intros []. reflexivity. Qed.

(** c_setmate simulates "write the mate field of object m if it exists in objs" *)
Lemma sim_setmate : forall cs st m mt, inv cs st ->
  inv (c_setmate cs m mt) (match nth_error (objs st) m with Some vm => set_obj st m (with_mate vm mt) | None => st end).
Proof.
  intros cs st m mt I. unfold c_setmate. destruct (nth_error (cobjs cs) m) as [[co|]|] eqn:E.
  - fold (live cs m co) in E. rewrite (i_sim _ _ I m co E). apply inv_overwrite; assumption.
  - destruct (nth_error (objs st) m) as [vm|]; [|exact I]. apply inv_dead_write; [exact I|]. intros co Hl. unfold live in Hl. congruence.
  - destruct (nth_error (objs st) m) as [vm|] eqn:E2; [|exact I].
    apply nth_error_None in E. assert (nth_error (objs st) m <> None) by congruence. apply nth_error_Some in H. rewrite (i_len _ _ I) in E. lia.
Qed.

Lemma sim_step : forall cs st o, inv cs st -> rel (cstep cs o) (step st (abs_op o)).
Proof.
  intros cs st o I. destruct o; cbn [cstep abs_op step].
  - (* new *) apply sim_alloc. exact I.
  - (* copy *) dispatch_on cs st r I. apply sim_alloc. exact I.
  - (* rc *) dispatch_on cs st r I. destruct (rc_val (cread cs co)) as [v'| |]; try (apply sim_fails; exact I).
    destruct inplace; [|apply sim_alloc; exact I].
    pose proof (inv_overwrite cs st ob co v' I Hl) as I'.
    apply (sim_alias _ _ ob (mkco (cseq co) (cqual co) (cfeat co) (vmm v') (vmate v')) I').
    unfold live, c_overwrite. cbn. apply nth_error_upd_same. exact (live_lt _ _ _ Hl).
  - (* sub *) dispatch_on cs st r I. destruct (sub_val (cread cs co) from to circ) as [v'| |]; try (apply sim_fails; exact I).
    apply sim_alloc. exact I.
  - (* setseq *) dispatch_on cs st r I. destruct (acquire c1 (to_lower s) cs) as [b cs1] eqn:A.
    destruct (inv_acquire _ _ _ _ _ _ I A) as [I1 [U1 [N1 [P1 [L1 [R1 [O1 [F1 S1]]]]]]]].
    assert (Hl1 : live cs1 ob co) by (unfold live; rewrite O1; exact Hl).
    assert (Nb : cqual co <> b) by (intros E; apply (U1 ob co Hl); rewrite <- E; apply owns_qual).
    assert (Nf : cfeat co <> b) by (intros E; apply (U1 ob co Hl); rewrite <- E; apply owns_feat).
    pose proof (i_self _ _ I ob co Hl) as SELF. unfold distinct3 in SELF.
    pose proof (inv_reown cs1 st ob co (mkco b (cqual co) (cfeat co) (cmm co) (cmate co)) (heap cs1) (pool cs1) I1 Hl1) as K.
    cbn [cseq cqual cfeat cmm cmate] in K. rewrite N1 in K.
    rewrite (F1 _ Nb), (F1 _ Nf) in K.
    split; [reflexivity|]. cbn [snd]. apply K; clear K.
    + unfold distinct3. intuition congruence.
    + intros x [->|[->| ->]]; [exact L1| |].
      * exact (i_bound _ _ I1 ob co _ Hl1 (owns_qual co)).
      * exact (i_bound _ _ I1 ob co _ Hl1 (owns_feat co)).
    + intros x [->|[->| ->]]; [exact P1| |].
      * exact (i_pool _ _ I1 ob co _ Hl1 (owns_qual co)).
      * exact (i_pool _ _ I1 ob co _ Hl1 (owns_feat co)).
    + intros x [->|[->| ->]]; cbn [cseq cqual cfeat]; [right|left; apply owns_qual|left; apply owns_feat].
      intros o c Hc. apply (U1 o c). unfold live in *. rewrite <- O1. exact Hc.
    + intros x Hx. left. exact Hx.
    + exact (i_poolb _ _ I1).
    + lia.
    + reflexivity.
  - (* setqual *) dispatch_on cs st r I.
    set (cs0 := mkcs (cregs cs) (upd ob None (cobjs cs)) (heap cs) (cqual co :: pool cs)).
    destruct (acquire c1 q cs0) as [b cs1] eqn:A.
    assert (B1 := i_bound _ _ I ob co (cseq co) Hl (owns_seq co)).
    assert (B2 := i_bound _ _ I ob co (cqual co) Hl (owns_qual co)).
    assert (B3 := i_bound _ _ I ob co (cfeat co) Hl (owns_feat co)).
    pose proof (i_self _ _ I ob co Hl) as SELF. unfold distinct3 in SELF.
    assert (PB0 : pool_bounded cs0).
    { intros x [<-|Hx]; [exact B2|exact (i_poolb _ _ I x Hx)]. }
    destruct (acquire_spec _ _ _ _ _ PB0 A) as [R [O [N1 [N2 [P1 [P2 [P3 [LL1 LL2]]]]]]]].
    unfold cs0 in R, O, P2, P3, LL1, N2. cbn [cregs cobjs heap pool] in R, O, P2, P3, LL1, N2.
    rewrite R, O, upd_upd.
    assert (Ns : forall y, (y = cseq co \/ y = cfeat co) -> y <> b).
    { intros y Hy <-. destruct P3 as [[P3|P3]|P3].
      - destruct Hy as [Hy|Hy]; rewrite Hy in P3; intuition congruence.
      - destruct Hy as [Hy|Hy]; subst y; [exact (i_pool _ _ I ob co _ Hl (owns_seq co) P3)|exact (i_pool _ _ I ob co _ Hl (owns_feat co) P3)].
      - destruct Hy as [Hy|Hy]; subst y; lia. }
    assert (UO : forall o c x, o <> ob -> live cs o c -> owns c x -> x <> b).
    { intros o c x Hne Hc Hx ->. destruct P3 as [[P3|P3]|P3].
      - subst b. exact (i_disj _ _ I o ob c co _ Hc Hl Hne Hx (owns_qual co)).
      - exact (i_pool _ _ I o c _ Hc Hx P3).
      - pose proof (i_bound _ _ I o c _ Hc Hx). lia. }
    pose proof (inv_reown cs st ob co (mkco (cseq co) b (cfeat co) (cmm co) (cmate co)) (heap cs1) (pool cs1) I Hl) as K.
    cbn [cseq cqual cfeat cmm cmate] in K. rewrite N1 in K.
    rewrite (N2 (cseq co) (Ns _ (or_introl eq_refl))), (N2 (cfeat co) (Ns _ (or_intror eq_refl))) in K.
    split; [reflexivity|]. cbn [snd]. apply K; clear K.
    + pose proof (Ns _ (or_introl eq_refl)). pose proof (Ns _ (or_intror eq_refl)). unfold distinct3. intuition congruence.
    + intros x [->|[->| ->]]; cbn [cseq cqual cfeat]; solve [lia | exact LL2].
    + assert (NP : forall y, (y = cseq co \/ y = cfeat co) -> ~ In y (pool cs1)).
      { intros y Hy Hin. destruct (P2 _ Hin) as [E|E].
        - destruct Hy as [Hy|Hy]; rewrite Hy in E; intuition congruence.
        - destruct Hy as [Hy|Hy]; subst y; [exact (i_pool _ _ I ob co _ Hl (owns_seq co) E)|exact (i_pool _ _ I ob co _ Hl (owns_feat co) E)]. }
      intros x [->|[->| ->]]; cbn [cseq cqual cfeat]; solve [exact P1 | apply NP; auto].
    + assert (KB : owns co b \/ (forall o c, live cs o c -> ~ owns c b)).
      { destruct (Nat.eq_dec b (cqual co)) as [->|Nq]; [left; apply owns_qual|right].
        intros o c Hc Hx. destruct (Nat.eq_dec o ob) as [->|Hne].
        - unfold live in Hc, Hl. rewrite Hl in Hc. injection Hc as <-.
          destruct Hx as [Hx|[Hx|Hx]]; try congruence;
            solve [exact (Ns _ (or_introl eq_refl) (eq_sym Hx)) | exact (Ns _ (or_intror eq_refl) (eq_sym Hx))].
        - exact (UO o c b Hne Hc Hx eq_refl). }
      intros x [->|[->| ->]]; cbn [cseq cqual cfeat]; solve [exact KB | left; apply owns_seq | left; apply owns_feat].
    + intros x Hin. destruct (P2 _ Hin) as [E|E]; [right; subst x; apply owns_qual|left; exact E].
    + intros x Hin. destruct (P2 _ Hin) as [E|E]; [subst x; lia|]. pose proof (i_poolb _ _ I x E). lia.
    + exact LL1.
    + intros o c x Hne Hc Hx. apply N2. exact (UO o c x Hne Hc Hx).
  - (* setfeat *) dispatch_on cs st r I.
    set (cs0 := mkcs (cregs cs) (upd ob None (cobjs cs)) (heap cs) (cfeat co :: pool cs)).
    destruct (acquire c1 f cs0) as [b cs1] eqn:A.
    assert (B1 := i_bound _ _ I ob co (cseq co) Hl (owns_seq co)).
    assert (B2 := i_bound _ _ I ob co (cfeat co) Hl (owns_feat co)).
    assert (B3 := i_bound _ _ I ob co (cqual co) Hl (owns_qual co)).
    pose proof (i_self _ _ I ob co Hl) as SELF. unfold distinct3 in SELF.
    assert (PB0 : pool_bounded cs0).
    { intros x [<-|Hx]; [exact B2|exact (i_poolb _ _ I x Hx)]. }
    destruct (acquire_spec _ _ _ _ _ PB0 A) as [R [O [N1 [N2 [P1 [P2 [P3 [LL1 LL2]]]]]]]].
    unfold cs0 in R, O, P2, P3, LL1, N2. cbn [cregs cobjs heap pool] in R, O, P2, P3, LL1, N2.
    rewrite R, O, upd_upd.
    assert (Ns : forall y, (y = cseq co \/ y = cqual co) -> y <> b).
    { intros y Hy <-. destruct P3 as [[P3|P3]|P3].
      - destruct Hy as [Hy|Hy]; rewrite Hy in P3; intuition congruence.
      - destruct Hy as [Hy|Hy]; subst y; [exact (i_pool _ _ I ob co _ Hl (owns_seq co) P3)|exact (i_pool _ _ I ob co _ Hl (owns_qual co) P3)].
      - destruct Hy as [Hy|Hy]; subst y; lia. }
    assert (UO : forall o c x, o <> ob -> live cs o c -> owns c x -> x <> b).
    { intros o c x Hne Hc Hx ->. destruct P3 as [[P3|P3]|P3].
      - subst b. exact (i_disj _ _ I o ob c co _ Hc Hl Hne Hx (owns_feat co)).
      - exact (i_pool _ _ I o c _ Hc Hx P3).
      - pose proof (i_bound _ _ I o c _ Hc Hx). lia. }
    pose proof (inv_reown cs st ob co (mkco (cseq co) (cqual co) b (cmm co) (cmate co)) (heap cs1) (pool cs1) I Hl) as K.
    cbn [cseq cqual cfeat cmm cmate] in K. rewrite N1 in K.
    rewrite (N2 (cseq co) (Ns _ (or_introl eq_refl))), (N2 (cqual co) (Ns _ (or_intror eq_refl))) in K.
    split; [reflexivity|]. cbn [snd]. apply K; clear K.
    + pose proof (Ns _ (or_introl eq_refl)). pose proof (Ns _ (or_intror eq_refl)). unfold distinct3. intuition congruence.
    + intros x [->|[->| ->]]; cbn [cseq cqual cfeat]; solve [lia | exact LL2].
    + assert (NP : forall y, (y = cseq co \/ y = cqual co) -> ~ In y (pool cs1)).
      { intros y Hy Hin. destruct (P2 _ Hin) as [E|E].
        - destruct Hy as [Hy|Hy]; rewrite Hy in E; intuition congruence.
        - destruct Hy as [Hy|Hy]; subst y; [exact (i_pool _ _ I ob co _ Hl (owns_seq co) E)|exact (i_pool _ _ I ob co _ Hl (owns_qual co) E)]. }
      intros x [->|[->| ->]]; cbn [cseq cqual cfeat]; solve [exact P1 | apply NP; auto].
    + assert (KB : owns co b \/ (forall o c, live cs o c -> ~ owns c b)).
      { destruct (Nat.eq_dec b (cfeat co)) as [->|Nq]; [left; apply owns_feat|right].
        intros o c Hc Hx. destruct (Nat.eq_dec o ob) as [->|Hne].
        - unfold live in Hc, Hl. rewrite Hl in Hc. injection Hc as <-.
          destruct Hx as [Hx|[Hx|Hx]]; try congruence;
            solve [exact (Ns _ (or_introl eq_refl) (eq_sym Hx)) | exact (Ns _ (or_intror eq_refl) (eq_sym Hx))].
        - exact (UO o c b Hne Hc Hx eq_refl). }
      intros x [->|[->| ->]]; cbn [cseq cqual cfeat]; solve [exact KB | left; apply owns_seq | left; apply owns_qual].
    + intros x Hin. destruct (P2 _ Hin) as [E|E]; [right; subst x; apply owns_feat|left; exact E].
    + intros x Hin. destruct (P2 _ Hin) as [E|E]; [subst x; lia|]. pose proof (i_poolb _ _ I x E). lia.
    + exact LL1.
    + intros o c x Hne Hc Hx. apply N2. exact (UO o c x Hne Hc Hx).
  - (* poke *) dispatch_on cs st r I. apply sim_quiet. apply inv_overwrite; assumption.
  - (* pokeq *) dispatch_on cs st r I. apply sim_quiet. apply inv_overwrite; assumption.
  - (* pokef *) dispatch_on cs st r I. apply sim_quiet. apply inv_overwrite; assumption.
  - (* setmm *) dispatch_on cs st r I. apply sim_quiet. apply inv_overwrite; assumption.
  - (* pokemm *) dispatch_on cs st r I. apply sim_quiet. apply inv_overwrite; assumption.
  - (* write *) dispatch_on cs st r I. apply sim_quiet. apply inv_overwrite; assumption.
  - (* join *) dispatch_on cs st r I.
    unfold con; destruct (dispatch cs st r2 I) as [[E1 E2]|[ob2 [co2 [E1 [Hl2 [E2 E3]]]]]];
      [rewrite E1, E2; apply sim_fails; exact I|rewrite E1, E2, E3; unfold live in Hl2; rewrite Hl2; fold (live cs ob2 co2) in Hl2].
    destruct inplace; [|apply sim_alloc; exact I].
    match goal with |- rel (c_alias (c_overwrite cs ob co ?v) ob) _ => set (v' := v) end.
    pose proof (inv_overwrite cs st ob co v' I Hl) as I'.
    apply (sim_alias _ _ ob (mkco (cseq co) (cqual co) (cfeat co) (vmm v') (vmate v')) I').
    unfold live, c_overwrite. cbn. apply nth_error_upd_same. exact (live_lt _ _ _ Hl).
  - (* pair *) dispatch_on cs st r I.
    unfold con; destruct (dispatch cs st r2 I) as [[E1 E2]|[ob2 [co2 [E1 [Hl2 [E2 E3]]]]]];
      [rewrite E1, E2; apply sim_fails; exact I|rewrite E1, E2, E3; unfold live in Hl2; rewrite Hl2; fold (live cs ob2 co2) in Hl2].
    pose proof (inv_overwrite cs st ob co (with_mate (cread cs co) (Some ob2)) I Hl) as I1.
    pose proof (sim_setmate _ _ ob2 (Some ob) I1) as I2.
    destruct (nth_error (objs (set_obj st ob (with_mate (cread cs co) (Some ob2)))) ob2); (split; [reflexivity|exact I2]).
  - (* unpair *) dispatch_on cs st r I.
    assert (I1 : inv (match cmate co with Some m => c_setmate cs m None | None => cs end)
                     (match vmate (cread cs co) with
                      | Some m => match nth_error (objs st) m with Some vm => set_obj st m (with_mate vm None) | None => st end
                      | None => st end)).
    { unfold cread. cbn [vmate]. destruct (cmate co) as [m|]; [apply sim_setmate; exact I|exact I]. }
    pose proof (sim_setmate _ _ ob None I1) as I2.
    match goal with |- rel _ (match ?x with _ => _ end) => destruct x end; (split; [reflexivity|exact I2]).
  - (* recycle *) dispatch_on cs st r I. split; [reflexivity|]. cbn [snd]. apply inv_recycle; assumption.
  - (* churn *) destruct (nth_error (pool cs) k) as [b|] eqn:E; [|apply sim_quiet; exact I].
    apply sim_quiet. apply inv_heap_frame; [exact I|apply upd_len|].
    intros o c x Hc Hx. apply nth_upd_other. intros <-. exact (i_pool _ _ I o c _ Hc Hx (nth_error_In _ _ E)).
  - (* edit *) dispatch_on cs st r I. apply sim_quiet. apply inv_overwrite; assumption.
Qed.

(** every history, every hand-out order of the pool: the objects behave as values *)
Lemma sim_run : forall ops cs st, inv cs st ->
  fst (crun cs ops) = fst (run st (map abs_op ops)) /\ inv (snd (crun cs ops)) (snd (run st (map abs_op ops))).
Proof.
  induction ops as [|o ops IH]; intros cs st I; [split; [reflexivity|exact I]|].
  cbn [crun run map]. destruct (sim_step cs st o I) as [E I'].
  destruct (cstep cs o) as [r cs']. destruct (step st (abs_op o)) as [r' st']. cbn [fst snd] in E, I'. subst r'.
  destruct (IH cs' st' I') as [E2 I2]. destruct (crun cs' ops) as [rs cs'']. destruct (run st' (map abs_op ops)) as [rs' st''].
  cbn [fst snd] in *. subst rs'. split; [reflexivity|exact I2].
Qed.

Lemma inv_reads : forall cs st r, inv cs st -> cval_of cs r = val_of st r.
Proof.
  intros cs st r I. unfold cval_of, val_of. destruct (dispatch cs st r I) as [[D1 D2]|[ob [co [D1 [Hl [D2 D3]]]]]].
  - rewrite D1, D2. reflexivity.
  - rewrite D1, D2, D3. unfold live in Hl. rewrite Hl. reflexivity.
Qed.

Lemma no_shared_state : forall ops, let '(rs, cs) := crun cst0 ops in let '(rs', st) := run st0 (map abs_op ops) in
  rs = rs' /\ forall r, cval_of cs r = val_of st r.
Proof.
  intros ops. destruct (sim_run ops cst0 st0 inv0) as [E I].
  destruct (crun cst0 ops) as [rs cs]. destruct (run st0 (map abs_op ops)) as [rs' st]. cbn [fst snd] in *.
  split; [exact E|]. intros r. apply inv_reads. exact I.
Qed.

(* ================= part HP6 ================= *)
Open Scope N_scope.

(** the pre-repair SetQualities leaves the object's NEW quality buffer in the pool: the next hand-out
    overwrites the qualities of a live object (a = acgt/[1;2;3;4]; a.SetQualities([5;6;7;8]); new gggg) *)
Lemma setqualities_orig_refuted :
  let '(_, cs1) := cstep cst0 (CNew [97;99;103;116] [1;2;3;4] None [] true CFresh CFresh CFresh) in
  let cs2 := csetqual_orig cs1 0 [5;6;7;8] CFresh in
  let '(_, cs3) := cstep cs2 (CNew [103;103;103;103] [] None [] true (CPool 0) CFresh CFresh) in
  cval_of cs2 0 = Some (mkv [97;99;103;116] [5;6;7;8] None [] None) /\
  cval_of cs3 0 = Some (mkv [97;99;103;116] [103;103;103;103] None [] None).
Proof. vm_compute. split; reflexivity. Qed.

