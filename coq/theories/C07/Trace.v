(** C07 — tie between the ownership model (Heap.v) and the REAL byte-slice pool.
    The harness runs a history with the verif hook of pkg/obiseq tracing every Get / Recycle of
    [_BioSequenceByteSlicePool]; the events of each operation and, after each operation, the identities
    (addresses renamed to small integers) of the three backing arrays of every register are given to
    [trun], which replays the history on the ownership model of Heap.v with the hand-out choices THE REAL
    POOL MADE (read off the identities of the buffers the objects hold afterwards):
      - every Get event must be enabled in the model: the buffer it hands out is unknown to the model
        (sync.Pool.New, or recycled before the history began) or is NOT owned by a live object of the model
        (unless the same operation recycled it just before: SetQualities);
      - every Recycle event must release a buffer that no live object of the model owns after the operation;
      - a buffer an operation gives to a new object / installs in its target is, for the model, a buffer of
        its pool (choice [CPool k]: the reuse is replayed), a fresh one, or garbage — never a buffer owned by
        a live object (aliasing);
      - no two different live objects may hold overlapping backing arrays (measured on addresses by the harness);
      - after every operation the naming (real buffer -> model buffer) of the buffers of all live registers
        must stay a partial injection: two registers share a real buffer iff they share the model buffer;
        a buffer may change its real identity only through an appending operation (Write / Join /
        circular Subsequence: Go's append reallocates), and then only to a never-seen array;
      - the step results and the final values (with features and mates) must be those of the model run.
    Only safety is enforced, not the exact list of Gets an operation performs: a refactoring that takes more
    or fewer buffers from the pool stays silent as long as ownership is respected.
    Since the derived run is a [crun] of Heap.v, theorem C07_no_shared_state applies to it: the real
    hand-out order is one of the orders the theorem quantifies over (C07_trace_accepted_is_value_run).
    Executable definitions only. *)
From Coq Require Import NArith ZArith List Bool.
From OBI.C07 Require Import Model Heap.
Import ListNotations.
Open Scope N_scope.

Inductive ev := EvG (d : Z) (c : N) | EvR (d : Z) (c : N).     (* d: buffer identity, -1 = nil header; c: capacity *)

Definition names := list (Z * nat).
Fixpoint nlookup (d : Z) (nm : names) : option nat :=
  match nm with [] => None | (d', b) :: t => if (d =? d')%Z then Some b else nlookup d t end.
Fixpoint rlookup (b : nat) (nm : names) : option Z :=
  match nm with [] => None | (d, b') :: t => if Nat.eqb b b' then Some d else rlookup b t end.
Fixpoint nremove (b : nat) (nm : names) : names :=
  match nm with [] => [] | (d, b') :: t => if Nat.eqb b b' then nremove b t else (d, b') :: nremove b t end.
Fixpoint index_of (b : nat) (l : list nat) (k : nat) : option nat :=
  match l with [] => None | x :: t => if Nat.eqb x b then Some k else index_of b t (S k) end.

(** error codes *)
Definition E_NOT_FREE := 2%nat.         (* the pool handed out a buffer a live object of the model owns *)
Definition E_RECYCLED_LIVE := 3%nat.    (* a buffer was recycled that a live object still owns after the operation *)
Definition E_IDENTITY := 4%nat.         (* the buffers of the registers are not those of the model (aliasing / unexpected move) *)
Definition E_STEP := 5%nat.             (* status / result register / alias differ *)
Definition E_FINAL := 6%nat.            (* final values differ *)
Definition E_SHAPE := 7%nat.            (* malformed case *)
Definition E_SHARED := 8%nat.           (* the backing arrays of two different live objects overlap *)

Inductive tres (A : Type) := TOk (a : A) | TBad (code : nat).
Arguments TOk {A} a. Arguments TBad {A} code.

Definition owned_by_live (cs : cstate) (b : nat) : bool :=
  existsb (fun o => match o with
                    | Some co => Nat.eqb b (cseq co) || Nat.eqb b (cqual co) || Nat.eqb b (cfeat co)
                    | None => false end) (cobjs cs).

(** the events of one operation against the state BEFORE it: Some (model buffers recycled) | None: a Get handed
    out a buffer owned by a live object *)
Fixpoint events_ok (nm : names) (cs : cstate) (rel : list nat) (evs : list ev) : option (list nat) :=
  match evs with
  | [] => Some rel
  | EvG d _ :: rest =>
    match nlookup d nm with
    | Some b => if owned_by_live cs b && negb (existsb (Nat.eqb b) rel) then None
                else events_ok nm cs (remove_all b rel) rest        (* taken again: no longer released *)
    | None => events_ok nm cs rel rest
    end
  | EvR d _ :: rest =>
    match nlookup d nm with Some b => events_ok nm cs (b :: rel) rest | None => events_ok nm cs rel rest end
  end.

(** the hand-out choice that gives the model the buffer the real object holds afterwards (identity [i]);
    [vp]: the model's pool at that acquire *)
Definition choice_of (nm : names) (cs : cstate) (vp : list nat) (i : Z) : tres (choice * list nat * names) :=
  if (i <? 0)%Z then TOk (CFresh, vp, nm)
  else match nlookup i nm with
       | None => TOk (CFresh, vp, nm)
       | Some b => match index_of b vp 0 with
                   | Some k => TOk (CPool k, remove_all b vp, nm)
                   | None => if owned_by_live cs b then TBad E_IDENTITY          (* a live object's buffer was given away *)
                             else TOk (CFresh, vp, nremove b nm)                 (* garbage for the model: a new model buffer takes the name *)
                   end
       end.

Definition choice3 (nm : names) (cs : cstate) (vp : list nat) (ids : Z * Z * Z) : tres (choice * choice * choice * names) :=
  let '(i1, i2, i3) := ids in
  match choice_of nm cs vp i1 with TBad e => TBad e | TOk (c1, vp1, nm1) =>
  match choice_of nm1 cs vp1 i2 with TBad e => TBad e | TOk (c2, vp2, nm2) =>
  match choice_of nm2 cs vp2 i3 with TBad e => TBad e | TOk (c3, _, nm3) => TOk (c1, c2, c3, nm3) end end end.

Definition cobj_of (cs : cstate) (r : nat) : option cobj :=
  match nth r (cregs cs) None with
  | None => None
  | Some ob => match nth_error (cobjs cs) ob with Some (Some co) => Some co | _ => None end
  end.

(** the operation of the ownership model with the choices of the real pool; [bufs]: identities after the step *)
Definition derive (nm : names) (cs : cstate) (o : op) (bufs : list (Z * Z * Z)) : tres (cop * names) :=
  let none := ((-1)%Z, (-1)%Z, (-1)%Z) in
  let newids := nth (length (cregs cs)) bufs none in          (* the register a producing operation fills *)
  let vp := pool cs in
  let alloc3 (mk : choice -> choice -> choice -> cop) :=
    match choice3 nm cs vp newids with TBad e => TBad e | TOk (c1, c2, c3, nm') => TOk (mk c1 c2 c3, nm') end in
  match o with
  | ONew s q m f lower => alloc3 (CNew s q m f lower)
  | OCopy r => alloc3 (CCopy r)
  | ORc r inplace => if inplace then TOk (CRc r true CFresh CFresh CFresh, nm) else alloc3 (CRc r false)
  | OSub r from to circ => alloc3 (CSub r from to circ)
  | OJoin r r2 inplace => if inplace then TOk (CJoin r r2 true CFresh CFresh CFresh, nm) else alloc3 (CJoin r r2 false)
  | OSetSeq r s =>
    match choice_of nm cs vp (fst (fst (nth r bufs none))) with TBad e => TBad e | TOk (c1, _, nm') => TOk (CSetSeq r s c1, nm') end
  | OSetQual r q =>
    match cobj_of cs r with
    | None => TOk (CSetQual r q CFresh, nm)
    | Some co => match choice_of nm cs (cqual co :: vp) (snd (fst (nth r bufs none))) with TBad e => TBad e
                 | TOk (c1, _, nm') => TOk (CSetQual r q c1, nm') end
    end
  | OSetFeat r f =>
    match cobj_of cs r with
    | None => TOk (CSetFeat r f CFresh, nm)
    | Some co => match choice_of nm cs (cfeat co :: vp) (snd (nth r bufs none)) with TBad e => TBad e
                 | TOk (c1, _, nm') => TOk (CSetFeat r f c1, nm') end
    end
  | ORecycle r => TOk (CRecycle r, nm)
  | ONop => TOk (CChurn 0 [219], nm)
  | OPoke r i b => TOk (CPoke r i b, nm)
  | OPokeQ r i b => TOk (CPokeQ r i b, nm)
  | OPokeF r i b => TOk (CPokeF r i b, nm)
  | OSetMm r m => TOk (CSetMm r m, nm)
  | OPokeMm r k p => TOk (CPokeMm r k p, nm)
  | OWrite r s => TOk (CWrite r s, nm)
  | OPair r r2 => TOk (CPair r r2, nm)
  | OUnpair r => TOk (CUnpair r, nm)
  | OEdit r e => TOk (CEdit r e, nm)
  end.

Definition is_nil {A} (l : list A) : bool := match l with [] => true | _ => false end.

(** operations through which Go's append may move a buffer to a new array *)
Definition may_move (o : op) : bool :=
  match o with OWrite _ _ | OJoin _ _ _ | OSub _ _ _ true | OEdit _ (EWriteQ _) | OEdit _ EGrow => true | _ => false end.

(** bind the real identity [i] (-1: none) to the model buffer [b] *)
Definition bind (mv : bool) (i : Z) (b : nat) (nm : names) : option names :=
  if (i <? 0)%Z then Some nm
  else match nlookup i nm with
       | Some b' => if Nat.eqb b' b then Some nm else None
       | None => match rlookup b nm with
                 | None => Some ((i, b) :: nm)
                 | Some _ => if mv then Some ((i, b) :: nremove b nm) else None
                 end
       end.

Fixpoint sync_names (mv : bool) (cs : cstate) (rg : list (option nat)) (bufs : list (Z * Z * Z)) (nm : names) : option names :=
  match rg, bufs with
  | [], [] => Some nm
  | r :: rg', (i1, i2, i3) :: bufs' =>
    let co := match r with Some ob => match nth_error (cobjs cs) ob with Some (Some co) => Some co | _ => None end | None => None end in
    match co with
    | None => if ((i1 <? 0) && (i2 <? 0) && (i3 <? 0))%Z then sync_names mv cs rg' bufs' nm else None
    | Some co =>
      match bind mv i1 (cseq co) nm with None => None | Some nm1 =>
      match bind mv i2 (cqual co) nm1 with None => None | Some nm2 =>
      match bind mv i3 (cfeat co) nm2 with None => None | Some nm3 => sync_names mv cs rg' bufs' nm3 end end end
    end
  | _, _ => None
  end.

(** [tshared]: number of pairs of DIFFERENT live objects whose backing arrays (whole capacity) overlap, as measured
    by the harness on addresses — catches a window that aliases the inside of another object's array, which the
    start-address identities cannot see *)
Record tstepobs := mkts { tevs : list ev; tbufs : list (Z * Z * Z); tres_obs : status * Z * Z; tshared : nat }.
Record tcase := mktc { tops : list op; tsteps : list tstepobs; tfinal : list (option oval) }.

(** number of hand-outs of a pooled buffer (CPool choices) in an operation *)
Definition is_pool (c : choice) : nat := match c with CPool _ => 1%nat | CFresh => 0%nat end.
Definition reuses (o : cop) : nat :=
  match o with
  | CNew _ _ _ _ _ c1 c2 c3 | CCopy _ c1 c2 c3 | CRc _ _ c1 c2 c3 | CSub _ _ _ _ c1 c2 c3 | CJoin _ _ _ c1 c2 c3 => is_pool c1 + is_pool c2 + is_pool c3
  | CSetSeq _ _ c1 | CSetQual _ _ c1 | CSetFeat _ _ c1 => is_pool c1
  | _ => 0%nat
  end.

(** replay: Ok (number of pooled hand-outs) or the first rejected step with its error code *)
Fixpoint trun (k : nat) (cs : cstate) (nm : names) (ops : list op) (steps : list tstepobs) (reuse : nat)
  : (cstate * nat) + (nat * nat) :=
  match ops, steps with
  | [], [] => inl (cs, reuse)
  | o :: ops', s :: steps' =>
    match events_ok nm cs [] (tevs s) with
    | None => inr (k, E_NOT_FREE)
    | Some rel =>
      match derive nm cs o (tbufs s) with
      | TBad e => inr (k, e)
      | TOk (co, nm0) =>
        let '(r, cs') := cstep cs co in
        if negb (stepobs_eqb r (tres_obs s)) then inr (k, E_STEP)
        else if negb (Nat.eqb (tshared s) 0) then inr (k, E_SHARED)
        else if existsb (owned_by_live cs') rel then inr (k, E_RECYCLED_LIVE)
        else match sync_names (may_move o) cs' (cregs cs') (tbufs s) nm0 with
             | None => inr (k, E_IDENTITY)
             | Some nm' => trun (S k) cs' nm' ops' steps' (reuse + reuses co)
             end
      end
    end
  | _, _ => inr (k, E_SHAPE)
  end.

Definition tcase_res (c : tcase) : (nat * nat) + (nat * nat) :=      (* inl (0, reuses) | inr (step, code) *)
  match trun 0 cst0 [] (tops c) (tsteps c) 0 with
  | inr e => inr e
  | inl (cs, n) => if list_eqb ovalue_eqb (csnapshot cs) (tfinal c) then inl (0%nat, n) else inr (length (tops c), E_FINAL)
  end.

Definition tcase_ok (c : tcase) : bool := match tcase_res c with inl _ => true | inr _ => false end.
Fixpoint tmismatches_from (i : nat) (l : list tcase) : list nat :=
  match l with
  | [] => []
  | c :: l' => let rest := tmismatches_from (S i) l' in if tcase_ok c then rest else i :: rest
  end.
Definition trace_mismatches := tmismatches_from 0.

(** diagnostics for a replay: (step, code) of each rejected case, (0,0) for accepted ones — and the total of pooled hand-outs *)
Definition trace_verdicts (l : list tcase) : list (nat * nat) :=
  map (fun c => match tcase_res c with inl _ => (0%nat, 0%nat) | inr e => e end) l.
Definition trace_reuses (l : list tcase) : nat :=
  fold_right (fun c acc => match tcase_res c with inl (_, n) => (n + acc)%nat | inr _ => acc end) 0%nat l.

(** one pass: (indices of the rejected cases, total of pooled hand-outs in the accepted ones) *)
Fixpoint trace_summary_from (i : nat) (l : list tcase) : list nat * nat :=
  match l with
  | [] => ([], 0%nat)
  | c :: l' => let '(bad, n) := trace_summary_from (S i) l' in
               match tcase_res c with inl (_, k) => (bad, (k + n)%nat) | inr _ => (i :: bad, n) end
  end.
Definition trace_summary := trace_summary_from 0.
