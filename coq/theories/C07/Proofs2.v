(** C07 round 2 — proofs: exact involution domain, Join with qualities, paired links, and the theorem that
    a real pool trace accepted by Trace.trun is a run of the ownership model (assembled from scratch files that compiled). *)
From Coq Require Import NArith ZArith List Bool Lia Arith.
From OBI.C07.Gen Require Import Tables.
From OBI.C07 Require Import Model Proofs Heap HeapProofs Trace.
Import ListNotations.
Open Scope N_scope.

(** ---------------- exact involution domain (goal 5) *)
Definition upper_letters : list N := map (fun c => c - 32) iupac_letters.
Definition lower1 (c : N) : N := if (65 <=? c) && (c <=? 90) then N.lor c 32 else c.
Lemma to_lower_map : forall s, to_lower s = map lower1 s.
Proof. reflexivity. Qed.

Lemma comp_comp_lowers : forall c, In c (iupac ++ upper_letters) -> comp (comp c) = lower1 c /\ In (lower1 c) iupac.
Proof.
  assert (H : forallb (fun c => (comp (comp c) =? lower1 c) && mem (lower1 c) iupac) (iupac ++ upper_letters) = true) by (vm_compute; reflexivity).
  intros c Hc. rewrite forallb_forall in H. specialize (H c Hc). apply andb_prop in H. destruct H as [H1 H2].
  split; [apply N.eqb_eq; exact H1|]. unfold mem in H2. apply existsb_exists in H2. destruct H2 as [x [Hx E]]. apply N.eqb_eq in E. subst x. exact Hx.
Qed.

Lemma lower1_fix_iff : forall c, In c (iupac ++ upper_letters) -> (lower1 c = c <-> In c iupac).
Proof.
  assert (H : forallb (fun c => Bool.eqb (lower1 c =? c) (mem c iupac)) (iupac ++ upper_letters) = true) by (vm_compute; reflexivity).
  intros c Hc. rewrite forallb_forall in H. specialize (H c Hc). apply Bool.eqb_prop in H. split.
  - intros E. apply N.eqb_eq in E. rewrite E in H. symmetry in H. unfold mem in H. apply existsb_exists in H.
    destruct H as [x [Hx E2]]. apply N.eqb_eq in E2. subst x. exact Hx.
  - intros Hi. assert (M : mem c iupac = true) by (unfold mem; apply existsb_exists; exists c; split; [exact Hi|apply N.eqb_refl]).
    rewrite M in H. apply N.eqb_eq. exact H.
Qed.

Lemma rc_rc_map : forall s, rc (rc s) = map (fun c => comp (comp c)) s.
Proof. intros s. unfold rc. rewrite map_rev, rev_involutive, map_map. reflexivity. Qed.

Definition on_iupac_any_case (s : list N) : Prop := Forall (fun c => In c (iupac ++ upper_letters)) s.

Lemma rc_involution_domain : forall s, on_iupac_any_case s ->
  rc (rc s) = to_lower s /\ on_iupac (to_lower s) /\ (rc (rc s) = s <-> on_iupac s).
Proof.
  intros s H. rewrite rc_rc_map, to_lower_map.
  assert (E : map (fun c => comp (comp c)) s = map lower1 s).
  { apply map_ext_in. intros c Hc. unfold on_iupac_any_case in H. rewrite Forall_forall in H. exact (proj1 (comp_comp_lowers c (H c Hc))). }
  split; [exact E|]. split.
  - unfold on_iupac. rewrite Forall_forall. intros x Hx. apply in_map_iff in Hx. destruct Hx as [c [<- Hc]].
    unfold on_iupac_any_case in H. rewrite Forall_forall in H. exact (proj2 (comp_comp_lowers c (H c Hc))).
  - rewrite E. clear E. induction H as [|c s Hc Hs IH]; [split; [constructor|reflexivity]|].
    cbn [map]. split.
    + intros Eq. injection Eq as E1 E2. constructor; [apply (lower1_fix_iff c Hc); exact E1|apply IH; exact E2].
    + intros Hi. inversion Hi as [|? ? Hi1 Hi2]; subst. f_equal; [apply (lower1_fix_iff c Hc); exact Hi1|apply IH; exact Hi2].
Qed.

(** ---------------- Join (goal 3) *)
Lemma rc_app : forall s1 s2, rc (s1 ++ s2) = rc s2 ++ rc s1.
Proof. intros. unfold rc. rewrite map_app, rev_app_distr. reflexivity. Qed.

Lemma join_keeps_qual_ok : forall v v2, qual_ok v -> qual_ok v2 -> qual_ok (join_val v v2) /\
  vseq (join_val v v2) = vseq v ++ vseq v2 /\ (vqual v <> [] -> vqual v2 <> [] -> vqual (join_val v v2) = vqual v ++ vqual v2).
Proof.
  intros v v2 H1 H2. unfold qual_ok, join_val in *. cbn [vseq vqual]. split; [|split; [reflexivity|]].
  - destruct (vqual v) as [|a q] eqn:E; [left; reflexivity|right]. destruct H1 as [H1|H1]; [discriminate|].
    rewrite !app_length, H1. f_equal. unfold quals_or_default. destruct (vqual v2) as [|b q2] eqn:E2.
    + apply repeat_length.
    + destruct H2 as [H2|H2]; [discriminate|exact H2].
  - intros N1 N2. destruct (vqual v) as [|a q]; [congruence|]. unfold quals_or_default. destruct (vqual v2); [congruence|reflexivity].
Qed.

Lemma join_orig_refuted : exists v v2, qual_ok v /\ qual_ok v2 /\ ~ qual_ok (join_val_orig v v2) /\
  join_val_orig v v2 = mkv [97;99;103;116;103;103] [1;2;3;4] None [] None.
Proof.
  exists (mkv [97;99;103;116] [1;2;3;4] None [] None), (mkv [103;103] [7;8] None [] None).
  repeat split; try (right; reflexivity). intros [H|H]; discriminate.
Qed.

(** ---------------- paired links (goal 4) *)
Definition wf_state (st : state) : Prop := forall r o, nth r (regs st) None = Some o -> (o < length (objs st))%nat.
Definition derives (o : op) : bool :=
  match o with OCopy _ | OSub _ _ _ _ | ORc _ false | OJoin _ _ false => true | _ => false end.

Lemma val_of_alloc_old : forall st v r, wf_state st -> (r < length (regs st))%nat -> val_of (snd (alloc st v)) r = val_of st r.
Proof.
  intros st v r W L. unfold val_of, obj_of, alloc. cbn [snd regs objs]. rewrite app_nth1 by exact L.
  destruct (nth r (regs st) None) as [o|] eqn:E; [|reflexivity]. rewrite nth_error_app1 by (exact (W r o E)). reflexivity.
Qed.
Lemma val_of_alloc_new : forall st v, val_of (snd (alloc st v)) (length (regs st)) = Some v.
Proof.
  intros st v. unfold val_of, obj_of, alloc. cbn [snd regs objs]. rewrite app_nth2 by lia. rewrite Nat.sub_diag. cbn [nth].
  rewrite nth_error_app2 by lia. rewrite Nat.sub_diag. reflexivity.
Qed.

(** Copy, Subsequence, fresh ReverseComplement and fresh Join: every existing register reads what it read
    before (its mate link included), and the new object has no mate *)
Lemma derived_objects : forall st o, wf_state st -> derives o = true ->
  (forall r, (r < length (regs st))%nat -> val_of (snd (step st o)) r = val_of st r) /\
  (forall v, fst (fst (fst (step st o))) = SOk -> val_of (snd (step st o)) (length (regs st)) = Some v -> vmate v = None).
Proof.
  intros st o W D.
  assert (A : forall v, (forall r, (r < length (regs st))%nat -> val_of (snd (alloc st v)) r = val_of st r) /\
              (forall w, fst (fst (fst (alloc st v))) = SOk -> val_of (snd (alloc st v)) (length (regs st)) = Some w -> vmate w = vmate v)).
  { intros v. split; [intros r L; apply val_of_alloc_old; assumption|]. intros w _ H. rewrite val_of_alloc_new in H. injection H as <-. reflexivity. }
  assert (F : forall s, (forall r, (r < length (regs st))%nat -> val_of (snd (fails s st)) r = val_of st r) /\
              (forall w : value, fst (fst (fst (fails s st))) = SOk -> val_of (snd (fails s st)) (length (regs st)) = Some w -> vmate w = None)).
  { intros s. split; [reflexivity|]. intros w _ H. unfold fails in H. cbn [snd] in H. unfold val_of, obj_of in H.
    rewrite nth_overflow in H by lia. discriminate. }
  destruct o; try discriminate D; cbn [step].
  - (* copy *) destruct (obj_of st r) as [ob|]; [|apply F]. destruct (nth_error (objs st) ob) as [v|]; [|apply F].
    destruct (A (unpaired v)) as [A1 A2]. split; [exact A1|]. intros w Hs Hw. rewrite (A2 w Hs Hw). reflexivity.
  - (* rc *) destruct inplace; [discriminate D|].
    destruct (obj_of st r) as [ob|]; [|apply F]. destruct (nth_error (objs st) ob) as [v|]; [|apply F].
    destruct (rc_val v) as [v'| |]; try apply F.
    destruct (A (unpaired v')) as [A1 A2]. split; [exact A1|]. intros w Hs Hw. rewrite (A2 w Hs Hw). reflexivity.
  - (* sub *) destruct (obj_of st r) as [ob|]; [|apply F]. destruct (nth_error (objs st) ob) as [v|]; [|apply F].
    destruct (sub_val v from to circ) as [v'| |] eqn:E; try apply F.
    destruct (A v') as [A1 A2]. split; [exact A1|]. intros w Hs Hw. rewrite (A2 w Hs Hw).
    unfold sub_val in E. destruct (sub_window (Z.of_nat (length (vseq v))) from to circ) as [[f1 t1]| |]; try discriminate.
    injection E as <-. reflexivity.
  - (* join *) destruct inplace; [discriminate D|].
    destruct (obj_of st r) as [ob|]; [|apply F]. destruct (nth_error (objs st) ob) as [v|]; [|apply F].
    destruct (obj_of st r2) as [ob2|]; [|apply F]. destruct (nth_error (objs st) ob2) as [v2|]; [|apply F].
    destruct (A (unpaired (join_val v v2))) as [A1 A2]. split; [exact A1|]. intros w Hs Hw. rewrite (A2 w Hs Hw). reflexivity.
Qed.

(** [wf_state] holds in every reachable state *)
Lemma wf_st0 : wf_state st0.
Proof. intros r o H. destruct r; discriminate H. Qed.

Lemma wf_set_obj : forall st o v, wf_state st -> wf_state (set_obj st o v).
Proof. intros st o v W r x H. unfold set_obj in *. cbn [regs objs] in *. rewrite upd_len. exact (W r x H). Qed.

Lemma wf_alloc : forall st v, wf_state st -> wf_state (snd (alloc st v)).
Proof.
  intros st v W r x H. unfold alloc in H |- *. cbn [snd regs objs] in *. rewrite app_length. cbn.
  destruct (Nat.lt_ge_cases r (length (regs st))) as [L|L].
  - rewrite app_nth1 in H by exact L. pose proof (W r x H). lia.
  - rewrite app_nth2 in H by exact L. destruct (r - length (regs st))%nat as [|k]; cbn in H; [|destruct k; discriminate]. injection H as <-. lia.
Qed.

Lemma wf_alias : forall st o, wf_state st -> (o < length (objs st))%nat -> wf_state (snd (alias st o)).
Proof.
  intros st o W Lo r x H. unfold alias in H |- *. cbn [snd regs objs] in *.
  destruct (Nat.lt_ge_cases r (length (regs st))) as [L|L].
  - rewrite app_nth1 in H by exact L. exact (W r x H).
  - rewrite app_nth2 in H by exact L. destruct (r - length (regs st))%nat as [|k]; cbn in H; [|destruct k; discriminate]. injection H as <-. exact Lo.
Qed.

Lemma wf_step : forall st o, wf_state st -> wf_state (snd (step st o)).
Proof.
  intros st o W.
  assert (ON : forall r (f : nat -> value -> (status * Z * Z) * state),
             (forall ob v, nth_error (objs st) ob = Some v -> wf_state (snd (f ob v))) ->
             wf_state (snd (match obj_of st r with
                            | None => fails SErr st
                            | Some ob => match nth_error (objs st) ob with None => fails SErr st | Some v => f ob v end end))).
  { intros r f Hf. destruct (obj_of st r) as [ob|]; [|exact W]. destruct (nth_error (objs st) ob) as [v|] eqn:E; [|exact W]. exact (Hf ob v E). }
  assert (LT : forall ob v, nth_error (objs st) ob = Some v -> (ob < length (objs st))%nat).
  { intros ob v E. apply nth_error_Some. congruence. }
  destruct o; cbn [step]; try (apply ON; intros ob v E; cbn [snd quiet]; apply wf_set_obj; exact W).
  - apply wf_alloc; exact W.
  - apply ON. intros ob v E. apply wf_alloc; exact W.
  - apply ON. intros ob v E. destruct (rc_val v); try exact W. destruct inplace; [|apply wf_alloc; exact W].
    apply wf_alias; [apply wf_set_obj; exact W|]. unfold set_obj. cbn [objs]. rewrite upd_len. exact (LT ob v E).
  - apply ON. intros ob v E. destruct (sub_val v from to circ); try exact W. apply wf_alloc; exact W.
  - apply ON. intros ob v E. apply ON. intros ob2 v2 E2. destruct inplace; [|apply wf_alloc; exact W].
    apply wf_alias; [apply wf_set_obj; exact W|]. unfold set_obj. cbn [objs]. rewrite upd_len. exact (LT ob v E).
  - apply ON. intros ob v E. apply ON. intros ob2 v2 E2.
    destruct (nth_error (objs (set_obj st ob (with_mate v (Some ob2)))) ob2); cbn [snd quiet]; repeat apply wf_set_obj; exact W.
  - apply ON. intros ob v E.
    assert (W1 : wf_state (match vmate v with
                           | Some m => match nth_error (objs st) m with Some vm => set_obj st m (with_mate vm None) | None => st end
                           | None => st end)).
    { destruct (vmate v) as [m|]; [|exact W]. destruct (nth_error (objs st) m); [apply wf_set_obj|]; exact W. }
    match goal with |- wf_state (snd (match ?x with _ => _ end)) => destruct x end; cbn [snd quiet]; [apply wf_set_obj|]; exact W1.
  - apply ON. intros ob v E. cbn [snd quiet]. intros r0 x H. cbn [regs objs] in *.
    rewrite kill_nth in H. destruct (nth r0 (regs st) None) as [o'|] eqn:E2; [|discriminate]. destruct (Nat.eqb o' ob); [discriminate|].
    injection H as <-. exact (W r0 o' E2).
  - exact W.
Qed.

Lemma wf_run : forall ops st, wf_state st -> wf_state (snd (run st ops)).
Proof.
  induction ops as [|o ops IH]; intros st W; [exact W|]. cbn [run].
  pose proof (wf_step st o W) as W1. destruct (step st o) as [r st1]. cbn [snd] in W1.
  pose proof (IH st1 W1) as W2. destruct (run st1 ops) as [rs st2]. exact W2.
Qed.

(** what the code does with the mate of a recycled object: the link of the survivor stays (stale: it names
    an object no register names any more, observable -2), UnPair then clears it *)
Lemma recycled_mate_is_stale :
  let ops := [ONew [97;99] [] None [] true; ONew [103;103] [] None [] true; OPair 0 1; OCopy 0; ORecycle 0] in
  let '(_, st) := run st0 ops in
  snapshot st = [None; Some (mkv [103;103] [] None [] (Some 0%nat), (-2)%Z); Some (mkv [97;99] [] None [] None, (-1)%Z)] /\
  snapshot (snd (step st (OUnpair 1))) = [None; Some (mkv [103;103] [] None [] None, (-1)%Z); Some (mkv [97;99] [] None [] None, (-1)%Z)].
Proof. vm_compute. split; reflexivity. Qed.

(** ---------------- real pool traces (goal 1) *)
Lemma derive_abs : forall nm cs o bufs co nm', derive nm cs o bufs = TOk (co, nm') -> abs_op co = o.
Proof.
  intros nm cs o bufs co nm' H. destruct o; cbn [derive] in H;
  repeat match type of H with
         | context [match ?x with _ => _ end] => destruct x eqn:?; try discriminate H
         | context [if ?x then _ else _] => destruct x eqn:?; try discriminate H
         end;
  injection H as <- _; reflexivity.
Qed.

Lemma trun_is_crun : forall ops steps k cs nm n cs' n', trun k cs nm ops steps n = inl (cs', n') ->
  exists cops, map abs_op cops = ops /\ snd (crun cs cops) = cs' /\
               list_eqb stepobs_eqb (fst (crun cs cops)) (map tres_obs steps) = true.
Proof.
  induction ops as [|o ops IH]; intros [|s steps] k cs nm n cs' n' H; cbn [trun] in H; try discriminate H.
  - injection H as <- _. exists []. repeat split.
  - destruct (events_ok nm cs [] (tevs s)) as [rel|]; [|discriminate H].
    destruct (derive nm cs o (tbufs s)) as [[co nm0]|e] eqn:D; [|discriminate H].
    destruct (cstep cs co) as [r cs1] eqn:C.
    destruct (negb (stepobs_eqb r (tres_obs s))) eqn:S; [discriminate H|].
    destruct (negb (Nat.eqb (tshared s) 0)); [discriminate H|].
    destruct (existsb (owned_by_live cs1) rel); [discriminate H|].
    destruct (sync_names (may_move o) cs1 (cregs cs1) (tbufs s) nm0) as [nm'|]; [|discriminate H].
    destruct (IH _ _ _ _ _ _ _ H) as [cops [E1 [E2 E3]]].
    exists (co :: cops). cbn [map crun]. rewrite C.
    destruct (crun cs1 cops) as [rs cs2] eqn:R. cbn [fst snd] in *. repeat split.
    + rewrite (derive_abs _ _ _ _ _ _ D), E1. reflexivity.
    + exact E2.
    + cbn [list_eqb]. apply negb_false_iff in S. rewrite S, E3. reflexivity.
Qed.

(** an accepted real trace IS a run of the ownership model (with the hand-out choices the real pool made), hence
    (no_shared_state) a run of the value semantics: every register reads what the value semantics predicts *)
Lemma trace_accepted_is_value_run : forall c, tcase_ok c = true ->
  exists cops, map abs_op cops = tops c /\
    let '(rs, cs) := crun cst0 cops in let '(rs', st) := run st0 (tops c) in
    rs = rs' /\ (forall r, cval_of cs r = val_of st r) /\
    list_eqb stepobs_eqb rs (map tres_obs (tsteps c)) = true /\ list_eqb ovalue_eqb (csnapshot cs) (tfinal c) = true.
Proof.
  intros c H. unfold tcase_ok, tcase_res in H.
  destruct (trun 0 cst0 [] (tops c) (tsteps c) 0) as [[cs n]|e] eqn:T; [|discriminate H].
  destruct (list_eqb ovalue_eqb (csnapshot cs) (tfinal c)) eqn:F; [|discriminate H].
  destruct (trun_is_crun _ _ _ _ _ _ _ _ T) as [cops [E1 [E2 E3]]].
  exists cops. split; [exact E1|].
  pose proof (no_shared_state cops) as NS. rewrite E1 in NS.
  destruct (crun cst0 cops) as [rs cs0]. cbn [fst snd] in *. subst cs0.
  destruct (run st0 (tops c)) as [rs' st]. destruct NS as [N1 N2].
  repeat split; assumption.
Qed.

(** the pre-pool-fix SetFeatures (the pool keeps the address of the live field: the adopted buffer is also in the pool) *)
Lemma setfeatures_orig_refuted :
  let '(_, cs1) := cstep cst0 (CNew [97;99;103;116] [] None [70;84] true CFresh CFresh CFresh) in
  let cs2 := csetfeat_orig cs1 0 [88;89] CFresh in
  let '(_, cs3) := cstep cs2 (CNew [103;103] [] None [] true (CPool 0) CFresh CFresh) in
  cval_of cs2 0 = Some (mkv [97;99;103;116] [] None [88;89] None) /\
  cval_of cs3 0 = Some (mkv [97;99;103;116] [] None [103;103] None).
Proof. vm_compute. split; reflexivity. Qed.
