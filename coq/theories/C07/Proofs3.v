(** C07 — round 3 lemmas: in-place edits (Clear / ClearQualities / WriteQualities / Grow), reverse complement of an object
    extended in place, Composition and QualitiesString. *)
From Coq Require Import NArith ZArith List Bool Lia.
From OBI.C07.Gen Require Import Tables.
From OBI.C07 Require Import Model Proofs Proofs2.
Import ListNotations.
Open Scope N_scope.

(** ---- counts *)
Fixpoint cntN (x : N) (s : list N) : N :=
  match s with [] => 0 | y :: s' => (if x =? y then 1 else 0) + cntN x s' end.
Definition is_acgt (y : N) : bool := (y =? 97) || (y =? 99) || (y =? 103) || (y =? 116).
Fixpoint othersN (s : list N) : N :=
  match s with [] => 0 | y :: s' => (if is_acgt y then 0 else 1) + othersN s' end.

Lemma comp_fold : forall s a c g o t, on_iupac s ->
  fold_left (fun m x => cnt_add (comp_slot x) m) s (comp5 a c g o t) =
  comp5 (a + cntN 97 s) (c + cntN 99 s) (g + cntN 103 s) (o + othersN s) (t + cntN 116 s).
Proof.
  induction s as [|x s IH]; intros a c g o t H.
  - cbn [fold_left cntN othersN]. rewrite !N.add_0_r. reflexivity.
  - inversion H as [|x' s' Hx Hs]; subst. cbn [fold_left].
    assert (E : cnt_add (comp_slot x) (comp5 a c g o t) =
                comp5 (a + (if 97 =? x then 1 else 0)) (c + (if 99 =? x then 1 else 0)) (g + (if 103 =? x then 1 else 0))
                      (o + (if is_acgt x then 0 else 1)) (t + (if 116 =? x then 1 else 0))).
    { unfold iupac in Hx. cbn [In] in Hx.
      repeat (destruct Hx as [<-|Hx]; [cbv - [N.add]; rewrite ?N.add_0_r; reflexivity|]). contradiction. }
    rewrite E. rewrite (IH _ _ _ _ _ Hs). cbn [cntN othersN]. unfold comp5. rewrite !N.add_assoc. reflexivity.
Qed.

Lemma composition_spec : forall s, on_iupac s ->
  composition s = comp5 (cntN 97 s) (cntN 99 s) (cntN 103 s) (othersN s) (cntN 116 s) /\
  cntN 97 s + cntN 99 s + cntN 103 s + othersN s + cntN 116 s = N.of_nat (length s).
Proof.
  intros s H. split.
  - unfold composition. rewrite (comp_fold s 0 0 0 0 0 H). reflexivity.
  - clear H. induction s as [|x s IH]; [reflexivity|]. cbn [cntN othersN length]. rewrite Nat2N.inj_succ.
    unfold is_acgt. destruct (97 =? x) eqn:E1; destruct (99 =? x) eqn:E2; destruct (103 =? x) eqn:E3; destruct (116 =? x) eqn:E4;
      try apply N.eqb_eq in E1; try apply N.eqb_eq in E2; try apply N.eqb_eq in E3; try apply N.eqb_eq in E4; subst; try discriminate;
      cbn [N.eqb Pos.eqb orb]; try lia.
    assert (F : (x =? 97) || (x =? 99) || (x =? 103) || (x =? 116) = false).
    { rewrite (N.eqb_sym x 97), (N.eqb_sym x 99), (N.eqb_sym x 103), (N.eqb_sym x 116), E1, E2, E3, E4. reflexivity. }
    rewrite F. lia.
Qed.

(** counts under reverse complement: a <-> t, c <-> g, the others stay others *)
Lemma cntN_app : forall x a b, cntN x (a ++ b) = cntN x a + cntN x b.
Proof. induction a as [|y a IH]; intros b; [reflexivity|]. cbn [app cntN]. rewrite IH. lia. Qed.
Lemma othersN_app : forall a b, othersN (a ++ b) = othersN a + othersN b.
Proof. induction a as [|y a IH]; intros b; [reflexivity|]. cbn [app othersN]. rewrite IH. lia. Qed.
Lemma cntN_rev : forall x s, cntN x (rev s) = cntN x s.
Proof. induction s as [|y s IH]; [reflexivity|]. cbn [rev]. rewrite cntN_app, IH. cbn [cntN]. lia. Qed.
Lemma othersN_rev : forall s, othersN (rev s) = othersN s.
Proof. induction s as [|y s IH]; [reflexivity|]. cbn [rev]. rewrite othersN_app, IH. cbn [othersN]. lia. Qed.

Lemma counts_map_comp : forall s, on_iupac s ->
  cntN 97 (map comp s) = cntN 116 s /\ cntN 116 (map comp s) = cntN 97 s /\
  cntN 99 (map comp s) = cntN 103 s /\ cntN 103 (map comp s) = cntN 99 s /\ othersN (map comp s) = othersN s.
Proof.
  induction s as [|x s IH]; intros H; [repeat split; reflexivity|].
  inversion H as [|x' s' Hx Hs]; subst. destruct (IH Hs) as [I1 [I2 [I3 [I4 I5]]]].
  cbn [map cntN othersN]. rewrite I1, I2, I3, I4, I5.
  unfold iupac in Hx. cbn [In] in Hx.
  repeat (destruct Hx as [<-|Hx]; [cbv - [N.add cntN othersN map]; rewrite ?N.add_0_l; repeat split; reflexivity|]). contradiction.
Qed.

Lemma composition_of_rc : forall s, on_iupac s ->
  composition (rc s) = comp5 (cntN 116 s) (cntN 103 s) (cntN 99 s) (othersN s) (cntN 97 s).
Proof.
  intros s H. destruct (rc_involutive s H) as [_ Hr]. rewrite (proj1 (composition_spec _ Hr)).
  unfold rc. rewrite !cntN_rev, othersN_rev. destruct (counts_map_comp s H) as [I1 [I2 [I3 [I4 I5]]]].
  rewrite I1, I2, I3, I4, I5. reflexivity.
Qed.

(** ---- QualitiesString *)
Lemma qual_string_spec : forall q,
  length (qual_string 33 q) = length q /\
  Forall (fun b => 33 <= b <= 126) (qual_string 33 q) /\
  qual_string 33 (rev q) = rev (qual_string 33 q) /\
  (Forall (fun x => x <= 93) q -> map (fun b => b - 33) (qual_string 33 q) = q).
Proof.
  intros q. unfold qual_string. split; [apply map_length|]. split; [|split].
  - apply Forall_forall. intros b Hb. apply in_map_iff in Hb. destruct Hb as [x [<- _]].
    destruct (93 <? x) eqn:E; [vm_compute; split; discriminate|]. apply N.ltb_ge in E.
    rewrite N.mod_small by lia. lia.
  - apply map_rev.
  - intros H. rewrite map_map. rewrite <- (map_id q) at 2. apply map_ext_in. intros x Hx.
    rewrite Forall_forall in H. specialize (H x Hx). destruct (93 <? x) eqn:E; [apply N.ltb_lt in E; lia|].
    rewrite N.mod_small by lia. lia.
Qed.

(** ---- in-place edits *)
Definition write_val (s : list N) (v : value) : value := mkv (vseq v ++ s) (vqual v) (vmm v) (vfeat v) (vmate v).

(** Clear + ClearQualities empty the object; Write + WriteQualities of as many scores as symbols keep one score per symbol when the
    object has scores or is empty *)
Lemma edits_keep_qual_ok : forall v s q, qual_ok v ->
  qual_ok (apply_edit EClearQ (apply_edit EClear v)) /\ qual_ok (apply_edit EGrow v) /\
  (length s = length q -> vqual v <> [] \/ vseq v = [] -> qual_ok (apply_edit (EWriteQ q) (write_val s v))) /\
  apply_edit (EWriteQ q) (write_val s (apply_edit EClearQ (apply_edit EClear v))) = mkv s q (vmm v) (vfeat v) (vmate v).
Proof.
  intros v s q H. split; [left; reflexivity|]. split; [exact H|]. split; [|reflexivity].
  intros L [Hq|Hs]; right; cbn [apply_edit write_val vqual vseq]; rewrite !app_length.
  - destruct H as [H|H]; [contradiction|]. lia.
  - destruct H as [H|H]; [rewrite H, Hs; cbn [length]; lia|rewrite H, Hs; cbn [length]; lia].
Qed.

(** reverse complement of an object extended in place by symbols s with scores q: the reverse complement of the extension comes
    first, with its scores reversed *)
Lemma rc_of_append : forall v s q, qual_ok v -> omm_ok (vmm v) -> length s = length q -> vqual v <> [] \/ vseq v = [] ->
  exists w w', rc_val v = Ok w /\ rc_val (apply_edit (EWriteQ q) (write_val s v)) = Ok w' /\
               vseq w' = rc s ++ vseq w /\ vqual w' = rev q ++ vqual w.
Proof.
  intros v s q Hq Hm L Hc.
  destruct (edits_keep_qual_ok v s q Hq) as [_ [_ [K _]]]. specialize (K L Hc).
  eexists. eexists. split; [apply rc_val_ok; assumption|]. split; [apply rc_val_ok; [exact Hm|exact K]|].
  cbn [vseq vqual apply_edit write_val]. split; [apply rc_app|apply rev_app_distr].
Qed.
