(** C07 — ownership model of the objects behind the value semantics of Model.v: objects own BUFFERS
    (sequence, qualities) in a heap; derived objects get their buffers from [acquire], which hands out
    either a fresh buffer or ANY buffer of the pool (choice given by the history: every hand-out order
    of sync.Pool is covered); Recycle puts the buffers of an object into the pool; pool churn scribbles
    arbitrary bytes over pooled buffers (what the harness does with 0xDB). In-place operations
    (ReverseComplement(true), writes through Sequence()/Qualities()) overwrite the object's own buffers.
    Executable definitions only; the simulation theorem is in HeapProofs.v. *)
From Coq Require Import NArith ZArith List Bool.
From OBI.C07 Require Import Model.
Import ListNotations.
Open Scope N_scope.

Inductive choice := CFresh | CPool (k : nat).            (* fresh allocation | k-th buffer of the pool *)
Record cobj := mkco { cseq : nat; cqual : nat; cfeat : nat; cmm : option mmap; cmate : option nat }.
Record cstate := mkcs { cregs : list (option nat); cobjs : list (option cobj) (* None: recycled *);
                        heap : list (list N); pool : list nat }.
Definition cst0 := mkcs [] [] [] [].

Fixpoint remove_all (b : nat) (l : list nat) : list nat :=
  match l with [] => [] | x :: t => if Nat.eqb x b then remove_all b t else x :: remove_all b t end.

(** GetSlice + copy: returns the buffer that now holds [content] *)
Definition acquire (c : choice) (content : list N) (cs : cstate) : nat * cstate :=
  let fresh := (length (heap cs), mkcs (cregs cs) (cobjs cs) (heap cs ++ [content]) (pool cs)) in
  match c with
  | CFresh => fresh
  | CPool k => match nth_error (pool cs) k with
               | Some b => if Nat.ltb b (length (heap cs))
                           then (b, mkcs (cregs cs) (cobjs cs) (upd b content (heap cs)) (remove_all b (pool cs)))
                           else fresh
               | None => fresh
               end
  end.

Definition cread (cs : cstate) (co : cobj) : value :=
  mkv (nth (cseq co) (heap cs) []) (nth (cqual co) (heap cs) []) (cmm co) (nth (cfeat co) (heap cs) []) (cmate co).

Definition cfails (s : status) (cs : cstate) : (status * Z * Z) * cstate := ((s, (-1)%Z, (-1)%Z), cs).
Definition cquiet (cs : cstate) : (status * Z * Z) * cstate := ((SOk, (-1)%Z, (-1)%Z), cs).

(** a new object holding [v] in three acquired buffers (sequence, qualities, features: the order of Copy) *)
Definition c_alloc (cs : cstate) (v : value) (c1 c2 c3 : choice) : (status * Z * Z) * cstate :=
  let '(b1, cs1) := acquire c1 (vseq v) cs in
  let '(b2, cs2) := acquire c2 (vqual v) cs1 in
  let '(b3, cs3) := acquire c3 (vfeat v) cs2 in
  ((SOk, Z.of_nat (length (cregs cs)), (-1)%Z),
   mkcs (cregs cs ++ [Some (length (cobjs cs))]) (cobjs cs ++ [Some (mkco b1 b2 b3 (vmm v) (vmate v))]) (heap cs3) (pool cs3)).

(** in place: the object's own buffers are overwritten *)
Definition c_overwrite (cs : cstate) (ob : nat) (co : cobj) (v : value) : cstate :=
  mkcs (cregs cs) (upd ob (Some (mkco (cseq co) (cqual co) (cfeat co) (vmm v) (vmate v))) (cobjs cs))
       (upd (cseq co) (vseq v) (upd (cqual co) (vqual v) (upd (cfeat co) (vfeat v) (heap cs)))) (pool cs).

Definition c_alias (cs : cstate) (ob : nat) : (status * Z * Z) * cstate :=
  ((SOk, Z.of_nat (length (cregs cs)), first_reg ob (cregs cs) 0%Z),
   mkcs (cregs cs ++ [Some ob]) (cobjs cs) (heap cs) (pool cs)).

Inductive cop :=
| CNew (s q : list N) (m : option mmap) (f : list N) (lower : bool) (c1 c2 c3 : choice)
| CCopy (r : nat) (c1 c2 c3 : choice)
| CRc (r : nat) (inplace : bool) (c1 c2 c3 : choice)
| CSub (r : nat) (from to : Z) (circ : bool) (c1 c2 c3 : choice)
| CSetSeq (r : nat) (s : list N) (c1 : choice)                (* SetSequence: a new buffer, the old one is dropped *)
| CSetQual (r : nat) (q : list N) (c1 : choice)               (* SetQualities: old buffer to the pool, then a new one *)
| CSetFeat (r : nat) (f : list N) (c1 : choice)               (* SetFeatures: old buffer to the pool, the caller's buffer is adopted *)
| CPoke (r : nat) (i b : N)
| CPokeQ (r : nat) (i b : N)
| CPokeF (r : nat) (i b : N)
| CSetMm (r : nat) (m : mmap)
| CPokeMm (r : nat) (k : key) (p : Z)
| CWrite (r : nat) (s : list N)                               (* Write*: appends through the object's own buffer *)
| CJoin (r r2 : nat) (inplace : bool) (c1 c2 c3 : choice)     (* Join: appends in place, or to a copy *)
| CPair (r r2 : nat)
| CUnpair (r : nat)
| CRecycle (r : nat)
| CChurn (k : nat) (junk : list N)                            (* scribble over the k-th pooled buffer *)
| CEdit (r : nat) (e : edit).                                 (* Clear / ClearQualities / WriteQualities / Grow: through the object's own buffers *)

Definition abs_op (c : cop) : op :=
  match c with
  | CNew s q m f l _ _ _ => ONew s q m f l | CCopy r _ _ _ => OCopy r | CRc r i _ _ _ => ORc r i
  | CSub r f t c _ _ _ => OSub r f t c | CSetSeq r s _ => OSetSeq r s | CSetQual r q _ => OSetQual r q
  | CSetFeat r f _ => OSetFeat r f
  | CPoke r i b => OPoke r i b | CPokeQ r i b => OPokeQ r i b | CPokeF r i b => OPokeF r i b | CSetMm r m => OSetMm r m
  | CRecycle r => ORecycle r | CChurn _ _ => ONop
  | CPokeMm r k p => OPokeMm r k p | CJoin r r2 i _ _ _ => OJoin r r2 i
  | CWrite r s => OWrite r s | CPair r r2 => OPair r r2 | CUnpair r => OUnpair r
  | CEdit r e => OEdit r e
  end.

Definition con (cs : cstate) (r : nat) (f : nat -> cobj -> (status * Z * Z) * cstate) : (status * Z * Z) * cstate :=
  match nth r (cregs cs) None with
  | None => cfails SErr cs
  | Some ob => match nth_error (cobjs cs) ob with Some (Some co) => f ob co | _ => cfails SErr cs end
  end.

(** write a (non-buffer) field of a live object, if the object is live *)
Definition c_setmate (cs : cstate) (ob : nat) (m : option nat) : cstate :=
  match nth_error (cobjs cs) ob with
  | Some (Some co) => c_overwrite cs ob co (with_mate (cread cs co) m)
  | _ => cs
  end.

Definition cstep (cs : cstate) (o : cop) : (status * Z * Z) * cstate :=
  match o with
  | CNew s q m f lower c1 c2 c3 => c_alloc cs (mkv (if lower then to_lower s else s) q m f None) c1 c2 c3
  | CCopy r c1 c2 c3 => con cs r (fun _ co => c_alloc cs (unpaired (cread cs co)) c1 c2 c3)
  | CRc r inplace c1 c2 c3 => con cs r (fun ob co =>
      match rc_val (cread cs co) with
      | Ok v' => if inplace then c_alias (c_overwrite cs ob co v') ob else c_alloc cs (unpaired v') c1 c2 c3
      | Err => cfails SErr cs | Panic => cfails SPanic cs end)
  | CSub r from to circ c1 c2 c3 => con cs r (fun _ co =>
      match sub_val (cread cs co) from to circ with
      | Ok v' => c_alloc cs v' c1 c2 c3 | Err => cfails SErr cs | Panic => cfails SPanic cs end)
  | CSetSeq r s c1 => con cs r (fun ob co =>
      let '(b, cs1) := acquire c1 (to_lower s) cs in
      cquiet (mkcs (cregs cs1) (upd ob (Some (mkco b (cqual co) (cfeat co) (cmm co) (cmate co))) (cobjs cs1)) (heap cs1) (pool cs1)))
  | CSetQual r q c1 => con cs r (fun ob co =>
      (* the object gives its quality buffer up (it goes to the pool) before it acquires the new one *)
      let cs0 := mkcs (cregs cs) (upd ob None (cobjs cs)) (heap cs) (cqual co :: pool cs) in
      let '(b, cs1) := acquire c1 q cs0 in
      cquiet (mkcs (cregs cs1) (upd ob (Some (mkco (cseq co) b (cfeat co) (cmm co) (cmate co))) (cobjs cs1)) (heap cs1) (pool cs1)))
  | CSetFeat r f c1 => con cs r (fun ob co =>
      let cs0 := mkcs (cregs cs) (upd ob None (cobjs cs)) (heap cs) (cfeat co :: pool cs) in
      let '(b, cs1) := acquire c1 f cs0 in
      cquiet (mkcs (cregs cs1) (upd ob (Some (mkco (cseq co) (cqual co) b (cmm co) (cmate co))) (cobjs cs1)) (heap cs1) (pool cs1)))
  | CPoke r i b => con cs r (fun ob co =>
      let v := cread cs co in cquiet (c_overwrite cs ob co (mkv (upd (N.to_nat i) b (vseq v)) (vqual v) (vmm v) (vfeat v) (vmate v))))
  | CPokeQ r i b => con cs r (fun ob co =>
      let v := cread cs co in cquiet (c_overwrite cs ob co (mkv (vseq v) (upd (N.to_nat i) b (vqual v)) (vmm v) (vfeat v) (vmate v))))
  | CPokeF r i b => con cs r (fun ob co =>
      let v := cread cs co in cquiet (c_overwrite cs ob co (mkv (vseq v) (vqual v) (vmm v) (upd (N.to_nat i) b (vfeat v)) (vmate v))))
  | CSetMm r m => con cs r (fun ob co =>
      let v := cread cs co in cquiet (c_overwrite cs ob co (mkv (vseq v) (vqual v) (Some m) (vfeat v) (vmate v))))
  | CPokeMm r k p => con cs r (fun ob co =>
      let v := cread cs co in cquiet (c_overwrite cs ob co (mkv (vseq v) (vqual v) (option_map (mm_set k p) (vmm v)) (vfeat v) (vmate v))))
  | CWrite r s => con cs r (fun ob co =>
      let v := cread cs co in cquiet (c_overwrite cs ob co (mkv (vseq v ++ s) (vqual v) (vmm v) (vfeat v) (vmate v))))
  | CJoin r r2 inplace c1 c2 c3 => con cs r (fun ob co => con cs r2 (fun _ co2 =>
      let v' := join_val (cread cs co) (cread cs co2) in
      if inplace then c_alias (c_overwrite cs ob co v') ob else c_alloc cs (unpaired v') c1 c2 c3))
  | CPair r r2 => con cs r (fun ob co => con cs r2 (fun ob2 _ =>
      cquiet (c_setmate (c_overwrite cs ob co (with_mate (cread cs co) (Some ob2))) ob2 (Some ob))))
  | CUnpair r => con cs r (fun ob co =>
      let cs1 := match cmate co with Some m => c_setmate cs m None | None => cs end in
      cquiet (c_setmate cs1 ob None))
  | CRecycle r => con cs r (fun ob co =>
      cquiet (mkcs (map (fun x => match x with Some o' => if Nat.eqb o' ob then None else x | None => None end) (cregs cs))
                   (upd ob None (cobjs cs)) (heap cs) (cseq co :: cfeat co :: cqual co :: pool cs)))
  | CChurn k junk => match nth_error (pool cs) k with
                     | Some b => cquiet (mkcs (cregs cs) (cobjs cs) (upd b junk (heap cs)) (pool cs))
                     | None => cquiet cs end
  | CEdit r e => con cs r (fun ob co => cquiet (c_overwrite cs ob co (apply_edit e (cread cs co))))
  end.

Fixpoint crun (cs : cstate) (ops : list cop) : list (status * Z * Z) * cstate :=
  match ops with
  | [] => ([], cs)
  | o :: ops' => let '(r, cs') := cstep cs o in let '(rs, cs'') := crun cs' ops' in (r :: rs, cs'')
  end.

(** what a register reads in the concrete state *)
Definition cval_of (cs : cstate) (r : nat) : option value :=
  match nth r (cregs cs) None with
  | None => None
  | Some ob => match nth_error (cobjs cs) ob with Some (Some co) => Some (cread cs co) | _ => None end
  end.

(** the pre-repair SetQualities: the pool keeps a pointer to the live field, i.e. the NEW buffer of the
    object is (also) in the pool *)
Definition csetqual_orig (cs : cstate) (r : nat) (q : list N) (c1 : choice) : cstate :=
  snd (con cs r (fun ob co =>
      let '(b, cs1) := acquire c1 q cs in
      cquiet (mkcs (cregs cs1) (upd ob (Some (mkco (cseq co) b (cfeat co) (cmm co) (cmate co))) (cobjs cs1)) (heap cs1) (b :: pool cs1)))).

(** the pre-pool-fix SetFeatures (cap >= 300): the pool keeps the address of the live field, i.e. the ADOPTED
    buffer of the object is (also) in the pool; with the repaired pool (own header) it is the old buffer *)
Definition csetfeat_orig (cs : cstate) (r : nat) (f : list N) (c1 : choice) : cstate :=
  snd (con cs r (fun ob co =>
      let '(b, cs1) := acquire c1 f cs in
      cquiet (mkcs (cregs cs1) (upd ob (Some (mkco (cseq co) (cqual co) b (cmm co) (cmate co))) (cobjs cs1)) (heap cs1) (b :: pool cs1)))).

(** ---------------- correspondence of the ownership model itself: the same histories the real objects
    ran, with hand-out choices drawn at random by the check, must read what the implementation answered *)
Definition csnapshot (cs : cstate) : list (option oval) :=
  map (fun r => match r with
                | None => None
                | Some o => match nth_error (cobjs cs) o with
                            | Some (Some co) => Some (cread cs co, mate_obs (cregs cs) (cread cs co)) | _ => None end
                end) (cregs cs).
Record ccase := mkcc { ccops : list cop; ccsteps : list (status * Z * Z); ccfinal : list (option oval) }.
Definition ccase_ok (c : ccase) : bool :=
  let '(rs, cs) := crun cst0 (ccops c) in
  list_eqb stepobs_eqb rs (ccsteps c) && list_eqb ovalue_eqb (csnapshot cs) (ccfinal c).
Fixpoint cmismatches_from (i : nat) (l : list ccase) : list nat :=
  match l with
  | [] => []
  | c :: l' => let rest := cmismatches_from (S i) l' in if ccase_ok c then rest else i :: rest
  end.
Definition heap_mismatches := cmismatches_from 0.
