(** C07 — ownership model of the objects behind the value semantics of Model.v: objects own BUFFERS
    (sequence, qualities) in a heap; derived objects get their buffers from [acquire], which hands out
    either a fresh buffer or ANY buffer of the pool (choice given by the history: every hand-out order
    of sync.Pool is covered); Recycle puts the buffers of an object into the pool; pool churn scribbles
    arbitrary bytes over pooled buffers (what the harness does with 0xDB). In-place operations
    (ReverseComplement(true), writes through Sequence()/Qualities()) overwrite the object's own buffers.
    Executable definitions only; the simulation theorem is in HeapProofs.v. *)
From Coq Require Import NArith ZArith List Bool.
From OBI.C07 Require Import Model.
Import ListNotations.
Open Scope N_scope.

Inductive choice := CFresh | CPool (k : nat).            (* fresh allocation | k-th buffer of the pool *)
Record cobj := mkco { cseq : nat; cqual : nat; cmm : option mmap }.
Record cstate := mkcs { cregs : list (option nat); cobjs : list (option cobj) (* None: recycled *);
                        heap : list (list N); pool : list nat }.
Definition cst0 := mkcs [] [] [] [].

Fixpoint remove_all (b : nat) (l : list nat) : list nat :=
  match l with [] => [] | x :: t => if Nat.eqb x b then remove_all b t else x :: remove_all b t end.

(** GetSlice + copy: returns the buffer that now holds [content] *)
Definition acquire (c : choice) (content : list N) (cs : cstate) : nat * cstate :=
  let fresh := (length (heap cs), mkcs (cregs cs) (cobjs cs) (heap cs ++ [content]) (pool cs)) in
  match c with
  | CFresh => fresh
  | CPool k => match nth_error (pool cs) k with
               | Some b => if Nat.ltb b (length (heap cs))
                           then (b, mkcs (cregs cs) (cobjs cs) (upd b content (heap cs)) (remove_all b (pool cs)))
                           else fresh
               | None => fresh
               end
  end.

Definition cread (cs : cstate) (co : cobj) : value :=
  mkv (nth (cseq co) (heap cs) []) (nth (cqual co) (heap cs) []) (cmm co).

Definition cfails (s : status) (cs : cstate) : (status * Z * Z) * cstate := ((s, (-1)%Z, (-1)%Z), cs).
Definition cquiet (cs : cstate) : (status * Z * Z) * cstate := ((SOk, (-1)%Z, (-1)%Z), cs).

(** a new object holding [v] in two acquired buffers *)
Definition c_alloc (cs : cstate) (v : value) (c1 c2 : choice) : (status * Z * Z) * cstate :=
  let '(b1, cs1) := acquire c1 (vseq v) cs in
  let '(b2, cs2) := acquire c2 (vqual v) cs1 in
  ((SOk, Z.of_nat (length (cregs cs)), (-1)%Z),
   mkcs (cregs cs ++ [Some (length (cobjs cs))]) (cobjs cs ++ [Some (mkco b1 b2 (vmm v))]) (heap cs2) (pool cs2)).

(** in place: the object's own buffers are overwritten *)
Definition c_overwrite (cs : cstate) (ob : nat) (co : cobj) (v : value) : cstate :=
  mkcs (cregs cs) (upd ob (Some (mkco (cseq co) (cqual co) (vmm v))) (cobjs cs))
       (upd (cseq co) (vseq v) (upd (cqual co) (vqual v) (heap cs))) (pool cs).

Definition c_alias (cs : cstate) (ob : nat) : (status * Z * Z) * cstate :=
  ((SOk, Z.of_nat (length (cregs cs)), first_reg ob (cregs cs) 0%Z),
   mkcs (cregs cs ++ [Some ob]) (cobjs cs) (heap cs) (pool cs)).

Inductive cop :=
| CNew (s q : list N) (m : option mmap) (c1 c2 : choice)
| CCopy (r : nat) (c1 c2 : choice)
| CRc (r : nat) (inplace : bool) (c1 c2 : choice)
| CSub (r : nat) (from to : Z) (circ : bool) (c1 c2 : choice)
| CSetSeq (r : nat) (s : list N) (c1 : choice)                (* SetSequence: a new buffer, the old one is dropped *)
| CSetQual (r : nat) (q : list N) (c1 : choice)               (* SetQualities: old buffer to the pool, then a new one *)
| CPoke (r : nat) (i b : N)
| CPokeQ (r : nat) (i b : N)
| CSetMm (r : nat) (m : mmap)
| CPokeMm (r : nat) (k : key) (p : Z)
| CJoin (r r2 : nat) (inplace : bool) (c1 c2 : choice)   (* Join: appends in place, or to a copy *)
| CRecycle (r : nat)
| CChurn (k : nat) (junk : list N).                           (* scribble over the k-th pooled buffer *)

Definition abs_op (c : cop) : op :=
  match c with
  | CNew s q m _ _ => ONew s q m | CCopy r _ _ => OCopy r | CRc r i _ _ => ORc r i
  | CSub r f t c _ _ => OSub r f t c | CSetSeq r s _ => OSetSeq r s | CSetQual r q _ => OSetQual r q
  | CPoke r i b => OPoke r i b | CPokeQ r i b => OPokeQ r i b | CSetMm r m => OSetMm r m
  | CRecycle r => ORecycle r | CChurn _ _ => ONop
  | CPokeMm r k p => OPokeMm r k p | CJoin r r2 i _ _ => OJoin r r2 i
  end.

Definition con (cs : cstate) (r : nat) (f : nat -> cobj -> (status * Z * Z) * cstate) : (status * Z * Z) * cstate :=
  match nth r (cregs cs) None with
  | None => cfails SErr cs
  | Some ob => match nth_error (cobjs cs) ob with Some (Some co) => f ob co | _ => cfails SErr cs end
  end.

Definition cstep (cs : cstate) (o : cop) : (status * Z * Z) * cstate :=
  match o with
  | CNew s q m c1 c2 => c_alloc cs (mkv (to_lower s) q m) c1 c2
  | CCopy r c1 c2 => con cs r (fun _ co => c_alloc cs (cread cs co) c1 c2)
  | CRc r inplace c1 c2 => con cs r (fun ob co =>
      match rc_val (cread cs co) with
      | Ok v' => if inplace then c_alias (c_overwrite cs ob co v') ob else c_alloc cs v' c1 c2
      | Err => cfails SErr cs | Panic => cfails SPanic cs end)
  | CSub r from to circ c1 c2 => con cs r (fun _ co =>
      match sub_val (cread cs co) from to circ with
      | Ok v' => c_alloc cs v' c1 c2 | Err => cfails SErr cs | Panic => cfails SPanic cs end)
  | CSetSeq r s c1 => con cs r (fun ob co =>
      let '(b, cs1) := acquire c1 (to_lower s) cs in
      cquiet (mkcs (cregs cs1) (upd ob (Some (mkco b (cqual co) (cmm co))) (cobjs cs1)) (heap cs1) (pool cs1)))
  | CSetQual r q c1 => con cs r (fun ob co =>
      (* the object gives its quality buffer up (it goes to the pool) before it acquires the new one *)
      let cs0 := mkcs (cregs cs) (upd ob None (cobjs cs)) (heap cs) (cqual co :: pool cs) in
      let '(b, cs1) := acquire c1 q cs0 in
      cquiet (mkcs (cregs cs1) (upd ob (Some (mkco (cseq co) b (cmm co))) (cobjs cs1)) (heap cs1) (pool cs1)))
  | CPoke r i b => con cs r (fun ob co =>
      let v := cread cs co in cquiet (c_overwrite cs ob co (mkv (upd (N.to_nat i) b (vseq v)) (vqual v) (vmm v))))
  | CPokeQ r i b => con cs r (fun ob co =>
      let v := cread cs co in cquiet (c_overwrite cs ob co (mkv (vseq v) (upd (N.to_nat i) b (vqual v)) (vmm v))))
  | CSetMm r m => con cs r (fun ob co =>
      let v := cread cs co in cquiet (c_overwrite cs ob co (mkv (vseq v) (vqual v) (Some m))))
  | CPokeMm r k p => con cs r (fun ob co =>
      let v := cread cs co in cquiet (c_overwrite cs ob co (mkv (vseq v) (vqual v) (option_map (mm_set k p) (vmm v)))))
  | CJoin r r2 inplace c1 c2 => con cs r (fun ob co => con cs r2 (fun _ co2 =>
      let v := cread cs co in let v2 := cread cs co2 in
      let v' := mkv (vseq v ++ vseq v2) (vqual v) (vmm v) in
      if inplace then c_alias (c_overwrite cs ob co v') ob else c_alloc cs v' c1 c2))
  | CRecycle r => con cs r (fun ob co =>
      cquiet (mkcs (map (fun x => match x with Some o' => if Nat.eqb o' ob then None else x | None => None end) (cregs cs))
                   (upd ob None (cobjs cs)) (heap cs) (cseq co :: cqual co :: pool cs)))
  | CChurn k junk => match nth_error (pool cs) k with
                     | Some b => cquiet (mkcs (cregs cs) (cobjs cs) (upd b junk (heap cs)) (pool cs))
                     | None => cquiet cs end
  end.

Fixpoint crun (cs : cstate) (ops : list cop) : list (status * Z * Z) * cstate :=
  match ops with
  | [] => ([], cs)
  | o :: ops' => let '(r, cs') := cstep cs o in let '(rs, cs'') := crun cs' ops' in (r :: rs, cs'')
  end.

(** what a register reads in the concrete state *)
Definition cval_of (cs : cstate) (r : nat) : option value :=
  match nth r (cregs cs) None with
  | None => None
  | Some ob => match nth_error (cobjs cs) ob with Some (Some co) => Some (cread cs co) | _ => None end
  end.

(** the pre-repair SetQualities: the pool keeps a pointer to the live field, i.e. the NEW buffer of the
    object is (also) in the pool *)
Definition csetqual_orig (cs : cstate) (r : nat) (q : list N) (c1 : choice) : cstate :=
  snd (con cs r (fun ob co =>
      let '(b, cs1) := acquire c1 q cs in
      cquiet (mkcs (cregs cs1) (upd ob (Some (mkco (cseq co) b (cmm co))) (cobjs cs1)) (heap cs1) (b :: pool cs1)))).

(** ---------------- correspondence of the ownership model itself: the same histories the real objects
    ran, with hand-out choices drawn at random by the check, must read what the implementation answered *)
Definition csnapshot (cs : cstate) : list (option value) :=
  map (fun r => match r with
                | None => None
                | Some o => match nth_error (cobjs cs) o with Some (Some co) => Some (cread cs co) | _ => None end
                end) (cregs cs).
Record ccase := mkcc { ccops : list cop; ccsteps : list (status * Z * Z); ccfinal : list (option value) }.
Definition ccase_ok (c : ccase) : bool :=
  let '(rs, cs) := crun cst0 (ccops c) in
  list_eqb stepobs_eqb rs (ccsteps c) && list_eqb ovalue_eqb (csnapshot cs) (ccfinal c).
Fixpoint cmismatches_from (i : nat) (l : list ccase) : list nat :=
  match l with
  | [] => []
  | c :: l' => let rest := cmismatches_from (S i) l' in if ccase_ok c then rest else i :: rest
  end.
Definition heap_mismatches := cmismatches_from 0.
